import GlueVerif.Lemmas.C04State
/-!
# C04 — a pixel-aligned pair of datasets: re-ordered slices select the matching points
-/
namespace GlueVerif.Lemmas.C04
open GlueVerif.ArrayUtil GlueVerif.C04

theorem idxOf_map_some : ∀ (order : List Nat) (m : Nat),
    (order.map some).idxOf (some m) = order.idxOf m
  | [], _ => rfl
  | o :: os, m => by
    simp only [List.map_cons, List.idxOf_cons, idxOf_map_some os m]
    by_cases h : o = m
    · subst h; simp
    · have h1 : (o == m) = false := by simpa using h
      have h2 : (some o == some m) = false := by simpa using h
      simp [h1, h2]

/-- `sliceHolds` axis by axis. -/
theorem sliceHolds_iff : ∀ (sh : List Nat) (sls : List ViewItem) (idx : List Nat),
    sls.length = sh.length → idx.length = sh.length →
    (Spec.sliceHolds sh sls idx = true ↔
      ∀ j, j < sh.length → Spec.stateEntryHas (sh.getD j 0) (sls.getD j fullSlice) (idx.getD j 0) = true)
  | [], [], [], _, _ => by simp [Spec.sliceHolds]
  | [], _ :: _, _, h, _ => by simp at h
  | [], [], _ :: _, _, h => by simp at h
  | _ :: _, [], _, h, _ => by simp at h
  | _ :: _, _ :: _, [], _, h => by simp at h
  | n :: ns, sl :: sls, k :: ks, h1, h2 => by
    have ih := sliceHolds_iff ns sls ks (by simpa using h1) (by simpa using h2)
    simp only [Spec.sliceHolds, Bool.and_eq_true, ih, List.length_cons]
    constructor
    · rintro ⟨h0, hr⟩ j hj
      cases j with
      | zero => simpa using h0
      | succ j => simpa using hr j (by omega)
    · intro h
      refine ⟨by simpa using h 0 (by omega), fun j hj => ?_⟩
      simpa using h (j + 1) (by omega)

theorem getD_reorderSlices (order : List Nat) (sls : List ViewItem) (j : Nat) (hj : j < order.length) :
    (reorderSlices order sls).getD j fullSlice = sls.getD (order.getD j 0) fullSlice := by
  simp [reorderSlices, List.getD, hj, fullSlice]

theorem getD_otherPoint (links : List (Option Nat)) (n : Nat) (idx : List Nat) (m : Nat) (hm : m < n) :
    (otherPoint links n idx).getD m 0 = otherCoord links idx m := by
  simp [otherPoint, List.getD, hm]

/-- **A point of this dataset is selected by the re-ordered slices iff the matching point of the other
dataset lies in the state's slices**, for a pair on the same grid: `order` is a permutation of the axes
and axis `j` of this dataset is as long as axis `order[j]` of the other one. -/
theorem sliceHolds_reorder (n : Nat) (shd she : List Nat) (order : List Nat) (sls : List ViewItem)
    (idx : List Nat) (hperm : order.Perm (List.range n)) (hd : shd.length = n) (he : she.length = n)
    (hs : sls.length = n) (hi : idx.length = n)
    (hshape : ∀ j, j < n → shd.getD j 0 = she.getD (order.getD j 0) 0) :
    Spec.sliceHolds shd (reorderSlices order sls) idx =
      Spec.sliceHolds she sls (otherPoint (order.map some) n idx) := by
  have hlen : order.length = n := by simpa using hperm.length_eq
  have hnodup : order.Nodup := (hperm.nodup_iff).mpr List.nodup_range
  have hmem : ∀ m, m ∈ order ↔ m < n := fun m => by rw [hperm.mem_iff]; simp
  rw [Bool.eq_iff_iff,
    sliceHolds_iff shd (reorderSlices order sls) idx (by simp [reorderSlices, hlen, hd]) (by omega),
    sliceHolds_iff she sls (otherPoint (order.map some) n idx) (by omega) (by simp [otherPoint, he])]
  rw [hd, he]
  constructor
  · intro h m hm
    have hin : m ∈ order := (hmem m).mpr hm
    have hj : order.idxOf m < order.length := List.idxOf_lt_length_of_mem hin
    have hget : order.getD (order.idxOf m) 0 = m := by
      simp only [List.getD, List.getElem?_eq_getElem hj, Option.getD_some]
      exact List.getElem_idxOf hj
    have := h (order.idxOf m) (by omega)
    rw [getD_reorderSlices order sls _ hj, hshape _ (by omega), hget] at this
    rw [getD_otherPoint _ _ _ _ hm,
      otherCoord_eq_getD_axisOf (order.map some) idx m (by simpa using hin)]
    simpa [axisOf, idxOf_map_some] using this
  · intro h j hj
    have hj' : j < order.length := by omega
    have hm : order.getD j 0 < n := by
      simp only [List.getD, List.getElem?_eq_getElem hj', Option.getD_some]
      exact (hmem _).mp (List.getElem_mem hj')
    have hin : order.getD j 0 ∈ order := (hmem _).mpr hm
    have hidx : order.idxOf (order.getD j 0) = j := by
      simp only [List.getD, List.getElem?_eq_getElem hj', Option.getD_some]
      exact hnodup.idxOf_getElem j hj'
    have := h (order.getD j 0) hm
    rw [getD_otherPoint _ _ _ _ hm,
      otherCoord_eq_getD_axisOf (order.map some) idx _ (by simpa using hin)] at this
    unfold axisOf at this
    rw [idxOf_map_some, hidx] at this
    rw [getD_reorderSlices order sls j hj', hshape j hj]
    exact this

end GlueVerif.Lemmas.C04
