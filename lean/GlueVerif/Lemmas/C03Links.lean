import GlueVerif.Model.Links
/-! Helper lemmas for C03: the `discover_links` loop (invariants, termination, fixpoint). -/
namespace GlueVerif.Lemmas.C03
open GlueVerif.Links
set_option linter.unusedSectionVars false

section
variable {α F : Type} [DecidableEq α]

/-! ### association lists -/

@[simp] theorem get_nil {β : Type} (c : α) : get ([] : List (α × β)) c = none := rfl

theorem get_cons {β : Type} (k : α) (v : β) (r : List (α × β)) (c : α) :
    get ((k, v) :: r) c = if c = k then some v else get r c := rfl

theorem get_init (own : List α) (c : α) :
    get (own.map fun c => (c, (0 : Nat))) c = if c ∈ own then some 0 else none := by
  induction own with
  | nil => simp
  | cons a r ih =>
    simp only [List.map_cons, get_cons, ih, List.mem_cons]
    by_cases h : c = a
    · simp [h]
    · simp [h]

/-! ### DerivLe / Reachable -/

theorem derivLe_mono {own : List α} {ls : List (Link α F)} {k : Nat} {c : α}
    (h : DerivLe own ls k c) : ∀ k', k ≤ k' → DerivLe own ls k' c := by
  induction h with
  | own hc => intro k' _; exact DerivLe.own hc
  | @link k l hl _ ih =>
    intro k' hk
    cases k' with
    | zero => omega
    | succ k'' => exact DerivLe.link hl (fun f hf => ih f hf k'' (by omega))

theorem derivLe_reachable {own : List α} {ls : List (Link α F)} {k : Nat} {c : α}
    (h : DerivLe own ls k c) : Reachable own ls c := by
  induction h with
  | own hc => exact Reachable.own hc
  | link hl _ ih => exact Reachable.link hl ih

/-- A common depth bound for finitely many inputs. -/
theorem exists_common_depth {own : List α} {ls : List (Link α F)} (fs : List α)
    (h : ∀ f ∈ fs, ∃ k, DerivLe own ls k f) : ∃ k, ∀ f ∈ fs, DerivLe own ls k f := by
  induction fs with
  | nil => exact ⟨0, by simp⟩
  | cons a r ih =>
    obtain ⟨k1, h1⟩ := h a (by simp)
    obtain ⟨k2, h2⟩ := ih (fun f hf => h f (by simp [hf]))
    refine ⟨max k1 k2, ?_⟩
    intro f hf
    rcases List.mem_cons.mp hf with rfl | hf'
    · exact derivLe_mono h1 _ (Nat.le_max_left _ _)
    · exact derivLe_mono (h2 f hf') _ (Nat.le_max_right _ _)

theorem reachable_derivLe {own : List α} {ls : List (Link α F)} {c : α}
    (h : Reachable own ls c) : ∃ k, DerivLe own ls k c := by
  induction h with
  | own hc => exact ⟨0, DerivLe.own hc⟩
  | @link l hl _ ih =>
    obtain ⟨k, hk⟩ := exists_common_depth l.froms ih
    exact ⟨k + 1, DerivLe.link hl hk⟩

theorem reachable_congr {own : List α} {ls ls' : List (Link α F)} (hm : ∀ l, l ∈ ls ↔ l ∈ ls')
    {c : α} (h : Reachable own ls c) : Reachable own ls' c := by
  induction h with
  | own hc => exact Reachable.own hc
  | link hl _ ih => exact Reachable.link ((hm _).mp hl) ih

theorem derivLe_congr {own : List α} {ls ls' : List (Link α F)} (hm : ∀ l, l ∈ ls ↔ l ∈ ls')
    {k : Nat} {c : α} (h : DerivLe own ls k c) : DerivLe own ls' k c := by
  induction h with
  | own hc => exact DerivLe.own hc
  | link hl _ ih => exact DerivLe.link ((hm _).mp hl) ih

/-! ### maxDepth? / cost? -/

theorem maxDepth?_some {depth : List (α × Nat)} {fs : List α} {m : Nat}
    (h : maxDepth? depth fs = some m) : ∀ f ∈ fs, ∃ d, get depth f = some d ∧ d ≤ m := by
  induction fs generalizing m with
  | nil => simp
  | cons a r ih =>
    unfold maxDepth? at h
    split at h
    · rename_i d m' hd hm
      injection h with h
      subst h
      intro f hf
      rcases List.mem_cons.mp hf with rfl | hf'
      · exact ⟨d, hd, Nat.le_max_left _ _⟩
      · obtain ⟨d', hd', hle⟩ := ih hm f hf'
        exact ⟨d', hd', Nat.le_trans hle (Nat.le_max_right _ _)⟩
    · cases h

/-- If every input has a recorded depth ≤ `k`, the link is accessible with max depth ≤ `k`. -/
theorem maxDepth?_of_le {depth : List (α × Nat)} {fs : List α} {k : Nat}
    (h : ∀ f ∈ fs, ∃ d, get depth f = some d ∧ d ≤ k) : ∃ m, maxDepth? depth fs = some m ∧ m ≤ k := by
  induction fs with
  | nil => exact ⟨0, rfl, Nat.zero_le _⟩
  | cons a r ih =>
    obtain ⟨d, hd, hdk⟩ := h a (by simp)
    obtain ⟨m, hm, hmk⟩ := ih (fun f hf => h f (by simp [hf]))
    refine ⟨max d m, ?_, Nat.max_le.mpr ⟨hdk, hmk⟩⟩
    simp [maxDepth?, hd, hm]

/-- The max is attained or the list is empty: `m = 0` or some input has depth exactly `m`. -/
theorem maxDepth?_attained {depth : List (α × Nat)} {fs : List α} {m : Nat}
    (h : maxDepth? depth fs = some m) : m = 0 ∨ ∃ f ∈ fs, get depth f = some m := by
  induction fs generalizing m with
  | nil => left; simpa [maxDepth?] using h.symm
  | cons a r ih =>
    unfold maxDepth? at h
    split at h
    · rename_i d m' hd hm
      injection h with h
      subst h
      by_cases hle : m' ≤ d
      · right; exact ⟨a, by simp, by rw [Nat.max_eq_left hle]; exact hd⟩
      · have : max d m' = m' := Nat.max_eq_right (by omega)
        rw [this]
        rcases ih hm with h0 | ⟨f, hf, hfd⟩
        · omega
        · right; exact ⟨f, by simp [hf], hfd⟩
    · cases h

/-- Pointwise smaller depths (same or more keys) give a smaller max. -/
theorem maxDepth?_anti {depth depth' : List (α × Nat)} {fs : List α} {m : Nat}
    (hd : ∀ c d, get depth c = some d → ∃ d', get depth' c = some d' ∧ d' ≤ d)
    (h : maxDepth? depth fs = some m) : ∃ m', maxDepth? depth' fs = some m' ∧ m' ≤ m := by
  apply maxDepth?_of_le
  intro f hf
  obtain ⟨d, hfd, hle⟩ := maxDepth?_some h f hf
  obtain ⟨d', hd', hle'⟩ := hd f d hfd
  exact ⟨d', hd', Nat.le_trans hle' hle⟩

theorem cost?_some {depth : List (α × Nat)} {l : Link α F} {c : Nat} (h : cost? depth l = some c) :
    ∃ m, maxDepth? depth l.froms = some m ∧ c = m + 1 := by
  unfold cost? at h
  split at h
  · rename_i m hm; injection h with h; exact ⟨m, hm, h.symm⟩
  · cases h

/-! ### findStep -/

theorem findStep_some {depth : List (α × Nat)} {ls : List (Link α F)} {l : Link α F} {c : Nat}
    (h : findStep depth ls = some (l, c)) :
    l ∈ ls ∧ cost? depth l = some c ∧
      (get depth l.to = none ∨ ∃ d, get depth l.to = some d ∧ c < d) := by
  induction ls with
  | nil => cases h
  | cons a r ih =>
    unfold findStep at h
    split at h
    · obtain ⟨h1, h2, h3⟩ := ih h
      exact ⟨by simp [h1], h2, h3⟩
    · rename_i c' hc'
      split at h
      · rename_i hto
        injection h with h; injection h with ha hc; subst ha; subst hc
        exact ⟨by simp, hc', Or.inl hto⟩
      · rename_i d hto
        split at h
        · rename_i hlt
          injection h with h; injection h with ha hc; subst ha; subst hc
          exact ⟨by simp, hc', Or.inr ⟨d, hto, hlt⟩⟩
        · obtain ⟨h1, h2, h3⟩ := ih h
          exact ⟨by simp [h1], h2, h3⟩

theorem findStep_none {depth : List (α × Nat)} {ls : List (Link α F)}
    (h : findStep depth ls = none) :
    ∀ l ∈ ls, ∀ c, cost? depth l = some c → ∃ d, get depth l.to = some d ∧ d ≤ c := by
  induction ls with
  | nil => simp
  | cons a r ih =>
    unfold findStep at h
    intro l hl c hc
    split at h
    · rename_i hnone
      rcases List.mem_cons.mp hl with rfl | hl'
      · rw [hnone] at hc; cases hc
      · exact ih h l hl' c hc
    · rename_i c' hc'
      split at h
      · cases h
      · rename_i d hto
        split at h
        · cases h
        · rename_i hnlt
          rcases List.mem_cons.mp hl with rfl | hl'
          · rw [hc'] at hc; injection hc with hc; subst hc
            exact ⟨d, hto, by omega⟩
          · exact ih h l hl' c hc

/-! ### the loop invariant -/

/-- Invariant of the `while True` loop of `discover_links`. -/
structure Inv (own : List α) (ls : List (Link α F)) (s : DState α F) : Prop where
  /-- every recorded depth is the depth of a real derivation -/
  sound : ∀ c d, get s.depth c = some d → DerivLe own ls d c
  /-- own cids stay at depth 0 -/
  ownZero : ∀ c ∈ own, get s.depth c = some 0
  /-- own cids never get a link -/
  ownVia : ∀ c ∈ own, get s.via c = none
  /-- a reached foreign cid has a recorded link into it whose current cost is at most the
  recorded depth -/
  via : ∀ c d, get s.depth c = some d → c ∉ own →
    ∃ l m, get s.via c = some l ∧ l ∈ ls ∧ l.to = c ∧ maxDepth? s.depth l.froms = some m ∧ m + 1 ≤ d
  /-- unreached cids have no link -/
  viaNone : ∀ c, get s.depth c = none → get s.via c = none

theorem inv_init (own : List α) (ls : List (Link α F)) : Inv own ls (initState own) := by
  refine ⟨?_, ?_, ?_, ?_, ?_⟩
  · intro c d h
    simp only [initState, get_init] at h
    split at h
    · exact DerivLe.own ‹_›
    · cases h
  · intro c hc; simp [initState, get_init, hc]
  · intro c _; simp [initState]
  · intro c d h hn
    simp only [initState, get_init, hn, if_false] at h
    cases h
  · intro c _; simp [initState]

/-- After a step every old depth is still present and not larger. -/
theorem record_depth_le {s : DState α F} {l : Link α F} {c : Nat}
    (hstep : get s.depth l.to = none ∨ ∃ d, get s.depth l.to = some d ∧ c < d) :
    ∀ x d, get s.depth x = some d → ∃ d', get (s.record l c).depth x = some d' ∧ d' ≤ d := by
  intro x d hx
  simp only [DState.record, get_cons]
  by_cases hxt : x = l.to
  · subst hxt
    rcases hstep with hn | ⟨d0, hd0, hlt⟩
    · rw [hn] at hx; cases hx
    · rw [hd0] at hx; injection hx with hx; subst hx
      exact ⟨c, by simp, by omega⟩
  · exact ⟨d, by simp [hxt, hx], Nat.le_refl _⟩

theorem inv_step {own : List α} {ls : List (Link α F)} {s : DState α F} (hI : Inv own ls s)
    {l : Link α F} {c : Nat} (h : findStep s.depth ls = some (l, c)) :
    Inv own ls (s.record l c) := by
  obtain ⟨hl, hcost, hstep⟩ := findStep_some h
  obtain ⟨m, hm, hcm⟩ := cost?_some hcost
  have hle := record_depth_le (s := s) (l := l) (c := c) hstep
  -- the target is not an own cid
  have hto : l.to ∉ own := by
    intro ho
    have := hI.ownZero _ ho
    rcases hstep with hn | ⟨d0, hd0, hlt⟩
    · rw [hn] at this; cases this
    · rw [hd0] at this; injection this with this; omega
  refine ⟨?_, ?_, ?_, ?_, ?_⟩
  · intro x d hx
    simp only [DState.record, get_cons] at hx
    split at hx
    · rename_i hxt; subst hxt
      injection hx with hx; subst hx
      rw [hcm]
      refine DerivLe.link hl ?_
      intro f hf
      obtain ⟨df, hdf, hdle⟩ := maxDepth?_some hm f hf
      exact derivLe_mono (hI.sound f df hdf) _ hdle
    · exact hI.sound x d hx
  · intro x hx
    simp only [DState.record, get_cons]
    have : x ≠ l.to := fun e => hto (e ▸ hx)
    simp [this, hI.ownZero x hx]
  · intro x hx
    simp only [DState.record, get_cons]
    have : x ≠ l.to := fun e => hto (e ▸ hx)
    simp [this, hI.ownVia x hx]
  · intro x d hx hxo
    by_cases hxt : x = l.to
    · subst hxt
      simp only [DState.record, get_cons, if_true] at hx
      injection hx with hx; subst hx
      obtain ⟨m', hm', hle'⟩ := maxDepth?_anti hle hm
      exact ⟨l, m', by simp [DState.record, get_cons], hl, rfl, hm', by omega⟩
    · simp only [DState.record, get_cons, hxt, if_false] at hx
      obtain ⟨l', m', hv, hl', hto', hm', hle'⟩ := hI.via x d hx hxo
      obtain ⟨m'', hm'', hle''⟩ := maxDepth?_anti hle hm'
      exact ⟨l', m'', by simp [DState.record, get_cons, hxt, hv], hl', hto', hm'', by omega⟩
  · intro x hx
    simp only [DState.record, get_cons] at hx ⊢
    split at hx
    · cases hx
    · rename_i hxt; simp [hxt, hI.viaNone x hx]

theorem inv_fuel {own : List α} {ls : List (Link α F)} (n : Nat) :
    ∀ s : DState α F, Inv own ls s → Inv own ls (discoverFuel n ls s) := by
  induction n with
  | zero => intro s h; exact h
  | succ n ih =>
    intro s hI
    unfold discoverFuel
    split
    · exact hI
    · rename_i l c hf
      exact ih _ (inv_step hI hf)

/-! ### termination: a potential that strictly decreases -/

theorem sum_map_le {β : Type} (xs : List β) (f g : β → Nat) (h : ∀ x ∈ xs, f x ≤ g x) :
    (xs.map f).sum ≤ (xs.map g).sum := by
  induction xs with
  | nil => simp
  | cons a r ih =>
    simp only [List.map_cons, List.sum_cons]
    have h1 := h a (by simp)
    have h2 := ih (fun x hx => h x (by simp [hx]))
    omega

theorem sum_map_lt {β : Type} (xs : List β) (f g : β → Nat) (h : ∀ x ∈ xs, f x ≤ g x)
    (x0 : β) (hx0 : x0 ∈ xs) (hlt : f x0 < g x0) : (xs.map f).sum < (xs.map g).sum := by
  induction xs with
  | nil => cases hx0
  | cons a r ih =>
    simp only [List.map_cons, List.sum_cons]
    have h1 := h a (by simp)
    have h2 := sum_map_le r f g (fun x hx => h x (by simp [hx]))
    rcases List.mem_cons.mp hx0 with rfl | hr
    · omega
    · have := ih (fun x hx => h x (by simp [hx])) hr
      omega

theorem sum_map_const_le {β : Type} (xs : List β) (f : β → Nat) (b : Nat) (h : ∀ x ∈ xs, f x ≤ b) :
    (xs.map f).sum ≤ xs.length * b := by
  induction xs with
  | nil => simp
  | cons a r ih =>
    simp only [List.map_cons, List.sum_cons, List.length_cons]
    have h1 := h a (by simp)
    have h2 := ih (fun x hx => h x (by simp [hx]))
    rw [Nat.succ_mul]; omega

/-- weight of a target: its recorded depth, or `B` while unreached -/
def wt (B : Nat) (depth : List (α × Nat)) (t : α) : Nat :=
  match get depth t with
  | some d => d
  | none => B

def phi (B : Nat) (depth : List (α × Nat)) (ls : List (Link α F)) : Nat :=
  (ls.map fun l => wt B depth l.to).sum

/-- number of links (with multiplicity) whose target is reached -/
def reachedCnt (depth : List (α × Nat)) (ls : List (Link α F)) : Nat :=
  (ls.map fun l => if (get depth l.to).isSome then 1 else 0).sum

theorem reachedCnt_le (depth : List (α × Nat)) (ls : List (Link α F)) :
    reachedCnt depth ls ≤ ls.length := by
  have := sum_map_const_le ls (fun l => if (get depth l.to).isSome then 1 else 0) 1
    (fun l _ => by split <;> omega)
  simpa [reachedCnt] using this

/-- every recorded depth is bounded by the number of links with a reached target -/
def Bnd (ls : List (Link α F)) (s : DState α F) : Prop :=
  ∀ c d, get s.depth c = some d → d ≤ reachedCnt s.depth ls

theorem bnd_init (own : List α) (ls : List (Link α F)) : Bnd ls (initState own : DState α F) := by
  intro c d h
  simp only [initState, get_init] at h
  split at h
  · injection h with h; omega
  · cases h

theorem step_facts {ls : List (Link α F)} {s : DState α F} (hB : Bnd ls s)
    {l : Link α F} {c : Nat} (h : findStep s.depth ls = some (l, c)) :
    Bnd ls (s.record l c) ∧
      phi (ls.length + 1) (s.record l c).depth ls < phi (ls.length + 1) s.depth ls := by
  obtain ⟨hl, hcost, hstep⟩ := findStep_some h
  obtain ⟨m, hm, hcm⟩ := cost?_some hcost
  -- m ≤ reachedCnt
  have hmle : m ≤ reachedCnt s.depth ls := by
    rcases maxDepth?_attained hm with h0 | ⟨f, _, hfd⟩
    · omega
    · exact hB f m hfd
  -- the count does not decrease, and increases when the target is new
  have hmono : ∀ x : Link α F, (if (get s.depth x.to).isSome then 1 else 0) ≤
      (if (get (s.record l c).depth x.to).isSome then 1 else 0) := by
    intro x
    simp only [DState.record, get_cons]
    by_cases hx : x.to = l.to
    · simp [hx]; split <;> omega
    · simp [hx]
  have hcnt : reachedCnt s.depth ls ≤ reachedCnt (s.record l c).depth ls :=
    sum_map_le ls _ _ (fun x _ => hmono x)
  have hnew : get s.depth l.to = none → reachedCnt s.depth ls < reachedCnt (s.record l c).depth ls := by
    intro hn
    refine sum_map_lt ls _ _ (fun x _ => hmono x) l hl ?_
    simp [DState.record, get_cons, hn]
  have hcle : c ≤ reachedCnt (s.record l c).depth ls := by
    rcases hstep with hn | ⟨d0, hd0, hlt⟩
    · have := hnew hn; omega
    · have := hB _ _ hd0; omega
  refine ⟨?_, ?_⟩
  · intro x d hx
    simp only [DState.record, get_cons] at hx
    split at hx
    · injection hx with hx; omega
    · have := hB x d hx; omega
  · have hL := reachedCnt_le (s.record l c).depth ls
    have hle : ∀ x ∈ ls, wt (ls.length + 1) (s.record l c).depth x.to ≤ wt (ls.length + 1) s.depth x.to := by
      intro x _
      simp only [wt, DState.record, get_cons]
      by_cases hx : x.to = l.to
      · simp only [hx, if_true]
        rcases hstep with hn | ⟨d0, hd0, hlt⟩
        · rw [hn]; simp only; omega
        · rw [hd0]; simp only; omega
      · simp [hx]
    refine sum_map_lt ls _ _ hle l hl ?_
    simp only [wt, DState.record, get_cons, if_true]
    rcases hstep with hn | ⟨d0, hd0, hlt⟩
    · rw [hn]; simp only; omega
    · rw [hd0]; simp only; omega

theorem bnd_fuel {ls : List (Link α F)} (n : Nat) :
    ∀ s : DState α F, Bnd ls s → Bnd ls (discoverFuel n ls s) := by
  induction n with
  | zero => intro s h; exact h
  | succ n ih =>
    intro s hB
    unfold discoverFuel
    split
    · exact hB
    · rename_i l c hf
      exact ih _ (step_facts hB hf).1

theorem stable_fuel {ls : List (Link α F)} (n : Nat) :
    ∀ s : DState α F, Bnd ls s → phi (ls.length + 1) s.depth ls < n →
      findStep (discoverFuel n ls s).depth ls = none := by
  induction n with
  | zero => intro s _ h; omega
  | succ n ih =>
    intro s hB hphi
    unfold discoverFuel
    split
    · assumption
    · rename_i l c hf
      have := step_facts hB hf
      exact ih _ this.1 (by omega)

theorem phi_init_lt (own : List α) (ls : List (Link α F)) :
    phi (ls.length + 1) (initState own : DState α F).depth ls < fuelBound ls := by
  have := sum_map_const_le ls (fun l => wt (ls.length + 1) (initState own : DState α F).depth l.to)
    (ls.length + 1) (by
      intro l _
      simp only [wt, initState, get_init]
      split
      · rename_i d hd
        split at hd
        · injection hd with hd; omega
        · cases hd
      · omega)
  simp only [phi, fuelBound]
  omega

/-- The loop stops at a fixpoint within the fuel bound. -/
theorem discover_stable (own : List α) (ls : List (Link α F)) :
    findStep (discoverLinks own ls).depth ls = none :=
  stable_fuel _ _ (bnd_init own ls) (phi_init_lt own ls)

theorem discover_inv (own : List α) (ls : List (Link α F)) : Inv own ls (discoverLinks own ls) :=
  inv_fuel _ _ (inv_init own ls)

theorem discover_depth_le_length (own : List α) (ls : List (Link α F)) (c : α) (d : Nat)
    (h : get (discoverLinks own ls).depth c = some d) : d ≤ ls.length :=
  Nat.le_trans (bnd_fuel _ _ (bnd_init own ls) c d h) (reachedCnt_le _ _)

/-! ### consequences of invariant + fixpoint -/

/-- A state in which the loop has stopped. -/
structure Fix (own : List α) (ls : List (Link α F)) (s : DState α F) : Prop where
  inv : Inv own ls s
  stable : findStep s.depth ls = none

theorem discover_fix (own : List α) (ls : List (Link α F)) : Fix own ls (discoverLinks own ls) :=
  ⟨discover_inv own ls, discover_stable own ls⟩

/-- Completeness with depth: whatever has a derivation of depth ≤ `k` is recorded at depth ≤ `k`. -/
theorem fix_complete {own : List α} {ls : List (Link α F)} {s : DState α F} (hF : Fix own ls s)
    {k : Nat} {c : α} (h : DerivLe own ls k c) : ∃ d, get s.depth c = some d ∧ d ≤ k := by
  induction h with
  | own hc => exact ⟨0, hF.inv.ownZero _ hc, Nat.zero_le _⟩
  | @link k l hl _ ih =>
    obtain ⟨m, hm, hmk⟩ := maxDepth?_of_le ih
    have hc : cost? s.depth l = some (m + 1) := by simp [cost?, hm]
    obtain ⟨d, hd, hdle⟩ := findStep_none hF.stable l hl _ hc
    exact ⟨d, hd, by omega⟩

theorem fix_reachable {own : List α} {ls : List (Link α F)} {s : DState α F} (hF : Fix own ls s)
    (c : α) : (get s.depth c).isSome = true ↔ Reachable own ls c := by
  constructor
  · intro h
    cases hd : get s.depth c with
    | none => rw [hd] at h; cases h
    | some d => exact derivLe_reachable (hF.inv.sound c d hd)
  · intro h
    obtain ⟨k, hk⟩ := reachable_derivLe h
    obtain ⟨d, hd, _⟩ := fix_complete hF hk
    simp [hd]

/-- At the fixpoint the recorded link of a foreign cid has cost exactly the recorded depth. -/
theorem fix_via {own : List α} {ls : List (Link α F)} {s : DState α F} (hF : Fix own ls s)
    {c : α} {d : Nat} (hd : get s.depth c = some d) (hc : c ∉ own) :
    ∃ l m, get s.via c = some l ∧ l ∈ ls ∧ l.to = c ∧ maxDepth? s.depth l.froms = some m ∧ m + 1 = d := by
  obtain ⟨l, m, hv, hl, hto, hm, hle⟩ := hF.inv.via c d hd hc
  have hcost : cost? s.depth l = some (m + 1) := by simp [cost?, hm]
  obtain ⟨d', hd', hle'⟩ := findStep_none hF.stable l hl _ hcost
  rw [hto, hd] at hd'
  injection hd' with hd'
  exact ⟨l, m, hv, hl, hto, hm, by omega⟩

/-! ### layers and `specDepth` -/

theorem mem_layer (own : List α) (ls : List (Link α F)) (k : Nat) (c : α) :
    c ∈ layer own ls k ↔ DerivLe own ls k c := by
  induction k generalizing c with
  | zero =>
    constructor
    · intro h; exact DerivLe.own h
    · intro h; cases h with
      | own hc => exact hc
  | succ k ih =>
    simp only [layer, nextLayer, List.mem_append, List.mem_map, List.mem_filter, List.all_eq_true,
      decide_eq_true_eq]
    constructor
    · rintro (h | ⟨l, ⟨hl, hall⟩, rfl⟩)
      · exact DerivLe.own h
      · exact DerivLe.link hl (fun f hf => (ih f).mp (hall f hf))
    · intro h
      cases h with
      | own hc => exact Or.inl hc
      | link hl hfs => exact Or.inr ⟨_, ⟨hl, fun f hf => (ih f).mpr (hfs f hf)⟩, rfl⟩

theorem firstLayer_some {own : List α} {ls : List (Link α F)} {c : α} (n : Nat) :
    ∀ k0 k cur, cur = layer own ls k0 → firstLayer own ls c n k0 cur = some k →
      c ∈ layer own ls k ∧ k0 ≤ k ∧ k ≤ k0 + n ∧ ∀ j, k0 ≤ j → j < k → c ∉ layer own ls j := by
  induction n with
  | zero =>
    intro k0 k cur hcur h
    subst hcur
    simp only [firstLayer] at h
    split at h
    · injection h with h; subst h
      exact ⟨‹_›, Nat.le_refl _, by omega, fun j h1 h2 => by omega⟩
    · cases h
  | succ n ih =>
    intro k0 k cur hcur h
    subst hcur
    simp only [firstLayer] at h
    split at h
    · injection h with h; subst h
      exact ⟨‹_›, Nat.le_refl _, by omega, fun j h1 h2 => by omega⟩
    · rename_i hn
      obtain ⟨h1, h2, h3, h4⟩ := ih (k0 + 1) k _ rfl h
      refine ⟨h1, by omega, by omega, ?_⟩
      intro j hj hjk
      by_cases hj0 : j = k0
      · subst hj0; exact hn
      · exact h4 j (by omega) hjk

theorem firstLayer_none {own : List α} {ls : List (Link α F)} {c : α} (n : Nat) :
    ∀ k0 cur, cur = layer own ls k0 → firstLayer own ls c n k0 cur = none →
      ∀ j, k0 ≤ j → j ≤ k0 + n → c ∉ layer own ls j := by
  induction n with
  | zero =>
    intro k0 cur hcur h j h1 h2
    subst hcur
    simp only [firstLayer] at h
    split at h
    · cases h
    · have : j = k0 := by omega
      subst this; assumption
  | succ n ih =>
    intro k0 cur hcur h j h1 h2
    subst hcur
    simp only [firstLayer] at h
    split at h
    · cases h
    · rename_i hn
      by_cases hj0 : j = k0
      · subst hj0; exact hn
      · exact ih (k0 + 1) _ rfl h j (by omega) (by omega)

/-- Every reachable cid has a derivation of depth at most the number of links. -/
theorem reachable_derivLe_length {own : List α} {ls : List (Link α F)} {c : α}
    (h : Reachable own ls c) : DerivLe own ls ls.length c := by
  have hF := discover_fix own ls
  have := (fix_reachable hF c).mpr h
  cases hd : get (discoverLinks own ls).depth c with
  | none => rw [hd] at this; cases this
  | some d =>
    exact derivLe_mono (hF.inv.sound c d hd) _ (discover_depth_le_length own ls c d hd)

theorem specDepth_some {own : List α} {ls : List (Link α F)} {c : α} {k : Nat}
    (h : specDepth own ls c = some k) :
    DerivLe own ls k c ∧ ∀ j, DerivLe own ls j c → k ≤ j := by
  obtain ⟨h1, _, _, h4⟩ := firstLayer_some _ _ _ _ rfl h
  refine ⟨(mem_layer _ _ _ _).mp h1, ?_⟩
  intro j hj
  apply Classical.byContradiction
  intro hlt
  exact h4 j (Nat.zero_le _) (by omega) ((mem_layer _ _ _ _).mpr hj)

theorem specDepth_none {own : List α} {ls : List (Link α F)} {c : α}
    (h : specDepth own ls c = none) : ¬ Reachable own ls c := by
  intro hr
  have := reachable_derivLe_length hr
  exact firstLayer_none _ _ _ rfl h ls.length (Nat.zero_le _) (by omega) ((mem_layer _ _ _ _).mpr this)

theorem specDepth_isSome_iff (own : List α) (ls : List (Link α F)) (c : α) :
    (specDepth own ls c).isSome = true ↔ Reachable own ls c := by
  constructor
  · intro h
    cases hd : specDepth own ls c with
    | none => rw [hd] at h; cases h
    | some k => exact derivLe_reachable (specDepth_some hd).1
  · intro h
    cases hd : specDepth own ls c with
    | none => exact absurd h (specDepth_none hd)
    | some k => rfl

theorem specDepth_congr {own : List α} {ls ls' : List (Link α F)} (hm : ∀ l, l ∈ ls ↔ l ∈ ls')
    (c : α) {k : Nat} (h : specDepth own ls c = some k) :
    DerivLe own ls' k c ∧ ∀ j, DerivLe own ls' j c → k ≤ j := by
  obtain ⟨h1, h2⟩ := specDepth_some h
  exact ⟨derivLe_congr hm h1, fun j hj => h2 j (derivLe_congr (fun l => (hm l).symm) hj)⟩

/-- The recorded depth is `specDepth` (for any scan list with the same members). -/
theorem fix_depth_eq_spec {own : List α} {ls ls' : List (Link α F)} (hm : ∀ l, l ∈ ls ↔ l ∈ ls')
    {s : DState α F} (hF : Fix own ls' s) (c : α) : get s.depth c = specDepth own ls c := by
  cases hs : specDepth own ls c with
  | none =>
    cases hd : get s.depth c with
    | none => rfl
    | some d =>
      exact absurd (reachable_congr (fun l => (hm l).symm) (derivLe_reachable (hF.inv.sound c d hd)))
        (specDepth_none hs)
  | some k =>
    obtain ⟨h1, h2⟩ := specDepth_congr hm c hs
    obtain ⟨d, hd, hdk⟩ := fix_complete hF h1
    have := h2 d (hF.inv.sound c d hd)
    rw [hd]; congr 1; omega

/-! ### values -/

variable {V : Type}

theorem allSome_map_mono {β : Type} (fs : List α) (g g' : α → Option β)
    (h : ∀ f ∈ fs, ∀ v, g f = some v → g' f = some v) {vs : List β}
    (hs : allSome (fs.map g) = some vs) : allSome (fs.map g') = some vs := by
  induction fs generalizing vs with
  | nil => simpa [allSome] using hs
  | cons a r ih =>
    simp only [List.map_cons] at hs ⊢
    cases ha : g a with
    | none => rw [ha] at hs; simp [allSome] at hs
    | some v =>
      rw [ha] at hs
      rw [h a (by simp) v ha]
      simp only [allSome] at hs ⊢
      cases hr : allSome (r.map g) with
      | none => rw [hr] at hs; cases hs
      | some ws =>
        rw [hr] at hs
        rw [ih (fun f hf => h f (by simp [hf])) hr]
        exact hs

theorem allSome_map_exists {β : Type} (fs : List α) (g : α → Option β)
    (h : ∀ f ∈ fs, ∃ v, g f = some v) : ∃ vs, allSome (fs.map g) = some vs := by
  induction fs with
  | nil => exact ⟨[], rfl⟩
  | cons a r ih =>
    obtain ⟨v, hv⟩ := h a (by simp)
    obtain ⟨vs, hvs⟩ := ih (fun f hf => h f (by simp [hf]))
    exact ⟨v :: vs, by simp [allSome, hv, hvs]⟩

theorem allSome_map_get {β : Type} (fs : List α) (g : α → Option β) {vs : List β}
    (hs : allSome (fs.map g) = some vs) (dflt : β) :
    (∀ f ∈ fs, g f = some ((g f).getD dflt)) ∧ vs = fs.map (fun f => (g f).getD dflt) := by
  induction fs generalizing vs with
  | nil => simp [allSome] at hs; simp [hs]
  | cons a r ih =>
    simp only [List.map_cons] at hs
    cases ha : g a with
    | none => rw [ha] at hs; simp [allSome] at hs
    | some v =>
      rw [ha] at hs
      simp only [allSome] at hs
      cases hr : allSome (r.map g) with
      | none => rw [hr] at hs; cases hs
      | some ws =>
        rw [hr] at hs
        injection hs with hs
        obtain ⟨h1, h2⟩ := ih hr
        refine ⟨?_, ?_⟩
        · intro f hf
          rcases List.mem_cons.mp hf with rfl | hf'
          · simp [ha]
          · exact h1 f hf'
        · simp [← hs, ha, h2]

theorem evalC_mono (own : List α) (ownVal : α → V) (app : F → List V → V)
    (via : List (α × Link α F)) (n : Nat) :
    ∀ c v, evalC own ownVal app via n c = some v → evalC own ownVal app via (n + 1) c = some v := by
  induction n with
  | zero => intro c v h; simp [evalC] at h
  | succ n ih =>
    intro c v h
    rw [evalC] at h ⊢
    split
    · rename_i hc; simpa [hc] using h
    · rename_i hc
      simp only [hc, if_false] at h
      split
      · rename_i hv; simp [hv] at h
      · rename_i l hv
        simp only [hv] at h
        split at h
        · rename_i vs hvs
          rw [allSome_map_mono l.froms _ _ (fun f _ v hfv => ih f v hfv) hvs]
          exact h
        · cases h

theorem evalC_mono_add (own : List α) (ownVal : α → V) (app : F → List V → V)
    (via : List (α × Link α F)) (n k : Nat) (c : α) (v : V)
    (h : evalC own ownVal app via n c = some v) : evalC own ownVal app via (n + k) c = some v := by
  induction k with
  | zero => exact h
  | succ k ih => exact evalC_mono own ownVal app via (n + k) c v ih

theorem evalC_mono_le (own : List α) (ownVal : α → V) (app : F → List V → V)
    (via : List (α × Link α F)) {n n' : Nat} (hle : n ≤ n') (c : α) (v : V)
    (h : evalC own ownVal app via n c = some v) : evalC own ownVal app via n' c = some v := by
  have := evalC_mono_add own ownVal app via n (n' - n) c v h
  rwa [Nat.add_sub_cancel' hle] at this

/-- In a fixpoint state every reached cid evaluates, with fuel `depth + 1`. -/
theorem fix_eval {own : List α} {ls : List (Link α F)} {s : DState α F} (hF : Fix own ls s)
    (ownVal : α → V) (app : F → List V → V) :
    ∀ d c, get s.depth c = some d → ∃ v, evalC own ownVal app s.via (d + 1) c = some v := by
  intro d
  induction d using Nat.strongRecOn with
  | _ d ih =>
    intro c hd
    by_cases hc : c ∈ own
    · exact ⟨ownVal c, by simp [evalC, hc]⟩
    · obtain ⟨l, m, hv, hl, hto, hm, hmd⟩ := fix_via hF hd hc
      have hfs : ∀ f ∈ l.froms, ∃ v, evalC own ownVal app s.via d f = some v := by
        intro f hf
        obtain ⟨df, hdf, hle⟩ := maxDepth?_some hm f hf
        obtain ⟨v, hv⟩ := ih df (by omega) f hdf
        exact ⟨v, evalC_mono_le own ownVal app s.via (by omega) f v hv⟩
      obtain ⟨vs, hvs⟩ := allSome_map_exists l.froms _ hfs
      exact ⟨app l.fn vs, by simp [evalC, hc, hv, hvs]⟩

/-- The local equation satisfied by the table `evalC (N+1)` in a fixpoint state. -/
theorem fix_out_local {own : List α} {ls : List (Link α F)} {s : DState α F} (hF : Fix own ls s)
    (ownVal : α → V) (app : F → List V → V) (N : Nat)
    (hN : ∀ c d, get s.depth c = some d → d ≤ N)
    {c : α} {d : Nat} (hd : get s.depth c = some d) (hc : c ∉ own) :
    ∃ l m vs, l ∈ ls ∧ l.to = c ∧ maxDepth? s.depth l.froms = some m ∧ m + 1 = d ∧
      allSome (l.froms.map (evalC own ownVal app s.via (N + 1))) = some vs ∧
      evalC own ownVal app s.via (N + 1) c = some (app l.fn vs) := by
  obtain ⟨l, m, hv, hl, hto, hm, hmd⟩ := fix_via hF hd hc
  have hdN := hN c d hd
  have hfs : ∀ f ∈ l.froms, ∃ v, evalC own ownVal app s.via N f = some v := by
    intro f hf
    obtain ⟨df, hdf, hle⟩ := maxDepth?_some hm f hf
    obtain ⟨v, hv⟩ := fix_eval hF ownVal app df f hdf
    exact ⟨v, evalC_mono_le own ownVal app s.via (by omega) f v hv⟩
  obtain ⟨vs, hvs⟩ := allSome_map_exists l.froms _ hfs
  have hvs' : allSome (l.froms.map (evalC own ownVal app s.via (N + 1))) = some vs :=
    allSome_map_mono l.froms _ _ (fun f _ v hfv => evalC_mono own ownVal app s.via N f v hfv) hvs
  exact ⟨l, m, vs, hl, hto, hm, hmd, hvs', by simp [evalC, hc, hv, hvs]⟩

theorem fix_out_none {own : List α} {ls : List (Link α F)} {s : DState α F} (hF : Fix own ls s)
    (ownVal : α → V) (app : F → List V → V) (N : Nat) {c : α} (hd : get s.depth c = none) :
    evalC own ownVal app s.via N c = none := by
  cases N with
  | zero => rfl
  | succ N =>
    have hc : c ∉ own := by
      intro ho; rw [hF.inv.ownZero c ho] at hd; cases hd
    simp [evalC, hc, hF.inv.viaNone c hd]

/-- The oracle predicate holds for what `discover_links` installs, for every scan list with the
same members as `ls`. -/
theorem discover_specOkAt [DecidableEq V] (own : List α) (ls ls' : List (Link α F))
    (hm : ∀ l, l ∈ ls ↔ l ∈ ls') (ownVal : α → V) (app : F → List V → V) (c : α) :
    specOkAt own ls ownVal app
      (installedVal own ownVal app ls' (discoverLinks own ls')) c = true := by
  have hF := discover_fix own ls'
  have hN : ∀ c d, get (discoverLinks own ls').depth c = some d → d ≤ ls'.length + 1 :=
    fun c d h => Nat.le_succ_of_le (discover_depth_le_length own ls' c d h)
  unfold specOkAt
  by_cases hc : c ∈ own
  · simp [hc, installedVal, evalC]
  · simp only [hc, if_false]
    rw [← fix_depth_eq_spec hm hF c]
    cases hd : get (discoverLinks own ls').depth c with
    | none => simp [installedVal, fix_out_none hF ownVal app _ hd]
    | some d =>
      obtain ⟨l, m, vs, hl, hto, hmx, hmd, hvs, hev⟩ := fix_out_local hF ownVal app _ hN hd hc
      subst hmd
      simp only [Bool.and_eq_true, Option.isSome_iff_exists, List.any_eq_true]
      refine ⟨⟨_, hev⟩, l, (hm l).mpr hl, ?_⟩
      refine ⟨⟨by simp [hto], ?_⟩, ?_⟩
      · simp only [List.all_eq_true, decide_eq_true_eq]
        intro f hf
        obtain ⟨df, hdf, hle⟩ := maxDepth?_some hmx f hf
        exact (mem_layer _ _ _ _).mpr
          (derivLe_mono (derivLe_congr (fun l => (hm l).symm) (hF.inv.sound f df hdf)) _ hle)
      · show (installedVal own ownVal app ls' (discoverLinks own ls') c ==
          match allSome (l.froms.map (installedVal own ownVal app ls' (discoverLinks own ls'))) with
          | some vs => some (app l.fn vs)
          | none => none) = true
        have : (l.froms.map (installedVal own ownVal app ls' (discoverLinks own ls'))) =
            l.froms.map (evalC own ownVal app (discoverLinks own ls').via (ls'.length + 1 + 1)) := rfl
        rw [this, hvs]
        simp [installedVal, hev]

/-- The local oracle condition implies the global statement: whatever a table satisfying it
reads for a cid is the value of a derivation all of whose sub-derivations have least depth. -/
theorem specOk_minVal [DecidableEq V] (own : List α) (ls : List (Link α F)) (ownVal : α → V)
    (app : F → List V → V) (out : α → Option V)
    (hok : ∀ c, specOkAt own ls ownVal app out c = true) :
    ∀ k c v, DerivLe own ls k c → out c = some v → MinVal own ls ownVal app c v := by
  intro k
  induction k using Nat.strongRecOn with
  | _ k ih =>
    intro c v hk hv
    have h := hok c
    unfold specOkAt at h
    by_cases hc : c ∈ own
    · simp only [hc, if_true, hv, beq_iff_eq] at h
      injection h with h; subst h
      exact MinVal.own hc
    · simp only [hc, if_false] at h
      cases hs : specDepth own ls c with
      | none => simp [hs, hv] at h
      | some d =>
        cases d with
        | zero => simp [hs] at h
        | succ j =>
          simp only [hs, Bool.and_eq_true, List.any_eq_true, decide_eq_true_eq, List.all_eq_true,
            beq_iff_eq] at h
          obtain ⟨_, l, hl, ⟨hto, hall⟩, heq⟩ := h
          obtain ⟨hmin1, hmin2⟩ := specDepth_some hs
          have hjk : j + 1 ≤ k := hmin2 k hk
          cases hvs : allSome (l.froms.map out) with
          | none => rw [hvs, hv] at heq; cases heq
          | some vs =>
            rw [hvs, hv] at heq
            injection heq with heq
            obtain ⟨hget, hmap⟩ := allSome_map_get l.froms out hvs v
            have hfs : ∀ f ∈ l.froms, DerivLe own ls j f :=
              fun f hf => (mem_layer _ _ _ _).mp (hall f hf)
            have hnot : ¬ DerivLe own ls j l.to := by
              intro hd; rw [hto] at hd; have := hmin2 j hd; omega
            have hsub : ∀ f ∈ l.froms, MinVal own ls ownVal app f ((out f).getD v) :=
              fun f hf => ih j (by omega) f _ (hfs f hf) (hget f hf)
            have := MinVal.link (ownVal := ownVal) (app := app) (fun f => (out f).getD v) hl
              (by rw [hto]; exact hc) hfs hnot hsub
            rw [hto, ← hmap, ← heq] at this
            exact this

/-! ### more fuel changes nothing -/

theorem discoverFuel_stable {ls : List (Link α F)} {s : DState α F}
    (h : findStep s.depth ls = none) (k : Nat) : discoverFuel k ls s = s := by
  cases k with
  | zero => rfl
  | succ k => simp [discoverFuel, h]

theorem discoverFuel_add (ls : List (Link α F)) (n k : Nat) :
    ∀ s : DState α F, discoverFuel (n + k) ls s = discoverFuel k ls (discoverFuel n ls s) := by
  induction n with
  | zero => intro s; simp [discoverFuel]
  | succ n ih =>
    intro s
    rw [Nat.add_right_comm]
    cases hf : findStep s.depth ls with
    | none =>
      rw [discoverFuel_stable hf, discoverFuel_stable hf, discoverFuel_stable hf]
    | some p =>
      obtain ⟨l, c⟩ := p
      simp only [discoverFuel, hf]
      exact ih _

/-- keys of the installed dict = reached cids that are not own -/
theorem fix_via_isSome {own : List α} {ls : List (Link α F)} {s : DState α F} (hF : Fix own ls s)
    (c : α) : (get s.via c).isSome = true ↔ ((get s.depth c).isSome = true ∧ c ∉ own) := by
  constructor
  · intro h
    have hno : c ∉ own := by
      intro ho; rw [hF.inv.ownVia c ho] at h; cases h
    cases hd : get s.depth c with
    | none => rw [hF.inv.viaNone c hd] at h; cases h
    | some d => exact ⟨rfl, hno⟩
  · rintro ⟨h, hno⟩
    cases hd : get s.depth c with
    | none => rw [hd] at h; cases h
    | some d =>
      obtain ⟨l, m, hv, _⟩ := hF.inv.via c d hd hno
      simp [hv]

/-- readable exactly when reachable -/
theorem fix_installed_isSome {own : List α} {ls : List (Link α F)} {s : DState α F}
    (hF : Fix own ls s) (ownVal : α → V) (app : F → List V → V) (N : Nat)
    (hN : ∀ c d, get s.depth c = some d → d + 1 ≤ N) (c : α) :
    (evalC own ownVal app s.via N c).isSome = true ↔ Reachable own ls c := by
  rw [← fix_reachable hF c]
  cases hd : get s.depth c with
  | none => simp [fix_out_none hF ownVal app N hd]
  | some d =>
    obtain ⟨v, hv⟩ := fix_eval hF ownVal app d c hd
    have := evalC_mono_le own ownVal app s.via (hN c d hd) c v hv
    simp [this]

/-! ### links that can never be evaluated are irrelevant -/

theorem maxDepth?_none_of_mem {depth : List (α × Nat)} {fs : List α} {f : α} (hf : f ∈ fs)
    (h : get depth f = none) : maxDepth? depth fs = none := by
  induction fs with
  | nil => cases hf
  | cons a r ih =>
    unfold maxDepth?
    rcases List.mem_cons.mp hf with rfl | hf'
    · rw [h]
    · rw [ih hf']
      cases get depth a <;> rfl

theorem findStep_filter (depth : List (α × Nat)) (keep : Link α F → Bool) (ls : List (Link α F))
    (h : ∀ l ∈ ls, keep l = false → cost? depth l = none) :
    findStep depth (ls.filter keep) = findStep depth ls := by
  induction ls with
  | nil => rfl
  | cons a r ih =>
    have ihr := ih (fun l hl => h l (List.mem_cons_of_mem _ hl))
    cases hk : keep a with
    | true =>
      rw [List.filter_cons_of_pos (by simpa using hk)]
      simp only [findStep, ihr]
    | false =>
      rw [List.filter_cons_of_neg (by simp [hk])]
      have := h a (List.mem_cons_self ..) hk
      simp only [findStep, this, ihr]

/-- Dropping links one of whose inputs is not reachable does not change a single iteration of the
loop, hence not its result. -/
theorem discoverFuel_filter {own : List α} {ls : List (Link α F)} (keep : Link α F → Bool)
    (hdrop : ∀ l ∈ ls, keep l = false → ∃ f ∈ l.froms, ¬ Reachable own ls f) (n : Nat) :
    ∀ s : DState α F, Inv own ls s → discoverFuel n (ls.filter keep) s = discoverFuel n ls s := by
  induction n with
  | zero => intro s _; rfl
  | succ n ih =>
    intro s hI
    have hfs : findStep s.depth (ls.filter keep) = findStep s.depth ls := by
      apply findStep_filter
      intro l hl hk
      obtain ⟨f, hf, hnr⟩ := hdrop l hl hk
      have hnone : get s.depth f = none := by
        cases hd : get s.depth f with
        | none => rfl
        | some d => exact absurd (derivLe_reachable (hI.sound f d hd)) hnr
      simp [cost?, maxDepth?_none_of_mem hf hnone]
    unfold discoverFuel
    rw [hfs]
    cases hf : findStep s.depth ls with
    | none => rfl
    | some p =>
      obtain ⟨l, c⟩ := p
      exact ih _ (inv_step hI hf)

theorem fuelBound_mono {ls ls' : List (Link α F)} (h : ls'.length ≤ ls.length) :
    fuelBound ls' ≤ fuelBound ls := by
  have : ls'.length * (ls'.length + 1) ≤ ls.length * (ls.length + 1) :=
    Nat.mul_le_mul h (Nat.succ_le_succ h)
  simp only [fuelBound]
  omega

theorem discoverLinks_filter (own : List α) (ls : List (Link α F)) (keep : Link α F → Bool)
    (hdrop : ∀ l ∈ ls, keep l = false → ∃ f ∈ l.froms, ¬ Reachable own ls f) :
    discoverLinks own (ls.filter keep) = discoverLinks own ls := by
  have hle : fuelBound (ls.filter keep) ≤ fuelBound ls := fuelBound_mono (List.length_filter_le _ _)
  have h1 : discoverFuel (fuelBound ls) (ls.filter keep) (initState own) =
      discoverLinks own (ls.filter keep) := by
    have : fuelBound ls = fuelBound (ls.filter keep) + (fuelBound ls - fuelBound (ls.filter keep)) := by
      omega
    rw [this, discoverFuel_add]
    exact discoverFuel_stable (discover_stable own (ls.filter keep)) _
  rw [← h1]
  exact discoverFuel_filter keep hdrop _ _ (inv_init own ls)

/-- `evalC` reads the dict only through `get`. -/
theorem evalC_congr_via {V : Type} (own : List α) (ownVal : α → V) (app : F → List V → V)
    {via via' : List (α × Link α F)} (h : ∀ c, get via c = get via' c) (n : Nat) :
    ∀ c, evalC own ownVal app via n c = evalC own ownVal app via' n c := by
  induction n with
  | zero => intro c; rfl
  | succ n ih =>
    intro c
    simp only [evalC, h c]
    have : ∀ l : Link α F, l.froms.map (evalC own ownVal app via n) =
        l.froms.map (evalC own ownVal app via' n) := fun l => by
      apply List.map_congr_left
      intro f _
      exact ih f
    simp only [this]

theorem get_append {β : Type} (a b : List (α × β)) (c : α) :
    get (a ++ b) c = match get a c with
      | some v => some v
      | none => get b c := by
  induction a with
  | nil => simp
  | cons x r ih =>
    obtain ⟨k, v⟩ := x
    simp only [List.cons_append, get_cons]
    split
    · rfl
    · exact ih

end
end GlueVerif.Lemmas.C03
