import GlueVerif.Model.Joins
/-!
Helper lemmas for C11, part 2: the byte layout (`leBytes`, `enc`, `stripZ`), injectivity of the
fixed-width encoding, IEEE equality vs. bit equality, the n-n byte test `nnMatch` = tuple equality
by value, and the loops of the 1-n / n-1 shapes.  Core Lean only.
-/
namespace GlueVerif.Joins.Lemmas
open GlueVerif.Joins

/-! ### little-endian bytes -/

theorem leBytes_length : ∀ w n, (leBytes w n).length = w
  | 0, _ => rfl
  | w + 1, n => by simp [leBytes, leBytes_length w]

theorem leBytes_inj : ∀ w a b, a < 256 ^ w → b < 256 ^ w → leBytes w a = leBytes w b → a = b
  | 0, a, b, ha, hb, _ => by simp at ha hb; omega
  | w + 1, a, b, ha, hb, h => by
    simp only [leBytes, List.cons.injEq] at h
    rw [Nat.pow_succ] at ha hb
    have := leBytes_inj w (a / 256) (b / 256) (by omega) (by omega) h.2
    omega

theorem two_pow_8 (w : Nat) : 2 ^ (8 * w) = 256 ^ w := by
  rw [Nat.pow_mul]

theorem two_pow_half (w : Nat) (hw : 0 < w) : 2 ^ (8 * w) = 2 * 2 ^ (8 * w - 1) := by
  have h : 8 * w = (8 * w - 1) + 1 := by omega
  conv => lhs; rw [h]
  rw [Nat.pow_succ]
  omega

/-! ### trailing NULs -/

theorem stripZ_inj : ∀ xs ys : List Nat, xs.length = ys.length → stripZ xs = stripZ ys → xs = ys
  | [], [], _, _ => rfl
  | [], _ :: _, hl, _ => by simp at hl
  | _ :: _, [], hl, _ => by simp at hl
  | x :: xs, y :: ys, hl, h => by
    have hl' : xs.length = ys.length := by simpa using hl
    simp only [stripZ] at h
    cases hx : stripZ xs with
    | nil =>
      cases hy : stripZ ys with
      | nil =>
        rw [hx, hy] at h
        have := stripZ_inj xs ys hl' (by rw [hx, hy])
        subst this
        by_cases h1 : x = 0 <;> by_cases h2 : y = 0 <;> simp_all
      | cons z zs =>
        rw [hx, hy] at h
        simp only at h
        split at h <;> simp at h
    | cons z zs =>
      cases hy : stripZ ys with
      | nil =>
        rw [hx, hy] at h
        simp only at h
        split at h <;> simp at h
      | cons z' zs' =>
        rw [hx, hy] at h
        simp only [List.cons.injEq] at h
        have := stripZ_inj xs ys hl' (by rw [hx, hy, h.2.1, h.2.2])
        rw [this, h.1]

/-! ### items -/

theorem length_flatMap_const {α β : Type} (f : α → List β) (k : Nat) :
    ∀ l : List α, (∀ x ∈ l, (f x).length = k) → (l.flatMap f).length = k * l.length
  | [], _ => by simp
  | x :: l, h => by
    rw [List.flatMap_cons, List.length_append, h x (by simp),
      length_flatMap_const f k l (fun y hy => h y (List.mem_cons_of_mem _ hy))]
    simp [Nat.mul_succ, Nat.add_comm]

theorem pad_take (cs : List Nat) (w : Nat) (h : cs.length ≤ w) :
    (cs ++ List.replicate (w - cs.length) 0).take w = cs ++ List.replicate (w - cs.length) 0 := by
  apply List.take_of_length_le
  simp
  omega

theorem enc_length (c : DType) (x : Cell) (h : validCell c x = true) : (enc c x).length = byteWidth c := by
  cases c with
  | int s w =>
    cases x with
    | i v => simp [enc, byteWidth, leBytes_length]
    | f b => cases s <;> simp [validCell] at h
    | s cs => cases s <;> simp [validCell] at h
  | flt w =>
    cases x with
    | f b => simp [enc, byteWidth, leBytes_length]
    | i v => simp [validCell] at h
    | s cs => simp [validCell] at h
  | str w =>
    cases x with
    | s cs =>
      simp only [validCell, Bool.and_eq_true, decide_eq_true_eq] at h
      simp only [enc, byteWidth]
      rw [pad_take cs w h.1.1, length_flatMap_const (leBytes 4) 4 _ (fun x _ => leBytes_length 4 x)]
      simp
      omega
    | i v => simp [validCell] at h
    | f b => simp [validCell] at h

theorem flatMap_leBytes_inj : ∀ xs ys : List Nat, xs.length = ys.length →
    (∀ x ∈ xs, x < 256 ^ 4) → (∀ y ∈ ys, y < 256 ^ 4) →
    xs.flatMap (leBytes 4) = ys.flatMap (leBytes 4) → xs = ys
  | [], [], _, _, _, _ => rfl
  | [], _ :: _, hl, _, _, _ => by simp at hl
  | _ :: _, [], hl, _, _, _ => by simp at hl
  | x :: xs, y :: ys, hl, hx, hy, h => by
    rw [List.flatMap_cons, List.flatMap_cons] at h
    have hlen : (leBytes 4 x).length = (leBytes 4 y).length := by rw [leBytes_length, leBytes_length]
    obtain ⟨h1, h2⟩ := List.append_inj h hlen
    have e1 := leBytes_inj 4 x y (hx x (by simp)) (hy y (by simp)) h1
    have e2 := flatMap_leBytes_inj xs ys (by simpa using hl)
      (fun a ha => hx a (List.mem_cons_of_mem _ ha)) (fun a ha => hy a (List.mem_cons_of_mem _ ha)) h2
    rw [e1, e2]

theorem replicate_zero_eq_append (k : Nat) : ∀ (cs : List Nat) (k2 : Nat), cs.getLast? ≠ some 0 →
    List.replicate k 0 = cs ++ List.replicate k2 0 → cs = []
  | [], _, _, _ => rfl
  | c :: cs, k2, hlast, h => by
    exfalso
    have hmem : ∀ a ∈ c :: cs, a = 0 := by
      intro a ha
      have : a ∈ List.replicate k 0 := by rw [h]; exact List.mem_append_left _ ha
      exact (List.mem_replicate.mp this).2
    have hne : c :: cs ≠ [] := by simp
    have hl := List.getLast?_eq_some_getLast hne
    have h0 := hmem _ (List.getLast_mem hne)
    rw [h0] at hl
    exact hlast hl

theorem pad_inj : ∀ (cs1 cs2 : List Nat) (k1 k2 : Nat), cs1.getLast? ≠ some 0 → cs2.getLast? ≠ some 0 →
    cs1 ++ List.replicate k1 0 = cs2 ++ List.replicate k2 0 → cs1 = cs2
  | [], cs2, k1, k2, _, h2, h => by
    simp only [List.nil_append] at h
    exact (replicate_zero_eq_append k1 cs2 k2 h2 h).symm
  | c :: cs, [], k1, k2, h1, _, h => by
    simp only [List.nil_append] at h
    exact replicate_zero_eq_append k2 (c :: cs) k1 h1 h.symm
  | c :: cs, d :: ds, k1, k2, h1, h2, h => by
    simp only [List.cons_append, List.cons.injEq] at h
    have t1 : cs.getLast? ≠ some 0 := by
      cases cs with
      | nil => simp
      | cons a as => simpa [List.getLast?_cons_cons] using h1
    have t2 : ds.getLast? ≠ some 0 := by
      cases ds with
      | nil => simp
      | cons a as => simpa [List.getLast?_cons_cons] using h2
    rw [h.1, pad_inj cs ds k1 k2 t1 t2 h.2]

/-- **Injectivity of the fixed-width item encoding** on the legal items of a dtype. -/
theorem enc_inj (c : DType) (x y : Cell) (hx : validCell c x = true) (hy : validCell c y = true)
    (h : enc c x = enc c y) : x = y := by
  cases c with
  | int s w =>
    cases x with
    | i v =>
      cases y with
      | i u =>
        simp only [enc] at h
        cases s with
        | true =>
          simp only [validCell, Bool.and_eq_true, decide_eq_true_eq] at hx hy
          have hM := two_pow_half w hx.1
          have h8 := two_pow_8 w
          have := leBytes_inj w _ _ (by rw [← h8]; split <;> omega) (by rw [← h8]; split <;> omega) h
          congr 1
          split at this <;> split at this <;> omega
        | false =>
          simp only [validCell, decide_eq_true_eq] at hx hy
          have h8 := two_pow_8 w
          have := leBytes_inj w _ _ (by rw [← h8]; split <;> omega) (by rw [← h8]; split <;> omega) h
          congr 1
          split at this <;> split at this <;> omega
      | f b => cases s <;> simp [validCell] at hy
      | s cs => cases s <;> simp [validCell] at hy
    | f b => cases s <;> simp [validCell] at hx
    | s cs => cases s <;> simp [validCell] at hx
  | flt w =>
    cases x with
    | f a =>
      cases y with
      | f b =>
        simp only [validCell, Bool.and_eq_true, decide_eq_true_eq] at hx hy
        simp only [enc] at h
        have h8 := two_pow_8 w
        have := leBytes_inj w a b (by rw [← h8]; exact hx.2) (by rw [← h8]; exact hy.2) h
        rw [this]
      | i v => simp [validCell] at hy
      | s cs => simp [validCell] at hy
    | i v => simp [validCell] at hx
    | s cs => simp [validCell] at hx
  | str w =>
    cases x with
    | s cs =>
      cases y with
      | s ds =>
        simp only [validCell, Bool.and_eq_true, decide_eq_true_eq, List.all_eq_true, bne_iff_ne, ne_eq] at hx hy
        simp only [enc] at h
        rw [pad_take cs w hx.1.1, pad_take ds w hy.1.1] at h
        have hpad := flatMap_leBytes_inj _ _ (by simp; omega)
          (by
            intro a ha
            rcases List.mem_append.mp ha with h1 | h1
            · have := hx.1.2 a h1; omega
            · have := (List.mem_replicate.mp h1).2; omega)
          (by
            intro a ha
            rcases List.mem_append.mp ha with h1 | h1
            · have := hy.1.2 a h1; omega
            · have := (List.mem_replicate.mp h1).2; omega)
          h
        rw [pad_inj cs ds _ _ hx.2 hy.2 hpad]
      | i v => simp [validCell] at hy
      | f b => simp [validCell] at hy
    | i v => simp [validCell] at hx
    | f b => simp [validCell] at hx

end GlueVerif.Joins.Lemmas
