import GlueVerif.Model.C13Undo
/-!
# C13 — helper lemmas, part 1: the commands

Core Lean only.  (1) list / table facts, (2) `WF` is preserved by everything a command or the set-up
does, (3) the building blocks of exact undo, (4) **every command is undone exactly**:
`cmdUndo true ⟨sp, saved⟩ (do sp b) = b`, (5) the code before `fix: F4b` did so for clean commands.
-/
namespace GlueVerif.Lemmas.C13
open GlueVerif.C13Undo

/-! ## 1. lists and tables -/

theorem upd_same {α : Type} (f : Nat → α) (k : Nat) (v : α) : upd f k v k = v := by simp [upd]

theorem upd_other {α : Type} (f : Nat → α) (k : Nat) (v : α) (x : Nat) (h : x ≠ k) :
    upd f k v x = f x := by simp [upd, h]

theorem upd_upd {α : Type} (f : Nat → α) (k : Nat) (v w : α) : upd (upd f k v) k w = upd f k w := by
  funext x; simp only [upd]; split <;> rfl

theorem upd_self {α : Type} (f : Nat → α) (k : Nat) (v : α) (h : f k = v) : upd f k v = f := by
  funext x; simp only [upd]; split
  · next hx => rw [hx, h]
  · rfl

/-- every live group detaching its subset from a dataset that carries exactly one per group
leaves nothing. -/
theorem foldl_erase_self (l : List Nat) : l.foldl (fun acc g => acc.erase g) l = [] := by
  induction l with
  | nil => rfl
  | cons g rest ih => simpa using ih

theorem foldl_erase_nil (l : List Nat) : l.foldl (fun acc g => acc.erase g) [] = [] := by
  induction l with
  | nil => rfl
  | cons g rest ih => simpa using ih

theorem erase_append_last (l : List Nat) (d : Nat) (h : d ∉ l) : (l ++ [d]).erase d = l := by
  rw [List.erase_append_right _ h]; simp

/-- a nodup list whose last element is `d`. -/
theorem eq_append_of_getLast? (l : List Nat) (d : Nat) (h : l.getLast? = some d) :
    ∃ l', l = l' ++ [d] := List.getLast?_eq_some_iff.mp h

theorem lookup_ids (l : List Group) (g : Group) (hn : (l.map (·.id)).Nodup) (hg : g ∈ l) :
    (l.map fun g => (g.id, g.state)).lookup g.id = some g.state := by
  induction l with
  | nil => cases hg
  | cons a rest ih =>
    simp only [List.map_cons, List.nodup_cons] at hn
    simp only [List.map_cons, List.lookup_cons]
    rcases List.mem_cons.mp hg with rfl | hg'
    · simp
    · have hne : g.id ≠ a.id := by
        intro he
        exact hn.1 (he ▸ List.mem_map_of_mem (f := fun g : Group => g.id) hg')
      have : (g.id == a.id) = false := by simpa using hne
      rw [this]
      exact ih hn.2 hg'

/-! ## 2. `WF` is preserved -/

theorem liveIds_setState (gid : Nat) (f : Sel → Sel) (b : Body) :
    liveIds (setState gid f b) = liveIds b := by
  simp only [liveIds, setState, List.map_map]
  apply List.map_congr_left
  intro g _
  simp only [Function.comp]
  split <;> rfl

theorem wf_init (n c : Nat) : WF (Body.init n c) := by
  constructor <;> simp [Body.init, liveIds]

theorem wf_appendData (d : Nat) (b : Body) (h : WF b) : WF (appendData d b) := by
  unfold appendData
  split
  · exact h
  · next hd =>
    constructor
    · exact List.nodup_append.mpr ⟨h.nodupD, by simp, by
        intro a ha c hc; simp at hc; subst hc; intro he; exact hd (he ▸ ha)⟩
    · exact h.nodupG
    · exact h.idLe
    · intro d' hd'
      show upd b.dsubs d (b.dsubs d ++ liveIds b) d' = liveIds b
      have hd'' : d' ∈ b.datasets ++ [d] := hd'
      simp only [List.mem_append, List.mem_singleton] at hd''
      by_cases he : d' = d
      · subst he
        simp only [upd_same]
        rw [h.outSubs _ hd]; simp
      · rcases hd'' with hd'' | hd''
        · simp only [upd_other _ _ _ _ he]; exact h.inSubs _ hd''
        · exact absurd hd'' he
    · intro d' hd'
      show upd b.dsubs d (b.dsubs d ++ liveIds b) d' = []
      have hd'' : d' ∉ b.datasets ++ [d] := hd'
      simp only [List.mem_append, List.mem_singleton, not_or] at hd''
      simp only [upd_other _ _ _ _ hd''.2]
      exact h.outSubs _ hd''.1

theorem wf_removeData (d : Nat) (b : Body) (h : WF b) : WF (removeData d b) := by
  unfold removeData
  split
  · next hd =>
    constructor
    · exact h.nodupD.erase d
    · exact h.nodupG
    · exact h.idLe
    · intro d' hd'
      have hm := (h.nodupD.mem_erase_iff).mp hd'
      show upd b.dsubs d _ d' = liveIds b
      rw [upd_other _ _ _ _ hm.1]
      exact h.inSubs _ hm.2
    · intro d' hd'
      show upd b.dsubs d _ d' = []
      by_cases he : d' = d
      · subst he
        rw [upd_same, h.inSubs _ hd]
        exact foldl_erase_self _
      · rw [upd_other _ _ _ _ he]
        apply h.outSubs
        intro hin
        exact hd' ((h.nodupD.mem_erase_iff).mpr ⟨he, hin⟩)
  · exact h

theorem liveIds_newGroup (s : Sel) (b : Body) :
    liveIds (newGroup s b) = liveIds b ++ [b.sgCount + 1] := by
  simp [liveIds, newGroup]

theorem fresh_id (b : Body) (h : WF b) : b.sgCount + 1 ∉ liveIds b := by
  intro hin
  simp only [liveIds, List.mem_map] at hin
  obtain ⟨g, hg, he⟩ := hin
  have := h.idLe g hg
  omega

theorem wf_newGroup (s : Sel) (b : Body) (h : WF b) : WF (newGroup s b) := by
  constructor
  · exact h.nodupD
  · rw [liveIds_newGroup]
    exact List.nodup_append.mpr ⟨h.nodupG, by simp, by
      intro a ha c hc; simp at hc; subst hc; intro he; exact fresh_id b h (he ▸ ha)⟩
  · intro g hg
    simp only [newGroup, List.mem_append, List.mem_singleton] at hg
    rcases hg with hg | hg
    · have := h.idLe g hg; show g.id ≤ b.sgCount + 1; omega
    · subst hg; show b.sgCount + 1 ≤ b.sgCount + 1; omega
  · intro d hd
    rw [liveIds_newGroup]
    have hd' : d ∈ b.datasets := hd
    show (if d ∈ b.datasets then b.dsubs d ++ [b.sgCount + 1] else b.dsubs d) = _
    rw [if_pos hd', h.inSubs _ hd']
  · intro d hd
    have hd' : d ∉ b.datasets := hd
    show (if d ∈ b.datasets then b.dsubs d ++ [b.sgCount + 1] else b.dsubs d) = _
    rw [if_neg hd', h.outSubs _ hd']

theorem wf_of_same (b b' : Body) (h : WF b) (hd : b'.datasets = b.datasets)
    (hi : liveIds b' = liveIds b) (hids : ∀ g ∈ b'.groups, g.id ≤ b'.sgCount)
    (hs : b'.dsubs = b.dsubs) : WF b' := by
  constructor
  · rw [hd]; exact h.nodupD
  · rw [hi]; exact h.nodupG
  · exact hids
  · intro d hdd; rw [hs, hi]; rw [hd] at hdd; exact h.inSubs _ hdd
  · intro d hdd; rw [hs]; rw [hd] at hdd; exact h.outSubs _ hdd

theorem wf_setState (gid : Nat) (f : Sel → Sel) (b : Body) (h : WF b) : WF (setState gid f b) := by
  refine wf_of_same b (setState gid f b) h rfl (liveIds_setState gid f b) ?_ rfl
  intro g hg
  simp only [setState, List.mem_map] at hg
  obtain ⟨g0, hg0, he⟩ := hg
  have := h.idLe g0 hg0
  show g.id ≤ b.sgCount
  split at he <;> (subst he; simpa using this)

theorem wf_foldl_setState (ids : List Nat) (f : Sel → Sel) (b : Body) (h : WF b) :
    WF (ids.foldl (fun b gid => setState gid f b) b) := by
  induction ids generalizing b with
  | nil => exact h
  | cons i rest ih => exact ih _ (wf_setState i f b h)

theorem wf_edit (ids : List Nat) (b : Body) (h : WF b) : WF { b with edit := ids } :=
  wf_of_same b _ h rfl rfl h.idLe rfl

theorem wf_mode (m : Mode) (b : Body) (h : WF b) : WF { b with mode := m } :=
  wf_of_same b _ h rfl rfl h.idLe rfl

theorem wf_combineData (s : Sel) (m : Mode) (b : Body) (h : WF b) : WF (combineData s m b) := by
  unfold combineData
  split
  · exact wf_edit _ _ (wf_newGroup s b h)
  · exact wf_foldl_setState _ _ _ h

theorem wf_cmdDo (sp : CmdSpec) (b : Body) (h : WF b) : WF (cmdDo sp b).1 := by
  cases sp with
  | addData d => exact wf_appendData d b h
  | removeData d => exact wf_removeData d b h
  | apply k ov => exact wf_combineData _ _ b h
  | applyRoi k => exact wf_combineData _ _ b h

theorem wf_setupStep (b : Body) (op : Setup) (h : WF b) : WF (setupStep b op) := by
  cases op with
  | append d => exact wf_appendData d b h
  | group k => exact wf_newGroup _ b h
  | edit ids => exact wf_edit ids b h
  | mode m => exact wf_mode m b h

theorem wf_setup (n c : Nat) (ops : List Setup) : WF (setup n c ops) := by
  unfold setup
  suffices ∀ b, WF b → WF (ops.foldl setupStep b) from this _ (wf_init n c)
  induction ops with
  | nil => intro b h; exact h
  | cons op rest ih => intro b h; exact ih _ (wf_setupStep b op h)

/-! ## 3. the building blocks of exact undo -/

theorem undo_addData (d : Nat) (b : Body) (h : WF b) (hc : d ∉ b.datasets) :
    removeData d (appendData d b) = b := by
  unfold appendData
  rw [if_neg hc]
  unfold removeData
  have hmem : d ∈ b.datasets ++ [d] := by simp
  simp only [hmem, if_true]
  apply Body.ext <;> try rfl
  · exact erase_append_last _ _ hc
  · show upd (upd b.dsubs d (b.dsubs d ++ liveIds b)) d
        ((liveIds b).foldl (fun l g => l.erase g) (upd b.dsubs d (b.dsubs d ++ liveIds b) d)) = b.dsubs
    rw [upd_same, upd_upd, h.outSubs _ hc, List.nil_append, foldl_erase_self]
    exact upd_self _ _ _ (h.outSubs _ hc)

theorem undo_removeData (d : Nat) (b : Body) (h : WF b) (hc : b.datasets.getLast? = some d) :
    appendData d (removeData d b) = b := by
  obtain ⟨l, hl⟩ := eq_append_of_getLast? _ _ hc
  have hnd := h.nodupD
  rw [hl] at hnd
  have hdl : d ∉ l := by
    intro hin
    have := (List.nodup_append.mp hnd).2.2 d hin d (by simp)
    exact this rfl
  have hmem : d ∈ b.datasets := by rw [hl]; simp
  have herase : b.datasets.erase d = l := by rw [hl]; exact erase_append_last _ _ hdl
  unfold removeData
  rw [if_pos hmem]
  unfold appendData
  simp only [herase, hdl, if_false]
  apply Body.ext <;> try rfl
  · exact hl.symm
  · show upd (upd b.dsubs d _) d (upd b.dsubs d _ d ++ liveIds b) = b.dsubs
    rw [upd_same, upd_upd, h.inSubs _ hmem, foldl_erase_self, List.nil_append]
    exact upd_self _ _ _ (h.inSubs _ hmem)

/-- the groups after `for s in edit_subset: mode(s, new_state)` are the old groups with other
states; nothing else changes. -/
theorem foldl_setState_shape (ids : List Nat) (f : Sel → Sel) (b : Body) :
    ∃ F : Group → Sel,
      ids.foldl (fun b gid => setState gid f b) b =
        { b with groups := b.groups.map fun g => { g with state := F g } } := by
  induction ids generalizing b with
  | nil => exact ⟨fun g => g.state, by simp⟩
  | cons i rest ih =>
    obtain ⟨F, hF⟩ := ih (setState i f b)
    refine ⟨fun g => F (if g.id = i then { g with state := f g.state } else g), ?_⟩
    rw [List.foldl_cons, hF]
    simp only [setState, List.map_map]
    congr 1
    apply List.map_congr_left
    intro g _
    simp only [Function.comp]
    split <;> rfl

/-- restoring the recorded states of groups that only differ in their states gives the recorded
groups back. -/
theorem restore_states (l : List Group) (F : Group → Sel) (hn : (l.map (·.id)).Nodup) :
    ((l.map fun g => { g with state := F g }).map
        (restoreGroup (l.map fun g => (g.id, g.state)))) = l := by
  rw [List.map_map]
  conv => rhs; rw [← List.map_id l]
  apply List.map_congr_left
  intro g hg
  simp only [Function.comp, restoreGroup, lookup_ids l g hn hg, id]

theorem filter_not_contains_self (l : List Nat) : l.filter (fun i => !l.contains i) = [] := by
  rw [List.filter_eq_nil_iff]
  intro a ha
  simp [ha]

theorem restore_of_modified (b : Body) (F : Group → Sel) (h : WF b) :
    restore (save b) { b with groups := b.groups.map fun g => { g with state := F g } } = b := by
  have hids : liveIds { b with groups := b.groups.map fun g => { g with state := F g } } = liveIds b := by
    simp [liveIds, List.map_map, Function.comp]
  have hold : (save b).groups.map (·.1) = liveIds b := by
    simp [save, liveIds, List.map_map, Function.comp]
  unfold restore
  simp only [hold, hids, filter_not_contains_self, List.foldl_nil, if_true]
  apply Body.ext <;> try rfl
  exact restore_states b.groups F h.nodupG

theorem filter_new (l : List Nat) (n : Nat) (hn : n ∉ l) :
    (l ++ [n]).filter (fun i => !l.contains i) = [n] := by
  rw [List.filter_append]
  have h1 : l.filter (fun i => !l.contains i) = [] := filter_not_contains_self l
  rw [h1]
  simp [hn]

theorem filter_ids_ne (l : List Group) (n : Nat) (h : ∀ g ∈ l, g.id ≤ n) (g0 : Group)
    (hg0 : g0.id = n + 1) : (l ++ [g0]).filter (fun g => g.id != n + 1) = l := by
  rw [List.filter_append]
  have h1 : l.filter (fun g => g.id != n + 1) = l := by
    rw [List.filter_eq_self]
    intro g hg
    have := h g hg
    simp; omega
  rw [h1]
  simp [hg0]

theorem restore_of_created (s : Sel) (b : Body) (h : WF b) :
    restore (save b) { newGroup s b with edit := [b.sgCount + 1] } = b := by
  have hids : liveIds { newGroup s b with edit := [b.sgCount + 1] } = liveIds b ++ [b.sgCount + 1] :=
    liveIds_newGroup s b
  have hold : (save b).groups.map (·.1) = liveIds b := by
    simp [save, liveIds, List.map_map, Function.comp]
  have hfresh := fresh_id b h
  unfold restore
  simp only [hold, hids, filter_new _ _ hfresh, List.foldl_cons, List.foldl_nil]
  have hne : ([b.sgCount + 1] = []) = False := by simp
  simp only [hne, if_false]
  have hgroups : (removeGroup (b.sgCount + 1) { newGroup s b with edit := [b.sgCount + 1] }).groups
      = b.groups := by
    show (b.groups ++ [_]).filter (fun g => g.id != b.sgCount + 1) = b.groups
    exact filter_ids_ne _ _ h.idLe _ rfl
  apply Body.ext
  · rfl
  · rfl
  · rfl
  · show ((removeGroup (b.sgCount + 1) { newGroup s b with edit := [b.sgCount + 1] }).groups.map _) = b.groups
    rw [hgroups]
    have := restore_states b.groups (fun g => g.state) h.nodupG
    simpa [save] using this
  · rfl
  · funext d
    show (if d ∈ b.datasets then b.dsubs d ++ [b.sgCount + 1] else b.dsubs d).erase (b.sgCount + 1)
        = b.dsubs d
    by_cases hd : d ∈ b.datasets
    · rw [if_pos hd]
      have : b.sgCount + 1 ∉ b.dsubs d := by rw [h.inSubs _ hd]; exact hfresh
      exact erase_append_last _ _ this
    · rw [if_neg hd, h.outSubs _ hd]; rfl
  · rfl
  · rfl

theorem restore_combineData (s : Sel) (m : Mode) (b : Body) (h : WF b) :
    restore (save b) (combineData s m b) = b := by
  unfold combineData
  split
  · exact restore_of_created s b h
  · obtain ⟨F, hF⟩ := foldl_setState_shape b.edit (combine m s) b
    rw [hF]
    exact restore_of_modified b F h

/-! ## 4. every command of the repaired code is undone exactly -/

theorem insertIdx_erase (l : List Nat) (d : Nat) (h : d ∈ l) :
    (l.erase d).insertIdx (l.idxOf d) d = l := by
  induction l with
  | nil => cases h
  | cons a t ih =>
    by_cases he : a = d
    · subst he; simp
    · have hd : d ∈ t := by
        rcases List.mem_cons.mp h with h | h
        · exact absurd h.symm he
        · exact h
      have hb : (a == d) = false := by simpa using he
      simp [List.idxOf_cons, hb, ih hd]

/-- the recorded position is a position of the collection without the dataset (`list.insert`
does not have to clamp it). -/
theorem idxOf_le_length_erase (l : List Nat) (d : Nat) (h : d ∈ l) :
    l.idxOf d ≤ (l.erase d).length := by
  have h1 : l.idxOf d < l.length := List.idxOf_lt_length_of_mem h
  have h2 : (l.erase d).length = l.length - 1 := List.length_erase_of_mem h
  omega

theorem undo_removeData_insert (d : Nat) (b : Body) (h : WF b) (hd : d ∈ b.datasets) :
    insertData (b.datasets.idxOf d) d (removeData d b) = b := by
  have hnot : d ∉ b.datasets.erase d := fun hin => ((h.nodupD.mem_erase_iff).mp hin).1 rfl
  unfold removeData
  rw [if_pos hd]
  unfold insertData
  simp only [hnot, if_false]
  apply Body.ext <;> try rfl
  · show (b.datasets.erase d).insertIdx (min (b.datasets.idxOf d) (b.datasets.erase d).length) d = _
    rw [Nat.min_eq_left (idxOf_le_length_erase _ _ hd)]
    exact insertIdx_erase _ _ hd
  · show upd (upd b.dsubs d _) d (upd b.dsubs d _ d ++ liveIds b) = b.dsubs
    rw [upd_same, upd_upd, h.inSubs _ hd, foldl_erase_self, List.nil_append]
    exact upd_self _ _ _ (h.inSubs _ hd)

/-- **Every command is undone exactly**, without any condition on the command or the session
beyond well-formedness: `AddData` of an absent or a present dataset, `RemoveData` of a dataset at
any position or of an absent one, the selection commands in every mode. -/
theorem undo_cmdDo (sp : CmdSpec) (b : Body) (h : WF b) :
    cmdUndo true ⟨sp, (cmdDo sp b).2⟩ (cmdDo sp b).1 = b := by
  cases sp with
  | addData d =>
    by_cases hd : d ∈ b.datasets
    · simp [cmdDo, cmdUndo, hd, appendData]
    · have := undo_addData d b h hd
      simpa [cmdDo, cmdUndo, hd] using this
  | removeData d =>
    by_cases hd : d ∈ b.datasets
    · have := undo_removeData_insert d b h hd
      simpa [cmdDo, cmdUndo, hd] using this
    · simp [cmdDo, cmdUndo, hd, removeData]
  | apply k ov => exact restore_combineData _ _ b h
  | applyRoi k => exact restore_combineData _ _ b h

/-! ## 5. the code before `fix: F4b`: only clean `AddData` / `RemoveData` were undone exactly -/

theorem wf_pre_cmdDo (sp : CmdSpec) (b : Body) (h : WF b) : WF (PreF4b.cmdDo sp b).1 := by
  cases sp with
  | addData d => exact wf_appendData d b h
  | removeData d => exact wf_removeData d b h
  | apply k ov => exact wf_combineData _ _ b h
  | applyRoi k => exact wf_combineData _ _ b h

theorem pre_undo_cmdDo (sp : CmdSpec) (b : Body) (h : WF b) (hc : clean sp b = true) :
    PreF4b.cmdUndo true ⟨sp, (PreF4b.cmdDo sp b).2⟩ (PreF4b.cmdDo sp b).1 = b := by
  cases sp with
  | addData d =>
    have hc' : d ∉ b.datasets := by simpa [clean] using hc
    exact undo_addData d b h hc'
  | removeData d =>
    have hc' : b.datasets.getLast? = some d := by simpa [clean] using hc
    exact undo_removeData d b h hc'
  | apply k ov => exact restore_combineData _ _ b h
  | applyRoi k => exact restore_combineData _ _ b h

end GlueVerif.Lemmas.C13
