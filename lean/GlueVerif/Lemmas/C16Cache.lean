import GlueVerif.Lemmas.C16Grid
/-!
# C16 — soundness of `ARRAY_CACHE` / `PIXEL_CACHE`

Invariant: every stored entry equals the uncached result for **every** request its (wildcard) key
matches.  It holds for the empty caches, every call of `compute_fixed_resolution_buffer` preserves
it and — under it — answers exactly like the call without a cache id.
-/
namespace GlueVerif.Lemmas.C16
open GlueVerif.FRB GlueVerif.FRB.Impl

/-- `ARRAY_CACHE`: a stored array is the uncached answer to every request the stored hash equals. -/
def ArrayInv (w : World) (c : Caches) : Prop :=
  ∀ id e, c.array id = some e → ∀ r, e.matches r = true → boundsValid r.bounds = true →
    frbUncached w r = .ok e.array

/-- One `PIXEL_CACHE[cache_id]` dictionary: a stored axis record is what the loop body computes for
every bounds list the stored bounds equal. -/
def PcInv (w : World) (p : PixelCache) : Prop :=
  ∀ ipix kbs ax, p.entries ipix = some (kbs, ax) → ∀ bs, matchesAll kbs bs = true →
    computeAxis w p.target p.data ipix bs = .ok ax

def PixelInv (w : World) (c : Caches) : Prop := ∀ id p, c.pixel id = some p → PcInv w p

/-- The key built by `bounds_for_cache(bounds, dimensions)` only matches bounds for which the loop
body gives the same record. -/
theorem computeAxis_of_matches {w : World} (hw : w.wf) {t s i : Nat} {bs bs' : List Bound} {ax : AxisT}
    (h : computeAxis w t s i bs = .ok ax) (hm : matchesAll (boundsForCache bs ax.dims) bs' = true) :
    computeAxis w t s i bs' = .ok ax := by
  have hrel := matches_brel ax.dims 0 bs bs' hm
  rw [← computeAxis_congr hw t s i hrel (fun p p' hp => by
    rw [← computeAxis_dims h]; exact prel_agreeOn hp)]
  exact h

/-- State of `PIXEL_CACHE[cache_id]` relevant for a request: consistent with its `(data, target)`. -/
def PcOk (w : World) (r : Req) (pc : Option PixelCache) : Prop :=
  ∀ p, pc = some p → p.data = r.data ∧ p.target = r.target ∧ PcInv w p

theorem pixelHit_sound {w : World} {r : Req} {pc : Option PixelCache} (hpc : PcOk w r pc) {ipix : Nat}
    {ax : AxisT} (h : pixelHit pc ipix r.bounds = some ax) :
    computeAxis w r.target r.data ipix r.bounds = .ok ax := by
  unfold pixelHit at h
  split at h
  · cases h
  · rename_i p
    obtain ⟨hd, ht, hinv⟩ := hpc p rfl
    split at h
    · cases h
    · rename_i kbs ax' he
      split at h
      · rename_i hm
        cases h
        rw [← hd, ← ht]
        exact hinv ipix kbs ax he r.bounds hm
      · cases h

theorem pixelStore_ok {w : World} (hw : w.wf) {r : Req} {pc : Option PixelCache} (hpc : PcOk w r pc)
    {ipix : Nat} {ax : AxisT} (h : computeAxis w r.target r.data ipix r.bounds = .ok ax) :
    PcOk w r (some (pixelStore pc r ipix ax)) := by
  intro p hp
  cases hp
  unfold pixelStore
  cases pc with
  | none =>
    refine ⟨rfl, rfl, ?_⟩
    intro j kbs ax' he bs hm
    simp only [upd] at he
    split at he
    · rename_i hj
      cases he
      subst hj
      exact computeAxis_of_matches hw h hm
    · cases he
  | some p0 =>
    obtain ⟨hd, ht, hinv⟩ := hpc p0 rfl
    refine ⟨hd, ht, ?_⟩
    intro j kbs ax' he bs hm
    simp only [upd] at he
    split at he
    · rename_i hj
      cases he
      subst hj
      show computeAxis w p0.target p0.data j bs = .ok ax
      rw [hd, ht]
      exact computeAxis_of_matches hw h hm
    · exact hinv j kbs ax' he bs hm

/-- The `ipix` loop with a cache id computes what the loop without one computes, and keeps the
pixel cache consistent (also when it stops on an exception). -/
theorem axesCached_sound {w : World} (hw : w.wf) (r : Req) : ∀ (ks : List Nat) (pc : Option PixelCache),
    PcOk w r pc → (axesCached w r ks pc).1 = axesPlain w r ks ∧ PcOk w r (axesCached w r ks pc).2
  | [], pc, hpc => ⟨rfl, hpc⟩
  | k :: ks, pc, hpc => by
    simp only [axesCached, axesPlain]
    split
    · rename_i ax hhit
      have hc := pixelHit_sound hpc hhit
      have ih := axesCached_sound hw r ks pc hpc
      rw [hc]
      rcases hrec : axesCached w r ks pc with ⟨res, pc'⟩
      rw [hrec] at ih
      simp only at ih ⊢
      rw [← ih.1]
      cases res with
      | error e => exact ⟨rfl, ih.2⟩
      | ok axs => exact ⟨rfl, ih.2⟩
    · split
      · exact ⟨rfl, hpc⟩
      · rename_i ax hc
        have hpc' := pixelStore_ok hw hpc hc
        have ih := axesCached_sound hw r ks _ hpc'
        rcases hrec : axesCached w r ks (some (pixelStore pc r k ax)) with ⟨res, pc'⟩
        rw [hrec] at ih
        simp only at ih ⊢
        rw [← ih.1]
        cases res with
        | error e => exact ⟨rfl, ih.2⟩
        | ok axs => exact ⟨rfl, ih.2⟩

theorem PixelInv_upd {w : World} {c : Caches} (hP : PixelInv w c) (id : Nat) (pc : Option PixelCache)
    (hpc : ∀ p, pc = some p → PcInv w p) : PixelInv w ⟨c.array, upd c.pixel id pc⟩ := by
  intro id' p hp
  simp only [upd] at hp
  split at hp
  · exact hpc p hp
  · exact hP id' p hp

/-- The array stored after a computation is valid for every request its wildcard key matches. -/
theorem stored_entry_sound {w : World} (hw : w.wf) {r : Req} {axes : List AxisT} {a : Arr}
    (hax : axesPlain w r (List.range (w.ndim r.data)) = .ok axes) (hres : frbUncached w r = .ok a)
    (r' : Req)
    (hm : (ArrayEntry.mk r.data (boundsForCache r.bounds (dimsAllOf axes)) r.target r.what r.broadcast a).matches r' = true) :
    frbUncached w r' = .ok a := by
  simp only [ArrayEntry.matches, Bool.and_eq_true, decide_eq_true_eq] at hm
  obtain ⟨⟨⟨⟨hd, hb⟩, ht⟩, hwh⟩, hbc⟩ := hm
  have hdims : dimsAllOf axes = dimsAll w r := axesPlain_dims _ _ hax
  rw [hdims] at hb
  rw [frbUncached_congr' hw r r' hd.symm ht.symm hwh.symm hbc.symm (matches_brel _ 0 _ _ hb)]
  exact hres

/-- **One call**: under the invariant the answer with a cache id is the answer without, and the
invariant is preserved. -/
theorem frb_step {w : World} (hw : w.wf) (c : Caches) (hA : ArrayInv w c) (hP : PixelInv w c) (r : Req) :
    (frb w c r).1 = frbUncached w r ∧ ArrayInv w (frb w c r).2 ∧ PixelInv w (frb w c r).2 := by
  unfold frb
  by_cases hv : boundsValid r.bounds = true
  case neg =>
    have hv' : (!boundsValid r.bounds) = true := by simpa using hv
    simp only [hv', if_true]
    exact ⟨by simp [frbUncached, hv'], hA, hP⟩
  have hv' : ¬ (!boundsValid r.bounds) = true := by simp [hv]
  simp only [hv', if_false]
  cases hcid : r.cacheId with
  | none => exact ⟨rfl, hA, hP⟩
  | some id =>
    simp only
    cases hhit : arrayHit c id r with
    | some a =>
      -- answered from ARRAY_CACHE
      simp only
      refine ⟨?_, hA, hP⟩
      unfold arrayHit at hhit
      split at hhit
      · rename_i e he
        split at hhit
        · rename_i hm
          cases hhit
          exact (hA id e he r hm hv).symm
        · cases hhit
      · cases hhit
    | none =>
      -- computed
      simp only
      have hpc0 : PcOk w r (pixelStart c id r) := by
        intro p hp
        unfold pixelStart at hp
        split at hp
        · rename_i p0 hp0
          split at hp
          · rename_i hdt
            cases hp
            exact ⟨hdt.1, hdt.2, hP id p hp0⟩
          · cases hp
        · cases hp
      have hloop := axesCached_sound hw r (List.range (w.ndim r.data)) _ hpc0
      rcases hrec : axesCached w r (List.range (w.ndim r.data)) (pixelStart c id r) with ⟨res1, pc⟩
      rw [hrec] at hloop
      simp only at hloop
      obtain ⟨hres, hpc⟩ := hloop
      have hPix : PixelInv w ⟨c.array, upd c.pixel id pc⟩ :=
        PixelInv_upd hP id pc (fun p hp => (hpc p hp).2.2)
      cases res1 with
      | error e =>
        simp only
        refine ⟨?_, hA, hPix⟩
        simp [frbUncached, hv, ← hres]
      | ok axes =>
        simp only
        have hplain : axesPlain w r (List.range (w.ndim r.data)) = .ok axes := hres.symm
        have hun : frbUncached w r = finish w r axes := by simp [frbUncached, hv, hplain]
        cases hfin : finish w r axes with
        | error e =>
          simp only [Bool.false_eq_true, if_false]
          exact ⟨by rw [hun, hfin], hA, hPix⟩
        | ok a =>
          simp only [Bool.false_eq_true, if_false]
          refine ⟨by rw [hun, hfin], ?_, hPix⟩
          intro id' e he r' hm hv'
          simp only [upd] at he
          split at he
          · cases he
            exact stored_entry_sound hw hplain (by rw [hun, hfin]) r' hm
          · exact hA id' e he r' hm hv'

theorem runOps_false_caches (w : World) (c c' : Caches) (ops : List Op) :
    runOps false w c ops = runOps false w c' ops := by
  induction ops generalizing w c c' with
  | nil => rfl
  | cons op ops ih =>
    cases op with
    | req r => simp only [runOps, Bool.false_eq_true, if_false]; rw [ih w c c']
    | editState sid e => simp only [runOps]; exact ih _ c c'
    | setComp ds k vals => simp only [runOps]; exact ih _ c c'

/-- **Every history of requests**: starting from caches that satisfy the invariant, each answer
with its cache id is the answer without. -/
theorem runOps_sound {w : World} (hw : w.wf) : ∀ (ops : List Op) (c : Caches),
    (∀ op, op ∈ ops → op.isReq = true) → ArrayInv w c → PixelInv w c →
    runOps true w c ops = runOps false w c ops
  | [], _, _, _, _ => rfl
  | .req r :: ops, c, hreq, hA, hP => by
    obtain ⟨h1, hA', hP'⟩ := frb_step hw c hA hP r
    simp only [runOps, if_true, Bool.false_eq_true, if_false]
    rw [h1, runOps_sound hw ops _ (fun op hop => hreq op (by simp [hop])) hA' hP']
    rw [runOps_false_caches w (frb w c r).2 c]
  | .editState sid e :: ops, _, hreq, _, _ => by
    have := hreq (.editState sid e) (by simp); simp [Op.isReq] at this
  | .setComp ds k vals :: ops, _, hreq, _, _ => by
    have := hreq (.setComp ds k vals) (by simp); simp [Op.isReq] at this

theorem inv_empty (w : World) : ArrayInv w .empty ∧ PixelInv w .empty := by
  constructor
  · intro id e he; simp [Caches.empty] at he
  · intro id p hp; simp [Caches.empty] at hp

/-! ## the hit test as a parameter -/

theorem frbWith_matches (w : World) (c : Caches) (r : Req) :
    frbWith ArrayEntry.matches w c r = frb w c r := rfl

/-- On empty caches the hit test is never asked. -/
theorem frbWith_empty (hit : ArrayEntry → Req → Bool) (w : World) (r : Req) :
    frbWith hit w .empty r = frb w .empty r := by
  simp only [frbWith, frb, arrayHitWith, arrayHit, Caches.empty]

/-- The entry `ARRAY_CACHE[cache_id]` holds after request `r` returned `a`. -/
def storedEntry (w : World) (r : Req) (a : Arr) : ArrayEntry :=
  ⟨r.data, boundsForCache r.bounds (dimsAll w r), r.target, r.what, r.broadcast, a⟩

/-- A request that returns an array from empty caches returns the uncached answer and leaves
`storedEntry` in `ARRAY_CACHE[cache_id]`. -/
theorem frb_empty_stores {w : World} (hw : w.wf) {r : Req} {id : Nat} {a : Arr}
    (hcid : r.cacheId = some id) (h : frbUncached w r = .ok a) :
    (frb w .empty r).1 = .ok a ∧ (frb w .empty r).2.array id = some (storedEntry w r a) := by
  have hstep := (frb_step hw .empty (inv_empty w).1 (inv_empty w).2 r).1
  refine ⟨by rw [hstep, h], ?_⟩
  have hv : boundsValid r.bounds = true := by
    cases hb : boundsValid r.bounds with
    | true => rfl
    | false => simp [frbUncached, hb] at h
  have hpc0 : PcOk w r (pixelStart .empty id r) := by
    intro p hp; simp [pixelStart, Caches.empty] at hp
  have hloop := axesCached_sound hw r (List.range (w.ndim r.data)) _ hpc0
  unfold frb
  simp only [hv, Bool.not_true, Bool.false_eq_true, if_false, hcid]
  have hmiss : arrayHit .empty id r = none := by simp [arrayHit, Caches.empty]
  simp only [hmiss]
  rcases hrec : axesCached w r (List.range (w.ndim r.data)) (pixelStart .empty id r) with ⟨res1, pc⟩
  rw [hrec] at hloop
  simp only at hloop
  cases res1 with
  | error e =>
    exfalso
    have : axesPlain w r (List.range (w.ndim r.data)) = .error e := hloop.1.symm
    simp [frbUncached, hv, this] at h
  | ok axes =>
    have hplain : axesPlain w r (List.range (w.ndim r.data)) = .ok axes := hloop.1.symm
    have hun : frbUncached w r = finish w r axes := by simp [frbUncached, hv, hplain]
    have hfin : finish w r axes = .ok a := by rw [← hun, h]
    have hdims : dimsAllOf axes = dimsAll w r := axesPlain_dims _ _ hplain
    simp only [hfin, upd, if_true, storedEntry, hdims]

/-- **The 2-request history.** If the hit test identifies the entry stored for `r₁` with a request
`r₂` under the same cache id, the second answer is the first array. -/
theorem runReqsWith_stale {w : World} (hw : w.wf) (hit : ArrayEntry → Req → Bool) {r₁ r₂ : Req} {id : Nat}
    {a₁ : Arr} (hc₁ : r₁.cacheId = some id) (hc₂ : r₂.cacheId = some id)
    (h₁ : frbUncached w r₁ = .ok a₁) (hv₂ : boundsValid r₂.bounds = true)
    (hhit : hit (storedEntry w r₁ a₁) r₂ = true) :
    runReqsWith hit w .empty [r₁, r₂] = [.ok a₁, .ok a₁] := by
  obtain ⟨hans, hst⟩ := frb_empty_stores hw hc₁ h₁
  simp only [runReqsWith, frbWith_empty, hans]
  congr 1
  congr 1
  simp only [frbWith, hv₂, Bool.not_true, Bool.false_eq_true, if_false, hc₂, arrayHitWith, hst, hhit, if_true]
  rfl

/-- The history runner with the coded hit test is `runOps` on request-only histories. -/
theorem runReqsWith_matches (w : World) : ∀ (rs : List Req) (c : Caches),
    runReqsWith ArrayEntry.matches w c rs = runOps true w c (rs.map Op.req)
  | [], _ => rfl
  | r :: rs, c => by
    simp only [runReqsWith, List.map_cons, runOps, if_true, frbWith_matches]
    rw [runReqsWith_matches w rs]

end GlueVerif.Lemmas.C16
