import GlueVerif.Lemmas.Geometry
/-!
# C08 — an ellipse tested in a frame tilted by a tiny angle

`EllipticalROI.contains` takes its un-rotated branches for angles up to `1e-9` rad off a quarter
turn.  This file bounds the effect: the quadratic form `a·x² + b·y²` changes by a factor of at most
`1 + 2σK` under a rotation with `|sin| ≤ σ`, where `K ≥ max(a/b, b/a)`.
-/
namespace GlueVerif.Lemmas.Geometry

section Generic
set_option linter.unusedSectionVars false
variable {K : Type*} [Field K] [LinearOrder K] [IsStrictOrderedRing K]

/-- `|2xy(b − a)| ≤ (k − 1)(a x² + b y²)` when `a ≤ k b`, `b ≤ k a`. -/
theorem cross_term_bound {a b k x y : K} (ha : 0 < a) (hb : 0 < b) (h1 : a ≤ k * b) (h2 : b ≤ k * a) :
    -((k - 1) * (a * (x * x) + b * (y * y))) ≤ 2 * (x * y) * (b - a) ∧
    2 * (x * y) * (b - a) ≤ (k - 1) * (a * (x * x) + b * (y * y)) := by
  have hx := mul_self_nonneg x
  have hy := mul_self_nonneg y
  have hm := mul_self_nonneg (x - y)
  have hp := mul_self_nonneg (x + y)
  rcases le_total a b with hab | hab
  · -- e = b − a ∈ [0, (k−1)a] and ≤ (k−1) b
    have e0 : 0 ≤ b - a := sub_nonneg.2 hab
    have e1 : b - a ≤ (k - 1) * a := by linarith
    have e2 : b - a ≤ (k - 1) * b := by nlinarith
    constructor
    · nlinarith [mul_nonneg e0 hp, mul_nonneg hx (sub_nonneg.2 e1), mul_nonneg hy (sub_nonneg.2 e2)]
    · nlinarith [mul_nonneg e0 hm, mul_nonneg hx (sub_nonneg.2 e1), mul_nonneg hy (sub_nonneg.2 e2)]
  · have e0 : 0 ≤ a - b := sub_nonneg.2 hab
    have e1 : a - b ≤ (k - 1) * b := by linarith
    have e2 : a - b ≤ (k - 1) * a := by nlinarith
    constructor
    · nlinarith [mul_nonneg e0 hm, mul_nonneg hx (sub_nonneg.2 e2), mul_nonneg hy (sub_nonneg.2 e1)]
    · nlinarith [mul_nonneg e0 hp, mul_nonneg hx (sub_nonneg.2 e2), mul_nonneg hy (sub_nonneg.2 e1)]

/-- The form `a·x² + b·y²` grows by at most the factor `1 + 2σk` under a unit rotation `(c, s)` with
`|s| ≤ σ ≤ 1`. -/
theorem ell_tilt_bound {a b k c s σ x y : K} (ha : 0 < a) (hb : 0 < b) (h1 : a ≤ k * b) (h2 : b ≤ k * a)
    (hk : 1 ≤ k) (hu : c * c + s * s = 1) (hs1 : -σ ≤ s) (hs2 : s ≤ σ) (hσ1 : σ ≤ 1) :
    a * ((c * x - s * y) * (c * x - s * y)) + b * ((s * x + c * y) * (s * x + c * y)) ≤
      (1 + 2 * σ * k) * (a * (x * x) + b * (y * y)) := by
  have hσ0 : 0 ≤ σ := by linarith
  obtain ⟨hc1, hc2, -, -⟩ := unit_le_one hu
  have hx := mul_self_nonneg x
  have hy := mul_self_nonneg y
  have hF : 0 ≤ a * (x * x) + b * (y * y) := by positivity
  have hG : a * (y * y) + b * (x * x) ≤ k * (a * (x * x) + b * (y * y)) := by
    nlinarith [mul_nonneg hy (sub_nonneg.2 h1), mul_nonneg hx (sub_nonneg.2 h2)]
  have hG0 : 0 ≤ a * (y * y) + b * (x * x) := by positivity
  -- expansion
  have ex : a * ((c * x - s * y) * (c * x - s * y)) + b * ((s * x + c * y) * (s * x + c * y)) =
      (c * c) * (a * (x * x) + b * (y * y)) + (s * s) * (a * (y * y) + b * (x * x)) +
        (c * s) * (2 * (x * y) * (b - a)) := by ring
  -- the three terms
  have hcc : c * c ≤ 1 := by nlinarith [mul_self_nonneg s]
  have hss : s * s ≤ σ := by
    have : s * s ≤ σ * σ := by nlinarith
    nlinarith
  have t1 : (c * c) * (a * (x * x) + b * (y * y)) ≤ a * (x * x) + b * (y * y) := by nlinarith
  have t2 : (s * s) * (a * (y * y) + b * (x * x)) ≤ σ * (k * (a * (x * x) + b * (y * y))) := by
    have h := mul_le_mul hss hG hG0 hσ0
    exact h
  obtain ⟨q1, q2⟩ := cross_term_bound (x := x) (y := y) ha hb h1 h2
  obtain ⟨p1, p2⟩ := mul_bound_one hc1 hc2 hs1 hs2
  have hQ : 0 ≤ (k - 1) * (a * (x * x) + b * (y * y)) := mul_nonneg (by linarith) hF
  obtain ⟨-, t3⟩ := mul_bound (s := c * s) (y := 2 * (x * y) * (b - a)) (σ := σ)
    (B := (k - 1) * (a * (x * x) + b * (y * y))) p1 p2 q1 q2
  rw [ex]
  nlinarith [mul_nonneg hσ0 hF]

end Generic

/-! ## the `Rat` model -/
open GlueVerif.Geometry

theorem ellF_eq (x y rx ry : Rat) :
    ellF x y rx ry = 1 / (rx * rx) * (x * x) + 1 / (ry * ry) * (y * y) := by
  simp only [ellF]; ring

theorem rmin_pos {a b : Rat} (ha : 0 < a) (hb : 0 < b) : 0 < rmin a b := by
  unfold rmin; split <;> assumption

theorem rmin_le_rmax (a b : Rat) : rmin a b ≤ rmax a b := le_trans (rmin_le_left a b) (le_rmax_left a b)

/-- ratio bounds of the two coefficients `1/rx²`, `1/ry²` by `K = (max/min)²`. -/
theorem coeff_ratio {rx ry : Rat} (hrx : 0 < rx) (hry : 0 < ry) :
    1 / (rx * rx) ≤ (rmax rx ry * rmax rx ry) / (rmin rx ry * rmin rx ry) * (1 / (ry * ry)) ∧
    1 / (ry * ry) ≤ (rmax rx ry * rmax rx ry) / (rmin rx ry * rmin rx ry) * (1 / (rx * rx)) ∧
    1 ≤ (rmax rx ry * rmax rx ry) / (rmin rx ry * rmin rx ry) := by
  have hm := rmin_pos hrx hry
  have hM : 0 < rmax rx ry := lt_of_lt_of_le hm (rmin_le_rmax rx ry)
  have m1 := rmin_le_left rx ry
  have m2 := rmin_le_right rx ry
  have M1 := le_rmax_left rx ry
  have M2 := le_rmax_right rx ry
  have hmm : 0 < rmin rx ry * rmin rx ry := mul_pos hm hm
  have hxx : 0 < rx * rx := mul_pos hrx hrx
  have hyy : 0 < ry * ry := mul_pos hry hry
  have a1 : rmin rx ry * rmin rx ry ≤ rx * rx := mul_le_mul m1 m1 hm.le hrx.le
  have a2 : rmin rx ry * rmin rx ry ≤ ry * ry := mul_le_mul m2 m2 hm.le hry.le
  have b1 : rx * rx ≤ rmax rx ry * rmax rx ry := mul_le_mul M1 M1 hrx.le hM.le
  have b2 : ry * ry ≤ rmax rx ry * rmax rx ry := mul_le_mul M2 M2 hry.le hM.le
  refine ⟨?_, ?_, ?_⟩
  · have e : (rmax rx ry * rmax rx ry) / (rmin rx ry * rmin rx ry) * (1 / (ry * ry)) =
        (rmax rx ry * rmax rx ry) / ((rmin rx ry * rmin rx ry) * (ry * ry)) := by field_simp
    rw [e, div_le_div_iff₀ hxx (mul_pos hmm hyy)]
    nlinarith [mul_le_mul a1 b2 hyy.le hxx.le]
  · have e : (rmax rx ry * rmax rx ry) / (rmin rx ry * rmin rx ry) * (1 / (rx * rx)) =
        (rmax rx ry * rmax rx ry) / ((rmin rx ry * rmin rx ry) * (rx * rx)) := by field_simp
    rw [e, div_le_div_iff₀ hyy (mul_pos hmm hxx)]
    nlinarith [mul_le_mul a2 b1 hxx.le hyy.le]
  · rw [le_div_iff₀ hmm]
    nlinarith [mul_le_mul (rmin_le_rmax rx ry) (rmin_le_rmax rx ry) hm.le hM.le]

/-- Off the band: far outside the ellipse scaled by `1 + t`, or deep inside the one scaled by `1 − t`. -/
theorem ell_far_of_not_near (e : Ellipse) (p : Pt) (ε : Rat) (hrx : 0 < e.rx) (hry : 0 < e.ry)
    (h : e.near p ε = false) :
    (1 + ε / rmin e.rx e.ry) * (1 + ε / rmin e.rx e.ry) < ellF (e.loc p).1 (e.loc p).2 e.rx e.ry ∨
    (0 < 1 - ε / rmin e.rx e.ry ∧
      ellF (e.loc p).1 (e.loc p).2 e.rx e.ry < (1 - ε / rmin e.rx e.ry) * (1 - ε / rmin e.rx e.ry)) := by
  have hn : ¬ (e.rx ≤ 0 ∨ e.ry ≤ 0) := by rintro (h | h) <;> linarith
  simp only [Ellipse.near, hn, if_false, Bool.and_eq_false_iff, Bool.or_eq_false_iff,
    decide_eq_false_iff_not, not_le] at h
  rcases h with h | ⟨h1, h2⟩
  · exact Or.inl h
  · exact Or.inr ⟨h1, h2⟩

/-- The axis-type branch with a tilt: `f(d)` decides like `f(u)` off the band.  `(c, s)` is the unit
vector relating the own-frame coordinates `u` to the offset `d = (c·u₁ − s·u₂, s·u₁ + c·u₂)`. -/
theorem ell_tilt_decide {rx ry c s σ u1 u2 t : Rat} (hrx : 0 < rx) (hry : 0 < ry) (hu : c * c + s * s = 1)
    (hs1 : -σ ≤ s) (hs2 : s ≤ σ) (ht0 : 0 ≤ t)
    (hη : 2 * σ * ((rmax rx ry * rmax rx ry) / (rmin rx ry * rmin rx ry)) ≤ t)
    (far : (1 + t) * (1 + t) < ellF u1 u2 rx ry ∨ (0 < 1 - t ∧ ellF u1 u2 rx ry < (1 - t) * (1 - t))) :
    (ellF (c * u1 - s * u2) (s * u1 + c * u2) rx ry < 1) ↔ (ellF u1 u2 rx ry < 1) := by
  obtain ⟨k1, k2, k3⟩ := coeff_ratio hrx hry
  have ha : 0 < 1 / (rx * rx) := by positivity
  have hb : 0 < 1 / (ry * ry) := by positivity
  obtain ⟨-, -, hs3, hs4⟩ := unit_le_one hu
  have hσ0 : 0 ≤ σ := by linarith
  -- if σ > 1 the hypothesis hη is still fine, but the bound lemma wants σ ≤ 1: use min
  have hσ' : ∃ σ', -σ' ≤ s ∧ s ≤ σ' ∧ σ' ≤ 1 ∧ 0 ≤ σ' ∧ σ' ≤ σ := by
    rcases le_total σ 1 with h | h
    · exact ⟨σ, hs1, hs2, h, hσ0, le_refl _⟩
    · exact ⟨1, hs3, hs4, le_refl _, zero_le_one, h⟩
  obtain ⟨σ', g1, g2, g3, g4, g5⟩ := hσ'
  have hu' : c * c + (-s) * (-s) = 1 := by rw [← hu]; ring
  have B1 := ell_tilt_bound (x := u1) (y := u2) ha hb k1 k2 k3 hu g1 g2 g3
  have B2 := ell_tilt_bound (x := c * u1 - s * u2) (y := s * u1 + c * u2) ha hb k1 k2 k3 hu'
    (by linarith) (by linarith) g3
  have r1 : c * (c * u1 - s * u2) - -s * (s * u1 + c * u2) = u1 := by
    have : c * (c * u1 - s * u2) - -s * (s * u1 + c * u2) = (c * c + s * s) * u1 := by ring
    rw [this, hu, one_mul]
  have r2 : -s * (c * u1 - s * u2) + c * (s * u1 + c * u2) = u2 := by
    have : -s * (c * u1 - s * u2) + c * (s * u1 + c * u2) = (c * c + s * s) * u2 := by ring
    rw [this, hu, one_mul]
  rw [r1, r2] at B2
  rw [ellF_eq, ellF_eq]
  rw [ellF_eq] at far
  have hFu0 : 0 ≤ 1 / (rx * rx) * (u1 * u1) + 1 / (ry * ry) * (u2 * u2) :=
    add_nonneg (mul_nonneg ha.le (mul_self_nonneg _)) (mul_nonneg hb.le (mul_self_nonneg _))
  have hFd0 : 0 ≤ 1 / (rx * rx) * ((c * u1 - s * u2) * (c * u1 - s * u2)) +
      1 / (ry * ry) * ((s * u1 + c * u2) * (s * u1 + c * u2)) :=
    add_nonneg (mul_nonneg ha.le (mul_self_nonneg _)) (mul_nonneg hb.le (mul_self_nonneg _))
  generalize 1 / (rx * rx) * (u1 * u1) + 1 / (ry * ry) * (u2 * u2) = Fu at *
  generalize 1 / (rx * rx) * ((c * u1 - s * u2) * (c * u1 - s * u2)) +
      1 / (ry * ry) * ((s * u1 + c * u2) * (s * u1 + c * u2)) = Fd at *
  generalize (rmax rx ry * rmax rx ry) / (rmin rx ry * rmin rx ry) = kk at *
  have hkk0 : 0 ≤ kk := by linarith
  have hη' : 2 * σ' * kk ≤ t := by
    have : σ' * kk ≤ σ * kk := mul_le_mul_of_nonneg_right g5 hkk0
    linarith
  have c1 : Fd ≤ (1 + t) * Fu := by
    have : (1 + 2 * σ' * kk) * Fu ≤ (1 + t) * Fu := mul_le_mul_of_nonneg_right (by linarith) hFu0
    linarith
  have c2 : Fu ≤ (1 + t) * Fd := by
    have : (1 + 2 * σ' * kk) * Fd ≤ (1 + t) * Fd := mul_le_mul_of_nonneg_right (by linarith) hFd0
    linarith
  rcases far with f | ⟨f0, f⟩
  · have hd1 : 1 < Fd := by
      by_contra hcon
      rw [not_lt] at hcon
      have : (1 + t) * Fd ≤ (1 + t) * 1 := mul_le_mul_of_nonneg_left hcon (by linarith)
      nlinarith
    have hu1 : 1 < Fu := by nlinarith
    constructor
    · intro h; exfalso; linarith
    · intro h; exfalso; linarith
  · have hu1 : Fu < 1 := by nlinarith
    have hd1 : Fd < 1 := by
      have h3 : (1 + t) * ((1 - t) * (1 - t)) ≤ 1 := by
        nlinarith [mul_nonneg ht0 ht0, mul_nonneg ht0 (mul_nonneg ht0 ht0)]
      have h4 : (1 + t) * Fu < (1 + t) * ((1 - t) * (1 - t)) := mul_lt_mul_of_pos_left f (by linarith)
      linarith
    exact ⟨fun _ => hu1, fun _ => hd1⟩

theorem eta_of_tol {σ M m ε : Rat} (hm : 0 < m) (h : 2 * σ * (M * M) / m ≤ ε) :
    2 * σ * ((M * M) / (m * m)) ≤ ε / m := by
  rw [le_div_iff₀ hm]
  have : 2 * σ * ((M * M) / (m * m)) * m = 2 * σ * (M * M) / m := by
    field_simp
  rw [this]; exact h

/-- **`ellipse_branches_agree`, full**: whichever branch `np.isclose` selects — also the un-rotated
branches taken for a tilt of up to `1e-9` rad — off the band of half-width `ε ≥ branchTol` the coded
test is `x'²/rx² + y'²/ry² < 1`. -/
theorem ellipse_branches_agree_tilt (e : Ellipse) (p : Pt) (ε : Rat) (hu : e.c * e.c + e.s * e.s = 1)
    (hrx : 0 < e.rx) (hry : 0 < e.ry) (hε : 0 ≤ ε) (htol : e.branchTol ≤ ε) (hfar : e.near p ε = false) :
    Impl.ellipseContains e p = Spec.ellipseContains e p := by
  have h0 : ¬ (e.rx = 0 ∨ e.ry = 0) := by rintro (h | h) <;> linarith
  have hm := rmin_pos hrx hry
  have far := ell_far_of_not_near e p ε hrx hry hfar
  have ht0 : 0 ≤ ε / rmin e.rx e.ry := div_nonneg hε hm.le
  obtain ⟨d1, d2⟩ := rot_unrot hu (p.1 - e.xc) (p.2 - e.yc)
  simp only [Impl.ellipseContains, Spec.ellipseContains, h0, if_false]
  cases hb : branchOf e.c e.s with
  | axis =>
    simp only
    obtain ⟨s1, s2, s0⟩ := rabs_bounds e.s
    have ht : 2 * (if e.s < 0 then -e.s else e.s) * (rmax e.rx e.ry * rmax e.rx e.ry) / rmin e.rx e.ry ≤ ε := by
      simpa [Ellipse.branchTol, hb] using htol
    have key := ell_tilt_decide (u1 := (e.loc p).1) (u2 := (e.loc p).2) hrx hry hu s1 s2 ht0 (eta_of_tol hm ht) far
    rw [ell_loc_fst, ell_loc_snd, d1, d2] at key
    exact decide_eq_decide.mpr key
  | quarter =>
    simp only
    obtain ⟨s1, s2, s0⟩ := rabs_bounds e.c
    have ht : 2 * (if e.c < 0 then -e.c else e.c) * (rmax e.rx e.ry * rmax e.rx e.ry) / rmin e.rx e.ry ≤ ε := by
      simpa [Ellipse.branchTol, hb] using htol
    have hu' : e.s * e.s + (-e.c) * (-e.c) = 1 := by rw [← hu]; ring
    have key := ell_tilt_decide (c := e.s) (s := -e.c) (u1 := (e.loc p).1) (u2 := (e.loc p).2) hrx hry hu'
      (by linarith) (by linarith) ht0 (eta_of_tol hm ht) far
    -- (s·u₁ + c·u₂, −c·u₁ + s·u₂) = (dy, −dx)
    have e1 : e.s * (e.loc p).1 - -e.c * (e.loc p).2 = p.2 - e.yc := by
      rw [ell_loc_fst, ell_loc_snd]; linarith
    have e2 : -e.c * (e.loc p).1 + e.s * (e.loc p).2 = -(p.1 - e.xc) := by
      rw [ell_loc_fst, ell_loc_snd]; linarith
    rw [e1, e2] at key
    have e3 : ellF (p.2 - e.yc) (-(p.1 - e.xc)) e.rx e.ry = ellF (p.1 - e.xc) (p.2 - e.yc) e.ry e.rx := by
      simp only [ellF]; ring
    rw [e3] at key
    exact decide_eq_decide.mpr key
  | general =>
    simp only
    rw [Bool.eq_iff_iff, Bool.and_eq_true, decide_eq_true_eq]
    constructor
    · exact fun h => h.2
    · exact fun h => ⟨ell_keep_of_inside e p hu hrx hry h, h⟩

end GlueVerif.Lemmas.Geometry
