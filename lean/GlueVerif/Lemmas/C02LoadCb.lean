import GlueVerif.Lemmas.C02LoadLate
/-! The un-serializer with all three mechanisms: memo table, generator loaders (late fields) and
deferred `__setgluestate_callback__` fields (`cb`).  With the repaired `_try_callbacks` (fix F5i) the
callbacks are tried only when no object is under construction; for a `main` object with a plain loader
that is exactly once, at the very end, when every object has been restored — so every callback field
resolves by a memo-table hit. -/
namespace GlueVerif.C02

/-- what an entry of `pend` (a still un-resolved callback field) must be -/
def PendOk (h : Heap) (reg : Reg) (st : LState) (e : Nat × Nat × JVal) : Prop :=
  ∃ n o ob f, lookupMemo st.memo n = some e.1 ∧ (o, n) ∈ reg ∧ h[o]? = some ob ∧ ob.fields[e.2.1]? = some f ∧
    f.phase = .cb ∧ e.2.2 = encVal h reg h.length f.val

/-- fields of a completely loaded object *before* the callbacks have run -/
def CellVals (h : Heap) (reg : Reg) (st : LState) (c : Nat) : Nat → List Field → List LVal → Prop
  | _, [], [] => True
  | k, f :: fs, l :: ls =>
    (if f.phase = .cb then l = .pending ∧ (c, k, encVal h reg h.length f.val) ∈ st.pend ∧ c ∈ st.callbacks
     else RelV h reg st.heap st.memo h.length f.val l) ∧ CellVals h reg st c (k + 1) fs ls
  | _, _, _ => False

def GoodC (h : Heap) (reg : Reg) (st : LState) (n : Str) (i : Nat) : Prop :=
  i < st.heap.length ∧ ∃ o ob lo, (o, n) ∈ reg ∧ h[o]? = some ob ∧ st.heap[i]? = some lo ∧
    lo.cls = ob.cls ∧ CellVals h reg st i 0 ob.fields lo.fields

structure LInvC (h : Heap) (reg : Reg) (prog : List Str) (st : LState) : Prop where
  keysNodup : (st.memo.map Prod.fst).Nodup
  valsNodup : (st.memo.map Prod.snd).Nodup
  disj : ∀ w ∈ st.working, lookupMemo st.memo w = none
  bound : ∀ e ∈ st.memo, e.2 < st.heap.length
  pendOk : ∀ e ∈ st.pend, PendOk h reg st e
  good : ∀ e ∈ st.memo, e.1 ∉ prog → GoodC h reg st e.1 e.2

structure LExtC (st st' : LState) : Prop where
  le : SLe st st'
  work : st'.working = st.working
  pend : ∀ e ∈ st.pend, e ∈ st'.pend
  cbs : ∀ c ∈ st.callbacks, c ∈ st'.callbacks

theorem LExtC.refl (st : LState) : LExtC st st := ⟨SLe.refl _, rfl, fun _ h => h, fun _ h => h⟩
theorem LExtC.trans {a b c : LState} (h1 : LExtC a b) (h2 : LExtC b c) : LExtC a c :=
  ⟨h1.le.trans h2.le, by rw [h2.work, h1.work],
   fun e he => h2.pend e (h1.pend e he), fun x hx => h2.cbs x (h1.cbs x hx)⟩
theorem LExtC.memo {a b : LState} (h : LExtC a b) : MemoLe a.memo b.memo := h.le.memo
theorem LExtC.heap {a b : LState} (h : LExtC a b) : HeapLe a.heap b.heap := h.le.heap

theorem PendOk.mono {h : Heap} {reg : Reg} {st st' : LState} (hm : MemoLe st.memo st'.memo) {e : Nat × Nat × JVal}
    (hp : PendOk h reg st e) : PendOk h reg st' e := by
  obtain ⟨n, o, ob, f, a1, a2, a3, a4, a5, a6⟩ := hp
  exact ⟨n, o, ob, f, hm _ _ a1, a2, a3, a4, a5, a6⟩

theorem CellVals.mono {h : Heap} {reg : Reg} {st st' : LState} {c : Nat} (hm : RelPres h reg st st')
    (hp : ∀ e ∈ st.pend, e ∈ st'.pend) (hc : ∀ x ∈ st.callbacks, x ∈ st'.callbacks) :
    ∀ {k : Nat} {fs : List Field} {ls : List LVal}, CellVals h reg st c k fs ls → CellVals h reg st' c k fs ls
  | _, [], [], _ => trivial
  | _, _ :: _, [], h0 => by simp [CellVals] at h0
  | _, [], _ :: _, h0 => by simp [CellVals] at h0
  | _, f :: _, _ :: _, h0 => by
    refine ⟨?_, CellVals.mono hm hp hc h0.2⟩
    have h1 := h0.1
    by_cases hph : f.phase = .cb
    · simp only [hph, if_true] at h1 ⊢
      exact ⟨h1.1, hp _ h1.2.1, hc _ h1.2.2⟩
    · simp only [hph, if_false] at h1 ⊢
      exact hm _ _ _ h1

theorem GoodC.le {h : Heap} {reg : Reg} {st st' : LState} (hle : SLe st st') (hp : ∀ e ∈ st.pend, e ∈ st'.pend)
    (hc : ∀ x ∈ st.callbacks, x ∈ st'.callbacks) {n : Str} {i : Nat} (hg : GoodC h reg st n i) : GoodC h reg st' n i := by
  obtain ⟨hlt, o, ob, lo, a1, a2, a3, a4, a5⟩ := hg
  exact ⟨Nat.lt_of_lt_of_le hlt hle.heap.1, o, ob, lo, a1, a2, hle.heap.get a3, a4, CellVals.mono hle.relPres hp hc a5⟩

/-- values of a freshly allocated object: only the early fields are resolved -/
def InitValsC (h : Heap) (reg : Reg) (st : LState) : List Field → List LVal → Prop
  | [], [] => True
  | f :: fs, l :: ls =>
    (if f.phase = .early then RelV h reg st.heap st.memo h.length f.val l else l = .pending) ∧ InitValsC h reg st fs ls
  | _, _ => False

theorem InitValsC.mono {h : Heap} {reg : Reg} {st st' : LState} (hle : RelPres h reg st st') :
    ∀ {fs : List Field} {ls : List LVal}, InitValsC h reg st fs ls → InitValsC h reg st' fs ls
  | [], [], _ => trivial
  | _ :: _, [], h0 => by simp [InitValsC] at h0
  | [], _ :: _, h0 => by simp [InitValsC] at h0
  | f :: _, _ :: _, h0 => by
    refine ⟨?_, InitValsC.mono hle h0.2⟩
    have h1 := h0.1
    by_cases hp : f.phase = .early
    · simp only [hp, if_true] at h1 ⊢; exact hle _ _ _ h1
    · simpa [hp] using h1

/-- values of the fields the late loop has passed: everything but callback fields is resolved -/
def DoneVals (h : Heap) (reg : Reg) (st : LState) : List Field → List LVal → Prop
  | [], [] => True
  | f :: fs, l :: ls =>
    (if f.phase = .cb then l = .pending else RelV h reg st.heap st.memo h.length f.val l) ∧ DoneVals h reg st fs ls
  | _, _ => False

theorem DoneVals.mono {h : Heap} {reg : Reg} {st st' : LState} (hle : RelPres h reg st st') :
    ∀ {fs : List Field} {ls : List LVal}, DoneVals h reg st fs ls → DoneVals h reg st' fs ls
  | [], [], _ => trivial
  | _ :: _, [], h0 => by simp [DoneVals] at h0
  | [], _ :: _, h0 => by simp [DoneVals] at h0
  | f :: _, _ :: _, h0 => by
    refine ⟨?_, DoneVals.mono hle h0.2⟩
    have h1 := h0.1
    by_cases hp : f.phase = .cb
    · simpa [hp] using h1
    · simp only [hp, if_false] at h1 ⊢; exact hle _ _ _ h1

theorem doneVals_append {h : Heap} {reg : Reg} {st : LState} : ∀ {fs : List Field} {ls : List LVal} {f : Field} {l : LVal},
    DoneVals h reg st fs ls → (if f.phase = .cb then l = .pending else RelV h reg st.heap st.memo h.length f.val l) →
    DoneVals h reg st (fs ++ [f]) (ls ++ [l])
  | [], [], _, _, _, h2 => ⟨h2, trivial⟩
  | _ :: _, [], _, _, h1, _ => by simp [DoneVals] at h1
  | [], _ :: _, _, _, h1, _ => by simp [DoneVals] at h1
  | _ :: _, _ :: _, _, _, h1, h2 => ⟨h1.1, doneVals_append h1.2 h2⟩

theorem doneVals_length {h : Heap} {reg : Reg} {st : LState} : ∀ {fs : List Field} {ls : List LVal},
    DoneVals h reg st fs ls → fs.length = ls.length
  | [], [], _ => rfl
  | _ :: _, [], h0 => by simp [DoneVals] at h0
  | [], _ :: _, h0 => by simp [DoneVals] at h0
  | _ :: _, _ :: _, h => by simp [doneVals_length h.2]

/-- entries produced by `cbSources` -/
theorem cbSources_mem (i : Nat) : ∀ (flds : List (Phase × JVal)) (k0 : Nat) (c k : Nat) (j : JVal),
    (c, k, j) ∈ cbSources i k0 flds ↔ c = i ∧ k0 ≤ k ∧ flds[k - k0]? = some (Phase.cb, j)
  | [], k0, c, k, j => by simp [cbSources]
  | (p, j0) :: rest, k0, c, k, j => by
    unfold cbSources
    have ih := cbSources_mem i rest (k0 + 1) c k j
    by_cases hp : p = .cb
    · subst hp
      simp only [if_true, List.mem_cons, Prod.mk.injEq, ih]
      constructor
      · rintro (⟨rfl, rfl, rfl⟩ | ⟨rfl, hk, hget⟩)
        · exact ⟨rfl, Nat.le_refl _, by simp⟩
        · refine ⟨rfl, by omega, ?_⟩
          have : k - k0 = (k - (k0 + 1)) + 1 := by omega
          rw [this]; simpa using hget
      · rintro ⟨rfl, hk, hget⟩
        by_cases hkk : k = k0
        · subst hkk; simp at hget; left; exact ⟨rfl, rfl, hget.symm⟩
        · right
          refine ⟨rfl, by omega, ?_⟩
          have : k - k0 = (k - (k0 + 1)) + 1 := by omega
          rw [this] at hget; simpa using hget
    · simp only [hp, if_false, ih]
      constructor
      · rintro ⟨rfl, hk, hget⟩
        refine ⟨rfl, by omega, ?_⟩
        have : k - k0 = (k - (k0 + 1)) + 1 := by omega
        rw [this]; simpa using hget
      · rintro ⟨rfl, hk, hget⟩
        by_cases hkk : k = k0
        · subst hkk; simp at hget; exact absurd hget.1 hp
        · refine ⟨rfl, by omega, ?_⟩
          have : k - k0 = (k - (k0 + 1)) + 1 := by omega
          rw [this] at hget; simpa using hget


/-! ### setting -/

structure CtxC (h : Heap) (main : Nat) (reg : Reg) (T : Table) (rank idep : Nat → Nat) : Prop where
  regOk : RegOk main reg
  tbl : ∀ o n, (o, n) ∈ reg → ∃ ob, h[o]? = some ob ∧ lookupRec T n = some (encObj h reg ob) ∧ RefsIn h reg h.length ob.fields
  /-- a generator loader never gets its callback registered: such classes are excluded -/
  noGenCb : ∀ ob ∈ h, (∃ f ∈ ob.fields, f.phase = .late) → ∀ f ∈ ob.fields, f.phase ≠ .cb
  rkEarly : ∀ o ob, h[o]? = some ob → ∀ f ∈ ob.fields, f.phase = .early → ∀ p, f.val.target = some p → rank p < rank o
  rkLate : ∀ o ob, h[o]? = some ob → ∀ f ∈ ob.fields, f.phase = .late → ∀ p, f.val.target = some p → rank p ≤ rank o
  depth : ∀ o, o < h.length → idep o ≤ h.length
  /-- inline edges strictly decrease `idep` and are never read in a callback -/
  edge : ∀ (o : Nat) (ob : Obj), h[o]? = some ob → ∀ f ∈ ob.fields, ∀ p, f.val = Val.own p → idep p < idep o ∧ f.phase ≠ .cb
  inlEarly : ∀ (o : Nat) (ob : Obj), h[o]? = some ob → ∀ f ∈ ob.fields, ∀ p, f.val = Val.own p → ∀ obp : Obj, h[p]? = some obp →
    ∀ x ∈ obp.fields, x.phase = .early

section
variable {h : Heap} {main : Nat} {reg : Reg} {T : Table} {rank idep : Nat → Nat}

def LoadsOkC (h : Heap) (reg : Reg) (T : Table) (prog : List Str) (fuel : Nat) (st : LState) (n : Str) : Prop :=
  ∃ st' i, object T fuel st (.str n) = (st', .ok (.ref i)) ∧ LInvC h reg prog st' ∧ LExtC st st' ∧
    lookupMemo st'.memo n = some i

/-- induction hypothesis for the children: they are only ever loaded while something is under construction -/
def ChildOkC (h : Heap) (reg : Reg) (T : Table) (rank : Nat → Nat) (prog : List Str) (F : Nat) : Prop :=
  ∀ f, f ≤ F → ∀ p m, (p, m) ∈ reg → ∀ st, LInvC h reg prog st → st.working ≠ [] →
    (∀ w ∈ st.working, ∃ q, (q, w) ∈ reg ∧ rank p < rank q) → budget h reg st < f →
    LoadsOkC h reg T prog f st m

theorem linvC_alloc {prog : List Str} {st : LState} (hinv : LInvC h reg prog st) (x : LObj) :
    LInvC h reg prog { st with heap := st.heap ++ [x] } ∧ SLe st { st with heap := st.heap ++ [x] } := by
  have hle : SLe st { st with heap := st.heap ++ [x] } :=
    ⟨MemoLe.refl _, heapLe_append _ _, fun _ he => Or.inl he⟩
  refine ⟨⟨hinv.keysNodup, hinv.valsNodup, hinv.disj, ?_, ?_, ?_⟩, hle⟩
  · intro e he
    have := hinv.bound e he
    simp only [List.length_append, List.length_cons, List.length_nil]; omega
  · intro e he
    exact (hinv.pendOk e he).mono (MemoLe.refl _)
  · intro e he hnp
    exact (hinv.good e he hnp).le hle (fun _ x => x) (fun _ x => x)

theorem budget_extC {st st1 : LState} (ext1 : LExtC st st1) : budget h reg st1 ≤ budget h reg st :=
  budget_le (todo_mono ext1.memo ext1.work)

/-- the generic interface for inlined sub-trees, instantiated for the callback development: something
is under construction (`W0 ≠ []`), so no callback is tried when an inlined record has been loaded -/
theorem ownCtx_cb (C : CtxC h main reg T rank idep) (prog : List Str) (F : Nat)
    (IHc : ChildOkC h reg T rank prog F) (W0 : List Str) (hW0 : W0 ≠ []) (B : Nat)
    (hW : ∀ w ∈ W0, ∃ q, (q, w) ∈ reg ∧ B ≤ rank q) (hF : 2 * h.length + 2 ≤ F) :
    OwnCtx h reg T (fun st => LInvC h reg prog st ∧ st.working = W0 ∧ budget h reg st + h.length < F)
      (fun a b => LExtC a b)
      (fun f q => f ≤ F ∧ F ≤ f + h.length ∧ rank q < B)
      (fun f p => f ≤ F ∧ F + idep p + 1 ≤ f + h.length ∧ rank p ≤ B ∧
        ∀ obp, h[p]? = some obp → ∀ x ∈ obp.fields, x.phase = .early) where
  refl := LExtC.refl
  trans := LExtC.trans
  le := fun e => e.le
  bound := fun hi e he => hi.1.bound e he
  alloc := by
    intro st hi x
    obtain ⟨h1, h2⟩ := linvC_alloc hi.1 x
    exact ⟨⟨h1, hi.2.1, hi.2.2⟩, ⟨h2, rfl, fun _ y => y, fun _ y => y⟩⟩
  idle := by
    intro st hi obj
    unfold tryCallbacksIfIdle
    cases hw : st.working with
    | nil => exact absurd (hi.2.1 ▸ hw) hW0
    | cons a r => rfl
  fuel2 := fun hA => by omega
  stepOwn := by
    intro f p ob g p' hA hob hg hv
    have h1 := (C.edge p ob hob g hg p' hv).1
    have h2 := C.rkEarly p ob hob g hg (hA.2.2.2 ob hob g hg) p' (by rw [hv]; rfl)
    exact ⟨by omega, by omega, by omega, fun obp hobp => C.inlEarly p ob hob g hg p' hv obp hobp⟩
  stepRef := by
    intro f p ob g q hA hob hg hv
    have h2 := C.rkEarly p ob hob g hg (hA.2.2.2 ob hob g hg) q (by rw [hv]; rfl)
    exact ⟨by omega, by omega, by omega⟩
  child := by
    intro f q m hA hqm st hi
    obtain ⟨st', i, h1, h2, h3, h4⟩ := IHc f hA.1 q m hqm st hi.1 (by rw [hi.2.1]; exact hW0) (by
      intro w hw
      rw [hi.2.1] at hw
      obtain ⟨q', hq1, hq2⟩ := hW w hw
      exact ⟨q', hq1, by omega⟩) (by omega)
    refine ⟨st', i, h1, ⟨h2, by rw [h3.work, hi.2.1], ?_⟩, h3, h4⟩
    have := budget_extC (h := h) (reg := reg) h3
    omega
  inlEarly := fun {o ob g p obp} hob hg hv hobp => C.inlEarly o ob hob g hg p hv obp hobp

theorem resolve_value_c (C : CtxC h main reg T rank idep) (o : Nat) (ob : Obj) (hob : h[o]? = some ob)
    (hrefs : RefsIn h reg h.length ob.fields) (f' : Nat) (prog : List Str) (g : Field) (hg : g ∈ ob.fields)
    (IHc : ChildOkC h reg T rank prog (f' + 1))
    (st : LState) (hinv : LInvC h reg prog st) (hbusy : st.working ≠ [])
    (hgo : ∀ p, g.val.target = some p → rank p ≤ rank o)
    (hw : ∀ p, g.val = .ref p → ∀ w ∈ st.working, ∃ q, (q, w) ∈ reg ∧ rank p < rank q)
    (hwo : ∀ w ∈ st.working, ∃ q, (q, w) ∈ reg ∧ rank o ≤ rank q)
    (hfuel : budget h reg st + h.length < f' + 1) :
    ∃ st1 v, object T (f' + 1) st (encVal h reg h.length g.val) = (st1, .ok v) ∧ LInvC h reg prog st1 ∧ LExtC st st1 ∧
      RelV h reg st1.heap st1.memo h.length g.val v := by
  have hrg : RefsInV h reg h.length g.val := hrefs g hg
  cases hv : g.val with
  | lit n => exact ⟨st, .lit n, by simp only [encVal, object], hinv, LExtC.refl _, by simp only [RelV]⟩
  | str s =>
    refine ⟨st, .str s, ?_, hinv, LExtC.refl _, by simp only [RelV]⟩
    simp only [encVal, object, (literal_roundtrip s).1, if_true, (literal_roundtrip s).2]
  | ref p =>
    rw [hv] at hrg
    simp only [RefsInV] at hrg
    obtain ⟨m, hm⟩ := hrg
    have hpm : (p, m) ∈ reg := lookupName_some_mem hm
    obtain ⟨st1, i, h1, h2, h3, h4⟩ := IHc (f' + 1) (Nat.le_refl _) p m hpm st hinv hbusy (hw p hv) (by omega)
    refine ⟨st1, .ref i, ?_, h2, h3, ?_⟩
    · simp only [encVal, hm, Option.getD_some]; exact h1
    · simp only [RelV]; exact ⟨m, hm, h4⟩
  | own p =>
    rw [hv] at hrg
    have hol : o < h.length := by
      obtain ⟨hol, _⟩ := List.getElem?_eq_some_iff.mp hob; exact hol
    have hd1 := C.depth o hol
    have hd2 := (C.edge o ob hob g hg p hv).1
    have hrk := hgo p (by rw [hv]; rfl)
    have hbp := budget_pos h reg st
    have X := ownCtx_cb C prog (f' + 1) IHc st.working hbusy (rank o) hwo (by omega)
    obtain ⟨st1, j, h1, h2, h3, h4, _⟩ := load_own X h.length p (f' + 1) hrg
      ⟨Nat.le_refl _, by omega, hrk, fun obp hobp => C.inlEarly o ob hob g hg p hv obp hobp⟩
      (fun obp hobp => C.inlEarly o ob hob g hg p hv obp hobp) st ⟨hinv, rfl, hfuel⟩
    exact ⟨st1, .own j, h1, h2.1, h3, h4⟩

theorem resolve_early_c (C : CtxC h main reg T rank idep) (o : Nat) (ob : Obj) (hob : h[o]? = some ob)
    (hrefs : RefsIn h reg h.length ob.fields) (f' : Nat) (prog : List Str)
    (IHc : ChildOkC h reg T rank prog (f' + 1)) :
    ∀ (fs : List Field), (∀ g ∈ fs, g ∈ ob.fields) → ∀ (st : LState), LInvC h reg prog st → st.working ≠ [] →
      (∀ w ∈ st.working, ∃ q, (q, w) ∈ reg ∧ rank o ≤ rank q) → budget h reg st + h.length < f' + 1 →
      ∃ st' vals, resolvePhase (object T (f' + 1)) .early st (encFields h reg h.length fs) = (st', .ok vals) ∧
        LInvC h reg prog st' ∧ LExtC st st' ∧ InitValsC h reg st' fs vals
  | [], _, st, hinv, _, _, _ => ⟨st, [], rfl, hinv, LExtC.refl _, trivial⟩
  | g :: fs, hsub, st, hinv, hbusy, hw, hfuel => by
    have hg : g ∈ ob.fields := hsub g List.mem_cons_self
    have hsub' : ∀ x ∈ fs, x ∈ ob.fields := fun x hx => hsub x (List.mem_cons_of_mem _ hx)
    by_cases hph : g.phase = .early
    · have hrk : ∀ p, g.val.target = some p → rank p < rank o := C.rkEarly o ob hob g hg hph
      obtain ⟨st1, v, e1, inv1, ext1, rel1⟩ := resolve_value_c C o ob hob hrefs f' prog g hg IHc st hinv hbusy
        (fun p hp => by have := hrk p hp; omega)
        (fun p hp w hwm => by
          obtain ⟨q, hq1, hq2⟩ := hw w hwm; have := hrk p (by rw [hp]; rfl); exact ⟨q, hq1, by omega⟩) hw hfuel
      have hfuel1 : budget h reg st1 + h.length < f' + 1 := by
        have := budget_extC (h := h) (reg := reg) ext1; omega
      obtain ⟨st2, vs, e2, inv2, ext2, rel2⟩ := resolve_early_c C o ob hob hrefs f' prog IHc fs hsub' st1 inv1
        (by rw [ext1.work]; exact hbusy) (by rw [ext1.work]; exact hw) hfuel1
      refine ⟨st2, v :: vs, ?_, inv2, ext1.trans ext2, ⟨?_, rel2⟩⟩
      · simp only [encFields, List.map_cons, resolvePhase, hph, if_true]
        simp only [encFields] at e2
        rw [e1]; simp only [e2]
      · simp only [hph, if_true]; exact RelV.le ext2.le rel1
    · obtain ⟨st2, vs, e2, inv2, ext2, rel2⟩ := resolve_early_c C o ob hob hrefs f' prog IHc fs hsub' st hinv hbusy hw hfuel
      refine ⟨st2, .pending :: vs, ?_, inv2, ext2, ⟨?_, rel2⟩⟩
      · simp only [encFields, List.map_cons, resolvePhase, hph, if_false]
        simp only [encFields] at e2
        simp only [e2]
      · simp only [hph, if_false]

/-- what the late phase of the object at cell `i` may change -/
structure LateExtC (i : Nat) (st st' : LState) : Prop where
  memo : MemoLe st.memo st'.memo
  work : st'.working = st.working
  len : st.heap.length ≤ st'.heap.length
  others : ∀ j, j < st.heap.length → j ≠ i → st'.heap[j]? = st.heap[j]?
  fresh : ∀ e ∈ st'.memo, e ∈ st.memo ∨ st.heap.length ≤ e.2
  pend : ∀ e ∈ st.pend, e ∈ st'.pend
  cbs : ∀ c ∈ st.callbacks, c ∈ st'.callbacks

theorem LateExtC.refl (i : Nat) (st : LState) : LateExtC i st st :=
  ⟨MemoLe.refl _, rfl, Nat.le_refl _, fun _ _ _ => rfl, fun _ he => Or.inl he, fun _ h => h, fun _ h => h⟩
theorem LateExtC.trans {i : Nat} {a b c : LState} (h1 : LateExtC i a b) (h2 : LateExtC i b c) : LateExtC i a c :=
  ⟨h1.memo.trans h2.memo, by rw [h2.work, h1.work], Nat.le_trans h1.len h2.len,
   fun j hj hji => by rw [h2.others j (Nat.lt_of_lt_of_le hj h1.len) hji, h1.others j hj hji],
   fun e he => by
    rcases h2.fresh e he with x | x
    · exact h1.fresh e x
    · exact Or.inr (Nat.le_trans h1.len x),
   fun e he => h2.pend e (h1.pend e he), fun x hx => h2.cbs x (h1.cbs x hx)⟩
theorem LateExtC.of_ext {i : Nat} {a b : LState} (h0 : LExtC a b) : LateExtC i a b :=
  ⟨h0.memo, h0.work, h0.heap.1, fun j hj _ => h0.heap.2 j hj, h0.le.fresh, h0.pend, h0.cbs⟩

theorem initValsC_nil {st : LState} {lb : List LVal} (h0 : InitValsC h reg st [] lb) : lb = [] := by
  cases lb with
  | nil => rfl
  | cons _ _ => simp [InitValsC] at h0

theorem initValsC_cons {st : LState} {g : Field} {fs : List Field} {lb : List LVal}
    (h0 : InitValsC h reg st (g :: fs) lb) : ∃ l lb', lb = l :: lb' ∧
      (if g.phase = .early then RelV h reg st.heap st.memo h.length g.val l else l = .pending) ∧ InitValsC h reg st fs lb' := by
  cases lb with
  | nil => simp [InitValsC] at h0
  | cons l lb' => exact ⟨l, lb', rfl, h0.1, h0.2⟩

theorem setField_inv_c {prog : List Str} {st : LState} {n : Str} {i : Nat} (k : Nat) (v : LVal)
    (hinv : LInvC h reg (n :: prog) st) (hmem : lookupMemo st.memo n = some i) :
    LInvC h reg (n :: prog) { st with heap := setField st.heap i k v } := by
  refine ⟨hinv.keysNodup, hinv.valsNodup, hinv.disj, ?_, hinv.pendOk, ?_⟩
  · intro e he
    simp only [setField, List.length_modify]; exact hinv.bound e he
  · intro e he hnp
    obtain ⟨hlt, o', ob', lo', a1, a2, a3, a4, a5⟩ := hinv.good e he hnp
    have hne : e.2 ≠ i := by
      intro heq
      have m1 : (e.1, e.2) ∈ st.memo := he
      have m2 := lookupMemo_some_mem hmem
      have n1 := nameOfIdx_of_mem hinv.valsNodup m1
      rw [heq, nameOfIdx_of_mem hinv.valsNodup m2] at n1
      exact hnp (by rw [← Option.some.inj n1]; exact List.mem_cons_self)
    refine ⟨by simp only [setField, List.length_modify]; exact hlt, o', ob', lo', a1, a2, ?_, a4,
      CellVals.mono (st := st) (st' := { st with heap := setField st.heap i k v })
        (relPres_setField st (mem_snd_of_lookup hmem) k v) (fun _ hx => hx) (fun _ hx => hx) a5⟩
    simp only [setField, List.getElem?_modify, a3, Option.map_eq_map, Option.map_some, Ne.symm hne, if_false]

theorem late_loop_c (C : CtxC h main reg T rank idep) (o : Nat) (ob : Obj) (hob : h[o]? = some ob)
    (hrefs : RefsIn h reg h.length ob.fields) (f' : Nat) (prog : List Str) (n : Str) (i : Nat) (cls : Nat)
    (IHl : ChildOkC h reg T rank (n :: prog) (f' + 1)) :
    ∀ (rest pre : List Field), pre ++ rest = ob.fields → ∀ (st : LState) (la lb : List LVal),
      LInvC h reg (n :: prog) st → st.heap[i]? = some { cls := cls, fields := la ++ lb } →
      DoneVals h reg st pre la → InitValsC h reg st rest lb → lookupMemo st.memo n = some i →
      ((∃ g ∈ rest, g.phase = .late) → st.working ≠ []) →
      (∀ w ∈ st.working, ∃ q, (q, w) ∈ reg ∧ rank o < rank q) → budget h reg st + h.length < f' + 1 →
      ∃ st' ls', latePhase (object T (f' + 1)) i st pre.length (encFields h reg h.length rest) = (st', .ok ()) ∧
        LInvC h reg (n :: prog) st' ∧ LateExtC i st st' ∧ st'.heap[i]? = some { cls := cls, fields := ls' } ∧
        DoneVals h reg st' ob.fields ls' ∧ lookupMemo st'.memo n = some i
  | [], pre, hsplit, st, la, lb, hinv, hcell, hla, hlb, hmem, _, _, _ => by
    have : lb = [] := initValsC_nil hlb
    subst this
    simp only [List.append_nil] at hsplit hcell
    subst hsplit
    exact ⟨st, la, rfl, hinv, LateExtC.refl _ _, hcell, hla, hmem⟩
  | g :: rest, pre, hsplit, st, la, lb, hinv, hcell, hla, hlb, hmem, hbusy, hw, hfuel => by
    have hg : g ∈ ob.fields := by rw [← hsplit]; simp
    have hsplit' : (pre ++ [g]) ++ rest = ob.fields := by rw [← hsplit]; simp
    obtain ⟨l, lb', rfl, hl, hlb'⟩ := initValsC_cons hlb
    have hlen : la.length = pre.length := (doneVals_length hla).symm
    have hbusy' : (∃ x ∈ rest, x.phase = .late) → st.working ≠ [] := by
      rintro ⟨x, hx, hxp⟩; exact hbusy ⟨x, List.mem_cons_of_mem _ hx, hxp⟩
    by_cases hph : g.phase = .late
    · have hne : ¬ g.phase = .early := by rw [hph]; decide
      simp only [hne, if_false] at hl
      subst hl
      have hb : st.working ≠ [] := hbusy ⟨g, List.mem_cons_self, hph⟩
      obtain ⟨st1, v, e1, inv1, ext1, rel1⟩ := resolve_value_c C o ob hob hrefs f' (n :: prog) g hg IHl st hinv hb
        (fun p hp => C.rkLate o ob hob g hg hph p hp)
        (fun p hp w hwm => by
          obtain ⟨q, hq1, hq2⟩ := hw w hwm
          have := C.rkLate o ob hob g hg hph p (by rw [hp]; rfl)
          exact ⟨q, hq1, by omega⟩)
        (fun w hwm => by obtain ⟨q, hq1, hq2⟩ := hw w hwm; exact ⟨q, hq1, by omega⟩) hfuel
      have hmem1 : lookupMemo st1.memo n = some i := ext1.memo _ _ hmem
      have hcell1 : st1.heap[i]? = some { cls := cls, fields := la ++ LVal.pending :: lb' } := ext1.heap.get hcell
      let st2 : LState := { st1 with heap := setField st1.heap i pre.length v }
      have inv2 : LInvC h reg (n :: prog) st2 := setField_inv_c pre.length v inv1 hmem1
      have pres12 : RelPres h reg st1 st2 := relPres_setField st1 (mem_snd_of_lookup hmem1) pre.length v
      have hcell2 : st2.heap[i]? = some { cls := cls, fields := (la ++ [v]) ++ lb' } := by
        simp only [st2, setField, List.getElem?_modify, hcell1, Option.map_eq_map, Option.map_some, if_true]
        congr 2
        rw [← hlen]; simp
      have ext12 : LateExtC i st1 st2 :=
        ⟨MemoLe.refl _, rfl, by simp [st2, setField], fun j _ hji => by
          simp only [st2, setField, List.getElem?_modify, Ne.symm hji, if_false]
          cases st1.heap[j]? <;> rfl, fun _ he => Or.inl he, fun _ he => he, fun _ hx => hx⟩
      have hfuel2 : budget h reg st2 + h.length < f' + 1 := by
        have := budget_extC (h := h) (reg := reg) ext1
        have e : budget h reg st2 = budget h reg st1 := rfl
        omega
      have hcb : ¬ g.phase = .cb := by rw [hph]; decide
      obtain ⟨st', ls', e', inv', ext', cell', rel', mem'⟩ := late_loop_c C o ob hob hrefs f' prog n i cls IHl rest (pre ++ [g]) hsplit'
        st2 (la ++ [v]) lb' inv2 hcell2
        (doneVals_append (DoneVals.mono pres12 (DoneVals.mono ext1.le.relPres hla)) (by simp only [hcb, if_false]; exact pres12 _ _ _ rel1))
        (InitValsC.mono pres12 (InitValsC.mono ext1.le.relPres hlb')) hmem1
        (by intro hx; have := hbusy' hx; simp only [st2]; rw [ext1.work]; exact this)
        (by intro w hwm; exact hw w (by rw [← ext1.work]; exact hwm)) hfuel2
      refine ⟨st', ls', ?_, inv', ((LateExtC.of_ext ext1).trans ext12).trans ext', cell', rel', mem'⟩
      simp only [encFields, List.map_cons, latePhase, hph, if_true]
      simp only [encFields] at e'
      rw [e1]
      simp only [List.length_append, List.length_cons, List.length_nil, Nat.zero_add] at e'
      exact e'
    · have hcell2 : st.heap[i]? = some { cls := cls, fields := (la ++ [l]) ++ lb' } := by
        rw [hcell]; simp
      have hdone : (if g.phase = .cb then l = .pending else RelV h reg st.heap st.memo h.length g.val l) := by
        by_cases hcb : g.phase = .cb
        · have hne : ¬ g.phase = .early := by rw [hcb]; decide
          simp only [hne, if_false] at hl
          simp only [hcb, if_true]; exact hl
        · have he : g.phase = .early := by
            cases hp : g.phase with
            | early => rfl
            | late => exact absurd hp hph
            | cb => exact absurd hp hcb
          simp only [he, if_true] at hl
          simp only [hcb, if_false]; exact hl
      obtain ⟨st', ls', e', inv', ext', cell', rel', mem'⟩ := late_loop_c C o ob hob hrefs f' prog n i cls IHl rest (pre ++ [g]) hsplit'
        st (la ++ [l]) lb' hinv hcell2 (doneVals_append hla hdone) hlb' hmem hbusy' hw hfuel
      refine ⟨st', ls', ?_, inv', ext', cell', rel', mem'⟩
      simp only [encFields, List.map_cons, latePhase, hph, if_false]
      simp only [encFields] at e'
      simp only [List.length_append, List.length_cons, List.length_nil, Nat.zero_add] at e'
      exact e'

/-- from the late loop's result to the cell invariant, given that the callback fields were recorded -/
theorem cellVals_of_done {st : LState} {c : Nat} : ∀ (k0 : Nat) (fs : List Field) (ls : List LVal),
    DoneVals h reg st fs ls →
    (∀ k f, fs[k]? = some f → f.phase = .cb → (c, k0 + k, encVal h reg h.length f.val) ∈ st.pend ∧ c ∈ st.callbacks) →
    CellVals h reg st c k0 fs ls
  | _, [], [], _, _ => trivial
  | _, _ :: _, [], h0, _ => by simp [DoneVals] at h0
  | _, [], _ :: _, h0, _ => by simp [DoneVals] at h0
  | k0, f :: fs, l :: ls, h0, hcb => by
    refine ⟨?_, cellVals_of_done (k0 + 1) fs ls h0.2 (fun k g hk hg => by
      have := hcb (k + 1) g (by simpa using hk) hg
      have e : k0 + (k + 1) = k0 + 1 + k := by omega
      rw [e] at this; exact this)⟩
    have h1 := h0.1
    by_cases hp : f.phase = .cb
    · simp only [hp, if_true] at h1 ⊢
      have := hcb 0 f (by simp) hp
      exact ⟨h1, by simpa using this.1, this.2⟩
    · simp only [hp, if_false] at h1 ⊢; exact h1

theorem encFields_get (d : Nat) (fs : List Field) (k : Nat) :
    (encFields h reg d fs)[k]? = (fs[k]?).map (fun f => (f.phase, encVal h reg d f.val)) := by
  simp [encFields]

/-- **One loader call** for a registered name: early phase, allocation, registration (of the object and,
for a plain loader with callback fields, of its callback), late phase. -/
theorem loadRec_named_ok (C : CtxC h main reg T rank idep) (f' : Nat) (prog : List Str) (o : Nat) (n : Str)
    (hon : (o, n) ∈ reg) (ob : Obj) (hob : h[o]? = some ob) (hrefs : RefsIn h reg h.length ob.fields)
    (st : LState) (hinv : LInvC h reg prog st) (hmemo : lookupMemo st.memo n = none) (hnw : n ∉ st.working)
    (hw : ∀ w ∈ st.working, ∃ q, (q, w) ∈ reg ∧ rank o < rank q)
    (hfuel : budget h reg st < f' + 1 + 1)
    (hlateIdle : (∃ g ∈ ob.fields, g.phase = .late) → st.working ≠ [])
    (ih : ∀ prog, ChildOkC h reg T rank prog (f' + 1)) :
    ∃ st4 i, loadRec (object T (f' + 1)) (some n) { st with working := n :: st.working } ob.cls
        (encFields h reg h.length ob.fields) = (st4, .ok i) ∧
      LInvC h reg prog st4 ∧ LExtC st st4 ∧ lookupMemo st4.memo n = some i := by
  have hobm : ob ∈ h := List.mem_of_getElem? hob
  let st1 : LState := { st with working := n :: st.working }
  have inv1 : LInvC h reg prog st1 := by
    refine ⟨hinv.keysNodup, hinv.valsNodup, ?_, hinv.bound, hinv.pendOk, ?_⟩
    · intro w hwm
      rcases List.mem_cons.mp hwm with e | e
      · rw [e]; exact hmemo
      · exact hinv.disj w e
    · intro e he hnp
      obtain ⟨hlt, o', ob', lo', a1, a2, a3, a4, a5⟩ := hinv.good e he hnp
      exact ⟨hlt, o', ob', lo', a1, a2, a3, a4,
        CellVals.mono (st := st) (st' := st1) (RelPres.refl (h := h) (reg := reg) st) (fun _ x => x) (fun _ x => x) a5⟩
  have hw1 : ∀ w ∈ st1.working, ∃ q, (q, w) ∈ reg ∧ rank o ≤ rank q := by
    intro w hwm
    rcases List.mem_cons.mp hwm with e | e
    · exact ⟨o, by rw [e]; exact hon, Nat.le_refl _⟩
    · obtain ⟨q, hq1, hq2⟩ := hw w e; exact ⟨q, hq1, by omega⟩
  have htodo1 : todo reg st1 < todo reg st :=
    todo_lt_of_new hon (MemoLe.refl _) (fun w hw' _ hmem => hw' (List.mem_cons_of_mem _ hmem)) hmemo hnw
      (Or.inr List.mem_cons_self)
  have hb1 := budget_lt (h := h) htodo1
  obtain ⟨st2, vals, eres, inv2, ext2, rel2⟩ :=
    resolve_early_c C o ob hob hrefs f' prog (ih prog) ob.fields (fun _ hg => hg) st1 inv1 (by simp [st1]) hw1 (by omega)
  have hn2 : lookupMemo st2.memo n = none := by
    apply inv2.disj; rw [ext2.work]; exact List.mem_cons_self
  have hwork2 : st2.working = n :: st.working := ext2.work
  let i := st2.heap.length
  let flds := encFields h reg h.length ob.fields
  let regCb : Bool := flds.any (fun f => f.1 == .cb) && !flds.any (fun f => f.1 == .late)
  let st3 : LState :=
    { memo := (n, i) :: st2.memo, working := st.working,
      heap := st2.heap ++ [{ cls := ob.cls, fields := vals }],
      callbacks := if regCb then st2.callbacks ++ [i] else st2.callbacks,
      pend := if regCb then st2.pend ++ cbSources i 0 flds else st2.pend }
  have hle : SLe st2 st3 := by
    refine ⟨memoLe_cons i hn2, heapLe_append _ _, ?_⟩
    intro e he
    rcases List.mem_cons.mp he with e1 | e1
    · right; rw [e1]; exact Nat.le_refl _
    · exact Or.inl e1
  have hpend23 : ∀ e ∈ st2.pend, e ∈ st3.pend := by
    intro e he; simp only [st3]; split
    · exact List.mem_append_left _ he
    · exact he
  have hcbs23 : ∀ c ∈ st2.callbacks, c ∈ st3.callbacks := by
    intro c hc; simp only [st3]; split
    · exact List.mem_append_left _ hc
    · exact hc
  have hmem3 : lookupMemo st3.memo n = some i := by simp [st3, lookupMemo]
  have inv3 : LInvC h reg (n :: prog) st3 := by
    refine ⟨?_, ?_, ?_, ?_, ?_, ?_⟩
    · simp only [st3, List.map_cons, List.nodup_cons]
      exact ⟨(lookupMemo_none_iff _ _).mp hn2, inv2.keysNodup⟩
    · simp only [st3, List.map_cons, List.nodup_cons]
      refine ⟨?_, inv2.valsNodup⟩
      intro hmem
      obtain ⟨e, he, hei⟩ := List.mem_map.mp hmem
      have := inv2.bound e he
      simp only [i] at hei; omega
    · intro w hwm
      have hwn : w ≠ n := fun e => hnw (e ▸ hwm)
      have : lookupMemo st2.memo w = none := by
        apply inv2.disj; rw [hwork2]; exact List.mem_cons_of_mem _ hwm
      simp only [st3, lookupMemo, Ne.symm hwn, if_false]; exact this
    · intro e he
      simp only [st3, List.length_append, List.length_cons, List.length_nil]
      rcases List.mem_cons.mp he with e1 | e1
      · subst e1; simp [i]
      · have := inv2.bound e e1; omega
    · intro e he
      have hold : e ∈ st2.pend → PendOk h reg st3 e := fun h2 => (inv2.pendOk e h2).mono hle.memo
      simp only [st3] at he
      split at he
      · rcases List.mem_append.mp he with h2 | h2
        · exact hold h2
        · obtain ⟨c, k, j⟩ := e
          obtain ⟨rfl, _, hget⟩ := (cbSources_mem i flds 0 c k j).mp h2
          simp only [Nat.sub_zero, flds, encFields_get] at hget
          cases hf : ob.fields[k]? with
          | none => rw [hf] at hget; cases hget
          | some f =>
            rw [hf] at hget
            simp only [Option.map_some, Option.some.injEq, Prod.mk.injEq] at hget
            exact ⟨n, o, ob, f, hmem3, hon, hob, hf, hget.1, hget.2.symm⟩
      · exact hold he
    · intro e he hnp
      rcases List.mem_cons.mp he with e1 | e1
      · subst e1; exact absurd List.mem_cons_self hnp
      · exact (inv2.good e e1 (fun hp => hnp (List.mem_cons_of_mem _ hp))).le hle hpend23 hcbs23
  have hcell3 : st3.heap[i]? = some { cls := ob.cls, fields := [] ++ vals } := by
    simp only [st3, i, List.nil_append]; exact heap_concat_get _ _
  have htodo3 : todo reg st3 < todo reg st :=
    todo_lt_of_new hon (ext2.memo.trans hle.memo) (fun w hw' _ => hw') hmemo hnw (Or.inl (by rw [hmem3]; rfl))
  have hb3 := budget_lt (h := h) htodo3
  obtain ⟨st4, ls', elate, inv4, ext4, cell4, done4, mem4⟩ :=
    late_loop_c C o ob hob hrefs f' prog n i ob.cls (ih (n :: prog))
      ob.fields [] (by simp) st3 [] vals inv3 hcell3 trivial (InitValsC.mono hle.relPres rel2) hmem3 hlateIdle hw (by omega)
  have hwork4 : st4.working = st.working := ext4.work
  -- the callback fields of the new object have been recorded
  have hrec : ∀ k f, ob.fields[k]? = some f → f.phase = .cb →
      (i, 0 + k, encVal h reg h.length f.val) ∈ st4.pend ∧ i ∈ st4.callbacks := by
    intro k f hk hfc
    have hany : flds.any (fun f => f.1 == .cb) = true := by
      rw [List.any_eq_true]
      exact ⟨(f.phase, encVal h reg h.length f.val), List.mem_map.mpr ⟨f, List.mem_of_getElem? hk, rfl⟩, by simp [hfc]⟩
    have hnolate : flds.any (fun f => f.1 == .late) = false := by
      rw [List.any_eq_false]
      intro e he
      obtain ⟨g, hg, rfl⟩ := List.mem_map.mp he
      intro hgl
      have hgl' : g.phase = .late := by simpa using hgl
      exact C.noGenCb ob hobm ⟨g, hg, hgl'⟩ f (List.mem_of_getElem? hk) hfc
    have hreg : regCb = true := by simp only [regCb, hany, hnolate]; rfl
    constructor
    · apply ext4.pend
      simp only [st3, hreg, if_true]
      apply List.mem_append_right
      rw [cbSources_mem]
      refine ⟨rfl, Nat.zero_le _, ?_⟩
      simp only [Nat.zero_add, Nat.sub_zero, flds, encFields_get, hk, Option.map_some, hfc]
    · apply ext4.cbs
      simp only [st3, hreg, if_true]
      exact List.mem_append_right _ List.mem_cons_self
  have inv4' : LInvC h reg prog st4 := by
    refine ⟨inv4.keysNodup, inv4.valsNodup, inv4.disj, inv4.bound, inv4.pendOk, ?_⟩
    intro e he hnp
    by_cases hen : e.1 = n
    · have hei : e.2 = i := by
        have := lookupMemo_of_mem inv4.keysNodup (show (e.1, e.2) ∈ st4.memo from he)
        rw [hen, mem4] at this; exact (Option.some.inj this).symm
      rw [hen, hei]
      exact ⟨by rw [← hei]; exact inv4.bound e he, o, ob, _, hon, hob, cell4, rfl,
        cellVals_of_done 0 ob.fields ls' done4 hrec⟩
    · exact inv4.good e he (fun hp => by
        rcases List.mem_cons.mp hp with e1 | e1
        · exact hen e1
        · exact hnp e1)
  have ext04 : LExtC st st4 := by
    have h02 : HeapLe st.heap st2.heap := ext2.heap
    refine ⟨⟨(ext2.memo.trans hle.memo).trans ext4.memo, ?_, ?_⟩, hwork4,
      fun e he => ext4.pend e (hpend23 e (ext2.pend e he)), fun c hc => ext4.cbs c (hcbs23 c (ext2.cbs c hc))⟩
    · refine ⟨by
        have := h02.1; have := ext4.len
        simp only [st3, List.length_append, List.length_cons, List.length_nil] at this; omega, ?_⟩
      intro j hj
      have hj2 : j < st2.heap.length := Nat.lt_of_lt_of_le hj h02.1
      rw [ext4.others j (by simp only [st3, List.length_append, List.length_cons, List.length_nil]; omega)
        (by simp only [i]; omega)]
      simp only [st3]
      rw [List.getElem?_append_left hj2]
      exact h02.2 j hj
    · intro e he
      rcases ext4.fresh e he with x | x
      · rcases List.mem_cons.mp x with e1 | e1
        · right; rw [e1]; exact h02.1
        · exact ext2.le.fresh e e1
      · right
        have := h02.1
        simp only [st3, List.length_append, List.length_cons, List.length_nil] at x; omega
  refine ⟨st4, i, ?_, inv4', ext04, mem4⟩
  show loadRec (object T (f' + 1)) (some n) st1 ob.cls flds = (st4, .ok i)
  unfold loadRec
  rw [eres]
  have elate' := elate
  simp only [st3, i, regCb, flds, List.length_nil] at elate'
  simp only [hwork2, List.erase_cons_head, flds]
  rw [elate']

theorem tryCallbacksIfIdle_busy (obj : LState → JVal → LRes LVal) (st : LState) (hb : st.working ≠ []) :
    tryCallbacksIfIdle obj st = st := by
  unfold tryCallbacksIfIdle
  cases hw : st.working with
  | nil => exact absurd hw hb
  | cons a r => rfl

theorem todo_pos_of_new {st : LState} {o : Nat} {n : Str} (hon : (o, n) ∈ reg)
    (hmemo : lookupMemo st.memo n = none) (hnw : n ∉ st.working) : 1 ≤ todo reg st := by
  unfold todo
  apply List.length_pos_of_mem (a := (o, n))
  simp [List.mem_filter, hon, hmemo, hnw]

/-- **Loading a registered name while something is under construction** (so no callback is tried). -/
theorem load_named_cb (C : CtxC h main reg T rank idep) : ∀ (F : Nat) (prog : List Str), ChildOkC h reg T rank prog F
  | 0, _ => by intro f hf p m _ st _ _ _ hb; omega
  | F + 1, prog => by
    intro f hf
    rcases Nat.lt_or_ge f (F + 1) with hlt | hge
    · exact load_named_cb C F prog f (by omega)
    have hfe : f = F + 1 := by omega
    subst hfe
    intro o n hon st hinv hbusy hw hfb
    have hlit : isLiteralStr n = false := C.regOk.notLiteral (o, n) hon
    unfold LoadsOkC
    cases hmemo : lookupMemo st.memo n with
    | some i =>
      refine ⟨st, i, ?_, hinv, LExtC.refl _, hmemo⟩
      simp only [object, hlit, hmemo]
      rfl
    | none =>
      obtain ⟨ob, hob, hrec, hrefs⟩ := C.tbl o n hon
      have hnw : n ∉ st.working := by
        intro hmem
        obtain ⟨q, hq1, hq2⟩ := hw n hmem
        have := C.regOk.obj_unique hon hq1
        subst this; omega
      have hcont : st.working.contains n = false := by simpa using hnw
      have hbp := budget_pos h reg st
      obtain ⟨f', rfl⟩ : ∃ f', F = f' + 1 := ⟨F - 1, by omega⟩
      obtain ⟨st4, i, hload, inv4, ext4, mem4⟩ :=
        loadRec_named_ok C f' prog o n hon ob hob hrefs st hinv hmemo hnw hw hfb (fun _ => hbusy)
          (fun prog' => load_named_cb C (f' + 1) prog')
      refine ⟨st4, i, ?_, inv4, ext4, mem4⟩
      rw [object_named_unfold T (f' + 1) st n ob.cls (encFields h reg h.length ob.fields) hlit hmemo hrec hcont, hload]
      have hwork4 : st4.working = st.working := ext4.work
      have herase : st4.working.erase n = st4.working := by
        rw [hwork4]; exact List.erase_of_not_mem hnw
      have hst : ({ st4 with working := st4.working.erase n } : LState) = st4 := by rw [herase]
      simp only [hst, tryCallbacksIfIdle_busy _ st4 (by rw [hwork4]; exact hbusy)]

/-! ### the callbacks, once everything has been restored -/

/-- a field of a restored cell while callbacks are being run; `Q c k` = "field `k` of cell `c` is still
going to be processed" -/
def FieldOk (h : Heap) (reg : Reg) (st : LState) (Q : Nat → Nat → Prop) (c k : Nat) (f : Field) (l : LVal) : Prop :=
  if f.phase = .cb then
    RelV h reg st.heap st.memo h.length f.val l ∨ (l = .pending ∧ (c, k, encVal h reg h.length f.val) ∈ st.pend ∧ Q c k)
  else RelV h reg st.heap st.memo h.length f.val l

def CellOk (h : Heap) (reg : Reg) (st : LState) (Q : Nat → Nat → Prop) (n : Str) (c : Nat) : Prop :=
  ∃ o ob lo, (o, n) ∈ reg ∧ h[o]? = some ob ∧ st.heap[c]? = some lo ∧ lo.cls = ob.cls ∧
    lo.fields.length = ob.fields.length ∧
    ∀ k f l, ob.fields[k]? = some f → lo.fields[k]? = some l → FieldOk h reg st Q c k f l

structure CbInv (h : Heap) (reg : Reg) (Q : Nat → Nat → Prop) (st : LState) : Prop where
  keysNodup : (st.memo.map Prod.fst).Nodup
  valsNodup : (st.memo.map Prod.snd).Nodup
  allIn : ∀ o n, (o, n) ∈ reg → ∃ j, lookupMemo st.memo n = some j
  pendOk : ∀ e ∈ st.pend, PendOk h reg st e
  cells : ∀ e ∈ st.memo, CellOk h reg st Q e.1 e.2

theorem cellVals_pointwise {st : LState} {c : Nat} : ∀ (k0 : Nat) (fs : List Field) (ls : List LVal),
    CellVals h reg st c k0 fs ls → ls.length = fs.length ∧
    ∀ k f l, fs[k]? = some f → ls[k]? = some l →
      (if f.phase = .cb then l = .pending ∧ (c, k0 + k, encVal h reg h.length f.val) ∈ st.pend ∧ c ∈ st.callbacks
       else RelV h reg st.heap st.memo h.length f.val l)
  | _, [], [], _ => ⟨rfl, by intro k f l hk; simp at hk⟩
  | _, _ :: _, [], h0 => by simp [CellVals] at h0
  | _, [], _ :: _, h0 => by simp [CellVals] at h0
  | k0, f0 :: fs, l0 :: ls, h0 => by
    obtain ⟨ih1, ih2⟩ := cellVals_pointwise (k0 + 1) fs ls h0.2
    refine ⟨by simp [ih1], ?_⟩
    intro k f l hk hl
    cases k with
    | zero =>
      simp only [List.getElem?_cons_zero, Option.some.injEq] at hk hl
      subst hk; subst hl
      simpa using h0.1
    | succ k =>
      simp only [List.getElem?_cons_succ] at hk hl
      have := ih2 k f l hk hl
      have e : k0 + 1 + k = k0 + (k + 1) := by omega
      rw [e] at this; exact this

theorem relVals_of_pointwise {R : Val → LVal → Prop} : ∀ (fs : List Field) (ls : List LVal),
    ls.length = fs.length → (∀ (k : Nat) (f : Field) (l : LVal), fs[k]? = some f → ls[k]? = some l → R f.val l) →
    RelVals R (fs.map (·.val)) ls
  | [], [], _, _ => trivial
  | _ :: _, [], hl, _ => by simp at hl
  | [], _ :: _, hl, _ => by simp at hl
  | f :: fs, l :: ls, hl, hp =>
    ⟨hp 0 f l (by simp) (by simp),
     relVals_of_pointwise fs ls (by simpa using hl) (fun k g m hk hm => hp (k + 1) g m (by simpa using hk) (by simpa using hm))⟩

theorem relVals_pointwise {R : Val → LVal → Prop} : ∀ (fs : List Field) (ls : List LVal),
    RelVals R (fs.map (·.val)) ls → ls.length = fs.length ∧
      ∀ (k : Nat) (f : Field) (l : LVal), fs[k]? = some f → ls[k]? = some l → R f.val l
  | [], [], _ => ⟨rfl, by intro k f l hk; simp at hk⟩
  | _ :: _, [], h0 => by simp [RelVals] at h0
  | [], _ :: _, h0 => by simp [RelVals] at h0
  | f0 :: fs, l0 :: ls, h0 => by
    obtain ⟨ih1, ih2⟩ := relVals_pointwise fs ls h0.2
    refine ⟨by simp [ih1], ?_⟩
    intro k f l hk hl
    cases k with
    | zero =>
      simp only [List.getElem?_cons_zero, Option.some.injEq] at hk hl
      subst hk; subst hl
      exact h0.1
    | succ k =>
      simp only [List.getElem?_cons_succ] at hk hl
      exact ih2 k f l hk hl

theorem findPend_some {p : List (Nat × Nat × JVal)} {c k : Nat} {j : JVal} (h0 : findPend p c k = some j) :
    (c, k, j) ∈ p := by
  induction p with
  | nil => simp [findPend] at h0
  | cons e r ih =>
    obtain ⟨c', k', j'⟩ := e
    unfold findPend at h0
    by_cases hck : c' = c ∧ k' = k
    · simp only [hck, and_self, if_true, Option.some.injEq] at h0
      rw [hck.1, hck.2, h0]; exact List.mem_cons_self
    · simp only [hck, if_false] at h0
      exact List.mem_cons_of_mem _ (ih h0)

theorem findPend_none {p : List (Nat × Nat × JVal)} {c k : Nat} (h0 : findPend p c k = none) (j : JVal) :
    (c, k, j) ∉ p := by
  induction p with
  | nil => simp
  | cons e r ih =>
    obtain ⟨c', k', j'⟩ := e
    unfold findPend at h0
    by_cases hck : c' = c ∧ k' = k
    · simp [hck] at h0
    · simp only [hck, if_false] at h0
      intro hm
      rcases List.mem_cons.mp hm with e1 | e1
      · simp only [Prod.mk.injEq] at e1; exact hck ⟨e1.1.symm, e1.2.1.symm⟩
      · exact ih h0 e1

theorem mem_removePend {p : List (Nat × Nat × JVal)} {c k : Nat} {e : Nat × Nat × JVal} :
    e ∈ removePend p c k ↔ e ∈ p ∧ ¬ (e.1 = c ∧ e.2.1 = k) := by
  unfold removePend
  simp only [List.mem_filter, Bool.not_eq_true', Bool.and_eq_false_iff, beq_eq_false_iff_ne, ne_eq]
  constructor
  · rintro ⟨h1, h2⟩; exact ⟨h1, fun ⟨a, b⟩ => by rcases h2 with h2 | h2 <;> contradiction⟩
  · rintro ⟨h1, h2⟩
    refine ⟨h1, ?_⟩
    by_cases a : e.1 = c
    · right; intro b; exact h2 ⟨a, b⟩
    · left; exact a

/-- with every registered name restored, a pending callback value resolves by a memo hit
(a callback field never holds an inlined record) -/
theorem memo_hit (C : CtxC h main reg T rank idep) {Q : Nat → Nat → Prop} {st : LState} (inv : CbInv h reg Q st) (f0 : Nat)
    (o : Nat) (ob : Obj) (hob : h[o]? = some ob) (hrefs : RefsIn h reg h.length ob.fields) (g : Field) (hg : g ∈ ob.fields)
    (hgcb : g.phase = .cb) :
    ∃ v, object T (f0 + 1) st (encVal h reg h.length g.val) = (st, .ok v) ∧ RelV h reg st.heap st.memo h.length g.val v := by
  have hrg : RefsInV h reg h.length g.val := hrefs g hg
  cases hv : g.val with
  | lit n => exact ⟨.lit n, by simp only [encVal, object], by simp only [RelV]⟩
  | str s =>
    refine ⟨.str s, ?_, by simp only [RelV]⟩
    simp only [encVal, object, (literal_roundtrip s).1, if_true, (literal_roundtrip s).2]
  | ref p =>
    rw [hv] at hrg
    simp only [RefsInV] at hrg
    obtain ⟨m, hm⟩ := hrg
    have hpm : (p, m) ∈ reg := lookupName_some_mem hm
    obtain ⟨j, hj⟩ := inv.allIn p m hpm
    refine ⟨.ref j, ?_, by simp only [RelV]; exact ⟨m, hm, hj⟩⟩
    have hlit : isLiteralStr m = false := C.regOk.notLiteral (p, m) hpm
    simp only [encVal, hm, Option.getD_some, object, hlit, hj]
    rfl
  | own p => exact absurd hgcb (C.edge o ob hob g hg p hv).2

theorem FieldOk.monoQ {st : LState} {Q Q' : Nat → Nat → Prop} {c k : Nat} {f : Field} {l : LVal}
    (hq : ∀ k', (c, k', encVal h reg h.length f.val) ∈ st.pend → Q c k' → Q' c k') (hf : FieldOk h reg st Q c k f l) :
    FieldOk h reg st Q' c k f l := by
  unfold FieldOk at hf ⊢
  split
  · rename_i hcb
    simp only [hcb, if_true] at hf
    rcases hf with hf | ⟨h1, h2, h3⟩
    · exact Or.inl hf
    · exact Or.inr ⟨h1, h2, hq k h2 h3⟩
  · rename_i hcb
    simp only [hcb, if_false] at hf; exact hf

theorem CbInv.monoQ {Q Q' : Nat → Nat → Prop} {st : LState} (hq : ∀ c k j, (c, k, j) ∈ st.pend → Q c k → Q' c k)
    (inv : CbInv h reg Q st) : CbInv h reg Q' st := by
  refine ⟨inv.keysNodup, inv.valsNodup, inv.allIn, inv.pendOk, ?_⟩
  intro e he
  obtain ⟨o, ob, lo, a1, a2, a3, a4, a5, a6⟩ := inv.cells e he
  exact ⟨o, ob, lo, a1, a2, a3, a4, a5, fun k f l hk hl => (a6 k f l hk hl).monoQ (fun k' hp hq' => hq _ _ _ hp hq')⟩

/-- one `__setgluestate_callback__`: every pending field of cell `c0` is resolved by a memo hit -/
theorem runCallback_ok (C : CtxC h main reg T rank idep) (f0 : Nat) (c0 : Nat) (rest : List Nat) :
    ∀ (ks : List Nat) (st : LState),
      CbInv h reg (fun c k => (c = c0 ∧ k ∈ ks) ∨ (c ≠ c0 ∧ c ∈ rest)) st →
      ∃ st', runCallback (object T (f0 + 1)) c0 st ks = (st', true) ∧ st'.memo = st.memo ∧
        CbInv h reg (fun c _ => c ≠ c0 ∧ c ∈ rest) st'
  | [], st, inv => ⟨st, rfl, rfl, inv.monoQ (fun c k _ _ hq => by
      rcases hq with ⟨_, hk⟩ | hq
      · simp at hk
      · exact hq)⟩
  | k :: ks, st, inv => by
    cases hfp : findPend st.pend c0 k with
    | none =>
      have inv' : CbInv h reg (fun c k' => (c = c0 ∧ k' ∈ ks) ∨ (c ≠ c0 ∧ c ∈ rest)) st :=
        inv.monoQ (fun c k' j hp hq => by
          rcases hq with ⟨hc, hk⟩ | hq
          · left
            refine ⟨hc, ?_⟩
            rcases List.mem_cons.mp hk with e | e
            · subst e; subst hc; exact absurd hp (findPend_none hfp j)
            · exact e
          · exact Or.inr hq)
      obtain ⟨st', e', m', i'⟩ := runCallback_ok C f0 c0 rest ks st inv'
      exact ⟨st', by simp only [runCallback, hfp]; exact e', m', i'⟩
    | some src =>
      have hmemp : (c0, k, src) ∈ st.pend := findPend_some hfp
      obtain ⟨n, o, ob, f, b1, b2, b3, b4, b5, b6⟩ := inv.pendOk _ hmemp
      simp only at b1 b4 b6
      have hrefs' : RefsIn h reg h.length ob.fields := by
        obtain ⟨ob', c1, _, c3⟩ := C.tbl o n b2
        rw [b3] at c1; cases c1; exact c3
      obtain ⟨v, hv, hrel⟩ := memo_hit C inv f0 o ob b3 hrefs' f (List.mem_of_getElem? b4) b5
      let st2 : LState := { st with heap := setField st.heap c0 k v, pend := removePend st.pend c0 k }
      have pres : RelPres h reg st st2 := fun d v' l hr =>
        relPres_setField st (mem_snd_of_lookup b1) k v d v' l hr
      have inv2 : CbInv h reg (fun c k' => (c = c0 ∧ k' ∈ ks) ∨ (c ≠ c0 ∧ c ∈ rest)) st2 := by
        refine ⟨inv.keysNodup, inv.valsNodup, inv.allIn, ?_, ?_⟩
        · intro e he
          exact inv.pendOk e ((mem_removePend.mp he).1)
        · intro e he
          obtain ⟨o', ob', lo, a1, a2, a3, a4, a5, a6⟩ := inv.cells e he
          by_cases hec : e.2 = c0
          · -- the cell being completed
            have hn : e.1 = n := by
              have m1 : (e.1, e.2) ∈ st.memo := he
              have m2 := lookupMemo_some_mem b1
              have n1 := nameOfIdx_of_mem inv.valsNodup m1
              rw [hec, nameOfIdx_of_mem inv.valsNodup m2] at n1
              exact (Option.some.inj n1).symm
            have ho : o' = o := C.regOk.obj_unique a1 (hn ▸ b2)
            subst ho
            rw [b3] at a2; cases a2
            refine ⟨o', ob, { lo with fields := lo.fields.set k v }, a1, b3, ?_, a4, by simp [a5], ?_⟩
            · simp only [st2, setField, List.getElem?_modify, hec ▸ a3, Option.map_eq_map, Option.map_some, hec, if_true]
            · intro k2 f2 l2 hk2 hl2
              by_cases hkk : k2 = k
              · subst hkk
                rw [b4] at hk2; cases hk2
                have hlt : k2 < lo.fields.length := by
                  rw [a5]; obtain ⟨hlt, _⟩ := List.getElem?_eq_some_iff.mp b4; exact hlt
                simp only [List.getElem?_set, if_true, hlt, Option.some.injEq] at hl2
                subst hl2
                unfold FieldOk
                simp only [b5, if_true]
                exact Or.inl (pres _ _ _ hrel)
              · simp only [List.getElem?_set, Ne.symm hkk, if_false] at hl2
                have old := a6 k2 f2 l2 hk2 hl2
                unfold FieldOk at old ⊢
                split
                · rename_i hcb
                  simp only [hcb, if_true] at old
                  rcases old with old | ⟨o1, o2, o3⟩
                  · exact Or.inl (pres _ _ _ old)
                  · right
                    refine ⟨o1, mem_removePend.mpr ⟨o2, fun hh => hkk hh.2⟩, ?_⟩
                    rcases o3 with ⟨_, hk2m⟩ | ⟨hne, _⟩
                    · left
                      refine ⟨hec, ?_⟩
                      rcases List.mem_cons.mp hk2m with e1 | e1
                      · exact absurd e1 hkk
                      · exact e1
                    · exact absurd hec hne
                · rename_i hcb
                  simp only [hcb, if_false] at old; exact pres _ _ _ old
          · -- another cell: untouched
            refine ⟨o', ob', lo, a1, a2, ?_, a4, a5, ?_⟩
            · simp only [st2, setField, List.getElem?_modify, a3, Option.map_eq_map, Option.map_some, Ne.symm hec, if_false]
            · intro k2 f2 l2 hk2 hl2
              have old := a6 k2 f2 l2 hk2 hl2
              unfold FieldOk at old ⊢
              split
              · rename_i hcb
                simp only [hcb, if_true] at old
                rcases old with old | ⟨o1, o2, o3⟩
                · exact Or.inl (pres _ _ _ old)
                · right
                  refine ⟨o1, mem_removePend.mpr ⟨o2, fun hh => hec hh.1⟩, ?_⟩
                  rcases o3 with ⟨hc, _⟩ | o3
                  · exact absurd hc hec
                  · exact Or.inr o3
              · rename_i hcb
                simp only [hcb, if_false] at old; exact pres _ _ _ old
      obtain ⟨st', e', m', i'⟩ := runCallback_ok C f0 c0 rest ks st2 inv2
      refine ⟨st', ?_, by rw [m'], i'⟩
      simp only [runCallback, hfp, b6, hv]
      exact e'

/-- `_try_callbacks` once every registered name has been restored: all callbacks complete. -/
theorem tryCallbacks_ok (C : CtxC h main reg T rank idep) (f0 : Nat) : ∀ (R : List Nat) (st : LState),
    CbInv h reg (fun c _ => c ∈ R) st →
    (tryCallbacks (object T (f0 + 1)) st R).memo = st.memo ∧
      CbInv h reg (fun _ _ => False) (tryCallbacks (object T (f0 + 1)) st R)
  | [], st, inv => ⟨rfl, inv.monoQ (fun c _ _ _ hq => by simp at hq)⟩
  | c0 :: rest, st, inv => by
    let ks := (st.pend.filter (fun e => e.1 == c0)).map (fun e => e.2.1)
    have inv1 : CbInv h reg (fun c k => (c = c0 ∧ k ∈ ks) ∨ (c ≠ c0 ∧ c ∈ rest)) st :=
      inv.monoQ (fun c k j hp hq => by
        by_cases hc : c = c0
        · left
          refine ⟨hc, ?_⟩
          simp only [ks, List.mem_map, List.mem_filter, beq_iff_eq]
          exact ⟨(c, k, j), ⟨hp, hc⟩, rfl⟩
        · right
          rcases List.mem_cons.mp hq with e | e
          · exact absurd e hc
          · exact ⟨hc, e⟩)
    obtain ⟨st1, e1, m1, i1⟩ := runCallback_ok C f0 c0 rest ks st inv1
    have i1' : CbInv h reg (fun c _ => c ∈ rest) st1 := i1.monoQ (fun _ _ _ _ hq => hq.2)
    let st2 : LState := { st1 with callbacks := st1.callbacks.erase c0 }
    have i2 : CbInv h reg (fun c _ => c ∈ rest) st2 :=
      ⟨i1'.keysNodup, i1'.valsNodup, i1'.allIn, i1'.pendOk, i1'.cells⟩
    obtain ⟨m3, i3⟩ := tryCallbacks_ok C f0 rest st2 i2
    have hstep : tryCallbacks (object T (f0 + 1)) st (c0 :: rest) = tryCallbacks (object T (f0 + 1)) st2 rest := by
      simp only [tryCallbacks]
      have e1' : runCallback (object T (f0 + 1)) c0 st
          (List.map (fun e => e.2.1) (List.filter (fun e => e.1 == c0) st.pend)) = (st1, true) := e1
      rw [e1']
    rw [hstep]
    exact ⟨by rw [m3]; exact m1, i3⟩

/-- after the callbacks every cell is `Good` in the sense of the round-trip Spec -/
theorem good_of_cbInv {st : LState} (inv : CbInv h reg (fun _ _ => False) st) :
    ∀ e ∈ st.memo, Good h reg st e.1 e.2 := by
  intro e he
  obtain ⟨o, ob, lo, a1, a2, a3, a4, a5, a6⟩ := inv.cells e he
  have hb : e.2 < st.heap.length := by
    obtain ⟨hb, _⟩ := List.getElem?_eq_some_iff.mp a3; exact hb
  refine ⟨hb, o, ob, lo, a1, a2, a3, a4, relVals_of_pointwise ob.fields lo.fields a5 ?_⟩
  intro k f l hk hl
  have := a6 k f l hk hl
  unfold FieldOk at this
  split at this
  · rcases this with t | ⟨_, _, t⟩
    · exact t
    · exact absurd t id
  · exact this

/-- every object of the heap hangs below `main` through non-callback edges — named references or
inlined records (`dist` decreases towards `main`) -/
def Covered (h : Heap) (main : Nat) (dist : Nat → Nat) : Prop :=
  ∀ o ob, h[o]? = some ob → o = main ∨
    ∃ q obq f, h[q]? = some obq ∧ f ∈ obq.fields ∧ f.phase ≠ .cb ∧ f.val.target = some o ∧ dist q < dist o

/-- the non-callback fields of `ob` have been restored somewhere (in a named or in an anonymous cell) -/
def FieldsDone (h : Heap) (reg : Reg) (st : LState) (ob : Obj) : Prop :=
  ∃ (d : Nat) (lf : List LVal), lf.length = ob.fields.length ∧ ∀ (k : Nat) (f : Field) (l : LVal),
    ob.fields[k]? = some f → lf[k]? = some l → f.phase ≠ .cb → RelV h reg st.heap st.memo d f.val l

theorem fieldsDone_named {st : LState} (inv : LInvC h reg [] st) {o : Nat} {ob : Obj} {m : Str} {j : Nat}
    (hk : RegOk main reg) (hom : (o, m) ∈ reg) (hob : h[o]? = some ob) (hj : lookupMemo st.memo m = some j) :
    FieldsDone h reg st ob := by
  obtain ⟨_, o', ob', lo, a1, a2, a3, a4, a5⟩ := inv.good (m, j) (lookupMemo_some_mem hj) (by simp)
  have ho : o' = o := hk.obj_unique a1 hom
  subst ho
  rw [hob] at a2; cases a2
  obtain ⟨hlen, hpt⟩ := cellVals_pointwise 0 ob.fields lo.fields a5
  refine ⟨h.length, lo.fields, hlen, ?_⟩
  intro k f l hkf hl hncb
  have := hpt k f l hkf hl
  simpa only [hncb, if_false] using this

/-- after `main`'s loader, the non-callback fields of every object of a covered heap have been restored -/
theorem all_loaded (C : CtxC h main reg T rank idep) (dist : Nat → Nat) (hcov : Covered h main dist)
    {st : LState} (inv : LInvC h reg [] st) {i : Nat} (hmi : lookupMemo st.memo mainName = some i) :
    ∀ (d : Nat) (o : Nat) (ob : Obj), dist o ≤ d → h[o]? = some ob → FieldsDone h reg st ob
  | d, o, ob, hd, hob => by
    have hmain : (main, mainName) ∈ reg := lookupName_some_mem C.regOk.mainIn
    rcases hcov o ob hob with hm | ⟨q, obq, f, hq, hf, hncb, hfv, hdq⟩
    · subst hm; exact fieldsDone_named inv C.regOk hmain hob hmi
    · cases d with
      | zero => omega
      | succ d =>
        obtain ⟨dd, lf, hlen, hdone⟩ := all_loaded C dist hcov inv hmi d q obq (by omega) hq
        obtain ⟨k, hk⟩ := List.mem_iff_getElem?.mp hf
        have hkl : k < lf.length := by
          rw [hlen]; obtain ⟨hlt, _⟩ := List.getElem?_eq_some_iff.mp hk; exact hlt
        have hr := hdone k f lf[k] hk (List.getElem?_eq_getElem hkl) hncb
        cases hv : f.val with
        | lit n => rw [hv] at hfv; cases hfv
        | str s => rw [hv] at hfv; cases hfv
        | ref p =>
          rw [hv] at hfv hr
          simp only [Val.target, Option.some.injEq] at hfv
          subst hfv
          cases hl : lf[k] <;> rw [hl] at hr <;> simp only [RelV] at hr
          obtain ⟨m, h1, h2⟩ := hr
          exact fieldsDone_named inv C.regOk (lookupName_some_mem h1) hob h2
        | own p =>
          rw [hv] at hfv hr
          simp only [Val.target, Option.some.injEq] at hfv
          subst hfv
          cases dd with
          | zero => cases hl : lf[k] <;> rw [hl] at hr <;> simp [RelV] at hr
          | succ dd =>
            cases hl : lf[k] <;> rw [hl] at hr <;> simp only [RelV] at hr
            obtain ⟨_, obp, lo, a1, _, _, a4, _⟩ := hr
            rw [hob] at a1; cases a1
            obtain ⟨hlen', hpt⟩ := relVals_pointwise ob.fields lo.fields a4
            exact ⟨dd, lo.fields, hlen', fun k' f' l' hk' hl' _ => hpt k' f' l' hk' hl'⟩

theorem refInTree_isRefTarget : ∀ (d q t : Nat), RefInTree h d q t → isRefTarget h t = true
  | 0, _, _, hr => by simp [RefInTree] at hr
  | d + 1, q, t, hr => by
    simp only [RefInTree] at hr
    obtain ⟨ob, hob, f, hf, hcase⟩ := hr
    rcases hcase with hv | ⟨p, _, hsub⟩
    · unfold isRefTarget
      rw [List.any_eq_true]
      refine ⟨ob, List.mem_of_getElem? hob, ?_⟩
      rw [List.any_eq_true]
      exact ⟨f, hf, by simp [hv]⟩
    · exact refInTree_isRefTarget d p t hsub

/-- **Round trip with generator loaders, deferred callbacks and inlined records.** -/
theorem roundtrip_cb_core (rank idep dist : Nat → Nat)
    (hgc : ∀ ob ∈ h, (∃ f ∈ ob.fields, f.phase = .late) → ∀ f ∈ ob.fields, f.phase ≠ .cb)
    (hrkE : ∀ o ob, h[o]? = some ob → ∀ f ∈ ob.fields, f.phase = .early → ∀ p, f.val.target = some p → rank p < rank o)
    (hrkL : ∀ o ob, h[o]? = some ob → ∀ f ∈ ob.fields, f.phase = .late → ∀ p, f.val.target = some p → rank p ≤ rank o)
    (hmainPlain : ∀ ob, h[main]? = some ob → ∀ f ∈ ob.fields, f.phase ≠ .late)
    (hcov : Covered h main dist)
    (hdepth : ∀ o, o < h.length → idep o ≤ h.length)
    (hedge : ∀ (o : Nat) (ob : Obj), h[o]? = some ob → ∀ f ∈ ob.fields, ∀ p, f.val = Val.own p → idep p < idep o ∧ f.phase ≠ .cb)
    (hinl : ∀ (o : Nat) (ob : Obj), h[o]? = some ob → ∀ f ∈ ob.fields, ∀ p, f.val = Val.own p → ∀ obp : Obj, h[p]? = some obp →
      (∀ x ∈ obp.fields, x.phase = .early) ∧ p ≠ main ∧ isRefTarget h p = false)
    {st : SState} {T : Table} (hs : serialize h main = .ok (st, T)) (fuel : Nat)
    (hfuel : (st.reg.length + 1) * (h.length + 1) + 1 < fuel) :
    ∃ ls i, unserialize T fuel = (ls, .ok (.ref i)) ∧ specRoundTrip h st.reg ls = true := by
  obtain ⟨hk, hreach, hkeys, hent⟩ := serialize_spec h main hs
  have hTnd : (T.map Prod.fst).Nodup := by rw [hkeys]; exact hk.namesNodup
  have C : CtxC h main st.reg T rank idep := {
    regOk := hk
    tbl := fun o n hon => by
      obtain ⟨ob, h1, h2, h3⟩ := hent o n hon
      exact ⟨ob, h1, lookupRec_of_mem hTnd h2, h3⟩
    noGenCb := hgc
    rkEarly := hrkE
    rkLate := hrkL
    depth := hdepth
    edge := hedge
    inlEarly := fun o ob hob f hf p hp obp hobp => (hinl o ob hob f hf p hp obp hobp).1 }
  have hmain : (main, mainName) ∈ st.reg := lookupName_some_mem hk.mainIn
  obtain ⟨f', rfl⟩ : ∃ f', fuel = f' + 1 + 1 := ⟨fuel - 2, by omega⟩
  have inv0 : LInvC h st.reg [] initL :=
    ⟨by simp [initL], by simp [initL], by intro w hw; simp [initL] at hw,
     by intro e he; simp [initL] at he, by intro e he; simp [initL] at he, by intro e he; simp [initL] at he⟩
  have htodo : todo st.reg initL ≤ st.reg.length := by
    unfold todo; exact List.length_filter_le _ _
  have hb : budget h st.reg initL < f' + 1 + 1 := by
    have : budget h st.reg initL ≤ (st.reg.length + 1) * (h.length + 1) := by
      unfold budget; exact Nat.mul_le_mul_right _ (by omega)
    omega
  obtain ⟨ob, hob, hrec, hrefs⟩ := C.tbl main mainName hmain
  have hlit : isLiteralStr mainName = false := mainName_not_literal
  obtain ⟨st4, i, hload, inv4, ext4, mem4⟩ :=
    loadRec_named_ok C f' [] main mainName hmain ob hob hrefs initL inv0 rfl (by simp [initL])
      (by intro w hw; simp [initL] at hw) hb
      (by rintro ⟨g, hg, hgl⟩; exact absurd hgl (hmainPlain ob hob g hg))
      (fun prog' => load_named_cb C (f' + 1) prog')
  have hwork4 : st4.working = [] := ext4.work
  -- everything has been restored: the callbacks only hit the memo table
  have hallIn : ∀ o n, (o, n) ∈ st.reg → ∃ j, lookupMemo st4.memo n = some j := by
    intro o n hon
    obtain ⟨ob', hob', _, _⟩ := C.tbl o n hon
    rcases hcov o ob' hob' with hm | ⟨q, obq, f, hq, hf, hncb, hfv, hdq⟩
    · subst hm
      rw [hk.name_unique hon hmain]; exact ⟨i, mem4⟩
    · obtain ⟨dd, lf, hlen, hdone⟩ := all_loaded C dist hcov inv4 mem4 (dist q) q obq (Nat.le_refl _) hq
      obtain ⟨k, hkf⟩ := List.mem_iff_getElem?.mp hf
      have hkl : k < lf.length := by
        rw [hlen]; obtain ⟨hlt, _⟩ := List.getElem?_eq_some_iff.mp hkf; exact hlt
      have hr := hdone k f lf[k] hkf (List.getElem?_eq_getElem hkl) hncb
      cases hv : f.val with
      | lit n => rw [hv] at hfv; cases hfv
      | str s => rw [hv] at hfv; cases hfv
      | ref p =>
        rw [hv] at hfv hr
        simp only [Val.target, Option.some.injEq] at hfv
        subst hfv
        cases hl : lf[k] <;> rw [hl] at hr <;> simp only [RelV] at hr
        obtain ⟨m, h1, h2⟩ := hr
        rw [hk.name_unique hon (lookupName_some_mem h1)]; exact ⟨_, h2⟩
      | own p =>
        -- a registered object is `main` or referred to by name, so it is not an inlined object
        exfalso
        rw [hv] at hfv
        simp only [Val.target, Option.some.injEq] at hfv
        subst hfv
        obtain ⟨_, hnm, hnr⟩ := hinl q obq hq f hf p hv ob' hob'
        obtain ⟨pre, post, hsplit⟩ := List.append_of_mem hon
        rcases hreach pre (p, n) post hsplit with hm | ⟨q', _, hrt⟩
        · exact hnm hm
        · rw [refInTree_isRefTarget _ _ _ hrt] at hnr; cases hnr
  have cb0 : CbInv h st.reg (fun c _ => c ∈ st4.callbacks) st4 := by
    refine ⟨inv4.keysNodup, inv4.valsNodup, hallIn, inv4.pendOk, ?_⟩
    intro e he
    obtain ⟨_, o', ob', lo, a1, a2, a3, a4, a5⟩ := inv4.good e he (by simp)
    obtain ⟨hlen, hpt⟩ := cellVals_pointwise 0 ob'.fields lo.fields a5
    refine ⟨o', ob', lo, a1, a2, a3, a4, hlen, ?_⟩
    intro k f l hk hl
    have := hpt k f l hk hl
    unfold FieldOk
    split
    · rename_i hcb
      simp only [hcb, if_true, Nat.zero_add] at this
      exact Or.inr this
    · rename_i hcb
      simp only [hcb, if_false] at this; exact this
  obtain ⟨m5, cb5⟩ := tryCallbacks_ok C f' st4.callbacks st4 cb0
  refine ⟨tryCallbacks (object T (f' + 1)) st4 st4.callbacks, i, ?_,
    spec_of_loaded hk hreach _ (good_of_cbInv cb5) cb5.valsNodup (by rw [m5]; exact mem4)⟩
  unfold unserialize
  have hcont : initL.working.contains mainName = false := by simp [initL]
  rw [object_named_unfold T (f' + 1) initL mainName ob.cls (encFields h st.reg h.length ob.fields) hlit rfl hrec hcont, hload]
  have herase : st4.working.erase mainName = st4.working := by rw [hwork4]; rfl
  have hst : ({ st4 with working := st4.working.erase mainName } : LState) = st4 := by rw [herase]
  simp only [hst]
  unfold tryCallbacksIfIdle
  simp only [hwork4, List.isEmpty_nil, if_true]

end

/-! ### Boolean hypotheses as propositions -/

theorem noGenCb_iff (h : Heap) (hb : noGenCb h = true) :
    ∀ ob ∈ h, (∃ f ∈ ob.fields, f.phase = .late) → ∀ f ∈ ob.fields, f.phase ≠ .cb := by
  intro ob hob ⟨g, hg, hgl⟩ f hf hfc
  unfold noGenCb at hb
  have := (List.all_eq_true.mp hb) ob hob
  have h1 : ob.fields.any (fun f => f.phase == .late) = true :=
    List.any_eq_true.mpr ⟨g, hg, by simp [hgl]⟩
  have h2 : ob.fields.any (fun f => f.phase == .cb) = true :=
    List.any_eq_true.mpr ⟨f, hf, by simp [hfc]⟩
  simp [h1, h2] at this

theorem mainPlain_iff (h : Heap) (main : Nat) (hb : mainPlain h main = true) :
    ∀ ob, h[main]? = some ob → ∀ f ∈ ob.fields, f.phase ≠ .late := by
  intro ob hob f hf hfl
  unfold mainPlain at hb
  simp only [hob] at hb
  have := (List.all_eq_true.mp hb) f hf
  simp [hfl] at this

theorem cyclesBy_iff (rank : Nat → Nat) (h : Heap) (hb : cyclesBy rank h = true) :
    (∀ o ob, h[o]? = some ob → ∀ f ∈ ob.fields, f.phase = .early → ∀ p, f.val.target = some p → rank p < rank o) ∧
    (∀ o ob, h[o]? = some ob → ∀ f ∈ ob.fields, f.phase = .late → ∀ p, f.val.target = some p → rank p ≤ rank o) := by
  have key : ∀ (o : Nat) (ob : Obj), h[o]? = some ob → ∀ (f : Field), f ∈ ob.fields → ∀ (p : Nat), f.val.target = some p →
      (match f.phase with
        | Phase.early => decide (rank p < rank o)
        | Phase.late => decide (rank p ≤ rank o)
        | _ => true) = true := by
    intro o ob hob f hf p hp
    unfold cyclesBy at hb
    have ho : o < h.length := by
      obtain ⟨ho, _⟩ := List.getElem?_eq_some_iff.mp hob; exact ho
    have := (List.all_eq_true.mp hb) o (List.mem_range.mpr ho)
    simp only [hob] at this
    have := (List.all_eq_true.mp this) f hf
    simp only [hp] at this
    cases hph : f.phase <;> simp only [hph] at this ⊢ <;> first | exact this | rfl
  constructor
  · intro o ob hob f hf hph p hp
    have := key o ob hob f hf p hp
    simp only [hph, decide_eq_true_eq] at this
    exact this
  · intro o ob hob f hf hph p hp
    have := key o ob hob f hf p hp
    simp only [hph, decide_eq_true_eq] at this
    exact this

theorem coveredBy_iff (dist : Nat → Nat) (h : Heap) (main : Nat) (hb : coveredBy dist h main = true) :
    Covered h main dist := by
  intro o ob hob
  unfold coveredBy at hb
  have ho : o < h.length := by
    obtain ⟨ho, _⟩ := List.getElem?_eq_some_iff.mp hob; exact ho
  have := (List.all_eq_true.mp hb) o (List.mem_range.mpr ho)
  rw [Bool.or_eq_true] at this
  rcases this with hm | hex
  · left; simpa using hm
  · right
    obtain ⟨q, _, hq⟩ := List.any_eq_true.mp hex
    cases hobq : h[q]? with
    | none => simp [hobq] at hq
    | some obq =>
      simp only [hobq, Bool.and_eq_true, decide_eq_true_eq] at hq
      obtain ⟨f, hf, hfp⟩ := List.any_eq_true.mp hq.2
      rw [Bool.and_eq_true] at hfp
      refine ⟨q, obq, f, hobq, hf, ?_, ?_, hq.1⟩
      · intro hc; simp [hc] at hfp
      · simpa using hfp.2

end GlueVerif.C02
