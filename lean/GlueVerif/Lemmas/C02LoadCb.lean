import GlueVerif.Lemmas.C02LoadLate
/-! The un-serializer with all three mechanisms: memo table, generator loaders (late fields) and
deferred `__setgluestate_callback__` fields (`cb`).  With the repaired `_try_callbacks` (fix F5i) the
callbacks are tried only when no object is under construction; for a `main` object with a plain loader
that is exactly once, at the very end, when every object has been restored — so every callback field
resolves by a memo-table hit. -/
namespace GlueVerif.C02

/-- what an entry of `pend` (a still un-resolved callback field) must be -/
def PendOk (h : Heap) (reg : Reg) (st : LState) (e : Nat × Nat × JVal) : Prop :=
  ∃ n o ob f, lookupMemo st.memo n = some e.1 ∧ (o, n) ∈ reg ∧ h[o]? = some ob ∧ ob.fields[e.2.1]? = some f ∧
    f.phase = .cb ∧ e.2.2 = encVal reg f.val

/-- fields of a completely loaded object *before* the callbacks have run -/
def CellVals (reg : Reg) (st : LState) (c : Nat) : Nat → List Field → List LVal → Prop
  | _, [], [] => True
  | k, f :: fs, l :: ls =>
    (if f.phase = .cb then l = .pending ∧ (c, k, encVal reg f.val) ∈ st.pend ∧ c ∈ st.callbacks
     else RelVal reg st.memo f.val l) ∧ CellVals reg st c (k + 1) fs ls
  | _, _, _ => False

def GoodC (h : Heap) (reg : Reg) (st : LState) (n : Str) (i : Nat) : Prop :=
  i < st.heap.length ∧ ∃ o ob lo, (o, n) ∈ reg ∧ h[o]? = some ob ∧ st.heap[i]? = some lo ∧
    lo.cls = ob.cls ∧ CellVals reg st i 0 ob.fields lo.fields

structure LInvC (h : Heap) (reg : Reg) (prog : List Str) (st : LState) : Prop where
  keysNodup : (st.memo.map Prod.fst).Nodup
  valsNodup : (st.memo.map Prod.snd).Nodup
  disj : ∀ w ∈ st.working, lookupMemo st.memo w = none
  bound : ∀ e ∈ st.memo, e.2 < st.heap.length
  pendOk : ∀ e ∈ st.pend, PendOk h reg st e
  good : ∀ e ∈ st.memo, e.1 ∉ prog → GoodC h reg st e.1 e.2

structure LExtC (st st' : LState) : Prop where
  memo : MemoLe st.memo st'.memo
  heap : HeapLe st.heap st'.heap
  work : st'.working = st.working
  pend : ∀ e ∈ st.pend, e ∈ st'.pend
  cbs : ∀ c ∈ st.callbacks, c ∈ st'.callbacks

theorem LExtC.refl (st : LState) : LExtC st st := ⟨MemoLe.refl _, HeapLe.refl _, rfl, fun _ h => h, fun _ h => h⟩
theorem LExtC.trans {a b c : LState} (h1 : LExtC a b) (h2 : LExtC b c) : LExtC a c :=
  ⟨h1.memo.trans h2.memo, h1.heap.trans h2.heap, by rw [h2.work, h1.work],
   fun e he => h2.pend e (h1.pend e he), fun x hx => h2.cbs x (h1.cbs x hx)⟩

theorem PendOk.mono {h : Heap} {reg : Reg} {st st' : LState} (hm : MemoLe st.memo st'.memo) {e : Nat × Nat × JVal}
    (hp : PendOk h reg st e) : PendOk h reg st' e := by
  obtain ⟨n, o, ob, f, a1, a2, a3, a4, a5, a6⟩ := hp
  exact ⟨n, o, ob, f, hm _ _ a1, a2, a3, a4, a5, a6⟩

theorem CellVals.mono {reg : Reg} {st st' : LState} {c : Nat} (hm : MemoLe st.memo st'.memo)
    (hp : ∀ e ∈ st.pend, e ∈ st'.pend) (hc : ∀ x ∈ st.callbacks, x ∈ st'.callbacks) :
    ∀ {k : Nat} {fs : List Field} {ls : List LVal}, CellVals reg st c k fs ls → CellVals reg st' c k fs ls
  | _, [], [], _ => trivial
  | _, _ :: _, [], h => by simp [CellVals] at h
  | _, [], _ :: _, h => by simp [CellVals] at h
  | _, f :: _, _ :: _, h => by
    refine ⟨?_, CellVals.mono hm hp hc h.2⟩
    have h1 := h.1
    by_cases hph : f.phase = .cb
    · simp only [hph, if_true] at h1 ⊢
      exact ⟨h1.1, hp _ h1.2.1, hc _ h1.2.2⟩
    · simp only [hph, if_false] at h1 ⊢
      exact RelVal.mono hm h1

/-- values of a freshly allocated object: only the early fields are resolved -/
def InitValsC (reg : Reg) (memo : List (Str × Nat)) : List Field → List LVal → Prop
  | [], [] => True
  | f :: fs, l :: ls => (if f.phase = .early then RelVal reg memo f.val l else l = .pending) ∧ InitValsC reg memo fs ls
  | _, _ => False

theorem InitValsC.mono {reg : Reg} {m m' : List (Str × Nat)} (hle : MemoLe m m') :
    ∀ {fs : List Field} {ls : List LVal}, InitValsC reg m fs ls → InitValsC reg m' fs ls
  | [], [], _ => trivial
  | _ :: _, [], h => by simp [InitValsC] at h
  | [], _ :: _, h => by simp [InitValsC] at h
  | f :: _, _ :: _, h => by
    refine ⟨?_, InitValsC.mono hle h.2⟩
    have h1 := h.1
    by_cases hp : f.phase = .early
    · simp only [hp, if_true] at h1 ⊢; exact RelVal.mono hle h1
    · simpa [hp] using h1

/-- values of the fields the late loop has passed: everything but callback fields is resolved -/
def DoneVals (reg : Reg) (memo : List (Str × Nat)) : List Field → List LVal → Prop
  | [], [] => True
  | f :: fs, l :: ls => (if f.phase = .cb then l = .pending else RelVal reg memo f.val l) ∧ DoneVals reg memo fs ls
  | _, _ => False

theorem DoneVals.mono {reg : Reg} {m m' : List (Str × Nat)} (hle : MemoLe m m') :
    ∀ {fs : List Field} {ls : List LVal}, DoneVals reg m fs ls → DoneVals reg m' fs ls
  | [], [], _ => trivial
  | _ :: _, [], h => by simp [DoneVals] at h
  | [], _ :: _, h => by simp [DoneVals] at h
  | f :: _, _ :: _, h => by
    refine ⟨?_, DoneVals.mono hle h.2⟩
    have h1 := h.1
    by_cases hp : f.phase = .cb
    · simpa [hp] using h1
    · simp only [hp, if_false] at h1 ⊢; exact RelVal.mono hle h1

theorem doneVals_append {reg : Reg} {memo : List (Str × Nat)} : ∀ {fs : List Field} {ls : List LVal} {f : Field} {l : LVal},
    DoneVals reg memo fs ls → (if f.phase = .cb then l = .pending else RelVal reg memo f.val l) →
    DoneVals reg memo (fs ++ [f]) (ls ++ [l])
  | [], [], _, _, _, h2 => ⟨h2, trivial⟩
  | _ :: _, [], _, _, h1, _ => by simp [DoneVals] at h1
  | [], _ :: _, _, _, h1, _ => by simp [DoneVals] at h1
  | _ :: _, _ :: _, _, _, h1, h2 => ⟨h1.1, doneVals_append h1.2 h2⟩

theorem doneVals_length {reg : Reg} {memo : List (Str × Nat)} : ∀ {fs : List Field} {ls : List LVal},
    DoneVals reg memo fs ls → fs.length = ls.length
  | [], [], _ => rfl
  | _ :: _, [], h => by simp [DoneVals] at h
  | [], _ :: _, h => by simp [DoneVals] at h
  | _ :: _, _ :: _, h => by simp [doneVals_length h.2]

/-- entries produced by `cbSources` -/
theorem cbSources_mem (i : Nat) : ∀ (flds : List (Phase × JVal)) (k0 : Nat) (c k : Nat) (j : JVal),
    (c, k, j) ∈ cbSources i k0 flds ↔ c = i ∧ k0 ≤ k ∧ flds[k - k0]? = some (Phase.cb, j)
  | [], k0, c, k, j => by simp [cbSources]
  | (p, j0) :: rest, k0, c, k, j => by
    unfold cbSources
    have ih := cbSources_mem i rest (k0 + 1) c k j
    by_cases hp : p = .cb
    · subst hp
      simp only [if_true, List.mem_cons, Prod.mk.injEq, ih]
      constructor
      · rintro (⟨rfl, rfl, rfl⟩ | ⟨rfl, hk, hget⟩)
        · exact ⟨rfl, Nat.le_refl _, by simp⟩
        · refine ⟨rfl, by omega, ?_⟩
          have : k - k0 = (k - (k0 + 1)) + 1 := by omega
          rw [this]; simpa using hget
      · rintro ⟨rfl, hk, hget⟩
        by_cases hkk : k = k0
        · subst hkk; simp at hget; left; exact ⟨rfl, rfl, hget.symm⟩
        · right
          refine ⟨rfl, by omega, ?_⟩
          have : k - k0 = (k - (k0 + 1)) + 1 := by omega
          rw [this] at hget; simpa using hget
    · simp only [hp, if_false, ih]
      constructor
      · rintro ⟨rfl, hk, hget⟩
        refine ⟨rfl, by omega, ?_⟩
        have : k - k0 = (k - (k0 + 1)) + 1 := by omega
        rw [this]; simpa using hget
      · rintro ⟨rfl, hk, hget⟩
        by_cases hkk : k = k0
        · subst hkk; simp at hget; exact absurd hget.1 hp
        · refine ⟨rfl, by omega, ?_⟩
          have : k - k0 = (k - (k0 + 1)) + 1 := by omega
          rw [this] at hget; simpa using hget


/-! ### setting -/

structure CtxC (h : Heap) (main : Nat) (reg : Reg) (T : Table) (rank : Nat → Nat) : Prop where
  regOk : RegOk main reg
  tbl : ∀ o n, (o, n) ∈ reg → ∃ ob, h[o]? = some ob ∧ lookupRec T n = some (encObj reg ob) ∧ RefsIn reg ob.fields
  noOwn : NoOwn h
  /-- a generator loader never gets its callback registered: such classes are excluded -/
  noGenCb : ∀ ob ∈ h, (∃ f ∈ ob.fields, f.phase = .late) → ∀ f ∈ ob.fields, f.phase ≠ .cb
  rkEarly : ∀ o ob, h[o]? = some ob → ∀ f ∈ ob.fields, f.phase = .early → ∀ p, f.val = .ref p → rank p < rank o
  rkLate : ∀ o ob, h[o]? = some ob → ∀ f ∈ ob.fields, f.phase = .late → ∀ p, f.val = .ref p → rank p ≤ rank o

section
variable {h : Heap} {main : Nat} {reg : Reg} {T : Table} {rank : Nat → Nat}

def LoadsOkC (h : Heap) (reg : Reg) (T : Table) (prog : List Str) (fuel : Nat) (st : LState) (n : Str) : Prop :=
  ∃ st' i, object T fuel st (.str n) = (st', .ok (.ref i)) ∧ LInvC h reg prog st' ∧ LExtC st st' ∧
    lookupMemo st'.memo n = some i

/-- induction hypothesis for the children: they are only ever loaded while something is under construction -/
def ChildOkC (h : Heap) (reg : Reg) (T : Table) (rank : Nat → Nat) (prog : List Str) (fuel : Nat) : Prop :=
  ∀ p m, (p, m) ∈ reg → ∀ st, LInvC h reg prog st → st.working ≠ [] →
    (∀ w ∈ st.working, ∃ q, (q, w) ∈ reg ∧ rank p < rank q) → todo reg st + 1 < fuel →
    LoadsOkC h reg T prog fuel st m

theorem resolve_value_c (C : CtxC h main reg T rank) (ob : Obj) (hobm : ob ∈ h)
    (hrefs : RefsIn reg ob.fields) (f' : Nat) (prog : List Str) (g : Field) (hg : g ∈ ob.fields)
    (IHc : ChildOkC h reg T rank prog (f' + 1))
    (st : LState) (hinv : LInvC h reg prog st) (hbusy : st.working ≠ [])
    (hw : ∀ p, g.val = .ref p → ∀ w ∈ st.working, ∃ q, (q, w) ∈ reg ∧ rank p < rank q)
    (hfuel : todo reg st + 1 < f' + 1) :
    ∃ st1 v, object T (f' + 1) st (encVal reg g.val) = (st1, .ok v) ∧ LInvC h reg prog st1 ∧ LExtC st st1 ∧
      RelVal reg st1.memo g.val v := by
  cases hv : g.val with
  | lit n => exact ⟨st, .lit n, rfl, hinv, LExtC.refl _, rfl⟩
  | str s =>
    refine ⟨st, .str s, ?_, hinv, LExtC.refl _, rfl⟩
    simp only [encVal, object, (literal_roundtrip s).1, if_true, (literal_roundtrip s).2]
  | ref p =>
    obtain ⟨m, hm⟩ := hrefs g hg p hv
    have hpm : (p, m) ∈ reg := lookupName_some_mem hm
    obtain ⟨st1, i, h1, h2, h3, h4⟩ := IHc p m hpm st hinv hbusy (hw p hv) hfuel
    refine ⟨st1, .ref i, ?_, h2, h3, ⟨m, hm, h4⟩⟩
    simp only [encVal, hm, Option.getD_some]; exact h1
  | own p => exact absurd hv (C.noOwn ob hobm g hg p)

theorem resolve_early_c (C : CtxC h main reg T rank) (o : Nat) (ob : Obj) (hob : h[o]? = some ob)
    (hrefs : RefsIn reg ob.fields) (f' : Nat) (prog : List Str)
    (IHc : ChildOkC h reg T rank prog (f' + 1)) :
    ∀ (fs : List Field), (∀ g ∈ fs, g ∈ ob.fields) → ∀ (st : LState), LInvC h reg prog st → st.working ≠ [] →
      (∀ w ∈ st.working, ∃ q, (q, w) ∈ reg ∧ rank o ≤ rank q) → todo reg st + 1 < f' + 1 →
      ∃ st' vals, resolvePhase (object T (f' + 1)) .early st (encFields reg fs) = (st', .ok vals) ∧
        LInvC h reg prog st' ∧ LExtC st st' ∧ InitValsC reg st'.memo fs vals
  | [], _, st, hinv, _, _, _ => ⟨st, [], rfl, hinv, LExtC.refl _, trivial⟩
  | g :: fs, hsub, st, hinv, hbusy, hw, hfuel => by
    have hg : g ∈ ob.fields := hsub g List.mem_cons_self
    have hsub' : ∀ x ∈ fs, x ∈ ob.fields := fun x hx => hsub x (List.mem_cons_of_mem _ hx)
    by_cases hph : g.phase = .early
    · have hrk : ∀ p, g.val = .ref p → rank p < rank o := C.rkEarly o ob hob g hg hph
      obtain ⟨st1, v, e1, inv1, ext1, rel1⟩ := resolve_value_c C ob (List.mem_of_getElem? hob) hrefs f' prog g hg IHc st hinv hbusy
        (fun p hp w hwm => by
          obtain ⟨q, hq1, hq2⟩ := hw w hwm; have := hrk p hp; exact ⟨q, hq1, by omega⟩) hfuel
      have hfuel1 : todo reg st1 + 1 < f' + 1 := by
        have := todo_mono (reg := reg) ext1.memo ext1.work; omega
      obtain ⟨st2, vs, e2, inv2, ext2, rel2⟩ := resolve_early_c C o ob hob hrefs f' prog IHc fs hsub' st1 inv1
        (by rw [ext1.work]; exact hbusy) (by rw [ext1.work]; exact hw) hfuel1
      refine ⟨st2, v :: vs, ?_, inv2, ext1.trans ext2, ⟨?_, rel2⟩⟩
      · simp only [encFields, List.map_cons, resolvePhase, hph, if_true]
        simp only [encFields] at e2
        rw [e1]; simp only [e2]
      · simp only [hph, if_true]; exact RelVal.mono ext2.memo rel1
    · obtain ⟨st2, vs, e2, inv2, ext2, rel2⟩ := resolve_early_c C o ob hob hrefs f' prog IHc fs hsub' st hinv hbusy hw hfuel
      refine ⟨st2, .pending :: vs, ?_, inv2, ext2, ⟨?_, rel2⟩⟩
      · simp only [encFields, List.map_cons, resolvePhase, hph, if_false]
        simp only [encFields] at e2
        simp only [e2]
      · simp only [hph, if_false]

/-- what the late phase of the object at cell `i` may change -/
structure LateExtC (i : Nat) (st st' : LState) : Prop where
  memo : MemoLe st.memo st'.memo
  work : st'.working = st.working
  len : st.heap.length ≤ st'.heap.length
  others : ∀ j, j < st.heap.length → j ≠ i → st'.heap[j]? = st.heap[j]?
  pend : ∀ e ∈ st.pend, e ∈ st'.pend
  cbs : ∀ c ∈ st.callbacks, c ∈ st'.callbacks

theorem LateExtC.refl (i : Nat) (st : LState) : LateExtC i st st :=
  ⟨MemoLe.refl _, rfl, Nat.le_refl _, fun _ _ _ => rfl, fun _ h => h, fun _ h => h⟩
theorem LateExtC.trans {i : Nat} {a b c : LState} (h1 : LateExtC i a b) (h2 : LateExtC i b c) : LateExtC i a c :=
  ⟨h1.memo.trans h2.memo, by rw [h2.work, h1.work], Nat.le_trans h1.len h2.len,
   fun j hj hji => by rw [h2.others j (Nat.lt_of_lt_of_le hj h1.len) hji, h1.others j hj hji],
   fun e he => h2.pend e (h1.pend e he), fun x hx => h2.cbs x (h1.cbs x hx)⟩
theorem LateExtC.of_ext {i : Nat} {a b : LState} (h : LExtC a b) : LateExtC i a b :=
  ⟨h.memo, h.work, h.heap.1, fun j hj _ => h.heap.2 j hj, h.pend, h.cbs⟩

theorem initValsC_nil {reg : Reg} {memo : List (Str × Nat)} {lb : List LVal} (h : InitValsC reg memo [] lb) : lb = [] := by
  cases lb with
  | nil => rfl
  | cons _ _ => simp [InitValsC] at h

theorem initValsC_cons {reg : Reg} {memo : List (Str × Nat)} {g : Field} {fs : List Field} {lb : List LVal}
    (h : InitValsC reg memo (g :: fs) lb) : ∃ l lb', lb = l :: lb' ∧
      (if g.phase = .early then RelVal reg memo g.val l else l = .pending) ∧ InitValsC reg memo fs lb' := by
  cases lb with
  | nil => simp [InitValsC] at h
  | cons l lb' => exact ⟨l, lb', rfl, h.1, h.2⟩

theorem setField_inv_c {prog : List Str} {st : LState} {n : Str} {i : Nat} (k : Nat) (v : LVal)
    (hinv : LInvC h reg (n :: prog) st) (hmem : lookupMemo st.memo n = some i) :
    LInvC h reg (n :: prog) { st with heap := setField st.heap i k v } := by
  refine ⟨hinv.keysNodup, hinv.valsNodup, hinv.disj, ?_, hinv.pendOk, ?_⟩
  · intro e he
    simp only [setField, List.length_modify]; exact hinv.bound e he
  · intro e he hnp
    obtain ⟨hlt, o', ob', lo', a1, a2, a3, a4, a5⟩ := hinv.good e he hnp
    have hne : e.2 ≠ i := by
      intro heq
      have m1 : (e.1, e.2) ∈ st.memo := he
      have m2 := lookupMemo_some_mem hmem
      have n1 := nameOfIdx_of_mem hinv.valsNodup m1
      rw [heq, nameOfIdx_of_mem hinv.valsNodup m2] at n1
      exact hnp (by rw [← Option.some.inj n1]; exact List.mem_cons_self)
    refine ⟨by simp only [setField, List.length_modify]; exact hlt, o', ob', lo', a1, a2, ?_, a4,
      CellVals.mono (st := st) (st' := { st with heap := setField st.heap i k v }) (MemoLe.refl _) (fun _ hx => hx) (fun _ hx => hx) a5⟩
    simp only [setField, List.getElem?_modify, a3, Option.map_eq_map, Option.map_some, Ne.symm hne, if_false]

theorem late_loop_c (C : CtxC h main reg T rank) (o : Nat) (ob : Obj) (hob : h[o]? = some ob)
    (hrefs : RefsIn reg ob.fields) (f' : Nat) (prog : List Str) (n : Str) (i : Nat) (cls : Nat)
    (IHl : ChildOkC h reg T rank (n :: prog) (f' + 1)) :
    ∀ (rest pre : List Field), pre ++ rest = ob.fields → ∀ (st : LState) (la lb : List LVal),
      LInvC h reg (n :: prog) st → st.heap[i]? = some { cls := cls, fields := la ++ lb } →
      DoneVals reg st.memo pre la → InitValsC reg st.memo rest lb → lookupMemo st.memo n = some i →
      ((∃ g ∈ rest, g.phase = .late) → st.working ≠ []) →
      (∀ w ∈ st.working, ∃ q, (q, w) ∈ reg ∧ rank o < rank q) → todo reg st + 1 < f' + 1 →
      ∃ st' ls', latePhase (object T (f' + 1)) i st pre.length (encFields reg rest) = (st', .ok ()) ∧
        LInvC h reg (n :: prog) st' ∧ LateExtC i st st' ∧ st'.heap[i]? = some { cls := cls, fields := ls' } ∧
        DoneVals reg st'.memo ob.fields ls' ∧ lookupMemo st'.memo n = some i
  | [], pre, hsplit, st, la, lb, hinv, hcell, hla, hlb, hmem, _, _, _ => by
    have : lb = [] := initValsC_nil hlb
    subst this
    simp only [List.append_nil] at hsplit hcell
    subst hsplit
    exact ⟨st, la, rfl, hinv, LateExtC.refl _ _, hcell, hla, hmem⟩
  | g :: rest, pre, hsplit, st, la, lb, hinv, hcell, hla, hlb, hmem, hbusy, hw, hfuel => by
    have hg : g ∈ ob.fields := by rw [← hsplit]; simp
    have hsplit' : (pre ++ [g]) ++ rest = ob.fields := by rw [← hsplit]; simp
    obtain ⟨l, lb', rfl, hl, hlb'⟩ := initValsC_cons hlb
    have hlen : la.length = pre.length := (doneVals_length hla).symm
    have hbusy' : (∃ x ∈ rest, x.phase = .late) → st.working ≠ [] := by
      rintro ⟨x, hx, hxp⟩; exact hbusy ⟨x, List.mem_cons_of_mem _ hx, hxp⟩
    by_cases hph : g.phase = .late
    · have hne : ¬ g.phase = .early := by rw [hph]; decide
      simp only [hne, if_false] at hl
      subst hl
      have hb : st.working ≠ [] := hbusy ⟨g, List.mem_cons_self, hph⟩
      obtain ⟨st1, v, e1, inv1, ext1, rel1⟩ := resolve_value_c C ob (List.mem_of_getElem? hob) hrefs f' (n :: prog) g hg IHl st hinv hb
        (fun p hp w hwm => by
          obtain ⟨q, hq1, hq2⟩ := hw w hwm
          have := C.rkLate o ob hob g hg hph p hp
          exact ⟨q, hq1, by omega⟩) hfuel
      have hmem1 : lookupMemo st1.memo n = some i := ext1.memo _ _ hmem
      have hcell1 : st1.heap[i]? = some { cls := cls, fields := la ++ LVal.pending :: lb' } := ext1.heap.get hcell
      let st2 : LState := { st1 with heap := setField st1.heap i pre.length v }
      have inv2 : LInvC h reg (n :: prog) st2 := setField_inv_c pre.length v inv1 hmem1
      have hcell2 : st2.heap[i]? = some { cls := cls, fields := (la ++ [v]) ++ lb' } := by
        simp only [st2, setField, List.getElem?_modify, hcell1, Option.map_eq_map, Option.map_some, if_true]
        congr 2
        rw [← hlen]; simp
      have ext12 : LateExtC i st1 st2 :=
        ⟨MemoLe.refl _, rfl, by simp [st2, setField], fun j _ hji => by
          simp only [st2, setField, List.getElem?_modify, Ne.symm hji, if_false]
          cases st1.heap[j]? <;> rfl, fun _ he => he, fun _ hx => hx⟩
      have hfuel2 : todo reg st2 + 1 < f' + 1 := by
        have := todo_mono (reg := reg) ext1.memo ext1.work
        have e : todo reg st2 = todo reg st1 := rfl
        omega
      have hcb : ¬ g.phase = .cb := by rw [hph]; decide
      obtain ⟨st', ls', e', inv', ext', cell', rel', mem'⟩ := late_loop_c C o ob hob hrefs f' prog n i cls IHl rest (pre ++ [g]) hsplit'
        st2 (la ++ [v]) lb' inv2 hcell2
        (doneVals_append (DoneVals.mono ext1.memo hla) (by simp only [hcb, if_false]; exact rel1))
        (InitValsC.mono ext1.memo hlb') hmem1
        (by intro hx; have := hbusy' hx; simp only [st2]; rw [ext1.work]; exact this)
        (by intro w hwm; exact hw w (by rw [← ext1.work]; exact hwm)) hfuel2
      refine ⟨st', ls', ?_, inv', ((LateExtC.of_ext ext1).trans ext12).trans ext', cell', rel', mem'⟩
      simp only [encFields, List.map_cons, latePhase, hph, if_true]
      simp only [encFields] at e'
      rw [e1]
      simp only [List.length_append, List.length_cons, List.length_nil, Nat.zero_add] at e'
      exact e'
    · have hcell2 : st.heap[i]? = some { cls := cls, fields := (la ++ [l]) ++ lb' } := by
        rw [hcell]; simp
      have hdone : (if g.phase = .cb then l = .pending else RelVal reg st.memo g.val l) := by
        by_cases hcb : g.phase = .cb
        · have hne : ¬ g.phase = .early := by rw [hcb]; decide
          simp only [hne, if_false] at hl
          simp only [hcb, if_true]; exact hl
        · have he : g.phase = .early := by
            cases hp : g.phase with
            | early => rfl
            | late => exact absurd hp hph
            | cb => exact absurd hp hcb
          simp only [he, if_true] at hl
          simp only [hcb, if_false]; exact hl
      obtain ⟨st', ls', e', inv', ext', cell', rel', mem'⟩ := late_loop_c C o ob hob hrefs f' prog n i cls IHl rest (pre ++ [g]) hsplit'
        st (la ++ [l]) lb' hinv hcell2 (doneVals_append hla hdone) hlb' hmem hbusy' hw hfuel
      refine ⟨st', ls', ?_, inv', ext', cell', rel', mem'⟩
      simp only [encFields, List.map_cons, latePhase, hph, if_false]
      simp only [encFields] at e'
      simp only [List.length_append, List.length_cons, List.length_nil, Nat.zero_add] at e'
      exact e'

end

end GlueVerif.C02
