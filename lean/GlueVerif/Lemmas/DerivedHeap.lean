import GlueVerif.Model.DerivedHeap
import GlueVerif.Lemmas.DerivedTable
import GlueVerif.Lemmas.DerivedData
/-! Lemmas for C14, link objects (`Model/DerivedHeap.lean`): the constructors create no aliasing and
mutate nothing; `remove_component` on the pointer table is the closure filter of the value table;
evaluation through link objects is the defining expression; `replace_ids` keeps the invariant. -/
set_option linter.unusedSectionVars false
set_option linter.unusedSimpArgs false
set_option linter.unusedVariables false
namespace GlueVerif.DerivedHeap
open GlueVerif.Derived

section inv
variable {κ ω α : Type}

def Opnd.Ok (bound : Nat) : Opnd κ α → Prop
  | .link m => m < bound
  | _ => True

/-- Every reference of link object `n` points to an existing cell / command and to **older**
link objects (object graphs built by constructors are acyclic). -/
def NodeOk (h : Heap κ ω α) (n : Nat) : Node κ ω α → Prop
  | .binary _ l r f => l.Ok n ∧ r.Ok n ∧ f < h.lists.length
  | .func _ _ f => f < h.lists.length
  | .parsed c f => c < h.cmds.length ∧ f < h.lists.length

structure Heap.WF (h : Heap κ ω α) : Prop where
  defLen : h.defIds.length = h.nodes.length
  ok : ∀ n nd, h.nodes[n]? = some nd → NodeOk h n nd

/-- **No aliasing**: distinct link objects have distinct `_from` list objects. -/
def Heap.NoAlias (h : Heap κ ω α) : Prop :=
  ∀ (i j : Nat) (ni nj : Node κ ω α), h.nodes[i]? = some ni → h.nodes[j]? = some nj → ni.frm = nj.frm → i = j

/-- **Coherence**: the `_from` list object of every link object holds exactly the inputs the
object was defined with. -/
def Heap.Coherent (h : Heap κ ω α) : Prop :=
  ∀ (n : Nat) (nd : Node κ ω α), h.nodes[n]? = some nd →
    ∃ ids, h.lists[nd.frm]? = some ids ∧ h.defIds[n]? = some ids

/-- Every list object is the `_from` of exactly the link object created with it. -/
structure Heap.Own (h : Heap κ ω α) : Prop where
  len : h.lists.length = h.nodes.length
  frm : ∀ (n : Nat) (nd : Node κ ω α), h.nodes[n]? = some nd → nd.frm = n

/-- The definition of a binary link object is the definition of its left operand followed by the
definition of its right operand (identifiers contribute themselves, numbers nothing). -/
def Heap.DefStruct (h : Heap κ ω α) : Prop :=
  ∀ (n : Nat) (o : ω) (l r : Opnd κ α) (f : ListId), h.nodes[n]? = some (Node.binary o l r f) →
    ∃ ld rd, opDefIds h l = some ld ∧ opDefIds h r = some rd ∧ h.defIds[n]? = some (ld ++ rd)

theorem Heap.Own.noAlias {h : Heap κ ω α} (ho : h.Own) : h.NoAlias := by
  intro i j ni nj hi hj he
  rw [ho.frm i ni hi, ho.frm j nj hj] at he
  exact he

structure Heap.Inv (h : Heap κ ω α) : Prop where
  wf : h.WF
  own : h.Own
  coh : h.Coherent

theorem Heap.Inv.empty : ({} : Heap κ ω α).Inv :=
  ⟨⟨rfl, fun n nd h => by simp at h⟩, ⟨rfl, fun n nd h => by simp at h⟩, fun n nd h => by simp at h⟩

theorem getElem?_append_one {β : Type} (l : List β) (x : β) (i : Nat) (y : β)
    (h : (l ++ [x])[i]? = some y) : (i < l.length ∧ l[i]? = some y) ∨ (i = l.length ∧ y = x) := by
  by_cases hi : i < l.length
  · rw [List.getElem?_append_left hi] at h
    exact Or.inl ⟨hi, h⟩
  · have hge : l.length ≤ i := Nat.le_of_not_lt hi
    rw [List.getElem?_append_right hge] at h
    by_cases h0 : i - l.length = 0
    · rw [h0] at h
      simp at h
      exact Or.inr ⟨by omega, h.symm⟩
    · have : ([x] : List β)[i - l.length]? = none := by
        apply List.getElem?_eq_none
        simp; omega
      rw [this] at h
      cases h

theorem NodeOk.mono {h h' : Heap κ ω α} {n : Nat} {nd : Node κ ω α}
    (hl : h.lists.length ≤ h'.lists.length) (hc : h.cmds.length ≤ h'.cmds.length)
    (hk : NodeOk h n nd) : NodeOk h' n nd := by
  cases nd with
  | binary o l r f => exact ⟨hk.1, hk.2.1, Nat.lt_of_lt_of_le hk.2.2 hl⟩
  | func f' rv f => exact Nat.lt_of_lt_of_le hk hl
  | parsed c f => exact ⟨Nat.lt_of_lt_of_le hk.1 hc, Nat.lt_of_lt_of_le hk.2 hl⟩

theorem opIds_ok {h : Heap κ ω α} {o : Opnd κ α} {ids : List κ} (hh : opIds h o = some ids) :
    o.Ok h.nodes.length := by
  cases o with
  | const c => trivial
  | cid k => trivial
  | link m =>
    simp only [opIds, Heap.fromIds?] at hh
    simp only [Opnd.Ok]
    cases hm : h.nodes[m]? with
    | none => simp [hm] at hh
    | some nd => exact (List.getElem?_eq_some_iff.mp hm).1

/-- Under coherence an operand contributes the same inputs to the new list object as to the new
definition. -/
theorem opIds_eq_opDefIds {h : Heap κ ω α} (hc : h.Coherent) {o : Opnd κ α} {ids ds : List κ}
    (h1 : opIds h o = some ids) (h2 : opDefIds h o = some ds) : ids = ds := by
  cases o with
  | const c => simp [opIds] at h1; simp [opDefIds] at h2; rw [h1, h2]
  | cid k => simp [opIds] at h1; simp [opDefIds] at h2; rw [← h1, ← h2]
  | link m =>
    simp only [opIds, Heap.fromIds?] at h1
    simp only [opDefIds] at h2
    cases hm : h.nodes[m]? with
    | none => simp [hm] at h1
    | some nd =>
      simp only [hm] at h1
      obtain ⟨x, hx1, hx2⟩ := hc m nd hm
      rw [hx1] at h1; rw [hx2] at h2
      cases h1; cases h2; rfl

/-- Adding a link object with a **new** list object holding its defined inputs keeps the
invariant and leaves every existing object, list, command and definition as it was. -/
theorem push_inv (h : Heap κ ω α) (nd : Node κ ω α) (ids : List κ) (hi : h.Inv)
    (hfrm : nd.frm = h.lists.length)
    (hok : NodeOk { h with lists := h.lists ++ [ids] } h.nodes.length nd) :
    ({ h with nodes := h.nodes ++ [nd], lists := h.lists ++ [ids],
              defIds := h.defIds ++ [ids] } : Heap κ ω α).Inv := by
  refine ⟨⟨by simp [hi.wf.defLen], ?_⟩, ⟨by simp [hi.own.len], ?_⟩, ?_⟩
  · intro n x hx
    rcases getElem?_append_one _ _ _ _ hx with ⟨_, hx'⟩ | ⟨hn, rfl⟩
    · exact NodeOk.mono (h := h) (by simp) (Nat.le_refl _) (hi.wf.ok n x hx')
    · rw [hn]; exact NodeOk.mono (h := { h with lists := h.lists ++ [ids] }) (Nat.le_refl _) (Nat.le_refl _) hok
  · intro n x hx
    rcases getElem?_append_one _ _ _ _ hx with ⟨_, hx'⟩ | ⟨hn, rfl⟩
    · exact hi.own.frm n x hx'
    · rw [hn, hfrm, hi.own.len]
  · intro n x hx
    rcases getElem?_append_one _ _ _ _ hx with ⟨hlt, hx'⟩ | ⟨hn, rfl⟩
    · obtain ⟨y, hy1, hy2⟩ := hi.coh n x hx'
      have hf : x.frm < h.lists.length := (List.getElem?_eq_some_iff.mp hy1).1
      have hd : n < h.defIds.length := (List.getElem?_eq_some_iff.mp hy2).1
      exact ⟨y, by simp only; rw [List.getElem?_append_left hf]; exact hy1,
        by simp only; rw [List.getElem?_append_left hd]; exact hy2⟩
    · refine ⟨ids, ?_, ?_⟩
      · simp only; rw [hfrm]; simp
      · simp only; rw [hn, ← hi.wf.defLen]; simp

end inv

section build
variable {κ ω α : Type} [DecidableEq κ]

/-- One constructor call: the invariant is kept, and **nothing that existed is mutated** — the
objects, list objects, commands and definitions of the heap before are a prefix of those after. -/
theorem build_inv (h h' : Heap κ ω α) (b : Build κ ω α) (hi : h.Inv)
    (hb : build false h b = some h') :
    h'.Inv ∧ h.nodes <+: h'.nodes ∧ h.lists <+: h'.lists ∧ h.cmds <+: h'.cmds ∧
      h.defIds <+: h'.defIds := by
  cases b with
  | binary o l r =>
    simp only [build, mkBinary] at hb
    cases h1 : opIds h l with
    | none => simp [h1] at hb
    | some li =>
      cases h2 : opIds h r with
      | none => simp [h1, h2] at hb
      | some ri =>
        cases h3 : opDefIds h l with
        | none => simp [h1, h2, h3] at hb
        | some ld =>
          cases h4 : opDefIds h r with
          | none => simp [h1, h2, h3, h4] at hb
          | some rd =>
            simp only [h1, h2, h3, h4, Bool.false_eq_true, if_false, Option.map_some,
              Option.some.injEq] at hb
            subst hb
            have e1 : li = ld := opIds_eq_opDefIds hi.coh h1 h3
            have e2 : ri = rd := opIds_eq_opDefIds hi.coh h2 h4
            subst e1; subst e2
            refine ⟨push_inv h _ (li ++ ri) hi rfl ?_, List.prefix_append _ _,
              List.prefix_append _ _, List.prefix_refl _, List.prefix_append _ _⟩
            exact ⟨opIds_ok h1, opIds_ok h2, by simp⟩
  | func ks f rv =>
    simp only [build, mkFunc, Option.some.injEq] at hb
    subst hb
    exact ⟨push_inv h _ ks hi rfl (by simp [NodeOk]), List.prefix_append _ _,
      List.prefix_append _ _, List.prefix_refl _, List.prefix_append _ _⟩
  | cmd p =>
    simp only [build, mkCmd, Option.some.injEq] at hb
    subst hb
    refine ⟨⟨⟨hi.wf.defLen, fun n x hx => NodeOk.mono (h := h) (Nat.le_refl _) (by simp) (hi.wf.ok n x hx)⟩,
      ⟨hi.own.len, hi.own.frm⟩, hi.coh⟩, List.prefix_refl _, List.prefix_refl _,
      List.prefix_append _ _, List.prefix_refl _⟩
  | parsed c =>
    simp only [build, mkParsed] at hb
    cases hc : h.cmds[c]? with
    | none => simp [hc] at hb
    | some p =>
      simp only [hc, Option.map_some, Option.some.injEq] at hb
      subst hb
      refine ⟨push_inv h _ _ hi rfl ?_, List.prefix_append _ _,
        List.prefix_append _ _, List.prefix_refl _, List.prefix_append _ _⟩
      exact ⟨(List.getElem?_eq_some_iff.mp hc).1, by simp⟩

theorem runBuilds_inv : ∀ (bs : List (Build κ ω α)) (h h' : Heap κ ω α), h.Inv →
    runBuilds false h bs = some h' →
    h'.Inv ∧ h.nodes <+: h'.nodes ∧ h.lists <+: h'.lists ∧ h.cmds <+: h'.cmds ∧
      h.defIds <+: h'.defIds
  | [], h, h', hi, hr => by
    simp only [runBuilds, Option.some.injEq] at hr
    subst hr
    exact ⟨hi, List.prefix_refl _, List.prefix_refl _, List.prefix_refl _, List.prefix_refl _⟩
  | b :: bs, h, h', hi, hr => by
    simp only [runBuilds] at hr
    cases hb : build false h b with
    | none => simp [hb] at hr
    | some h1 =>
      simp only [hb, Option.bind_some] at hr
      obtain ⟨i1, p1, p2, p3, p4⟩ := build_inv h h1 b hi hb
      obtain ⟨i2, q1, q2, q3, q4⟩ := runBuilds_inv bs h1 h' i1 hr
      exact ⟨i2, p1.trans q1, p2.trans q2, p3.trans q3, p4.trans q4⟩

end build

/-! ### `remove_component` on the pointer table -/

section remove
variable {κ ω α : Type} [DecidableEq κ]

/-- Every entry of the component table is a stored / coordinate component or a pointer to a link
object (what `add_component` stores). -/
def PtrTable (t : HTable κ α) : Prop :=
  ∀ p ∈ t, (∃ a co, p.2 = Comp.prim a co) ∨ (∃ n, p.2 = ptr n)

theorem PtrTable.sub {t t' : HTable κ α} (h : PtrTable t) (hs : ∀ p ∈ t', p ∈ t) : PtrTable t' :=
  fun p hp => h p (hs p hp)

theorem resolve_keys (ids : NodeId → List κ) (t : HTable κ α) : (resolve ids t).keys = t.keys := by
  simp only [resolve, Table.keys, List.map_map]
  rfl

theorem resolve_length (ids : NodeId → List κ) (t : HTable κ α) : (resolve ids t).length = t.length := by
  simp [resolve]

theorem resolve_filter (ids : NodeId → List κ) (t : HTable κ α) (P : κ → Bool) :
    (resolve ids t).filter (fun p => P p.1) = resolve ids (t.filter fun p => P p.1) := by
  simp only [resolve, List.filter_map]
  rfl

theorem resolve_erase (ids : NodeId → List κ) (t : HTable κ α) (k : κ) :
    (resolve ids t).erase k = resolve ids (t.erase k) :=
  resolve_filter ids t (fun x => !(x == k))

def depPred (k : κ) (p : κ × Comp κ NodeId α) : Bool :=
  match p.2.fromIds with
  | some fs => fs.contains k
  | none => false

theorem dependOn_resolve (ids : NodeId → List κ) (t : HTable κ α) (k : κ) (hp : PtrTable t) :
    dependOn (resolve ids t) k = dependOnH ids t k := by
  have h0 : dependOn (resolve ids t) k = ((t.map (resolveE ids)).filter (depPred k)).map (·.1) := rfl
  have hcongr : ∀ p ∈ t, (depPred k ∘ resolveE ids) p = depPredH ids k p := by
    intro p hm
    rcases hp p hm with ⟨a, co, h2⟩ | ⟨n, h2⟩
    · simp [Function.comp, depPred, depPredH, resolveE, resolveC, h2, Comp.fromIds, nodeOf]
    · simp [Function.comp, depPred, depPredH, resolveE, resolveC, h2, ptr, Comp.fromIds,
        Link.fromIds, nodeOf]
  rw [h0, List.filter_map, List.map_map, List.filter_congr hcongr]
  rfl

theorem removeCompH_mem (ids : NodeId → List κ) : ∀ (fuel : Nat) (t : HTable κ α) (k : κ),
    ∀ p ∈ removeCompH ids fuel t k, p ∈ t
  | 0, _, _, p, hp => hp
  | fuel + 1, t, k, p, hp => by
    simp only [removeCompH] at hp
    by_cases hc : t.keys.contains k = true
    · simp only [hc, if_true] at hp
      have hfold : ∀ (ds : List κ) (acc : HTable κ α),
          p ∈ ds.foldl (fun acc d => removeCompH ids fuel acc d) acc → p ∈ acc := by
        intro ds
        induction ds with
        | nil => intro acc h; exact h
        | cons d ds ih =>
          intro acc h
          exact removeCompH_mem ids fuel acc d p (ih _ h)
      have := hfold _ _ hp
      exact (List.mem_filter.mp this).1
    · simp only [hc, if_false] at hp
      exact hp

/-- **Simulation**: `remove_component` on the pointer table, reading the inputs of each link object
through `ids`, is `remove_component` of the value table `resolve ids t`. -/
theorem resolve_removeCompH (ids : NodeId → List κ) : ∀ (fuel : Nat) (t : HTable κ α) (k : κ),
    PtrTable t → resolve ids (removeCompH ids fuel t k) = removeComp fuel (resolve ids t) k
  | 0, _, _, _ => rfl
  | fuel + 1, t, k, hp => by
    simp only [removeCompH, removeComp, resolve_keys]
    by_cases hc : t.keys.contains k = true
    · simp only [hc, if_true]
      have hp1 : PtrTable (t.erase k) := hp.sub fun q hq => (List.mem_filter.mp hq).1
      rw [resolve_erase, dependOn_resolve ids _ k hp1]
      have hfold : ∀ (ds : List κ) (acc : HTable κ α), PtrTable acc →
          resolve ids (ds.foldl (fun acc d => removeCompH ids fuel acc d) acc) =
            ds.foldl (fun acc d => removeComp fuel acc d) (resolve ids acc) := by
        intro ds
        induction ds with
        | nil => intro acc _; rfl
        | cons d ds ih =>
          intro acc hacc
          simp only [List.foldl_cons]
          rw [ih _ (hacc.sub (removeCompH_mem ids fuel acc d)),
            resolve_removeCompH ids fuel acc d hacc]
      exact hfold _ _ hp1
    · have hc' : t.keys.contains k = false := by simpa using hc
      simp only [hc']
      rfl

/-- On pointer tables `resolve` loses nothing. -/
theorem resolve_inj (ids : NodeId → List κ) : ∀ (a b : HTable κ α), PtrTable a → PtrTable b →
    resolve ids a = resolve ids b → a = b
  | [], [], _, _, _ => rfl
  | [], _ :: _, _, _, h => by simp [resolve] at h
  | _ :: _, [], _, _, h => by simp [resolve] at h
  | p :: a, q :: b, ha, hb, h => by
    simp only [resolve, List.map_cons, List.cons.injEq, resolveE] at h
    have ih := resolve_inj ids a b (ha.sub fun x hx => List.mem_cons_of_mem _ hx)
      (hb.sub fun x hx => List.mem_cons_of_mem _ hx) h.2
    have hpq : p = q := by
      obtain ⟨h1, h2⟩ := Prod.mk.inj h.1
      apply Prod.ext h1
      rcases ha p (List.mem_cons_self ..) with ⟨x, co, hx⟩ | ⟨n, hx⟩ <;>
        rcases hb q (List.mem_cons_self ..) with ⟨y, co', hy⟩ | ⟨m, hy⟩ <;>
        simp only [hx, hy, ptr, resolveC] at h2 ⊢
      · exact h2
      · cases h2
      · cases h2
      · simp only [Comp.derived.injEq, Link.func.injEq] at h2
        rw [h2.2.1]
    rw [hpq, ih]

/-- **`remove_component` through link objects removes the dependency closure and nothing else**:
on a pointer table, with the inputs of each link object read through `ids` (the list cells for the
Impl), the depth-first recursion returns exactly the entries — pointers included, in their order —
whose identifier is not in the dependency closure of the value table `resolve ids t`. -/
theorem removeCompH_eq_filter (ids : NodeId → List κ) (fuel : Nat) (t : HTable κ α) (k : κ)
    (hp : PtrTable t) (hf : t.length ≤ fuel) (hk : k ∈ t.keys) :
    removeCompH ids fuel t k =
      t.filter (fun p => !((depClosure (resolve ids t) k).contains p.1)) := by
  apply resolve_inj ids _ _ (hp.sub (removeCompH_mem ids fuel t k))
    (hp.sub fun q hq => (List.mem_filter.mp hq).1)
  rw [resolve_removeCompH ids fuel t k hp,
    removeComp_eq_filter fuel (resolve ids t) k (by rw [resolve_length]; exact hf)
      (by rw [resolve_keys]; exact hk)]
  exact resolve_filter ids t (fun x => !((depClosure (resolve ids t) k).contains x))

theorem removeCompH_absent (ids : NodeId → List κ) (fuel : Nat) (t : HTable κ α) (k : κ)
    (hk : k ∉ t.keys) : removeCompH ids fuel t k = t := by
  cases fuel with
  | zero => rfl
  | succ n =>
    have : t.keys.contains k = false := by simpa using hk
    simp only [removeCompH, this]
    rfl

/-- Under coherence the Impl reader (list cells) and the Spec reader (definitions) agree. -/
theorem cellIds_eq_specIds {h : Heap κ ω α} (hw : h.WF) (hc : h.Coherent) (n : NodeId) :
    h.cellIds n = h.specIds n := by
  simp only [Heap.cellIds, Heap.specIds, Heap.fromIds?]
  cases hn : h.nodes[n]? with
  | none =>
    have : h.defIds[n]? = none := by
      apply List.getElem?_eq_none
      rw [hw.defLen]
      exact Nat.le_of_not_lt fun hlt => by
        have := List.getElem?_eq_getElem hlt
        rw [hn] at this
        cases this
    simp [this]
  | some nd =>
    obtain ⟨ids, h1, h2⟩ := hc n nd hn
    simp [h1, h2]

end remove

/-! ### evaluation through link objects -/

section eval
variable {κ ω α : Type} [DecidableEq κ]

/-- `ComponentLink.compute` on inputs that all have the view's shape and the pointwise values `sp`. -/
theorem func_spec (fnf : List α → α) (rv : Bool) (S : List Nat) (get : κ → Except Err (Val α))
    (sp : List Nat → κ → Option α) (fs : List κ) (hne : fs ≠ [])
    (hleaf : ∀ k ∈ fs, ∃ v, get k = .ok v ∧ (v.IsS S ∧ ∀ idx, InB idx S → sp idx k = some (v.get idx))) :
    ∃ res, (match sequenceE (fs.map get) with
        | .error e => Except.error e
        | .ok args =>
          match linkCompute fnf rv args with
          | some r => .ok r
          | none => .error Err.shape) = .ok res ∧ res.IsS S ∧
      ∀ idx, InB idx S → (mapM' (sp idx) fs).map fnf = some (res.get idx) := by
  obtain ⟨args, hargs, hall⟩ := sequenceE_ok get
    (fun k' v => v.IsS S ∧ ∀ idx, InB idx S → sp idx k' = some (v.get idx)) fs hleaf
  have hargsne : args ≠ [] := all2_ne_nil hall hne
  have hspec : ∀ idx, InB idx S → mapM' (sp idx) fs = some (args.map (·.get idx)) :=
    fun idx hi => all2_mapM' hall (fun k' v hr => hr.2.2 idx hi)
  by_cases hS : S = []
  · have hsc : ∀ v ∈ args, v.isArr = false :=
      all2_forall (Q := fun v => v.isArr = false) hall (fun k' v hr => by
        have : ¬ (v.isArr = true) := fun ha => (hr.2.1.isArr_iff.mp ha) hS
        simpa using this)
    have hlc := linkCompute_scalars fnf rv args hargsne hsc
    refine ⟨.scalar (fnf (args.map (·.get []))), by simp [hargs, hlc], hS, ?_⟩
    intro idx hi
    simp only [hspec idx hi, Option.map_some, Val.get]
    rw [hS] at hi
    cases idx with
    | nil => rfl
    | cons i is => simp [InB] at hi
  · have har : ∀ v ∈ args, v.isArr = true :=
      all2_forall (Q := fun v => v.isArr = true) hall (fun k' v hr => hr.2.1.isArr_iff.mpr hS)
    obtain ⟨as, has⟩ := arrs_of args har
    have hasne : as ≠ [] := by
      intro h0; apply hargsne; rw [has, h0]; rfl
    have hasok : ∀ a ∈ as, a.shape = S ∧ a.WF := by
      intro a ha
      have hm : Val.arr a ∈ args := by rw [has]; exact List.mem_map.mpr ⟨a, ha, rfl⟩
      have := all2_forall (Q := fun v => v.IsS S) hall (fun _ _ hr => hr.2.1) _ hm
      exact ⟨this.1, this.2.1⟩
    obtain ⟨res, hres, hrs, hrw, hrat⟩ := linkCompute_arr fnf rv as S hasne hasok
    rw [← has] at hres
    refine ⟨.arr res, by simp [hargs, hres], ⟨hrs, hrw, hS⟩, ?_⟩
    intro idx hi
    simp only [hspec idx hi, Option.map_some, Val.get]
    rw [hrat idx hi, has, List.map_map]
    rfl

/-- `ParsedCommand.evaluate` on references that all have the view's shape. -/
theorem parsed_spec (opf : ω → α → α → α) (negf : α → α) (S : List Nat)
    (get : κ → Except Err (Val α)) (sp : List Nat → κ → Option α) (p : PExpr κ ω α)
    (hleaf : ∀ k ∈ p.refs, ∃ v, get k = .ok v ∧ (v.IsS S ∧ ∀ idx, InB idx S → sp idx k = some (v.get idx))) :
    ∃ res, (match p.evalWith opf negf get with
        | .ok r => Except.ok (parsedFinish S r)
        | .error e => .error e) = .ok res ∧ res.IsS S ∧
      ∀ idx, InB idx S → p.evalPt opf negf (sp idx) = some (res.get idx) := by
  have hleafArr : ∀ k' ∈ p.refs, leafArr get k' = decide (S ≠ []) := by
    intro k' hk'
    obtain ⟨v, hv', his, _⟩ := hleaf k' hk'
    simp only [leafArr, hv']
    by_cases hS : S = []
    · have : ¬ (v.isArr = true) := fun ha => (his.isArr_iff.mp ha) hS
      simp [hS]; simpa using this
    · simp [hS, his.isArr_iff.mpr hS]
  have hleafVal : ∀ idx, InB idx S → ∀ k' ∈ p.refs, sp idx k' = leafVal get idx k' := by
    intro idx hi k' hk'
    obtain ⟨v, hv', _, hsp⟩ := hleaf k' hk'
    simp [leafVal, hv', hsp idx hi]
  obtain ⟨res, hres, hok, hval, harr⟩ := pevalWith_leaf opf negf get S p (fun k' hk' => by
    obtain ⟨v, hv', his, _⟩ := hleaf k' hk'
    exact ⟨v, hv', his.okS⟩)
  have hfin := parsedFinish_spec S res hok (by
    intro ha
    rw [harr] at ha
    obtain ⟨k', hk', hka⟩ := List.any_eq_true.mp ha
    rw [hleafArr k' hk'] at hka
    simpa using hka)
  refine ⟨parsedFinish S res, by simp [hres], hfin.1, ?_⟩
  intro idx hi
  rw [PExpr.evalPt_congr opf negf _ _ p (hleafVal idx hi), hfin.2 idx hi]
  exact hval idx hi

def Opnd.isConst : Opnd κ α → Bool
  | .const _ => true
  | _ => false

/-- Well-formed data set of shape `D`: stored / coordinate components are arrays of shape `D` (any
strides); every binary link object has an operand that is not a number, every user-function link
object was defined with at least one input (`Model/Derived.TableOk` on objects). -/
structure StateOk (D : List Nat) (s : State κ ω α) : Prop where
  prim : ∀ k a co, s.t.find k = some (.prim a co) → a.shape = D ∧ a.WF
  bin : ∀ (n : Nat) (o : ω) (l r : Opnd κ α) (f : ListId),
    s.h.nodes[n]? = some (Node.binary o l r f) → ¬ (l.isConst = true ∧ r.isConst = true)
  fn : ∀ (n : Nat) (f : ω) (rv : Bool) (frm : ListId),
    s.h.nodes[n]? = some (Node.func f rv frm) → s.h.defIds[n]? ≠ some []

/-- What one operand of a binary link object evaluates to. -/
theorem evalOp_spec (S : List Nat) (ev : Tgt κ → Except Err (Val α)) (sp : List Nat → Tgt κ → Option α)
    (rs : Tgt κ → Bool)
    (ih : ∀ tgt, rs tgt = true → ∃ v, ev tgt = .ok v ∧ v.IsS S ∧
      ∀ idx, InB idx S → sp idx tgt = some (v.get idx))
    (o : Opnd κ α) (ho : opResolves rs o = true) :
    ∃ v, evalOp ev o = .ok v ∧ v.OkS S ∧
      (v.isArr = (!o.isConst && decide (S ≠ []))) ∧
      ∀ idx, InB idx S → specOp (sp idx) o = some (v.get idx) := by
  cases o with
  | const c =>
    exact ⟨.scalar c, rfl, trivial, by simp [Val.isArr, Opnd.isConst], fun _ _ => rfl⟩
  | cid k =>
    obtain ⟨v, hv, his, hsp⟩ := ih (.inl k) ho
    refine ⟨v, hv, his.okS, ?_, hsp⟩
    by_cases hS : S = []
    · have : ¬ (v.isArr = true) := fun ha => (his.isArr_iff.mp ha) hS
      simp [Opnd.isConst, hS]; simpa using this
    · simp [Opnd.isConst, hS, his.isArr_iff.mpr hS]
  | link m =>
    obtain ⟨v, hv, his, hsp⟩ := ih (.inr m) ho
    refine ⟨v, hv, his.okS, ?_, hsp⟩
    by_cases hS : S = []
    · have : ¬ (v.isArr = true) := fun ha => (his.isArr_iff.mp ha) hS
      simp [Opnd.isConst, hS]; simpa using this
    · simp [Opnd.isConst, hS, his.isArr_iff.mpr hS]

/-- **Evaluation through link objects is the defining expression, elementwise** — for every data
set whose link objects are coherent (`_from` cells = definitions), every view and every target
(component or link object) whose inputs resolve: `evalH` (the code: operands that are link objects
computed recursively, user functions fed from the `_from` list cell, commands from the shared
`ParsedCommand` object) succeeds, returns the view's shape and at every index the Spec value
`specH` at the data index the view addresses. -/
theorem evalH_spec (I : Interp ω α) (D : List Nat) (s : State κ ω α) (nv : List NAxis)
    (hok : StateOk D s) (hc : s.h.Coherent) (hv : nv.length = D.length) :
    ∀ (fuel : Nat) (tgt : Tgt κ), resolvesH fuel s tgt = true →
    ∃ res, evalH I nv (viewShapeN nv) fuel s tgt = .ok res ∧ res.IsS (viewShapeN nv) ∧
      ∀ idx, InB idx (viewShapeN nv) → specH I fuel s (vmapN nv idx) tgt = some (res.get idx)
  | 0, _, h => by simp [resolvesH] at h
  | fuel + 1, .inl k, h => by
    have ih := evalH_spec I D s nv hok hc hv fuel
    simp only [resolvesH] at h
    cases hf : s.t.find k with
    | none => simp [hf] at h
    | some c =>
      cases c with
      | prim a co =>
        have hc' := hok.prim k a co hf
        have hw : (applyViewN a nv).WF := by
          simp only [SArr.WF, applyViewN]
          exact viewStrides_length nv a.strides (by rw [hc'.2, hc'.1, hv])
        refine ⟨toVal (applyViewN a nv), by simp [evalH, hf], toVal_IsS _ hw, ?_⟩
        intro idx hi
        simp only [specH, hf]
        rw [toVal_get _ idx hi, applyViewN_at]
      | derived l =>
        cases l with
        | binary e => simp [hf] at h
        | parsed p => simp [hf] at h
        | func fs n rv =>
          simp only [hf] at h
          obtain ⟨res, hres, his, hsp⟩ := ih (.inr n) h
          exact ⟨res, by simp [evalH, hf, hres], his, fun idx hi => by simp [specH, hf, hsp idx hi]⟩
  | fuel + 1, .inr n, h => by
    have ih := evalH_spec I D s nv hok hc hv fuel
    simp only [resolvesH] at h
    cases hn : s.h.nodes[n]? with
    | none => simp [hn] at h
    | some nd =>
      cases nd with
      | binary o l r frm =>
        simp only [hn, Bool.and_eq_true] at h
        obtain ⟨a, ha, haok, haarr, haval⟩ := evalOp_spec (viewShapeN nv)
          (evalH I nv (viewShapeN nv) fuel s) (fun idx => specH I fuel s (vmapN nv idx))
          (resolvesH fuel s) ih l h.1
        obtain ⟨b, hb, hbok, hbarr, hbval⟩ := evalOp_spec (viewShapeN nv)
          (evalH I nv (viewShapeN nv) fuel s) (fun idx => specH I fuel s (vmapN nv idx))
          (resolvesH fuel s) ih r h.2
        obtain ⟨res, hres, hresok, hresarr, hresval⟩ :=
          binaryCompute_spec (I.opf o) a b (viewShapeN nv) haok hbok
        have hnc := hok.bin n o l r frm hn
        have hisS : res.IsS (viewShapeN nv) := by
          apply IsS_of hresok
          rw [hresarr, haarr, hbarr]
          by_cases hS : viewShapeN nv = []
          · simp [hS]
          · cases hl : l.isConst <;> cases hr : r.isConst <;> simp [hS]
            exact hnc ⟨hl, hr⟩
        refine ⟨res, by simp [evalH, hn, ha, hb, hres], hisS, ?_⟩
        intro idx hi
        simp only [specH, hn, haval idx hi, hbval idx hi, hresval idx hi]
      | func f rv frm =>
        simp only [hn] at h
        obtain ⟨ids, hcell, hdef⟩ := hc n _ hn
        simp only [Node.frm] at hcell
        simp only [hdef] at h
        have hne : ids ≠ [] := fun h0 => hok.fn n f rv frm hn (by rw [hdef, h0])
        obtain ⟨res, hres, his, hsp⟩ := func_spec (I.fnf f) rv (viewShapeN nv)
          (fun k => evalH I nv (viewShapeN nv) fuel s (.inl k))
          (fun idx k => specH I fuel s (vmapN nv idx) (.inl k)) ids hne
          (fun k hk => ih (.inl k) (List.all_eq_true.mp h k hk))
        refine ⟨res, by simp only [evalH, hn, hcell]; exact hres, his, ?_⟩
        intro idx hi
        simp only [specH, hn, hdef]
        exact hsp idx hi
      | parsed c frm =>
        simp only [hn] at h
        cases hp : s.h.cmds[c]? with
        | none => simp [hp] at h
        | some p =>
          simp only [hp] at h
          obtain ⟨res, hres, his, hsp⟩ := parsed_spec I.opf I.negf (viewShapeN nv)
            (fun k => evalH I nv (viewShapeN nv) fuel s (.inl k))
            (fun idx k => specH I fuel s (vmapN nv idx) (.inl k)) p
            (fun k hk => ih (.inl k) (List.all_eq_true.mp h k hk))
          refine ⟨res, by simp only [evalH, hn, hp]; exact hres, his, ?_⟩
          intro idx hi
          simp only [specH, hn, hp]
          exact hsp idx hi

end eval

/-! ### `replace_ids` in place -/

section replace
variable {κ ω α : Type} [DecidableEq κ]

theorem ren_idem (old new k : κ) : ren old new (ren old new k) = ren old new k := by
  unfold ren
  by_cases h : k = old
  · simp only [h, if_true]
    by_cases h2 : new = old <;> simp [h2]
  · simp [h]

theorem renL_idem (old new : κ) (l : List κ) :
    (l.map (ren old new)).map (ren old new) = l.map (ren old new) := by
  rw [List.map_map]
  apply List.map_congr_left
  intro k _
  exact ren_idem old new k

theorem Opnd.ren_idem (old new : κ) (o : Opnd κ α) : (o.ren old new).ren old new = o.ren old new := by
  cases o with
  | const c => rfl
  | cid k => simp only [Opnd.ren]; rw [DerivedHeap.ren_idem]
  | link m => rfl

theorem Node.ren_idem (old new : κ) (nd : Node κ ω α) : (nd.ren old new).ren old new = nd.ren old new := by
  cases nd with
  | binary o l r f => simp only [Node.ren]; rw [Opnd.ren_idem, Opnd.ren_idem]
  | func f rv frm => rfl
  | parsed c f => rfl

theorem PExpr.replace_idem (old new : κ) : ∀ (p : PExpr κ ω α),
    (p.replace old new).replace old new = p.replace old new
  | .num c => rfl
  | .ref k => by
    simp only [PExpr.replace]
    have := ren_idem old new k
    simp only [ren] at this
    exact congrArg PExpr.ref this
  | .neg e => by simp only [PExpr.replace]; rw [PExpr.replace_idem old new e]
  | .bin o l r => by
    simp only [PExpr.replace]; rw [PExpr.replace_idem old new l, PExpr.replace_idem old new r]

theorem Node.ren_frm (old new : κ) (nd : Node κ ω α) : (nd.ren old new).frm = nd.frm := by
  cases nd <;> rfl

/-- `h` is `h0` in which some objects / cells / commands / definitions have had `old` renamed to
`new` (each item is the original or the renamed original) — what any sequence of `replace_ids`
calls produces. -/
structure E (old new : κ) (h0 h : Heap κ ω α) : Prop where
  ln : h.nodes.length = h0.nodes.length
  ll : h.lists.length = h0.lists.length
  lc : h.cmds.length = h0.cmds.length
  ld : h.defIds.length = h0.defIds.length
  nodes : ∀ (i : Nat) (nd : Node κ ω α), h.nodes[i]? = some nd →
    ∃ nd0, h0.nodes[i]? = some nd0 ∧ (nd = nd0 ∨ nd = nd0.ren old new)
  lists : ∀ (i : Nat) (l : List κ), h.lists[i]? = some l →
    ∃ l0, h0.lists[i]? = some l0 ∧ (l = l0 ∨ l = l0.map (ren old new))
  cmds : ∀ (i : Nat) (p : PExpr κ ω α), h.cmds[i]? = some p →
    ∃ p0, h0.cmds[i]? = some p0 ∧ (p = p0 ∨ p = p0.replace old new)
  defs : ∀ (i : Nat) (l : List κ), h.defIds[i]? = some l →
    ∃ l0, h0.defIds[i]? = some l0 ∧ (l = l0 ∨ l = l0.map (ren old new))

theorem E.refl (old new : κ) (h : Heap κ ω α) : E old new h h :=
  ⟨rfl, rfl, rfl, rfl, fun _ nd hn => ⟨nd, hn, Or.inl rfl⟩, fun _ l hl => ⟨l, hl, Or.inl rfl⟩,
    fun _ p hp => ⟨p, hp, Or.inl rfl⟩, fun _ l hl => ⟨l, hl, Or.inl rfl⟩⟩

theorem modify_some {β : Type} (l : List β) (i j : Nat) (f : β → β) (y : β)
    (h : (l.modify i f)[j]? = some y) : ∃ x, l[j]? = some x ∧ y = if i = j then f x else x := by
  rw [List.getElem?_modify] at h
  cases hx : l[j]? with
  | none => simp [hx] at h
  | some x =>
    simp only [hx, Option.map_eq_map, Option.map_some, Option.some.injEq] at h
    exact ⟨x, rfl, h.symm⟩

theorem E.renList {old new : κ} {h0 h : Heap κ ω α} (e : E old new h0 h) (i : ListId) :
    E old new h0 (h.renList i old new) := by
  refine ⟨e.ln, by simp [Heap.renList, e.ll], e.lc, e.ld, e.nodes, ?_, e.cmds, e.defs⟩
  intro j l hl
  obtain ⟨x, hx, hy⟩ := modify_some _ _ _ _ _ hl
  obtain ⟨l0, h0l, hor⟩ := e.lists j x hx
  refine ⟨l0, h0l, ?_⟩
  by_cases hij : i = j
  · simp only [hij, if_true] at hy
    rcases hor with rfl | rfl
    · exact Or.inr hy
    · rw [hy, renL_idem]; exact Or.inr rfl
  · simp only [hij, if_false] at hy
    rw [hy]; exact hor

theorem E.renDef {old new : κ} {h0 h : Heap κ ω α} (e : E old new h0 h) (i : NodeId) :
    E old new h0 (h.renDef i old new) := by
  refine ⟨e.ln, e.ll, e.lc, by simp [Heap.renDef, e.ld], e.nodes, e.lists, e.cmds, ?_⟩
  intro j l hl
  obtain ⟨x, hx, hy⟩ := modify_some _ _ _ _ _ hl
  obtain ⟨l0, h0l, hor⟩ := e.defs j x hx
  refine ⟨l0, h0l, ?_⟩
  by_cases hij : i = j
  · simp only [hij, if_true] at hy
    rcases hor with rfl | rfl
    · exact Or.inr hy
    · rw [hy, renL_idem]; exact Or.inr rfl
  · simp only [hij, if_false] at hy
    rw [hy]; exact hor

theorem E.renCmd {old new : κ} {h0 h : Heap κ ω α} (e : E old new h0 h) (i : CmdId) :
    E old new h0 (h.renCmd i old new) := by
  refine ⟨e.ln, e.ll, by simp [Heap.renCmd, e.lc], e.ld, e.nodes, e.lists, ?_, e.defs⟩
  intro j p hp
  obtain ⟨x, hx, hy⟩ := modify_some _ _ _ _ _ hp
  obtain ⟨p0, h0p, hor⟩ := e.cmds j x hx
  refine ⟨p0, h0p, ?_⟩
  by_cases hij : i = j
  · simp only [hij, if_true] at hy
    rcases hor with rfl | rfl
    · exact Or.inr hy
    · rw [hy, PExpr.replace_idem]; exact Or.inr rfl
  · simp only [hij, if_false] at hy
    rw [hy]; exact hor

/-- Rebinding object `n` to the original or the renamed original. -/
theorem E.setNode {old new : κ} {h0 h : Heap κ ω α} (e : E old new h0 h) (n : NodeId)
    (x' nd0 : Node κ ω α) (h0n : h0.nodes[n]? = some nd0) (hor : x' = nd0 ∨ x' = nd0.ren old new) :
    E old new h0 (h.setNode n x') := by
  refine ⟨by simp [Heap.setNode, e.ln], e.ll, e.lc, e.ld, ?_, e.lists, e.cmds, e.defs⟩
  intro j x hx
  simp only [Heap.setNode, List.getElem?_set] at hx
  by_cases hnj : n = j
  · simp only [hnj, if_true] at hx
    by_cases hlt : j < h.nodes.length
    · simp only [hlt, if_true, Option.some.injEq] at hx
      exact ⟨nd0, hnj ▸ h0n, hx ▸ hor⟩
    · simp [hlt] at hx
  · simp only [hnj, if_false] at hx
    exact e.nodes j x hx

theorem ren_of_or {old new : κ} {nd nd0 : Node κ ω α} (hor : nd = nd0 ∨ nd = nd0.ren old new) :
    nd.ren old new = nd0.ren old new := by
  rcases hor with rfl | rfl
  · rfl
  · exact Node.ren_idem old new nd0

theorem replaceOp_E {old new : κ} {h0 : Heap κ ω α} (rec : Heap κ ω α → NodeId → Heap κ ω α)
    (hrec : ∀ h m, E old new h0 h → E old new h0 (rec h m)) (h : Heap κ ω α) (o : Opnd κ α)
    (e : E old new h0 h) : E old new h0 (replaceOp rec h o) := by
  cases o with
  | link m => exact hrec h m e
  | const c => exact e
  | cid k => exact e

/-- Whatever `replace_ids` visits, every item of the heap stays the original or becomes the renamed
original — in particular every object keeps its kind, its link operands, its list object and its
command object. -/
theorem replaceIds_E (old new : κ) (h0 : Heap κ ω α) : ∀ (fuel : Nat) (h : Heap κ ω α) (n : NodeId),
    E old new h0 h → E old new h0 (replaceIds old new fuel h n)
  | 0, _, _, e => e
  | fuel + 1, h, n, e => by
    simp only [replaceIds]
    cases hn : h.nodes[n]? with
    | none => exact e
    | some nd =>
      obtain ⟨nd0, h0n, hor⟩ := e.nodes n nd hn
      cases nd with
      | func f rv frm => exact (e.renList frm).renDef n
      | parsed c frm => exact ((e.renList frm).renDef n).renCmd c
      | binary o l r frm =>
        simp only
        have e0 : E old new h0 ((h.renList frm old new).renDef n old new) := (e.renList frm).renDef n
        have e1 := replaceOp_E (replaceIds old new fuel) (fun h m e => replaceIds_E old new h0 fuel h m e) _ l e0
        have e2 := replaceOp_E (replaceIds old new fuel) (fun h m e => replaceIds_E old new h0 fuel h m e) _ r e1
        exact e2.setNode n _ nd0 h0n (Or.inr (ren_of_or (nd := .binary o l r frm) hor))

theorem Opnd.ren_ok (old new : κ) (b : Nat) (o : Opnd κ α) (h : o.Ok b) : (o.ren old new).Ok b := by
  cases o <;> exact h

theorem E.wf {old new : κ} {h0 h : Heap κ ω α} (e : E old new h0 h) (hw : h0.WF) : h.WF := by
  refine ⟨by rw [e.ld, e.ln, hw.defLen], ?_⟩
  intro n nd hn
  obtain ⟨nd0, h0n, hor⟩ := e.nodes n nd hn
  have hk := hw.ok n nd0 h0n
  rcases hor with rfl | rfl
  · exact NodeOk.mono (h := h0) (by rw [e.ll]; exact Nat.le_refl _) (by rw [e.lc]; exact Nat.le_refl _) hk
  · apply NodeOk.mono (h := h0) (by rw [e.ll]; exact Nat.le_refl _) (by rw [e.lc]; exact Nat.le_refl _)
    cases nd0 with
    | binary o l r f => exact ⟨Opnd.ren_ok old new n l hk.1, Opnd.ren_ok old new n r hk.2.1, hk.2.2⟩
    | func f rv frm => exact hk
    | parsed c f => exact hk

theorem E.own {old new : κ} {h0 h : Heap κ ω α} (e : E old new h0 h) (ho : h0.Own) : h.Own := by
  refine ⟨by rw [e.ll, e.ln, ho.len], ?_⟩
  intro n nd hn
  obtain ⟨nd0, h0n, hor⟩ := e.nodes n nd hn
  rcases hor with rfl | rfl
  · exact ho.frm n nd h0n
  · rw [Node.ren_frm]; exact ho.frm n nd0 h0n

/-- Coherence is kept by every step of `replace_ids` **because no two link objects share a list
object**: the cell and the definition of the visited object are renamed together, the cells and
definitions of all other objects are not touched. -/
theorem coh_renPair {old new : κ} {h : Heap κ ω α} (ho : h.Own) (hc : h.Coherent) (n : NodeId)
    (nd : Node κ ω α) (hn : h.nodes[n]? = some nd) :
    ((h.renList nd.frm old new).renDef n old new).Coherent := by
  intro m x hx
  have hx' : h.nodes[m]? = some x := hx
  obtain ⟨ids, h1, h2⟩ := hc m x hx'
  have hfn : nd.frm = n := ho.frm n nd hn
  have hfm : x.frm = m := ho.frm m x hx'
  by_cases hmn : n = m
  · subst hmn
    refine ⟨ids.map (ren old new), ?_, ?_⟩
    · show (h.lists.modify nd.frm (·.map (ren old new)))[x.frm]? = _
      rw [List.getElem?_modify, h1, hfn, hfm]
      simp
    · show (h.defIds.modify n (·.map (ren old new)))[n]? = _
      rw [List.getElem?_modify, h2]
      simp
  · refine ⟨ids, ?_, ?_⟩
    · show (h.lists.modify nd.frm (·.map (ren old new)))[x.frm]? = _
      rw [List.getElem?_modify, h1, hfn, hfm]
      simp [hmn]
    · show (h.defIds.modify n (·.map (ren old new)))[m]? = _
      rw [List.getElem?_modify, h2]
      simp [hmn]

theorem replaceOp_coh {old new : κ} {h0 : Heap κ ω α} (ho : h0.Own)
    (rec : Heap κ ω α → NodeId → Heap κ ω α)
    (hrec : ∀ h m, E old new h0 h → h.Coherent → E old new h0 (rec h m) ∧ (rec h m).Coherent)
    (h : Heap κ ω α) (o : Opnd κ α) (e : E old new h0 h) (hc : h.Coherent) :
    E old new h0 (replaceOp rec h o) ∧ (replaceOp rec h o).Coherent := by
  cases o with
  | link m => exact hrec h m e hc
  | const c => exact ⟨e, hc⟩
  | cid k => exact ⟨e, hc⟩

theorem replaceIds_coh (old new : κ) (h0 : Heap κ ω α) (ho : h0.Own) :
    ∀ (fuel : Nat) (h : Heap κ ω α) (n : NodeId), E old new h0 h → h.Coherent →
      (replaceIds old new fuel h n).Coherent
  | 0, _, _, _, hc => hc
  | fuel + 1, h, n, e, hc => by
    simp only [replaceIds]
    cases hn : h.nodes[n]? with
    | none => exact hc
    | some nd =>
      have c0 := coh_renPair (old := old) (new := new) (e.own ho) hc n nd hn
      have e0 : E old new h0 ((h.renList nd.frm old new).renDef n old new) := (e.renList nd.frm).renDef n
      cases nd with
      | func f rv frm => exact c0
      | parsed c frm => exact fun m x hx => c0 m x hx
      | binary o l r frm =>
        simp only [Node.frm] at c0 e0
        simp only
        have hrec : ∀ h m, E old new h0 h → h.Coherent →
            E old new h0 (replaceIds old new fuel h m) ∧ (replaceIds old new fuel h m).Coherent :=
          fun h m e hc => ⟨replaceIds_E old new h0 fuel h m e, replaceIds_coh old new h0 ho fuel h m e hc⟩
        obtain ⟨e1, c1⟩ := replaceOp_coh ho (replaceIds old new fuel) hrec _ l e0 c0
        obtain ⟨e2, c2⟩ := replaceOp_coh ho (replaceIds old new fuel) hrec _ r e1 c1
        generalize replaceOp (replaceIds old new fuel)
          (replaceOp (replaceIds old new fuel) ((h.renList frm old new).renDef n old new) l) r = h2 at e2 c2
        -- rebinding the operands does not touch cells or definitions, and keeps `frm`
        intro m x hx
        simp only [Heap.setNode, List.getElem?_set] at hx
        by_cases hnm : n = m
        · subst hnm
          by_cases hlt : n < h2.nodes.length
          · simp only [if_true, hlt, Option.some.injEq] at hx
            obtain ⟨ids, i1, i2⟩ := c2 n _ (List.getElem?_eq_getElem hlt)
            have hyf : (h2.nodes[n]).frm = n := (e2.own ho).frm n _ (List.getElem?_eq_getElem hlt)
            have hxf : x.frm = n := by
              rw [← hx]; exact (e.own ho).frm n (.binary o l r frm) hn
            exact ⟨ids, by rw [hxf, ← hyf]; exact i1, i2⟩
          · simp [hlt] at hx
        · simp only [hnm, if_false] at hx
          exact c2 m x hx

end replace

end GlueVerif.DerivedHeap
