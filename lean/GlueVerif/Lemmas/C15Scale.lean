import GlueVerif.Lemmas.CoordsLinAlg
/-!
# C15 — the correlation pattern is exact and independent of the magnitudes

* `p2w_shift`: moving pixel coordinate `p` by `d` moves world coordinate `w` by exactly
  `M[w][p]·d` (any dimension);
* `corr_iff_depends`: `axis_correlation_matrix[w][p]` is set iff world coordinate `w` really depends
  on pixel coordinate `p` — for coefficients of *any* size (there is no threshold below which an
  entry counts as "no dependence");
* `corr_scale_eq`: multiplying every entry of the matrix by an arbitrary non-zero factor (one factor
  per entry: a change of units of a world axis scales a row, a change of pixel size a column) leaves
  the correlation pattern unchanged, hence everything computed from it.
-/
namespace GlueVerif.Lemmas.Coords
open GlueVerif.Coords
open Finset

theorem getD_set_eq (x : List Rat) (p j : Nat) (v : Rat) (hp : p < x.length) :
    (x.set p v).getD j 0 = if j = p then v else x.getD j 0 := by
  by_cases h : j = p
  · subst h; simp [List.getD, hp]
  · simp only [if_neg h, List.getD_eq_getElem?_getD, List.getElem?_set]
    rw [if_neg (fun e => h e.symm)]

/-- Moving pixel coordinate `p` by `d` moves world coordinate `w` by exactly `M[w][p]·d`. -/
theorem affApply_shift (n : Nat) (M : Mat) (x : List Rat) (hx : x.length = n) (w p : Nat) (hw : w < n)
    (hp : p < n) (d : Rat) :
    (affApply n M (x.set p (x.getD p 0 + d))).getD w 0 = (affApply n M x).getD w 0 + ent M w p * d := by
  rw [getD_affApply n M _ w hw, getD_affApply n M x w hw]
  have h : ∀ j ∈ range n, ent M w j * (x.set p (x.getD p 0 + d)).getD j 0
      = ent M w j * x.getD j 0 + (if j = p then ent M w p * d else 0) := by
    intro j _
    rw [getD_set_eq x p j _ (hx ▸ hp)]
    by_cases h : j = p
    · subst h; simp only [if_true]; ring
    · simp only [if_neg h]; ring
  rw [Finset.sum_congr rfl h, Finset.sum_add_distrib, Finset.sum_ite_eq' (range n) p, if_pos (mem_range.mpr hp)]
  ring

theorem getD_range_map_getD (n : Nat) (x : List Rat) (k : Nat) (hk : k < n) :
    ((List.range n).map fun k => x.getD k 0).getD k 0 = x.getD k 0 := by
  rw [getD_map_range, if_pos hk]

/-- `axis_correlation_matrix[w][p]` is set **iff** world coordinate `w` depends on pixel coordinate
`p`: there is a position and a displacement of pixel coordinate `p` alone that changes it.  Any
non-zero coefficient counts, whatever its size. -/
theorem corr_iff_depends (c : Coord) (w p : Nat) (hw : w < c.n) (hp : p < c.n) :
    c.corr w p = true ↔
      ∃ (x : List Rat) (d : Rat), x.length = c.n ∧
        (c.p2w (x.set p (x.getD p 0 + d))).getD w 0 ≠ (c.p2w x).getD w 0 := by
  cases c with
  | identity n =>
    simp only [Coord.n] at hw hp
    simp only [Coord.corr, Coord.p2w, Coord.n, beq_iff_eq]
    constructor
    · intro h
      subst h
      refine ⟨(List.range n).map (fun _ => (0 : Rat)), 1, by simp, ?_⟩
      rw [getD_range_map_getD n _ w hw, getD_range_map_getD n _ w hw,
        getD_set_eq _ w w _ (by simpa using hw)]
      simp
    · rintro ⟨x, d, hx, hne⟩
      by_contra hwp
      apply hne
      rw [getD_range_map_getD n _ w hw, getD_range_map_getD n _ w hw, getD_set_eq x p w _ (hx ▸ hp),
        if_neg hwp]
  | affine n m inv =>
    simp only [Coord.n] at hw hp
    simp only [Coord.corr, Coord.p2w, Coord.n, bne_iff_ne, ne_eq]
    constructor
    · intro h
      refine ⟨(List.range n).map (fun _ => (0 : Rat)), 1, by simp, ?_⟩
      rw [affApply_shift n m _ (by simp) w p hw hp 1]
      intro e
      apply h
      linarith
    · rintro ⟨x, d, hx, hne⟩ h0
      apply hne
      rw [affApply_shift n m x hx w p hw hp d, h0]
      ring

/-- Entrywise scaling by non-zero factors does not change the correlation pattern. -/
theorem corr_scale_eq (n : Nat) (m m' inv inv' : Mat) (s : Nat → Nat → Rat)
    (hs : ∀ w p, s w p ≠ 0) (hm : ∀ w p, ent m' w p = s w p * ent m w p) :
    (Coord.affine n m' inv').corr = (Coord.affine n m inv).corr := by
  funext w p
  show (ent m' w p != 0) = (ent m w p != 0)
  rw [hm w p]
  by_cases he : ent m w p = 0
  · rw [he, mul_zero]
  · have h2 : s w p * ent m w p ≠ 0 := mul_ne_zero (hs w p) he
    rw [bne_iff_ne.mpr he, bne_iff_ne.mpr h2]

/-- `dependent_axes` and `world_dep` are functions of the dimension and the correlation pattern only. -/
theorem dependentAxes_congr (c c' : Coord) (hn : c'.n = c.n) (hc : c'.corr = c.corr) (a : Nat) :
    Impl.dependentAxes c' a = Impl.dependentAxes c a := by
  simp only [Impl.dependentAxes, coupledAxes, hn, hc]

theorem worldDep_congr (c c' : Coord) (hn : c'.n = c.n) (hc : c'.corr = c.corr) (p : Nat) :
    Impl.worldDep c' p = Impl.worldDep c p := by
  funext w
  simp only [Impl.worldDep, coupledAxes, hn, hc]

end GlueVerif.Lemmas.Coords
