import GlueVerif.Lemmas.C13Undo
/-!
# C13 — helper lemmas, part 2: the command stack refines the list zipper

The invariant relates a model state to a zipper of observations through a *path of sessions*
`b₀ —c₁→ b₁ —c₂→ … —cₙ→ bₙ`: the commands on the command stack are the edges before the current
session, the commands on the undo stack the edges after it, and every edge satisfies both
`do c bᵢ₋₁ = (bᵢ, what c recorded)` and `undo c bᵢ = bᵢ₋₁`.  Core Lean only.
-/
namespace GlueVerif.Lemmas.C13
open GlueVerif.C13Undo

/-- One edge of the path. -/
structure Edge (b : Body) (c : Cmd) (b' : Body) : Prop where
  wfL : WF b
  wfR : WF b'
  fwd : cmdDo c.spec b = (b', c.saved)
  bwd : cmdUndo true c b' = b

/-- `Past b done bs`: `done` (most recent first) leads from the sessions `bs` (most recent first)
to `b`. -/
inductive Past : Body → List Cmd → List Body → Prop
  | nil (b : Body) : Past b [] []
  | cons {b0 b : Body} {c : Cmd} {cs : List Cmd} {bs : List Body} :
      Edge b0 c b → Past b0 cs bs → Past b (c :: cs) (b0 :: bs)

/-- `Fut b undone bs`: `undone` (next to redo first) leads from `b` through the sessions `bs`. -/
inductive Fut : Body → List Cmd → List Body → Prop
  | nil (b : Body) : Fut b [] []
  | cons {b b1 : Body} {c : Cmd} {cs : List Cmd} {bs : List Body} :
      Edge b c b1 → Fut b1 cs bs → Fut b (c :: cs) (b1 :: bs)

theorem Past.length_eq {b : Body} {cs : List Cmd} {bs : List Body} (h : Past b cs bs) :
    cs.length = bs.length := by
  induction h with
  | nil => rfl
  | cons _ _ ih => simp [ih]

theorem Fut.length_eq {b : Body} {cs : List Cmd} {bs : List Body} (h : Fut b cs bs) :
    cs.length = bs.length := by
  induction h with
  | nil => rfl
  | cons _ _ ih => simp [ih]

/-- forgetting the oldest commands (`_command_stack[-MAX_UNDO:]`) keeps a path. -/
theorem Past.take {b : Body} {cs : List Cmd} {bs : List Body} (h : Past b cs bs) (n : Nat) :
    Past b (cs.take n) (bs.take n) := by
  induction h generalizing n with
  | nil b => simpa using Past.nil b
  | cons e _ ih =>
    cases n with
    | zero => simpa using Past.nil _
    | succ n => simpa using Past.cons e (ih n)

/-- The refinement invariant. -/
def Inv (st : State) (z : Spec.Zipper Obs) : Prop :=
  WF st.body ∧ z.cur = observe st.body ∧
  ∃ pb fb, Past st.body st.done pb ∧ Fut st.body st.undone fb ∧
    z.past = pb.map observe ∧ z.future = fb.map observe

theorem inv_fresh (b : Body) (h : WF b) : Inv (fresh b) (Spec.Zipper.start (observe b)) :=
  ⟨h, rfl, [], [], Past.nil b, Fut.nil b, rfl, rfl⟩

/-- the observed step of the model. -/
def stepOf (st : State) (op : Op) : Spec.Step Obs :=
  let r := Impl.step st op
  ⟨letterOf op, r.2, observe r.1.body, r.1.done.length, r.1.undone.length⟩

def cleanOp (st : State) : Op → Bool
  | .do sp => clean sp st.body
  | _ => true

theorem inv_do (st : State) (z : Spec.Zipper Obs) (h : Inv st z) (sp : CmdSpec)
    (hc : clean sp st.body = true) :
    ∃ z', z.step (stepOf st (.do sp)) = some z' ∧ Inv (doCmd sp st) z' := by
  obtain ⟨hwf, hcur, pb, fb, hp, hf, hzp, hzf⟩ := h
  let c : Cmd := ⟨sp, (cmdDo sp st.body).2⟩
  have e : Edge st.body c (cmdDo sp st.body).1 :=
    ⟨hwf, wf_cmdDo sp st.body hwf, rfl, undo_cmdDo sp st.body hwf hc⟩
  have hp' : Past (cmdDo sp st.body).1 ((c :: st.done).take maxUndo) ((st.body :: pb).take maxUndo) :=
    (Past.cons e hp).take maxUndo
  refine ⟨⟨(z.cur :: z.past).take maxUndo, observe (cmdDo sp st.body).1, []⟩, ?_, ?_⟩
  · have hlen : ((c :: st.done).take maxUndo).length = ((z.cur :: z.past).take maxUndo).length := by
      rw [hp'.length_eq, hzp, hcur, ← List.map_cons, ← List.map_take, List.length_map]
    simp only [Spec.Zipper.step, stepOf, Impl.step, step, letterOf, doCmd]
    simp [hlen, c]
  · refine ⟨wf_cmdDo sp st.body hwf, rfl, (st.body :: pb).take maxUndo, [], hp', Fut.nil _, ?_, rfl⟩
    show (z.cur :: z.past).take maxUndo = _
    rw [hzp, hcur, ← List.map_cons, ← List.map_take]

theorem inv_undo (st : State) (z : Spec.Zipper Obs) (h : Inv st z) :
    ∃ z', z.step (stepOf st .undo) = some z' ∧ Inv (undoCmd true st).1 z' := by
  obtain ⟨hwf, hcur, pb, fb, hp, hf, hzp, hzf⟩ := h
  obtain ⟨body, done, undone⟩ := st
  cases hp with
  | nil =>
    refine ⟨z, ?_, ⟨hwf, hcur, [], fb, Past.nil _, hf, hzp, hzf⟩⟩
    obtain ⟨zp, zc, zf⟩ := z
    simp only at hzp hcur hzf
    subst hzp hcur hzf
    simp [Spec.Zipper.step, stepOf, Impl.step, step, letterOf, undoCmd, hf.length_eq]
  | @cons b0 _ c cs bs e hp' =>
    refine ⟨⟨bs.map observe, observe b0, z.cur :: z.future⟩, ?_, ?_⟩
    · obtain ⟨zp, zc, zf⟩ := z
      simp only at hzp hcur hzf
      subst hzp hcur hzf
      simp [Spec.Zipper.step, stepOf, Impl.step, step, letterOf, undoCmd, e.bwd, hf.length_eq,
        hp'.length_eq]
    · refine ⟨?_, ?_, bs, body :: fb, ?_, ?_, rfl, ?_⟩
      · show WF (cmdUndo true c body); rw [e.bwd]; exact e.wfL
      · show observe b0 = observe (cmdUndo true c body); rw [e.bwd]
      · show Past (cmdUndo true c body) cs bs; rw [e.bwd]; exact hp'
      · show Fut (cmdUndo true c body) (c :: undone) (body :: fb)
        rw [e.bwd]; exact Fut.cons e hf
      · show z.cur :: z.future = _
        rw [hcur, hzf]; rfl

theorem inv_redo (st : State) (z : Spec.Zipper Obs) (h : Inv st z) :
    ∃ z', z.step (stepOf st .redo) = some z' ∧ Inv (redoCmd st).1 z' := by
  obtain ⟨hwf, hcur, pb, fb, hp, hf, hzp, hzf⟩ := h
  obtain ⟨body, done, undone⟩ := st
  cases hf with
  | nil =>
    refine ⟨z, ?_, ⟨hwf, hcur, pb, [], hp, Fut.nil _, hzp, hzf⟩⟩
    obtain ⟨zp, zc, zf⟩ := z
    simp only at hzp hcur hzf
    subst hzp hcur hzf
    simp [Spec.Zipper.step, stepOf, Impl.step, step, letterOf, redoCmd, hp.length_eq]
  | @cons _ b1 c cs bs e hf' =>
    have hfwd : cmdDo c.spec body = (b1, c.saved) := e.fwd
    refine ⟨⟨z.cur :: z.past, observe b1, bs.map observe⟩, ?_, ?_⟩
    · obtain ⟨zp, zc, zf⟩ := z
      simp only at hzp hcur hzf
      subst hzp hcur hzf
      simp [Spec.Zipper.step, stepOf, Impl.step, step, letterOf, redoCmd, hfwd, hf'.length_eq,
        hp.length_eq]
    · refine ⟨?_, ?_, body :: pb, bs, ?_, ?_, ?_, rfl⟩
      · show WF (cmdDo c.spec body).1; rw [hfwd]; exact e.wfR
      · show observe b1 = observe (cmdDo c.spec body).1; rw [hfwd]
      · show Past (cmdDo c.spec body).1 (⟨c.spec, (cmdDo c.spec body).2⟩ :: done) (body :: pb)
        rw [hfwd]; exact Past.cons e hp
      · show Fut (cmdDo c.spec body).1 cs bs; rw [hfwd]; exact hf'
      · show z.cur :: z.past = _
        rw [hcur, hzp]; rfl

theorem inv_step (st : State) (z : Spec.Zipper Obs) (h : Inv st z) (op : Op)
    (hc : cleanOp st op = true) :
    ∃ z', z.step (stepOf st op) = some z' ∧ Inv (Impl.step st op).1 z' := by
  cases op with
  | «do» sp => exact inv_do st z h sp hc
  | undo => exact inv_undo st z h
  | redo => exact inv_redo st z h

theorem cleanWord_cons (st : State) (op : Op) (w : List Op) :
    cleanWord true st (op :: w) = (cleanOp st op && cleanWord true (Impl.step st op).1 w) := by
  cases op <;> rfl

/-- any clean history, from any state related to a zipper: the zipper accepts the model's trace
and the relation holds again at the end. -/
theorem inv_run (w : List Op) (st : State) (z : Spec.Zipper Obs) (h : Inv st z)
    (hc : cleanWord true st w = true) :
    ∃ z', z.run (Impl.trace st w) = some z' ∧ Inv (Impl.run st w) z' := by
  induction w generalizing st z with
  | nil => exact ⟨z, rfl, h⟩
  | cons op rest ih =>
    rw [cleanWord_cons, Bool.and_eq_true] at hc
    obtain ⟨z1, hz1, hinv1⟩ := inv_step st z h op hc.1
    obtain ⟨z2, hz2, hinv2⟩ := ih (Impl.step st op).1 z1 hinv1 hc.2
    refine ⟨z2, ?_, ?_⟩
    · show Spec.Zipper.run z (stepOf st op :: Impl.trace (Impl.step st op).1 rest) = some z2
      simp only [Spec.Zipper.run, hz1]
      exact hz2
    · exact hinv2

/-- in a state on the path, `redo` after `undo` gives the very same state back … -/
theorem redo_undo_of_inv (st : State) (z : Spec.Zipper Obs) (h : Inv st z) (hne : st.done ≠ []) :
    (undoCmd true st).2 = false ∧ (redoCmd (undoCmd true st).1) = (st, false) := by
  obtain ⟨hwf, hcur, pb, fb, hp, hf, hzp, hzf⟩ := h
  obtain ⟨body, done, undone⟩ := st
  cases hp with
  | nil => exact absurd rfl hne
  | @cons b0 _ c cs bs e hp' =>
    have hfwd : cmdDo c.spec b0 = (body, c.saved) := e.fwd
    simp [undoCmd, redoCmd, e.bwd, hfwd]

/-- … and `undo` after `redo` too. -/
theorem undo_redo_of_inv (st : State) (z : Spec.Zipper Obs) (h : Inv st z) (hne : st.undone ≠ []) :
    (redoCmd st).2 = false ∧ (undoCmd true (redoCmd st).1) = (st, false) := by
  obtain ⟨hwf, hcur, pb, fb, hp, hf, hzp, hzf⟩ := h
  obtain ⟨body, done, undone⟩ := st
  cases hf with
  | nil => exact absurd rfl hne
  | @cons _ b1 c cs bs e hf' =>
    have hfwd : cmdDo c.spec body = (b1, c.saved) := e.fwd
    simp [undoCmd, redoCmd, e.bwd, hfwd]

/-! ## the bound on the stacks (no hypothesis on the commands, either version of the code) -/

theorem bound_step (fixed : Bool) (st : State) (op : Op)
    (h : st.done.length + st.undone.length ≤ maxUndo) :
    (step fixed st op).1.done.length + (step fixed st op).1.undone.length ≤ maxUndo := by
  cases op with
  | «do» sp =>
    simp only [step, doCmd, List.length_take, List.length_nil]
    omega
  | undo =>
    simp only [step, undoCmd]
    split
    · exact h
    · next c rest hd => simp only [hd] at h; simp only [List.length_cons] at h ⊢; omega
  | redo =>
    simp only [step, redoCmd]
    split
    · exact h
    · next c rest hd => simp only [hd] at h; simp only [List.length_cons] at h ⊢; omega

theorem bound_run (fixed : Bool) (w : List Op) (st : State)
    (h : st.done.length + st.undone.length ≤ maxUndo) :
    (run fixed st w).done.length + (run fixed st w).undone.length ≤ maxUndo := by
  induction w generalizing st with
  | nil => exact h
  | cons op rest ih => exact ih _ (bound_step fixed st op h)

end GlueVerif.Lemmas.C13
