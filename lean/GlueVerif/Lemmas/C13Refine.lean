import GlueVerif.Lemmas.C13Undo
/-!
# C13 — helper lemmas, part 2: the command stack refines the list zipper

The invariant relates a model state to a zipper of observations through a *path of sessions*
`b₀ —c₁→ b₁ —c₂→ … —cₙ→ bₙ`: the commands on the command stack are the edges before the current
session, the commands on the undo stack the edges after it, and every edge satisfies both
`do c bᵢ₋₁ = (bᵢ, what c recorded)` and `undo c bᵢ = bᵢ₋₁`.  Core Lean only.
-/
namespace GlueVerif.Lemmas.C13
open GlueVerif.C13Undo

/-- One edge of the path. -/
structure Edge (S : Sem) (b : Body) (c : Cmd) (b' : Body) : Prop where
  wfL : WF b
  wfR : WF b'
  fwd : S.doF c.spec b = (b', c.saved)
  bwd : S.undoF c b' = b

/-- A semantics keeps sessions well-formed and undoes exactly every command that satisfies `cl`. -/
structure Exact (S : Sem) (cl : CmdSpec → Body → Bool) : Prop where
  wf : ∀ sp b, WF b → WF (S.doF sp b).1
  inv : ∀ sp b, WF b → cl sp b = true → S.undoF ⟨sp, (S.doF sp b).2⟩ (S.doF sp b).1 = b

/-- `Past b done bs`: `done` (most recent first) leads from the sessions `bs` (most recent first)
to `b`. -/
inductive Past (S : Sem) : Body → List Cmd → List Body → Prop
  | nil (b : Body) : Past S b [] []
  | cons {b0 b : Body} {c : Cmd} {cs : List Cmd} {bs : List Body} :
      Edge S b0 c b → Past S b0 cs bs → Past S b (c :: cs) (b0 :: bs)

/-- `Fut b undone bs`: `undone` (next to redo first) leads from `b` through the sessions `bs`. -/
inductive Fut (S : Sem) : Body → List Cmd → List Body → Prop
  | nil (b : Body) : Fut S b [] []
  | cons {b b1 : Body} {c : Cmd} {cs : List Cmd} {bs : List Body} :
      Edge S b c b1 → Fut S b1 cs bs → Fut S b (c :: cs) (b1 :: bs)

theorem Past.length_eq {S : Sem} {b : Body} {cs : List Cmd} {bs : List Body} (h : Past S b cs bs) :
    cs.length = bs.length := by
  induction h with
  | nil => rfl
  | cons _ _ ih => simp [ih]

theorem Fut.length_eq {S : Sem} {b : Body} {cs : List Cmd} {bs : List Body} (h : Fut S b cs bs) :
    cs.length = bs.length := by
  induction h with
  | nil => rfl
  | cons _ _ ih => simp [ih]

/-- forgetting the oldest commands (`_command_stack[-MAX_UNDO:]`) keeps a path. -/
theorem Past.take {S : Sem} {b : Body} {cs : List Cmd} {bs : List Body} (h : Past S b cs bs) (n : Nat) :
    Past S b (cs.take n) (bs.take n) := by
  induction h generalizing n with
  | nil b => simpa using Past.nil b
  | cons e _ ih =>
    cases n with
    | zero => simpa using Past.nil _
    | succ n => simpa using Past.cons e (ih n)

/-- The refinement invariant. -/
def Inv (S : Sem) (st : State) (z : Spec.Zipper Obs) : Prop :=
  WF st.body ∧ z.cur = observe st.body ∧
  ∃ pb fb, Past S st.body st.done pb ∧ Fut S st.body st.undone fb ∧
    z.past = pb.map observe ∧ z.future = fb.map observe

theorem inv_fresh (S : Sem) (b : Body) (h : WF b) : Inv S (fresh b) (Spec.Zipper.start (observe b)) :=
  ⟨h, rfl, [], [], Past.nil b, Fut.nil b, rfl, rfl⟩

/-- the observed step of the model. -/
def stepOf (S : Sem) (st : State) (op : Op) : Spec.Step Obs :=
  let r := S.step st op
  ⟨letterOf op, r.2, observe r.1.body, r.1.done.length, r.1.undone.length⟩

def cleanOp (cl : CmdSpec → Body → Bool) (st : State) : Op → Bool
  | .do sp => cl sp st.body
  | _ => true

theorem inv_do {S : Sem} {cl : CmdSpec → Body → Bool} (hS : Exact S cl) (st : State)
    (z : Spec.Zipper Obs) (h : Inv S st z) (sp : CmdSpec) (hc : cl sp st.body = true) :
    ∃ z', z.step (stepOf S st (.do sp)) = some z' ∧ Inv S (S.doCmd sp st) z' := by
  obtain ⟨hwf, hcur, pb, fb, hp, hf, hzp, hzf⟩ := h
  let c : Cmd := ⟨sp, (S.doF sp st.body).2⟩
  have e : Edge S st.body c (S.doF sp st.body).1 :=
    ⟨hwf, hS.wf sp st.body hwf, rfl, hS.inv sp st.body hwf hc⟩
  have hp' : Past S (S.doF sp st.body).1 ((c :: st.done).take maxUndo) ((st.body :: pb).take maxUndo) :=
    (Past.cons e hp).take maxUndo
  refine ⟨⟨(z.cur :: z.past).take maxUndo, observe (S.doF sp st.body).1, []⟩, ?_, ?_⟩
  · have hlen : ((c :: st.done).take maxUndo).length = ((z.cur :: z.past).take maxUndo).length := by
      rw [hp'.length_eq, hzp, hcur, ← List.map_cons, ← List.map_take, List.length_map]
    simp only [Spec.Zipper.step, stepOf, Sem.step, letterOf, Sem.doCmd]
    simp [hlen, c]
  · refine ⟨hS.wf sp st.body hwf, rfl, (st.body :: pb).take maxUndo, [], hp', Fut.nil _, ?_, rfl⟩
    show (z.cur :: z.past).take maxUndo = _
    rw [hzp, hcur, ← List.map_cons, ← List.map_take]

theorem inv_undo (S : Sem) (st : State) (z : Spec.Zipper Obs) (h : Inv S st z) :
    ∃ z', z.step (stepOf S st .undo) = some z' ∧ Inv S (S.undoCmd st).1 z' := by
  obtain ⟨hwf, hcur, pb, fb, hp, hf, hzp, hzf⟩ := h
  obtain ⟨body, done, undone⟩ := st
  cases hp with
  | nil =>
    refine ⟨z, ?_, ⟨hwf, hcur, [], fb, Past.nil _, hf, hzp, hzf⟩⟩
    obtain ⟨zp, zc, zf⟩ := z
    simp only at hzp hcur hzf
    subst hzp hcur hzf
    simp [Spec.Zipper.step, stepOf, Sem.step, letterOf, Sem.undoCmd, hf.length_eq]
  | @cons b0 _ c cs bs e hp' =>
    refine ⟨⟨bs.map observe, observe b0, z.cur :: z.future⟩, ?_, ?_⟩
    · obtain ⟨zp, zc, zf⟩ := z
      simp only at hzp hcur hzf
      subst hzp hcur hzf
      simp [Spec.Zipper.step, stepOf, Sem.step, letterOf, Sem.undoCmd, e.bwd, hf.length_eq,
        hp'.length_eq]
    · refine ⟨?_, ?_, bs, body :: fb, ?_, ?_, rfl, ?_⟩
      · show WF (S.undoF c body); rw [e.bwd]; exact e.wfL
      · show observe b0 = observe (S.undoF c body); rw [e.bwd]
      · show Past S (S.undoF c body) cs bs; rw [e.bwd]; exact hp'
      · show Fut S (S.undoF c body) (c :: undone) (body :: fb)
        rw [e.bwd]; exact Fut.cons e hf
      · show z.cur :: z.future = _
        rw [hcur, hzf]; rfl

theorem inv_redo (S : Sem) (st : State) (z : Spec.Zipper Obs) (h : Inv S st z) :
    ∃ z', z.step (stepOf S st .redo) = some z' ∧ Inv S (S.redoCmd st).1 z' := by
  obtain ⟨hwf, hcur, pb, fb, hp, hf, hzp, hzf⟩ := h
  obtain ⟨body, done, undone⟩ := st
  cases hf with
  | nil =>
    refine ⟨z, ?_, ⟨hwf, hcur, pb, [], hp, Fut.nil _, hzp, hzf⟩⟩
    obtain ⟨zp, zc, zf⟩ := z
    simp only at hzp hcur hzf
    subst hzp hcur hzf
    simp [Spec.Zipper.step, stepOf, Sem.step, letterOf, Sem.redoCmd, hp.length_eq]
  | @cons _ b1 c cs bs e hf' =>
    have hfwd : S.doF c.spec body = (b1, c.saved) := e.fwd
    refine ⟨⟨z.cur :: z.past, observe b1, bs.map observe⟩, ?_, ?_⟩
    · obtain ⟨zp, zc, zf⟩ := z
      simp only at hzp hcur hzf
      subst hzp hcur hzf
      simp [Spec.Zipper.step, stepOf, Sem.step, letterOf, Sem.redoCmd, hfwd, hf'.length_eq,
        hp.length_eq]
    · refine ⟨?_, ?_, body :: pb, bs, ?_, ?_, ?_, rfl⟩
      · show WF (S.doF c.spec body).1; rw [hfwd]; exact e.wfR
      · show observe b1 = observe (S.doF c.spec body).1; rw [hfwd]
      · show Past S (S.doF c.spec body).1 (⟨c.spec, (S.doF c.spec body).2⟩ :: done) (body :: pb)
        rw [hfwd]; exact Past.cons e hp
      · show Fut S (S.doF c.spec body).1 cs bs; rw [hfwd]; exact hf'
      · show z.cur :: z.past = _
        rw [hcur, hzp]; rfl

theorem inv_step {S : Sem} {cl : CmdSpec → Body → Bool} (hS : Exact S cl) (st : State)
    (z : Spec.Zipper Obs) (h : Inv S st z) (op : Op) (hc : cleanOp cl st op = true) :
    ∃ z', z.step (stepOf S st op) = some z' ∧ Inv S (S.step st op).1 z' := by
  cases op with
  | «do» sp => exact inv_do hS st z h sp hc
  | undo => exact inv_undo S st z h
  | redo => exact inv_redo S st z h

theorem cleanWord_cons (S : Sem) (cl : CmdSpec → Body → Bool) (st : State) (op : Op) (w : List Op) :
    S.cleanWord cl st (op :: w) = (cleanOp cl st op && S.cleanWord cl (S.step st op).1 w) := by
  cases op <;> rfl

/-- any clean history, from any state related to a zipper: the zipper accepts the model's trace
and the relation holds again at the end. -/
theorem inv_run {S : Sem} {cl : CmdSpec → Body → Bool} (hS : Exact S cl) (w : List Op) (st : State)
    (z : Spec.Zipper Obs) (h : Inv S st z) (hc : S.cleanWord cl st w = true) :
    ∃ z', z.run (S.trace st w) = some z' ∧ Inv S (S.run st w) z' := by
  induction w generalizing st z with
  | nil => exact ⟨z, rfl, h⟩
  | cons op rest ih =>
    rw [cleanWord_cons, Bool.and_eq_true] at hc
    obtain ⟨z1, hz1, hinv1⟩ := inv_step hS st z h op hc.1
    obtain ⟨z2, hz2, hinv2⟩ := ih (S.step st op).1 z1 hinv1 hc.2
    refine ⟨z2, ?_, ?_⟩
    · show Spec.Zipper.run z (stepOf S st op :: S.trace (S.step st op).1 rest) = some z2
      simp only [Spec.Zipper.run, hz1]
      exact hz2
    · exact hinv2

theorem cleanWord_true (S : Sem) (st : State) (w : List Op) :
    S.cleanWord (fun _ _ => true) st w = true := by
  induction w generalizing st with
  | nil => rfl
  | cons op rest ih => cases op <;> simp [Sem.cleanWord, ih]

/-- in a state on the path, `redo` after `undo` gives the very same state back … -/
theorem redo_undo_of_inv (S : Sem) (st : State) (z : Spec.Zipper Obs) (h : Inv S st z)
    (hne : st.done ≠ []) :
    (S.undoCmd st).2 = false ∧ (S.redoCmd (S.undoCmd st).1) = (st, false) := by
  obtain ⟨hwf, hcur, pb, fb, hp, hf, hzp, hzf⟩ := h
  obtain ⟨body, done, undone⟩ := st
  cases hp with
  | nil => exact absurd rfl hne
  | @cons b0 _ c cs bs e hp' =>
    have hfwd : S.doF c.spec b0 = (body, c.saved) := e.fwd
    simp [Sem.undoCmd, Sem.redoCmd, e.bwd, hfwd]

/-- … and `undo` after `redo` too. -/
theorem undo_redo_of_inv (S : Sem) (st : State) (z : Spec.Zipper Obs) (h : Inv S st z)
    (hne : st.undone ≠ []) :
    (S.redoCmd st).2 = false ∧ (S.undoCmd (S.redoCmd st).1) = (st, false) := by
  obtain ⟨hwf, hcur, pb, fb, hp, hf, hzp, hzf⟩ := h
  obtain ⟨body, done, undone⟩ := st
  cases hf with
  | nil => exact absurd rfl hne
  | @cons _ b1 c cs bs e hf' =>
    have hfwd : S.doF c.spec body = (b1, c.saved) := e.fwd
    simp [Sem.undoCmd, Sem.redoCmd, e.bwd, hfwd]

/-! ## the bound on the stacks (no hypothesis on the commands, either version of the code) -/

theorem bound_step (S : Sem) (st : State) (op : Op)
    (h : st.done.length + st.undone.length ≤ maxUndo) :
    (S.step st op).1.done.length + (S.step st op).1.undone.length ≤ maxUndo := by
  cases op with
  | «do» sp =>
    simp only [Sem.step, Sem.doCmd, List.length_take, List.length_nil]
    omega
  | undo =>
    simp only [Sem.step, Sem.undoCmd]
    split
    · exact h
    · next c rest hd => simp only [hd] at h; simp only [List.length_cons] at h ⊢; omega
  | redo =>
    simp only [Sem.step, Sem.redoCmd]
    split
    · exact h
    · next c rest hd => simp only [hd] at h; simp only [List.length_cons] at h ⊢; omega

theorem bound_run (S : Sem) (w : List Op) (st : State)
    (h : st.done.length + st.undone.length ≤ maxUndo) :
    (S.run st w).done.length + (S.run st w).undone.length ≤ maxUndo := by
  induction w generalizing st with
  | nil => exact h
  | cons op rest ih => exact ih _ (bound_step S st op h)

/-! ## the two semantics the theorems are about -/

theorem impl_exact : Exact Impl (fun _ _ => true) :=
  ⟨fun sp b h => wf_cmdDo sp b h, fun sp b h _ => undo_cmdDo sp b h⟩

theorem pre_exact : Exact PreF4b clean :=
  ⟨fun sp b h => wf_pre_cmdDo sp b h, fun sp b h hc => pre_undo_cmdDo sp b h hc⟩

end GlueVerif.Lemmas.C13
