import GlueVerif.Model.C16Links
import GlueVerif.Lemmas.CoordsLinks
/-!
# C16 — leaves built from coordinate objects are well-formed

The `dimensions` reported for a world coordinate of the reference dataset
(`dependent_axes(coords, a)`, the repaired closure of C15) contain every pixel axis with a non-zero
coefficient: this is C15's `need_subset_dependentAxes`, restated for the `translate_pixel` leaf.
-/
namespace GlueVerif.Lemmas.C16
open GlueVerif GlueVerif.FRB GlueVerif.Coords

theorem worldLeaf_wf (c : Coord) (a : Nat) (ha : a < c.n) : (worldLeaf c a).wf = true := by
  have hneed := Lemmas.Coords.need_subset_dependentAxes c a ha
  simp only [needSubset, List.all_eq_true, List.mem_range, Bool.or_eq_true, Bool.not_eq_true'] at hneed
  cases c with
  | identity n =>
    simp only [worldLeaf, Deriv.wf, coefsCovered, List.length_map, List.length_range, List.all_eq_true,
      List.mem_range, Bool.or_eq_true, beq_iff_eq]
    intro j hj
    simp only [Coord.n] at hj ha hneed ⊢
    by_cases hja : j = a
    · right
      rcases hneed j hj with h | h
      · simp [Coord.corr, hja] at h
      · exact h
    · left
      simp [List.getD, hj, hja]
  | affine n m inv =>
    simp only [worldLeaf, Deriv.wf, coefsCovered, List.length_map, List.length_range, List.all_eq_true,
      List.mem_range, Bool.or_eq_true, beq_iff_eq]
    intro j hj
    simp only [Coord.n] at hj ha hneed ⊢
    rcases hneed j hj with h | h
    · left
      simp only [Coord.corr, bne_eq_false_iff_eq] at h
      simp [List.getD, hj, h]
    · right; exact h

theorem wfList_map_of_forall (xs : List Nat) (f : Nat → Deriv) (h : ∀ i, i ∈ xs → (f i).wf = true) :
    Deriv.wfList (xs.map f) = true := by
  induction xs with
  | nil => rfl
  | cons x xs ih =>
    simp only [List.map_cons, Deriv.wfList, Bool.and_eq_true]
    exact ⟨h x (by simp), ih (fun i hi => h i (by simp [hi]))⟩

/-- A world→pixel link node is well-formed when the derivations of its inputs are. -/
theorem w2pNode_wf (c : Coord) (k : Nat) (froms : List (Nat × Deriv))
    (h : ∀ i d, (i, d) ∈ froms → d.wf = true) : (w2pNode c k froms).wf = true := by
  simp only [w2pNode, Deriv.wf]
  apply wfList_map_of_forall
  intro i _
  cases hl : froms.lookup i with
  | none => rfl
  | some d =>
    simp only [Option.getD_some]
    have : (i, d) ∈ froms := by
      clear h
      induction froms with
      | nil => simp at hl
      | cons p ps ih =>
        obtain ⟨i', d'⟩ := p
        simp only [List.lookup] at hl
        split at hl
        · rename_i heq
          cases hl
          have : i = i' := by simpa using heq
          subst this; simp
        · simp [ih hl]
    exact h i d this

end GlueVerif.Lemmas.C16
