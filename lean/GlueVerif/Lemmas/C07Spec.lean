import GlueVerif.Model.C07Hub
/-!
# C07 — properties of the delivery specification `Spec`

Everything is by induction on the fuel (or on the target / message list), for all programs,
handler tables, subscription tables and nesting levels.
-/
namespace GlueVerif.C07Hub.Lemmas
open GlueVerif.C07Hub

/-! ## `seq` algebra -/

theorem seq_ok {σ} (s : σ) (k : σ → Out σ) : seq (s, [], .ok) k = k s := by
  simp [seq]

theorem seq_nil_right {σ} (o : Out σ) : seq o (fun s => (s, [], .ok)) = o := by
  unfold seq
  split
  · rename_i h
    simp only [List.append_nil]
    exact Prod.ext rfl (Prod.ext rfl h.symm)
  · rfl

theorem seq_assoc {σ} (o : Out σ) (k1 k2 : σ → Out σ) :
    seq (seq o k1) k2 = seq o (fun s => seq (k1 s) k2) := by
  unfold seq
  by_cases h : o.2.2 = .ok
  · by_cases h' : (k1 o.1).2.2 = .ok
    · simp [h, h', List.append_assoc]
    · simp [h, h']
  · simp [h]

theorem seq_res_ok {σ} {o : Out σ} {k : σ → Out σ} (h : (seq o k).2.2 = .ok) :
    o.2.2 = .ok ∧ (k o.1).2.2 = .ok := by
  unfold seq at h
  by_cases h' : o.2.2 = .ok
  · simp only [h', if_true] at h
    exact ⟨h', h⟩
  · simp only [h', if_false] at h
    first | done | exact absurd h h'

theorem seq_events_ok {σ} {o : Out σ} {k : σ → Out σ} (h : o.2.2 = .ok) :
    (seq o k).2.1 = o.2.1 ++ (k o.1).2.1 := by
  simp [seq, h]

theorem seq_state_ok {σ} {o : Out σ} {k : σ → Out σ} (h : o.2.2 = .ok) :
    (seq o k).1 = (k o.1).1 := by
  simp [seq, h]

theorem mem_seq_events {σ} {o : Out σ} {k : σ → Out σ} {e : Ev} (h : e ∈ (seq o k).2.1) :
    e ∈ o.2.1 ∨ e ∈ (k o.1).2.1 := by
  unfold seq at h
  by_cases h' : o.2.2 = .ok
  · simp only [h', if_true, List.mem_append] at h
    exact h
  · simp only [h', if_false] at h
    exact Or.inl h

/-! ## Delayed mode: nothing but marks, and the queue is a sub-list of the broadcasts -/

theorem mem_seqH_events {o : Spec.HOut} {k : Subs → Spec.HOut} {e : Ev}
    (h : e ∈ (Spec.seqH o k).2.1) : e ∈ o.2.1 ∨ e ∈ (k o.1).2.1 := by
  unfold Spec.seqH at h
  by_cases h' : o.2.2.2 = .ok
  · simp only [h', if_true, List.mem_append] at h
    exact h
  · simp only [h', if_false] at h
    exact Or.inl h

theorem held_events : ∀ (f lvl : Nat) (ign : List Cls) (subs : Subs) (ops : List Op) (e : Ev),
    e ∈ (Spec.held f lvl ign subs ops).2.1 → ∃ n, e = .mark lvl n := by
  intro f
  induction f with
  | zero => intro lvl ign subs ops e h; cases ops <;> simp [Spec.held] at h
  | succ f ih =>
    intro lvl ign subs ops e h
    cases ops with
    | nil => simp [Spec.held] at h
    | cons op rest =>
      simp only [Spec.held] at h
      rcases mem_seqH_events h with h1 | h2
      · cases op with
        | bcast m => simp at h1
        | delay body => exact ih _ _ _ _ _ h1
        | ignore c body => exact ih _ _ _ _ _ h1
        | «catch» body => exact ih _ _ _ _ _ h1
        | mark n => simp at h1; exact ⟨n, h1⟩
        | sub l c s => simp at h1
        | unsub l c => simp at h1
        | unsubAll l => simp at h1
        | kill l => simp at h1
        | raise => simp at h1
      · exact ih _ _ _ _ _ h2

theorem seqH_queue_sublist {o : Spec.HOut} {k : Subs → Spec.HOut} {a b : List Msg}
    (h1 : o.2.2.1.Sublist a) (h2 : (k o.1).2.2.1.Sublist b) :
    (Spec.seqH o k).2.2.1.Sublist (a ++ b) := by
  unfold Spec.seqH
  by_cases h' : o.2.2.2 = .ok
  · simp only [h', if_true]
    exact List.Sublist.append h1 h2
  · simp only [h', if_false]
    exact h1.trans (List.sublist_append_left a b)

theorem held_queue_sublist : ∀ (f lvl : Nat) (ign : List Cls) (subs : Subs) (ops : List Op),
    (Spec.held f lvl ign subs ops).2.2.1.Sublist (bcastsOps ops) := by
  intro f
  induction f with
  | zero => intro lvl ign subs ops; cases ops <;> simp [Spec.held]
  | succ f ih =>
    intro lvl ign subs ops
    cases ops with
    | nil => simp [Spec.held]
    | cons op rest =>
      simp only [Spec.held, bcastsOps]
      apply seqH_queue_sublist
      · cases op with
        | bcast m => simp only [bcastsOp]; split <;> simp
        | delay body => exact ih _ _ _ _
        | ignore c body => exact ih _ _ _ _
        | «catch» body => exact ih _ _ _ _
        | mark n => simp [bcastsOp]
        | sub l c s => simp [bcastsOp]
        | unsub l c => simp [bcastsOp]
        | unsubAll l => simp [bcastsOp]
        | kill l => simp [bcastsOp]
        | raise => simp [bcastsOp]
      · exact ih _ _ _ _

theorem mem_seqH_queue {o : Spec.HOut} {k : Subs → Spec.HOut} {m : Msg}
    (h : m ∈ (Spec.seqH o k).2.2.1) : m ∈ o.2.2.1 ∨ m ∈ (k o.1).2.2.1 := by
  unfold Spec.seqH at h
  by_cases h' : o.2.2.2 = .ok
  · simp only [h', if_true, List.mem_append] at h
    exact h
  · simp only [h', if_false] at h
    exact Or.inl h

/-- A queued message passed the ignore test of a context that contains the current one: it is not
ignored where the block started (so the ignore test repeated at flush time never drops it). -/
theorem held_queue_not_ignored : ∀ (f lvl : Nat) (ign : List Cls) (subs : Subs) (ops : List Op)
    (m : Msg), m ∈ (Spec.held f lvl ign subs ops).2.2.1 → m.cls ∉ ign := by
  intro f
  induction f with
  | zero => intro lvl ign subs ops m h; cases ops <;> simp [Spec.held] at h
  | succ f ih =>
    intro lvl ign subs ops m h
    cases ops with
    | nil => simp [Spec.held] at h
    | cons op rest =>
      simp only [Spec.held] at h
      rcases mem_seqH_queue h with h1 | h2
      · cases op with
        | bcast m' =>
          by_cases hc : m'.cls ∈ ign
          · simp [hc] at h1
          · simp only [List.contains_iff_mem, hc, if_false, List.mem_singleton] at h1
            rw [h1]; exact hc
        | delay body => exact ih _ _ _ _ _ h1
        | ignore c body =>
          have := ih _ _ _ _ _ h1
          exact fun hm => this (List.mem_cons_of_mem _ hm)
        | «catch» body => exact ih _ _ _ _ _ h1
        | mark n => simp at h1
        | sub l c s => simp at h1
        | unsub l c => simp at h1
        | unsubAll l => simp at h1
        | kill l => simp at h1
        | raise => simp at h1
      · exact ih _ _ _ _ _ h2

theorem seqH_complete {o : Spec.HOut} {k : Subs → Spec.HOut} {a b : List Msg}
    (h1 : o.2.2.2 ≠ .fuel → o.2.2.2 = .ok ∧ o.2.2.1 = a)
    (h2 : (k o.1).2.2.2 ≠ .fuel → (k o.1).2.2.2 = .ok ∧ (k o.1).2.2.1 = b)
    (hf : (Spec.seqH o k).2.2.2 ≠ .fuel) :
    (Spec.seqH o k).2.2.2 = .ok ∧ (Spec.seqH o k).2.2.1 = a ++ b := by
  unfold Spec.seqH at hf ⊢
  by_cases hok : o.2.2.2 = .ok
  · simp only [hok, if_true] at hf ⊢
    have h1' := h1 (by rw [hok]; decide)
    have h2' := h2 hf
    exact ⟨h2'.1, by rw [h1'.2, h2'.2]⟩
  · simp only [hok, if_false] at hf ⊢
    exact absurd (h1 hf).1 hok

/-- Without `raise` and without ignore blocks, nothing is lost: the queue is exactly the
broadcasts of the block in program order (provided the fuel sufficed). -/
theorem held_queue_complete : ∀ (f lvl : Nat) (subs : Subs) (ops : List Op),
    plainOps ops = true → (Spec.held f lvl [] subs ops).2.2.2 ≠ .fuel →
    (Spec.held f lvl [] subs ops).2.2.2 = .ok ∧
      (Spec.held f lvl [] subs ops).2.2.1 = bcastsOps ops := by
  intro f
  induction f with
  | zero => intro lvl subs ops hp hf; cases ops <;> simp [Spec.held, bcastsOps] at hf ⊢
  | succ f ih =>
    intro lvl subs ops hp hf
    cases ops with
    | nil => simp [Spec.held, bcastsOps]
    | cons op rest =>
      simp only [plainOps, Bool.and_eq_true] at hp
      simp only [Spec.held, bcastsOps] at hf ⊢
      refine seqH_complete ?_ (ih lvl _ rest hp.2) hf
      intro hnf
      cases op with
      | bcast m => simp [bcastsOp]
      | delay body =>
        simp only [plainOp] at hp
        simpa only [bcastsOp] using ih lvl subs body hp.1 hnf
      | ignore c body => simp [plainOp] at hp
      | «catch» body =>
        simp only [plainOp] at hp
        have hb : (Spec.held f lvl [] subs body).2.2.2 ≠ .fuel := by
          intro h; apply hnf; simp [h, Res.caught]
        have := ih lvl subs body hp.1 hb
        simp only [bcastsOp, this.1, this.2, Res.caught, and_self]
      | mark n => simp [bcastsOp]
      | sub l c s => simp [bcastsOp]
      | unsub l c => simp [bcastsOp]
      | unsubAll l => simp [bcastsOp]
      | kill l => simp [bcastsOp]
      | raise => simp [plainOp] at hp

/-! ## Live mode: nesting levels -/

theorem mem_bracket_events {σ} {lvl l m} {o : Out σ} {e : Ev}
    (h : e ∈ (bracket lvl l m o).2.1) : e = .enter lvl l m ∨ e = .exit lvl l m ∨ e ∈ o.2.1 := by
  simp only [bracket, List.mem_cons, List.mem_append] at h
  rcases h with (h | h) | h
  · exact Or.inl h
  · exact Or.inr (Or.inr h)
  · by_cases hok : o.2.2 = .ok
    · simp only [hok, if_true, List.mem_singleton] at h
      exact Or.inr (Or.inl h)
    · simp [hok] at h

/-- Statement: every event produced at level `lvl` carries a level `≥ lvl`. -/
def LvlGe (hs : Handlers) (f : Nat) : Prop :=
  (∀ lvl ign subs ops, ∀ e ∈ (Spec.live hs f lvl ign subs ops).2.1, lvl ≤ e.lvl) ∧
  (∀ lvl ign subs ts m, ∀ e ∈ (Spec.deliver hs f lvl ign subs ts m).2.1, lvl ≤ e.lvl) ∧
  (∀ lvl ign subs q, ∀ e ∈ (Spec.flush hs f lvl ign subs q).2.1, lvl ≤ e.lvl)

theorem lvl_ge (hs : Handlers) : ∀ f, LvlGe hs f := by
  intro f
  induction f with
  | zero =>
    refine ⟨?_, ?_, ?_⟩
    · intro lvl ign subs ops e h; cases ops <;> simp [Spec.live] at h
    · intro lvl ign subs ts m e h; cases ts <;> simp [Spec.deliver] at h
    · intro lvl ign subs q e h; cases q <;> simp [Spec.flush] at h
  | succ f ih =>
    have hb : ∀ (lvl : Nat) (ign : List Cls) (subs : Subs) (m : Msg), ∀ e ∈ (if ign.contains m.cls then ((subs, [], .ok) : Out Subs)
        else Spec.deliver hs f lvl ign subs (targets subs m) m).2.1, lvl ≤ e.lvl := by
      intro lvl ign subs m e h
      split at h
      · simp at h
      · exact ih.2.1 _ _ _ _ _ e h
    refine ⟨?_, ?_, ?_⟩
    · intro lvl ign subs ops e h
      cases ops with
      | nil => simp [Spec.live] at h
      | cons op rest =>
        simp only [Spec.live] at h
        rcases mem_seq_events h with h1 | h2
        · cases op with
          | bcast m => exact hb _ _ _ _ e h1
          | delay body =>
            simp only [finallyDo, List.mem_append] at h1
            rcases h1 with h1 | h1
            · obtain ⟨n, rfl⟩ := held_events _ _ _ _ _ e h1
              exact Nat.le_refl _
            · exact ih.2.2 _ _ _ _ e h1
          | ignore c body => exact ih.1 _ _ _ _ e h1
          | «catch» body => exact ih.1 _ _ _ _ e h1
          | mark n => simp at h1; subst h1; exact Nat.le_refl _
          | sub l c s => simp at h1
          | unsub l c => simp at h1
          | unsubAll l => simp at h1
          | kill l => simp at h1
          | raise => simp at h1
        · exact ih.1 _ _ _ _ e h2
    · intro lvl ign subs ts m e h
      cases ts with
      | nil => simp [Spec.deliver] at h
      | cons t ts =>
        simp only [Spec.deliver] at h
        rcases mem_seq_events h with h1 | h2
        · rcases mem_bracket_events h1 with rfl | rfl | h3
          · exact Nat.le_refl _
          · exact Nat.le_refl _
          · exact Nat.le_of_succ_le (ih.1 _ _ _ _ e h3)
        · exact ih.2.1 _ _ _ _ _ e h2
    · intro lvl ign subs q e h
      cases q with
      | nil => simp [Spec.flush] at h
      | cons m ms =>
        simp only [Spec.flush] at h
        rcases mem_seq_events h with h1 | h2
        · exact hb _ _ _ _ e h1
        · exact ih.2.2 _ _ _ _ e h2

theorem atLevel_append (lvl : Nat) (a b : List Ev) :
    atLevel lvl (a ++ b) = atLevel lvl a ++ atLevel lvl b := by
  simp [atLevel]

theorem atLevel_eq_nil_of_gt {lvl : Nat} {es : List Ev} (h : ∀ e ∈ es, lvl + 1 ≤ e.lvl) :
    atLevel lvl es = [] := by
  simp only [atLevel, List.filter_eq_nil_iff, beq_iff_eq]
  intro e he heq
  have := h e he
  omega

/-! ## Exactly once, to the targets, in order -/

theorem deliver_atLevel (hs : Handlers) : ∀ (ts : List Target) (f lvl : Nat) (ign : List Cls)
    (subs : Subs) (m : Msg), (Spec.deliver hs f lvl ign subs ts m).2.2 = .ok →
    atLevel lvl (Spec.deliver hs f lvl ign subs ts m).2.1 =
      ts.flatMap fun t => [.enter lvl t.1 m, .exit lvl t.1 m] := by
  intro ts
  induction ts with
  | nil => intro f lvl ign subs m _; cases f <;> simp [Spec.deliver, atLevel]
  | cons t ts ih =>
    intro f lvl ign subs m hok
    cases f with
    | zero => simp [Spec.deliver] at hok
    | succ f =>
      simp only [Spec.deliver] at hok ⊢
      obtain ⟨h1, h2⟩ := seq_res_ok hok
      rw [seq_events_ok h1, atLevel_append, ih f lvl ign _ m h2]
      have hb : (Spec.live hs f (lvl + 1) ign subs (handlerBody hs t.2)).2.2 = .ok := h1
      have hin : atLevel lvl (Spec.live hs f (lvl + 1) ign subs (handlerBody hs t.2)).2.1 = [] :=
        atLevel_eq_nil_of_gt fun e he => (lvl_ge hs f).1 _ _ _ _ e he
      simp only [bracket, hb, if_true, List.flatMap_cons]
      rw [show ∀ (x : Ev) (xs : List Ev), x :: xs = [x] ++ xs from fun _ _ => rfl, atLevel_append,
        atLevel_append, hin]
      simp [atLevel, Ev.lvl]

/-! ## Flushing is re-broadcasting; sequential composition -/

theorem flush_eq_live (hs : Handlers) : ∀ (q : List Msg) (f lvl : Nat) (ign : List Cls) (subs : Subs),
    Spec.flush hs f lvl ign subs q = Spec.live hs f lvl ign subs (q.map .bcast) := by
  intro q
  induction q with
  | nil => intro f lvl ign subs; cases f <;> simp [Spec.flush, Spec.live]
  | cons m ms ih =>
    intro f lvl ign subs
    cases f with
    | zero => simp [Spec.flush, Spec.live]
    | succ f =>
      simp only [Spec.flush, Spec.live, List.map_cons]
      congr 1
      funext s
      exact ih f lvl ign s

theorem live_append (hs : Handlers) : ∀ (a b : List Op) (f lvl : Nat) (ign : List Cls) (subs : Subs),
    Spec.live hs (a.length + f) lvl ign subs (a ++ b) =
      seq (Spec.live hs (a.length + f) lvl ign subs a) (fun s => Spec.live hs f lvl ign s b) := by
  intro a
  induction a with
  | nil =>
    intro b f lvl ign subs
    simp only [List.length_nil, Nat.zero_add, List.nil_append]
    cases f <;> simp [Spec.live, seq_ok]
  | cons op a ih =>
    intro b f lvl ign subs
    have : (op :: a).length + f = (a.length + f) + 1 := by simp only [List.length_cons]; omega
    rw [this]
    simp only [List.cons_append, Spec.live]
    rw [seq_assoc]
    congr 1
    funext s
    exact ih b f lvl ign s

end GlueVerif.C07Hub.Lemmas
