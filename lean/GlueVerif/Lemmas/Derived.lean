import GlueVerif.Model.Derived
/-! Helper lemmas for C14: broadcasting algebra of strided arrays. -/
namespace GlueVerif.Derived

/-- `idx` is a valid index tuple of an array of shape `shape`. -/
def InB : List Nat → List Nat → Prop
  | [], [] => True
  | i :: is, n :: ns => i < n ∧ InB is ns
  | _, _ => False

/-- `a ≼ S`: `a` can be broadcast to `S` (same ndim, every axis equal or of length 1). -/
def Sub : List Nat → List Nat → Prop
  | [], [] => True
  | a :: as, s :: ss => (a = s ∨ a = 1) ∧ Sub as ss
  | _, _ => False

/-- Index into a broadcast-compatible smaller array: length-1 axes are addressed at 0. -/
def clamp : List Nat → List Nat → List Nat
  | n :: ns, i :: is => (if n = 1 then 0 else i) :: clamp ns is
  | _, _ => []

/-- numpy invariant: as many strides as axes. -/
def SArr.WF (a : SArr α) : Prop := a.strides.length = a.shape.length

theorem Sub.refl : ∀ s : List Nat, Sub s s
  | [] => trivial
  | _ :: ss => ⟨Or.inl rfl, Sub.refl ss⟩

theorem Sub.length : ∀ {a s : List Nat}, Sub a s → a.length = s.length
  | [], [], _ => rfl
  | _ :: as, _ :: ss, h => by simp [Sub.length (a := as) (s := ss) h.2]
  | [], _ :: _, h => absurd h (by simp [Sub])
  | _ :: _, [], h => absurd h (by simp [Sub])

theorem Sub.trans : ∀ {a b c S : List Nat}, Sub a b → Sub b c → Sub c S → Sub a c
  | [], [], [], _, _, _, _ => trivial
  | a :: as, b :: bs, c :: cs, S, h1, h2, h3 => by
    cases S with
    | nil => exact absurd h3 (by simp [Sub])
    | cons s ss =>
      refine ⟨?_, Sub.trans h1.2 h2.2 h3.2⟩
      rcases h1.1 with h | h
      · rcases h2.1 with h' | h'
        · exact Or.inl (h.trans h')
        · exact Or.inr (h.trans h')
      · exact Or.inr h
  | [], [], _ :: _, _, _, h2, _ => absurd h2 (by simp [Sub])
  | [], _ :: _, _, _, h1, _, _ => absurd h1 (by simp [Sub])
  | _ :: _, [], _, _, h1, _, _ => absurd h1 (by simp [Sub])
  | _ :: _, _ :: _, [], _, _, h2, _ => absurd h2 (by simp [Sub])

theorem bcOk_of_Sub : ∀ {a t : List Nat}, Sub a t → bcOk a t = true
  | [], [], _ => rfl
  | a :: as, t :: ts, h => by
    simp only [bcOk, Bool.and_eq_true, Bool.or_eq_true, beq_iff_eq]
    exact ⟨h.1, bcOk_of_Sub h.2⟩
  | [], _ :: _, h => absurd h (by simp [Sub])
  | _ :: _, [], h => absurd h (by simp [Sub])

/-- Offsets through `np.broadcast_to`: the stretched array addresses the element of the original
array at the clamped index. -/
theorem ioffset_bcStrides : ∀ (sh : List Nat) (st : List Int) (T idx : List Nat),
    Sub sh T → InB idx T → ioffset idx (bcStrides sh st T) = ioffset (clamp sh idx) st
  | [], st, T, idx, h, hi => by
    cases T with
    | nil => cases idx <;> simp [bcStrides, clamp, ioffset]
    | cons t ts => exact absurd h (by simp [Sub])
  | n :: ns, st, T, idx, h, hi => by
    cases T with
    | nil => exact absurd h (by simp [Sub])
    | cons t ts =>
      cases idx with
      | nil => exact absurd hi (by simp [InB])
      | cons i is =>
        cases st with
        | nil => simp [bcStrides, clamp, ioffset]
        | cons s ss =>
          have ih := ioffset_bcStrides ns ss ts is h.2 hi.2
          simp only [bcStrides, clamp, ioffset, ih]
          have hit : i < t := hi.1
          rcases h.1 with h1 | h1
          · by_cases hn : n = 1
            · subst hn; subst h1
              have : i = 0 := by omega
              subst this; simp
            · have : ¬ (n == 1 && t != 1) = true := by simp [hn]
              simp [hn]
          · subst h1
            by_cases ht : t = 1
            · subst ht
              have : i = 0 := by omega
              subst this; simp
            · simp [ht]

theorem bcStrides_length : ∀ (sh : List Nat) (st : List Int) (T : List Nat),
    st.length = sh.length → sh.length = T.length → (bcStrides sh st T).length = T.length
  | [], [], [], _, _ => rfl
  | _ :: ns, _ :: ss, _ :: ts, h1, h2 => by
    simp only [bcStrides, List.length_cons]
    rw [bcStrides_length ns ss ts (by simpa using h1) (by simpa using h2)]
  | [], _ :: _, _, h1, _ => by simp at h1
  | _ :: _, [], _, h1, _ => by simp at h1
  | [], [], _ :: _, _, h2 => by simp at h2
  | _ :: _, _ :: _, [], _, h2 => by simp at h2

theorem broadcastTo_spec (a : SArr α) (T : List Nat) (h : Sub a.shape T) (hw : a.WF) :
    ∃ b, broadcastTo a T = some b ∧ b.shape = T ∧ b.WF ∧
      ∀ idx, InB idx T → b.at idx = a.at (clamp a.shape idx) := by
  refine ⟨{ a with shape := T, strides := bcStrides a.shape a.strides T }, ?_, rfl, ?_, ?_⟩
  · simp [broadcastTo, bcOk_of_Sub h]
  · exact bcStrides_length a.shape a.strides T hw h.length
  · intro idx hi
    simp only [SArr.at]
    rw [ioffset_bcStrides a.shape a.strides T idx h hi]

/-! ### unbroadcast -/

theorem unbShape_Sub : ∀ (sh : List Nat) (st : List Int), st.length = sh.length →
    Sub (unbShape sh st) sh
  | [], [], _ => trivial
  | n :: ns, s :: ss, h => by
    simp only [unbShape]
    refine ⟨?_, unbShape_Sub ns ss (by simpa using h)⟩
    by_cases hs : s = 0 <;> simp [hs]
  | [], _ :: _, h => by simp at h
  | _ :: _, [], h => by simp at h

/-- Clamping at the axes that `unbroadcast` shortened does not change the addressed element. -/
theorem ioffset_clamp_unb : ∀ (sh : List Nat) (st : List Int) (idx : List Nat),
    InB idx sh → ioffset (clamp (unbShape sh st) idx) st = ioffset idx st
  | [], st, idx, hi => by
    cases idx with
    | nil => simp [unbShape, clamp, ioffset]
    | cons i is => exact absurd hi (by simp [InB])
  | n :: ns, st, idx, hi => by
    cases idx with
    | nil => exact absurd hi (by simp [InB])
    | cons i is =>
      cases st with
      | nil => simp [unbShape, clamp, ioffset]
      | cons s ss =>
        have ih := ioffset_clamp_unb ns ss is hi.2
        simp only [unbShape, clamp, ioffset, ih]
        have hin : i < n := hi.1
        by_cases hs : s = 0
        · subst hs; simp
        · by_cases hn : n = 1
          · subst hn
            have : i = 0 := by omega
            subst this; simp
          · simp [hs, hn]

/-! ### common broadcast shape -/

theorem bshape_spec : ∀ {a b S : List Nat}, Sub a S → Sub b S →
    ∃ B, bshape a b = some B ∧ Sub B S ∧ Sub a B ∧ Sub b B
  | [], [], [], _, _ => ⟨[], rfl, trivial, trivial, trivial⟩
  | a :: as, b :: bs, s :: ss, ha, hb => by
    obtain ⟨B, hB, h1, h2, h3⟩ := bshape_spec ha.2 hb.2
    simp only [bshape, hB]
    by_cases hab : a = b
    · subst hab
      exact ⟨a :: B, by simp, ⟨ha.1, h1⟩, ⟨Or.inl rfl, h2⟩, ⟨Or.inl rfl, h3⟩⟩
    · by_cases ha1 : a = 1
      · subst ha1
        refine ⟨b :: B, by simp [hab], ⟨hb.1, h1⟩, ⟨Or.inr rfl, h2⟩, ⟨Or.inl rfl, h3⟩⟩
      · have has : a = s := by rcases ha.1 with h | h; exact h; exact absurd h ha1
        have hb1 : b = 1 := by
          rcases hb.1 with h | h
          · exact absurd (has.trans h.symm) hab
          · exact h
        subst hb1
        refine ⟨a :: B, by simp [hab], ⟨ha.1, h1⟩, ⟨Or.inl rfl, h2⟩, ⟨Or.inr rfl, h3⟩⟩
  | [], _ :: _, _, ha, hb => by
    cases ‹List Nat› <;> simp [Sub] at ha hb
  | _ :: _, [], _, ha, hb => by
    cases ‹List Nat› <;> simp [Sub] at ha hb
  | [], [], _ :: _, ha, _ => by simp [Sub] at ha
  | _ :: _, _ :: _, [], ha, _ => by simp [Sub] at ha

/-! ### clamp algebra -/

theorem clamp_clamp : ∀ {a B S idx : List Nat}, Sub a B → Sub B S → InB idx S →
    clamp a (clamp B idx) = clamp a idx
  | [], [], [], idx, _, _, _ => by cases idx <;> simp [clamp]
  | a :: as, b :: bs, s :: ss, idx, h1, h2, hi => by
    cases idx with
    | nil => exact absurd hi (by simp [InB])
    | cons i is =>
      simp only [clamp, clamp_clamp h1.2 h2.2 hi.2]
      by_cases ha : a = 1
      · simp [ha]
      · have hab : a = b := by rcases h1.1 with h | h; exact h; exact absurd h ha
        have hb : b ≠ 1 := hab ▸ ha
        simp [ha, hb]
  | [], _ :: _, _, _, h1, _, _ => by simp [Sub] at h1
  | _ :: _, [], _, _, h1, _, _ => by simp [Sub] at h1
  | [], [], _ :: _, _, _, h2, _ => by simp [Sub] at h2
  | _ :: _, _ :: _, [], _, _, h2, _ => by simp [Sub] at h2

theorem InB_clamp : ∀ {B S idx : List Nat}, Sub B S → InB idx S → InB (clamp B idx) B
  | [], [], idx, _, hi => by cases idx <;> simp_all [clamp, InB]
  | b :: bs, s :: ss, idx, h, hi => by
    cases idx with
    | nil => exact absurd hi (by simp [InB])
    | cons i is =>
      simp only [clamp, InB]
      refine ⟨?_, InB_clamp h.2 hi.2⟩
      have : i < s := hi.1
      by_cases hb : b = 1
      · simp [hb]
      · have : b = s := by rcases h.1 with h' | h'; exact h'; exact absurd h' hb
        simp [hb]; omega
  | [], _ :: _, _, h, _ => by simp [Sub] at h
  | _ :: _, [], _, h, _ => by simp [Sub] at h

theorem clamp_self : ∀ {S idx : List Nat}, InB idx S → clamp S idx = idx
  | [], idx, hi => by cases idx <;> simp_all [clamp, InB]
  | s :: ss, idx, hi => by
    cases idx with
    | nil => exact absurd hi (by simp [InB])
    | cons i is =>
      simp only [clamp, clamp_self hi.2]
      have : i < s := hi.1
      by_cases hs : s = 1
      · subst hs
        have : i = 0 := by omega
        simp [this]
      · simp [hs]

theorem unbroadcast_spec (a : SArr α) (hw : a.WF) :
    Sub (unbroadcast a).shape a.shape ∧ (unbroadcast a).WF ∧
      ∀ idx, InB idx a.shape → (unbroadcast a).at (clamp (unbroadcast a).shape idx) = a.at idx := by
  by_cases he : a.shape.any (· == 0) = true
  · -- empty array: returned unchanged
    have hu : unbroadcast a = a := by simp [unbroadcast, he]
    rw [hu]
    exact ⟨Sub.refl _, hw, fun idx hi => by rw [clamp_self hi]⟩
  · have hu : unbroadcast a = { a with shape := unbShape a.shape a.strides } := by
      simp [unbroadcast, he]
    rw [hu]
    refine ⟨unbShape_Sub a.shape a.strides hw, ?_, ?_⟩
    · have := (unbShape_Sub a.shape a.strides hw).length
      simp only [SArr.WF] at *
      omega
    · intro idx hi
      simp only [SArr.at]
      rw [ioffset_clamp_unb a.shape a.strides idx hi]

/-! ### fresh (C-contiguous) results -/

/-- Position of `idx` in a C-contiguous array of shape `B`. -/
def ravel : List Nat → List Nat → Nat
  | i :: is, _ :: ns => i * prodN ns + ravel is ns
  | _, _ => 0

theorem ravel_lt : ∀ {idx B : List Nat}, InB idx B → ravel idx B < prodN B
  | [], [], _ => by simp [ravel, prodN]
  | i :: is, n :: ns, hi => by
    have ih := ravel_lt hi.2
    have hin : i + 1 ≤ n := hi.1
    simp only [ravel, prodN]
    calc i * prodN ns + ravel is ns < i * prodN ns + prodN ns := Nat.add_lt_add_left ih _
      _ = (i + 1) * prodN ns := (Nat.succ_mul i (prodN ns)).symm
      _ ≤ n * prodN ns := Nat.mul_le_mul_right _ hin
  | [], _ :: _, hi => by simp [InB] at hi
  | _ :: _, [], hi => by simp [InB] at hi

theorem unravel_ravel : ∀ {idx B : List Nat}, InB idx B → unravel (ravel idx B) B = idx
  | [], [], _ => by simp [ravel, unravel]
  | i :: is, n :: ns, hi => by
    have hlt := ravel_lt hi.2
    have hpos : 0 < prodN ns := by omega
    simp only [ravel, unravel]
    have h1 : (i * prodN ns + ravel is ns) / prodN ns = i := by
      rw [Nat.add_comm, Nat.add_mul_div_right _ _ hpos, Nat.div_eq_of_lt hlt]; simp
    have h2 : (i * prodN ns + ravel is ns) % prodN ns = ravel is ns := by
      rw [Nat.add_comm, Nat.add_mul_mod_self_right, Nat.mod_eq_of_lt hlt]
    rw [h1, h2, unravel_ravel hi.2]
  | [], _ :: _, hi => by simp [InB] at hi
  | _ :: _, [], hi => by simp [InB] at hi

theorem ioffset_contig : ∀ (idx B : List Nat), InB idx B → ioffset idx (contig B) = (ravel idx B : Int)
  | [], [], _ => by simp [ioffset, ravel]
  | i :: is, n :: ns, hi => by
    simp only [ioffset, contig, ravel, ioffset_contig is ns hi.2]
    simp [Int.natCast_add, Int.natCast_mul]
  | [], _ :: _, hi => by simp [InB] at hi
  | _ :: _, [], hi => by simp [InB] at hi

theorem contig_length : ∀ B : List Nat, (contig B).length = B.length
  | [] => rfl
  | _ :: ns => by simp [contig, contig_length ns]

theorem unravel_contig {idx B : List Nat} (hi : InB idx B) :
    unravel (0 + ioffset idx (contig B)).toNat B = idx := by
  rw [ioffset_contig idx B hi]
  simp [unravel_ravel hi]

theorem fresh2_at (op : α → α → α) (l r : SArr α) (B idx : List Nat) (hi : InB idx B) :
    (fresh2 op l r B).at idx = op (l.at idx) (r.at idx) := by
  simp only [fresh2, SArr.at]
  rw [unravel_contig hi]

theorem fresh2_WF (op : α → α → α) (l r : SArr α) (B : List Nat) : (fresh2 op l r B).WF :=
  contig_length B

theorem freshN_at (f : List α → α) (args : List (SArr α)) (B idx : List Nat) (hi : InB idx B) :
    (freshN f args B).at idx = f (args.map (·.at idx)) := by
  simp only [freshN, SArr.at]
  rw [unravel_contig hi]

theorem fresh1_at (f : α → α) (a : SArr α) (idx : List Nat) (hi : InB idx a.shape) :
    (fresh1 f a).at idx = f (a.at idx) := by
  simp only [fresh1, SArr.at]
  rw [unravel_contig hi]

theorem fullOf_at (c : α) (B idx : List Nat) : (fullOf c B).at idx = c := rfl

theorem fullOf_WF (c : α) (B : List Nat) : (fullOf c B).WF := by simp [SArr.WF, fullOf]

/-! ### `BinaryComponentLink.compute` -/

/-- `v` is what `data[·, view]` may return for a view of shape `S`: a scalar, or an array of shape
`S` with as many strides as axes. -/
def Val.OkS (v : Val α) (S : List Nat) : Prop :=
  match v with
  | .scalar _ => True
  | .arr a => a.shape = S ∧ a.WF

def Val.isArr : Val α → Bool
  | .scalar _ => false
  | .arr _ => true

/-- array (op) array -/
theorem binaryCompute_arr_arr (op : α → α → α) (l r : SArr α) (S : List Nat)
    (hl : l.shape = S) (hlw : l.WF) (hr : r.shape = S) (hrw : r.WF) :
    ∃ res, binaryCompute op (.arr l) (.arr r) = some (.arr res) ∧ res.shape = S ∧ res.WF ∧
      ∀ idx, InB idx S → res.at idx = op (l.at idx) (r.at idx) := by
  obtain ⟨hUL, hULw, hULat⟩ := unbroadcast_spec l hlw
  obtain ⟨hUR, hURw, hURat⟩ := unbroadcast_spec r hrw
  rw [hl] at hUL hULat
  rw [hr] at hUR hURat
  obtain ⟨B, hB, hBS, hLB, hRB⟩ := bshape_spec hUL hUR
  obtain ⟨lb, hlb, hlbs, hlbw, hlbat⟩ := broadcastTo_spec (unbroadcast l) B hLB hULw
  obtain ⟨rb, hrb, hrbs, hrbw, hrbat⟩ := broadcastTo_spec (unbroadcast r) B hRB hURw
  have hFS : Sub (fresh2 op lb rb B).shape S := hBS
  obtain ⟨res, hres, hress, hresw, hresat⟩ :=
    broadcastTo_spec (fresh2 op lb rb B) S hFS (fresh2_WF op lb rb B)
  refine ⟨res, ?_, hress, hresw, ?_⟩
  · simp only [binaryCompute, hB, hlb, hrb, hr, hres, Option.map_some]
  · intro idx hi
    have hci : InB (clamp B idx) B := InB_clamp hBS hi
    rw [hresat idx hi]
    show (fresh2 op lb rb B).at (clamp B idx) = _
    rw [fresh2_at op lb rb B _ hci, hlbat _ hci, hrbat _ hci,
      clamp_clamp hLB hBS hi, clamp_clamp hRB hBS hi, hULat idx hi, hURat idx hi]

/-- array (op) number -/
theorem binaryCompute_arr_scalar (op : α → α → α) (l : SArr α) (d : α) (S : List Nat)
    (hl : l.shape = S) (hlw : l.WF) :
    ∃ res, binaryCompute op (.arr l) (.scalar d) = some (.arr res) ∧ res.shape = S ∧ res.WF ∧
      ∀ idx, InB idx S → res.at idx = op (l.at idx) d := by
  obtain ⟨hUL, hULw, hULat⟩ := unbroadcast_spec l hlw
  rw [hl] at hUL hULat
  have hFS : Sub (fresh2 op (unbroadcast l) (fullOf d (unbroadcast l).shape) (unbroadcast l).shape).shape S := hUL
  obtain ⟨res, hres, hress, hresw, hresat⟩ := broadcastTo_spec _ S hFS (fresh2_WF _ _ _ _)
  refine ⟨res, ?_, hress, hresw, ?_⟩
  · simp only [binaryCompute, hl, hres, Option.map_some]
  · intro idx hi
    have hci : InB (clamp (unbroadcast l).shape idx) (unbroadcast l).shape := InB_clamp hUL hi
    rw [hresat idx hi]
    show (fresh2 op _ _ _).at (clamp (unbroadcast l).shape idx) = _
    rw [fresh2_at _ _ _ _ _ hci, fullOf_at, hULat idx hi]

/-- number (op) array -/
theorem binaryCompute_scalar_arr (op : α → α → α) (c : α) (r : SArr α) (S : List Nat)
    (hr : r.shape = S) (hrw : r.WF) :
    ∃ res, binaryCompute op (.scalar c) (.arr r) = some (.arr res) ∧ res.shape = S ∧ res.WF ∧
      ∀ idx, InB idx S → res.at idx = op c (r.at idx) := by
  obtain ⟨hUR, hURw, hURat⟩ := unbroadcast_spec r hrw
  rw [hr] at hUR hURat
  have hFS : Sub (fresh2 op (fullOf c (unbroadcast r).shape) (unbroadcast r) (unbroadcast r).shape).shape S := hUR
  obtain ⟨res, hres, hress, hresw, hresat⟩ := broadcastTo_spec _ S hFS (fresh2_WF _ _ _ _)
  refine ⟨res, ?_, hress, hresw, ?_⟩
  · simp only [binaryCompute, hr, hres, Option.map_some]
  · intro idx hi
    have hci : InB (clamp (unbroadcast r).shape idx) (unbroadcast r).shape := InB_clamp hUR hi
    rw [hresat idx hi]
    show (fresh2 op _ _ _).at (clamp (unbroadcast r).shape idx) = _
    rw [fresh2_at _ _ _ _ _ hci, fullOf_at, hURat idx hi]

/-- All four operand combinations at once. -/
theorem binaryCompute_spec (op : α → α → α) (l r : Val α) (S : List Nat)
    (hl : l.OkS S) (hr : r.OkS S) :
    ∃ res, binaryCompute op l r = some res ∧ res.OkS S ∧
      res.isArr = (l.isArr || r.isArr) ∧
      ∀ idx, InB idx S → res.get idx = op (l.get idx) (r.get idx) := by
  cases l with
  | scalar c =>
    cases r with
    | scalar d => exact ⟨.scalar (op c d), rfl, trivial, rfl, fun _ _ => rfl⟩
    | arr r =>
      obtain ⟨res, h1, h2, h3, h4⟩ := binaryCompute_scalar_arr op c r S hr.1 hr.2
      exact ⟨.arr res, h1, ⟨h2, h3⟩, rfl, h4⟩
  | arr l =>
    cases r with
    | scalar d =>
      obtain ⟨res, h1, h2, h3, h4⟩ := binaryCompute_arr_scalar op l d S hl.1 hl.2
      exact ⟨.arr res, h1, ⟨h2, h3⟩, rfl, h4⟩
    | arr r =>
      obtain ⟨res, h1, h2, h3, h4⟩ := binaryCompute_arr_arr op l r S hl.1 hl.2 hr.1 hr.2
      exact ⟨.arr res, h1, ⟨h2, h3⟩, rfl, h4⟩

/-! ### expression trees -/

theorem evalWith_spec (opf : ω → α → α → α) (get : κ → Except Err (Val α))
    (pt : κ → List Nat → α) (S : List Nat) :
    ∀ (e : Expr κ ω α),
    (∀ k ∈ e.fromIds, ∃ v, get k = .ok v ∧ v.OkS S ∧ ∀ idx, InB idx S → v.get idx = pt k idx) →
    ∃ res, e.evalWith opf get = .ok res ∧ res.OkS S ∧
      (∀ idx, InB idx S → res.get idx = e.evalPtT opf (fun k => pt k idx)) ∧
      ((∀ k ∈ e.fromIds, ∀ v, get k = .ok v → v.isArr = true) → e.fromIds ≠ [] → res.isArr = true)
  | .const c, _ => ⟨.scalar c, rfl, trivial, fun _ _ => rfl, fun _ h => absurd rfl h⟩
  | .cid k, h => by
    obtain ⟨v, hv, hok, hval⟩ := h k (by simp [Expr.fromIds])
    exact ⟨v, hv, hok, hval, fun ha _ => ha k (by simp [Expr.fromIds]) v hv⟩
  | .bin o l r, h => by
    obtain ⟨a, ha, haok, haval, haarr⟩ := evalWith_spec opf get pt S l
      (fun k hk => h k (by simp [Expr.fromIds, hk]))
    obtain ⟨b, hb, hbok, hbval, hbarr⟩ := evalWith_spec opf get pt S r
      (fun k hk => h k (by simp [Expr.fromIds, hk]))
    obtain ⟨res, hres, hresok, hresarr, hresval⟩ := binaryCompute_spec (opf o) a b S haok hbok
    refine ⟨res, ?_, hresok, ?_, ?_⟩
    · simp only [Expr.evalWith, ha, hb, hres]
    · intro idx hi
      rw [hresval idx hi, haval idx hi, hbval idx hi]
      rfl
    · intro hall hne
      rw [hresarr]
      by_cases hl : l.fromIds = []
      · have hr : r.fromIds ≠ [] := by
          intro hr; apply hne; simp [Expr.fromIds, hl, hr]
        rw [hbarr (fun k hk => hall k (by simp [Expr.fromIds, hk])) hr]; simp
      · rw [haarr (fun k hk => hall k (by simp [Expr.fromIds, hk])) hl]; simp

/-! ### `ComponentLink.compute` (user function of n inputs) -/

theorem allArr_map (as : List (SArr α)) : allArr (as.map Val.arr) = some as := by
  induction as with
  | nil => rfl
  | cons a rest ih => simp [allArr, ih]

theorem bshapeAll_spec (S : List Nat) : ∀ (shs : List (List Nat)), shs ≠ [] →
    (∀ sh ∈ shs, Sub sh S) →
    ∃ B, bshapeAll shs = some B ∧ Sub B S ∧ ∀ sh ∈ shs, Sub sh B
  | [], h, _ => absurd rfl h
  | [s], _, hall => by
    refine ⟨s, rfl, hall s (by simp), ?_⟩
    intro sh hsh
    simp at hsh; subst hsh; exact Sub.refl _
  | s :: s2 :: rest, _, hall => by
    obtain ⟨B', hB', hB'S, hrest⟩ := bshapeAll_spec S (s2 :: rest) (by simp)
      (fun sh hsh => hall sh (by simp [hsh]))
    obtain ⟨B, hB, hBS, hsB, hB'B⟩ := bshape_spec (hall s (by simp)) hB'S
    refine ⟨B, ?_, hBS, ?_⟩
    · simp only [bshapeAll, hB', Option.bind_some, hB]
    · intro sh hsh
      simp only [List.mem_cons] at hsh
      rcases hsh with rfl | hsh
      · exact hsB
      · exact Sub.trans (hrest sh (by simpa using hsh)) hB'B hBS

/-- Pointwise relation between two lists of equal length. -/
inductive All2 {β γ : Type} (R : β → γ → Prop) : List β → List γ → Prop
  | nil : All2 R [] []
  | cons {a : β} {b : γ} {as : List β} {bs : List γ} : R a b → All2 R as bs → All2 R (a :: as) (b :: bs)

theorem mapM'_broadcast (B : List Nat) : ∀ (us : List (SArr α)),
    (∀ u ∈ us, Sub u.shape B ∧ u.WF) →
    ∃ bs, mapM' (broadcastTo · B) us = some bs ∧
      All2 (fun u b => b.shape = B ∧ b.WF ∧
        ∀ j, InB j B → b.at j = u.at (clamp u.shape j)) us bs
  | [], _ => ⟨[], rfl, .nil⟩
  | u :: rest, h => by
    obtain ⟨bs, hbs, hf⟩ := mapM'_broadcast B rest (fun v hv => h v (by simp [hv]))
    obtain ⟨b, hb, hbsh, hbw, hbat⟩ := broadcastTo_spec u B (h u (by simp)).1 (h u (by simp)).2
    exact ⟨b :: bs, by simp [mapM', hb, hbs], .cons ⟨hbsh, hbw, hbat⟩ hf⟩

/-- The shape repair `result.shape = args[0].shape` re-installs the broadcast shape on the same
buffer: whether or not the user function ravelled its result, the outcome is the same array. -/
theorem ravel_repair (f : List α → α) (bs : List (SArr α)) (B : List Nat) (rv : Bool) :
    (let res := freshN f bs B
     let res := if rv then { res with shape := [prodN B], strides := [1] } else res
     if res.shape != B then { res with shape := B, strides := contig B } else res) =
    freshN f bs B := by
  cases rv with
  | false => simp [freshN]
  | true =>
    simp only [if_true]
    by_cases hB : [prodN B] = B
    · have hne : ¬ (([prodN B] != B) = true) := by simp [hB]
      simp only [hne, if_false]
      -- `B = [n]`, whose contiguous stride is `[1]`
      cases B with
      | nil => simp at hB
      | cons n ns =>
        cases ns with
        | nil => simp [freshN, contig, prodN]
        | cons m ms => simp at hB
    · have hne : ([prodN B] != B) = true := by simp [hB]
      simp only [hne, if_true, freshN]

theorem forall₂_map_eq {us bs : List (SArr α)} {B : List Nat} {g : SArr α → α} {j : List Nat}
    (hj : InB j B)
    (h : All2 (fun u b => b.shape = B ∧ b.WF ∧
        ∀ j, InB j B → b.at j = u.at (clamp u.shape j)) us bs)
    (hg : ∀ u ∈ us, u.at (clamp u.shape j) = g u) :
    bs.map (·.at j) = us.map g := by
  induction h with
  | nil => rfl
  | cons hub _ ih =>
    simp only [List.map_cons]
    rw [hub.2.2 j hj, hg _ (by simp), ih (fun u hu => hg u (by simp [hu]))]

/-- `ComponentLink.compute` on array arguments: for every elementwise user function `f` of any
number of inputs, every stride pattern of the inputs, ravelled result or not, the result has the
shape of the view and holds `f` of the inputs' elements at every index. -/
theorem linkCompute_arr (f : List α → α) (rv : Bool) (as : List (SArr α)) (S : List Nat)
    (hne : as ≠ []) (hall : ∀ a ∈ as, a.shape = S ∧ a.WF) :
    ∃ res, linkCompute f rv (as.map .arr) = some (.arr res) ∧ res.shape = S ∧ res.WF ∧
      ∀ idx, InB idx S → res.at idx = f (as.map (·.at idx)) := by
  cases as with
  | nil => exact absurd rfl hne
  | cons a0 rest =>
    have hus : ∀ u ∈ (a0 :: rest).map unbroadcast, Sub u.shape S ∧ u.WF := by
      intro u hu
      obtain ⟨a, ha, rfl⟩ := List.mem_map.mp hu
      obtain ⟨h1, h2, _⟩ := unbroadcast_spec a (hall a ha).2
      rw [(hall a ha).1] at h1
      exact ⟨h1, h2⟩
    obtain ⟨B, hB, hBS, hsub⟩ := bshapeAll_spec S (((a0 :: rest).map unbroadcast).map (·.shape))
      (by simp) (by
        intro sh hsh
        obtain ⟨u, hu, rfl⟩ := List.mem_map.mp hsh
        exact (hus u hu).1)
    obtain ⟨bs, hbs, hf⟩ := mapM'_broadcast B ((a0 :: rest).map unbroadcast)
      (fun u hu => ⟨hsub _ (List.mem_map.mpr ⟨u, hu, rfl⟩), (hus u hu).2⟩)
    have hFS : Sub (freshN f bs B).shape S := hBS
    obtain ⟨res, hres, hress, hresw, hresat⟩ :=
      broadcastTo_spec (freshN f bs B) S hFS (contig_length B)
    refine ⟨res, ?_, hress, hresw, ?_⟩
    · simp only [List.map_cons, linkCompute, allArr_map]
      simp only [List.map_cons] at hB hbs
      simp only [hB, hbs]
      have hrep := ravel_repair f bs B rv
      simp only at hrep
      rw [hrep, (hall a0 (by simp)).1, hres]
      rfl
    · intro idx hi
      have hci : InB (clamp B idx) B := InB_clamp hBS hi
      rw [hresat idx hi]
      show (freshN f bs B).at (clamp B idx) = _
      rw [freshN_at f bs B _ hci]
      congr 1
      rw [forall₂_map_eq (g := fun u => u.at (clamp u.shape idx)) hci hf]
      · rw [List.map_map]
        apply List.map_congr_left
        intro a ha
        obtain ⟨_, _, hat⟩ := unbroadcast_spec a (hall a ha).2
        have := hat idx (by rw [(hall a ha).1]; exact hi)
        simpa using this
      · intro u hu
        have hsu := hsub _ (List.mem_map.mpr ⟨u, hu, rfl⟩)
        rw [clamp_clamp hsu hBS hi]

end GlueVerif.Derived
