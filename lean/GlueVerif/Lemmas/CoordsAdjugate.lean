import GlueVerif.Lemmas.CoordsLinAlg
import Mathlib.Tactic.IntervalCases
import Mathlib.Tactic.NormNum
/-!
# C15 — the adjugate inverse of the model (`invAug`, dimensions 1–3) is a two-sided inverse

By cases on the dimension; each entry equation is a rational-function identity closed by
`field_simp; ring` with the determinant as the only denominator.
-/
namespace GlueVerif.Lemmas.Coords
open GlueVerif.Coords
open Finset

set_option linter.unusedSimpArgs false

theorem ent_cons_zero (r : List Rat) (rs : Mat) (j : Nat) : ent (r :: rs) 0 j = r.getD j 0 := by
  simp [ent]
theorem ent_cons_succ (r : List Rat) (rs : Mat) (i j : Nat) : ent (r :: rs) (i+1) j = ent rs i j := by
  simp [ent]
theorem ent_nil (i j : Nat) : ent [] i j = 0 := by simp [ent]

theorem invAug_isInv1 (M N : Mat) (hrow : lastRowOk 1 M = true) (h : invAug 1 M = some N) :
    isInv 1 M N = true := by
  obtain ⟨hz, ho⟩ := (lastRowOk_iff 1 M).mp hrow
  have hz0 := hz 0 (by omega)
  unfold invAug at h
  simp only [show ¬ ((1:Nat) = 0 ∨ 3 < 1) by omega, if_false] at h
  by_cases hd : det 1 M = 0
  · simp [hd] at h
  · simp only [hd, if_false, Option.some.injEq] at h
    have hd : det 1 M ≠ 0 := hd
    subst h
    rw [isInv_iff]
    intro i hi j hj
    interval_cases i <;> interval_cases j <;>
      simp only [Finset.sum_range_succ, Finset.sum_range_zero, adj, sumTo, delta, List.range, List.range.loop,
        List.map_cons, List.map_nil, ent_cons_zero, ent_cons_succ, ent_nil, List.getD_cons_zero, List.getD_cons_succ,
        List.cons_append, List.nil_append, List.getD_nil, hz0, ho] <;>
      (refine ⟨?_, ?_⟩ <;> norm_num <;> field_simp <;> simp only [det] <;> ring)

theorem invAug_isInv2 (M N : Mat) (hrow : lastRowOk 2 M = true) (h : invAug 2 M = some N) :
    isInv 2 M N = true := by
  obtain ⟨hz, ho⟩ := (lastRowOk_iff 2 M).mp hrow
  have hz0 := hz 0 (by omega)
  have hz1 := hz 1 (by omega)
  unfold invAug at h
  simp only [show ¬ ((2:Nat) = 0 ∨ 3 < 2) by omega, if_false] at h
  by_cases hd : det 2 M = 0
  · simp [hd] at h
  · simp only [hd, if_false, Option.some.injEq] at h
    have hd : det 2 M ≠ 0 := hd
    subst h
    rw [isInv_iff]
    intro i hi j hj
    interval_cases i <;> interval_cases j <;>
      simp only [Finset.sum_range_succ, Finset.sum_range_zero, adj, sumTo, delta, List.range, List.range.loop,
        List.map_cons, List.map_nil, ent_cons_zero, ent_cons_succ, ent_nil, List.getD_cons_zero, List.getD_cons_succ,
        List.cons_append, List.nil_append, List.getD_nil, hz0, hz1, ho] <;>
      (refine ⟨?_, ?_⟩ <;> norm_num <;> field_simp <;> simp only [det] <;> ring)

theorem invAug_isInv3 (M N : Mat) (hrow : lastRowOk 3 M = true) (h : invAug 3 M = some N) :
    isInv 3 M N = true := by
  obtain ⟨hz, ho⟩ := (lastRowOk_iff 3 M).mp hrow
  have hz0 := hz 0 (by omega)
  have hz1 := hz 1 (by omega)
  have hz2 := hz 2 (by omega)
  unfold invAug at h
  simp only [show ¬ ((3:Nat) = 0 ∨ 3 < 3) by omega, if_false] at h
  by_cases hd : det 3 M = 0
  · simp [hd] at h
  · simp only [hd, if_false, Option.some.injEq] at h
    have hd : det 3 M ≠ 0 := hd
    subst h
    rw [isInv_iff]
    intro i hi j hj
    interval_cases i <;> interval_cases j <;>
      simp only [Finset.sum_range_succ, Finset.sum_range_zero, adj, sumTo, delta, List.range, List.range.loop,
        List.map_cons, List.map_nil, ent_cons_zero, ent_cons_succ, ent_nil, List.getD_cons_zero, List.getD_cons_succ,
        List.cons_append, List.nil_append, List.getD_nil, hz0, hz1, hz2, ho] <;>
      (refine ⟨?_, ?_⟩ <;> norm_num <;> field_simp <;> simp only [det] <;> ring)

/-- For `1 ≤ n ≤ 3` the inverse the model computes (adjugate / determinant) is a two-sided inverse
of the augmented matrix. -/
theorem invAug_isInv (n : Nat) (M N : Mat) (hrow : lastRowOk n M = true) (h : invAug n M = some N) :
    isInv n M N = true := by
  by_cases h1 : n = 1
  · subst h1; exact invAug_isInv1 M N hrow h
  by_cases h2 : n = 2
  · subst h2; exact invAug_isInv2 M N hrow h
  by_cases h3 : n = 3
  · subst h3; exact invAug_isInv3 M N hrow h
  · unfold invAug at h
    rw [if_pos (by omega)] at h
    cases h

/-- `invAug` succeeds exactly when the determinant of the linear part is non-zero (`1 ≤ n ≤ 3`). -/
theorem invAug_isSome_iff (n : Nat) (M : Mat) (hn : 1 ≤ n ∧ n ≤ 3) :
    (invAug n M).isSome = true ↔ det n M ≠ 0 := by
  unfold invAug
  rw [if_neg (by omega)]
  by_cases hd : det n M = 0 <;> simp [hd]

/-- Every coordinate object `mkAffine` constructs is well formed. -/
theorem mkAffine_wf (M : Mat) (c : Coord) (h : mkAffine M = .ok c) : c.wf = true := by
  unfold mkAffine at h
  by_cases h0 : M.length = 0
  · simp [h0] at h
  simp only [h0, if_false] at h
  by_cases hsq : isSquare (M.length - 1) M = true
  · by_cases hlr : lastRowOk (M.length - 1) M = true
    · simp only [hsq, hlr, Bool.not_true, Bool.false_eq_true, if_false] at h
      by_cases hn : M.length - 1 = 0 ∨ 3 < M.length - 1
      · simp [hn] at h
      · simp only [hn, if_false] at h
        cases hi : invAug (M.length - 1) M with
        | none => rw [hi] at h; cases h
        | some inv =>
          rw [hi] at h
          simp only [Except.ok.injEq] at h
          subst h
          simp only [Coord.wf, Bool.and_eq_true]
          exact ⟨⟨hsq, hlr⟩, invAug_isInv _ M inv hlr hi⟩
    · simp [hsq, hlr] at h
  · simp [hsq] at h

end GlueVerif.Lemmas.Coords
