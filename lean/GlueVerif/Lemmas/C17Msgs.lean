import GlueVerif.Lemmas.C17Refresh
/-!
Helper lemmas for C17, part 4: the messages of every call explain exactly the
change of the identifier list (`replay`).
-/
namespace GlueVerif.Lemmas.C17
open GlueVerif.DataStruct

/-- Continuation form of "replaying `ms` turns the identifier list `cur` into `cur'`". -/
def Rep (cur cur' : List Cid) (ms : List Msg) : Prop :=
  ∀ rest, replay (ms ++ rest) cur = replay rest cur'

theorem Rep.nil (cur : List Cid) : Rep cur cur [] := fun _ => rfl

theorem Rep.append {a b c : List Cid} {m1 m2 : List Msg} (h1 : Rep a b m1) (h2 : Rep b c m2) :
    Rep a c (m1 ++ m2) := by
  intro rest
  rw [List.append_assoc, h1, h2]

theorem Rep.done {a b : List Cid} {ms : List Msg} (h : Rep a b ms) : replay ms a = some b := by
  have := h []
  simpa [replay] using this

theorem rep_adds : ∀ (ids cur : List Cid), ids.Nodup → (∀ c ∈ ids, c ∉ cur) →
    Rep cur (cur ++ ids) (ids.flatMap fun c => [Msg.add c, Msg.changed])
  | [], cur, _, _ => by simpa using Rep.nil cur
  | c :: ids, cur, hnd, hnew => by
    simp only [List.nodup_cons] at hnd
    intro rest
    have hc : cur.contains c = false := by simpa using hnew c List.mem_cons_self
    simp only [List.flatMap_cons, List.cons_append, List.nil_append, replay, hc, Bool.false_eq_true, if_false]
    have := rep_adds ids (cur ++ [c]) hnd.2 (by
      intro x hx
      simp only [List.mem_append, List.mem_singleton, not_or]
      exact ⟨hnew x (List.mem_cons_of_mem _ hx), fun e => hnd.1 (e ▸ hx)⟩) rest
    rw [this]
    simp

theorem rep_removes : ∀ (R cur : List Cid), cur.Nodup → R.Nodup → (∀ c ∈ R, c ∈ cur) →
    Rep cur (cur.filter fun x => !R.contains x) (R.flatMap fun c => [Msg.remove c, Msg.changed])
  | [], cur, _, _, _ => by
    have : (cur.filter fun x => !([] : List Cid).contains x) = cur := List.filter_eq_self.2 (by simp)
    rw [this]; simpa using Rep.nil cur
  | c :: R, cur, hcur, hnd, hsub => by
    simp only [List.nodup_cons] at hnd
    intro rest
    have hc : cur.contains c = true := by simpa using hsub c List.mem_cons_self
    simp only [List.flatMap_cons, List.cons_append, List.nil_append, replay, hc, if_true]
    have herase : cur.erase c = cur.filter (fun x => x != c) := hcur.erase_eq_filter c
    have hcur' : (cur.erase c).Nodup := hcur.erase c
    have := rep_removes R (cur.erase c) hcur' hnd.2 (by
      intro x hx
      rw [herase]
      simp only [List.mem_filter, bne_iff_ne, ne_eq]
      exact ⟨hsub x (List.mem_cons_of_mem _ hx), fun e => hnd.1 (e ▸ hx)⟩) rest
    rw [this, herase, List.filter_filter]
    congr 2
    funext x
    simp only [List.contains_cons, Bool.not_or, bne, Bool.and_comm]


/-! ## effects of the internal building blocks (with a hub) -/

def Msg.isStructural : Msg → Bool
  | .add _ => true
  | .remove _ => true
  | .changed => true
  | .replaced _ _ => true
  | .reorder _ => true
  | _ => false

/-- The announcements of the building blocks: additions and removals with their
`ComponentsChanged`. -/
def Msg.isAR : Msg → Bool
  | .add _ => true
  | .remove _ => true
  | .changed => true
  | _ => false

theorem isAR_structural {m : Msg} (h : Msg.isAR m = true) : Msg.isStructural m = true := by
  cases m <;> first | rfl | cases h

/-- Well-formedness the building blocks need and keep: unique identifiers, all older than `next`. -/
structure W (s : State) : Prop where
  nodup : (cids s.comps).Nodup
  fresh : ∀ c ∈ cids s.comps, c < s.next

theorem W_of_inv {s : State} (h : Inv s) : W s := ⟨h.nodup, h.fresh.1⟩

/-- Effect of a building block, relative to a set `old` of identifiers that existed before the
call: with a hub `ms` replays the identifier list of `s` into that of `s'` and contains only
structural announcements, without a hub nothing is announced; the new identifier list is the old one
minus some ids plus ids that are not `old`, at the end; everything else the hub could tell (labels of
old ids, dataset label, linked ids, components stored under old ids) is untouched. -/
structure Eff (old : Cid → Prop) (s s' : State) (ms : List Msg) : Prop where
  rep : s.hub = true → Rep (cids s.comps) (cids s'.comps) ms
  quiet : s.hub = false → ms = []
  ar : ∀ m ∈ ms, Msg.isAR m = true
  hub : s'.hub = s.hub
  label : ∀ c, old c → s'.label c = s.label c
  dlabel : s'.dlabel = s.dlabel
  linked : s'.linked = s.linked
  inDc : s'.inDc = s.inDc
  form : ∃ (k : Cid → Bool) (new : List Cid), cids s'.comps = (cids s.comps).filter k ++ new ∧ ∀ c ∈ new, ¬ old c

theorem Eff.structural {old : Cid → Prop} {s s' : State} {ms : List Msg} (e : Eff old s s' ms) :
    ∀ m ∈ ms, Msg.isStructural m = true := fun m hm => isAR_structural (e.ar m hm)

theorem Eff.refl (old : Cid → Prop) (s : State) : Eff old s s [] :=
  ⟨fun _ => Rep.nil _, fun _ => rfl, by simp, rfl, fun _ _ => rfl, rfl, rfl, rfl,
   ⟨fun _ => true, [], by simp, by simp⟩⟩

theorem Eff.trans {old : Cid → Prop} {s s1 s2 : State} {m1 m2 : List Msg} (h1 : Eff old s s1 m1)
    (h2 : Eff old s1 s2 m2) : Eff old s s2 (m1 ++ m2) := by
  refine ⟨fun hh => (h1.rep hh).append (h2.rep (h1.hub.trans hh)), ?_, ?_, h2.hub.trans h1.hub,
    fun c hc => (h2.label c hc).trans (h1.label c hc), h2.dlabel.trans h1.dlabel,
    h2.linked.trans h1.linked, h2.inDc.trans h1.inDc, ?_⟩
  · intro hh
    rw [h1.quiet hh, h2.quiet (h1.hub.trans hh)]; rfl
  · intro m hm
    rcases List.mem_append.1 hm with hm | hm
    · exact h1.ar m hm
    · exact h2.ar m hm
  · obtain ⟨k1, n1, e1, o1⟩ := h1.form
    obtain ⟨k2, n2, e2, o2⟩ := h2.form
    refine ⟨fun x => k1 x && k2 x, n1.filter k2 ++ n2, ?_, ?_⟩
    · rw [e2, e1, List.filter_append, List.filter_filter, List.append_assoc]
      congr 2
      funext x
      exact Bool.and_comm _ _
    · intro c hc
      rcases List.mem_append.1 hc with hc | hc
      · exact o1 c (List.mem_filter.1 hc).1
      · exact o2 c hc

/-- A change that the hub cannot see and that leaves the table alone. -/
theorem Eff.silent {old : Cid → Prop} {s s' : State} (hc : cids s'.comps = cids s.comps) (hh : s'.hub = s.hub)
    (hl : ∀ c, old c → s'.label c = s.label c) (hd : s'.dlabel = s.dlabel) (hk : s'.linked = s.linked)
    (hi : s'.inDc = s.inDc) : Eff old s s' [] :=
  ⟨fun _ => by rw [hc]; exact Rep.nil _, fun _ => rfl, by simp, hh, hl, hd, hk, hi,
   ⟨fun _ => true, [], by simp [hc], by simp⟩⟩

/-- Components stored under `old` identifiers are unchanged components of the previous state. -/
def Keep (old : Cid → Prop) (s s' : State) : Prop := ∀ x' ∈ s'.comps, old x'.cid → x' ∈ s.comps

theorem Keep.refl (old : Cid → Prop) (s : State) : Keep old s s := fun _ h _ => h

theorem Keep.trans {old : Cid → Prop} {a b c : State} (h1 : Keep old a b) (h2 : Keep old b c) : Keep old a c :=
  fun x hx ho => h1 x (h2 x hx ho) ho

theorem Keep.of_eq {old : Cid → Prop} {s s' : State} (h : s'.comps = s.comps) : Keep old s s' :=
  fun x hx _ => h ▸ hx

theorem cids_filter_contains (cs : List Comp) (R : List Cid) :
    cids (cs.filter fun x => !R.contains x.cid) = (cids cs).filter fun x => !R.contains x := by
  simp only [cids, List.filter_map, Function.comp_def]

theorem structural_adds (ids : List Cid) : ∀ m ∈ ids.flatMap (fun c => [Msg.add c, Msg.changed]),
    Msg.isAR m = true := by
  intro m hm
  simp only [List.mem_flatMap, List.mem_cons, List.mem_nil_iff, or_false] at hm
  obtain ⟨c, _, rfl | rfl⟩ := hm <;> rfl

theorem structural_removes (ids : List Cid) : ∀ m ∈ ids.flatMap (fun c => [Msg.remove c, Msg.changed]),
    Msg.isAR m = true := by
  intro m hm
  simp only [List.mem_flatMap, List.mem_cons, List.mem_nil_iff, or_false] at hm
  obtain ⟨c, _, rfl | rfl⟩ := hm <;> rfl

theorem structural_announceRemoves (s : State) (R : List Cid) : ∀ m ∈ announceRemoves s R, Msg.isAR m = true := by
  simp only [announceRemoves]
  split
  · exact structural_removes R
  · simp

theorem structural_announceAdds (s : State) (R : List Cid) : ∀ m ∈ announceAdds s R, Msg.isAR m = true := by
  simp only [announceAdds]
  split
  · exact structural_adds R
  · simp

theorem eff_removeAll {old : Cid → Prop} {s : State} (hW : W s) (ids : List Cid) :
    Eff old s (removeAll s ids).1 (removeAll s ids).2 ∧ W (removeAll s ids).1 ∧
    (removeAll s ids).1.next = s.next := by
  obtain ⟨R, hR⟩ := removeAll_ok ids s
  rw [hR.state, hR.msgs]
  refine ⟨⟨?_, ?_, structural_announceRemoves s R, rfl, fun _ _ => rfl, rfl, rfl, rfl, ?_⟩, ⟨?_, ?_⟩, rfl⟩
  · intro hh
    have hm : announceRemoves s R = R.flatMap fun c => [Msg.remove c, Msg.changed] := by
      simp [announceRemoves, hh]
    simp only [hm]
    rw [cids_filter_contains]
    exact rep_removes R _ hW.nodup hR.nodup hR.sub
  · intro hh; simp [announceRemoves, hh]
  · exact ⟨fun x => !R.contains x, [], by rw [List.append_nil]; exact cids_filter_contains _ _, by simp⟩
  · simp only [cids]
    exact (List.Sublist.map _ List.filter_sublist).nodup (by simpa [cids] using hW.nodup)
  · intro c hc
    obtain ⟨y, hy, rfl, _⟩ := mem_cids_filter hc
    exact hW.fresh _ (List.mem_map.2 ⟨y, hy, rfl⟩)

/-- Generating a family of `n` brand-new coordinate components (`newPixels` / `newWorlds`). -/
theorem eff_family {old : Cid → Prop} {s s' : State} {ms : List Msg} (hW : W s) (hb : ∀ c, old c → c < s.next)
    (mk : Nat → Kind) (n : Nat) (hc : s'.comps = s.comps ++ famComps s.next mk n)
    (hl : ∃ f : Nat → Label, s'.labels = (List.range n).map (fun i => (s.next + i, f i)) ++ s.labels)
    (hms : ms = announceAdds s (famIds s.next n))
    (hh : s'.hub = s.hub) (hd : s'.dlabel = s.dlabel) (hk : s'.linked = s.linked) (hi : s'.inDc = s.inDc)
    (hn : s'.next = s.next + n) :
    Eff old s s' ms ∧ W s' := by
  have hcids : cids s'.comps = cids s.comps ++ famIds s.next n := by
    rw [hc]; simp only [cids, List.map_append]; congr 1; exact cids_famComps _ _ _
  have hdisj : ∀ c ∈ famIds s.next n, c ∉ cids s.comps := by
    intro c hc' hm
    have := hW.fresh c hm
    have := mem_famIds.1 hc'
    omega
  refine ⟨⟨?_, ?_, ?_, hh, ?_, hd, hk, hi, ?_⟩, ⟨?_, ?_⟩⟩
  · intro hhub
    rw [hcids, hms]
    simp only [announceAdds, hhub, if_true]
    exact rep_adds _ _ (famIds_nodup _ _) hdisj
  · intro hhub; rw [hms]; simp [announceAdds, hhub]
  · rw [hms]; exact structural_announceAdds _ _
  · intro c hcb
    obtain ⟨f, hf⟩ := hl
    simp only [State.label, hf]
    rw [lookup_fresh_prefix]
    intro p hp
    simp only [List.mem_map, List.mem_range] at hp
    obtain ⟨i, _, rfl⟩ := hp
    have := hb c hcb
    simp only; omega
  · refine ⟨fun _ => true, famIds s.next n, by simp [hcids], ?_⟩
    intro c hc' ho
    have := hb c ho
    have := mem_famIds.1 hc'
    omega
  · rw [hcids, List.nodup_append]
    exact ⟨hW.nodup, famIds_nodup _ _, fun a ha b' hb' hab => hdisj b' hb' (hab ▸ ha)⟩
  · intro c hc'
    rw [hcids] at hc'
    rcases List.mem_append.1 hc' with hc' | hc'
    · have := hW.fresh c hc'; omega
    · have := mem_famIds.1 hc'; omega

theorem eff_newPixels {old : Cid → Prop} {s : State} (hW : W s) (hb : ∀ c, old c → c < s.next) (n : Nat) :
    Eff old s (newPixels s n).1 (newPixels s n).2 ∧ W (newPixels s n).1 :=
  eff_family hW hb .pixel n rfl ⟨fun i => pixelLabel i n, rfl⟩ rfl rfl rfl rfl rfl rfl

theorem eff_newWorlds {old : Cid → Prop} {s : State} (hW : W s) (hb : ∀ c, old c → c < s.next) (n : Nat) :
    Eff old s (newWorlds s n).1 (newWorlds s n).2 ∧ W (newWorlds s n).1 :=
  eff_family hW hb .world n rfl ⟨fun i => worldLabel i, rfl⟩ rfl rfl rfl rfl rfl rfl

theorem eff_updateWorld {old : Cid → Prop} {s : State} (hW : W s) (hb : ∀ c, old c → c < s.next) (n : Nat) :
    Eff old s (updateWorld s n).1 (updateWorld s n).2 ∧ W (updateWorld s n).1 ∧ s.next ≤ (updateWorld s n).1.next := by
  simp only [updateWorld, Res.bind]
  obtain ⟨e1, w1, n1⟩ := eff_removeAll (old := old) hW s.world
  generalize (removeAll s s.world) = r1 at e1 w1 n1
  have e2 : Eff old r1.1 { r1.1 with world := [], nlinks := 0 } [] :=
    Eff.silent rfl rfl (fun _ _ => rfl) rfl rfl rfl
  have w2 : W { r1.1 with world := [], nlinks := 0 } := ⟨w1.nodup, w1.fresh⟩
  split
  · obtain ⟨e3, w3⟩ := eff_newWorlds (old := old) w2 (by simp only [n1]; exact hb) n
    refine ⟨?_, w3, ?_⟩
    · have := (e1.trans e2).trans e3
      simpa using this
    · simp [newWorlds, n1]
  · refine ⟨?_, w2, by simp [n1]⟩
    have := e1.trans e2
    simpa using this

theorem eff_setCoords {old : Cid → Prop} {s : State} (hW : W s) (hb : ∀ c, old c → c < s.next) (v : Option Nat) :
    Eff old s (setCoords s v).1 (setCoords s v).2 ∧ W (setCoords s v).1 ∧ s.next ≤ (setCoords s v).1.next := by
  simp only [setCoords]
  split
  · split
    · exact ⟨Eff.silent rfl rfl (fun _ _ => rfl) rfl rfl rfl, ⟨hW.nodup, hW.fresh⟩, Nat.le_refl _⟩
    · have e0 : Eff old s { s with coords := v } [] := Eff.silent rfl rfl (fun _ _ => rfl) rfl rfl rfl
      obtain ⟨e1, w1, n1⟩ := eff_updateWorld (old := old) (s := { s with coords := v }) ⟨hW.nodup, hW.fresh⟩ hb s.shape.length
      exact ⟨by simpa using e0.trans e1, w1, n1⟩
  · exact ⟨Eff.refl old s, hW, Nat.le_refl _⟩


/-! ### `Keep` for the building blocks -/

theorem keep_removeAll (old : Cid → Prop) (s : State) (ids : List Cid) : Keep old s (removeAll s ids).1 := by
  obtain ⟨R, hR⟩ := removeAll_ok ids s
  rw [hR.state]
  exact fun x hx _ => (List.mem_filter.1 hx).1

theorem keep_family {old : Cid → Prop} {s s' : State} (hb : ∀ c, old c → c < s.next) (mk : Nat → Kind) (n : Nat)
    (hc : s'.comps = s.comps ++ famComps s.next mk n) : Keep old s s' := by
  intro x hx ho
  rw [hc] at hx
  rcases List.mem_append.1 hx with hx | hx
  · exact hx
  · simp only [famComps, List.mem_map, List.mem_range] at hx
    obtain ⟨i, _, rfl⟩ := hx
    have := hb _ ho
    simp only at this; omega

theorem keep_updateWorld {old : Cid → Prop} {s : State} (hb : ∀ c, old c → c < s.next) (n : Nat) :
    Keep old s (updateWorld s n).1 := by
  simp only [updateWorld, Res.bind]
  have k1 := keep_removeAll old s s.world
  have n1 : (removeAll s s.world).1.next = s.next := (frame_removeAll s s.world).1.next |> fun h => by
    obtain ⟨R, hR⟩ := removeAll_ok s.world s
    rw [hR.state]
  generalize (removeAll s s.world) = r1 at k1 n1
  have k2 : Keep old r1.1 { r1.1 with world := [], nlinks := 0 } := Keep.of_eq rfl
  split
  · exact (k1.trans k2).trans (keep_family (s := { r1.1 with world := [], nlinks := 0 })
      (by simp only [n1]; exact hb) .world n rfl)
  · exact k1.trans k2

theorem keep_setCoords {old : Cid → Prop} {s : State} (hb : ∀ c, old c → c < s.next) (v : Option Nat) :
    Keep old s (setCoords s v).1 := by
  simp only [setCoords]
  split
  · split
    · exact Keep.of_eq rfl
    · exact (Keep.of_eq (s' := { s with coords := v }) rfl).trans
        (keep_updateWorld (s := { s with coords := v }) hb s.shape.length)
  · exact Keep.refl old s

end GlueVerif.Lemmas.C17
