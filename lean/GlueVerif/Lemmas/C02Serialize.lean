import GlueVerif.Lemmas.C02Names
/-! The serializer only ever extends the registry at the end and keeps it well-formed
(`Ext`), through `do`, a `do_all` pass and the fixpoint loop. -/
namespace GlueVerif.C02

variable (h : Heap) (main : Nat)

abbrev DoO := SState → Nat → Except SErr (SState × JVal)

def DoOExt (doO : DoO) : Prop := ∀ st p st' j, doO st p = .ok (st', j) → Ext main st st'

theorem doField_ext {doO : DoO} (hO : DoOExt main doO) {st st' : SState} {v : Val} {j : JVal}
    (hd : doField h main doO st v = .ok (st', j)) : Ext main st st' := by
  unfold doField at hd
  cases v with
  | lit n => simp only [Except.ok.injEq, Prod.mk.injEq] at hd; rw [← hd.1]; exact Ext.refl _ _
  | str s => simp only [Except.ok.injEq, Prod.mk.injEq] at hd; rw [← hd.1]; exact Ext.refl _ _
  | ref p =>
    simp only [Except.ok.injEq, Prod.mk.injEq] at hd
    rw [← hd.1]; exact idObj_ext h main st p
  | own p => exact hO _ _ _ _ hd

theorem doFields_ext {doO : DoO} (hO : DoOExt main doO) :
    ∀ (fs : List Field) (st st' : SState) (js : List (Phase × JVal)),
      doFields h main doO st fs = .ok (st', js) → Ext main st st'
  | [], st, st', js, hd => by
    simp only [doFields, Except.ok.injEq, Prod.mk.injEq] at hd
    rw [← hd.1]; exact Ext.refl _ _
  | f :: fs, st, st', js, hd => by
    unfold doFields at hd
    split at hd
    · cases hd
    · rename_i st1 j hf
      split at hd
      · cases hd
      · rename_i st2 js2 hfs
        simp only [Except.ok.injEq, Prod.mk.injEq] at hd
        rw [← hd.1]
        exact (doField_ext h main hO hf).trans (doFields_ext hO fs st1 st2 js2 hfs)

theorem doObj_ext : ∀ (f : Nat), DoOExt main (doObj h main f)
  | 0 => by intro st p st' j hd; simp [doObj] at hd
  | f + 1 => by
    intro st o st' j hd
    unfold doObj at hd
    split at hd
    · cases hd
    · split at hd
      · cases hd
      · rename_i ob _
        split at hd
        · cases hd
        · rename_i st1 js hfs
          simp only [Except.ok.injEq, Prod.mk.injEq] at hd
          rw [← hd.1]
          have e1 : Ext main st { st with working := o :: st.working } := Ext.of_reg_eq rfl
          have e2 := doFields_ext h main (doObj_ext f) _ _ _ _ hfs
          have e3 : Ext main st1 { st1 with working := st1.working.erase o } := Ext.of_reg_eq rfl
          exact (e1.trans e2).trans e3

theorem doPass_ext (fuel : Nat) : ∀ (items : Reg) (st st' : SState) (tbl : Table),
    doPass h main fuel st items = .ok (st', tbl) → Ext main st st'
  | [], st, st', tbl, hd => by
    simp only [doPass, Except.ok.injEq, Prod.mk.injEq] at hd
    rw [← hd.1]; exact Ext.refl _ _
  | (o, n) :: rest, st, st', tbl, hd => by
    unfold doPass at hd
    split at hd
    · cases hd
    · rename_i st1 j ho
      split at hd
      · cases hd
      · rename_i st2 js hr
        simp only [Except.ok.injEq, Prod.mk.injEq] at hd
        rw [← hd.1]
        exact (doObj_ext h main fuel _ _ _ _ ho).trans (doPass_ext fuel rest st1 st2 js hr)

theorem doAll_ext (fuel : Nat) : ∀ (k : Nat) (st st' : SState) (tbl : Table),
    doAll h main fuel k st = .ok (st', tbl) → Ext main st st'
  | 0, st, st', tbl, hd => by simp [doAll] at hd
  | k + 1, st, st', tbl, hd => by
    unfold doAll at hd
    split at hd
    · cases hd
    · rename_i st1 t1 hp
      have e1 := doPass_ext h main fuel _ _ _ _ hp
      split at hd
      · simp only [Except.ok.injEq, Prod.mk.injEq] at hd
        rw [← hd.1]; exact e1
      · exact e1.trans (doAll_ext fuel k st1 st' tbl hd)

theorem serialize_regOk {st : SState} {T : Table} (hs : serialize h main = .ok (st, T)) :
    RegOk main st.reg :=
  (doAll_ext h main _ _ _ _ _ hs).ok (regOk_init main)

/-- injectivity facts from a well-formed registry -/
theorem RegOk.name_unique {main : Nat} {reg : Reg} (hk : RegOk main reg) {o : Nat} {n n' : Str}
    (h1 : (o, n) ∈ reg) (h2 : (o, n') ∈ reg) : n = n' := by
  have a := lookupName_of_mem hk.objsNodup h1
  have b := lookupName_of_mem hk.objsNodup h2
  rw [a] at b; exact Option.some.inj b

theorem mem_unique_of_nodup_snd : ∀ {reg : Reg}, (reg.map Prod.snd).Nodup → ∀ {o o' : Nat} {n : Str},
    (o, n) ∈ reg → (o', n) ∈ reg → o = o'
  | [], _, _, _, _, h1, _ => by simp at h1
  | e :: r, hnd, o, o', n, h1, h2 => by
    simp only [List.map_cons, List.nodup_cons] at hnd
    rcases List.mem_cons.mp h1 with a | a <;> rcases List.mem_cons.mp h2 with b | b
    · rw [← a] at b; exact (Prod.mk.inj b).1.symm
    · exfalso; apply hnd.1; rw [← a]; exact List.mem_map.mpr ⟨(o', n), b, rfl⟩
    · exfalso; apply hnd.1; rw [← b]; exact List.mem_map.mpr ⟨(o, n), a, rfl⟩
    · exact mem_unique_of_nodup_snd hnd.2 a b

theorem RegOk.obj_unique {main : Nat} {reg : Reg} (hk : RegOk main reg) {o o' : Nat} {n : Str}
    (h1 : (o, n) ∈ reg) (h2 : (o', n) ∈ reg) : o = o' :=
  mem_unique_of_nodup_snd hk.namesNodup h1 h2

end GlueVerif.C02
