import GlueVerif.Lemmas.DerivedTable
/-! Helper lemmas for C14 (round 2): `reorder_components` is a permutation of the component table;
the dependency closure, the result of `remove_component` and every value are independent of the
component order. -/
set_option linter.unusedSectionVars false
set_option linter.unusedSimpArgs false
namespace GlueVerif.Derived
section
variable {κ ω α : Type} [DecidableEq κ]

/-! ### lookups do not depend on the order -/

theorem find_cons_ne (p : κ × Comp κ ω α) (rest : Table κ ω α) (k : κ) (h : p.1 ≠ k) :
    Table.find (p :: rest) k = Table.find rest k := by
  obtain ⟨k', c⟩ := p
  simp only [Table.find]
  simp only at h
  simp [h]

theorem find_cons_eq (c : Comp κ ω α) (rest : Table κ ω α) (k : κ) :
    Table.find ((k, c) :: rest) k = some c := by
  simp [Table.find]

theorem find_none_of_not_mem : ∀ (t : Table κ ω α) (k : κ), k ∉ t.keys → t.find k = none
  | [], _, _ => rfl
  | (k', c') :: rest, k, h => by
    simp only [Table.keys, List.map_cons, List.mem_cons, not_or] at h
    rw [find_cons_ne (k', c') rest k (fun e => h.1 e.symm)]
    exact find_none_of_not_mem rest k h.2

/-- With unique keys, `find` is membership. -/
theorem find_eq_some_iff : ∀ (t : Table κ ω α), t.keys.Nodup → ∀ (k : κ) (c : Comp κ ω α),
    t.find k = some c ↔ (k, c) ∈ t
  | [], _, k, c => by simp [Table.find]
  | (k', c') :: rest, hnd, k, c => by
    simp only [Table.keys, List.map_cons, List.nodup_cons] at hnd
    by_cases hk : k' = k
    · subst hk
      rw [find_cons_eq]
      constructor
      · intro h; cases h; exact List.mem_cons_self
      · intro h
        rcases List.mem_cons.mp h with h | h
        · cases h; rfl
        · exact absurd (List.mem_map.mpr ⟨(k', c), h, rfl⟩) hnd.1
    · rw [find_cons_ne (k', c') rest k hk, find_eq_some_iff rest hnd.2 k c]
      constructor
      · intro h; exact List.mem_cons_of_mem _ h
      · intro h
        rcases List.mem_cons.mp h with h | h
        · cases h; exact absurd rfl hk
        · exact h

theorem keys_perm {t t' : Table κ ω α} (hp : t'.Perm t) : t'.keys.Perm t.keys :=
  hp.map _

/-- A permutation of a table with unique keys answers every lookup identically. -/
theorem find_perm {t t' : Table κ ω α} (hp : t'.Perm t) (hnd : t.keys.Nodup) (k : κ) :
    t'.find k = t.find k := by
  have hnd' : t'.keys.Nodup := (keys_perm hp).nodup_iff.mpr hnd
  cases h : t.find k with
  | some c =>
    exact (find_eq_some_iff t' hnd' k c).mpr
      (hp.mem_iff.mpr ((find_eq_some_iff t hnd k c).mp h))
  | none =>
    cases h' : t'.find k with
    | none => rfl
    | some c =>
      have := (find_eq_some_iff t hnd k c).mpr (hp.mem_iff.mp ((find_eq_some_iff t' hnd' k c).mp h'))
      rw [h] at this
      cases this

/-! ### `pick` and `reorder_components` -/

theorem pick_keys (t : Table κ ω α) : ∀ (ks : List κ), (∀ k ∈ ks, k ∈ t.keys) →
    Table.keys (t.pick ks) = ks
  | [], _ => rfl
  | k :: ks, h => by
    have hk : k ∈ t.keys := h k List.mem_cons_self
    obtain ⟨c, hc⟩ : ∃ c, t.find k = some c := by
      cases hf : t.find k with
      | some c => exact ⟨c, rfl⟩
      | none =>
        exfalso
        clear h
        induction t with
        | nil => simp [Table.keys] at hk
        | cons p rest ih =>
          by_cases hp : p.1 = k
          · obtain ⟨k', c'⟩ := p
            simp only at hp
            subst hp
            rw [find_cons_eq] at hf
            cases hf
          · rw [find_cons_ne p rest k hp] at hf
            simp only [Table.keys, List.map_cons, List.mem_cons] at hk
            rcases hk with hk | hk
            · exact hp hk.symm
            · exact ih hk hf
    have ih := pick_keys t ks (fun x hx => h x (List.mem_cons_of_mem _ hx))
    simp only [Table.pick, List.filterMap_cons, hc, Option.map_some] at ih ⊢
    simp only [Table.keys, List.map_cons] at ih ⊢
    rw [ih]

theorem filterMap_congr' {β γ : Type} {f g : β → Option γ} : ∀ (l : List β),
    (∀ x ∈ l, f x = g x) → l.filterMap f = l.filterMap g
  | [], _ => rfl
  | x :: xs, h => by
    simp only [List.filterMap_cons, h x List.mem_cons_self,
      filterMap_congr' xs (fun y hy => h y (List.mem_cons_of_mem _ hy))]

theorem pick_self : ∀ (t : Table κ ω α), t.keys.Nodup → t.pick t.keys = t
  | [], _ => rfl
  | (k, c) :: rest, hnd => by
    simp only [Table.keys, List.map_cons, List.nodup_cons] at hnd
    have ih := pick_self rest hnd.2
    simp only [Table.pick, Table.keys, List.map_cons, List.filterMap_cons, find_cons_eq,
      Option.map_some]
    congr 1
    have : List.filterMap (fun k' => (Table.find ((k, c) :: rest) k').map fun c' => (k', c'))
        (rest.map (·.1)) =
        List.filterMap (fun k' => (Table.find rest k').map fun c' => (k', c')) (rest.map (·.1)) := by
      apply filterMap_congr'
      intro x hx
      rw [find_cons_ne (k, c) rest x (fun e => hnd.1 (by have e' : k = x := e; rw [e']; exact hx))]
    rw [this]
    exact ih

theorem pick_perm (t : Table κ ω α) {ks ls : List κ} (hp : ks.Perm ls) :
    (t.pick ks).Perm (t.pick ls) :=
  hp.filterMap _

/-- Listing a table with unique keys in the order of a rearrangement `ks` of its keys gives a
permutation of the table whose key sequence is `ks`. -/
theorem pick_is_perm (t : Table κ ω α) (ks : List κ) (hnd : t.keys.Nodup) (hp : ks.Perm t.keys) :
    (t.pick ks).Perm t ∧ Table.keys (t.pick ks) = ks := by
  refine ⟨?_, pick_keys t ks (fun k hk => hp.mem_iff.mp hk)⟩
  have := pick_perm t hp
  rwa [pick_self t hnd] at this

theorem reorderComps_perm (t : Table κ ω α) (ks : List κ) (hnd : t.keys.Nodup)
    (hp : ks.Perm t.keys) :
    reorderComps t ks = some (if ks = t.keys then t else t.pick ks) := by
  have hlen : ks.length = t.length := by
    rw [hp.length_eq]; simp [Table.keys]
  have h1 : ks.all t.keys.contains = true := by
    simp only [List.all_eq_true, List.contains_iff_mem]
    exact fun k hk => hp.mem_iff.mp hk
  have h2 : t.keys.all ks.contains = true := by
    simp only [List.all_eq_true, List.contains_iff_mem]
    exact fun k hk => hp.mem_iff.mpr hk
  unfold reorderComps
  simp only [hlen, ne_eq, not_true_eq_false, if_false, h1, h2, Bool.and_self, Bool.not_true]
  by_cases he : ks = t.keys
  · simp [he]
  · simp only [he, if_false, Bool.false_eq_true]
    have hk := (pick_is_perm t ks hnd hp).2
    have : ((t.pick ks).map (·.1)).Nodup := by
      have : Table.keys (t.pick ks) = ks := hk
      simp only [Table.keys] at this
      rw [this]
      exact hp.nodup_iff.mpr hnd
    rw [ofPairs_nodup _ this]

/-- A list with as many entries as a duplicate-free list that it covers is a rearrangement of it. -/
theorem perm_of_cover : ∀ (ls ks : List κ), ls.Nodup → (∀ x ∈ ls, x ∈ ks) → ks.length = ls.length →
    ks.Perm ls
  | [], ks, _, _, hl => by
    have : ks = [] := List.eq_nil_of_length_eq_zero hl
    rw [this]
  | a :: ls, ks, hnd, hsub, hl => by
    have ha : a ∈ ks := hsub a List.mem_cons_self
    have hnd' := List.nodup_cons.mp hnd
    have h1 : ks.Perm (a :: ks.erase a) := List.perm_cons_erase ha
    have hl' : (ks.erase a).length = ls.length := by
      have := h1.length_eq
      simp only [List.length_cons] at this hl
      omega
    have hsub' : ∀ x ∈ ls, x ∈ ks.erase a := by
      intro x hx
      have hne : x ≠ a := fun e => hnd'.1 (e ▸ hx)
      exact (List.mem_erase_of_ne hne).mpr (hsub x (List.mem_cons_of_mem _ hx))
    exact h1.trans ((perm_of_cover ls (ks.erase a) hnd'.2 hsub' hl').cons a)

/-- `reorder_components` as coded = its Spec, for every argument list: the components in the
requested order when the list is a rearrangement of the identifiers, `ValueError` otherwise. -/
theorem reorderComps_eq_spec (t : Table κ ω α) (ks : List κ) (hnd : t.keys.Nodup) :
    reorderComps t ks = specReorder t ks := by
  unfold specReorder
  by_cases hp : ks.Perm t.keys
  · rw [reorderComps_perm t ks hnd hp, if_pos (List.isPerm_iff.mpr hp)]
    by_cases he : ks = t.keys
    · rw [if_pos he, he, pick_self t hnd]
    · rw [if_neg he]
  · rw [if_neg (fun h => hp (List.isPerm_iff.mp h))]
    unfold reorderComps
    by_cases hlen : ks.length = t.length
    · by_cases hset : (ks.all t.keys.contains && t.keys.all ks.contains) = true
      · exfalso
        apply hp
        simp only [Bool.and_eq_true, List.all_eq_true, List.contains_iff_mem] at hset
        exact perm_of_cover t.keys ks hnd hset.2 (by rw [hlen]; simp [Table.keys])
      · simp [hlen, hset]
    · simp [hlen]

/-! ### the dependency closure does not depend on the order -/

theorem reach_perm {t t' : Table κ ω α} (hp : t'.Perm t) (k x : κ) : Reach t' k x ↔ Reach t k x :=
  ⟨Reach.mono (fun _ h => hp.mem_iff.mp h), Reach.mono (fun _ h => hp.mem_iff.mpr h)⟩

theorem depClosure_perm {t t' : Table κ ω α} (hp : t'.Perm t) (k x : κ) :
    x ∈ depClosure t' k ↔ x ∈ depClosure t k := by
  rw [mem_depClosure, mem_depClosure]
  exact reach_perm hp k x

theorem removeComp_perm (fuel : Nat) {t t' : Table κ ω α} (hp : t'.Perm t) (k : κ)
    (hf : t.length ≤ fuel) (hk : k ∈ t.keys) :
    removeComp fuel t' k = t'.filter (fun p => !((depClosure t k).contains p.1)) := by
  have hf' : t'.length ≤ fuel := by rw [hp.length_eq]; exact hf
  have hk' : k ∈ t'.keys := (keys_perm hp).mem_iff.mpr hk
  rw [removeComp_eq_filter fuel t' k hf' hk']
  apply List.filter_congr
  intro p _
  have := depClosure_perm hp k p.1
  by_cases h : p.1 ∈ depClosure t k
  · simp [h, this.mpr h]
  · have h' : p.1 ∉ depClosure t' k := fun q => h (this.mp q)
    simp [h, h']

/-! ### values do not depend on the order -/

theorem getData_find_congr (I : Interp ω α) (v : List NAxis) (S : List Nat) (t t' : Table κ ω α)
    (h : ∀ k, t'.find k = t.find k) : ∀ (fuel : Nat) (k : κ),
    getData I v S fuel t' k = getData I v S fuel t k
  | 0, _ => rfl
  | fuel + 1, k => by
    have ih : getData I v S fuel t' = getData I v S fuel t :=
      funext (getData_find_congr I v S t t' h fuel)
    simp only [getData, h k, ih]

theorem specAt_find_congr (I : Interp ω α) (idx : List Int) (t t' : Table κ ω α)
    (h : ∀ k, t'.find k = t.find k) : ∀ (fuel : Nat) (k : κ),
    specAt I fuel t' idx k = specAt I fuel t idx k
  | 0, _ => rfl
  | fuel + 1, k => by
    have ih : specAt I fuel t' idx = specAt I fuel t idx :=
      funext (specAt_find_congr I idx t t' h fuel)
    simp only [specAt, h k, ih]

end
end GlueVerif.Derived
