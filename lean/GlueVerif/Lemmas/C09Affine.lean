import GlueVerif.Lemmas.C09Line
import Mathlib.Tactic.LinearCombination
/-!
Helper lemmas for C09: the even-odd test under affine maps.

matplotlib's crossing rule is *exactly* invariant under translations and horizontal shears; together
with direction independence (`evenOdd_swap`) this gives invariance under vertical shears and hence
under every rotation `(c, s)` with `s ≠ 0` (a rotation is shear ∘ shear ∘ shear), off the boundary.
Used to reduce a rotated rectangle to the axis-aligned box.
-/
namespace GlueVerif.C09.Lemmas

def shx (k : Rat) (p : Pt) : Pt := ⟨p.x + k * p.y, p.y⟩
def shy (m : Rat) (p : Pt) : Pt := ⟨p.x, p.y + m * p.x⟩
def trans (tx ty : Rat) (p : Pt) : Pt := ⟨p.x + tx, p.y + ty⟩
def rot (c s : Rat) (p : Pt) : Pt := ⟨c * p.x - s * p.y, s * p.x + c * p.y⟩

theorem crossH_shx (k : Rat) (a b p : Pt) : crossH (shx k a) (shx k b) (shx k p) = crossH a b p := by
  unfold crossH shx
  simp only
  congr 1
  congr 1
  exact decide_congr ⟨fun h => by nlinarith, fun h => by nlinarith⟩

theorem crossH_trans (tx ty : Rat) (a b p : Pt) :
    crossH (trans tx ty a) (trans tx ty b) (trans tx ty p) = crossH a b p := by
  unfold crossH trans
  simp only
  have e1 : decide (a.y + ty ≥ p.y + ty) = decide (a.y ≥ p.y) := decide_congr ⟨fun h => by linarith, fun h => by linarith⟩
  have e2 : decide (b.y + ty ≥ p.y + ty) = decide (b.y ≥ p.y) := decide_congr ⟨fun h => by linarith, fun h => by linarith⟩
  have e3 : decide ((b.y + ty - (p.y + ty)) * (a.x + tx - (b.x + tx)) ≥ (b.x + tx - (p.x + tx)) * (a.y + ty - (b.y + ty))) =
      decide ((b.y - p.y) * (a.x - b.x) ≥ (b.x - p.x) * (a.y - b.y)) :=
    decide_congr ⟨fun h => by nlinarith, fun h => by nlinarith⟩
  rw [e1, e2, e3]

theorem evenOdd_map_exact (f : Pt → Pt) (hf : ∀ a b p, crossH (f a) (f b) (f p) = crossH a b p)
    (vs : List Pt) (p : Pt) : evenOdd (vs.map f) (f p) = evenOdd vs p := by
  unfold evenOdd
  rw [cyclicEdges_map, List.map_map]
  congr 1
  apply List.map_congr_left
  intro e _
  exact hf e.1 e.2 p

/-! ### points on a segment, parametrically -/

theorem div_mem_unit (n d : Rat) (hd : d ≠ 0) (h : (0 ≤ n ∧ n ≤ d) ∨ (d ≤ n ∧ n ≤ 0)) :
    0 ≤ n / d ∧ n / d ≤ 1 := by
  rcases lt_or_gt_of_ne hd with hneg | hpos
  · have hn : 0 ≤ -n ∧ -n ≤ -d := by
      rcases h with ⟨h1, h2⟩ | ⟨h1, h2⟩
      · constructor <;> linarith
      · constructor <;> linarith
    have hd' : 0 < -d := by linarith
    rw [← neg_div_neg_eq]
    exact ⟨div_nonneg hn.1 (le_of_lt hd'), (div_le_iff₀ hd').mpr (by linarith)⟩
  · have hn : 0 ≤ n ∧ n ≤ d := by
      rcases h with ⟨h1, h2⟩ | ⟨h1, h2⟩
      · exact ⟨h1, h2⟩
      · constructor <;> linarith
    exact ⟨div_nonneg hn.1 (le_of_lt hpos), (div_le_iff₀ hpos).mpr (by linarith)⟩

theorem onSeg_iff (a b p : Pt) :
    onSeg a b p = true ↔
      ∃ t : Rat, 0 ≤ t ∧ t ≤ 1 ∧ p.x = a.x + t * (b.x - a.x) ∧ p.y = a.y + t * (b.y - a.y) := by
  unfold onSeg
  simp only [Bool.and_eq_true, decide_eq_true_eq, min_le_iff, le_max_iff]
  constructor
  · rintro ⟨⟨⟨⟨hcol, hx1⟩, hx2⟩, hy1⟩, hy2⟩
    by_cases hx : b.x - a.x = 0
    · have hpx : p.x = a.x := by
        rcases hx1 with h | h <;> rcases hx2 with h' | h' <;> linarith
      by_cases hy : b.y - a.y = 0
      · refine ⟨0, le_refl _, by norm_num, by linarith, ?_⟩
        rcases hy1 with h | h <;> rcases hy2 with h' | h' <;> linarith
      · have hu := div_mem_unit (p.y - a.y) (b.y - a.y) hy (by
          rcases le_total a.y b.y with hab | hab
          · left; constructor
            · rcases hy1 with h | h <;> linarith
            · rcases hy2 with h | h <;> linarith
          · right; constructor
            · rcases hy1 with h | h <;> linarith
            · rcases hy2 with h | h <;> linarith)
        have hc := div_mul_cancel₀ (p.y - a.y) hy
        refine ⟨(p.y - a.y) / (b.y - a.y), hu.1, hu.2, ?_, ?_⟩
        · rw [hpx, hx]; ring
        · linarith
    · have hu := div_mem_unit (p.x - a.x) (b.x - a.x) hx (by
        rcases le_total a.x b.x with hab | hab
        · left; constructor
          · rcases hx1 with h | h <;> linarith
          · rcases hx2 with h | h <;> linarith
        · right; constructor
          · rcases hx1 with h | h <;> linarith
          · rcases hx2 with h | h <;> linarith)
      have hc := div_mul_cancel₀ (p.x - a.x) hx
      refine ⟨(p.x - a.x) / (b.x - a.x), hu.1, hu.2, by linarith, ?_⟩
      have h2 : (p.y - a.y - (p.x - a.x) / (b.x - a.x) * (b.y - a.y)) * (b.x - a.x) = 0 := by
        have : (p.x - a.x) / (b.x - a.x) * (b.y - a.y) * (b.x - a.x) =
            (p.x - a.x) / (b.x - a.x) * (b.x - a.x) * (b.y - a.y) := by ring
        rw [sub_mul, this, hc]; linarith
      rcases mul_eq_zero.mp h2 with h | h
      · linarith
      · exact absurd h hx
  · rintro ⟨t, h0, h1, hx, hy⟩
    refine ⟨⟨⟨⟨?_, ?_⟩, ?_⟩, ?_⟩, ?_⟩
    · rw [hx, hy]; ring
    · rcases le_total a.x b.x with h | h
      · left; nlinarith
      · right; nlinarith
    · rcases le_total a.x b.x with h | h
      · right; nlinarith
      · left; nlinarith
    · rcases le_total a.y b.y with h | h
      · left; nlinarith
      · right; nlinarith
    · rcases le_total a.y b.y with h | h
      · right; nlinarith
      · left; nlinarith

theorem onSeg_map_affine (f : Pt → Pt)
    (hf : ∀ (a b p : Pt) (t : Rat), p.x = a.x + t * (b.x - a.x) → p.y = a.y + t * (b.y - a.y) →
      (f p).x = (f a).x + t * ((f b).x - (f a).x) ∧ (f p).y = (f a).y + t * ((f b).y - (f a).y))
    (a b p : Pt) (h : onSeg a b p = true) : onSeg (f a) (f b) (f p) = true := by
  rw [onSeg_iff] at h ⊢
  obtain ⟨t, h0, h1, hx, hy⟩ := h
  exact ⟨t, h0, h1, (hf a b p t hx hy).1, (hf a b p t hx hy).2⟩

theorem shx_affine (k : Rat) (a b p : Pt) (t : Rat) (hx : p.x = a.x + t * (b.x - a.x))
    (hy : p.y = a.y + t * (b.y - a.y)) :
    (shx k p).x = (shx k a).x + t * ((shx k b).x - (shx k a).x) ∧
    (shx k p).y = (shx k a).y + t * ((shx k b).y - (shx k a).y) := by
  unfold shx; simp only; rw [hx, hy]; constructor <;> ring

theorem shx_inv (k : Rat) (p : Pt) : shx (-k) (shx k p) = p := by
  unfold shx; simp only; cases p; simp only [Pt.mk.injEq, and_true]; ring

theorem onSeg_shx (k : Rat) (a b p : Pt) : onSeg (shx k a) (shx k b) (shx k p) = onSeg a b p := by
  rw [Bool.eq_iff_iff]
  constructor
  · intro h
    have := onSeg_map_affine (shx (-k)) (shx_affine (-k)) _ _ _ h
    simpa [shx_inv] using this
  · exact onSeg_map_affine (shx k) (shx_affine k) a b p

theorem onSeg_trans (tx ty : Rat) (a b p : Pt) :
    onSeg (trans tx ty a) (trans tx ty b) (trans tx ty p) = onSeg a b p := by
  have haff : ∀ (ux uy : Rat) (a b p : Pt) (t : Rat), p.x = a.x + t * (b.x - a.x) → p.y = a.y + t * (b.y - a.y) →
      (trans ux uy p).x = (trans ux uy a).x + t * ((trans ux uy b).x - (trans ux uy a).x) ∧
      (trans ux uy p).y = (trans ux uy a).y + t * ((trans ux uy b).y - (trans ux uy a).y) := by
    intro ux uy a b p t hx hy
    unfold trans; simp only; rw [hx, hy]; constructor <;> ring
  have hinv : ∀ q : Pt, trans (-tx) (-ty) (trans tx ty q) = q := by
    intro q; unfold trans; cases q; simp
  rw [Bool.eq_iff_iff]
  constructor
  · intro h
    have := onSeg_map_affine (trans (-tx) (-ty)) (haff (-tx) (-ty)) _ _ _ h
    simpa [hinv] using this
  · exact onSeg_map_affine (trans tx ty) (haff tx ty) a b p

theorem onPolyBoundary_map (f : Pt → Pt) (hf : ∀ a b p, onSeg (f a) (f b) (f p) = onSeg a b p)
    (vs : List Pt) (p : Pt) : onPolyBoundary (vs.map f) (f p) = onPolyBoundary vs p := by
  unfold onPolyBoundary
  rw [cyclicEdges_map, List.any_map]
  congr 1
  funext e
  exact hf e.1 e.2 p

/-! ### vertical shear and rotation -/

theorem shy_eq (m : Rat) (p : Pt) : shy m p = (shx m p.swap).swap := rfl

theorem evenOdd_shy (m : Rat) (vs : List Pt) (p : Pt) (hoff : onPolyBoundary vs p = false) :
    evenOdd (vs.map (shy m)) (shy m p) = evenOdd vs p := by
  have hmap : vs.map (shy m) = ((vs.map Pt.swap).map (shx m)).map Pt.swap := by
    simp only [List.map_map]; rfl
  have hp : shy m p = (shx m p.swap).swap := rfl
  have h1 : onPolyBoundary (vs.map Pt.swap) p.swap = false := by rw [onPolyBoundary_swap]; exact hoff
  have h2 : onPolyBoundary ((vs.map Pt.swap).map (shx m)) (shx m p.swap) = false := by
    rw [onPolyBoundary_map (shx m) (onSeg_shx m)]; exact h1
  rw [hmap, hp, evenOdd_swap _ _ h2, evenOdd_map_exact (shx m) (crossH_shx m), evenOdd_swap _ _ hoff]

theorem onPolyBoundary_shy (m : Rat) (vs : List Pt) (p : Pt) :
    onPolyBoundary (vs.map (shy m)) (shy m p) = onPolyBoundary vs p := by
  have hmap : vs.map (shy m) = ((vs.map Pt.swap).map (shx m)).map Pt.swap := by
    simp only [List.map_map]; rfl
  have hp : shy m p = (shx m p.swap).swap := rfl
  rw [hmap, hp, onPolyBoundary_swap, onPolyBoundary_map (shx m) (onSeg_shx m), onPolyBoundary_swap]

/-- A rotation with `s ≠ 0` is shear ∘ shear ∘ shear. -/
theorem rot_eq_shears (c s : Rat) (hu : c * c + s * s = 1) (hs : s ≠ 0) (p : Pt) :
    rot c s p = shx ((c - 1) / s) (shy s (shx ((c - 1) / s) p)) := by
  have hk : (c - 1) / s * s = c - 1 := div_mul_cancel₀ _ hs
  have h2 : (c - 1) / s * (1 + c) = -s := by
    apply mul_right_cancel₀ hs
    have : (c - 1) / s * (1 + c) * s = (c - 1) / s * s * (1 + c) := by ring
    rw [this, hk]; linarith
  generalize (c - 1) / s = k at hk h2
  unfold rot shx shy
  simp only [Pt.mk.injEq]
  constructor
  · linear_combination (-p.x - k * p.y) * hk + (-p.y) * h2
  · linear_combination (-p.y) * hk

/-- **Rotation invariance of the even-odd rule** (off the boundary, any rotation with `s ≠ 0`). -/
theorem evenOdd_rot (c s : Rat) (hu : c * c + s * s = 1) (hs : s ≠ 0) (vs : List Pt) (p : Pt)
    (hoff : onPolyBoundary vs p = false) :
    evenOdd (vs.map (rot c s)) (rot c s p) = evenOdd vs p ∧
    onPolyBoundary (vs.map (rot c s)) (rot c s p) = false := by
  have hf : rot c s = fun q => shx ((c - 1) / s) (shy s (shx ((c - 1) / s) q)) := by
    funext q; exact rot_eq_shears c s hu hs q
  have hmap : vs.map (rot c s) = ((vs.map (shx ((c - 1) / s))).map (shy s)).map (shx ((c - 1) / s)) := by
    rw [hf]; simp only [List.map_map]; rfl
  have hp : rot c s p = shx ((c - 1) / s) (shy s (shx ((c - 1) / s) p)) := rot_eq_shears c s hu hs p
  have h1 : onPolyBoundary (vs.map (shx ((c - 1) / s))) (shx ((c - 1) / s) p) = false := by
    rw [onPolyBoundary_map _ (onSeg_shx _)]; exact hoff
  constructor
  · rw [hmap, hp, evenOdd_map_exact _ (crossH_shx _), evenOdd_shy _ _ _ h1,
      evenOdd_map_exact _ (crossH_shx _)]
  · rw [hmap, hp, onPolyBoundary_map _ (onSeg_shx _), onPolyBoundary_shy, h1]

end GlueVerif.C09.Lemmas
