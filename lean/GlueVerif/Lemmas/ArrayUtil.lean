import GlueVerif.Model.ArrayUtil
/-! Helper lemmas for C20 (and the properties that reuse the chunk / slice model). -/
namespace GlueVerif.Lemmas
open GlueVerif.ArrayUtil

@[simp] theorem prod_nil : prod [] = 1 := rfl
@[simp] theorem prod_cons (x : Nat) (xs : List Nat) : prod (x :: xs) = x * prod xs := rfl

theorem fcs_inv (shape : List Nat) (n : Nat) (hn : 0 < n) (hs : ∀ s ∈ shape, 0 < s) :
    (fcs shape n).1.length = shape.length ∧ prod (fcs shape n).1 * (fcs shape n).2 ≤ n ∧
    0 < (fcs shape n).2 ∧
    (((fcs shape n).1.zip shape).all fun p => decide (1 ≤ p.1) && decide (p.1 ≤ p.2)) = true := by
  induction shape with
  | nil => simp [fcs, hn]
  | cons size rest ih =>
    have hsz : 0 < size := hs size (by simp)
    have ih' := ih (fun s h => hs s (by simp [h]))
    obtain ⟨hl, hp, hr, ha⟩ := ih'
    unfold fcs
    by_cases hgt : (fcs rest n).2 > size
    · simp only [hgt, if_true]
      refine ⟨by simp [hl], ?_, ?_, ?_⟩
      · have h1 : size * ((fcs rest n).2 / size) ≤ (fcs rest n).2 := Nat.mul_div_le _ _
        calc prod (size :: (fcs rest n).1) * ((fcs rest n).2 / size)
            = prod (fcs rest n).1 * (size * ((fcs rest n).2 / size)) := by
              rw [prod_cons]; ac_rfl
          _ ≤ prod (fcs rest n).1 * (fcs rest n).2 := Nat.mul_le_mul_left _ h1
          _ ≤ n := hp
      · exact Nat.div_pos (Nat.le_of_lt hgt) hsz
      · simp [List.zip_cons_cons, List.all_cons, ha]; omega
    · simp only [hgt, if_false]
      refine ⟨by simp [hl], ?_, by omega, ?_⟩
      · calc prod ((fcs rest n).2 :: (fcs rest n).1) * 1
            = prod (fcs rest n).1 * (fcs rest n).2 := by rw [prod_cons]; ac_rfl
          _ ≤ n := hp
      · simp [List.zip_cons_cons, List.all_cons, ha]; omega

theorem specFcs_findChunkShape (shape : List Nat) (nMax : Nat) (hn : 0 < nMax)
    (hs : ∀ s ∈ shape, 0 < s) : specFcs shape nMax (findChunkShape shape nMax) = true := by
  obtain ⟨hl, hp, hr, ha⟩ := fcs_inv shape nMax hn hs
  unfold specFcs findChunkShape
  simp only [Bool.and_eq_true, beq_iff_eq, decide_eq_true_eq]
  refine ⟨⟨hl, ?_⟩, ?_⟩
  · calc prod (fcs shape nMax).1 = prod (fcs shape nMax).1 * 1 := by simp
      _ ≤ prod (fcs shape nMax).1 * (fcs shape nMax).2 := Nat.mul_le_mul_left _ hr
      _ ≤ nMax := hp
  · simpa using ha

end GlueVerif.Lemmas
