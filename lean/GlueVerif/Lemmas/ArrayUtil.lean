import GlueVerif.Model.ArrayUtil
/-! Helper lemmas for C20 (and the properties that reuse the chunk / slice model). -/
namespace GlueVerif.Lemmas
open GlueVerif.ArrayUtil

@[simp] theorem prod_nil : prod [] = 1 := rfl
@[simp] theorem prod_cons (x : Nat) (xs : List Nat) : prod (x :: xs) = x * prod xs := rfl

theorem fcs_inv (shape : List Nat) (n : Nat) (hn : 0 < n) (hs : ∀ s ∈ shape, 0 < s) :
    (fcs shape n).1.length = shape.length ∧ prod (fcs shape n).1 * (fcs shape n).2 ≤ n ∧
    0 < (fcs shape n).2 ∧
    (((fcs shape n).1.zip shape).all fun p => decide (1 ≤ p.1) && decide (p.1 ≤ p.2)) = true := by
  induction shape with
  | nil => simp [fcs, hn]
  | cons size rest ih =>
    have hsz : 0 < size := hs size (by simp)
    have ih' := ih (fun s h => hs s (by simp [h]))
    obtain ⟨hl, hp, hr, ha⟩ := ih'
    unfold fcs
    by_cases hgt : (fcs rest n).2 > size
    · simp only [hgt, if_true]
      refine ⟨by simp [hl], ?_, ?_, ?_⟩
      · have h1 : size * ((fcs rest n).2 / size) ≤ (fcs rest n).2 := Nat.mul_div_le _ _
        calc prod (size :: (fcs rest n).1) * ((fcs rest n).2 / size)
            = prod (fcs rest n).1 * (size * ((fcs rest n).2 / size)) := by
              rw [prod_cons]; ac_rfl
          _ ≤ prod (fcs rest n).1 * (fcs rest n).2 := Nat.mul_le_mul_left _ h1
          _ ≤ n := hp
      · exact Nat.div_pos (Nat.le_of_lt hgt) hsz
      · simp [List.zip_cons_cons, List.all_cons, ha]; omega
    · simp only [hgt, if_false]
      refine ⟨by simp [hl], ?_, by omega, ?_⟩
      · calc prod ((fcs rest n).2 :: (fcs rest n).1) * 1
            = prod (fcs rest n).1 * (fcs rest n).2 := by rw [prod_cons]; ac_rfl
          _ ≤ n := hp
      · simp [List.zip_cons_cons, List.all_cons, ha]; omega

theorem specFcs_findChunkShape (shape : List Nat) (nMax : Nat) (hn : 0 < nMax)
    (hs : ∀ s ∈ shape, 0 < s) : specFcs shape nMax (findChunkShape shape nMax) = true := by
  obtain ⟨hl, hp, hr, ha⟩ := fcs_inv shape nMax hn hs
  unfold specFcs findChunkShape
  simp only [Bool.and_eq_true, beq_iff_eq, decide_eq_true_eq]
  refine ⟨⟨hl, ?_⟩, ?_⟩
  · calc prod (fcs shape nMax).1 = prod (fcs shape nMax).1 * 1 := by simp
      _ ≤ prod (fcs shape nMax).1 * (fcs shape nMax).2 := Nat.mul_le_mul_left _ hr
      _ ≤ nMax := hp
  · simpa using ha


/-! ## iterate_chunks (product form): exact partition -/

/-- Predicate "position `i` lies in the 1-d chunk `p`". -/
def in1 (i : Nat) (p : Nat × Nat) : Bool := decide (p.1 ≤ i) && decide (i < p.2)

theorem chunks1d_count (h c : Nat) (hc : 0 < c) (i : Nat) :
    ∀ fuel s, h ≤ s + fuel →
      (chunks1d h c fuel s).countP (in1 i) = if s ≤ i ∧ i < h then 1 else 0 := by
  intro fuel
  induction fuel with
  | zero =>
    intro s hs
    have : ¬ (s ≤ i ∧ i < h) := by omega
    simp [chunks1d, this]
  | succ fuel ih =>
    intro s hs
    unfold chunks1d
    by_cases hsh : s < h
    · simp only [hsh, if_true, List.countP_cons, ih (s + c) (by omega), in1, Bool.and_eq_true,
        decide_eq_true_eq]
      repeat' split
      all_goals omega
    · have : ¬ (s ≤ i ∧ i < h) := by omega
      simp [hsh, this]

theorem chunks1d_mem (h c : Nat) (hc : 0 < c) (p : Nat × Nat) :
    ∀ fuel s, p ∈ chunks1d h c fuel s → p.1 < p.2 ∧ p.2 ≤ h ∧ p.2 - p.1 ≤ c := by
  intro fuel
  induction fuel with
  | zero => intro s hp; simp [chunks1d] at hp
  | succ fuel ih =>
    intro s hp
    unfold chunks1d at hp
    by_cases hsh : s < h
    · simp only [hsh, if_true, List.mem_cons] at hp
      rcases hp with rfl | hp
      · simp only; omega
      · exact ih _ hp
    · simp [hsh] at hp

theorem inChunk_cons (i : Nat) (is : List Nat) (p : Nat × Nat) (cs : Chunk) :
    inChunk (i :: is) (p :: cs) = (in1 i p && inChunk is cs) := by
  obtain ⟨a, b⟩ := p
  simp [inChunk, in1]

theorem countP_prod (i : Nat) (is : List Nat) (H : List (Nat × Nat)) (T : List Chunk) :
    (T.flatMap fun tail => H.map (· :: tail)).countP (inChunk (i :: is)) =
      H.countP (in1 i) * T.countP (inChunk is) := by
  induction T with
  | nil => simp
  | cons t T ih =>
    rw [List.flatMap_cons, List.countP_append, ih, List.countP_cons, List.countP_map]
    have : (inChunk (i :: is) ∘ fun x => x :: t) = fun p => (in1 i p && inChunk is t) := by
      funext p; simp [inChunk_cons]
    rw [this]
    by_cases ht : inChunk is t = true
    · simp [ht, Nat.mul_add, Nat.add_comm]
    · simp [ht]

theorem mem_allIndices_cons (h : Nat) (hs : List Nat) (idx : List Nat)
    (hm : idx ∈ allIndices (h :: hs)) : ∃ i is, idx = i :: is ∧ i < h ∧ is ∈ allIndices hs := by
  simp only [allIndices, List.mem_flatMap, List.mem_range, List.mem_map] at hm
  obtain ⟨i, hi, is, his, rfl⟩ := hm
  exact ⟨i, is, rfl, hi, his⟩

theorem prod_count (shape : List Nat) : ∀ (chunk idx : List Nat), chunk.length = shape.length →
    (∀ c ∈ chunk, 0 < c) → idx ∈ allIndices shape →
    (iterateChunksProd shape chunk).countP (inChunk idx) = 1 := by
  induction shape with
  | nil =>
    intro chunk idx hl _ hidx
    have : chunk = [] := List.eq_nil_of_length_eq_zero (by simpa using hl)
    subst this
    simp [allIndices] at hidx
    subst hidx
    simp [iterateChunksProd, inChunk]
  | cons h hs ih =>
    intro chunk idx hl hc hidx
    match chunk, hl with
    | c :: cs, hl =>
      obtain ⟨i, is, rfl, hi, his⟩ := mem_allIndices_cons h hs idx hidx
      have hc0 : 0 < c := hc c (by simp)
      simp only [iterateChunksProd]
      rw [countP_prod, ih cs is (by simpa using hl) (fun c hc' => hc c (by simp [hc'])) his,
        chunks1d_count h c hc0 i h 0 (by omega)]
      simp [hi]

theorem prod_within (shape : List Nat) : ∀ (chunk : List Nat), chunk.length = shape.length →
    (∀ c ∈ chunk, 0 < c) → ∀ ch ∈ iterateChunksProd shape chunk,
      chunkWithin ch shape = true ∧ chunkSize ch ≤ prod chunk ∧
      ((ch.zip chunk).all fun p => decide (p.1.2 - p.1.1 ≤ p.2)) = true := by
  induction shape with
  | nil =>
    intro chunk hl _ ch hch
    have : chunk = [] := List.eq_nil_of_length_eq_zero (by simpa using hl)
    subst this
    simp [iterateChunksProd] at hch
    subst hch
    simp [chunkWithin, chunkSize]
  | cons h hs ih =>
    intro chunk hl hc ch hch
    match chunk, hl with
    | c :: cs, hl =>
      have hc0 : 0 < c := hc c (by simp)
      simp only [iterateChunksProd, List.mem_flatMap, List.mem_map] at hch
      obtain ⟨tail, htail, p, hp, rfl⟩ := hch
      obtain ⟨h1, h2, h3⟩ := ih cs (by simpa using hl) (fun c hc' => hc c (by simp [hc'])) tail htail
      obtain ⟨q1, q2, q3⟩ := chunks1d_mem h c hc0 p h 0 hp
      obtain ⟨a, b⟩ := p
      simp only at q1 q2 q3
      refine ⟨?_, ?_, ?_⟩
      · simp [chunkWithin, h1, q1, q2]
      · simp only [chunkSize, List.map_cons, prod_cons] at *
        exact Nat.mul_le_mul q3 h2
      · rw [List.zip_cons_cons, List.all_cons, h3]; simp; omega

theorem specIter_prod_chunkShape (shape chunk : List Nat) (hl : chunk.length = shape.length)
    (hc : ∀ c ∈ chunk, 0 < c) :
    specIter shape (some chunk) none (iterateChunksProd shape chunk) = true := by
  unfold specIter isPartition
  simp only [Bool.and_eq_true, List.all_eq_true, Bool.and_true]
  refine ⟨⟨?_, ?_⟩, ?_⟩
  · intro ch hch; exact (prod_within shape chunk hl hc ch hch).1
  · intro idx hidx
    have := prod_count shape chunk idx hl hc hidx
    rw [List.countP_eq_length_filter] at this
    simp [this]
  · intro ch hch
    have := (prod_within shape chunk hl hc ch hch).2.2
    simpa [List.all_eq_true] using this

theorem specIter_prod_nMax (shape : List Nat) (n : Nat) (hn : 0 < n) (hs : ∀ s ∈ shape, 0 < s) :
    specIter shape none (some n) (iterateChunksProd shape (findChunkShape shape n)) = true := by
  obtain ⟨hl, hp, hr, ha⟩ := fcs_inv shape n hn hs
  have hpos : ∀ c ∈ findChunkShape shape n, 0 < c := by
    intro c hc
    unfold findChunkShape at hc
    obtain ⟨k, hk, rfl⟩ := List.getElem_of_mem hc
    have hk' : k < ((fcs shape n).1.zip shape).length := by simp [List.length_zip, hl]; omega
    have := (List.all_eq_true.mp ha) (((fcs shape n).1.zip shape)[k]) (List.getElem_mem hk')
    simp at this
    omega
  have hprod : prod (findChunkShape shape n) ≤ n := by
    unfold findChunkShape
    calc prod (fcs shape n).1 = prod (fcs shape n).1 * 1 := by simp
      _ ≤ prod (fcs shape n).1 * (fcs shape n).2 := Nat.mul_le_mul_left _ hr
      _ ≤ n := hp
  have hl' : (findChunkShape shape n).length = shape.length := hl
  unfold specIter isPartition
  simp only [Bool.and_eq_true, List.all_eq_true, Bool.and_true, decide_eq_true_eq]
  refine ⟨⟨?_, ?_⟩, ?_⟩
  · intro ch hch; exact (prod_within shape _ hl' hpos ch hch).1
  · intro idx hidx
    have := prod_count shape _ idx hl' hpos hidx
    rw [List.countP_eq_length_filter] at this
    simp [this]
  · intro ch hch
    exact Nat.le_trans (prod_within shape _ hl' hpos ch hch).2.1 hprod


/-! ## unbroadcast / broadcast_to -/

theorem unb_shape_length (sh st : List Nat) (hl : sh.length = st.length) :
    ((sh.zip st).map fun p => if p.2 == 0 then 1 else p.1).length = sh.length := by
  simp [List.length_zip, hl]

theorem unb_compatible (sh : List Nat) : ∀ (st : List Nat), sh.length = st.length →
    ((((sh.zip st).map fun p => if p.2 == 0 then 1 else p.1).zip sh).all
      fun p => p.1 == p.2 || p.1 == 1) = true := by
  induction sh with
  | nil => intro st _; simp
  | cons h hs ih =>
    intro st hl
    match st, hl with
    | t :: ts, hl =>
      simp only [List.zip_cons_cons, List.map_cons, List.all_cons, Bool.and_eq_true]
      refine ⟨?_, ih ts (by simpa using hl)⟩
      by_cases ht : t = 0 <;> simp [ht]

theorem unb_strides (sh : List Nat) : ∀ (st : List Nat), sh.length = st.length →
    ((((sh.zip st).map fun p => if p.2 == 0 then 1 else p.1).zip (st.zip sh)).map
      fun p => if p.1 == 1 && p.2.2 != 1 then 0 else p.2.1) = st := by
  induction sh with
  | nil => intro st hl; simp at hl; simp [List.eq_nil_of_length_eq_zero hl.symm]
  | cons h hs ih =>
    intro st hl
    match st, hl with
    | t :: ts, hl =>
      simp only [List.zip_cons_cons, List.map_cons]
      rw [ih ts (by simpa using hl)]
      congr 1
      by_cases ht : t = 0
      · subst ht; by_cases hh : h = 1 <;> simp [hh]
      · by_cases hh : h = 1 <;> simp [ht, hh]

theorem specUnbroadcast_unbroadcast (a : Strided) (hl : a.shape.length = a.strides.length) :
    specUnbroadcast a (unbroadcast a) = true := by
  unfold specUnbroadcast broadcastTo unbroadcast
  simp only [unb_shape_length _ _ hl, ne_eq, not_true_eq_false, if_false,
    unb_compatible _ _ hl, if_true, unb_strides _ _ hl]
  simp

/-! ## unique: sorted categories, codes index them -/

theorem mem_insertSorted (x y : Int) (l : List Int) :
    y ∈ insertSorted x l ↔ y = x ∨ y ∈ l := by
  induction l with
  | nil => simp [insertSorted]
  | cons z zs ih =>
    unfold insertSorted
    split
    · simp
    · split
      · rename_i h; subst h; simp
      · simp [ih]; constructor <;> (intro h; rcases h with h | h | h <;> simp [h])

theorem mem_categories (y : Int) (xs : List Int) : y ∈ categories xs ↔ y ∈ xs := by
  induction xs with
  | nil => simp [categories]
  | cons x xs ih =>
    show y ∈ insertSorted x (categories xs) ↔ _
    rw [mem_insertSorted, ih]; simp

/-- `strictSorted` with an explicit lower bound on the head, for the insertion induction. -/
theorem strictSorted_cons (x : Int) (l : List Int) :
    strictSorted (x :: l) = true ↔ (∀ y ∈ l, x < y) ∧ strictSorted l = true := by
  induction l generalizing x with
  | nil => simp [strictSorted]
  | cons z zs ih =>
    simp only [strictSorted, Bool.and_eq_true, decide_eq_true_eq, List.mem_cons, forall_eq_or_imp]
    rw [ih z]
    constructor
    · rintro ⟨hxz, hz, hs⟩
      exact ⟨⟨hxz, fun y hy => Int.lt_trans hxz (hz y hy)⟩, hz, hs⟩
    · rintro ⟨⟨hxz, _⟩, hz, hs⟩
      exact ⟨hxz, hz, hs⟩

theorem strictSorted_insertSorted (x : Int) (l : List Int) (h : strictSorted l = true) :
    strictSorted (insertSorted x l) = true := by
  induction l with
  | nil => simp [insertSorted, strictSorted]
  | cons z zs ih =>
    rw [strictSorted_cons] at h
    unfold insertSorted
    split
    · rename_i hxz
      rw [strictSorted_cons]
      refine ⟨?_, (strictSorted_cons z zs).mpr h⟩
      intro y hy
      rcases List.mem_cons.mp hy with rfl | hy
      · exact hxz
      · exact Int.lt_trans hxz (h.1 y hy)
    · split
      · exact (strictSorted_cons z zs).mpr h
      · rename_i h1 h2
        rw [strictSorted_cons]
        refine ⟨?_, ih h.2⟩
        intro y hy
        rcases (mem_insertSorted x y zs).mp hy with rfl | hy
        · omega
        · exact h.1 y hy

theorem strictSorted_categories (xs : List Int) : strictSorted (categories xs) = true := by
  induction xs with
  | nil => simp [categories, strictSorted]
  | cons x xs ih => exact strictSorted_insertSorted x _ ih

theorem getElem?_indexOf (x : Int) (l : List Int) (h : x ∈ l) : l[indexOf x l]? = some x := by
  induction l with
  | nil => simp at h
  | cons y ys ih =>
    unfold indexOf
    by_cases hxy : x = y
    · simp [hxy]
    · have : x ∈ ys := by simpa [hxy] using h
      simp [hxy, ih this]

theorem mem_zip_map_self {α β : Type} (f : α → β) (xs : List α) (p : α × β)
    (hp : p ∈ xs.zip (xs.map f)) : p.2 = f p.1 ∧ p.1 ∈ xs := by
  induction xs with
  | nil => simp at hp
  | cons x xs ih =>
    simp only [List.map_cons, List.zip_cons_cons, List.mem_cons] at hp
    rcases hp with rfl | hp
    · simp
    · have := ih hp
      exact ⟨this.1, List.mem_cons_of_mem _ this.2⟩

theorem specUnique_model (xs : List Int) : specUnique xs (categories xs) (codes xs) = true := by
  unfold specUnique
  simp only [Bool.and_eq_true, List.all_eq_true, beq_iff_eq]
  refine ⟨⟨⟨strictSorted_categories xs, by simp [codes]⟩, ?_⟩, ?_⟩
  · intro p hp
    obtain ⟨h1, h2⟩ := mem_zip_map_self _ xs p hp
    rw [h1]
    exact getElem?_indexOf p.1 _ ((mem_categories p.1 xs).mpr h2)
  · intro c hc
    simp [(mem_categories c xs).mp hc]

theorem specLookup_model (cats dv : List Int) : specLookup cats dv (lookupCodes cats dv) = true := by
  unfold specLookup lookupCodes
  simp only [Bool.and_eq_true, List.all_eq_true, beq_iff_eq, List.length_map, true_and]
  intro p hp
  obtain ⟨h1, _⟩ := mem_zip_map_self _ dv p hp
  rw [h1]
  by_cases hc : p.1 ∈ cats
  · have hc' : cats.contains p.1 = true := by simpa using hc
    simp only [hc', if_true, beq_iff_eq]
    exact getElem?_indexOf p.1 cats hc
  · simp [hc]

theorem lookupCodes_some_of_subset (pv dv : List Int) (h : ∀ x ∈ dv, x ∈ pv) :
    ∀ c ∈ lookupCodes (categories pv) dv, c.isSome = true := by
  intro c hc
  unfold lookupCodes at hc
  obtain ⟨x, hx, rfl⟩ := List.mem_map.mp hc
  have hm : x ∈ categories pv := (mem_categories x pv).mpr (h x hx)
  have : (categories pv).contains x = true := by simpa using hm
  rw [if_pos this]; rfl

/-! ## Python ranges -/

theorem rangeUp_length (e : Int) (st : Nat) (hst : 0 < st) :
    ∀ (fuel : Nat) (b : Int), rangeLen b e st ≤ fuel → (rangeUp b e st fuel).length = rangeLen b e st := by
  intro fuel
  induction fuel with
  | zero => intro b h; simp [rangeUp]; omega
  | succ fuel ih =>
    intro b h
    unfold rangeUp
    by_cases hbe : b < e
    · simp only [hbe, if_true, List.length_cons]
      have hrec : rangeLen b e st = rangeLen (b + st) e st + 1 := by
        unfold rangeLen
        simp only [hbe, if_true]
        by_cases h2 : b + (st : Int) < e
        · simp only [h2, if_true]
          have : (e - b).toNat = (e - (b + st)).toNat + st := by omega
          rw [this]
          have : (e - (b + ↑st)).toNat + st + st - 1 = ((e - (b + ↑st)).toNat + st - 1) + st := by omega
          rw [this, Nat.add_div_right _ hst]
        · simp only [h2, if_false]
          have h3 : (e - b).toNat + st - 1 < 2 * st := by omega
          have h4 : st ≤ (e - b).toNat + st - 1 := by omega
          have : ((e - b).toNat + st - 1) / st = 1 := by
            apply Nat.div_eq_of_lt_le <;> omega
          omega
      rw [ih (b + st) (by omega), hrec]
    · have : rangeLen b e st = 0 := by simp [rangeLen, hbe]
      simp [hbe, this]

/-- `len(range(b, e, st)) ` as computed by `rangeLen`. -/
theorem pyRange_length (b e : Int) (st : Nat) (hst : 0 < st) :
    (pyRange b e st).length = rangeLen b e st :=
  rangeUp_length e st hst _ b (Nat.le_refl _)

end GlueVerif.Lemmas
