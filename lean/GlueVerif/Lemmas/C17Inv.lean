import GlueVerif.Model.DataStruct
/-!
Helper lemmas for C17, part 1: the state invariant `Inv` is established by `init`, implies `specInv`
of every observation; elementary preservation lemmas.
-/
namespace GlueVerif.Lemmas.C17
open GlueVerif.DataStruct

theorem inv_init (pool : List Label) : Inv (init pool) := by
  refine ⟨?_, ?_, ?_, ?_, ?_, ?_⟩ <;> simp [init, cids, FamOk]

/-! ## find_component_id -/

def tag (lab : Cid → Label) (t : List Cid) : List (Cid × Label) := t.map fun c => (c, lab c)

theorem countLabel_tag (lab : Cid → Label) (t : List Cid) (l : Label) :
    countLabel (tag lab t) l = (t.filter fun c => lab c == l).length := by
  unfold countLabel tag
  induction t with
  | nil => rfl
  | cons x xs ih =>
    simp only [List.map_cons, List.filter_cons]
    split <;> simp_all

theorem findOk_findIn (lab : Cid → Label) (l : Label) (tiers : List (List Cid)) :
    findOk (tiers.map (tag lab)) l (findIn lab l tiers) = true := by
  induction tiers with
  | nil => simp [findOk, findIn]
  | cons t ts ih =>
    simp only [List.map_cons, findOk, findIn, countLabel_tag]
    generalize hf : (t.filter fun c => lab c == l) = f
    match f, hf with
    | [], _ => simpa using ih
    | [c], hf =>
      have hc : c ∈ t.filter fun c => lab c == l := by rw [hf]; simp
      simp only [List.mem_filter, beq_iff_eq] at hc
      simp [tag]
      exact ⟨c, hc.1, rfl, hc.2⟩
    | _ :: _ :: _, _ => simp

theorem tiersOf_obs (probe : List Label) (s : State) :
    tiersOf (obs probe s) = [mainCids s, derivedCids s, coordCids s, s.linked].map (tag s.label) := by
  simp [tiersOf, obs, mainCids, derivedCids, coordCids, cids, tag, List.filter_map, Function.comp_def]

/-- `find_component_id` returns the unique match of the first tier that has a match, else nothing. -/
theorem find_spec (probe : List Label) (s : State) (l : Label) :
    findOk (tiersOf (obs probe s)) l (findImpl s l) = true := by
  rw [tiersOf_obs]
  exact findOk_findIn s.label l _


/-! ## `Inv` implies `specInv` of the observation -/

theorem ocids_obs (probe : List Label) (s : State) : ocids (obs probe s) = cids s.comps := by
  simp [ocids, obs, cids]

theorem pixelAxis_iff (k : Kind) (a : Nat) : pixelAxis k = some a ↔ k = .pixel a := by
  cases k <;> simp [pixelAxis]

theorem worldAxis_iff (k : Kind) (a : Nat) : worldAxis k = some a ↔ k = .world a := by
  cases k <;> simp [worldAxis]

theorem coordFamilyOk_of_famOk (probe : List Label) (s : State) (ids : List Cid) (mk : Nat → Kind)
    (axisOf : Kind → Option Nat) (hax : ∀ k a, axisOf k = some a ↔ k = mk a)
    (h : FamOk s.comps ids mk s.shape.length) :
    coordFamilyOk (obs probe s) ids mk axisOf = true := by
  obtain ⟨hlen, hex, hall⟩ := h
  unfold coordFamilyOk
  simp only [Bool.and_eq_true, beq_iff_eq, List.all_eq_true, List.any_eq_true, List.mem_range]
  refine ⟨⟨by simpa [obs] using hlen, ?_⟩, ?_⟩
  · intro i hi
    obtain ⟨c, hc, hcid, hk⟩ := hex i hi
    refine ⟨⟨c.cid, s.label c.cid, c.kind, compShape s.shape c, if c.kind.isMain then c.val else 0⟩, ?_, ?_⟩
    · simp only [obs, List.mem_map]
      exact ⟨c, hc, rfl⟩
    · simp [hcid, hk, List.getElem?_eq_getElem hi]
  · intro oc hoc
    simp only [obs, List.mem_map] at hoc
    obtain ⟨c, hc, rfl⟩ := hoc
    simp only
    cases hax' : axisOf c.kind with
    | none => rfl
    | some a =>
      have := hall c hc a ((hax _ _).1 hax')
      simp [this]

theorem inv_specInv (probe : List Label) (s : State) (h : Inv s) : specInv (obs probe s) = true := by
  unfold specInv
  simp only [Bool.and_eq_true]
  refine ⟨⟨⟨⟨⟨?_, ?_⟩, ?_⟩, ?_⟩, ?_⟩, ?_⟩
  · rw [ocids_obs]; simpa using h.nodup
  · simp only [List.all_eq_true, beq_iff_eq]
    intro oc hoc
    simp only [obs, List.mem_map] at hoc
    obtain ⟨c, hc, rfl⟩ := hoc
    have hs : (obs probe s).shape = s.shape := rfl
    rw [hs]
    simp only [compShape]
    cases hk : c.kind <;> simp
    exact h.shapes c hc hk
  · exact coordFamilyOk_of_famOk probe s s.pix .pixel pixelAxis pixelAxis_iff h.pixel
  · have hw := h.world
    by_cases hc : s.coords.isSome
    · simp only [hc, if_true] at hw
      have : (obs probe s).coords.isSome = true := by simpa [obs] using hc
      simp only [this, if_true]
      exact coordFamilyOk_of_famOk probe s s.world .world worldAxis worldAxis_iff hw
    · simp only [hc] at hw
      have : (obs probe s).coords.isSome = false := by simpa [obs] using hc
      simp only [this]
      simp only [Bool.false_eq_true, if_false, Bool.and_eq_true, List.isEmpty_iff, List.all_eq_true]
      refine ⟨by simpa [obs] using hw.1, ?_⟩
      intro oc hoc
      simp only [obs, List.mem_map] at hoc
      obtain ⟨c, hc', rfl⟩ := hoc
      simp only
      cases hk : worldAxis c.kind with
      | none => rfl
      | some a => exact absurd ((worldAxis_iff _ _).1 hk) (hw.2 c hc' a)
  · have := h.links
    simp only [obs, beq_iff_eq]
    exact this
  · simp only [obs, List.all_eq_true, List.mem_map]
    rintro ⟨l, r⟩ ⟨l', _, heq⟩
    simp only [Prod.mk.injEq] at heq
    obtain ⟨rfl, rfl⟩ := heq
    have := find_spec probe s l'
    simpa [obs] using this


/-! ## `FamOk` under the elementary changes of the component table -/

theorem famOk_append {cs : List Comp} {ids : List Cid} {mk : Nat → Kind} {n : Nat}
    (h : FamOk cs ids mk n) (extra : List Comp) (hx : ∀ c ∈ extra, ∀ a, c.kind ≠ mk a) :
    FamOk (cs ++ extra) ids mk n := by
  obtain ⟨h1, h2, h3⟩ := h
  refine ⟨h1, ?_, ?_⟩
  · intro i hi
    obtain ⟨c, hc, hh⟩ := h2 i hi
    exact ⟨c, List.mem_append_left _ hc, hh⟩
  · intro c hc a hk
    rcases List.mem_append.1 hc with hc | hc
    · exact h3 c hc a hk
    · exact absurd hk (hx c hc a)

theorem famOk_filter {cs : List Comp} {ids : List Cid} {mk : Nat → Kind} {n : Nat}
    (h : FamOk cs ids mk n) (keep : Comp → Bool)
    (hk : ∀ c ∈ cs, ∀ a, c.kind = mk a → keep c = true) :
    FamOk (cs.filter keep) ids mk n := by
  obtain ⟨h1, h2, h3⟩ := h
  refine ⟨h1, ?_, ?_⟩
  · intro i hi
    obtain ⟨c, hc, hcid, hkind⟩ := h2 i hi
    exact ⟨c, List.mem_filter.2 ⟨hc, hk c hc i hkind⟩, hcid, hkind⟩
  · intro c hc a hka
    exact h3 c (List.mem_filter.1 hc).1 a hka

/-- A pointwise change of the table that keeps identifiers and kinds. -/
theorem famOk_map {cs : List Comp} {ids : List Cid} {mk : Nat → Kind} {n : Nat}
    (h : FamOk cs ids mk n) (f : Comp → Comp)
    (hf : ∀ c ∈ cs, (f c).cid = c.cid ∧ (f c).kind = c.kind) :
    FamOk (cs.map f) ids mk n := by
  obtain ⟨h1, h2, h3⟩ := h
  refine ⟨h1, ?_, ?_⟩
  · intro i hi
    obtain ⟨c, hc, hcid, hkind⟩ := h2 i hi
    exact ⟨f c, List.mem_map.2 ⟨c, hc, rfl⟩, by rw [(hf c hc).1, hcid], by rw [(hf c hc).2, hkind]⟩
  · intro c hc a hka
    obtain ⟨c0, hc0, rfl⟩ := List.mem_map.1 hc
    rw [(hf c0 hc0).1]
    exact h3 c0 hc0 a (by rw [← (hf c0 hc0).2]; exact hka)

/-- A pointwise change of the table that keeps identifiers and kinds, except that a derived component
may become another derived component (its inputs are rewritten). -/
theorem famOk_mapD {cs : List Comp} {ids : List Cid} {mk : Nat → Kind} {n : Nat}
    (h : FamOk cs ids mk n) (f : Comp → Comp) (hmk : ∀ a, (mk a).isDerived = false)
    (hf : ∀ c ∈ cs, (f c).cid = c.cid ∧
      ((f c).kind = c.kind ∨ (c.kind.isDerived = true ∧ (f c).kind.isDerived = true))) :
    FamOk (cs.map f) ids mk n := by
  obtain ⟨h1, h2, h3⟩ := h
  refine ⟨h1, ?_, ?_⟩
  · intro i hi
    obtain ⟨c, hc, hcid, hkind⟩ := h2 i hi
    refine ⟨f c, List.mem_map.2 ⟨c, hc, rfl⟩, by rw [(hf c hc).1, hcid], ?_⟩
    rcases (hf c hc).2 with he | ⟨hd, _⟩
    · rw [he, hkind]
    · rw [hkind, hmk i] at hd; cases hd
  · intro c hc a hka
    obtain ⟨c0, hc0, rfl⟩ := List.mem_map.1 hc
    rw [(hf c0 hc0).1]
    rcases (hf c0 hc0).2 with he | ⟨_, hd⟩
    · exact h3 c0 hc0 a (by rw [← he]; exact hka)
    · rw [hka, hmk a] at hd; cases hd

theorem cid_inj {cs : List Comp} (hnd : (cids cs).Nodup) {c1 c2 : Comp} (h1 : c1 ∈ cs) (h2 : c2 ∈ cs)
    (h : c1.cid = c2.cid) : c1 = c2 := by
  induction cs with
  | nil => cases h1
  | cons x xs ih =>
    simp only [cids, List.map_cons, List.nodup_cons, List.mem_map, not_exists, not_and] at hnd
    rcases List.mem_cons.1 h1 with rfl | h1' <;> rcases List.mem_cons.1 h2 with rfl | h2'
    · rfl
    · exact absurd h.symm (hnd.1 c2 h2')
    · exact absurd h (hnd.1 c1 h1')
    · exact ih (by simpa [cids] using hnd.2) h1' h2'

/-- The listed ids of a family are pairwise different (they name components of different kinds). -/
theorem famOk_ids_nodup {cs : List Comp} {ids : List Cid} {mk : Nat → Kind} {n : Nat}
    (h : FamOk cs ids mk n) (hmk : ∀ a b, mk a = mk b → a = b) (hnd : (cids cs).Nodup) :
    ids.Nodup := by
  obtain ⟨_, h2, _⟩ := h
  rw [List.nodup_iff_pairwise_ne, List.pairwise_iff_getElem]
  intro i j hi hj hij heq
  obtain ⟨c1, hc1, hid1, hk1⟩ := h2 i hi
  obtain ⟨c2, hc2, hid2, hk2⟩ := h2 j hj
  have hcc : c1 = c2 := cid_inj hnd hc1 hc2 (by rw [hid1, hid2, heq])
  subst hcc
  have := hmk i j (by rw [← hk1, ← hk2])
  omega

theorem famOk_ids_mem {cs : List Comp} {ids : List Cid} {mk : Nat → Kind} {n : Nat}
    (h : FamOk cs ids mk n) : ∀ c ∈ ids, c ∈ cids cs := by
  intro c hc
  obtain ⟨i, hi, rfl⟩ := List.getElem_of_mem hc
  obtain ⟨x, hx, hid, _⟩ := h.2.1 i hi
  exact List.mem_map.2 ⟨x, hx, hid⟩


/-! ## remove_component with its cascade -/

/-- What a (cascading) removal does to the table: it filters out a duplicate-free set `r.2` of
present ids, all of which are the requested id or derived components. -/
structure RemOk (cs : List Comp) (c : Cid) (r : List Comp × List Cid) : Prop where
  eq : r.1 = cs.filter (fun x => !r.2.contains x.cid)
  nodup : r.2.Nodup
  sub : ∀ x ∈ r.2, x ∈ cids cs
  kinds : ∀ x ∈ r.2, x = c ∨ ∃ y ∈ cs, y.cid = x ∧ y.kind.isDerived = true

theorem dependsOn_isDerived {k : Kind} {c : Cid} (h : k.dependsOn c = true) : k.isDerived = true := by
  cases k <;> simp_all [Kind.dependsOn, Kind.isDerived]

theorem mem_cids_filter {cs : List Comp} {p : Comp → Bool} {x : Cid} (h : x ∈ cids (cs.filter p)) :
    ∃ y ∈ cs, y.cid = x ∧ p y = true := by
  simp only [cids, List.mem_map, List.mem_filter] at h
  obtain ⟨y, ⟨hy, hp⟩, rfl⟩ := h
  exact ⟨y, hy, rfl, hp⟩

theorem removeRec_ok : ∀ (fuel : Nat) (cs : List Comp) (c : Cid), RemOk cs c (removeRec fuel cs c)
  | 0, cs, c => by
    simp only [removeRec]
    exact ⟨(List.filter_eq_self.2 (fun _ _ => rfl)).symm, List.nodup_nil, by simp, by simp⟩
  | fuel + 1, cs, c => by
    simp only [removeRec]
    split
    next hc =>
      -- the fold over the dependants
      generalize hcs1 : cs.filter (fun x => x.cid != c) = cs1
      have hfold : ∀ (ks : List Cid) (acc : List Comp × List Cid),
          (∀ k ∈ ks, ∃ y ∈ cs1, y.cid = k ∧ y.kind.isDerived = true) →
          acc.1 = cs1.filter (fun x => !acc.2.contains x.cid) → acc.2.Nodup →
          (∀ x ∈ acc.2, ∃ y ∈ cs1, y.cid = x ∧ y.kind.isDerived = true) →
          let r := ks.foldl (fun (acc : List Comp × List Cid) k =>
            let r := removeRec fuel acc.1 k
            (r.1, acc.2 ++ r.2)) acc
          r.1 = cs1.filter (fun x => !r.2.contains x.cid) ∧ r.2.Nodup ∧
          (∀ x ∈ r.2, ∃ y ∈ cs1, y.cid = x ∧ y.kind.isDerived = true) := by
        intro ks
        induction ks with
        | nil => intro acc _ h1 h2 h3; exact ⟨h1, h2, h3⟩
        | cons k ks ih =>
          intro acc hks h1 h2 h3
          simp only [List.foldl_cons]
          have hr := removeRec_ok fuel acc.1 k
          apply ih
          · intro k' hk'; exact hks k' (List.mem_cons_of_mem _ hk')
          · simp only
            rw [hr.eq, h1, List.filter_filter]
            congr 1
            funext x
            simp only [List.contains_append, Bool.not_or, Bool.and_comm]
          · simp only
            rw [List.nodup_append]
            refine ⟨h2, hr.nodup, ?_⟩
            intro a ha b hb hab
            subst hab
            have := hr.sub a hb
            rw [h1] at this
            obtain ⟨y, _, hy, hp⟩ := mem_cids_filter this
            simp only [Bool.not_eq_true', List.contains_eq_mem, decide_eq_false_iff_not] at hp
            exact hp (hy ▸ ha)
          · simp only
            intro x hx
            rcases List.mem_append.1 hx with hx | hx
            · exact h3 x hx
            · rcases hr.kinds x hx with rfl | ⟨y, hy, hyx, hyd⟩
              · exact hks _ (List.mem_cons_self)
              · rw [h1] at hy
                exact ⟨y, (List.mem_filter.1 hy).1, hyx, hyd⟩
      have hkids : ∀ k ∈ (cs1.filter (fun x => x.kind.dependsOn c)).map (·.cid),
          ∃ y ∈ cs1, y.cid = k ∧ y.kind.isDerived = true := by
        intro k hk
        simp only [List.mem_map, List.mem_filter] at hk
        obtain ⟨y, ⟨hy, hd⟩, rfl⟩ := hk
        exact ⟨y, hy, rfl, dependsOn_isDerived hd⟩
      have := hfold _ (cs1, []) hkids (List.filter_eq_self.2 (fun _ _ => rfl)).symm List.nodup_nil (by simp)
      simp only at this
      obtain ⟨e1, e2, e3⟩ := this
      have hsub1 : ∀ y ∈ cs1, y ∈ cs ∧ y.cid ≠ c := by
        intro y hy
        rw [← hcs1] at hy
        simpa using List.mem_filter.1 hy
      refine ⟨?_, ?_, ?_, ?_⟩
      · simp only
        rw [e1, ← hcs1, List.filter_filter]
        congr 1
        funext x
        simp only [List.contains_append, Bool.not_or, List.contains_cons, List.contains_nil,
          Bool.or_false, bne, Bool.and_comm]
      · simp only
        rw [List.nodup_append]
        refine ⟨e2, by simp, ?_⟩
        intro a ha b hb hab
        simp only [List.mem_singleton] at hb
        subst hab hb
        obtain ⟨y, hy, hyx, _⟩ := e3 _ ha
        exact (hsub1 y hy).2 hyx
      · simp only
        intro x hx
        rcases List.mem_append.1 hx with hx | hx
        · obtain ⟨y, hy, hyx, _⟩ := e3 x hx
          exact List.mem_map.2 ⟨y, (hsub1 y hy).1, hyx⟩
        · simp only [List.mem_singleton] at hx
          subst hx
          simpa using hc
      · simp only
        intro x hx
        rcases List.mem_append.1 hx with hx | hx
        · obtain ⟨y, hy, hyx, hyd⟩ := e3 x hx
          exact Or.inr ⟨y, (hsub1 y hy).1, hyx, hyd⟩
        · simp only [List.mem_singleton] at hx
          exact Or.inl hx
    next hc =>
      exact ⟨(List.filter_eq_self.2 (fun _ _ => rfl)).symm, List.nodup_nil, by simp, by simp⟩

/-- With fuel, a present id is really removed. -/
theorem removeRec_mem {fuel : Nat} {cs : List Comp} {c : Cid} (hc : c ∈ cids cs) :
    c ∈ (removeRec (fuel + 1) cs c).2 := by
  simp only [removeRec]
  simp [hc]

theorem removeRec_absent {fuel : Nat} {cs : List Comp} {c : Cid} (hc : c ∉ cids cs) :
    removeRec fuel cs c = (cs, []) := by
  cases fuel with
  | zero => rfl
  | succ n =>
    simp only [removeRec]
    simp [hc]


/-! ## preservation of `Inv`: elementary steps -/

/-- `Inv` only looks at the table, the two id lists, shape, coords, link count, linked ids and the
freshness counter (which may grow). -/
theorem inv_frame {s s' : State} (h : Inv s) (hc : s'.comps = s.comps) (hp : s'.pix = s.pix)
    (hw : s'.world = s.world) (hs : s'.shape = s.shape) (hco : s'.coords = s.coords)
    (hn : s'.nlinks = s.nlinks) (hl : s'.linked = s.linked) (hx : s.next ≤ s'.next) : Inv s' := by
  obtain ⟨h1, h2, h3, h4, h6, h7⟩ := h
  refine ⟨?_, ?_, ?_, ?_, ?_, ?_⟩
  · rw [hc]; exact h1
  · rw [hc, hs]; exact h2
  · rw [hc, hp, hs]; exact h3
  · rw [hc, hw, hs, hco]; exact h4
  · rw [hn, hco, hs]; exact h6
  · rw [hc, hl]
    exact ⟨fun c hc' => Nat.lt_of_lt_of_le (h7.1 c hc') hx, fun c hc' => Nat.lt_of_lt_of_le (h7.2 c hc') hx⟩

/-- Dropping components that are not coordinate components. -/
theorem inv_filter {s : State} (h : Inv s) (keep : Comp → Bool)
    (hk : ∀ c ∈ s.comps, c.kind.isCoord = true → keep c = true) :
    Inv { s with comps := s.comps.filter keep } := by
  obtain ⟨h1, h2, h3, h4, h6, h7⟩ := h
  refine ⟨?_, ?_, ?_, ?_, h6, ?_⟩
  · simp only [cids]
    exact (List.Sublist.map _ List.filter_sublist).nodup (by simpa [cids] using h1)
  · intro c hc; exact h2 c (List.mem_filter.1 hc).1
  · exact famOk_filter h3 keep (fun c hc a hka => hk c hc (by simp [hka, Kind.isCoord]))
  · simp only
    split
    next hco =>
      simp only [hco, if_true] at h4
      exact famOk_filter h4 keep (fun c hc a hka => hk c hc (by simp [hka, Kind.isCoord]))
    next hco =>
      simp only [hco] at h4
      exact ⟨h4.1, fun c hc a => h4.2 c (List.mem_filter.1 hc).1 a⟩
  · refine ⟨?_, h7.2⟩
    intro c hc
    simp only [cids, List.mem_map, List.mem_filter] at hc
    obtain ⟨x, ⟨hx, _⟩, rfl⟩ := hc
    exact h7.1 _ (List.mem_map.2 ⟨x, hx, rfl⟩)

/-- Appending a brand-new non-coordinate component of the right shape. -/
theorem inv_append {s : State} (h : Inv s) (c : Comp)
    (hnew : c.cid ∉ cids s.comps) (hlt : c.cid < s.next) (hk : c.kind.isCoord = false)
    (hsh : c.kind = .main → c.shape = s.shape) :
    Inv { s with comps := s.comps ++ [c] } := by
  obtain ⟨h1, h2, h3, h4, h6, h7⟩ := h
  have hnk : ∀ x ∈ [c], ∀ a, x.kind ≠ Kind.pixel a := by
    intro x hx a hka
    simp only [List.mem_singleton] at hx
    subst hx
    simp [hka, Kind.isCoord] at hk
  have hnw : ∀ x ∈ [c], ∀ a, x.kind ≠ Kind.world a := by
    intro x hx a hka
    simp only [List.mem_singleton] at hx
    subst hx
    simp [hka, Kind.isCoord] at hk
  refine ⟨?_, ?_, ?_, ?_, h6, ?_⟩
  · simp only [cids, List.map_append, List.map_cons, List.map_nil]
    rw [List.nodup_append]
    refine ⟨by simpa [cids] using h1, by simp, ?_⟩
    intro a ha b hb hab
    simp only [List.mem_singleton] at hb
    subst hab hb
    exact hnew (by simpa [cids] using ha)
  · intro x hx hxk
    rcases List.mem_append.1 hx with hx | hx
    · exact h2 x hx hxk
    · simp only [List.mem_singleton] at hx
      subst hx
      exact hsh hxk
  · exact famOk_append h3 [c] hnk
  · simp only
    split
    next hco =>
      simp only [hco, if_true] at h4
      exact famOk_append h4 [c] hnw
    next hco =>
      simp only [hco] at h4
      refine ⟨h4.1, ?_⟩
      intro x hx a
      rcases List.mem_append.1 hx with hx | hx
      · exact h4.2 x hx a
      · exact hnw x hx a
  · refine ⟨?_, h7.2⟩
    intro x hx
    simp only [cids, List.map_append, List.mem_append, List.map_cons, List.map_nil, List.mem_singleton] at hx
    rcases hx with hx | hx
    · exact h7.1 x (by simpa [cids] using hx)
    · subst hx; exact hlt

/-- Changing arrays in place (identifier and kind of every entry stay, main arrays end up with the
dataset's shape). -/
theorem inv_map {s : State} (h : Inv s) (f : Comp → Comp)
    (hf : ∀ c ∈ s.comps, (f c).cid = c.cid ∧ (f c).kind = c.kind)
    (hsh : ∀ c ∈ s.comps, c.kind = .main → (f c).shape = s.shape) :
    Inv { s with comps := s.comps.map f } := by
  obtain ⟨h1, h2, h3, h4, h6, h7⟩ := h
  have hcids : cids (s.comps.map f) = cids s.comps := by
    simp only [cids, List.map_map]
    apply List.map_congr_left
    intro c hc
    exact (hf c hc).1
  refine ⟨?_, ?_, ?_, ?_, h6, ?_⟩
  · rw [hcids]; exact h1
  · intro c hc hk
    obtain ⟨c0, hc0, rfl⟩ := List.mem_map.1 hc
    exact hsh c0 hc0 (by rw [← (hf c0 hc0).2]; exact hk)
  · exact famOk_map h3 f hf
  · simp only
    split
    next hco =>
      simp only [hco, if_true] at h4
      exact famOk_map h4 f hf
    next hco =>
      simp only [hco] at h4
      refine ⟨h4.1, ?_⟩
      intro c hc a
      obtain ⟨c0, hc0, rfl⟩ := List.mem_map.1 hc
      rw [(hf c0 hc0).2]
      exact h4.2 c0 hc0 a
  · exact ⟨by rw [hcids]; exact h7.1, h7.2⟩

/-- Rewriting the inputs of derived components (identifier, shape and the class of every entry
stay). -/
theorem inv_mapD {s : State} (h : Inv s) (f : Comp → Comp)
    (hf : ∀ c ∈ s.comps, (f c).cid = c.cid ∧
      ((f c).kind = c.kind ∨ (c.kind.isDerived = true ∧ (f c).kind.isDerived = true)))
    (hsh : ∀ c ∈ s.comps, (f c).shape = c.shape) :
    Inv { s with comps := s.comps.map f } := by
  obtain ⟨h1, h2, h3, h4, h6, h7⟩ := h
  have hcids : cids (s.comps.map f) = cids s.comps := by
    simp only [cids, List.map_map]
    apply List.map_congr_left
    intro c hc
    exact (hf c hc).1
  have hkm : ∀ c ∈ s.comps, (f c).kind = .main → c.kind = .main := by
    intro c hc hk
    rcases (hf c hc).2 with he | ⟨_, hd⟩
    · rw [← he]; exact hk
    · rw [hk] at hd; cases hd
  refine ⟨?_, ?_, ?_, ?_, h6, ?_⟩
  · rw [hcids]; exact h1
  · intro c hc hk
    obtain ⟨c0, hc0, rfl⟩ := List.mem_map.1 hc
    rw [hsh c0 hc0]
    exact h2 c0 hc0 (hkm c0 hc0 hk)
  · exact famOk_mapD h3 f (fun _ => rfl) hf
  · simp only
    split
    next hco =>
      simp only [hco, if_true] at h4
      exact famOk_mapD h4 f (fun _ => rfl) hf
    next hco =>
      simp only [hco] at h4
      refine ⟨h4.1, ?_⟩
      intro c hc a hka
      obtain ⟨c0, hc0, rfl⟩ := List.mem_map.1 hc
      rcases (hf c0 hc0).2 with he | ⟨_, hd⟩
      · exact h4.2 c0 hc0 a (by rw [← he]; exact hka)
      · rw [hka] at hd; cases hd
  · exact ⟨by rw [hcids]; exact h7.1, h7.2⟩

end GlueVerif.Lemmas.C17
