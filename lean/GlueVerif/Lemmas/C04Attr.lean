import GlueVerif.Lemmas.C04Index
import GlueVerif.Lemmas.CoordsLinks
/-!
# C04 — attribute kinds: every `get_data(cid, view)` is the gather of the attribute's values
-/
namespace GlueVerif.Lemmas.C04
open GlueVerif.ArrayUtil GlueVerif.C04
open GlueVerif.Coords (Sel selOf selsOf selShape maskFilter ViewErr Coord)

/-! ### the C15 view model and the C04 view model agree -/

theorem cart_eq_cartG : ∀ ls : List (List Nat), Coords.cart ls = cartG ls
  | [] => rfl
  | xs :: rest => by
    simp only [Coords.cart, cartG, cart_eq_cartG rest]

theorem fullSels_toList (sh : List Nat) :
    (Coords.fullSels sh).map Sel.toList = sh.map List.range := by
  simp [Coords.fullSels, Sel.toList, Function.comp_def]

theorem getD_map_wrapD (h : Nat) (xs : List Int) (r : Nat) :
    (xs.map (wrapD h)).getD r 0 = wrapD h (xs.getD r 0) := by
  by_cases hr : r < xs.length
  · simp [List.getD, List.getElem?_eq_getElem hr]
  · have : xs.length ≤ r := by omega
    simp [List.getD, List.getElem?_eq_none this, wrapD]

/-- The per-axis data of a tuple of index arrays that contains only (valid) arrays. -/
theorem arrays_bridge (s : List Nat) : ∀ (sh : List Nat) (items : List AItem),
    items.length = sh.length →
    (sh.zip items).all (fun p => match p.2 with
        | .arr xs => xs.length == prod s && xs.all (inAxis p.1)
        | .int _ => false) = true →
    let idx := (sh.zip items).map fun p => match p.2 with
        | .arr xs => xs.map (wrapD p.1)
        | .int i => [wrapD p.1 i]
    idx.length = sh.length ∧ idx.any (fun a => a.length ≠ prod s) = false ∧
      (idx.zip sh).any (fun p => p.1.any (fun k => k ≥ p.2)) = false ∧
      (sh.zip items).all (fun p => p.2.valid p.1 (prod s)) = true ∧
      ∀ r, idx.map (fun a => a.getD r 0) = (sh.zip items).map fun p => p.2.coord p.1 r
  | [], [], _, _ => by simp
  | [], _ :: _, hl, _ => by simp at hl
  | _ :: _, [], hl, _ => by simp at hl
  | h :: hs, it :: its, hl, hv => by
    simp only [List.zip_cons_cons, List.all_cons, Bool.and_eq_true] at hv
    obtain ⟨ih1, ih2, ih3, ih4, ih5⟩ := arrays_bridge s hs its (by simpa using hl) hv.2
    cases it with
    | int i => simp at hv
    | arr xs =>
      have hv1 := hv.1
      simp only [Bool.and_eq_true, beq_iff_eq, List.all_eq_true] at hv1
      simp only [List.zip_cons_cons, List.map_cons, List.length_cons, List.any_cons, List.all_cons,
        List.length_map]
      have hl' : its.length = hs.length := by simpa using hl
      refine ⟨by simp [hl'], ?_, ?_, ?_, ?_⟩
      · simp only [ih2, Bool.or_false, hv1.1]; simp
      · simp only [ih3, Bool.or_false]
        rw [List.any_eq_false]
        intro k hk
        simp only [List.mem_map] at hk
        obtain ⟨x, hx, rfl⟩ := hk
        have := wrapD_lt (hv1.2 x hx)
        simp; omega
      · rw [Bool.and_eq_true]
        refine ⟨?_, ih4⟩
        simp only [AItem.valid, Bool.and_eq_true, beq_iff_eq, List.all_eq_true]
        exact hv1
      · intro r
        rw [ih5 r, getD_map_wrapD]
        rfl

theorem coordsViewPoints_eq {sh : List Nat} {v : View} {cv : Coords.View}
    (h : toCoordsView sh v = some cv) : Coords.viewPoints sh cv = viewPoints sh v := by
  cases v with
  | none =>
    simp only [toCoordsView, Option.some.injEq] at h; subst h
    simp only [Coords.viewPoints, viewPoints, cart_eq_cartG, fullSels_toList, allIdx]
  | ellipsis =>
    simp only [toCoordsView, Option.some.injEq] at h; subst h
    simp only [Coords.viewPoints, viewPoints, cart_eq_cartG, fullSels_toList, allIdx]
  | basic items =>
    simp only [toCoordsView, Option.some.injEq] at h; subst h
    simp only [Coords.viewPoints, viewPoints, cart_eq_cartG]
  | mask m =>
    simp only [toCoordsView, Option.some.injEq] at h; subst h
    simp only [Coords.viewPoints, viewPoints, cart_eq_cartG, fullSels_toList, allIdx]
  | arrays s items =>
    simp only [toCoordsView] at h
    split at h
    · rename_i hc
      simp only [Option.some.injEq] at h; subst h
      obtain ⟨h1, h2, h3, h4, h5⟩ := arrays_bridge s sh items hc.1 hc.2
      simp only [Coords.viewPoints, viewPoints]
      have hl : ¬ (items.length ≠ sh.length) := by simp [hc.1]
      simp only [hl, if_false, h4, if_true]
      generalize ((sh.zip items).map fun p => match p.2 with
          | .arr xs => xs.map (wrapD p.1)
          | .int i => [wrapD p.1 i]) = idx at h1 h2 h3 h5
      split
      · rename_i hcon
        rcases hcon with hcon | hcon
        · exact absurd h1 hcon
        · rw [h2] at hcon; cases hcon
      · split
        · rename_i hcon; rw [h3] at hcon; cases hcon
        · simp only [Coords.pointsOf]
          congr 2
          apply List.map_congr_left
          intro r _
          exact h5 r
    · cases h

/-! ### world attributes (from C15) -/

theorem world_gather (c : Coord) (sh : List Nat) (ax : Nat) (v : View) (ha : ax < c.n)
    (hsh : sh.length = c.n) :
    Impl.world c sh ax v = gather sh (Coords.Spec.worldAt c ax) v := by
  have key : ∀ cv, Coords.Impl.worldView c sh ax cv = Coords.Spec.worldView c sh ax cv := fun cv =>
    Lemmas.Coords.worldViewWith_eq Coords.Impl.dependentAxes c sh ax cv ha hsh
      (Lemmas.Coords.need_subset_dependentAxes c ax ha)
  unfold Impl.world
  cases hcv : toCoordsView sh v with
  | some cv =>
    simp only [key cv, Coords.Spec.worldView, bind, Except.bind, pure, Except.pure,
      coordsViewPoints_eq hcv, gather]
    cases viewPoints sh v with
    | error e => rfl
    | ok sp => rfl
  | none =>
    simp only [key Coords.View.all, Coords.Spec.worldView, bind, Except.bind, pure, Except.pure,
      Coords.viewPoints, cart_eq_cartG, fullSels_toList]
    exact index_tabulate sh (Coords.Spec.worldAt c ax) v

/-! ### pixel ids of another, pixel-linked dataset -/

/-- **The axis used is the inverse-permutation image**: the coordinate along axis `k` of the other
dataset of the point `idx` (the association list "other axis `links[j]` ↦ `idx[j]`") is `idx` at the
position of `k` in the order — for every index tuple, every (partial) order in which `k` occurs. -/
theorem otherCoord_eq_getD_axisOf : ∀ (links : List (Option Nat)) (idx : List Nat) (k : Nat),
    links.contains (some k) = true → otherCoord links idx k = idx.getD (axisOf links k) 0
  | [], _, _, h => by simp at h
  | l :: ls, [], k, _ => by simp [otherCoord]
  | l :: ls, i :: is, k, h => by
    by_cases hl : l = some k
    · subst hl
      simp [otherCoord, axisOf]
    · have hne : (l == some k) = false := by simpa using hl
      have hne' : (some k == l) = false := by
        simp only [beq_eq_false_iff_ne, ne_eq]
        exact fun h => hl h.symm
      have hk : ls.contains (some k) = true := by
        simp only [List.contains_cons, hne', Bool.false_or] at h
        exact h
      have ih := otherCoord_eq_getD_axisOf ls is k hk
      simp only [otherCoord, axisOf] at ih ⊢
      simp only [List.zip_cons_cons, List.lookup_cons, hne', List.idxOf_cons, hne, cond_false]
      rw [ih]
      simp [List.getD]

/-! ### every attribute kind -/

theorem joinSplit_eq (v : View) : joinSplit v = v := by cases v <;> rfl

/-- `Data.get_data(cid, view)` is the gather of the attribute's values, for every attribute kind and
every view. -/
theorem attr_gather (sh : List Nat) : ∀ (a : Attr), Spec.attrWf sh a = true → ∀ v : View,
    Impl.attr sh a v = gather sh (Spec.attrAt sh a) v
  | .pixel ax, _, v => by
    simp only [Impl.attr, Spec.attrAt]
    exact index_tabulate sh _ v
  | .stored vals, _, v => rfl
  | .map f a, hw, v => by
    simp only [Impl.attr, Spec.attrAt, attr_gather sh a (by simpa [Spec.attrWf] using hw) v]
    exact (gather_comp sh (Spec.attrAt sh a) f v).symm
  | .zip op a b, hw, v => by
    simp only [Spec.attrWf, Bool.and_eq_true] at hw
    simp only [Impl.attr, Spec.attrAt, attr_gather sh a hw.1 v, attr_gather sh b hw.2 v]
    exact (gather_zip sh (Spec.attrAt sh a) (Spec.attrAt sh b) op v).symm
  | .linked a, hw, v => by
    simp only [Impl.attr, Spec.attrAt, joinSplit_eq]
    exact attr_gather sh a (by simpa [Spec.attrWf] using hw) v
  | .world c ax, hw, v => by
    simp only [Spec.attrWf, Bool.and_eq_true, decide_eq_true_eq] at hw
    simp only [Impl.attr, Spec.attrAt]
    exact world_gather c sh ax v hw.1 hw.2
  | .pixelOf links k, hw, v => by
    simp only [Spec.attrWf] at hw
    simp only [Impl.attr, Spec.attrAt, joinSplit_eq]
    rw [index_tabulate]
    congr 1
    funext idx
    rw [otherCoord_eq_getD_axisOf links idx k hw]

/-- The tuple of attribute values is gathered componentwise. -/
theorem attrsN_gather (sh : List Nat) : ∀ (as : List Attr), as.all (Spec.attrWf sh) = true → ∀ v : View,
    Impl.attrsN sh as v = gather sh (fun idx => as.map fun a => Spec.attrAt sh a idx) v
  | [], _, v => rfl
  | a :: as, hw, v => by
    simp only [List.all_cons, Bool.and_eq_true] at hw
    simp only [Impl.attrsN, attr_gather sh a hw.1 v, attrsN_gather sh as hw.2 v, List.map_cons]
    exact (gather_zip sh (Spec.attrAt sh a) (fun idx => as.map fun a => Spec.attrAt sh a idx) (· :: ·) v).symm

/-- **Views of attribute values**: for every attribute kind, `get_data(cid, view)` equals the
full-size result indexed by the view — same shape, same values, same errors. -/
theorem attr_view (sh : List Nat) (a : Attr) (hw : Spec.attrWf sh a = true) (v : View) :
    Impl.attr sh a v = Spec.viewOfRes (Impl.attr sh a .none) v := by
  rw [attr_gather sh a hw v, attr_gather sh a hw .none, gather_none]
  exact (index_tabulate sh _ v).symm

end GlueVerif.Lemmas.C04
