import GlueVerif.Lemmas.C10Bbox
/-! C10: the minimal-subarray path equals the full masked computation. Core Lean only. -/
namespace GlueVerif.Lemmas.C10
open GlueVerif.ArrayUtil GlueVerif.Stats

theorem reduce_nil (st : Stat) : reduce st [] = .nan := by
  cases st <;> simp [reduce, reduceMin, reduceMax, reduceSum, reduceMean, reduceMedian,
    reducePercentile, sortVals, Val.divNat]

theorem keptShape_nil_transfer : ∀ (red : List Bool) (sh sh' : List Nat), sh.length = sh'.length →
    keptShape red sh = [] → keptShape red sh' = [] := by
  intro red
  induction red with
  | nil => intro sh sh' _ _; simp [keptShape]
  | cons r rs ih =>
    intro sh sh' hl h
    cases sh with
    | nil => cases sh' with
      | nil => cases r <;> simp [keptShape]
      | cons _ _ => simp at hl
    | cons a as =>
      cases sh' with
      | nil => simp at hl
      | cons b bs =>
        cases r with
        | true => simp only [keptShape] at h ⊢; exact ih as bs (by simpa using hl) h
        | false => simp [keptShape] at h

theorem mapKept_nil : ∀ (red : List Bool) (box : Sub), mapKept red box [] = [] := by
  intro red
  induction red with
  | nil => intro box; simp [mapKept]
  | cons r rs ih =>
    intro box
    cases box with
    | nil => cases r <;> simp [mapKept]
    | cons s ss =>
      obtain ⟨b, n, st⟩ := s
      cases r with
      | true => simpa [mapKept] using ih ss
      | false => simp [mapKept]

theorem keepFn_mask_false (cfg : Cfg) (data : Idx → Val) (mask : Idx → Bool) (t : Idx)
    (h : mask t = false) : keepFn cfg true data mask t = none := by
  simp [keepFn, h]

theorem subShape_length (s : Sub) : (subShape s).length = s.length := by simp [subShape]

/-- The body of `implDirect.implMasked` with the viewed mask abstracted. -/
def maskedCore (cfg : Cfg) (data : Idx → Val) (v : List VItem) (red : List Bool)
    (vsh : List Nat) (vm : Idx → Bool) : Result :=
  if !((allIdx vsh).any vm) then
    { shape := keptShape red vsh, cell := fun _ => .nan }
  else
    let box := bbox vsh vm
    if allStep1 v then
      let nv := recombine v box
      let sub := uStat cfg true red (subShape box) (fun j => data (viewIdx nv j))
                  (fun j => vm (subIdx box j))
      if keptShape red vsh == [] then sub
      else
        { shape := keptShape red vsh,
          cell := fun k => if inBoxKept red box k then sub.cell (shiftKept red box k) else .nan }
    else
      uStat cfg true red vsh (fun j => data (viewIdx v j)) vm

theorem implMasked_eq_core (cfg : Cfg) (data : Idx → Val) (v : List VItem) (red : List Bool)
    (m : Idx → Bool) :
    implDirect.implMasked cfg data v red m =
      maskedCore cfg data v red (viewShape' v) (fun j => inRange j (viewShape' v) && m (viewIdx v j)) :=
  rfl

/-- kept value function of the viewed arrays -/
def kf (cfg : Cfg) (data : Idx → Val) (v : List VItem) (vm : Idx → Bool) : Idx → Option Val :=
  keepFn cfg true (fun j => data (viewIdx v j)) vm

theorem maskedCore_cell (cfg : Cfg) (data : Idx → Val) (v : List VItem) (red : List Bool)
    (vsh : List Nat) (vm : Idx → Bool) (k : Idx) (hvsh : viewShape' v = vsh)
    (hvm_range : ∀ t, vm t = true → inRange t vsh = true)
    (hl : red.length = vsh.length) (hk : inRange k (keptShape red vsh) = true) :
    (maskedCore cfg data v red vsh vm).cell k =
      reduce cfg.stat (cellVals red vsh (kf cfg data v vm) k) := by
  unfold maskedCore
  by_cases hany : (allIdx vsh).any vm = true
  · -- some element is selected
    simp only [hany, Bool.not_true, Bool.false_eq_true, if_false]
    have hcov : ∀ t, inBoxAll (bbox vsh vm) t = false → kf cfg data v vm t = none := by
      intro t ht
      apply keepFn_mask_false
      cases hv : vm t with
      | false => rfl
      | true =>
        have := bbox_covers vsh vm t (hvm_range t hv) hv
        rw [this] at ht
        exact absurd ht (by simp)
    have hboxlen : (bbox vsh vm).length = vsh.length := bbox_length vsh vm
    have hstep := bbox_step1 vsh vm
    by_cases hs1 : allStep1 v = true
    · simp only [hs1, if_true]
      -- the sub-array computation, expressed through `kf`
      have hsubfn : (keepFn cfg true (fun j => data (viewIdx (recombine v (bbox vsh vm)) j))
          (fun j => vm (subIdx (bbox vsh vm) j))) = fun j => kf cfg data v vm (subIdx (bbox vsh vm) j) := by
        funext j
        simp only [keepFn, kf]
        rw [viewIdx_recombine v (bbox vsh vm) j hs1 (by rw [hboxlen, hvsh]) hstep]
      have hA : ∀ k', inRange k' (keptShape red (subShape (bbox vsh vm))) = true →
          cellVals red vsh (kf cfg data v vm) (mapKept red (bbox vsh vm) k') =
            cellVals red (subShape (bbox vsh vm)) (fun j => kf cfg data v vm (subIdx (bbox vsh vm) j)) k' := by
        intro k' hk'
        apply cellVals_sub red vsh (bbox vsh vm) (kf cfg data v vm) k' hl (bbox_subOk vsh vm) _ hk'
        intro t ht hns
        apply hcov
        exact inBoxAll_false_of_inSubRed_false red (bbox vsh vm) t (by rw [hboxlen, hl])
          (by rw [hboxlen]; exact inRange_length t vsh ht) hstep hns
      by_cases hks : (keptShape red vsh == []) = true
      · simp only [hks, if_true]
        have hnil : keptShape red vsh = [] := by simpa using hks
        have hk0 : k = [] := by
          rw [hnil] at hk
          cases k with
          | nil => rfl
          | cons _ _ => simp [inRange] at hk
        subst hk0
        have hnil' : keptShape red (subShape (bbox vsh vm)) = [] :=
          keptShape_nil_transfer red vsh _ (by rw [subShape_length, hboxlen]) hnil
        have := hA [] (by rw [hnil']; simp [inRange])
        rw [mapKept_nil] at this
        simp only [uStat, hsubfn]
        rw [← this]
      · simp only [hks, Bool.false_eq_true, if_false]
        by_cases hin : inBoxKept red (bbox vsh vm) k = true
        · simp only [hin, if_true, uStat, hsubfn]
          have h1 := mapKept_shiftKept red (bbox vsh vm) k hstep hin
          have h2 := shiftKept_inRange red (bbox vsh vm) k (by rw [hboxlen, hl]) hin
          have := hA _ h2
          rw [h1] at this
          rw [← this]
        · have hin' : inBoxKept red (bbox vsh vm) k = false := by simpa using hin
          simp only [hin', Bool.false_eq_true, if_false]
          rw [cellVals_outside_box red vsh (bbox vsh vm) (kf cfg data v vm) k hcov hin']
          exact (reduce_nil _).symm
    · simp only [hs1, Bool.false_eq_true, if_false, uStat, kf]
  · -- nothing selected: every cell is NaN
    have hany' : (allIdx vsh).any vm = false := by simpa using hany
    simp only [hany', Bool.not_false, if_true]
    rw [show cellVals red vsh (kf cfg data v vm) k = [] from by
      apply cellVals_none
      intro t ht
      apply keepFn_mask_false
      rw [List.any_eq_false] at hany'
      have := hany' t ((mem_allIdx vsh t).mpr ht)
      simpa using this]
    exact (reduce_nil _).symm

/-- **Bounding box + NaN padding = full computation** (cell-wise), for every shape, view, mask,
set of reduced axes and statistic. -/
theorem implMasked_cell (cfg : Cfg) (data : Idx → Val) (v : List VItem) (red : List Bool)
    (m : Idx → Bool) (k : Idx) (hl : red.length = (viewShape' v).length)
    (hk : inRange k (keptShape red (viewShape' v)) = true) :
    (implDirect.implMasked cfg data v red m).cell k =
      (uStat cfg true red (viewShape' v) (fun j => data (viewIdx v j))
        (fun j => inRange j (viewShape' v) && m (viewIdx v j))).cell k := by
  rw [implMasked_eq_core]
  rw [maskedCore_cell cfg data v red (viewShape' v) _ k rfl
    (fun t ht => by simp only [Bool.and_eq_true] at ht; exact ht.1) hl hk]
  rfl

theorem implMasked_shape (cfg : Cfg) (data : Idx → Val) (v : List VItem) (red : List Bool)
    (m : Idx → Bool) :
    (implDirect.implMasked cfg data v red m).shape = keptShape red (viewShape' v) := by
  rw [implMasked_eq_core]
  unfold maskedCore
  simp only
  split
  · rfl
  · split
    · split
      · rename_i h
        simp only [uStat]
        have hnil : keptShape red (viewShape' v) = [] := by simpa using h
        rw [hnil]
        exact keptShape_nil_transfer red (viewShape' v) _
          (by rw [subShape_length, bbox_length]) hnil
      · rfl
    · rfl

end GlueVerif.Lemmas.C10
