import GlueVerif.Lemmas.C02RoundTrip
/-! `serialize` succeeds on every well-formed graph without inlined objects (the fixpoint loop stops
within `|heap| + 1` passes: the registry is injective and bounded by the heap), and the Boolean
hypotheses used by the driver mean what the lemmas assume. -/
namespace GlueVerif.C02

/-! ### Boolean hypotheses as propositions -/

theorem noOwn_iff (h : Heap) : noOwn h = true → NoOwn h := by
  intro hb ob hob f hf p hp
  unfold noOwn at hb
  have := (List.all_eq_true.mp hb) ob hob
  have := (List.all_eq_true.mp this) f hf
  rw [hp] at this
  cases this

theorem allEarly_iff (h : Heap) : allEarly h = true → ∀ ob ∈ h, ∀ f ∈ ob.fields, f.phase = .early := by
  intro hb ob hob f hf
  unfold allEarly at hb
  have := (List.all_eq_true.mp hb) ob hob
  have := (List.all_eq_true.mp this) f hf
  simpa using this

theorem acyclicBy_iff (rank : Nat → Nat) (h : Heap) : acyclicBy rank h = true →
    ∀ o ob, h[o]? = some ob → ∀ f ∈ ob.fields, ∀ p, f.val = .ref p → rank p < rank o := by
  intro hb o ob hob f hf p hp
  unfold acyclicBy at hb
  have ho : o < h.length := by
    obtain ⟨ho, _⟩ := List.getElem?_eq_some_iff.mp hob; exact ho
  have := (List.all_eq_true.mp hb) o (List.mem_range.mpr ho)
  simp only [hob] at this
  have := (List.all_eq_true.mp this) f hf
  simp only [hp, Val.target, decide_eq_true_eq] at this
  exact this

theorem wellFormed_iff (h : Heap) (main : Nat) : wellFormed h main = true →
    main < h.length ∧ ∀ ob ∈ h, ∀ f ∈ ob.fields, ∀ p, f.val = .ref p → p < h.length := by
  intro hb
  unfold wellFormed at hb
  rw [Bool.and_eq_true] at hb
  refine ⟨by simpa using hb.1, ?_⟩
  intro ob hob f hf p hp
  have := (List.all_eq_true.mp hb.2) ob hob
  have := (List.all_eq_true.mp this) f hf
  simp only [hp, Val.target, decide_eq_true_eq] at this
  exact this

/-! ### no errors -/

section
variable (h : Heap) (main : Nat)

def Bounded (reg : Reg) : Prop := ∀ e ∈ reg, e.1 < h.length

theorem idObj_bounded (st : SState) (p : Nat) (hp : p < h.length) (hb : Bounded h st.reg) :
    Bounded h (idObj h main st p).1.reg := by
  rcases (idObj_spec h main st p).2.2 with e | ⟨n, e⟩
  · rw [e]; exact hb
  · rw [e]
    intro x hx
    rcases List.mem_append.mp hx with a | a
    · exact hb x a
    · simp only [List.mem_singleton] at a; subst a; exact hp

theorem doFields_total {doO : DoO} (hwf : ∀ ob ∈ h, ∀ f ∈ ob.fields, ∀ p, f.val = .ref p → p < h.length)
    (ob : Obj) (hob : ob ∈ h) : ∀ (fs : List Field), NoOwnFields fs → (∀ f ∈ fs, f ∈ ob.fields) → ∀ (st : SState),
      Bounded h st.reg → ∃ st' js, doFields h main doO st fs = .ok (st', js) ∧ Bounded h st'.reg
  | [], _, _, st, hb => ⟨st, [], rfl, hb⟩
  | f :: fs, hno, hsub, st, hb => by
    have hno' : NoOwnFields fs := fun g hg => hno g (List.mem_cons_of_mem _ hg)
    have hsub' : ∀ g ∈ fs, g ∈ ob.fields := fun g hg => hsub g (List.mem_cons_of_mem _ hg)
    have head : ∃ st1 j, doField h main doO st f.val = .ok (st1, j) ∧ Bounded h st1.reg := by
      cases hv : f.val with
      | lit n => exact ⟨st, _, rfl, hb⟩
      | str s => exact ⟨st, _, rfl, hb⟩
      | ref p =>
        exact ⟨_, _, rfl, idObj_bounded h main st p (hwf ob hob f (hsub f List.mem_cons_self) p hv) hb⟩
      | own p => exact absurd hv (hno f List.mem_cons_self p)
    obtain ⟨st1, j, e1, b1⟩ := head
    obtain ⟨st2, js, e2, b2⟩ := doFields_total (doO := doO) hwf ob hob fs hno' hsub' st1 b1
    exact ⟨st2, (f.phase, j) :: js, by simp only [doFields, e1, e2], b2⟩

theorem doObj_total (hno : NoOwn h) (hwf : ∀ ob ∈ h, ∀ f ∈ ob.fields, ∀ p, f.val = .ref p → p < h.length)
    (f : Nat) (st : SState) (o : Nat) (ho : o < h.length) (hw : st.working = []) (hb : Bounded h st.reg) :
    ∃ st' j, doObj h main (f + 1) st o = .ok (st', j) ∧ Bounded h st'.reg := by
  have hob : h[o]? = some h[o] := List.getElem?_eq_getElem ho
  have hmem : h[o] ∈ h := List.getElem_mem ho
  obtain ⟨st1, js, e1, b1⟩ := doFields_total h main (doO := doObj h main f) hwf h[o] hmem h[o].fields (hno _ hmem)
    (fun _ hf => hf) { st with working := o :: st.working } hb
  refine ⟨{ st1 with working := st1.working.erase o }, .obj h[o].cls js, ?_, b1⟩
  rw [hw] at e1
  simp only [doObj, hw, List.contains_nil, Bool.false_eq_true, if_false, hob, e1]

theorem doPass_total (hno : NoOwn h) (hwf : ∀ ob ∈ h, ∀ f ∈ ob.fields, ∀ p, f.val = .ref p → p < h.length)
    (fuel : Nat) : ∀ (items : Reg) (st : SState), Bounded h items → st.working = [] → Bounded h st.reg →
      ∃ st' tbl, doPass h main (fuel + 1) st items = .ok (st', tbl) ∧ Bounded h st'.reg
  | [], st, _, _, hb => ⟨st, [], rfl, hb⟩
  | (o, n) :: rest, st, hbi, hw, hb => by
    obtain ⟨st1, j, e1, b1⟩ := doObj_total h main hno hwf fuel st o (hbi (o, n) List.mem_cons_self) hw hb
    have hw1 : st1.working = [] := by rw [doObj_work h main _ _ _ _ _ e1, hw]
    obtain ⟨st2, js, e2, b2⟩ := doPass_total hno hwf fuel rest st1
      (fun e he => hbi e (List.mem_cons_of_mem _ he)) hw1 b1
    exact ⟨st2, (n, j) :: js, by simp only [doPass, e1, e2], b2⟩

theorem bounded_length {reg : Reg} (hnd : (reg.map Prod.fst).Nodup) (hb : Bounded h reg) : reg.length ≤ h.length := by
  have hsub : reg.map Prod.fst ⊆ List.range h.length := by
    intro x hx
    obtain ⟨e, he, rfl⟩ := List.mem_map.mp hx
    exact List.mem_range.mpr (hb e he)
  have := List.Nodup.length_le_of_subset hnd hsub
  simpa using this

theorem doAll_total (hno : NoOwn h) (hwf : ∀ ob ∈ h, ∀ f ∈ ob.fields, ∀ p, f.val = .ref p → p < h.length)
    (fuel : Nat) : ∀ (k : Nat) (st : SState), Between h main st → Bounded h st.reg → h.length - st.reg.length < k →
      ∃ st' tbl, doAll h main (fuel + 1) k st = .ok (st', tbl)
  | 0, _, _, _, hk => absurd hk (Nat.not_lt_zero _)
  | k + 1, st, hbt, hb, hk => by
    obtain ⟨st1, tbl, e1, b1⟩ := doPass_total h main hno hwf fuel st.reg st hb hbt.idle hb
    by_cases hlen : st1.reg.length = st.reg.length
    · exact ⟨st1, tbl, by simp only [doAll, e1, hlen, if_true]⟩
    · have hbt1 := between_pass h main hno fuel hbt e1
      have hle := (doPass_ext h main _ _ _ _ _ e1).pre.length_le
      have hbound := bounded_length h hbt1.regOk.objsNodup b1
      obtain ⟨st', t', e'⟩ := doAll_total hno hwf fuel k st1 hbt1 b1 (by omega)
      exact ⟨st', t', by simp only [doAll, e1, hlen, if_false, e']⟩

/-- **`serialize` succeeds** on well-formed graphs without inlined objects. -/
theorem serialize_total (hno : NoOwn h) (hmain : main < h.length)
    (hwf : ∀ ob ∈ h, ∀ f ∈ ob.fields, ∀ p, f.val = .ref p → p < h.length) :
    ∃ st T, serialize h main = .ok (st, T) := by
  have hb : Bounded h (initS main).reg := by
    intro e he; simp only [initS, List.mem_singleton] at he; subst he; exact hmain
  exact doAll_total h main hno hwf h.length (h.length + 1) (initS main) (between_init h main) hb
    (by simp only [initS, List.length_singleton]; omega)

end

end GlueVerif.C02
