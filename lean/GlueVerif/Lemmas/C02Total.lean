import GlueVerif.Lemmas.C02RoundTrip
/-! `serialize` succeeds on every well-formed graph whose inlined objects form a forest (the fixpoint
loop stops within `|heap| + 1` passes: the registry is injective and bounded by the heap; `do` never
meets its `_working` guard nor runs out of depth because inline edges strictly decrease `idep`), and
the Boolean hypotheses used by the driver mean what the lemmas assume. -/
namespace GlueVerif.C02

/-! ### Boolean hypotheses as propositions -/

theorem allEarly_iff (h : Heap) : allEarly h = true → ∀ ob ∈ h, ∀ f ∈ ob.fields, f.phase = .early := by
  intro hb ob hob f hf
  unfold allEarly at hb
  have := (List.all_eq_true.mp hb) ob hob
  have := (List.all_eq_true.mp this) f hf
  simpa using this

theorem acyclicBy_iff (rank : Nat → Nat) (h : Heap) : acyclicBy rank h = true →
    ∀ o ob, h[o]? = some ob → ∀ f ∈ ob.fields, ∀ p, f.val.target = some p → rank p < rank o := by
  intro hb o ob hob f hf p hp
  unfold acyclicBy at hb
  have ho : o < h.length := by
    obtain ⟨ho, _⟩ := List.getElem?_eq_some_iff.mp hob; exact ho
  have := (List.all_eq_true.mp hb) o (List.mem_range.mpr ho)
  simp only [hob] at this
  have := (List.all_eq_true.mp this) f hf
  simp only [hp, decide_eq_true_eq] at this
  exact this

theorem wellFormed_iff (h : Heap) (main : Nat) : wellFormed h main = true →
    main < h.length ∧ ∀ ob ∈ h, ∀ f ∈ ob.fields, ∀ p, f.val.target = some p → p < h.length := by
  intro hb
  unfold wellFormed at hb
  rw [Bool.and_eq_true] at hb
  refine ⟨by simpa using hb.1, ?_⟩
  intro ob hob f hf p hp
  have := (List.all_eq_true.mp hb.2) ob hob
  have := (List.all_eq_true.mp this) f hf
  simp only [hp, decide_eq_true_eq] at this
  exact this

/-- what `inlineForestBy` provides -/
structure InlineForest (idep : Nat → Nat) (h : Heap) (main : Nat) : Prop where
  depth : ∀ o, o < h.length → idep o ≤ h.length
  edge : ∀ (o : Nat) (ob : Obj), h[o]? = some ob → ∀ f ∈ ob.fields, ∀ p, f.val = Val.own p → idep p < idep o ∧ f.phase ≠ .cb
  /-- an inlined object has a plain loader, is not `main` and is never referred to by name -/
  inl : ∀ (o : Nat) (ob : Obj), h[o]? = some ob → ∀ f ∈ ob.fields, ∀ p, f.val = Val.own p → ∀ obp : Obj, h[p]? = some obp →
    (∀ x ∈ obp.fields, x.phase = .early) ∧ p ≠ main ∧ isRefTarget h p = false

theorem inlineForestBy_iff (idep : Nat → Nat) (h : Heap) (main : Nat) (hb : inlineForestBy idep h main = true) :
    InlineForest idep h main := by
  unfold inlineForestBy at hb
  have key := List.all_eq_true.mp hb
  refine ⟨?_, ?_, ?_⟩
  · intro o ho
    have := key o (List.mem_range.mpr ho)
    simp only [Bool.and_eq_true, decide_eq_true_eq] at this
    exact this.1.1
  · intro o ob hob f hf p hp
    have ho : o < h.length := by
      obtain ⟨ho, _⟩ := List.getElem?_eq_some_iff.mp hob; exact ho
    have := key o (List.mem_range.mpr ho)
    simp only [Bool.and_eq_true, hob] at this
    have := (List.all_eq_true.mp this.1.2) f hf
    simp only [hp, Bool.and_eq_true, decide_eq_true_eq, bne_iff_ne, ne_eq] at this
    exact this
  · intro o ob hob f hf p hp obp hobp
    have hpl : p < h.length := by
      obtain ⟨hpl, _⟩ := List.getElem?_eq_some_iff.mp hobp; exact hpl
    have := key p (List.mem_range.mpr hpl)
    simp only [Bool.and_eq_true] at this
    have hin : isInlined h p = true := by
      unfold isInlined
      rw [List.any_eq_true]
      refine ⟨ob, List.mem_of_getElem? hob, ?_⟩
      rw [List.any_eq_true]
      exact ⟨f, hf, by simp [hp]⟩
    have h3 := this.2
    simp only [hin, Bool.not_true, Bool.false_or, Bool.and_eq_true, hobp, bne_iff_ne, ne_eq,
      Bool.not_eq_true'] at h3
    refine ⟨?_, h3.1.1.1, h3.1.1.2⟩
    intro x hx
    have := (List.all_eq_true.mp h3.2) x hx
    simpa using this

/-! ### no errors -/

section
variable (h : Heap) (main : Nat)

def Bounded (reg : Reg) : Prop := ∀ e ∈ reg, e.1 < h.length

theorem idObj_bounded (st : SState) (p : Nat) (hp : p < h.length) (hb : Bounded h st.reg) :
    Bounded h (idObj h main st p).1.reg := by
  rcases (idObj_spec h main st p).2.2 with e | ⟨n, e⟩
  · rw [e]; exact hb
  · rw [e]
    intro x hx
    rcases List.mem_append.mp hx with a | a
    · exact hb x a
    · simp only [List.mem_singleton] at a; subst a; exact hp

/-- a `do` of the inlined object `p` succeeds when the depth left suffices and `p` is not being serialized -/
def DoOTotal (idep : Nat → Nat) (d : Nat) (doO : DoO) : Prop :=
  ∀ st p, p < h.length → idep p < d → (∀ a ∈ st.working, idep p < idep a) → Bounded h st.reg →
    ∃ st' j, doO st p = .ok (st', j) ∧ Bounded h st'.reg

theorem doFields_total {doO : DoO} {idep : Nat → Nat} {d : Nat} (hT : DoOTotal h idep d doO) (hW : DoOWork doO)
    (hwf : ∀ ob ∈ h, ∀ f ∈ ob.fields, ∀ p, f.val.target = some p → p < h.length)
    (cur : Nat) (ob : Obj) (hcur : h[cur]? = some ob) (hdep : idep cur ≤ d)
    (hedge : ∀ f ∈ ob.fields, ∀ p, f.val = .own p → idep p < idep cur) :
    ∀ (fs : List Field), (∀ f ∈ fs, f ∈ ob.fields) → ∀ (st : SState),
      (∀ a ∈ st.working, idep cur ≤ idep a) → Bounded h st.reg →
      ∃ st' js, doFields h main doO st fs = .ok (st', js) ∧ Bounded h st'.reg
  | [], _, st, _, hb => ⟨st, [], rfl, hb⟩
  | f :: fs, hsub, st, hw, hb => by
    have hsub' : ∀ g ∈ fs, g ∈ ob.fields := fun g hg => hsub g (List.mem_cons_of_mem _ hg)
    have hfm : f ∈ ob.fields := hsub f List.mem_cons_self
    have hobm : ob ∈ h := List.mem_of_getElem? hcur
    have head : ∃ st1 j, doField h main doO st f.val = .ok (st1, j) ∧ Bounded h st1.reg := by
      cases hv : f.val with
      | lit n => exact ⟨st, _, rfl, hb⟩
      | str s => exact ⟨st, _, rfl, hb⟩
      | ref p =>
        exact ⟨_, _, rfl, idObj_bounded h main st p (hwf ob hobm f hfm p (by rw [hv]; rfl)) hb⟩
      | own p =>
        have hlt := hedge f hfm p hv
        obtain ⟨st1, j, e1, b1⟩ := hT st p (hwf ob hobm f hfm p (by rw [hv]; rfl)) (by omega)
          (fun a ha => by have := hw a ha; omega) hb
        exact ⟨st1, j, e1, b1⟩
    obtain ⟨st1, j, e1, b1⟩ := head
    have hw1 : ∀ a ∈ st1.working, idep cur ≤ idep a := by
      rw [doField_work h main hW e1]; exact hw
    obtain ⟨st2, js, e2, b2⟩ := doFields_total hT hW hwf cur ob hcur hdep hedge fs hsub' st1 hw1 b1
    exact ⟨st2, (f.phase, j) :: js, by simp only [doFields, e1, e2], b2⟩

theorem doObj_total {idep : Nat → Nat}
    (hwf : ∀ ob ∈ h, ∀ f ∈ ob.fields, ∀ p, f.val.target = some p → p < h.length)
    (hedge : ∀ o ob, h[o]? = some ob → ∀ f ∈ ob.fields, ∀ p, f.val = .own p → idep p < idep o) :
    ∀ (f : Nat), DoOTotal h idep f (doObj h main f)
  | 0 => by intro st p _ hd; omega
  | f + 1 => by
    intro st o ho hd hw hb
    have hob : h[o]? = some h[o] := List.getElem?_eq_getElem ho
    have hnw : st.working.contains o = false := by
      rw [List.contains_eq_mem, decide_eq_false_iff_not]
      intro hm
      have := hw o hm; omega
    obtain ⟨st1, js, e1, b1⟩ := doFields_total h main (doObj_total hwf hedge f) (doObj_work h main f) hwf o h[o] hob
      (by omega) (hedge o h[o] hob) h[o].fields (fun _ hf => hf) { st with working := o :: st.working }
      (by
        intro a ha
        rcases List.mem_cons.mp ha with e | e
        · rw [e]; exact Nat.le_refl _
        · have := hw a e; omega) hb
    refine ⟨{ st1 with working := st1.working.erase o }, .obj h[o].cls js, ?_, b1⟩
    simp only [doObj, hnw, Bool.false_eq_true, if_false, hob, e1]

theorem doPass_total {idep : Nat → Nat}
    (hwf : ∀ ob ∈ h, ∀ f ∈ ob.fields, ∀ p, f.val.target = some p → p < h.length)
    (hedge : ∀ o ob, h[o]? = some ob → ∀ f ∈ ob.fields, ∀ p, f.val = .own p → idep p < idep o)
    (hdepth : ∀ o, o < h.length → idep o ≤ h.length) :
    ∀ (items : Reg) (st : SState), Bounded h items → st.working = [] → Bounded h st.reg →
      ∃ st' tbl, doPass h main (h.length + 1) st items = .ok (st', tbl) ∧ Bounded h st'.reg
  | [], st, _, _, hb => ⟨st, [], rfl, hb⟩
  | (o, n) :: rest, st, hbi, hw, hb => by
    have ho : o < h.length := hbi (o, n) List.mem_cons_self
    obtain ⟨st1, j, e1, b1⟩ := doObj_total h main hwf hedge (h.length + 1) st o ho
      (by have := hdepth o ho; omega) (by intro a ha; rw [hw] at ha; simp at ha) hb
    have hw1 : st1.working = [] := by rw [doObj_work h main _ _ _ _ _ e1, hw]
    obtain ⟨st2, js, e2, b2⟩ := doPass_total hwf hedge hdepth rest st1
      (fun e he => hbi e (List.mem_cons_of_mem _ he)) hw1 b1
    exact ⟨st2, (n, j) :: js, by simp only [doPass, e1, e2], b2⟩

theorem bounded_length {reg : Reg} (hnd : (reg.map Prod.fst).Nodup) (hb : Bounded h reg) : reg.length ≤ h.length := by
  have hsub : reg.map Prod.fst ⊆ List.range h.length := by
    intro x hx
    obtain ⟨e, he, rfl⟩ := List.mem_map.mp hx
    exact List.mem_range.mpr (hb e he)
  have := List.Nodup.length_le_of_subset hnd hsub
  simpa using this

theorem doAll_total {idep : Nat → Nat}
    (hwf : ∀ ob ∈ h, ∀ f ∈ ob.fields, ∀ p, f.val.target = some p → p < h.length)
    (hedge : ∀ o ob, h[o]? = some ob → ∀ f ∈ ob.fields, ∀ p, f.val = .own p → idep p < idep o)
    (hdepth : ∀ o, o < h.length → idep o ≤ h.length) :
    ∀ (k : Nat) (st : SState), Between h main st → Bounded h st.reg → h.length - st.reg.length < k →
      ∃ st' tbl, doAll h main (h.length + 1) k st = .ok (st', tbl)
  | 0, _, _, _, hk => absurd hk (Nat.not_lt_zero _)
  | k + 1, st, hbt, hb, hk => by
    obtain ⟨st1, tbl, e1, b1⟩ := doPass_total h main hwf hedge hdepth st.reg st hb hbt.idle hb
    by_cases hlen : st1.reg.length = st.reg.length
    · exact ⟨st1, tbl, by simp only [doAll, e1, hlen, if_true]⟩
    · have hbt1 := between_pass h main hbt e1
      have hle := (doPass_ext h main _ _ _ _ _ e1).pre.length_le
      have hbound := bounded_length h hbt1.regOk.objsNodup b1
      obtain ⟨st', t', e'⟩ := doAll_total hwf hedge hdepth k st1 hbt1 b1 (by omega)
      exact ⟨st', t', by simp only [doAll, e1, hlen, if_false, e']⟩

/-- **`serialize` succeeds** on well-formed graphs whose inline edges strictly decrease a bounded depth. -/
theorem serialize_total {idep : Nat → Nat} (hmain : main < h.length)
    (hwf : ∀ ob ∈ h, ∀ f ∈ ob.fields, ∀ p, f.val.target = some p → p < h.length)
    (hedge : ∀ o ob, h[o]? = some ob → ∀ f ∈ ob.fields, ∀ p, f.val = .own p → idep p < idep o)
    (hdepth : ∀ o, o < h.length → idep o ≤ h.length) :
    ∃ st T, serialize h main = .ok (st, T) := by
  have hb : Bounded h (initS main).reg := by
    intro e he; simp only [initS, List.mem_singleton] at he; subst he; exact hmain
  exact doAll_total h main hwf hedge hdepth (h.length + 1) (initS main) (between_init h main) hb
    (by simp only [initS, List.length_singleton]; omega)

end

end GlueVerif.C02
