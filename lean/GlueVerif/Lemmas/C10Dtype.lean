import GlueVerif.Model.Stats
/-! C10 (round 2): the specification's cells are reducers over `specCellVals`, the acceptance rule
admits the exact statistic, and neither depends on the storage dtype.  Core Lean only. -/
namespace GlueVerif.Lemmas.C10
open GlueVerif.ArrayUtil GlueVerif.Stats

theorem reduce_nil (st : Stat) : reduce st [] = .nan := by
  cases st <;> simp [reduce, reduceMin, reduceMax, reduceSum, reduceMean, reduceMedian,
    reducePercentile, sortVals, Val.divNat]

theorem specStat_cell_reduce (cfg : Cfg) (sh : List Nat) (data : Idx → Val) (sel : SelM)
    (vk : ViewKind) (v : List VItem) (red : List Bool) (k : Idx) :
    (specStat cfg sh data sel vk v red).cell k =
      reduce cfg.stat (specCellVals cfg sh data sel vk v red k) := by
  unfold specStat specCellVals
  split
  · by_cases h0 : prod (subShape ‹Sub›) = 0
    · simp [h0, reduce_nil]
    · by_cases hk : inRange k (keptShape red (subShape ‹Sub›)) = true
      · simp [h0, hk, uStat]
      · simp [h0, hk, reduce_nil]
  · simp [uStat]

theorem acceptFin_self (st : Stat) (xs : List Val) (e : Rat) : acceptFin st xs e e = true := by
  simp [acceptFin]

theorem specAccept_exact (st : Stat) (xs : List Val) : specAccept st xs (reduce st xs) = true := by
  unfold specAccept
  split
  · next a e h1 h2 =>
    have : a = e := by
      have := h1.symm.trans h2
      exact Val.fin.inj this
    subst this
    exact acceptFin_self st xs a
  · simp

end GlueVerif.Lemmas.C10
