import GlueVerif.Lemmas.C02RoundTrip
/-! The un-serializer on graphs whose classes may have *generator* loaders (two-phase construction):
fields read after the `yield` are assigned to the already registered, partially built object, which is
what makes cycles loadable.  Hypothesis: early edges strictly decrease a rank, late edges do not
increase it (every cycle consists of late edges only). -/
namespace GlueVerif.C02

/-! ### counting what is still to be loaded -/

theorem filter_length_mono {α : Type} (p q : α → Bool) : ∀ (l : List α), (∀ a ∈ l, p a = true → q a = true) →
    (l.filter p).length ≤ (l.filter q).length
  | [], _ => Nat.le_refl _
  | a :: l, himp => by
    have ih := filter_length_mono p q l (fun x hx => himp x (List.mem_cons_of_mem _ hx))
    simp only [List.filter_cons]
    by_cases hp : p a = true
    · have hq := himp a List.mem_cons_self hp
      simp only [hp, hq, if_true, List.length_cons]; omega
    · simp only [hp, if_false, Bool.false_eq_true]
      split
      · simp only [List.length_cons]; omega
      · exact ih

theorem filter_length_lt {α : Type} (p q : α → Bool) : ∀ (l : List α), (∀ a ∈ l, p a = true → q a = true) →
    (∃ a ∈ l, q a = true ∧ p a = false) → (l.filter p).length < (l.filter q).length
  | [], _, hex => by obtain ⟨a, ha, _⟩ := hex; simp at ha
  | a :: l, himp, hex => by
    have himp' : ∀ x ∈ l, p x = true → q x = true := fun x hx => himp x (List.mem_cons_of_mem _ hx)
    have mono := filter_length_mono p q l himp'
    obtain ⟨b, hb, hqb, hpb⟩ := hex
    simp only [List.filter_cons]
    rcases List.mem_cons.mp hb with e | e
    · subst e
      simp only [hpb, hqb, if_true, if_false, Bool.false_eq_true, List.length_cons]; omega
    · have ih := filter_length_lt p q l himp' ⟨b, e, hqb, hpb⟩
      by_cases hp : p a = true
      · have hq := himp a List.mem_cons_self hp
        simp only [hp, hq, if_true, List.length_cons]; omega
      · simp only [hp, if_false, Bool.false_eq_true]
        split
        · simp only [List.length_cons]; omega
        · exact ih

/-- registered names that are neither restored nor under construction -/
def todo (reg : Reg) (st : LState) : Nat :=
  (reg.filter fun e => (lookupMemo st.memo e.2).isNone && !st.working.contains e.2).length

/-! ### heaps that only grow / change beyond a point -/

def HeapLe (a b : List LObj) : Prop := a.length ≤ b.length ∧ ∀ j, j < a.length → b[j]? = a[j]?

theorem HeapLe.refl (a : List LObj) : HeapLe a a := ⟨Nat.le_refl _, fun _ _ => rfl⟩
theorem HeapLe.trans {a b c : List LObj} (h1 : HeapLe a b) (h2 : HeapLe b c) : HeapLe a c :=
  ⟨Nat.le_trans h1.1 h2.1, fun j hj => by rw [h2.2 j (Nat.lt_of_lt_of_le hj h1.1), h1.2 j hj]⟩

theorem HeapLe.get {a b : List LObj} (hle : HeapLe a b) {j : Nat} {x : LObj} (hx : a[j]? = some x) : b[j]? = some x := by
  have hj : j < a.length := by
    obtain ⟨hj, _⟩ := List.getElem?_eq_some_iff.mp hx; exact hj
  rw [hle.2 j hj]; exact hx

theorem heapLe_append (a : List LObj) (x : LObj) : HeapLe a (a ++ [x]) :=
  ⟨by simp, fun j hj => List.getElem?_append_left hj⟩

/-! ### invariant with objects whose late phase is in progress -/

structure LInvP (h : Heap) (reg : Reg) (prog : List Str) (st : LState) : Prop where
  noCb : st.callbacks = []
  noPend : st.pend = []
  keysNodup : (st.memo.map Prod.fst).Nodup
  valsNodup : (st.memo.map Prod.snd).Nodup
  disj : ∀ w ∈ st.working, lookupMemo st.memo w = none
  bound : ∀ e ∈ st.memo, e.2 < st.heap.length
  good : ∀ e ∈ st.memo, e.1 ∉ prog → Good h reg st e.1 e.2

structure LExtP (st st' : LState) : Prop where
  memo : MemoLe st.memo st'.memo
  heap : HeapLe st.heap st'.heap
  work : st'.working = st.working

theorem LExtP.refl (st : LState) : LExtP st st := ⟨MemoLe.refl _, HeapLe.refl _, rfl⟩
theorem LExtP.trans {a b c : LState} (h1 : LExtP a b) (h2 : LExtP b c) : LExtP a c :=
  ⟨h1.memo.trans h2.memo, h1.heap.trans h2.heap, by rw [h2.work, h1.work]⟩

theorem memoLe_isNone {m m' : List (Str × Nat)} (hle : MemoLe m m') {n : Str}
    (h : (lookupMemo m' n).isNone = true) : (lookupMemo m n).isNone = true := by
  cases hm : lookupMemo m n with
  | none => rfl
  | some j => rw [hle n j hm] at h; cases h

theorem todo_mono {reg : Reg} {st st' : LState} (hm : MemoLe st.memo st'.memo) (hw : st'.working = st.working) :
    todo reg st' ≤ todo reg st := by
  unfold todo
  apply filter_length_mono
  intro e _ he
  rw [Bool.and_eq_true] at he ⊢
  exact ⟨memoLe_isNone hm he.1, by rw [← hw]; exact he.2⟩

/-- values of a freshly allocated generator-built object: late fields are still pending -/
def InitVals (reg : Reg) (memo : List (Str × Nat)) : List Field → List LVal → Prop
  | [], [] => True
  | f :: fs, l :: ls => (if f.phase = .late then l = .pending else RelVal reg memo f.val l) ∧ InitVals reg memo fs ls
  | _, _ => False

theorem InitVals.mono {reg : Reg} {m m' : List (Str × Nat)} (hle : MemoLe m m') :
    ∀ {fs : List Field} {ls : List LVal}, InitVals reg m fs ls → InitVals reg m' fs ls
  | [], [], _ => trivial
  | _ :: _, [], h => by simp [InitVals] at h
  | [], _ :: _, h => by simp [InitVals] at h
  | f :: _, _ :: _, h => by
    refine ⟨?_, InitVals.mono hle h.2⟩
    have h1 := h.1
    by_cases hp : f.phase = .late
    · simpa [hp] using h1
    · simp only [hp, if_false] at h1 ⊢; exact RelVal.mono hle h1

theorem relVals_append {reg : Reg} {memo : List (Str × Nat)} : ∀ {vs : List Val} {ls : List LVal} {v : Val} {l : LVal},
    RelVals reg memo vs ls → RelVal reg memo v l → RelVals reg memo (vs ++ [v]) (ls ++ [l])
  | [], [], _, _, _, h2 => ⟨h2, trivial⟩
  | _ :: _, [], _, _, h1, _ => by simp [RelVals] at h1
  | [], _ :: _, _, _, h1, _ => by simp [RelVals] at h1
  | _ :: _, _ :: _, _, _, h1, h2 => ⟨h1.1, relVals_append h1.2 h2⟩

theorem relVals_length {reg : Reg} {memo : List (Str × Nat)} : ∀ {vs : List Val} {ls : List LVal},
    RelVals reg memo vs ls → vs.length = ls.length
  | [], [], _ => rfl
  | _ :: _, [], h => by simp [RelVals] at h
  | [], _ :: _, h => by simp [RelVals] at h
  | _ :: _, _ :: _, h => by simp [relVals_length h.2]


/-! ### setting -/

structure CtxL (h : Heap) (main : Nat) (reg : Reg) (T : Table) (rank : Nat → Nat) : Prop where
  regOk : RegOk main reg
  tbl : ∀ o n, (o, n) ∈ reg → ∃ ob, h[o]? = some ob ∧ lookupRec T n = some (encObj reg ob) ∧ RefsIn reg ob.fields
  phases : ∀ ob ∈ h, ∀ f ∈ ob.fields, f.phase = .early ∨ f.phase = .late
  noOwn : NoOwn h
  rkEarly : ∀ o ob, h[o]? = some ob → ∀ f ∈ ob.fields, f.phase = .early → ∀ p, f.val = .ref p → rank p < rank o
  rkLate : ∀ o ob, h[o]? = some ob → ∀ f ∈ ob.fields, ∀ p, f.val = .ref p → rank p ≤ rank o

section
variable {h : Heap} {main : Nat} {reg : Reg} {T : Table} {rank : Nat → Nat}

def LoadsOkP (h : Heap) (reg : Reg) (T : Table) (prog : List Str) (fuel : Nat) (st : LState) (n : Str) : Prop :=
  ∃ st' i, object T fuel st (.str n) = (st', .ok (.ref i)) ∧ LInvP h reg prog st' ∧ LExtP st st' ∧
    lookupMemo st'.memo n = some i

/-- what the induction hypothesis provides for the children of `o` -/
def ChildOk (h : Heap) (reg : Reg) (T : Table) (rank : Nat → Nat) (prog : List Str) (fuel : Nat) (bound : Nat) : Prop :=
  ∀ p m, (p, m) ∈ reg → rank p ≤ bound → ∀ st, LInvP h reg prog st →
    (∀ w ∈ st.working, ∃ q, (q, w) ∈ reg ∧ rank p < rank q) → todo reg st + 1 < fuel →
    LoadsOkP h reg T prog fuel st m

/-- one field value through `object`, given that the children load -/
theorem resolve_value (C : CtxL h main reg T rank) (o : Nat) (ob : Obj) (hob : h[o]? = some ob)
    (hrefs : RefsIn reg ob.fields) (f' : Nat) (prog : List Str) (g : Field) (hg : g ∈ ob.fields)
    (bound : Nat) (hbound : ∀ p, g.val = .ref p → rank p ≤ bound)
    (IHc : ChildOk h reg T rank prog (f' + 1) bound)
    (st : LState) (hinv : LInvP h reg prog st)
    (hw : ∀ p, g.val = .ref p → ∀ w ∈ st.working, ∃ q, (q, w) ∈ reg ∧ rank p < rank q)
    (hfuel : todo reg st + 1 < f' + 1) :
    ∃ st1 v, object T (f' + 1) st (encVal reg g.val) = (st1, .ok v) ∧ LInvP h reg prog st1 ∧ LExtP st st1 ∧
      RelVal reg st1.memo g.val v := by
  cases hv : g.val with
  | lit n => exact ⟨st, .lit n, rfl, hinv, LExtP.refl _, rfl⟩
  | str s =>
    refine ⟨st, .str s, ?_, hinv, LExtP.refl _, rfl⟩
    simp only [encVal, object, (literal_roundtrip s).1, if_true, (literal_roundtrip s).2]
  | ref p =>
    obtain ⟨m, hm⟩ := hrefs g hg p hv
    have hpm : (p, m) ∈ reg := lookupName_some_mem hm
    obtain ⟨st1, i, h1, h2, h3, h4⟩ := IHc p m hpm (hbound p hv) st hinv (hw p hv) hfuel
    refine ⟨st1, .ref i, ?_, h2, h3, ⟨m, hm, h4⟩⟩
    simp only [encVal, hm, Option.getD_some]; exact h1
  | own p => exact absurd hv (C.noOwn ob (List.mem_of_getElem? hob) g hg p)

/-- the early phase of a loader -/
theorem resolve_early (C : CtxL h main reg T rank) (o : Nat) (ob : Obj) (hob : h[o]? = some ob)
    (hrefs : RefsIn reg ob.fields) (f' : Nat) (prog : List Str)
    (IHc : ChildOk h reg T rank prog (f' + 1) (rank o - 1)) :
    ∀ (fs : List Field), (∀ g ∈ fs, g ∈ ob.fields) → ∀ (st : LState), LInvP h reg prog st →
      (∀ w ∈ st.working, ∃ q, (q, w) ∈ reg ∧ rank o ≤ rank q) → todo reg st + 1 < f' + 1 →
      ∃ st' vals, resolvePhase (object T (f' + 1)) .early st (encFields reg fs) = (st', .ok vals) ∧
        LInvP h reg prog st' ∧ LExtP st st' ∧ InitVals reg st'.memo fs vals
  | [], _, st, hinv, _, _ => ⟨st, [], rfl, hinv, LExtP.refl _, trivial⟩
  | g :: fs, hsub, st, hinv, hw, hfuel => by
    have hg : g ∈ ob.fields := hsub g List.mem_cons_self
    have hsub' : ∀ x ∈ fs, x ∈ ob.fields := fun x hx => hsub x (List.mem_cons_of_mem _ hx)
    rcases C.phases ob (List.mem_of_getElem? hob) g hg with hph | hph
    · -- an early field: resolved now
      have hrk : ∀ p, g.val = .ref p → rank p < rank o := C.rkEarly o ob hob g hg hph
      obtain ⟨st1, v, e1, inv1, ext1, rel1⟩ := resolve_value C o ob hob hrefs f' prog g hg (rank o - 1)
        (fun p hp => by have := hrk p hp; omega) IHc st hinv
        (fun p hp w hwm => by
          obtain ⟨q, hq1, hq2⟩ := hw w hwm; have := hrk p hp; exact ⟨q, hq1, by omega⟩) hfuel
      have hfuel1 : todo reg st1 + 1 < f' + 1 := by
        have := todo_mono (reg := reg) ext1.memo ext1.work; omega
      obtain ⟨st2, vs, e2, inv2, ext2, rel2⟩ := resolve_early C o ob hob hrefs f' prog IHc fs hsub' st1 inv1
        (by rw [ext1.work]; exact hw) hfuel1
      refine ⟨st2, v :: vs, ?_, inv2, ext1.trans ext2, ⟨?_, rel2⟩⟩
      · simp only [encFields, List.map_cons, resolvePhase, hph, if_true]
        simp only [encFields] at e2
        rw [e1]; simp only [e2]
      · simp only [hph, reduceCtorEq, if_false]; exact RelVal.mono ext2.memo rel1
    · -- a late field: left pending
      obtain ⟨st2, vs, e2, inv2, ext2, rel2⟩ := resolve_early C o ob hob hrefs f' prog IHc fs hsub' st hinv hw hfuel
      refine ⟨st2, .pending :: vs, ?_, inv2, ext2, ⟨?_, rel2⟩⟩
      · simp only [encFields, List.map_cons, resolvePhase, hph, reduceCtorEq, if_false]
        simp only [encFields] at e2
        simp only [e2]
      · simp only [hph, if_true]


/-- what the late phase of the object at cell `i` may change -/
structure LateExt (i : Nat) (st st' : LState) : Prop where
  memo : MemoLe st.memo st'.memo
  work : st'.working = st.working
  len : st.heap.length ≤ st'.heap.length
  others : ∀ j, j < st.heap.length → j ≠ i → st'.heap[j]? = st.heap[j]?

theorem LateExt.refl (i : Nat) (st : LState) : LateExt i st st := ⟨MemoLe.refl _, rfl, Nat.le_refl _, fun _ _ _ => rfl⟩
theorem LateExt.trans {i : Nat} {a b c : LState} (h1 : LateExt i a b) (h2 : LateExt i b c) : LateExt i a c :=
  ⟨h1.memo.trans h2.memo, by rw [h2.work, h1.work], Nat.le_trans h1.len h2.len,
   fun j hj hji => by rw [h2.others j (Nat.lt_of_lt_of_le hj h1.len) hji, h1.others j hj hji]⟩
theorem LateExt.of_ext {i : Nat} {a b : LState} (h : LExtP a b) : LateExt i a b :=
  ⟨h.memo, h.work, h.heap.1, fun j hj _ => h.heap.2 j hj⟩

theorem initVals_nil {reg : Reg} {memo : List (Str × Nat)} {lb : List LVal} (h : InitVals reg memo [] lb) : lb = [] := by
  cases lb with
  | nil => rfl
  | cons _ _ => simp [InitVals] at h

theorem initVals_cons {reg : Reg} {memo : List (Str × Nat)} {g : Field} {fs : List Field} {lb : List LVal}
    (h : InitVals reg memo (g :: fs) lb) : ∃ l lb', lb = l :: lb' ∧
      (if g.phase = .late then l = .pending else RelVal reg memo g.val l) ∧ InitVals reg memo fs lb' := by
  cases lb with
  | nil => simp [InitVals] at h
  | cons l lb' => exact ⟨l, lb', rfl, h.1, h.2⟩

/-- assigning one late field of cell `i` keeps the invariant (other cells are untouched) -/
theorem setField_inv {prog : List Str} {st : LState} {n : Str} {i : Nat} (k : Nat) (v : LVal)
    (hinv : LInvP h reg (n :: prog) st) (hmem : lookupMemo st.memo n = some i) :
    LInvP h reg (n :: prog) { st with heap := setField st.heap i k v } := by
  refine ⟨hinv.noCb, hinv.noPend, hinv.keysNodup, hinv.valsNodup, hinv.disj, ?_, ?_⟩
  · intro e he
    simp only [setField, List.length_modify]; exact hinv.bound e he
  · intro e he hnp
    obtain ⟨hlt, o', ob', lo', a1, a2, a3, a4, a5⟩ := hinv.good e he hnp
    have hne : e.2 ≠ i := by
      intro heq
      have m1 : (e.1, e.2) ∈ st.memo := he
      have m2 := lookupMemo_some_mem hmem
      have n1 := nameOfIdx_of_mem hinv.valsNodup m1
      rw [heq, nameOfIdx_of_mem hinv.valsNodup m2] at n1
      exact hnp (by rw [← Option.some.inj n1]; exact List.mem_cons_self)
    refine ⟨by simp only [setField, List.length_modify]; exact hlt, o', ob', lo', a1, a2, ?_, a4, a5⟩
    simp only [setField, List.getElem?_modify, a3, Option.map_eq_map, Option.map_some, Ne.symm hne, if_false]

/-- the late phase of a generator loader -/
theorem late_loop (C : CtxL h main reg T rank) (o : Nat) (ob : Obj) (hob : h[o]? = some ob)
    (hrefs : RefsIn reg ob.fields) (f' : Nat) (prog : List Str) (n : Str) (i : Nat) (cls : Nat)
    (IHl : ChildOk h reg T rank (n :: prog) (f' + 1) (rank o)) :
    ∀ (rest pre : List Field), pre ++ rest = ob.fields → ∀ (st : LState) (la lb : List LVal),
      LInvP h reg (n :: prog) st → st.heap[i]? = some { cls := cls, fields := la ++ lb } →
      RelVals reg st.memo (pre.map (·.val)) la → InitVals reg st.memo rest lb → lookupMemo st.memo n = some i →
      (∀ w ∈ st.working, ∃ q, (q, w) ∈ reg ∧ rank o < rank q) → todo reg st + 1 < f' + 1 →
      ∃ st' ls', latePhase (object T (f' + 1)) i st pre.length (encFields reg rest) = (st', .ok ()) ∧
        LInvP h reg (n :: prog) st' ∧ LateExt i st st' ∧ st'.heap[i]? = some { cls := cls, fields := ls' } ∧
        RelVals reg st'.memo (ob.fields.map (·.val)) ls' ∧ lookupMemo st'.memo n = some i
  | [], pre, hsplit, st, la, lb, hinv, hcell, hla, hlb, hmem, _, _ => by
    have : lb = [] := initVals_nil hlb
    subst this
    simp only [List.append_nil] at hsplit hcell
    subst hsplit
    exact ⟨st, la, rfl, hinv, LateExt.refl _ _, hcell, hla, hmem⟩
  | g :: rest, pre, hsplit, st, la, lb, hinv, hcell, hla, hlb, hmem, hw, hfuel => by
    have hg : g ∈ ob.fields := by rw [← hsplit]; simp
    have hsplit' : (pre ++ [g]) ++ rest = ob.fields := by rw [← hsplit]; simp
    obtain ⟨l, lb', rfl, hl, hlb'⟩ := initVals_cons hlb
    have hlen : la.length = pre.length := by
      have := relVals_length hla; simp only [List.length_map] at this; exact this.symm
    by_cases hph : g.phase = .late
    · -- resolve and assign
      simp only [hph, if_true] at hl
      subst hl
      obtain ⟨st1, v, e1, inv1, ext1, rel1⟩ := resolve_value C o ob hob hrefs f' (n :: prog) g hg (rank o)
        (fun p hp => C.rkLate o ob hob g hg p hp) IHl st hinv
        (fun p hp w hwm => by
          obtain ⟨q, hq1, hq2⟩ := hw w hwm
          have := C.rkLate o ob hob g hg p hp
          exact ⟨q, hq1, by omega⟩) hfuel
      have hmem1 : lookupMemo st1.memo n = some i := ext1.memo _ _ hmem
      have hcell1 : st1.heap[i]? = some { cls := cls, fields := la ++ LVal.pending :: lb' } := ext1.heap.get hcell
      let st2 : LState := { st1 with heap := setField st1.heap i pre.length v }
      have inv2 : LInvP h reg (n :: prog) st2 := setField_inv pre.length v inv1 hmem1
      have hcell2 : st2.heap[i]? = some { cls := cls, fields := (la ++ [v]) ++ lb' } := by
        simp only [st2, setField, List.getElem?_modify, hcell1, Option.map_eq_map, Option.map_some, if_true]
        congr 2
        rw [← hlen]; simp
      have ext12 : LateExt i st1 st2 :=
        ⟨MemoLe.refl _, rfl, by simp [st2, setField], fun j _ hji => by
          simp only [st2, setField, List.getElem?_modify, Ne.symm hji, if_false]
          cases st1.heap[j]? <;> rfl⟩
      have hfuel2 : todo reg st2 + 1 < f' + 1 := by
        have := todo_mono (reg := reg) ext1.memo ext1.work
        have e : todo reg st2 = todo reg st1 := rfl
        omega
      obtain ⟨st', ls', e', inv', ext', cell', rel', mem'⟩ := late_loop C o ob hob hrefs f' prog n i cls IHl rest (pre ++ [g]) hsplit'
        st2 (la ++ [v]) lb' inv2 hcell2
        (by rw [List.map_append]; exact relVals_append (RelVals.mono ext1.memo hla) rel1)
        (InitVals.mono ext1.memo hlb') hmem1 (by
          intro w hwm; exact hw w (by rw [← ext1.work]; exact hwm)) hfuel2
      refine ⟨st', ls', ?_, inv', ((LateExt.of_ext ext1).trans ext12).trans ext', cell', rel', mem'⟩
      simp only [encFields, List.map_cons, latePhase, hph, if_true]
      simp only [encFields] at e'
      rw [e1]
      simp only [List.length_append, List.length_cons, List.length_nil, Nat.zero_add] at e'
      exact e'
    · -- an early field: already in place
      simp only [hph, if_false] at hl
      have hcell2 : st.heap[i]? = some { cls := cls, fields := (la ++ [l]) ++ lb' } := by
        rw [hcell]; simp
      obtain ⟨st', ls', e', inv', ext', cell', rel', mem'⟩ := late_loop C o ob hob hrefs f' prog n i cls IHl rest (pre ++ [g]) hsplit'
        st (la ++ [l]) lb' hinv hcell2
        (by rw [List.map_append]; exact relVals_append hla hl) hlb' hmem hw hfuel
      refine ⟨st', ls', ?_, inv', ext', cell', rel', mem'⟩
      simp only [encFields, List.map_cons, latePhase, hph, if_false]
      simp only [encFields] at e'
      simp only [List.length_append, List.length_cons, List.length_nil, Nat.zero_add] at e'
      exact e'


theorem any_cb_false_of_phases (C : CtxL h main reg T rank) {ob : Obj} (hob : ob ∈ h) :
    (encFields reg ob.fields).any (fun f => f.1 == .cb) = false := by
  rw [List.any_eq_false]
  intro e he
  obtain ⟨f, hf, rfl⟩ := List.mem_map.mp he
  rcases C.phases ob hob f hf with hp | hp <;> simp [hp]

theorem todo_lt_of_new {st st' : LState} {o : Nat} {n : Str} (hon : (o, n) ∈ reg)
    (hm : MemoLe st.memo st'.memo) (hw : ∀ w, w ∉ st'.working → w ≠ n → w ∉ st.working)
    (hn0 : lookupMemo st.memo n = none) (hnw : n ∉ st.working)
    (hn1 : (lookupMemo st'.memo n).isSome = true ∨ n ∈ st'.working) :
    todo reg st' < todo reg st := by
  unfold todo
  apply filter_length_lt
  · intro e _ he
    rw [Bool.and_eq_true] at he ⊢
    refine ⟨memoLe_isNone hm he.1, ?_⟩
    have h2 : e.2 ∉ st'.working := by simpa using he.2
    by_cases hen : e.2 = n
    · rw [hen]; simpa using hnw
    · simpa using hw e.2 h2 hen
  · refine ⟨(o, n), hon, ?_, ?_⟩
    · rw [Bool.and_eq_true]; exact ⟨by rw [hn0]; rfl, by simpa using hnw⟩
    · rcases hn1 with h1 | h1
      · cases hl : lookupMemo st'.memo n with
        | none => rw [hl] at h1; cases h1
        | some j => simp
      · have : st'.working.contains n = true := by simpa using h1
        simp only [this, Bool.not_true, Bool.and_false]

/-- **Loading a registered name succeeds** — generator loaders and cycles through late edges. -/
theorem load_named_late (C : CtxL h main reg T rank) : ∀ (f : Nat) (prog : List Str) (o : Nat) (n : Str),
    (o, n) ∈ reg → ∀ (st : LState), LInvP h reg prog st →
      (∀ w ∈ st.working, ∃ q, (q, w) ∈ reg ∧ rank o < rank q) → todo reg st + 1 < f →
      LoadsOkP h reg T prog f st n
  | 0, _, _, _, _, _, _, _, hf => absurd hf (Nat.not_lt_zero _)
  | f0 + 1, prog, o, n, hon, st, hinv, hw, hf => by
    have hlit : isLiteralStr n = false := C.regOk.notLiteral (o, n) hon
    unfold LoadsOkP
    cases hmemo : lookupMemo st.memo n with
    | some i =>
      refine ⟨st, i, ?_, hinv, LExtP.refl _, hmemo⟩
      simp only [object, hlit, hmemo]
      rfl
    | none =>
      obtain ⟨ob, hob, hrec, hrefs⟩ := C.tbl o n hon
      have hobm : ob ∈ h := List.mem_of_getElem? hob
      have hnw : n ∉ st.working := by
        intro hmem
        obtain ⟨q, hq1, hq2⟩ := hw n hmem
        have := C.regOk.obj_unique hon hq1
        subst this; omega
      have hcont : st.working.contains n = false := by simpa using hnw
      -- `n` itself still counts as to-do, so there is fuel for the children
      have htodo : 1 ≤ todo reg st := by
        unfold todo
        apply List.length_pos_of_mem (a := (o, n))
        simp [List.mem_filter, hon, hmemo, hnw]
      obtain ⟨f', rfl⟩ : ∃ f', f0 = f' + 1 := ⟨f0 - 1, by omega⟩
      have ih := load_named_late C (f' + 1)
      let st1 : LState := { st with working := n :: st.working }
      have inv1 : LInvP h reg prog st1 := by
        refine ⟨hinv.noCb, hinv.noPend, hinv.keysNodup, hinv.valsNodup, ?_, hinv.bound, hinv.good⟩
        intro w hwm
        rcases List.mem_cons.mp hwm with e | e
        · rw [e]; exact hmemo
        · exact hinv.disj w e
      have hw1 : ∀ w ∈ st1.working, ∃ q, (q, w) ∈ reg ∧ rank o ≤ rank q := by
        intro w hwm
        rcases List.mem_cons.mp hwm with e | e
        · exact ⟨o, by rw [e]; exact hon, Nat.le_refl _⟩
        · obtain ⟨q, hq1, hq2⟩ := hw w e; exact ⟨q, hq1, by omega⟩
      have htodo1 : todo reg st1 < todo reg st :=
        todo_lt_of_new hon (MemoLe.refl _) (fun w hw' _ hmem => hw' (List.mem_cons_of_mem _ hmem)) hmemo hnw
          (Or.inr List.mem_cons_self)
      obtain ⟨st2, vals, eres, inv2, ext2, rel2⟩ :=
        resolve_early C o ob hob hrefs f' prog
          (fun p m hpm _ st' hinv' hw' hf' => ih prog p m hpm st' hinv' hw' hf')
          ob.fields (fun _ hg => hg) st1 inv1 hw1 (by omega)
      have hn2 : lookupMemo st2.memo n = none := by
        apply inv2.disj; rw [ext2.work]; exact List.mem_cons_self
      have hwork2 : st2.working = n :: st.working := ext2.work
      let i := st2.heap.length
      let st3 : LState :=
        { memo := (n, i) :: st2.memo, working := st.working,
          heap := st2.heap ++ [{ cls := ob.cls, fields := vals }],
          callbacks := st2.callbacks, pend := st2.pend }
      have hle : MemoLe st2.memo st3.memo := memoLe_cons i hn2
      have inv3 : LInvP h reg (n :: prog) st3 := by
        refine ⟨inv2.noCb, inv2.noPend, ?_, ?_, ?_, ?_, ?_⟩
        · simp only [st3, List.map_cons, List.nodup_cons]
          exact ⟨(lookupMemo_none_iff _ _).mp hn2, inv2.keysNodup⟩
        · simp only [st3, List.map_cons, List.nodup_cons]
          refine ⟨?_, inv2.valsNodup⟩
          intro hmem
          obtain ⟨e, he, hei⟩ := List.mem_map.mp hmem
          have := inv2.bound e he
          simp only [i] at hei; omega
        · intro w hwm
          have hwn : w ≠ n := fun e => hnw (e ▸ hwm)
          have : lookupMemo st2.memo w = none := by
            apply inv2.disj; rw [hwork2]; exact List.mem_cons_of_mem _ hwm
          simp only [st3, lookupMemo, Ne.symm hwn, if_false]; exact this
        · intro e he
          simp only [st3, List.length_append, List.length_cons, List.length_nil]
          rcases List.mem_cons.mp he with e1 | e1
          · subst e1; simp [i]
          · have := inv2.bound e e1; omega
        · intro e he hnp
          rcases List.mem_cons.mp he with e1 | e1
          · subst e1; exact absurd List.mem_cons_self hnp
          · obtain ⟨hlt, o', ob', lo', a1, a2, a3, a4, a5⟩ := inv2.good e e1 (fun hp => hnp (List.mem_cons_of_mem _ hp))
            refine ⟨by simp only [st3, List.length_append, List.length_cons, List.length_nil]; omega,
              o', ob', lo', a1, a2, ?_, a4, RelVals.mono hle a5⟩
            simp only [st3]; rw [List.getElem?_append_left hlt]; exact a3
      have hcell3 : st3.heap[i]? = some { cls := ob.cls, fields := [] ++ vals } := by
        simp only [st3, i, List.nil_append]; exact heap_concat_get _ _
      have hmem3 : lookupMemo st3.memo n = some i := by simp [st3, lookupMemo]
      have htodo3 : todo reg st3 < todo reg st :=
        todo_lt_of_new hon (ext2.memo.trans hle) (fun w hw' _ => hw') hmemo hnw (Or.inl (by rw [hmem3]; rfl))
      obtain ⟨st4, ls', elate, inv4, ext4, cell4, rel4, mem4⟩ :=
        late_loop C o ob hob hrefs f' prog n i ob.cls
          (fun p m hpm _ st' hinv' hw' hf' => ih (n :: prog) p m hpm st' hinv' hw' hf')
          ob.fields [] (by simp) st3 [] vals inv3 hcell3 trivial (InitVals.mono hle rel2) hmem3 hw (by omega)
      have hwork4 : st4.working = st.working := ext4.work
      have inv4' : LInvP h reg prog st4 := by
        refine ⟨inv4.noCb, inv4.noPend, inv4.keysNodup, inv4.valsNodup, inv4.disj, inv4.bound, ?_⟩
        intro e he hnp
        by_cases hen : e.1 = n
        · have hei : e.2 = i := by
            have := lookupMemo_of_mem inv4.keysNodup (show (e.1, e.2) ∈ st4.memo from he)
            rw [hen, mem4] at this; exact (Option.some.inj this).symm
          rw [hen, hei]
          exact ⟨by rw [← hei]; exact inv4.bound e he, o, ob, _, hon, hob, cell4, rfl, rel4⟩
        · exact inv4.good e he (fun hp => by
            rcases List.mem_cons.mp hp with e1 | e1
            · exact hen e1
            · exact hnp e1)
      have ext04 : LExtP st st4 := by
        refine ⟨(ext2.memo.trans hle).trans ext4.memo, ?_, hwork4⟩
        have h02 : HeapLe st.heap st2.heap := ext2.heap
        refine ⟨by
          have := h02.1; have := ext4.len
          simp only [st3, List.length_append, List.length_cons, List.length_nil] at this; omega, ?_⟩
        intro j hj
        have hj2 : j < st2.heap.length := Nat.lt_of_lt_of_le hj h02.1
        rw [ext4.others j (by simp only [st3, List.length_append, List.length_cons, List.length_nil]; omega)
          (by simp only [i]; omega)]
        simp only [st3]
        rw [List.getElem?_append_left hj2]
        exact h02.2 j hj
      refine ⟨st4, i, ?_, inv4', ext04, mem4⟩
      -- unfold the computation
      have hload : loadRec (object T (f' + 1)) (some n) st1 ob.cls (encFields reg ob.fields) = (st4, .ok i) := by
        unfold loadRec
        simp only [eres, any_cb_false_of_phases C hobm, Bool.false_and, if_false, Bool.false_eq_true]
        have elate' := elate
        simp only [st3, i, List.length_nil] at elate'
        simp only [hwork2, List.erase_cons_head]
        rw [elate']
      rw [object_named_unfold T (f' + 1) st n ob.cls (encFields reg ob.fields) hlit hmemo hrec hcont]
      have hload' : loadRec (object T (f' + 1)) (some n) { st with working := n :: st.working } ob.cls
          (encFields reg ob.fields) = (st4, .ok i) := hload
      rw [hload']
      have herase : st4.working.erase n = st4.working := by
        rw [hwork4]; exact List.erase_of_not_mem hnw
      have hst : ({ st4 with working := st4.working.erase n } : LState) = st4 := by rw [herase]
      simp only [hst, tryCallbacksIfIdle_noCb _ st4 inv4'.noCb]

/-- **Round trip with generator loaders**: cycles are allowed as long as every edge of a cycle is read
after the loader's `yield` (early edges strictly decrease `rank`, late edges do not increase it). -/
theorem roundtrip_late_core (rank : Nat → Nat) (hno : NoOwn h)
    (hph : ∀ ob ∈ h, ∀ f ∈ ob.fields, f.phase = .early ∨ f.phase = .late)
    (hrkE : ∀ o ob, h[o]? = some ob → ∀ f ∈ ob.fields, f.phase = .early → ∀ p, f.val = .ref p → rank p < rank o)
    (hrkL : ∀ o ob, h[o]? = some ob → ∀ f ∈ ob.fields, ∀ p, f.val = .ref p → rank p ≤ rank o)
    {st : SState} {T : Table} (hs : serialize h main = .ok (st, T)) (fuel : Nat) (hfuel : st.reg.length + 1 < fuel) :
    ∃ ls i, unserialize T fuel = (ls, .ok (.ref i)) ∧ specRoundTrip h st.reg ls = true := by
  obtain ⟨hk, hreach, hkeys, hent⟩ := serialize_spec h main hno hs
  have hTnd : (T.map Prod.fst).Nodup := by rw [hkeys]; exact hk.namesNodup
  have C : CtxL h main st.reg T rank := {
    regOk := hk
    tbl := fun o n hon => by
      obtain ⟨ob, h1, h2, h3⟩ := hent o n hon
      exact ⟨ob, h1, lookupRec_of_mem hTnd h2, h3⟩
    phases := hph
    noOwn := hno
    rkEarly := hrkE
    rkLate := hrkL }
  have hmain : (main, mainName) ∈ st.reg := lookupName_some_mem hk.mainIn
  have inv0 : LInvP h st.reg [] initL :=
    ⟨rfl, rfl, by simp [initL], by simp [initL], by intro w hw; simp [initL] at hw,
     by intro e he; simp [initL] at he, by intro e he; simp [initL] at he⟩
  have htodo : todo st.reg initL ≤ st.reg.length := by
    unfold todo; exact List.length_filter_le _ _
  obtain ⟨ls, i, hload, inv, _ext, hmi⟩ :=
    load_named_late C fuel [] main mainName hmain initL inv0 (by intro w hw; simp [initL] at hw) (by omega)
  exact ⟨ls, i, hload, spec_of_loaded hk hreach ls (fun e he => inv.good e he (by simp)) inv.valsNodup hmi⟩

end

/-! ### Boolean hypotheses as propositions -/

theorem noCb_phases (h : Heap) (hb : noCb h = true) : ∀ ob ∈ h, ∀ f ∈ ob.fields, f.phase = .early ∨ f.phase = .late := by
  intro ob hob f hf
  unfold noCb at hb
  have := (List.all_eq_true.mp hb) ob hob
  have := (List.all_eq_true.mp this) f hf
  cases hp : f.phase with
  | early => exact Or.inl rfl
  | late => exact Or.inr rfl
  | cb => rw [hp] at this; cases this

theorem lateCyclesBy_iff (rank : Nat → Nat) (h : Heap) (hb : lateCyclesBy rank h = true) :
    (∀ o ob, h[o]? = some ob → ∀ f ∈ ob.fields, f.phase = .early → ∀ p, f.val = .ref p → rank p < rank o) ∧
    (∀ o ob, h[o]? = some ob → ∀ f ∈ ob.fields, ∀ p, f.val = .ref p → rank p ≤ rank o) := by
  have key : ∀ (o : Nat) (ob : Obj), h[o]? = some ob → ∀ (f : Field), f ∈ ob.fields → ∀ (p : Nat), f.val = Val.ref p →
      (match f.phase with | Phase.early => decide (rank p < rank o) | _ => decide (rank p ≤ rank o)) = true := by
    intro o ob hob f hf p hp
    unfold lateCyclesBy at hb
    have ho : o < h.length := by
      obtain ⟨ho, _⟩ := List.getElem?_eq_some_iff.mp hob; exact ho
    have := (List.all_eq_true.mp hb) o (List.mem_range.mpr ho)
    simp only [hob] at this
    have := (List.all_eq_true.mp this) f hf
    simp only [hp, Val.target] at this
    cases hph : f.phase <;> simp only [hph] at this ⊢ <;> exact this
  constructor
  · intro o ob hob f hf hph p hp
    have := key o ob hob f hf p hp
    simp only [hph, decide_eq_true_eq] at this
    exact this
  · intro o ob hob f hf p hp
    have := key o ob hob f hf p hp
    cases hph : f.phase <;> simp only [hph, decide_eq_true_eq] at this <;> omega

end GlueVerif.C02
