import GlueVerif.Lemmas.C02RoundTrip
/-! The un-serializer on graphs whose classes may have *generator* loaders (two-phase construction):
fields read after the `yield` are assigned to the already registered, partially built object, which is
what makes cycles loadable.  Hypothesis: early edges strictly decrease a rank, late edges do not
increase it (every cycle consists of late edges only).  Inlined records (plain classes) may hang
below any field; every level of inlining costs one unit of recursion depth, so the fuel needed is
`(names to do + 1) * (|heap| + 1)`. -/
namespace GlueVerif.C02

/-! ### counting what is still to be loaded -/

theorem filter_length_mono {α : Type} (p q : α → Bool) : ∀ (l : List α), (∀ a ∈ l, p a = true → q a = true) →
    (l.filter p).length ≤ (l.filter q).length
  | [], _ => Nat.le_refl _
  | a :: l, himp => by
    have ih := filter_length_mono p q l (fun x hx => himp x (List.mem_cons_of_mem _ hx))
    simp only [List.filter_cons]
    by_cases hp : p a = true
    · have hq := himp a List.mem_cons_self hp
      simp only [hp, hq, if_true, List.length_cons]; omega
    · simp only [hp, if_false, Bool.false_eq_true]
      split
      · simp only [List.length_cons]; omega
      · exact ih

theorem filter_length_lt {α : Type} (p q : α → Bool) : ∀ (l : List α), (∀ a ∈ l, p a = true → q a = true) →
    (∃ a ∈ l, q a = true ∧ p a = false) → (l.filter p).length < (l.filter q).length
  | [], _, hex => by obtain ⟨a, ha, _⟩ := hex; simp at ha
  | a :: l, himp, hex => by
    have himp' : ∀ x ∈ l, p x = true → q x = true := fun x hx => himp x (List.mem_cons_of_mem _ hx)
    have mono := filter_length_mono p q l himp'
    obtain ⟨b, hb, hqb, hpb⟩ := hex
    simp only [List.filter_cons]
    rcases List.mem_cons.mp hb with e | e
    · subst e
      simp only [hpb, hqb, if_true, if_false, Bool.false_eq_true, List.length_cons]; omega
    · have ih := filter_length_lt p q l himp' ⟨b, e, hqb, hpb⟩
      by_cases hp : p a = true
      · have hq := himp a List.mem_cons_self hp
        simp only [hp, hq, if_true, List.length_cons]; omega
      · simp only [hp, if_false, Bool.false_eq_true]
        split
        · simp only [List.length_cons]; omega
        · exact ih

/-- registered names that are neither restored nor under construction -/
def todo (reg : Reg) (st : LState) : Nat :=
  (reg.filter fun e => (lookupMemo st.memo e.2).isNone && !st.working.contains e.2).length

/-- recursion depth that certainly suffices from `st`: one level per name still to do, times the
inline nesting that may lie between two named objects -/
def budget (h : Heap) (reg : Reg) (st : LState) : Nat := (todo reg st + 1) * (h.length + 1)

/-! ### invariant with objects whose late phase is in progress -/

structure LInvP (h : Heap) (reg : Reg) (prog : List Str) (st : LState) : Prop where
  noCb : st.callbacks = []
  noPend : st.pend = []
  keysNodup : (st.memo.map Prod.fst).Nodup
  valsNodup : (st.memo.map Prod.snd).Nodup
  disj : ∀ w ∈ st.working, lookupMemo st.memo w = none
  bound : ∀ e ∈ st.memo, e.2 < st.heap.length
  good : ∀ e ∈ st.memo, e.1 ∉ prog → Good h reg st e.1 e.2

structure LExtP (st st' : LState) : Prop where
  le : SLe st st'
  work : st'.working = st.working

theorem LExtP.refl (st : LState) : LExtP st st := ⟨SLe.refl _, rfl⟩
theorem LExtP.trans {a b c : LState} (h1 : LExtP a b) (h2 : LExtP b c) : LExtP a c :=
  ⟨h1.le.trans h2.le, by rw [h2.work, h1.work]⟩
theorem LExtP.memo {a b : LState} (h : LExtP a b) : MemoLe a.memo b.memo := h.le.memo
theorem LExtP.heap {a b : LState} (h : LExtP a b) : HeapLe a.heap b.heap := h.le.heap

theorem memoLe_isNone {m m' : List (Str × Nat)} (hle : MemoLe m m') {n : Str}
    (h : (lookupMemo m' n).isNone = true) : (lookupMemo m n).isNone = true := by
  cases hm : lookupMemo m n with
  | none => rfl
  | some j => rw [hle n j hm] at h; cases h

theorem todo_mono {reg : Reg} {st st' : LState} (hm : MemoLe st.memo st'.memo) (hw : st'.working = st.working) :
    todo reg st' ≤ todo reg st := by
  unfold todo
  apply filter_length_mono
  intro e _ he
  rw [Bool.and_eq_true] at he ⊢
  exact ⟨memoLe_isNone hm he.1, by rw [← hw]; exact he.2⟩

theorem budget_le {h : Heap} {reg : Reg} {st st' : LState} (ht : todo reg st' ≤ todo reg st) :
    budget h reg st' ≤ budget h reg st := by
  unfold budget
  exact Nat.mul_le_mul_right _ (by omega)

theorem budget_lt {h : Heap} {reg : Reg} {st st' : LState} (ht : todo reg st' < todo reg st) :
    budget h reg st' + (h.length + 1) ≤ budget h reg st := by
  unfold budget
  have : (todo reg st' + 1 + 1) * (h.length + 1) ≤ (todo reg st + 1) * (h.length + 1) :=
    Nat.mul_le_mul_right _ (by omega)
  rw [Nat.add_mul (todo reg st' + 1) 1, Nat.one_mul] at this
  exact this

theorem budget_pos (h : Heap) (reg : Reg) (st : LState) : h.length + 1 ≤ budget h reg st := by
  unfold budget
  have : 1 * (h.length + 1) ≤ (todo reg st + 1) * (h.length + 1) := Nat.mul_le_mul_right _ (by omega)
  rw [Nat.one_mul] at this
  exact this

/-- values of a freshly allocated generator-built object: late fields are still pending -/
def InitVals (h : Heap) (reg : Reg) (st : LState) : List Field → List LVal → Prop
  | [], [] => True
  | f :: fs, l :: ls =>
    (if f.phase = .late then l = .pending else RelV h reg st.heap st.memo h.length f.val l) ∧ InitVals h reg st fs ls
  | _, _ => False

theorem InitVals.pres {h : Heap} {reg : Reg} {st st' : LState} (hp : RelPres h reg st st') :
    ∀ {fs : List Field} {ls : List LVal}, InitVals h reg st fs ls → InitVals h reg st' fs ls
  | [], [], _ => trivial
  | _ :: _, [], h => by simp [InitVals] at h
  | [], _ :: _, h => by simp [InitVals] at h
  | f :: _, _ :: _, h => by
    refine ⟨?_, InitVals.pres hp h.2⟩
    have h1 := h.1
    by_cases hph : f.phase = .late
    · simpa [hph] using h1
    · simp only [hph, if_false] at h1 ⊢; exact hp _ _ _ h1

theorem relVals_append {R : Val → LVal → Prop} : ∀ {vs : List Val} {ls : List LVal} {v : Val} {l : LVal},
    RelVals R vs ls → R v l → RelVals R (vs ++ [v]) (ls ++ [l])
  | [], [], _, _, _, h2 => ⟨h2, trivial⟩
  | _ :: _, [], _, _, h1, _ => by simp [RelVals] at h1
  | [], _ :: _, _, _, h1, _ => by simp [RelVals] at h1
  | _ :: _, _ :: _, _, _, h1, h2 => ⟨h1.1, relVals_append h1.2 h2⟩

theorem relVals_length {R : Val → LVal → Prop} : ∀ {vs : List Val} {ls : List LVal},
    RelVals R vs ls → vs.length = ls.length
  | [], [], _ => rfl
  | _ :: _, [], h => by simp [RelVals] at h
  | [], _ :: _, h => by simp [RelVals] at h
  | _ :: _, _ :: _, h => by simp [relVals_length h.2]


/-! ### setting -/

structure CtxL (h : Heap) (main : Nat) (reg : Reg) (T : Table) (rank idep : Nat → Nat) : Prop where
  regOk : RegOk main reg
  tbl : ∀ o n, (o, n) ∈ reg → ∃ ob, h[o]? = some ob ∧ lookupRec T n = some (encObj h reg ob) ∧ RefsIn h reg h.length ob.fields
  phases : ∀ ob ∈ h, ∀ f ∈ ob.fields, f.phase = .early ∨ f.phase = .late
  rkEarly : ∀ o ob, h[o]? = some ob → ∀ f ∈ ob.fields, f.phase = .early → ∀ p, f.val.target = some p → rank p < rank o
  rkLate : ∀ o ob, h[o]? = some ob → ∀ f ∈ ob.fields, ∀ p, f.val.target = some p → rank p ≤ rank o
  depth : ∀ o, o < h.length → idep o ≤ h.length
  edge : ∀ (o : Nat) (ob : Obj), h[o]? = some ob → ∀ f ∈ ob.fields, ∀ p, f.val = Val.own p → idep p < idep o
  inlEarly : ∀ (o : Nat) (ob : Obj), h[o]? = some ob → ∀ f ∈ ob.fields, ∀ p, f.val = Val.own p → ∀ obp : Obj, h[p]? = some obp →
    ∀ x ∈ obp.fields, x.phase = .early

section
variable {h : Heap} {main : Nat} {reg : Reg} {T : Table} {rank idep : Nat → Nat}

def LoadsOkP (h : Heap) (reg : Reg) (T : Table) (prog : List Str) (fuel : Nat) (st : LState) (n : Str) : Prop :=
  ∃ st' i, object T fuel st (.str n) = (st', .ok (.ref i)) ∧ LInvP h reg prog st' ∧ LExtP st st' ∧
    lookupMemo st'.memo n = some i

/-- what the induction hypothesis provides for the children of `o`: with any fuel up to `F` -/
def ChildOk (h : Heap) (reg : Reg) (T : Table) (rank : Nat → Nat) (prog : List Str) (F : Nat) (bound : Nat) : Prop :=
  ∀ f, f ≤ F → ∀ p m, (p, m) ∈ reg → rank p ≤ bound → ∀ st, LInvP h reg prog st →
    (∀ w ∈ st.working, ∃ q, (q, w) ∈ reg ∧ rank p < rank q) → budget h reg st < f →
    LoadsOkP h reg T prog f st m

theorem linvP_alloc {prog : List Str} {st : LState} (hinv : LInvP h reg prog st) (x : LObj) :
    LInvP h reg prog { st with heap := st.heap ++ [x] } ∧ SLe st { st with heap := st.heap ++ [x] } := by
  have hle : SLe st { st with heap := st.heap ++ [x] } :=
    ⟨MemoLe.refl _, heapLe_append _ _, fun _ he => Or.inl he⟩
  refine ⟨⟨hinv.noCb, hinv.noPend, hinv.keysNodup, hinv.valsNodup, hinv.disj, ?_, ?_⟩, hle⟩
  · intro e he
    have := hinv.bound e he
    simp only [List.length_append, List.length_cons, List.length_nil]; omega
  · intro e he hnp
    exact (hinv.good e he hnp).le hle

/-- the generic interface for inlined sub-trees, instantiated for the generator development -/
theorem ownCtx_late (C : CtxL h main reg T rank idep) (prog : List Str) (F bound : Nat)
    (IHc : ChildOk h reg T rank prog F bound) (W0 : List Str) (B : Nat)
    (hW : ∀ w ∈ W0, ∃ q, (q, w) ∈ reg ∧ B ≤ rank q) (hB : B ≤ bound + 1) (hF : 2 * h.length + 2 ≤ F) :
    OwnCtx h reg T (fun st => LInvP h reg prog st ∧ st.working = W0 ∧ budget h reg st + h.length < F)
      (fun a b => LExtP a b)
      (fun f q => f ≤ F ∧ F ≤ f + h.length ∧ rank q < B)
      (fun f p => f ≤ F ∧ F + idep p + 1 ≤ f + h.length ∧ rank p ≤ B ∧
        ∀ obp, h[p]? = some obp → ∀ x ∈ obp.fields, x.phase = .early) where
  refl := LExtP.refl
  trans := LExtP.trans
  le := fun e => e.le
  bound := fun hi e he => hi.1.bound e he
  alloc := by
    intro st hi x
    obtain ⟨h1, h2⟩ := linvP_alloc hi.1 x
    exact ⟨⟨h1, hi.2.1, hi.2.2⟩, ⟨h2, rfl⟩⟩
  idle := fun hi obj => tryCallbacksIfIdle_noCb obj _ hi.1.noCb
  fuel2 := fun hA => by omega
  stepOwn := by
    intro f p ob g p' hA hob hg hv
    have h1 := C.edge p ob hob g hg p' hv
    have h2 := C.rkLate p ob hob g hg p' (by rw [hv]; rfl)
    exact ⟨by omega, by omega, by omega, fun obp hobp => C.inlEarly p ob hob g hg p' hv obp hobp⟩
  stepRef := by
    intro f p ob g q hA hob hg hv
    have h2 := C.rkEarly p ob hob g hg (hA.2.2.2 ob hob g hg) q (by rw [hv]; rfl)
    exact ⟨by omega, by omega, by omega⟩
  child := by
    intro f q m hA hqm st hi
    obtain ⟨st', i, h1, h2, h3, h4⟩ := IHc f hA.1 q m hqm (by omega) st hi.1 (by
      intro w hw
      rw [hi.2.1] at hw
      obtain ⟨q', hq1, hq2⟩ := hW w hw
      exact ⟨q', hq1, by omega⟩) (by omega)
    refine ⟨st', i, h1, ⟨h2, by rw [h3.work, hi.2.1], ?_⟩, h3, h4⟩
    have := budget_le (h := h) (todo_mono (reg := reg) h3.memo h3.work)
    omega
  inlEarly := fun {o ob g p obp} hob hg hv hobp => C.inlEarly o ob hob g hg p hv obp hobp

/-- one field value through `object`, given that the children load -/
theorem resolve_value (C : CtxL h main reg T rank idep) (o : Nat) (ob : Obj) (hob : h[o]? = some ob)
    (hrefs : RefsIn h reg h.length ob.fields) (f' : Nat) (prog : List Str) (g : Field) (hg : g ∈ ob.fields)
    (bound : Nat) (hbound : ∀ p, g.val = .ref p → rank p ≤ bound) (hbo : rank o ≤ bound + 1)
    (IHc : ChildOk h reg T rank prog (f' + 1) bound)
    (st : LState) (hinv : LInvP h reg prog st)
    (hw : ∀ p, g.val = .ref p → ∀ w ∈ st.working, ∃ q, (q, w) ∈ reg ∧ rank p < rank q)
    (hwo : ∀ w ∈ st.working, ∃ q, (q, w) ∈ reg ∧ rank o ≤ rank q)
    (hfuel : budget h reg st + h.length < f' + 1) :
    ∃ st1 v, object T (f' + 1) st (encVal h reg h.length g.val) = (st1, .ok v) ∧ LInvP h reg prog st1 ∧ LExtP st st1 ∧
      RelV h reg st1.heap st1.memo h.length g.val v := by
  have hrg : RefsInV h reg h.length g.val := hrefs g hg
  cases hv : g.val with
  | lit n => exact ⟨st, .lit n, by simp only [encVal, object], hinv, LExtP.refl _, by simp only [RelV]⟩
  | str s =>
    refine ⟨st, .str s, ?_, hinv, LExtP.refl _, by simp only [RelV]⟩
    simp only [encVal, object, (literal_roundtrip s).1, if_true, (literal_roundtrip s).2]
  | ref p =>
    rw [hv] at hrg
    simp only [RefsInV] at hrg
    obtain ⟨m, hm⟩ := hrg
    have hpm : (p, m) ∈ reg := lookupName_some_mem hm
    obtain ⟨st1, i, h1, h2, h3, h4⟩ := IHc (f' + 1) (Nat.le_refl _) p m hpm (hbound p hv) st hinv (hw p hv) (by omega)
    refine ⟨st1, .ref i, ?_, h2, h3, ?_⟩
    · simp only [encVal, hm, Option.getD_some]; exact h1
    · simp only [RelV]; exact ⟨m, hm, h4⟩
  | own p =>
    rw [hv] at hrg
    have hol : o < h.length := by
      obtain ⟨hol, _⟩ := List.getElem?_eq_some_iff.mp hob; exact hol
    have hd1 := C.depth o hol
    have hd2 := C.edge o ob hob g hg p hv
    have hrk := C.rkLate o ob hob g hg p (by rw [hv]; rfl)
    have hbp := budget_pos h reg st
    have X := ownCtx_late C prog (f' + 1) bound IHc st.working (rank o) hwo hbo (by omega)
    obtain ⟨st1, j, h1, h2, h3, h4, _⟩ := load_own X h.length p (f' + 1) hrg
      ⟨Nat.le_refl _, by omega, hrk, fun obp hobp => C.inlEarly o ob hob g hg p hv obp hobp⟩
      (fun obp hobp => C.inlEarly o ob hob g hg p hv obp hobp) st ⟨hinv, rfl, hfuel⟩
    exact ⟨st1, .own j, h1, h2.1, h3, h4⟩

theorem budget_ext {st st1 : LState} (ext1 : LExtP st st1) : budget h reg st1 ≤ budget h reg st :=
  budget_le (todo_mono ext1.memo ext1.work)

/-- the early phase of a loader -/
theorem resolve_early (C : CtxL h main reg T rank idep) (o : Nat) (ob : Obj) (hob : h[o]? = some ob)
    (hrefs : RefsIn h reg h.length ob.fields) (f' : Nat) (prog : List Str)
    (IHc : ChildOk h reg T rank prog (f' + 1) (rank o - 1)) :
    ∀ (fs : List Field), (∀ g ∈ fs, g ∈ ob.fields) → ∀ (st : LState), LInvP h reg prog st →
      (∀ w ∈ st.working, ∃ q, (q, w) ∈ reg ∧ rank o ≤ rank q) → budget h reg st + h.length < f' + 1 →
      ∃ st' vals, resolvePhase (object T (f' + 1)) .early st (encFields h reg h.length fs) = (st', .ok vals) ∧
        LInvP h reg prog st' ∧ LExtP st st' ∧ InitVals h reg st' fs vals
  | [], _, st, hinv, _, _ => ⟨st, [], rfl, hinv, LExtP.refl _, trivial⟩
  | g :: fs, hsub, st, hinv, hw, hfuel => by
    have hg : g ∈ ob.fields := hsub g List.mem_cons_self
    have hsub' : ∀ x ∈ fs, x ∈ ob.fields := fun x hx => hsub x (List.mem_cons_of_mem _ hx)
    rcases C.phases ob (List.mem_of_getElem? hob) g hg with hph | hph
    · -- an early field: resolved now
      have hrk : ∀ p, g.val = .ref p → rank p < rank o := fun p hp => C.rkEarly o ob hob g hg hph p (by rw [hp]; rfl)
      obtain ⟨st1, v, e1, inv1, ext1, rel1⟩ := resolve_value C o ob hob hrefs f' prog g hg (rank o - 1)
        (fun p hp => by have := hrk p hp; omega) (by omega) IHc st hinv
        (fun p hp w hwm => by
          obtain ⟨q, hq1, hq2⟩ := hw w hwm; have := hrk p hp; exact ⟨q, hq1, by omega⟩) hw hfuel
      have hfuel1 : budget h reg st1 + h.length < f' + 1 := by
        have := budget_ext (h := h) (reg := reg) ext1; omega
      obtain ⟨st2, vs, e2, inv2, ext2, rel2⟩ := resolve_early C o ob hob hrefs f' prog IHc fs hsub' st1 inv1
        (by rw [ext1.work]; exact hw) hfuel1
      refine ⟨st2, v :: vs, ?_, inv2, ext1.trans ext2, ⟨?_, rel2⟩⟩
      · simp only [encFields, List.map_cons, resolvePhase, hph, if_true]
        simp only [encFields] at e2
        rw [e1]; simp only [e2]
      · simp only [hph, reduceCtorEq, if_false]; exact RelV.le ext2.le rel1
    · -- a late field: left pending
      obtain ⟨st2, vs, e2, inv2, ext2, rel2⟩ := resolve_early C o ob hob hrefs f' prog IHc fs hsub' st hinv hw hfuel
      refine ⟨st2, .pending :: vs, ?_, inv2, ext2, ⟨?_, rel2⟩⟩
      · simp only [encFields, List.map_cons, resolvePhase, hph, reduceCtorEq, if_false]
        simp only [encFields] at e2
        simp only [e2]
      · simp only [hph, if_true]


/-- what the late phase of the object at cell `i` may change -/
structure LateExt (i : Nat) (st st' : LState) : Prop where
  memo : MemoLe st.memo st'.memo
  work : st'.working = st.working
  len : st.heap.length ≤ st'.heap.length
  others : ∀ j, j < st.heap.length → j ≠ i → st'.heap[j]? = st.heap[j]?
  fresh : ∀ e ∈ st'.memo, e ∈ st.memo ∨ st.heap.length ≤ e.2

theorem LateExt.refl (i : Nat) (st : LState) : LateExt i st st :=
  ⟨MemoLe.refl _, rfl, Nat.le_refl _, fun _ _ _ => rfl, fun _ he => Or.inl he⟩
theorem LateExt.trans {i : Nat} {a b c : LState} (h1 : LateExt i a b) (h2 : LateExt i b c) : LateExt i a c :=
  ⟨h1.memo.trans h2.memo, by rw [h2.work, h1.work], Nat.le_trans h1.len h2.len,
   fun j hj hji => by rw [h2.others j (Nat.lt_of_lt_of_le hj h1.len) hji, h1.others j hj hji],
   fun e he => by
    rcases h2.fresh e he with x | x
    · exact h1.fresh e x
    · exact Or.inr (Nat.le_trans h1.len x)⟩
theorem LateExt.of_ext {i : Nat} {a b : LState} (h : LExtP a b) : LateExt i a b :=
  ⟨h.memo, h.work, h.heap.1, fun j hj _ => h.heap.2 j hj, h.le.fresh⟩

theorem initVals_nil {st : LState} {lb : List LVal} (h0 : InitVals h reg st [] lb) : lb = [] := by
  cases lb with
  | nil => rfl
  | cons _ _ => simp [InitVals] at h0

theorem initVals_cons {st : LState} {g : Field} {fs : List Field} {lb : List LVal}
    (h0 : InitVals h reg st (g :: fs) lb) : ∃ l lb', lb = l :: lb' ∧
      (if g.phase = .late then l = .pending else RelV h reg st.heap st.memo h.length g.val l) ∧ InitVals h reg st fs lb' := by
  cases lb with
  | nil => simp [InitVals] at h0
  | cons l lb' => exact ⟨l, lb', rfl, h0.1, h0.2⟩

theorem mem_snd_of_lookup {memo : List (Str × Nat)} {n : Str} {i : Nat} (hm : lookupMemo memo n = some i) :
    i ∈ memo.map Prod.snd := List.mem_map.mpr ⟨(n, i), lookupMemo_some_mem hm, rfl⟩

/-- assigning one late field of cell `i` keeps the invariant (other cells are untouched) -/
theorem setField_inv {prog : List Str} {st : LState} {n : Str} {i : Nat} (k : Nat) (v : LVal)
    (hinv : LInvP h reg (n :: prog) st) (hmem : lookupMemo st.memo n = some i) :
    LInvP h reg (n :: prog) { st with heap := setField st.heap i k v } := by
  refine ⟨hinv.noCb, hinv.noPend, hinv.keysNodup, hinv.valsNodup, hinv.disj, ?_, ?_⟩
  · intro e he
    simp only [setField, List.length_modify]; exact hinv.bound e he
  · intro e he hnp
    obtain ⟨hlt, o', ob', lo', a1, a2, a3, a4, a5⟩ := hinv.good e he hnp
    have hne : e.2 ≠ i := by
      intro heq
      have m1 : (e.1, e.2) ∈ st.memo := he
      have m2 := lookupMemo_some_mem hmem
      have n1 := nameOfIdx_of_mem hinv.valsNodup m1
      rw [heq, nameOfIdx_of_mem hinv.valsNodup m2] at n1
      exact hnp (by rw [← Option.some.inj n1]; exact List.mem_cons_self)
    refine ⟨by simp only [setField, List.length_modify]; exact hlt, o', ob', lo', a1, a2, ?_, a4,
      (relPres_setField st (mem_snd_of_lookup hmem) k v).vals a5⟩
    simp only [setField, List.getElem?_modify, a3, Option.map_eq_map, Option.map_some, Ne.symm hne, if_false]

/-- the late phase of a generator loader -/
theorem late_loop (C : CtxL h main reg T rank idep) (o : Nat) (ob : Obj) (hob : h[o]? = some ob)
    (hrefs : RefsIn h reg h.length ob.fields) (f' : Nat) (prog : List Str) (n : Str) (i : Nat) (cls : Nat)
    (IHl : ChildOk h reg T rank (n :: prog) (f' + 1) (rank o)) :
    ∀ (rest pre : List Field), pre ++ rest = ob.fields → ∀ (st : LState) (la lb : List LVal),
      LInvP h reg (n :: prog) st → st.heap[i]? = some { cls := cls, fields := la ++ lb } →
      RelVals (RelV h reg st.heap st.memo h.length) (pre.map (·.val)) la → InitVals h reg st rest lb →
      lookupMemo st.memo n = some i →
      (∀ w ∈ st.working, ∃ q, (q, w) ∈ reg ∧ rank o < rank q) → budget h reg st + h.length < f' + 1 →
      ∃ st' ls', latePhase (object T (f' + 1)) i st pre.length (encFields h reg h.length rest) = (st', .ok ()) ∧
        LInvP h reg (n :: prog) st' ∧ LateExt i st st' ∧ st'.heap[i]? = some { cls := cls, fields := ls' } ∧
        RelVals (RelV h reg st'.heap st'.memo h.length) (ob.fields.map (·.val)) ls' ∧ lookupMemo st'.memo n = some i
  | [], pre, hsplit, st, la, lb, hinv, hcell, hla, hlb, hmem, _, _ => by
    have : lb = [] := initVals_nil hlb
    subst this
    simp only [List.append_nil] at hsplit hcell
    subst hsplit
    exact ⟨st, la, rfl, hinv, LateExt.refl _ _, hcell, hla, hmem⟩
  | g :: rest, pre, hsplit, st, la, lb, hinv, hcell, hla, hlb, hmem, hw, hfuel => by
    have hg : g ∈ ob.fields := by rw [← hsplit]; simp
    have hsplit' : (pre ++ [g]) ++ rest = ob.fields := by rw [← hsplit]; simp
    obtain ⟨l, lb', rfl, hl, hlb'⟩ := initVals_cons hlb
    have hlen : la.length = pre.length := by
      have := relVals_length hla; simp only [List.length_map] at this; exact this.symm
    by_cases hph : g.phase = .late
    · -- resolve and assign
      simp only [hph, if_true] at hl
      subst hl
      obtain ⟨st1, v, e1, inv1, ext1, rel1⟩ := resolve_value C o ob hob hrefs f' (n :: prog) g hg (rank o)
        (fun p hp => C.rkLate o ob hob g hg p (by rw [hp]; rfl)) (by omega) IHl st hinv
        (fun p hp w hwm => by
          obtain ⟨q, hq1, hq2⟩ := hw w hwm
          have := C.rkLate o ob hob g hg p (by rw [hp]; rfl)
          exact ⟨q, hq1, by omega⟩)
        (fun w hwm => by obtain ⟨q, hq1, hq2⟩ := hw w hwm; exact ⟨q, hq1, by omega⟩) hfuel
      have hmem1 : lookupMemo st1.memo n = some i := ext1.memo _ _ hmem
      have hcell1 : st1.heap[i]? = some { cls := cls, fields := la ++ LVal.pending :: lb' } := ext1.heap.get hcell
      let st2 : LState := { st1 with heap := setField st1.heap i pre.length v }
      have inv2 : LInvP h reg (n :: prog) st2 := setField_inv pre.length v inv1 hmem1
      have pres12 : RelPres h reg st1 st2 := relPres_setField st1 (mem_snd_of_lookup hmem1) pre.length v
      have hcell2 : st2.heap[i]? = some { cls := cls, fields := (la ++ [v]) ++ lb' } := by
        simp only [st2, setField, List.getElem?_modify, hcell1, Option.map_eq_map, Option.map_some, if_true]
        congr 2
        rw [← hlen]; simp
      have ext12 : LateExt i st1 st2 :=
        ⟨MemoLe.refl _, rfl, by simp [st2, setField], fun j _ hji => by
          simp only [st2, setField, List.getElem?_modify, Ne.symm hji, if_false]
          cases st1.heap[j]? <;> rfl, fun _ he => Or.inl he⟩
      have hfuel2 : budget h reg st2 + h.length < f' + 1 := by
        have := budget_ext (h := h) (reg := reg) ext1
        have e : budget h reg st2 = budget h reg st1 := rfl
        omega
      obtain ⟨st', ls', e', inv', ext', cell', rel', mem'⟩ := late_loop C o ob hob hrefs f' prog n i cls IHl rest (pre ++ [g]) hsplit'
        st2 (la ++ [v]) lb' inv2 hcell2
        (by rw [List.map_append]; exact relVals_append (pres12.vals (RelVals.le ext1.le hla)) (pres12 _ _ _ rel1))
        (InitVals.pres pres12 (InitVals.pres ext1.le.relPres hlb')) hmem1 (by
          intro w hwm; exact hw w (by rw [← ext1.work]; exact hwm)) hfuel2
      refine ⟨st', ls', ?_, inv', ((LateExt.of_ext ext1).trans ext12).trans ext', cell', rel', mem'⟩
      simp only [encFields, List.map_cons, latePhase, hph, if_true]
      simp only [encFields] at e'
      rw [e1]
      simp only [List.length_append, List.length_cons, List.length_nil, Nat.zero_add] at e'
      exact e'
    · -- an early field: already in place
      simp only [hph, if_false] at hl
      have hcell2 : st.heap[i]? = some { cls := cls, fields := (la ++ [l]) ++ lb' } := by
        rw [hcell]; simp
      obtain ⟨st', ls', e', inv', ext', cell', rel', mem'⟩ := late_loop C o ob hob hrefs f' prog n i cls IHl rest (pre ++ [g]) hsplit'
        st (la ++ [l]) lb' hinv hcell2
        (by rw [List.map_append]; exact relVals_append hla hl) hlb' hmem hw hfuel
      refine ⟨st', ls', ?_, inv', ext', cell', rel', mem'⟩
      simp only [encFields, List.map_cons, latePhase, hph, if_false]
      simp only [encFields] at e'
      simp only [List.length_append, List.length_cons, List.length_nil, Nat.zero_add] at e'
      exact e'


theorem any_cb_false_of_phases (C : CtxL h main reg T rank idep) {ob : Obj} (hob : ob ∈ h) (d : Nat) :
    (encFields h reg d ob.fields).any (fun f => f.1 == .cb) = false := by
  rw [List.any_eq_false]
  intro e he
  obtain ⟨f, hf, rfl⟩ := List.mem_map.mp he
  rcases C.phases ob hob f hf with hp | hp <;> simp [hp]

theorem todo_lt_of_new {st st' : LState} {o : Nat} {n : Str} (hon : (o, n) ∈ reg)
    (hm : MemoLe st.memo st'.memo) (hw : ∀ w, w ∉ st'.working → w ≠ n → w ∉ st.working)
    (hn0 : lookupMemo st.memo n = none) (hnw : n ∉ st.working)
    (hn1 : (lookupMemo st'.memo n).isSome = true ∨ n ∈ st'.working) :
    todo reg st' < todo reg st := by
  unfold todo
  apply filter_length_lt
  · intro e _ he
    rw [Bool.and_eq_true] at he ⊢
    refine ⟨memoLe_isNone hm he.1, ?_⟩
    have h2 : e.2 ∉ st'.working := by simpa using he.2
    by_cases hen : e.2 = n
    · rw [hen]; simpa using hnw
    · simpa using hw e.2 h2 hen
  · refine ⟨(o, n), hon, ?_, ?_⟩
    · rw [Bool.and_eq_true]; exact ⟨by rw [hn0]; rfl, by simpa using hnw⟩
    · rcases hn1 with h1 | h1
      · cases hl : lookupMemo st'.memo n with
        | none => rw [hl] at h1; cases h1
        | some j => simp
      · have : st'.working.contains n = true := by simpa using h1
        simp only [this, Bool.not_true, Bool.and_false]

/-- the statement proved by induction on the fuel -/
def NamedOkP (h : Heap) (reg : Reg) (T : Table) (rank : Nat → Nat) (f : Nat) : Prop :=
  ∀ (prog : List Str) (o : Nat) (n : Str), (o, n) ∈ reg → ∀ (st : LState), LInvP h reg prog st →
    (∀ w ∈ st.working, ∃ q, (q, w) ∈ reg ∧ rank o < rank q) → budget h reg st < f →
    LoadsOkP h reg T prog f st n

/-- **Loading a registered name succeeds** — generator loaders, cycles through late edges, inlined records. -/
theorem load_named_late (C : CtxL h main reg T rank idep) : ∀ (F : Nat), ∀ f, f ≤ F → NamedOkP h reg T rank f
  | 0, f, hf => by
    intro prog o n _ st _ _ hb; omega
  | F + 1, f, hf => by
    rcases Nat.lt_or_ge f (F + 1) with hlt | hge
    · exact load_named_late C F f (by omega)
    have hfe : f = F + 1 := by omega
    subst hfe
    intro prog o n hon st hinv hw hfb
    have hlit : isLiteralStr n = false := C.regOk.notLiteral (o, n) hon
    unfold LoadsOkP
    cases hmemo : lookupMemo st.memo n with
    | some i =>
      refine ⟨st, i, ?_, hinv, LExtP.refl _, hmemo⟩
      simp only [object, hlit, hmemo]
      rfl
    | none =>
      obtain ⟨ob, hob, hrec, hrefs⟩ := C.tbl o n hon
      have hobm : ob ∈ h := List.mem_of_getElem? hob
      have hnw : n ∉ st.working := by
        intro hmem
        obtain ⟨q, hq1, hq2⟩ := hw n hmem
        have := C.regOk.obj_unique hon hq1
        subst this; omega
      have hcont : st.working.contains n = false := by simpa using hnw
      have hbp := budget_pos h reg st
      obtain ⟨f', rfl⟩ : ∃ f', F = f' + 1 := ⟨F - 1, by omega⟩
      have ih : ∀ prog' bnd, ChildOk h reg T rank prog' (f' + 1) bnd :=
        fun prog' _ f hf p m hpm _ st' hinv' hw' hb' => load_named_late C (f' + 1) f hf prog' p m hpm st' hinv' hw' hb'
      let st1 : LState := { st with working := n :: st.working }
      have inv1 : LInvP h reg prog st1 := by
        refine ⟨hinv.noCb, hinv.noPend, hinv.keysNodup, hinv.valsNodup, ?_, hinv.bound, hinv.good⟩
        intro w hwm
        rcases List.mem_cons.mp hwm with e | e
        · rw [e]; exact hmemo
        · exact hinv.disj w e
      have hw1 : ∀ w ∈ st1.working, ∃ q, (q, w) ∈ reg ∧ rank o ≤ rank q := by
        intro w hwm
        rcases List.mem_cons.mp hwm with e | e
        · exact ⟨o, by rw [e]; exact hon, Nat.le_refl _⟩
        · obtain ⟨q, hq1, hq2⟩ := hw w e; exact ⟨q, hq1, by omega⟩
      have htodo1 : todo reg st1 < todo reg st :=
        todo_lt_of_new hon (MemoLe.refl _) (fun w hw' _ hmem => hw' (List.mem_cons_of_mem _ hmem)) hmemo hnw
          (Or.inr List.mem_cons_self)
      have hb1 := budget_lt (h := h) htodo1
      obtain ⟨st2, vals, eres, inv2, ext2, rel2⟩ :=
        resolve_early C o ob hob hrefs f' prog (ih prog _) ob.fields (fun _ hg => hg) st1 inv1 hw1 (by omega)
      have hn2 : lookupMemo st2.memo n = none := by
        apply inv2.disj; rw [ext2.work]; exact List.mem_cons_self
      have hwork2 : st2.working = n :: st.working := ext2.work
      let i := st2.heap.length
      let st3 : LState :=
        { memo := (n, i) :: st2.memo, working := st.working,
          heap := st2.heap ++ [{ cls := ob.cls, fields := vals }],
          callbacks := st2.callbacks, pend := st2.pend }
      have hle : SLe st2 st3 := by
        refine ⟨memoLe_cons i hn2, heapLe_append _ _, ?_⟩
        intro e he
        rcases List.mem_cons.mp he with e1 | e1
        · right; rw [e1]; exact Nat.le_refl _
        · exact Or.inl e1
      have inv3 : LInvP h reg (n :: prog) st3 := by
        refine ⟨inv2.noCb, inv2.noPend, ?_, ?_, ?_, ?_, ?_⟩
        · simp only [st3, List.map_cons, List.nodup_cons]
          exact ⟨(lookupMemo_none_iff _ _).mp hn2, inv2.keysNodup⟩
        · simp only [st3, List.map_cons, List.nodup_cons]
          refine ⟨?_, inv2.valsNodup⟩
          intro hmem
          obtain ⟨e, he, hei⟩ := List.mem_map.mp hmem
          have := inv2.bound e he
          simp only [i] at hei; omega
        · intro w hwm
          have hwn : w ≠ n := fun e => hnw (e ▸ hwm)
          have : lookupMemo st2.memo w = none := by
            apply inv2.disj; rw [hwork2]; exact List.mem_cons_of_mem _ hwm
          simp only [st3, lookupMemo, Ne.symm hwn, if_false]; exact this
        · intro e he
          simp only [st3, List.length_append, List.length_cons, List.length_nil]
          rcases List.mem_cons.mp he with e1 | e1
          · subst e1; simp [i]
          · have := inv2.bound e e1; omega
        · intro e he hnp
          rcases List.mem_cons.mp he with e1 | e1
          · subst e1; exact absurd List.mem_cons_self hnp
          · exact (inv2.good e e1 (fun hp => hnp (List.mem_cons_of_mem _ hp))).le hle
      have hcell3 : st3.heap[i]? = some { cls := ob.cls, fields := [] ++ vals } := by
        simp only [st3, i, List.nil_append]; exact heap_concat_get _ _
      have hmem3 : lookupMemo st3.memo n = some i := by simp [st3, lookupMemo]
      have htodo3 : todo reg st3 < todo reg st :=
        todo_lt_of_new hon (ext2.memo.trans hle.memo) (fun w hw' _ => hw') hmemo hnw (Or.inl (by rw [hmem3]; rfl))
      have hb3 := budget_lt (h := h) htodo3
      obtain ⟨st4, ls', elate, inv4, ext4, cell4, rel4, mem4⟩ :=
        late_loop C o ob hob hrefs f' prog n i ob.cls (ih (n :: prog) _)
          ob.fields [] (by simp) st3 [] vals inv3 hcell3 trivial (InitVals.pres hle.relPres rel2) hmem3 hw (by omega)
      have hwork4 : st4.working = st.working := ext4.work
      have inv4' : LInvP h reg prog st4 := by
        refine ⟨inv4.noCb, inv4.noPend, inv4.keysNodup, inv4.valsNodup, inv4.disj, inv4.bound, ?_⟩
        intro e he hnp
        by_cases hen : e.1 = n
        · have hei : e.2 = i := by
            have := lookupMemo_of_mem inv4.keysNodup (show (e.1, e.2) ∈ st4.memo from he)
            rw [hen, mem4] at this; exact (Option.some.inj this).symm
          rw [hen, hei]
          exact ⟨by rw [← hei]; exact inv4.bound e he, o, ob, _, hon, hob, cell4, rfl, rel4⟩
        · exact inv4.good e he (fun hp => by
            rcases List.mem_cons.mp hp with e1 | e1
            · exact hen e1
            · exact hnp e1)
      have ext04 : LExtP st st4 := by
        have h02 : HeapLe st.heap st2.heap := ext2.heap
        refine ⟨⟨(ext2.memo.trans hle.memo).trans ext4.memo, ?_, ?_⟩, hwork4⟩
        · refine ⟨by
            have := h02.1; have := ext4.len
            simp only [st3, List.length_append, List.length_cons, List.length_nil] at this; omega, ?_⟩
          intro j hj
          have hj2 : j < st2.heap.length := Nat.lt_of_lt_of_le hj h02.1
          rw [ext4.others j (by simp only [st3, List.length_append, List.length_cons, List.length_nil]; omega)
            (by simp only [i]; omega)]
          simp only [st3]
          rw [List.getElem?_append_left hj2]
          exact h02.2 j hj
        · intro e he
          rcases ext4.fresh e he with x | x
          · rcases List.mem_cons.mp x with e1 | e1
            · right; rw [e1]; exact h02.1
            · exact ext2.le.fresh e e1
          · right
            have := h02.1
            simp only [st3, List.length_append, List.length_cons, List.length_nil] at x; omega
      refine ⟨st4, i, ?_, inv4', ext04, mem4⟩
      -- unfold the computation
      have hload : loadRec (object T (f' + 1)) (some n) st1 ob.cls (encFields h reg h.length ob.fields) = (st4, .ok i) := by
        unfold loadRec
        simp only [eres, any_cb_false_of_phases C hobm, Bool.false_and, if_false, Bool.false_eq_true]
        have elate' := elate
        simp only [st3, i, List.length_nil] at elate'
        simp only [hwork2, List.erase_cons_head]
        rw [elate']
      rw [object_named_unfold T (f' + 1) st n ob.cls (encFields h reg h.length ob.fields) hlit hmemo hrec hcont]
      have hload' : loadRec (object T (f' + 1)) (some n) { st with working := n :: st.working } ob.cls
          (encFields h reg h.length ob.fields) = (st4, .ok i) := hload
      rw [hload']
      have herase : st4.working.erase n = st4.working := by
        rw [hwork4]; exact List.erase_of_not_mem hnw
      have hst : ({ st4 with working := st4.working.erase n } : LState) = st4 := by rw [herase]
      simp only [hst, tryCallbacksIfIdle_noCb _ st4 inv4'.noCb]

/-- **Round trip with generator loaders**: cycles are allowed as long as every edge of a cycle is read
after the loader's `yield` (early edges strictly decrease `rank`, late edges do not increase it). -/
theorem roundtrip_late_core (rank idep : Nat → Nat)
    (hph : ∀ ob ∈ h, ∀ f ∈ ob.fields, f.phase = .early ∨ f.phase = .late)
    (hrkE : ∀ o ob, h[o]? = some ob → ∀ f ∈ ob.fields, f.phase = .early → ∀ p, f.val.target = some p → rank p < rank o)
    (hrkL : ∀ o ob, h[o]? = some ob → ∀ f ∈ ob.fields, ∀ p, f.val.target = some p → rank p ≤ rank o)
    (hdepth : ∀ o, o < h.length → idep o ≤ h.length)
    (hedge : ∀ (o : Nat) (ob : Obj), h[o]? = some ob → ∀ f ∈ ob.fields, ∀ p, f.val = Val.own p → idep p < idep o)
    (hinl : ∀ (o : Nat) (ob : Obj), h[o]? = some ob → ∀ f ∈ ob.fields, ∀ p, f.val = Val.own p → ∀ obp : Obj, h[p]? = some obp →
      ∀ x ∈ obp.fields, x.phase = .early)
    {st : SState} {T : Table} (hs : serialize h main = .ok (st, T)) (fuel : Nat)
    (hfuel : (st.reg.length + 1) * (h.length + 1) < fuel) :
    ∃ ls i, unserialize T fuel = (ls, .ok (.ref i)) ∧ specRoundTrip h st.reg ls = true := by
  obtain ⟨hk, hreach, hkeys, hent⟩ := serialize_spec h main hs
  have hTnd : (T.map Prod.fst).Nodup := by rw [hkeys]; exact hk.namesNodup
  have C : CtxL h main st.reg T rank idep := {
    regOk := hk
    tbl := fun o n hon => by
      obtain ⟨ob, h1, h2, h3⟩ := hent o n hon
      exact ⟨ob, h1, lookupRec_of_mem hTnd h2, h3⟩
    phases := hph
    rkEarly := hrkE
    rkLate := hrkL
    depth := hdepth
    edge := hedge
    inlEarly := hinl }
  have hmain : (main, mainName) ∈ st.reg := lookupName_some_mem hk.mainIn
  have inv0 : LInvP h st.reg [] initL :=
    ⟨rfl, rfl, by simp [initL], by simp [initL], by intro w hw; simp [initL] at hw,
     by intro e he; simp [initL] at he, by intro e he; simp [initL] at he⟩
  have htodo : todo st.reg initL ≤ st.reg.length := by
    unfold todo; exact List.length_filter_le _ _
  have hb : budget h st.reg initL < fuel := by
    have : budget h st.reg initL ≤ (st.reg.length + 1) * (h.length + 1) := by
      unfold budget; exact Nat.mul_le_mul_right _ (by omega)
    omega
  obtain ⟨ls, i, hload, inv, _ext, hmi⟩ :=
    load_named_late C fuel fuel (Nat.le_refl _) [] main mainName hmain initL inv0 (by intro w hw; simp [initL] at hw) hb
  exact ⟨ls, i, hload, spec_of_loaded hk hreach ls (fun e he => inv.good e he (by simp)) inv.valsNodup hmi⟩

end

/-! ### Boolean hypotheses as propositions -/

theorem noCb_phases (h : Heap) (hb : noCb h = true) : ∀ ob ∈ h, ∀ f ∈ ob.fields, f.phase = .early ∨ f.phase = .late := by
  intro ob hob f hf
  unfold noCb at hb
  have := (List.all_eq_true.mp hb) ob hob
  have := (List.all_eq_true.mp this) f hf
  cases hp : f.phase with
  | early => exact Or.inl rfl
  | late => exact Or.inr rfl
  | cb => rw [hp] at this; cases this

theorem lateCyclesBy_iff (rank : Nat → Nat) (h : Heap) (hb : lateCyclesBy rank h = true) :
    (∀ o ob, h[o]? = some ob → ∀ f ∈ ob.fields, f.phase = .early → ∀ p, f.val.target = some p → rank p < rank o) ∧
    (∀ o ob, h[o]? = some ob → ∀ f ∈ ob.fields, ∀ p, f.val.target = some p → rank p ≤ rank o) := by
  have key : ∀ (o : Nat) (ob : Obj), h[o]? = some ob → ∀ (f : Field), f ∈ ob.fields → ∀ (p : Nat), f.val.target = some p →
      (match f.phase with | Phase.early => decide (rank p < rank o) | _ => decide (rank p ≤ rank o)) = true := by
    intro o ob hob f hf p hp
    unfold lateCyclesBy at hb
    have ho : o < h.length := by
      obtain ⟨ho, _⟩ := List.getElem?_eq_some_iff.mp hob; exact ho
    have := (List.all_eq_true.mp hb) o (List.mem_range.mpr ho)
    simp only [hob] at this
    have := (List.all_eq_true.mp this) f hf
    simp only [hp] at this
    cases hph : f.phase <;> simp only [hph] at this ⊢ <;> exact this
  constructor
  · intro o ob hob f hf hph p hp
    have := key o ob hob f hf p hp
    simp only [hph, decide_eq_true_eq] at this
    exact this
  · intro o ob hob f hf p hp
    have := key o ob hob f hf p hp
    cases hph : f.phase <;> simp only [hph, decide_eq_true_eq] at this <;> omega

end GlueVerif.C02
