import GlueVerif.Model.Collection
/-!
C18, part 1 — a `Viewer` (glue/viewers/common/viewer.py) on top of the C06 collection model.

What is modelled (bookkeeping only, no drawing):

* `LayerArtistContainer.artists` (`arts`) and `viewer.state.layers` (`slayers`).  A `LayerArtist` is
  created together with its `LayerState` (`artist.state`) and the two never part, so one record
  `Art = {id, layer}` stands for the pair; `arts` lists the artists, `slayers` lists the layer states
  (the state of artist `id`).  `viewer.layers` is `sorted(artists, key=zorder)`; `append` assigns
  `zorder = max + 1`, so (no manual z-order edits) it is the append order = the order of `arts`.
* the two sync callbacks, as filters (that is what the loops compute; see the note at `syncStates`);
* `add_data`, `add_subset`, `remove_data`, `remove_subset`, `remove_layer`, removal of a layer
  state through `state.layers`, `__gluestate__` / `__setgluestate__`;
* the hub subscriptions of `Viewer.register_to_hub` that touch the bookkeeping, with their filters:
  `SubsetCreateMessage` (`_subset_has_data`), `SubsetDeleteMessage` (`_has_data_or_subset`),
  `DataCollectionDeleteMessage` (no filter).

Collection operations are the four atomic ones of `DataCollection` (`append`, `remove`,
`new_subset_group`, `remove_subset_group`), executed by the C06 model (`Collection.Impl.step`, the
code with `fix: remove data detach`); the messages they emit are read off the state change
(`created`, `deleted`, `dataDeleted`), in the order the code emits them for these four operations.

`Want` is *ghost* state: what the client asked the viewer to show.  It is updated by a few obvious
rules (`wantStep`) and never read by the handlers; the property predicate `specOk` relates it to
the two layer lists.
-/
namespace GlueVerif.C18Viewer
open GlueVerif.Collection

/-- What a layer artist shows: a dataset or a (grouped) subset object. -/
inductive Layer where
  | data (d : Nat)
  | sub (s : Sub)
  deriving DecidableEq, Repr

/-- A `LayerArtist` with its `LayerState`: serial number and `.layer`. -/
structure Art where
  id : Nat
  layer : Layer
  deriving DecidableEq, Repr

/-- `layer is data` (data layer) or `layer.data is data` (subset layer) — the test in `remove_data`. -/
def Layer.ofData (d : Nat) : Layer → Bool
  | .data d' => d' == d
  | .sub s => s.data == some d

/-- Ghost: what the client asked for.  `given` — datasets handed to the viewer and not taken back;
`hidden` — subset layers of given datasets that the client removed explicitly; `extra` — subset
layers the client added explicitly for datasets that are not given. -/
structure Want where
  given : List Nat
  hidden : List Sub
  extra : List Sub
  deriving DecidableEq, Repr

structure VState where
  col : Collection.State
  /-- number of layer artists ever created. -/
  nArt : Nat
  /-- `viewer._layer_artist_container.artists` (= `viewer.layers` order). -/
  arts : List Art
  /-- `viewer.state.layers`. -/
  slayers : List Art
  want : Want
  /-- the last operation raised (`IncompatibleDataException`). -/
  err : Bool

def init (n colors : Nat) : VState :=
  { col := Collection.init n colors, nArt := 0, arts := [], slayers := [], want := ⟨[], [], []⟩, err := false }

/-- `item in container`: `any(item is a.layer for a in artists)`. -/
def hasLayer (arts : List Art) (L : Layer) : Bool := arts.any (fun a => a.layer == L)

/-! ## the two-way sync -/

/-- `_sync_layer_artist_container` (callback on `state.layers`, priority 10000): remove every layer
artist whose `.layer` is not the `.layer` of some layer state. -/
def syncArts (v : VState) : VState :=
  { v with arts := v.arts.filter (fun a => hasLayer v.slayers a.layer) }

/-- `_sync_state_layers` (container change callback): remove every layer state whose `.layer` is
not in the container.  (The Python loop removes from the list it iterates over, which skips the
element after a removed one; two orphan states never coexist in a reachable state — every removal
from the container notifies immediately — so the loop computes this filter.) -/
def syncStates (v : VState) : VState :=
  { v with slayers := v.slayers.filter (fun s => hasLayer v.arts s.layer) }

/-- creation of a layer artist for `L` and `container.append`: `LayerArtist.__init__` appends the
new layer state to `state.layers` (→ `_sync_layer_artist_container`), then the artist is appended to
the container (→ `_sync_state_layers`). -/
def addArt (L : Layer) (v : VState) : VState :=
  let a : Art := ⟨v.nArt, L⟩
  let v1 := syncArts { v with nArt := v.nArt + 1, slayers := v.slayers ++ [a] }
  syncStates { v1 with arts := v1.arts ++ [a] }

/-- `Viewer.add_subset(subset)`. -/
def addSubsetH (s : Sub) (v : VState) : VState :=
  if hasLayer v.arts (.sub s) then v else addArt (.sub s) v

/-- `container.pop(layer)`: every artist of that layer is removed (each removal notifies →
`_sync_state_layers`).  Used by `remove_subset` (after an `in` test) and `remove_layer`. -/
def popLayer (L : Layer) (v : VState) : VState :=
  syncStates { v with arts := v.arts.filter (fun a => !(a.layer == L)) }

/-- `Viewer.remove_data(data)`: inside `delay_callback(state, 'layers')` every layer state of the
dataset or of one of its subsets is removed; on exit `_sync_layer_artist_container` runs. -/
def removeDataH (d : Nat) (v : VState) : VState :=
  syncStates (syncArts { v with slayers := v.slayers.filter (fun s => !s.layer.ofData d) })

/-- `state.layers.remove(layer_state)` for the first state showing `L` (nothing if there is none),
followed by the `layers` callback. -/
def popState (L : Layer) (v : VState) : VState :=
  match v.slayers.find? (fun s => s.layer == L) with
  | none => v
  | some s => syncStates (syncArts { v with slayers := v.slayers.erase s })

/-! ## hub handlers -/

/-- `SubsetCreateMessage`: filter `_subset_has_data` (`subset.data in container.layers`). -/
def onCreate (v : VState) (s : Sub) : VState :=
  match s.data with
  | some d => if hasLayer v.arts (.data d) then addSubsetH s v else v
  | none => v

/-- `SubsetDeleteMessage`: filter `_has_data_or_subset` (`subset in container.layers`), handler
`remove_subset`. -/
def onDelete (v : VState) (s : Sub) : VState :=
  if hasLayer v.arts (.sub s) then popLayer (.sub s) v else v

/-- `DataCollectionDeleteMessage`. -/
def onDataDelete (v : VState) (d : Nat) : VState := removeDataH d v

/-! ## messages emitted by an atomic collection operation, read off the state change -/

def created (old new : Collection.State) : List Sub :=
  new.datasets.flatMap fun d => (new.dsubs d).filter fun s => !(old.dsubs d).contains s

def deleted (old new : Collection.State) : List Sub :=
  (List.range old.nData).flatMap fun d => (old.dsubs d).filter fun s => !(new.dsubs d).contains s

def dataDeleted (old new : Collection.State) : List Nat :=
  old.datasets.filter fun d => !new.datasets.contains d

/-- the viewer's reaction to a collection change.  `remove d`: the groups' handlers delete the
dataset's subsets (`SubsetDeleteMessage`s) and the viewer receives `DataCollectionDeleteMessage`;
`remove_subset_group`: one `SubsetDeleteMessage` per member; `append` / `new_subset_group`: one
`SubsetCreateMessage` per new grouped subset (dataset order, then group order). -/
def react (old new : Collection.State) (v : VState) : VState :=
  let v1 := (dataDeleted old new).foldl onDataDelete v
  let v2 := (deleted old new).foldl onDelete v1
  (created old new).foldl onCreate v2

/-! ## operations -/

/-- the four atomic collection operations. -/
inductive COp where
  | append (d : Nat)
  | remove (d : Nat)
  | newGroup
  | removeGroup (g : Nat)
  deriving DecidableEq, Repr

def COp.toOp : COp → Collection.Op
  | .append d => .append d
  | .remove d => .remove d
  | .newGroup => .newGroup
  | .removeGroup g => .removeGroup g

inductive VOp where
  | col (op : COp)
  /-- `viewer.add_data(d)`. -/
  | addData (d : Nat)
  /-- `viewer.add_subset(s)`, `s` = the subset of group `g` on dataset `d` (nothing if none). -/
  | addSubset (d g : Nat)
  /-- `viewer.remove_data(d)`. -/
  | removeData (d : Nat)
  /-- `viewer.remove_subset(s)`. -/
  | removeSubset (d g : Nat)
  /-- `viewer.remove_layer(layer)`: dataset `d` (`g = none`) or the subset of group `g` on `d`. -/
  | removeLayer (d : Nat) (g : Option Nat)
  /-- `viewer.state.layers.remove(state)` for the state showing that layer. -/
  | popState (d : Nat) (g : Option Nat)
  /-- save the application with the viewer and load it back. -/
  | restore
  deriving DecidableEq, Repr

/-- the grouped subset of group `g` currently attached to dataset `d`. -/
def findSub (st : Collection.State) (d g : Nat) : Option Sub := (st.dsubs d).find? (fun s => s.group == g)

def layerOf (st : Collection.State) (d : Nat) : Option Nat → Option Layer
  | none => some (.data d)
  | some g => (findSub st d g).map .sub

/-- a subset is current: attached to a dataset of the collection. -/
def attached (datasets : List Nat) (dsubs : Nat → List Sub) (s : Sub) : Bool :=
  match s.data with
  | some d => datasets.contains d && (dsubs d).contains s
  | none => false

/-! ### ghost rules -/

def Want.addData (w : Want) (d : Nat) : Want :=
  if w.given.contains d then w
  else ⟨w.given ++ [d], w.hidden.filter (fun s => !(s.data == some d)), w.extra.filter (fun s => !(s.data == some d))⟩

def Want.removeData (w : Want) (d : Nat) : Want :=
  ⟨w.given.filter (fun x => !(x == d)), w.hidden.filter (fun s => !(s.data == some d)),
   w.extra.filter (fun s => !(s.data == some d))⟩

def givenSub (w : Want) (s : Sub) : Bool :=
  match s.data with
  | some d => w.given.contains d
  | none => false

def Want.addSubset (w : Want) (s : Sub) : Want :=
  if givenSub w s then { w with hidden := w.hidden.filter (fun x => !(x == s)) }
  else if w.extra.contains s then w else { w with extra := w.extra ++ [s] }

def Want.removeSubset (w : Want) (s : Sub) : Want :=
  if givenSub w s then (if w.hidden.contains s then w else { w with hidden := w.hidden ++ [s] })
  else { w with extra := w.extra.filter (fun x => !(x == s)) }

/-- the data layer of `d` alone is taken away: the dataset is no longer given; its subset layers
that are shown stay, as explicitly kept ones. -/
def Want.removeDataLayer (w : Want) (dsubs : Nat → List Sub) (d : Nat) : Want :=
  if w.given.contains d then
    ⟨w.given.filter (fun x => !(x == d)), w.hidden.filter (fun s => !(s.data == some d)),
     w.extra ++ (dsubs d).filter (fun s => !w.hidden.contains s)⟩
  else w

def Want.removeLayer (w : Want) (dsubs : Nat → List Sub) : Layer → Want
  | .data d => w.removeDataLayer dsubs d
  | .sub s => w.removeSubset s

/-- after a collection change: only what still exists can be wanted. -/
def Want.restrict (w : Want) (st : Collection.State) : Want :=
  ⟨w.given.filter (fun d => st.datasets.contains d), w.hidden.filter (attached st.datasets st.dsubs),
   w.extra.filter (attached st.datasets st.dsubs)⟩

/-! ### save / restore -/

/-- the restored object that stands for a saved subset: its `.data` is the restored dataset that
lists it (`Collection.restore`). -/
def renSub (st : Collection.State) (s : Sub) : Sub :=
  { s with data := st.datasets.find? (fun d => (st.dsubs d).contains s) }

def renLayer (st : Collection.State) : Layer → Layer
  | .data d => .data d
  | .sub s => .sub (renSub st s)

def renArt (st : Collection.State) (a : Art) : Art := { a with layer := renLayer st a.layer }

/-- `Viewer.__gluestate__` + `__setgluestate__` inside an application save / load: the viewer state
comes back with its `layers` list; one artist is rebuilt per saved entry of `viewer.layers` from its
saved layer state, with the container callbacks ignored.  The restored objects stand for the saved
ones. -/
def restoreV (v : VState) : VState :=
  { v with col := Collection.restore v.col,
           arts := v.arts.map (renArt v.col), slayers := v.slayers.map (renArt v.col),
           want := ⟨v.want.given, v.want.hidden.map (renSub v.col), v.want.extra.map (renSub v.col)⟩,
           err := false }

/-! ### the step function -/

/-- `Viewer.add_data(data)`: nothing if the dataset is already shown; `IncompatibleDataException`
if it is not in the collection; otherwise a data layer, then `add_subset` for every subset the
dataset carries. -/
def addDataOp (d : Nat) (v : VState) : VState :=
  if hasLayer v.arts (.data d) then { v with err := false }
  else if !v.col.datasets.contains d then { v with err := true }
  else
    let v1 := addArt (.data d) { v with err := false }
    let v2 := (v.col.dsubs d).foldl (fun v s => addSubsetH s v) v1
    { v2 with want := v.want.addData d }

def step (v : VState) : VOp → VState
  | .col op =>
    let new := Collection.Impl.step v.col op.toOp
    let v1 := react v.col new { v with col := new, err := false }
    { v1 with want := v.want.restrict new }
  | .addData d => addDataOp d v
  | .addSubset d g =>
    match findSub v.col d g with
    | none => { v with err := false }
    | some s => { addSubsetH s { v with err := false } with want := v.want.addSubset s }
  | .removeData d =>
    { removeDataH d { v with err := false } with want := v.want.removeData d }
  | .removeSubset d g =>
    match findSub v.col d g with
    | none => { v with err := false }
    | some s =>
      let v0 := { v with err := false }
      { (if hasLayer v.arts (.sub s) then popLayer (.sub s) v0 else v0) with want := v.want.removeSubset s }
  | .removeLayer d g =>
    match layerOf v.col d g with
    | none => { v with err := false }
    | some L =>
      { popLayer L { v with err := false } with
        want := if hasLayer v.arts L then v.want.removeLayer v.col.dsubs L else v.want }
  | .popState d g =>
    match layerOf v.col d g with
    | none => { v with err := false }
    | some L =>
      { popState L { v with err := false } with
        want := if hasLayer v.slayers L then v.want.removeLayer v.col.dsubs L else v.want }
  | .restore => restoreV v

def run (v : VState) (ops : List VOp) : VState := ops.foldl step v

/-! ### requests a viewer class refuses

Some viewer classes refuse a request by raising before they touch anything: `SimpleImageViewer`
asked for a layer of a 1-d dataset (a table, shown as a scatter overlay) or of one of its subsets
while it has no layer at all (`MatplotlibImageMixin._scatter_artist` / `_region_artist`: "Can only
add a scatter plot overlay once an image is present").  `refuses v op` says whether the class refuses
`op` in state `v`; nothing changes but the error flag, and the client has not handed anything over
(the ghost is untouched). -/
def stepR (refuses : VState → VOp → Bool) (v : VState) (op : VOp) : VState :=
  if refuses v op then { v with err := true } else step v op

def runR (refuses : VState → VOp → Bool) (v : VState) (ops : List VOp) : VState :=
  ops.foldl (stepR refuses) v

/-- the image viewer's rule (`oneD d`: dataset `d` has one dimension): the test comes after "already
shown" (impossible without layers) and "not in the collection". -/
def imageRefuses (oneD : Nat → Bool) (v : VState) : VOp → Bool
  | .addData d => v.arts.isEmpty && oneD d && v.col.datasets.contains d
  | .addSubset d g => v.arts.isEmpty && oneD d && (findSub v.col d g).isSome
  | _ => false

/-- no class-specific refusals: the scatter, histogram and profile viewers. -/
def neverRefuses (_ : VState) (_ : VOp) : Bool := false

/-! ## Spec: the property as a decidable predicate on an observed viewer

`datasets`, `dsubs`: the collection (what is current); `w`: what the client asked for; `arts`:
`viewer.layers`; `slayers`: `viewer.state.layers`. -/
def wantedLayer (w : Want) : Layer → Bool
  | .data d => w.given.contains d
  | .sub s => (givenSub w s && !w.hidden.contains s) || w.extra.contains s

def currentLayer (datasets : List Nat) (dsubs : Nat → List Sub) : Layer → Bool
  | .data d => datasets.contains d
  | .sub s => attached datasets dsubs s

def specOk (datasets : List Nat) (dsubs : Nat → List Sub) (w : Want) (arts slayers : List Art) : Bool :=
  -- the layer list and the state's layer list agree: same objects, same order
  (slayers == arts) &&
  -- at most one layer per dataset / subset
  decide (arts.map (·.layer)).Nodup && decide (arts.map (·.id)).Nodup &&
  -- nothing remains for removed datasets, subsets or groups; nothing that was not asked for
  arts.all (fun a => currentLayer datasets dsubs a.layer && wantedLayer w a.layer) &&
  -- a layer for every given dataset still in the collection and for each of its current subsets
  w.given.all (fun d => !datasets.contains d ||
    (hasLayer arts (.data d) && (dsubs d).all (fun s => w.hidden.contains s || hasLayer arts (.sub s)))) &&
  w.extra.all (fun s => hasLayer arts (.sub s))

def specOkV (v : VState) : Bool := specOk v.col.datasets v.col.dsubs v.want v.arts v.slayers

end GlueVerif.C18Viewer
