/-
C02 — session round trip.  Executable model of glue/core/state.py (core Lean only).

  * an object graph: typed records whose fields are literals, strings or references to other
    objects; references are either *named* (`context.id(x)`: a top-level record, shareable, may be
    cyclic) or *inlined* (`context.do(x)`: a nested record, not shareable);
  * `GlueSerializer`: `id` (string prefix `st__`, literal pass-through, name registry filled from
    labels through `_label` / `_disambiguate`), `do` (the `_working` guard), `do_all` (fixpoint);
  * `GlueUnSerializer.object`: memo table `_objs`, `_working`, generator loaders (= two-phase
    construction: fields read before / after the object is registered), deferred
    `__setgluestate_callback__` with `_try_callbacks` after every record load;
  * the saver / loader dispatch over a class table (MRO walk) used by the generated registry.

Strings are `List Char` (the driver converts at the boundary): prefix reasoning is list reasoning.
Lists / dicts of objects are themselves objects of the built-in classes `list` / `dict`
(`_save_list`, `_save_dict`), lists of pure literals are passed through as literals — exactly the
case split `id`/`do` make; so a field is a literal, a string, a named reference or an inlined object.
-/
namespace GlueVerif.C02

abbrev Str := List Char

/-! ## Object graph -/

inductive Val where
  | lit (n : Int)      -- number / None / bool / list of literals: passed through unchanged
  | str (s : Str)      -- python `str`
  | ref (o : Nat)      -- another object, saved with `context.id` (named record)
  | own (o : Nat)      -- another object, saved with `context.do` (inlined record)
  deriving DecidableEq, Repr, Inhabited

/-- When the class's loader reads the field: before the new object exists (`early`), after a
generator loader's `yield` (`late`), or in `__setgluestate_callback__` (`cb`). -/
inductive Phase where
  | early | late | cb
  deriving DecidableEq, Repr, Inhabited

structure Field where
  phase : Phase
  val : Val
  deriving DecidableEq, Repr, Inhabited

structure Obj where
  cls : Nat
  /-- `obj.label`, or `type(obj).__name__` for classes without a label attribute. -/
  label : Str
  fields : List Field
  deriving DecidableEq, Repr, Inhabited

abbrev Heap := List Obj

/-! ## The JSON side -/

inductive JVal where
  | lit (n : Int)
  | str (s : Str)                                  -- `st__…` literal or the name of a record
  | obj (cls : Nat) (fields : List (Phase × JVal)) -- a record (the phase tag stands for the position
                                                   -- of the `context.object` call in the class's loader)
  deriving Repr, Inhabited

abbrev Table := List (Str × JVal)

/-! ## Names -/

def stPrefix : Str := ['s', 't', '_', '_']
def mainName : Str := ['_', '_', 'm', 'a', 'i', 'n', '_', '_']

/-- `GlueUnSerializer.object`: `obj_id.startswith('st__')`. -/
def isLiteralStr (s : Str) : Bool := stPrefix.isPrefixOf s

/-- `_names` / `_objs`, kept as one association list in registration (dict) order. -/
abbrev Reg := List (Nat × Str)

def lookupName : Reg → Nat → Option Str
  | [], _ => none
  | (p, n) :: r, o => if p = o then some n else lookupName r o

def nameUsed (reg : Reg) (n : Str) : Bool := reg.any (fun e => e.2 == n)

/-- `"%s_%i" % (name, i)` -/
def suffix (name : Str) (i : Nat) : Str := name ++ '_' :: Nat.toDigits 10 i

/-- `for i in count(0)`: the first unused suffix, searched with fuel. -/
def firstFree (reg : Reg) (name : Str) : Nat → Nat → Option Str
  | 0, _ => none
  | f + 1, i => if nameUsed reg (suffix name i) then firstFree reg name f (i + 1) else some (suffix name i)

/-- `GlueSerializer._disambiguate`.  `reg.length + 1` candidates always contain a free one
(`firstFree_isSome`), so the `getD` branch is unreachable. -/
def disambiguate (reg : Reg) (name : Str) : Str :=
  if nameUsed reg name then (firstFree reg name (reg.length + 1) 0).getD name else name

/-- `GlueSerializer._label` for a non-main object, as repaired by fix F5c: a name that would read
as a string literal is escaped with a leading underscore (and disambiguated again). -/
def safeLabel (reg : Reg) (l : Str) : Str :=
  let n := disambiguate reg l
  if isLiteralStr n then disambiguate reg ('_' :: n) else n

/-- `_label` before the fix (kept for the witness). -/
def oldLabel (reg : Reg) (l : Str) : Str := disambiguate reg l

/-! ## Serializer -/

structure SState where
  reg : Reg
  working : List Nat
  deriving Repr, Inhabited

inductive SErr where
  | circular      -- GlueSerializeError("Circular reference detected")
  | dangling      -- reference outside the heap (cannot happen for real objects)
  | fuel
  deriving DecidableEq, Repr, Inhabited

def labelOf (h : Heap) (o : Nat) : Str := (h[o]?.map (·.label)).getD []

/-- `GlueSerializer.id` on an object. -/
def idObj (h : Heap) (main : Nat) (st : SState) (o : Nat) : SState × Str :=
  match lookupName st.reg o with
  | some n => (st, n)
  | none =>
    let n := if o = main then mainName else safeLabel st.reg (labelOf h o)
    ({ st with reg := st.reg ++ [(o, n)] }, n)

/-- One field of a saver: `context.id(v)` for literals, strings and named references,
`context.do(v)` for inlined objects. -/
def doField (h : Heap) (main : Nat) (doO : SState → Nat → Except SErr (SState × JVal))
    (st : SState) (v : Val) : Except SErr (SState × JVal) :=
  match v with
  | .lit n => .ok (st, .lit n)
  | .str s => .ok (st, .str (stPrefix ++ s))
  | .ref p => let r := idObj h main st p; .ok (r.1, .str r.2)
  | .own p => doO st p

def doFields (h : Heap) (main : Nat) (doO : SState → Nat → Except SErr (SState × JVal)) :
    SState → List Field → Except SErr (SState × List (Phase × JVal))
  | st, [] => .ok (st, [])
  | st, f :: fs =>
    match doField h main doO st f.val with
    | .error e => .error e
    | .ok (st1, j) =>
      match doFields h main doO st1 fs with
      | .error e => .error e
      | .ok (st2, js) => .ok (st2, (f.phase, j) :: js)

/-- `GlueSerializer.do` on an object (the saver of a field-faithful class writes every field). -/
def doObj (h : Heap) (main : Nat) : Nat → SState → Nat → Except SErr (SState × JVal)
  | 0, _, _ => .error .fuel
  | f + 1, st, o =>
    if st.working.contains o then .error .circular else
    match h[o]? with
    | none => .error .dangling
    | some ob =>
      match doFields h main (doObj h main f) { st with working := o :: st.working } ob.fields with
      | .error e => .error e
      | .ok (st1, js) => .ok ({ st1 with working := st1.working.erase o }, .obj ob.cls js)

/-- One pass of `do_all`: `[(oid, self.do(obj)) for oid, obj in list(self._objs.items())]`. -/
def doPass (h : Heap) (main : Nat) (fuel : Nat) : SState → Reg → Except SErr (SState × Table)
  | st, [] => .ok (st, [])
  | st, (o, n) :: rest =>
    match doObj h main fuel st o with
    | .error e => .error e
    | .ok (st1, j) =>
      match doPass h main fuel st1 rest with
      | .error e => .error e
      | .ok (st2, js) => .ok (st2, (n, j) :: js)

/-- `do_all`: repeat until a pass registers nothing new. -/
def doAll (h : Heap) (main : Nat) (fuel : Nat) : Nat → SState → Except SErr (SState × Table)
  | 0, _ => .error .fuel
  | k + 1, st =>
    match doPass h main fuel st st.reg with
    | .error e => .error e
    | .ok (st1, tbl) =>
      if st1.reg.length = st.reg.length then .ok (st1, tbl) else doAll h main fuel k st1

def initS (main : Nat) : SState := { reg := [(main, mainName)], working := [] }

/-- `GlueSerializer(main).dumpo()`. -/
def serialize (h : Heap) (main : Nat) : Except SErr (SState × Table) :=
  doAll h main (h.length + 1) (h.length + 1) (initS main)

/-! ## Unserializer -/

inductive LVal where
  | lit (n : Int)
  | str (s : Str)
  | ref (i : Nat)     -- restored object reached by name
  | own (i : Nat)     -- restored object built from an inlined record
  | pending           -- not assigned yet (late / callback field)
  deriving DecidableEq, Repr, Inhabited

structure LObj where
  cls : Nat
  fields : List LVal
  deriving DecidableEq, Repr, Inhabited

structure LState where
  memo : List (Str × Nat)           -- `_objs`: name → restored object
  working : List Str                -- `_working`
  heap : List LObj                  -- restored objects, index = identity
  callbacks : List Nat              -- `_callbacks` (objects with a pending `__setgluestate_callback__`)
  pend : List (Nat × Nat × JVal)    -- what those objects still hold un-resolved: (object, field, value)
  deriving Repr, Inhabited

inductive LErr where
  | circular | unrecognized | malformed | fuel
  deriving DecidableEq, Repr, Inhabited

def lookupMemo : List (Str × Nat) → Str → Option Nat
  | [], _ => none
  | (n, i) :: r, s => if n = s then some i else lookupMemo r s

def lookupRec : Table → Str → Option JVal
  | [], _ => none
  | (n, j) :: r, s => if n = s then some j else lookupRec r s

abbrev LRes (α : Type) := LState × Except LErr α

def setField (heap : List LObj) (i pos : Nat) (v : LVal) : List LObj :=
  heap.modify i (fun o => { o with fields := o.fields.set pos v })

/-- Resolve the fields of one phase in order (other fields are left as they are in `acc`).
`k` is the position of the next field. -/
def resolvePhase (obj : LState → JVal → LRes LVal) (ph : Phase) :
    LState → List (Phase × JVal) → LRes (List LVal)
  | st, [] => (st, .ok [])
  | st, (p, j) :: rest =>
    if p = ph then
      match obj st j with
      | (st1, Except.error e) => (st1, .error e)
      | (st1, Except.ok v) =>
        match resolvePhase obj ph st1 rest with
        | (st2, Except.error e) => (st2, .error e)
        | (st2, Except.ok vs) => (st2, .ok (v :: vs))
    else
      match resolvePhase obj ph st rest with
      | (st2, Except.error e) => (st2, .error e)
      | (st2, Except.ok vs) => (st2, .ok (.pending :: vs))

/-- The late phase of a generator loader: resolve and assign, field by field. -/
def latePhase (obj : LState → JVal → LRes LVal) (i : Nat) :
    LState → Nat → List (Phase × JVal) → LRes Unit
  | st, _, [] => (st, .ok ())
  | st, k, (p, j) :: rest =>
    if p = .late then
      match obj st j with
      | (st1, Except.error e) => (st1, .error e)
      | (st1, Except.ok v) => latePhase obj i { st1 with heap := setField st1.heap i k v } (k + 1) rest
    else latePhase obj i st (k + 1) rest

def cbSources (i : Nat) : Nat → List (Phase × JVal) → List (Nat × Nat × JVal)
  | _, [] => []
  | k, (p, j) :: rest => if p = .cb then (i, k, j) :: cbSources i (k + 1) rest else cbSources i (k + 1) rest

/-- Run the loader of a record: early fields, allocate, register (by name), late fields. -/
def loadRec (obj : LState → JVal → LRes LVal) (name : Option Str) (st : LState)
    (cls : Nat) (flds : List (Phase × JVal)) : LRes Nat :=
  match resolvePhase obj .early st flds with
  | (st1, Except.error e) => (st1, .error e)
  | (st1, Except.ok vals) =>
    let i := st1.heap.length
    let isGen := flds.any (fun f => f.1 == .late)
    let hasCb := flds.any (fun f => f.1 == .cb)
    -- `if hasattr(obj, '__setgluestate_callback__')` is tested on what the loader *returned*: for a
    -- generator loader that is the generator object, so a generator loader never gets its callback
    let regCb := hasCb && !isGen
    let st2 : LState :=
      { st1 with heap := st1.heap ++ [{ cls := cls, fields := vals }],
                 callbacks := if regCb then st1.callbacks ++ [i] else st1.callbacks,
                 pend := if regCb then st1.pend ++ cbSources i 0 flds else st1.pend }
    let st3 : LState :=
      match name with
      | some n => { st2 with memo := (n, i) :: st2.memo, working := st2.working.erase n }
      | none => st2
    match latePhase obj i st3 0 flds with
    | (st4, Except.error e) => (st4, .error e)
    | (st4, Except.ok ()) => (st4, .ok i)

def findPend : List (Nat × Nat × JVal) → Nat → Nat → Option JVal
  | [], _, _ => none
  | (c, k, j) :: r, c', k' => if c = c' ∧ k = k' then some j else findPend r c' k'

def removePend (p : List (Nat × Nat × JVal)) (c k : Nat) : List (Nat × Nat × JVal) :=
  p.filter (fun e => !(e.1 == c && e.2.1 == k))

/-- One `__setgluestate_callback__`: resolve what is still pending, stop at the first exception. -/
def runCallback (obj : LState → JVal → LRes LVal) (c : Nat) : LState → List Nat → LState × Bool
  | st, [] => (st, true)
  | st, k :: rest =>
    match findPend st.pend c k with
    | none => runCallback obj c st rest      -- resolved meanwhile by a re-entrant run
    | some src =>
      match obj st src with
      | (st1, Except.error _) => (st1, false)
      | (st1, Except.ok v) =>
        runCallback obj c { st1 with heap := setField st1.heap c k v, pend := removePend st1.pend c k } rest

/-- `_try_callbacks`: `for callback in self._callbacks[:]` — exceptions are swallowed, successful
callbacks are removed. -/
def tryCallbacks (obj : LState → JVal → LRes LVal) : LState → List Nat → LState
  | st, [] => st
  | st, c :: rest =>
    let ks := (st.pend.filter (fun e => e.1 == c)).map (fun e => e.2.1)
    match runCallback obj c st ks with
    | (st1, true) => tryCallbacks obj { st1 with callbacks := st1.callbacks.erase c } rest
    | (st1, false) => tryCallbacks obj st1 rest

/-- `_try_callbacks` as repaired by fix F5i: nothing is tried while an object is still under
construction (`_working` non-empty). -/
def tryCallbacksIfIdle (obj : LState → JVal → LRes LVal) (st : LState) : LState :=
  if st.working.isEmpty then tryCallbacks obj st st.callbacks else st

/-- `GlueUnSerializer.object`.  Errors do not roll the state back (python exceptions unwind, the
mutations stay): only the `finally` clause's removal from `_working` is performed. -/
def object (T : Table) : Nat → LState → JVal → LRes LVal
  | 0, st, _ => (st, .error .fuel)
  | f + 1, st, j =>
    match j with
    | .lit n => (st, .ok (.lit n))
    | .str s =>
      if isLiteralStr s then (st, .ok (.str (s.drop 4)))
      else
        match lookupMemo st.memo s with
        | some i => (st, .ok (.ref i))
        | none =>
          match lookupRec T s with
          | none => (st, .error .unrecognized)
          | some (.obj cls flds) =>
            if st.working.contains s then (st, .error .circular) else
            match loadRec (object T f) (some s) { st with working := s :: st.working } cls flds with
            | (st2, Except.error e) => ({ st2 with working := st2.working.erase s }, .error e)
            | (st2, Except.ok i) =>
              let st3 := { st2 with working := st2.working.erase s }
              (tryCallbacksIfIdle (object T f) st3, .ok (.ref i))
          | some _ => (st, .error .malformed)
    | .obj cls flds =>
      match loadRec (object T f) none st cls flds with
      | (st2, Except.error e) => (st2, .error e)
      | (st2, Except.ok i) => (tryCallbacksIfIdle (object T f) st2, .ok (.own i))

def initL : LState := { memo := [], working := [], heap := [], callbacks := [], pend := [] }

/-- `GlueUnSerializer.loads(text).object('__main__')` -/
def unserialize (T : Table) (fuel : Nat) : LRes LVal := object T fuel initL (.str mainName)

/-! ## Observation by name (what the Spec compares)

For every registered name, what the object of that name looks like: its class and its fields, with
references written as *names*.  Before the trip the names come from the serializer's registry,
after the trip from the un-serializer's memo table.  Inlined objects are described in place. -/

/-- One token of a description; an object is `open cls k` followed by the tokens of its `k` fields
(pre-order with arities: an unambiguous flat rendering of the tree, with decidable equality). -/
inductive Tok where
  | lit (n : Int)
  | str (s : Str)
  | ref (name : Str)
  | opn (cls : Nat) (k : Nat)   -- an object (top-level or inlined) with `k` fields
  | pending
  | anon                        -- a reference to an object that has no name / dangling / too deep
  deriving DecidableEq, Repr, Inhabited

abbrev Desc := List Tok

/-- tokens of one field value of a heap object (`rec` describes an inlined object) -/
def tokVWith (reg : Reg) (rec : Nat → Desc) : Val → Desc
  | .lit n => [Tok.lit n]
  | .str s => [Tok.str s]
  | .ref p => match lookupName reg p with | some n => [Tok.ref n] | none => [Tok.anon]
  | .own p => rec p

/-- Expected description of heap object `o` under the naming `reg` (fuel for inlined nesting). -/
def descObj (h : Heap) (reg : Reg) : Nat → Nat → Desc
  | 0, _ => [.anon]
  | f + 1, o =>
    match h[o]? with
    | none => [.anon]
    | some ob =>
      .opn ob.cls ob.fields.length :: (ob.fields.map fun fld => tokVWith reg (descObj h reg f) fld.val).flatten

def nameOfIdx : List (Str × Nat) → Nat → Option Str
  | [], _ => none
  | (n, i) :: r, j => if i = j then some n else nameOfIdx r j

/-- tokens of one field value of a restored object -/
def tokLWith (memo : List (Str × Nat)) (rec : Nat → Desc) : LVal → Desc
  | .lit n => [Tok.lit n]
  | .str s => [Tok.str s]
  | .ref j => match nameOfIdx memo j with | some n => [Tok.ref n] | none => [Tok.anon]
  | .own j => rec j
  | .pending => [Tok.pending]

/-- Description of restored object `i` under the un-serializer's memo table. -/
def descL (heap : List LObj) (memo : List (Str × Nat)) : Nat → Nat → Desc
  | 0, _ => [.anon]
  | f + 1, i =>
    match heap[i]? with
    | none => [.anon]
    | some lo =>
      .opn lo.cls lo.fields.length :: (lo.fields.map (tokLWith memo (descL heap memo f))).flatten

abbrev View := List (Str × Desc)

def viewBefore (h : Heap) (reg : Reg) : View :=
  reg.map fun e => (e.2, descObj h reg (h.length + 1) e.1)

def viewAfter (reg : Reg) (st : LState) : View :=
  reg.map fun e => (e.2, match lookupMemo st.memo e.2 with
    | some i => descL st.heap st.memo (st.heap.length + 1) i
    | none => [.anon])

/-- Distinct names are distinct restored objects (and every name is restored). -/
def memoDistinct (reg : Reg) (st : LState) : Bool :=
  let idx := reg.filterMap fun e => lookupMemo st.memo e.2
  idx.length == reg.length && decide idx.Nodup

/-- The Spec of the framework round trip: every name is restored, distinct names are distinct
objects, every restored object has the class and the fields (literals, strings, references *by
name*, inlined objects structurally) of the object that was saved under that name, and nothing is
left pending. -/
def specRoundTrip (h : Heap) (reg : Reg) (st : LState) : Bool :=
  memoDistinct reg st && decide (viewAfter reg st = viewBefore h reg)

/-! ## Hypotheses of the theorems (decidable) -/

def Val.target : Val → Option Nat
  | .ref p => some p
  | .own p => some p
  | _ => none

def wellFormed (h : Heap) (main : Nat) : Bool :=
  decide (main < h.length) &&
    h.all fun ob => ob.fields.all fun f => match f.val.target with | some p => decide (p < h.length) | none => true

/-- no inlined objects -/
def noOwn (h : Heap) : Bool := h.all fun ob => ob.fields.all fun f => match f.val with | .own _ => false | _ => true

/-! ### inlined (`context.do`) sub-objects: a forest below the named objects -/

/-- some field of some object inlines `p` -/
def isInlined (h : Heap) (p : Nat) : Bool := h.any fun ob => ob.fields.any fun f => f.val == .own p

/-- some field of some object refers to `p` by name -/
def isRefTarget (h : Heap) (p : Nat) : Bool := h.any fun ob => ob.fields.any fun f => f.val == .ref p

/-- number of fields (of all objects) that inline `p` -/
def ownInDegree (h : Heap) (p : Nat) : Nat :=
  (h.map fun ob => (ob.fields.filter fun f => f.val == .own p).length).sum

/-- Inlined objects form a forest below the named objects — how glue uses `context.do` (styles, arrays,
slices, ROIs inside states …): every inline edge strictly decreases `idep` (no inline cycle; `idep` is
bounded by the heap, which is the recursion depth `do` gets), an inline edge is never read in a callback,
and an inlined object is inlined exactly once, is never referred to by name, is not `main`, and its
class has a plain loader. -/
def inlineForestBy (idep : Nat → Nat) (h : Heap) (main : Nat) : Bool :=
  (List.range h.length).all fun o =>
    decide (idep o ≤ h.length) &&
    (match h[o]? with
      | none => true
      | some ob => ob.fields.all fun f => match f.val with
        | .own p => decide (idep p < idep o) && f.phase != .cb
        | _ => true) &&
    (!isInlined h o ||
      (o != main && !isRefTarget h o && ownInDegree h o == 1 &&
        match h[o]? with
        | none => true
        | some ob => ob.fields.all fun f => f.phase == .early))

/-- longest chain of inline edges below `o` (with fuel): the driver's candidate for `idep`;
`inlineForestBy (ownHeight h (h.length + 1)) h main` then *checks* it -/
def ownHeight (h : Heap) : Nat → Nat → Nat
  | 0, _ => 0
  | f + 1, o =>
    match h[o]? with
    | none => 0
    | some ob => (ob.fields.map fun fl => match fl.val with | .own p => ownHeight h f p + 1 | _ => 0).foldl max 0

/-- every loader is a plain function (no generator, no callback) -/
def allEarly (h : Heap) : Bool := h.all fun ob => ob.fields.all fun f => f.phase == .early

/-- every edge strictly decreases `rank` (an acyclic graph, sharing allowed) -/
def acyclicBy (rank : Nat → Nat) (h : Heap) : Bool :=
  (List.range h.length).all fun o =>
    match h[o]? with
    | none => true
    | some ob => ob.fields.all fun f => match f.val.target with | some p => decide (rank p < rank o) | none => true

/-- longest path below `o` (with fuel): the driver's candidate rank function; `acyclicBy (height h n) h`
then *checks* that it is one -/
def height (h : Heap) : Nat → Nat → Nat
  | 0, _ => 0
  | f + 1, o =>
    match h[o]? with
    | none => 0
    | some ob => (ob.fields.map fun fl => match fl.val.target with | some p => height h f p + 1 | none => 0).foldl max 0

/-- decidable acyclicity used by the driver: all paths from `o` are shorter than the fuel -/
def depthOk (h : Heap) : Nat → Nat → Bool
  | 0, _ => false
  | f + 1, o =>
    match h[o]? with
    | none => true
    | some ob => ob.fields.all fun fl => match fl.val.target with | some p => depthOk h f p | none => true

/-- Early edges strictly decrease the rank, late edges do not increase it: cycles exist, but every
cycle consists of late (post-`yield`) edges only. -/
def lateCyclesBy (rank : Nat → Nat) (h : Heap) : Bool :=
  (List.range h.length).all fun o =>
    match h[o]? with
    | none => true
    | some ob => ob.fields.all fun f =>
      match f.val.target, f.phase with
      | some p, .early => decide (rank p < rank o)
      | some p, _ => decide (rank p ≤ rank o)
      | none, _ => true

/-- no class has a `__setgluestate_callback__` field -/
def noCb (h : Heap) : Bool := h.all fun ob => ob.fields.all fun f => f.phase != .cb

/-- a class with a generator loader never gets its callback registered (`hasattr` is tested on the
generator object): no class has both late and callback fields -/
def noGenCb (h : Heap) : Bool :=
  h.all fun ob => !(ob.fields.any (fun f => f.phase == .late) && ob.fields.any (fun f => f.phase == .cb))

/-- `main`'s loader is a plain function (glue: `DataCollection`, `Application`) -/
def mainPlain (h : Heap) (main : Nat) : Bool :=
  match h[main]? with
  | some ob => ob.fields.all fun f => f.phase != .late
  | none => true

/-- early edges strictly decrease the rank, late edges do not increase it, callback edges are free -/
def cyclesBy (rank : Nat → Nat) (h : Heap) : Bool :=
  (List.range h.length).all fun o =>
    match h[o]? with
    | none => true
    | some ob => ob.fields.all fun f =>
      match f.val.target, f.phase with
      | some p, .early => decide (rank p < rank o)
      | some p, .late => decide (rank p ≤ rank o)
      | _, _ => true

/-- every object hangs below `main` through non-callback edges — references or inlined records
(`dist` decreases towards `main`) -/
def coveredBy (dist : Nat → Nat) (h : Heap) (main : Nat) : Bool :=
  (List.range h.length).all fun o =>
    o == main ||
      (List.range h.length).any fun q =>
        match h[q]? with
        | none => false
        | some obq => decide (dist q < dist o) &&
            obq.fields.any fun f => f.phase != .cb && f.val.target == some o

/-- One relaxation step of "largest number of early edges on a path below `o`" (callback edges ignored). -/
def relaxRanks (h : Heap) (r : List Nat) : List Nat :=
  h.map fun ob => (ob.fields.map fun f =>
    match f.val.target with
    | some p => if f.phase == .cb then 0 else r.getD p 0 + (if f.phase == .early then 1 else 0)
    | none => 0).foldl max 0

def iterRanks (h : Heap) : Nat → List Nat
  | 0 => h.map fun _ => 0
  | k + 1 => relaxRanks h (iterRanks h k)

/-- The driver's candidate rank for graphs with late-edge cycles; `lateCyclesBy (candidateRank h) h`
then *checks* that it is one. -/
def candidateRank (h : Heap) : Nat → Nat := fun o => (iterRanks h (h.length + 1)).getD o 0

/-- One relaxation step of the breadth-first distance from `main` along non-callback references. -/
def relaxDist (h : Heap) (main : Nat) (d : List Nat) : List Nat :=
  (List.range h.length).map fun o =>
    if o == main then 0 else
      ((List.range h.length).map fun q =>
        match h[q]? with
        | some obq => if obq.fields.any (fun f => f.phase != .cb && f.val.target == some o) then d.getD q (h.length + 1) + 1
                      else h.length + 1
        | none => h.length + 1).foldl min (d.getD o (h.length + 1))

def iterDist (h : Heap) (main : Nat) : Nat → List Nat
  | 0 => (List.range h.length).map fun o => if o == main then 0 else h.length + 1
  | k + 1 => relaxDist h main (iterDist h main k)

/-- The driver's candidate distance; `coveredBy (candidateDist h main) h main` checks it. -/
def candidateDist (h : Heap) (main : Nat) : Nat → Nat := fun o => (iterDist h main (h.length + 1)).getD o (h.length + 1)

/-! ## Saver / loader dispatch over a class table -/

structure ClassRow where
  id : Nat
  mro : List Nat        -- `type(obj).mro()` as class ids, the class itself first
  ownSave : Bool        -- `__gluestate__` in the class's own `__dict__`
  ownLoad : Bool        -- `__setgluestate__` in the class's own `__dict__`
  regSave : Bool        -- the class is a key of `GlueSerializer.dispatch`
  regLoad : Bool        -- the class is a key of `GlueUnSerializer.dispatch`
  concrete : Bool       -- not `inspect.isabstract`
  deriving DecidableEq, Repr, Inhabited

def rowOf (tbl : List ClassRow) (c : Nat) : Option ClassRow := tbl.find? (fun r => r.id == c)

def firstWith (tbl : List ClassRow) (p : ClassRow → Bool) : List Nat → Option Nat
  | [] => none
  | c :: rest => match rowOf tbl c with
    | some r => if p r then some c else firstWith tbl p rest
    | none => firstWith tbl p rest

/-- `GlueSerializer._dispatch`: `hasattr(obj, '__gluestate__')` (the attribute lookup walks the MRO)
wins over the registry; the registry is searched along the MRO.  Returns the *owner* of the
function that will run. -/
def selectSaver (tbl : List ClassRow) (r : ClassRow) : Option Nat :=
  match firstWith tbl (·.ownSave) r.mro with
  | some c => some c
  | none => firstWith tbl (·.regSave) r.mro

/-- `GlueUnSerializer._dispatch` (same shape, on `__setgluestate__` / the loader registry). -/
def selectLoader (tbl : List ClassRow) (r : ClassRow) : Option Nat :=
  match firstWith tbl (·.ownLoad) r.mro with
  | some c => some c
  | none => firstWith tbl (·.regLoad) r.mro

/-- What `no_silent_fallthrough` demands of one concrete class: saver and loader come from the same
class, and that class is the class itself, or a base whose pair is declared subclass-faithful
(its loader re-instantiates the saved `_type`), or the class is declared to refuse loudly at save
time. -/
def rowOk (tbl : List ClassRow) (faithful loud : List Nat) (r : ClassRow) : Bool :=
  !r.concrete || loud.contains r.id ||
    match selectSaver tbl r, selectLoader tbl r with
    | some s, some l => s == l && (s == r.id || faithful.contains s)
    | none, _ => true          -- no saver at all: GlueSerializeError at save time (loud)
    | some _, none => false    -- saved but cannot be loaded

def offenders (tbl : List ClassRow) (faithful loud : List Nat) : List Nat :=
  (tbl.filter fun r => !rowOk tbl faithful loud r).map (·.id)

/-- The base pairs that are subclass-faithful, by the name `GlueSerializer.do` writes as `_type`.
Each (base, subclass) use of this list is validated behaviourally by the `cls` family. -/
def declaredFaithful : List String := [
  "glue.core.subset.CompositeSubsetState",      -- loader: cls = lookup(rec['_type']); cls(state1, state2)
  "glue.core.subset.SliceSubsetState",          -- classmethod loader: cls(reference_data, slices)
  "glue.core.component.Component",              -- loader: cls = lookup(rec['_type']); cls(data=, units=)
  "glue.core.roi.RangeROI",                     -- classmethod loader, special-cases XRangeROI / YRangeROI
  "glue.core.roi.VertexROIBase",                -- classmethod loader: cls(vx=, vy=)
  "glue.core.coordinates.Coordinates",          -- classmethod loader: cls()
  "glue.core.link_helpers.LinkCollection",      -- classmethod loader: cls(data1=, data2=, cids1=, cids2=)
  "glue.core.link_helpers.LinkTwoWay"           -- classmethod loader: cls(cid1, cid2, forwards, backwards)
]

/-- Concrete classes that are known to refuse at save time (loud, allowed by the property). -/
def declaredLoud : List String := [
  "glue.core.roi.Roi",                          -- abstract in spirit: saver raises NotImplementedError
  "glue.core.roi.PointROI",                     -- inherits the refusing Roi saver
  "glue.core.subset.CompositeSubsetState",      -- op = None: never instantiated by glue
  "glue.core.component.DaskComponent",          -- no saver for dask arrays: GlueSerializeError
  "glue.core.link_helpers.BaseMultiLink"        -- forwards/backwards are abstract
  -- (MultiLink / OffsetLink / AffineLink were listed here until the C12 repair F-C12d gave them working
  --  pairs: they are now ordinary classes with their own saver and loader, validated by `cls`/`sess`)
]

end GlueVerif.C02
