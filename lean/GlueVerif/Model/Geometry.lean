import GlueVerif.Model.ArrayUtil
/-!
# L6 — region-of-interest geometry over exact rationals (core Lean only)

Model of `glue/core/roi.py` (`RectangularROI`, `CircularROI`, `CircularAnnulusROI`, `EllipticalROI`,
`RangeROI`, `PolygonalROI`, `CategoricalROI`, `Projected3dROI`) and of
`glue/utils/geometry.py::points_inside_poly`.

* `Impl.*` is the code that exists: the three θ-branches selected by `np.isclose`, the bounding-box
  prefilters, `<` versus `<=`, the `sqrt`-free form of the annulus test, matplotlib's crossing test
  (Haines) with its `< 3 vertices` early exit, the polygon centre as coded (mean / shoelace area /
  centroid), `move_to`, `rotate_to`, `copy`, `__gluestate__`/`__setgluestate__`, the chunk loop of
  `Projected3dROI.contains3d`.
* `Spec.*` is what property C08 demands: the geometric definition of each region
  (`|R(−θ)(p − c)|ₓ < w/2 ∧ … < h/2`, `x'²/rx² + y'²/ry² < 1`, even-odd rule, …) and the rigid
  motions that `move_to` / `rotate_to` must realise.
* `near r p ε` is a decidable band that contains every point within `ε` of the region's boundary;
  implementation (IEEE doubles) and model (exact `Rat`) are only compared outside it.

A rotation angle is given by an exact rational unit vector `(c, s) = (cos θ, sin θ)` (Pythagorean
triples and the exact quarter turns); the harness passes `θ = atan2(s, c)` to Python.
A point coordinate is `Option Rat`: `none` stands for NaN / ±inf.
-/
namespace GlueVerif.Geometry

abbrev Pt := Rat × Rat

/-- Point with possibly non-finite coordinates (`none` = NaN or ±inf). -/
abbrev PtO := Option Rat × Option Rat

def rmin (a b : Rat) : Rat := if a ≤ b then a else b
def rmax (a b : Rat) : Rat := if a ≤ b then b else a

/-- `abs(x) <= a` without `abs`. -/
def absLe (x a : Rat) : Bool := decide (-a ≤ x) && decide (x ≤ a)
/-- `abs(x) < a`. -/
def absLt (x a : Rat) : Bool := decide (-a < x) && decide (x < a)

/-! ## Branch selection of `RectangularROI.contains` / `EllipticalROI.contains` -/

/-- `atol` of the `np.isclose(theta % …, 0.0, atol=1e-9)` tests. -/
def tol : Rat := 1 / 1000000000

/-- `np.isclose(theta % pi, 0, atol=1e-9)` on the unit vector `(c, s) = (cos θ, sin θ)`:
`θ = kπ + δ` with `0 ≤ δ ≤ 1e-9`, i.e. `tan δ = s/c ∈ [0, tol]` (the model uses `tan δ ≤ tol`
instead of `δ ≤ tol`; the harness never generates angles within 0.1 % of the threshold). -/
def closeAxis (c s : Rat) : Bool := decide (0 ≤ s * c) && decide (s * s ≤ tol * tol * (c * c))

/-- `np.isclose(theta % (pi/2), 0, atol=1e-9)` when the first test failed:
`θ = π/2 + kπ + δ`, `0 ≤ δ ≤ 1e-9`. -/
def closeQuarter (c s : Rat) : Bool := decide (s * c ≤ 0) && decide (c * c ≤ tol * tol * (s * s))

inductive Branch | axis | quarter | general
  deriving DecidableEq, Repr

def branchOf (c s : Rat) : Branch :=
  if closeAxis c s then .axis else if closeQuarter c s then .quarter else .general

/-- Offset `d` expressed in the frame rotated by `θ`: `R(−θ) d` with
`R(−θ) = [[c, s], [−s, c]]` (`rotation_matrix_2d(-theta)`). -/
def unrot (c s : Rat) (d : Pt) : Pt := (c * d.1 + s * d.2, -s * d.1 + c * d.2)

/-- `R(θ) d`. -/
def rot (c s : Rat) (d : Pt) : Pt := (c * d.1 - s * d.2, s * d.1 + c * d.2)

/-- `(x >= x0) & (x <= x1) & (y >= y0) & (y <= y1)`. -/
def inBox (b : Rat × Rat × Rat × Rat) (p : Pt) : Bool :=
  decide (b.1 ≤ p.1) && decide (p.1 ≤ b.2.1) && decide (b.2.2.1 ≤ p.2) && decide (p.2 ≤ b.2.2.2)

/-! ## Rectangle -/

structure Rect where
  xmin : Rat
  xmax : Rat
  ymin : Rat
  ymax : Rat
  c : Rat
  s : Rat
  deriving DecidableEq, Repr

namespace Rect
def width (r : Rect) : Rat := r.xmax - r.xmin
def height (r : Rect) : Rat := r.ymax - r.ymin
/-- `center()`: `xmin + width/2, ymin + height/2`. -/
def center (r : Rect) : Pt := (r.xmin + r.width / 2, r.ymin + r.height / 2)
/-- Coordinates of `p` in the rectangle's own frame: `R(−θ)(p − center)`. -/
def loc (r : Rect) (p : Pt) : Pt := unrot r.c r.s (p.1 - r.center.1, p.2 - r.center.2)
/-- One rotated corner: `R(θ)(a, b) + center` (`to_polygon`, rotated branch). -/
def corner (r : Rect) (a b : Rat) : Pt :=
  ((rot r.c r.s (a, b)).1 + r.center.1, (rot r.c r.s (a, b)).2 + r.center.2)
def corners (r : Rect) : List Pt :=
  [r.corner (-(r.width / 2)) (-(r.height / 2)), r.corner (r.width / 2) (-(r.height / 2)),
   r.corner (r.width / 2) (r.height / 2), r.corner (-(r.width / 2)) (r.height / 2)]
def bxmin (r : Rect) : Rat :=
  rmin (rmin (r.corner (-(r.width / 2)) (-(r.height / 2))).1 (r.corner (r.width / 2) (-(r.height / 2))).1)
       (rmin (r.corner (r.width / 2) (r.height / 2)).1 (r.corner (-(r.width / 2)) (r.height / 2)).1)
def bxmax (r : Rect) : Rat :=
  rmax (rmax (r.corner (-(r.width / 2)) (-(r.height / 2))).1 (r.corner (r.width / 2) (-(r.height / 2))).1)
       (rmax (r.corner (r.width / 2) (r.height / 2)).1 (r.corner (-(r.width / 2)) (r.height / 2)).1)
def bymin (r : Rect) : Rat :=
  rmin (rmin (r.corner (-(r.width / 2)) (-(r.height / 2))).2 (r.corner (r.width / 2) (-(r.height / 2))).2)
       (rmin (r.corner (r.width / 2) (r.height / 2)).2 (r.corner (-(r.width / 2)) (r.height / 2)).2)
def bymax (r : Rect) : Rat :=
  rmax (rmax (r.corner (-(r.width / 2)) (-(r.height / 2))).2 (r.corner (r.width / 2) (-(r.height / 2))).2)
       (rmax (r.corner (r.width / 2) (r.height / 2)).2 (r.corner (-(r.width / 2)) (r.height / 2)).2)
/-- `(min x, max x, min y, max y)` of the rotated corners (`bounds = self.to_polygon()`). -/
def bbox (r : Rect) : Rat × Rat × Rat × Rat := (r.bxmin, r.bxmax, r.bymin, r.bymax)
/-- The bounding-box prefilter `keep` of the rotated branch. -/
def keep (r : Rect) (p : Pt) : Bool := inBox r.bbox p
end Rect

namespace Impl
/-- `RectangularROI.contains` on one finite point, branch by branch as coded. -/
def rectContains (r : Rect) (p : Pt) : Bool :=
  match branchOf r.c r.s with
  | .axis =>
    decide (r.xmin < p.1) && decide (p.1 < r.xmax) && decide (r.ymin < p.2) && decide (p.2 < r.ymax)
  | .quarter =>
    decide (r.center.1 - r.height / 2 < p.1) && decide (p.1 < r.center.1 + r.height / 2) &&
    decide (r.center.2 - r.width / 2 < p.2) && decide (p.2 < r.center.2 + r.width / 2)
  | .general =>
    r.keep p && absLe (r.loc p).1 (r.width / 2) && absLe (r.loc p).2 (r.height / 2)
end Impl

namespace Spec
/-- The geometric definition: `|R(−θ)(p − c)|ₓ < w/2 ∧ |R(−θ)(p − c)|ᵧ < h/2`. -/
def rectContains (r : Rect) (p : Pt) : Bool :=
  absLt (r.loc p).1 (r.width / 2) && absLt (r.loc p).2 (r.height / 2)
end Spec

/-- Band of half-width `ε` (∞-norm, in the rectangle's frame) around the rectangle's boundary. -/
def Rect.near (r : Rect) (p : Pt) (ε : Rat) : Bool :=
  let q := r.loc p
  let hw := r.width / 2
  let hh := r.height / 2
  ((absLe (q.1 - hw) ε || absLe (q.1 + hw) ε) && absLe q.2 (hh + ε)) ||
  ((absLe (q.2 - hh) ε || absLe (q.2 + hh) ε) && absLe q.1 (hw + ε))

/-- How far the answer of the branch actually taken can be from the geometric definition, as a
boundary displacement: the axis/quarter branches ignore a rotation of up to `1e-9` rad. -/
def Rect.branchTol (r : Rect) : Rat :=
  match branchOf r.c r.s with
  | .axis => rmax (if r.s < 0 then -r.s else r.s) 0 * rmax (rmax r.width r.height) 0 / 2
  | .quarter => rmax (if r.c < 0 then -r.c else r.c) 0 * rmax (rmax r.width r.height) 0 / 2
  | .general => 0

/-! ## Circle, annulus, range -/

structure Circle where
  xc : Rat
  yc : Rat
  r : Rat
  deriving DecidableEq, Repr

def dist2 (xc yc : Rat) (p : Pt) : Rat := (p.1 - xc) * (p.1 - xc) + (p.2 - yc) * (p.2 - yc)

namespace Impl
/-- `(x - xc) ** 2 + (y - yc) ** 2 < radius ** 2`. -/
def circleContains (c : Circle) (p : Pt) : Bool := decide (dist2 c.xc c.yc p < c.r * c.r)
end Impl

def Circle.near (c : Circle) (p : Pt) (ε : Rat) : Bool :=
  decide (dist2 c.xc c.yc p ≤ (c.r + ε) * (c.r + ε)) &&
  (decide (c.r - ε ≤ 0) || decide ((c.r - ε) * (c.r - ε) ≤ dist2 c.xc c.yc p))

structure Annulus where
  xc : Rat
  yc : Rat
  rin : Rat
  rout : Rat
  deriving DecidableEq, Repr

/-- `CircularAnnulusROI.defined()`: `inner_radius > 0 and outer_radius > inner_radius`. -/
def Annulus.defined (a : Annulus) : Bool := decide (0 < a.rin) && decide (a.rin < a.rout)

namespace Impl
/-- `r = sqrt(dx*dx + dy*dy); (r >= inner) & (r < outer)` — for `0 < inner < outer` (guaranteed by
`defined()`), compared on squares (`sqrt` is monotone and exact on squares). -/
def annulusContains (a : Annulus) (p : Pt) : Bool :=
  decide (a.rin * a.rin ≤ dist2 a.xc a.yc p) && decide (dist2 a.xc a.yc p < a.rout * a.rout)
end Impl

def Annulus.near (a : Annulus) (p : Pt) (ε : Rat) : Bool :=
  Circle.near ⟨a.xc, a.yc, a.rin⟩ p ε || Circle.near ⟨a.xc, a.yc, a.rout⟩ p ε

structure Range where
  isX : Bool
  lo : Rat
  hi : Rat
  deriving DecidableEq, Repr

namespace Impl
/-- `(coord > min) & (coord < max)`. -/
def rangeContains (r : Range) (p : Pt) : Bool :=
  decide (r.lo < (if r.isX then p.1 else p.2)) && decide ((if r.isX then p.1 else p.2) < r.hi)
end Impl

def Range.near (r : Range) (p : Pt) (ε : Rat) : Bool :=
  absLe ((if r.isX then p.1 else p.2) - r.lo) ε || absLe ((if r.isX then p.1 else p.2) - r.hi) ε

/-! ## Ellipse -/

structure Ellipse where
  xc : Rat
  yc : Rat
  rx : Rat
  ry : Rat
  c : Rat
  s : Rat
  deriving DecidableEq, Repr

/-- `x ** 2 / rx ** 2 + y ** 2 / ry ** 2`. -/
def ellF (x y rx ry : Rat) : Rat := x * x / (rx * rx) + y * y / (ry * ry)

namespace Ellipse
def center (e : Ellipse) : Pt := (e.xc, e.yc)
def loc (e : Ellipse) (p : Pt) : Pt := unrot e.c e.s (p.1 - e.xc, p.2 - e.yc)
/-- `bounds()` in the rotated branch: a square of half-side `max(radius_x, radius_y)`. -/
def keep (e : Ellipse) (p : Pt) : Bool :=
  decide (e.xc - rmax e.rx e.ry ≤ p.1) && decide (p.1 ≤ e.xc + rmax e.rx e.ry) &&
  decide (e.yc - rmax e.rx e.ry ≤ p.2) && decide (p.2 ≤ e.yc + rmax e.rx e.ry)
end Ellipse

namespace Impl
/-- `EllipticalROI.contains` on one finite point.  A zero semi-axis makes numpy divide by zero
(`inf`/`nan`), and `inf < 1`, `nan < 1` are false: the region is empty. -/
def ellipseContains (e : Ellipse) (p : Pt) : Bool :=
  if e.rx = 0 ∨ e.ry = 0 then false else
  match branchOf e.c e.s with
  | .axis => decide (ellF (p.1 - e.xc) (p.2 - e.yc) e.rx e.ry < 1)
  | .quarter => decide (ellF (p.1 - e.xc) (p.2 - e.yc) e.ry e.rx < 1)
  | .general => e.keep p && decide (ellF (e.loc p).1 (e.loc p).2 e.rx e.ry < 1)
end Impl

namespace Spec
/-- `x'²/rx² + y'²/ry² < 1` with `(x', y') = R(−θ)(p − c)`; empty for a zero semi-axis. -/
def ellipseContains (e : Ellipse) (p : Pt) : Bool :=
  if e.rx = 0 ∨ e.ry = 0 then false else decide (ellF (e.loc p).1 (e.loc p).2 e.rx e.ry < 1)
end Spec

/-- Band around the ellipse: between the ellipse scaled by `1 − ε/m` and by `1 + ε/m`,
`m = min(rx, ry)`.  Contains every point within `ε` of the boundary
(`(1±t)E = E ± tE ⊇ E ± B(tm)`). -/
def Ellipse.near (e : Ellipse) (p : Pt) (ε : Rat) : Bool :=
  if e.rx ≤ 0 ∨ e.ry ≤ 0 then true else
  let t := ε / rmin e.rx e.ry
  let f := ellF (e.loc p).1 (e.loc p).2 e.rx e.ry
  decide (f ≤ (1 + t) * (1 + t)) && (decide (1 - t ≤ 0) || decide ((1 - t) * (1 - t) ≤ f))

/-- What the un-rotated branches ignore when they are taken for a tilt `δ ≤ 1e-9`, as a band width:
`2·|sin δ|·max(rx,ry)²/min(rx,ry)` (0 for exact quarter turns and in the general branch). -/
def Ellipse.branchTol (e : Ellipse) : Rat :=
  match branchOf e.c e.s with
  | .axis => 2 * (if e.s < 0 then -e.s else e.s) * (rmax e.rx e.ry * rmax e.rx e.ry) / rmin e.rx e.ry
  | .quarter => 2 * (if e.c < 0 then -e.c else e.c) * (rmax e.rx e.ry * rmax e.rx e.ry) / rmin e.rx e.ry
  | .general => 0

/-! ## Polygon: matplotlib's crossing test and glue's bounding-box prefilter -/

/-- One edge `a → b` of the Haines crossing test used by matplotlib's `point_in_path`:
`yflag0 = (vty0 >= ty)`, `yflag1 = (vty1 >= ty)`; the edge toggles the flag iff the flags differ and
`((vty1-ty)*(vtx0-vtx1) >= (vtx1-tx)*(vty0-vty1)) == yflag1`. -/
def edgeCross (p a b : Pt) : Bool :=
  (decide (p.2 ≤ a.2) != decide (p.2 ≤ b.2)) &&
  (decide ((b.1 - p.1) * (a.2 - b.2) ≤ (b.2 - p.2) * (a.1 - b.1)) == decide (p.2 ≤ b.2))

/-- Parity of crossings along the open path `a, v₁, v₂, …`. -/
def crossPath (p : Pt) : Pt → List Pt → Bool
  | _, [] => false
  | a, b :: rest => edgeCross p a b != crossPath p b rest

/-- Even-odd rule: parity of the crossings of the closed polygon with the ray from `p` towards `+x`. -/
def crossParity (vs : List Pt) (p : Pt) : Bool :=
  match vs with
  | [] => false
  | v0 :: rest => crossPath p v0 (rest ++ [v0])

def minList (x : Rat) (xs : List Rat) : Rat := xs.foldl rmin x
def maxList (x : Rat) (xs : List Rat) : Rat := xs.foldl rmax x

structure Poly where
  vs : List Pt
  /-- the stored position angle `theta` (only used by `rotate_to`, which is relative to it) -/
  c : Rat := 1
  s : Rat := 0
  deriving DecidableEq, Repr

/-- `(min vx, max vx, min vy, max vy)`. -/
def polyBBox (vs : List Pt) : Option (Rat × Rat × Rat × Rat) :=
  match vs with
  | [] => none
  | v :: rest =>
    some (minList v.1 (rest.map (·.1)), maxList v.1 (rest.map (·.1)),
          minList v.2 (rest.map (·.2)), maxList v.2 (rest.map (·.2)))

/-- `keep` of `points_inside_poly`: inside the closed bounding box of the vertices. -/
def polyKeep (vs : List Pt) (p : Pt) : Bool :=
  match polyBBox vs with
  | none => false
  | some b => inBox b p

namespace Impl
/-- `points_inside_poly`: bbox prefilter, then `Path.contains_points` (which answers `False` for a
path with fewer than three vertices). -/
def polyContains (vs : List Pt) (p : Pt) : Bool :=
  polyKeep vs p && decide (3 ≤ vs.length) && crossParity vs p
end Impl

namespace Spec
/-- Even-odd rule. -/
def polyContains (vs : List Pt) (p : Pt) : Bool := crossParity vs p
end Spec

/-- Squared distance from `p` to the segment `[a, b]`. -/
def segDist2 (p a b : Pt) : Rat :=
  let ux := b.1 - a.1
  let uy := b.2 - a.2
  let wx := p.1 - a.1
  let wy := p.2 - a.2
  let L := ux * ux + uy * uy
  if L = 0 then wx * wx + wy * wy else
  let t := (wx * ux + wy * uy) / L
  let t' := if t < 0 then 0 else if 1 < t then 1 else t
  (wx - t' * ux) * (wx - t' * ux) + (wy - t' * uy) * (wy - t' * uy)

def nearPath (p : Pt) (ε : Rat) : Pt → List Pt → Bool
  | _, [] => false
  | a, b :: rest => decide (segDist2 p a b ≤ ε * ε) || nearPath p ε b rest

/-- Within `ε` of some edge (including the closing edge). -/
def polyNear (vs : List Pt) (p : Pt) (ε : Rat) : Bool :=
  match vs with
  | [] => false
  | v0 :: rest => nearPath p ε v0 (rest ++ [v0])

/-! ### Polygon centre as coded (after the F16 repair of the closed-polygon test) -/

def sumList (xs : List Rat) : Rat := xs.foldr (· + ·) 0

/-- `_closed()`: the start vertex is repeated at the end. -/
def polyClosed (vs : List Pt) : Bool :=
  decide (1 < vs.length) && (vs.head? == vs.getLast?)

/-- Vertices entering `mean()` / `centroid()`: without the repeated end vertex. -/
def polyCore (vs : List Pt) : List Pt := if polyClosed vs then vs.dropLast else vs

/-- `mean()`. -/
def polyMean (vs : List Pt) : Pt :=
  let core := polyCore vs
  (sumList (core.map (·.1)) / core.length, sumList (core.map (·.2)) / core.length)

/-- `Σᵢ aᵢ × aᵢ₊₁` along an open path (`np.dot(x_[:-1], y_[1:]) - np.dot(y_[:-1], x_[1:])`). -/
def shoelacePath : List Pt → Rat
  | a :: b :: rest => (a.1 * b.2 - a.2 * b.1) + shoelacePath (b :: rest)
  | _ => 0

/-- Offsets from the mean (`x_ = vx - x0`). -/
def offsets (m : Pt) (vs : List Pt) : List Pt := vs.map fun v => (v.1 - m.1, v.2 - m.2)

/-- `area(signed=True)`. -/
def polyAreaSigned (vs : List Pt) : Rat :=
  let o := offsets (polyMean vs) vs
  let main := shoelacePath o
  let closing := if polyClosed vs then 0 else
    match o.getLast?, o.head? with
    | some l, some f => l.1 * f.2 - l.2 * f.1
    | _, _ => 0
  (main + closing) / 2

/-- Σ over cyclic edges `(prev, cur)` of `(prev + cur) * (prev × cur)`, both coordinates. -/
def centroidSum : Pt → List Pt → Pt
  | _, [] => (0, 0)
  | prev, cur :: rest =>
    let d := prev.1 * cur.2 - prev.2 * cur.1
    let r := centroidSum cur rest
    ((prev.1 + cur.1) * d + r.1, (prev.2 + cur.2) * d + r.2)

/-- `centroid()`. -/
def polyCentroid (vs : List Pt) : Pt :=
  if vs.length = 3 then polyMean vs else
  let m := polyMean vs
  let o := offsets m (polyCore vs)
  match o.getLast? with
  | none => m
  | some l =>
    let sums := centroidSum l o
    let scl := 1 / (6 * polyAreaSigned vs)
    (sums.1 * scl + m.1, sums.2 * scl + m.2)

/-- `center()`: the mean for zero-area ("linear") polygons, else the centroid. -/
def polyCenter (vs : List Pt) : Pt :=
  if polyAreaSigned vs = 0 then polyMean vs else polyCentroid vs

/-! ## Categorical -/

/-- `np.searchsorted(categories, x)` (left): number of categories `< x`. -/
def searchSorted (cats : List Int) (x : Int) : Nat := (cats.takeWhile (· < x)).length

namespace Impl
/-- `categories[min(searchsorted(categories, x), len-1)] == x`; empty ROI contains nothing. -/
def catContains (cats : List Int) (x : Int) : Bool :=
  if cats.length = 0 then false else
  cats[min (searchSorted cats x) (cats.length - 1)]? == some x
end Impl

namespace Spec
def catContains (cats : List Int) (x : Int) : Bool := cats.contains x
end Spec

/-! ## The 2-d regions as one type; containment on possibly non-finite points -/

inductive Roi where
  | rect (r : Rect)
  | circle (c : Circle)
  | ellipse (e : Ellipse)
  | annulus (a : Annulus)
  | range (r : Range)
  | poly (p : Poly)
  | undefined
  deriving DecidableEq, Repr

/-- `defined()`; an undefined region raises `UndefinedROI` in `contains`. -/
def Roi.defined : Roi → Bool
  | .annulus a => a.defined
  | .poly p => !p.vs.isEmpty
  | .undefined => false
  | _ => true

namespace Impl
def contains : Roi → Pt → Bool
  | .rect r, p => rectContains r p
  | .circle c, p => circleContains c p
  | .ellipse e, p => ellipseContains e p
  | .annulus a, p => annulusContains a p
  | .range r, p => rangeContains r p
  | .poly g, p => polyContains g.vs p
  | .undefined, _ => false
end Impl

namespace Impl
/-- `contains` with the per-region constants (bounding boxes, centre, half sizes) evaluated once;
this is what the driver maps over a point list.  `containsFn_eq` shows it is the same function. -/
def containsFn (roi : Roi) : Pt → Bool :=
  match roi with
  | .rect r =>
    match branchOf r.c r.s with
    | .general =>
      let b := r.bbox
      let ctr := r.center
      let hw := r.width / 2
      let hh := r.height / 2
      let c := r.c
      let s := r.s
      fun p => inBox b p && absLe (unrot c s (p.1 - ctr.1, p.2 - ctr.2)).1 hw &&
        absLe (unrot c s (p.1 - ctr.1, p.2 - ctr.2)).2 hh
    | _ => rectContains r
  | .poly g =>
    match polyBBox g.vs with
    | none => fun _ => false
    | some b =>
      let n3 := decide (3 ≤ g.vs.length)
      fun p => inBox b p && n3 && crossParity g.vs p
  | roi => contains roi

theorem containsFn_eq (roi : Roi) (p : Pt) : containsFn roi p = contains roi p := by
  cases roi with
  | rect r =>
    simp only [containsFn, contains]
    cases h : branchOf r.c r.s <;> simp [rectContains, h, Rect.keep, Rect.loc]
  | poly g =>
    simp only [containsFn, contains, polyContains, polyKeep]
    split <;> simp_all
  | _ => rfl
end Impl

namespace Spec
/-- What "the true geometric question" is for each class. -/
def contains : Roi → Pt → Bool
  | .rect r, p => rectContains r p
  | .circle c, p => Impl.circleContains c p
  | .ellipse e, p => ellipseContains e p
  | .annulus a, p => Impl.annulusContains a p
  | .range r, p => Impl.rangeContains r p
  | .poly g, p => polyContains g.vs p
  | .undefined, _ => false
end Spec

def Roi.near : Roi → Pt → Rat → Bool
  | .rect r, p, ε => r.near p ε
  | .circle c, p, ε => c.near p ε
  | .ellipse e, p, ε => e.near p ε
  | .annulus a, p, ε => a.near p ε
  | .range r, p, ε => r.near p ε
  | .poly g, p, ε => polyNear g.vs p ε
  | .undefined, _, _ => false

/-- A finite point if all the coordinates the region looks at are finite.  Every comparison with
NaN is false, `inf² = inf`, `inf − inf = NaN`: a non-finite coordinate is never contained.  A range
only looks at its own coordinate. -/
def finitePt (roi : Roi) (p : PtO) : Option Pt :=
  match roi, p with
  | .range r, (x, y) => if r.isX then x.map (·, 0) else y.map (0, ·)
  | _, (some x, some y) => some (x, y)
  | _, _ => none

def containsO (f : Roi → Pt → Bool) (roi : Roi) (p : PtO) : Bool :=
  match finitePt roi p with
  | some q => f roi q
  | none => false

def nearO (roi : Roi) (p : PtO) (ε : Rat) : Bool :=
  match finitePt roi p with
  | some q => roi.near q ε
  | none => false

/-! ## `center`, `move_to`, `rotate_to`, `copy`, gluestate -/

def Roi.center : Roi → Pt
  | .rect r => r.center
  | .circle c => (c.xc, c.yc)
  | .ellipse e => (e.xc, e.yc)
  | .annulus a => (a.xc, a.yc)
  | .range r => ((r.lo + r.hi) / 2, (r.lo + r.hi) / 2)
  | .poly g => polyCenter g.vs
  | .undefined => (0, 0)

/-- `move_to(x, y)` (`RangeROI.move_to(center)` takes one number: the coordinate of its own axis). -/
def Roi.moveTo : Roi → Pt → Roi
  | .rect r, t =>
    let dx := t.1 - r.center.1
    let dy := t.2 - r.center.2
    .rect { r with xmin := r.xmin + dx, xmax := r.xmax + dx, ymin := r.ymin + dy, ymax := r.ymax + dy }
  | .circle c, t => .circle { c with xc := t.1, yc := t.2 }
  | .ellipse e, t => .ellipse { e with xc := t.1, yc := t.2 }
  | .annulus a, t => .annulus { a with xc := t.1, yc := t.2 }
  | .range r, t =>
    let d := (if r.isX then t.1 else t.2) - (r.lo + r.hi) / 2
    .range { r with lo := r.lo + d, hi := r.hi + d }
  | .poly g, t =>
    let ctr := polyCenter g.vs
    .poly { g with vs := g.vs.map fun v => (v.1 + (t.1 - ctr.1), v.2 + (t.2 - ctr.2)) }
  | .undefined, _ => .undefined

/-- The displacement `move_to` must realise: new centre minus reported centre (for a range only
along its own axis). -/
def Roi.moveDelta : Roi → Pt → Pt
  | .range r, t => if r.isX then (t.1 - (r.lo + r.hi) / 2, 0) else (0, t.2 - (r.lo + r.hi) / 2)
  | roi, t => (t.1 - roi.center.1, t.2 - roi.center.2)

/-- `np.isclose(dtheta % (2*pi), 0, atol=1e-9)` on the unit vector of `dtheta`
(`PolygonalROI.rotate_to` after the F17 repair). -/
def closeFull (c s : Rat) : Bool := decide (0 < c) && decide (0 ≤ s) && decide (s ≤ tol * c)

/-- Rotate `v` about `ctr` by the angle with unit vector `(c, s)`. -/
def rotAbout (ctr : Pt) (c s : Rat) (v : Pt) : Pt :=
  ((rot c s (v.1 - ctr.1, v.2 - ctr.2)).1 + ctr.1, (rot c s (v.1 - ctr.1, v.2 - ctr.2)).2 + ctr.2)

/-- `rotate_to(theta)`: absolute for rectangle and ellipse (sets `theta`), relative to the stored
`theta` for a polygon (rotates the vertices about `center()` by `theta − self.theta`, skipped when
that difference is within `1e-9` of a full turn).  Not available for the other classes. -/
def Roi.rotateTo : Roi → Rat → Rat → Roi
  | .rect r, c, s => .rect { r with c := c, s := s }
  | .ellipse e, c, s => .ellipse { e with c := c, s := s }
  | .poly g, c, s =>
    let dc := c * g.c + s * g.s
    let ds := s * g.c - c * g.s
    if closeFull dc ds then .poly { g with c := c, s := s }
    else .poly { vs := g.vs.map (rotAbout (polyCenter g.vs) dc ds), c := c, s := s }
  | roi, _, _ => roi

/-- `copy()`: a clone with the same parameters.  The model's regions are values, so the clone is the
same value; what matters is that it is *independent* of the original afterwards — `VertexROIBase.copy`
gives the clone its own `vx` / `vy` lists (fix F24; `copy.copy` alone shared the two list objects),
`Projected3dROI.copy` its own 2-d region, `CategoricalROI.copy` its own array.  The independence is
what the `forkEdit` operations below exercise. -/
def Roi.copy (r : Roi) : Roi := r

/-- Values stored in a `__gluestate__` record. -/
inductive SVal where
  | num (q : Rat)
  | ang (c s : Rat)
  | nums (xs : List Rat)
  | str (s : String)
  deriving DecidableEq, Repr

abbrev SRec := List (String × SVal)

def SRec.get (r : SRec) (k : String) : Option SVal := (r.find? (·.1 == k)).map (·.2)

/-- `__gluestate__` (class name under key `_type`). -/
def Roi.toState : Roi → SRec
  | .rect r => [("_type", .str "RectangularROI"), ("xmin", .num r.xmin), ("xmax", .num r.xmax),
                ("ymin", .num r.ymin), ("ymax", .num r.ymax), ("theta", .ang r.c r.s)]
  | .circle c => [("_type", .str "CircularROI"), ("xc", .num c.xc), ("yc", .num c.yc), ("radius", .num c.r)]
  | .ellipse e => [("_type", .str "EllipticalROI"), ("xc", .num e.xc), ("yc", .num e.yc),
                   ("radius_x", .num e.rx), ("radius_y", .num e.ry), ("theta", .ang e.c e.s)]
  | .annulus a => [("_type", .str "CircularAnnulusROI"), ("xc", .num a.xc), ("yc", .num a.yc),
                   ("inner_radius", .num a.rin), ("outer_radius", .num a.rout)]
  | .range r => [("_type", .str (if r.isX then "XRangeROI" else "YRangeROI")),
                 ("ori", .str (if r.isX then "x" else "y")), ("min", .num r.lo), ("max", .num r.hi)]
  | .poly g => [("_type", .str "PolygonalROI"), ("vx", .nums (g.vs.map (·.1))), ("vy", .nums (g.vs.map (·.2)))]
  | .undefined => [("_type", .str "undefined")]

def SRec.num? (r : SRec) (k : String) : Option Rat :=
  match r.get k with | some (.num q) => some q | _ => none

/-- `theta=rec.get('theta', 0)`. -/
def SRec.angOr0 (r : SRec) : Option (Rat × Rat) :=
  match r.get "theta" with
  | some (.ang c s) => some (c, s)
  | none => some (1, 0)
  | _ => none

/-- `__setgluestate__`. -/
def Roi.ofState (r : SRec) : Option Roi :=
  match r.get "_type" with
  | some (.str "RectangularROI") => do
    let (c, s) ← r.angOr0
    some (.rect ⟨← r.num? "xmin", ← r.num? "xmax", ← r.num? "ymin", ← r.num? "ymax", c, s⟩)
  | some (.str "CircularROI") => do
    some (.circle ⟨← r.num? "xc", ← r.num? "yc", ← r.num? "radius"⟩)
  | some (.str "EllipticalROI") => do
    let (c, s) ← r.angOr0
    some (.ellipse ⟨← r.num? "xc", ← r.num? "yc", ← r.num? "radius_x", ← r.num? "radius_y", c, s⟩)
  | some (.str "CircularAnnulusROI") => do
    some (.annulus ⟨← r.num? "xc", ← r.num? "yc", ← r.num? "inner_radius", ← r.num? "outer_radius"⟩)
  | some (.str "XRangeROI") => do some (.range ⟨true, ← r.num? "min", ← r.num? "max"⟩)
  | some (.str "YRangeROI") => do some (.range ⟨false, ← r.num? "min", ← r.num? "max"⟩)
  | some (.str "PolygonalROI") =>
    match r.get "vx", r.get "vy" with
    | some (.nums xs), some (.nums ys) => some (.poly { vs := xs.zip ys })
    | _, _ => none
  | some (.str "undefined") => some .undefined
  | _ => none

/-- What a save/restore keeps: everything except a polygon's stored position angle (its vertices
are absolute; `theta` restarts at 0). -/
def Roi.restored : Roi → Roi
  | .poly g => .poly { vs := g.vs }
  | r => r

/-! ## Sequences of operations: what the code does and what the property demands -/

/-- The in-place vertex edits of `VertexROIBase`. -/
inductive VEdit where
  | add | replaceLast | remove
  deriving Repr, DecidableEq

inductive Op where
  | move (t : Pt)
  | rotate (c s : Rat)
  | copy
  | roundtrip
  /-- `reset()` followed by the class's own way of defining a region: `update_limits` (rectangle),
  `set_range` (range), `move_to` + `set_radius` / radius attributes (circle, ellipse, annulus),
  `add_point` per vertex (polygon).  `new` carries the new parameters (its angle is ignored). -/
  | define (new : Roi)
  /-- `add_point(x, y)` on a defined polygon (no reset). -/
  | addPoint (p : Pt)
  /-- `replace_last_point(x, y)`. -/
  | replaceLast (p : Pt)
  /-- `remove_point(x, y)` (no threshold): drops the vertex nearest to the reference point. -/
  | removePoint (p : Pt)
  /-- A copy and a vertex edit on ONE of the two objects, observing the OTHER one:
  `onCopy = false`: `c = roi.copy(); roi.<edit>(x, y); continue with c` (edit the original after copying);
  `onCopy = true`:  `c = roi.copy(); c.<edit>(x, y); continue with roi` (edit the copy).
  With `VertexROIBase.copy` copying the vertex lists (fix F24) the observed object is untouched.  On the
  pinned tree (`copy.copy`: the two list objects are shared) it followed `add_point` and
  `replace_last_point` — `Pinned.applyOp`. -/
  | forkEdit (onCopy : Bool) (e : VEdit) (p : Pt)
  deriving Repr

/-! ### redefinition of a region object: what each class resets and what it keeps (as coded) -/

/-- First index of the minimum (`min(inds, key=lambda i: dist[i])`). -/
def argminAux : Rat → Nat → Nat → List Rat → Nat
  | _, bi, _, [] => bi
  | bv, bi, i, d :: ds => if d < bv then argminAux d i (i + 1) ds else argminAux bv bi (i + 1) ds

def argmin : List Rat → Nat
  | [] => 0
  | d :: ds => argminAux d 0 1 ds

def editAdd (vs : List Pt) (p : Pt) : List Pt := vs ++ [p]
/-- `if len(self.vx) > 0: self.vx[-1] = x; self.vy[-1] = y`. -/
def editReplaceLast (vs : List Pt) (p : Pt) : List Pt := if vs.isEmpty then vs else vs.dropLast ++ [p]
/-- `remove_point(x, y)`: squared distances, first nearest vertex removed. -/
def editRemove (vs : List Pt) (p : Pt) : List Pt := vs.eraseIdx (argmin (vs.map fun v => dist2 v.1 v.2 p))

/-- The region an object of class `old` describes after `reset()` + definition with the parameters of
`new`, when the position angle that survives is `(c, s)` (rectangle, ellipse: `theta` is not touched
by `reset()` / `update_limits` / `move_to`; the limits are sorted by `update_limits`) — and, for a
polygon, the freshly added vertices with the angle `polyAngle`. -/
def redefineWith (old : Roi) (c s : Rat) (polyAngle : Rat × Rat) (new : Roi) : Option Roi :=
  match old, new with
  | .rect _, .rect n =>
    some (.rect ⟨rmin n.xmin n.xmax, rmax n.xmin n.xmax, rmin n.ymin n.ymax, rmax n.ymin n.ymax, c, s⟩)
  | .circle _, .circle n => some (.circle n)
  | .ellipse _, .ellipse n => some (.ellipse { n with c := c, s := s })
  | .annulus _, .annulus n => some (.annulus n)
  | .range o, .range n => some (.range { n with isX := o.isX })
  | .poly _, .poly n => some (.poly { vs := n.vs, c := polyAngle.1, s := polyAngle.2 })
  | _, _ => none

/-- The stored angle of the object (what `reset()` of a rectangle / ellipse keeps). -/
def Roi.theta : Roi → Rat × Rat
  | .rect r => (r.c, r.s)
  | .ellipse e => (e.c, e.s)
  | .poly g => (g.c, g.s)
  | _ => (1, 0)

/-- `reset()` + definition as coded: `VertexROIBase.reset` sets `theta = 0`, the rectangle's and the
ellipse's `reset` keep `theta`. -/
def Roi.redefine (cur new : Roi) : Roi :=
  (redefineWith cur cur.theta.1 cur.theta.2 (1, 0) new).getD cur

/-- Vertex edits on a polygon (the stored angle is kept). -/
def Roi.editVs (f : List Pt → List Pt) : Roi → Roi
  | .poly g => .poly { g with vs := f g.vs }
  | r => r

namespace Impl
def applyOp (r : Roi) : Op → Roi
  | .move t => r.moveTo t
  | .rotate c s => r.rotateTo c s
  | .copy => r.copy
  | .roundtrip => (Roi.ofState r.toState).getD .undefined
  | .define new => r.redefine new
  | .addPoint p => r.editVs (editAdd · p)
  | .replaceLast p => r.editVs (editReplaceLast · p)
  | .removePoint p => r.editVs (editRemove · p)
  | .forkEdit _ _ _ => r.copy     -- the clone owns its vertex lists: the object not edited is unchanged

def applyOps (r : Roi) (ops : List Op) : Roi := ops.foldl applyOp r
end Impl

/-- The vertex edit `e` as a function on vertex lists. -/
def VEdit.fn : VEdit → List Pt → Pt → List Pt
  | .add => editAdd
  | .replaceLast => editReplaceLast
  | .remove => editRemove

/- Pinned model (the tree before fix F24, not the code that exists now): `Roi.copy()` is `copy.copy`,
the clone and the original share the `vx` / `vy` list objects, so `add_point` (`append`) and
`replace_last_point` (`vx[-1] = x`) on either object are seen through the other one; `remove_point`
rebinds the lists of the edited object and is not.  Used for the `decide`d witness of F24. -/
namespace Pinned
def applyOp (r : Roi) : Op → Roi
  | .forkEdit _ .add p => r.editVs (editAdd · p)
  | .forkEdit _ .replaceLast p => r.editVs (editReplaceLast · p)
  | op => Impl.applyOp r op

def applyOps (r : Roi) (ops : List Op) : Roi := ops.foldl applyOp r
end Pinned

/- Variant model (not the code that exists): `VertexROIBase.reset()` keeps `theta`, "as the
rectangle's and the ellipse's reset do" — seeded change C08c.  Used for a `decide`d witness that the
specification of redefinitions rejects it. -/
namespace Variant
def applyOp (r : Roi) : Op → Roi
  | .define new => (redefineWith r r.theta.1 r.theta.2 r.theta new).getD r
  | op => Impl.applyOp r op

def applyOps (r : Roi) (ops : List Op) : Roi := ops.foldl applyOp r
end Variant

/-- A rigid motion accumulated by the specification: `p ↦ R(c,s)(p − pivot) + pivot + shift`. -/
structure Motion where
  pivot : Pt
  c : Rat
  s : Rat
  shift : Pt
  deriving Repr

/-- Inverse image of a point under a motion. -/
def Motion.undo (m : Motion) (p : Pt) : Pt :=
  let q : Pt := (p.1 - m.shift.1 - m.pivot.1, p.2 - m.shift.2 - m.pivot.2)
  ((unrot m.c m.s q).1 + m.pivot.1, (unrot m.c m.s q).2 + m.pivot.2)

/-- Image of a point under a motion. -/
def Motion.apply (m : Motion) (p : Pt) : Pt :=
  ((rotAbout m.pivot m.c m.s p).1 + m.shift.1, (rotAbout m.pivot m.c m.s p).2 + m.shift.2)

/-- Push a point forward through all motions (the list is latest first). -/
def pushforward (ms : List Motion) (p : Pt) : Pt := ms.foldr (fun m q => m.apply q) p

/-- Specification state: the region as last defined (constructor or redefinition), the motions applied
since (latest first), the current centre and the current position angle. -/
structure SpecState where
  roi : Roi
  motions : List Motion
  ctr : Pt
  c : Rat
  s : Rat
  deriving Repr

namespace Spec
def orient : Roi → Rat × Rat
  | .rect r => (r.c, r.s)
  | .ellipse e => (e.c, e.s)
  | .poly g => (g.c, g.s)
  | _ => (1, 0)

def init (r : Roi) : SpecState := ⟨r, [], r.center, (orient r).1, (orient r).2⟩

def canRotate : Roi → Bool
  | .rect _ | .ellipse _ | .poly _ => true
  | _ => false

/-- `move_to` translates by new centre − current centre (a range: along its axis) and the centre is
then the target; `rotate_to` turns about the current centre by new angle − current angle; copy and
save/restore change nothing, except that a restored polygon counts its angle from 0 again. -/
def step (st : SpecState) : Op → SpecState
  | .move t =>
    let d : Pt := match st.roi with
      | .range r => if r.isX then (t.1 - st.ctr.1, 0) else (0, t.2 - st.ctr.2)
      | _ => (t.1 - st.ctr.1, t.2 - st.ctr.2)
    let ctr' : Pt := match st.roi with
      | .range r => if r.isX then (t.1, t.1) else (t.2, t.2)
      | _ => t
    { st with motions := ⟨(0, 0), 1, 0, d⟩ :: st.motions, ctr := ctr' }
  | .rotate c s =>
    if canRotate st.roi then
      { st with motions := ⟨st.ctr, c * st.c + s * st.s, s * st.c - c * st.s, (0, 0)⟩ :: st.motions,
                c := c, s := s }
    else st
  | .copy => st
  | .roundtrip => match st.roi with
    | .poly _ => { st with c := 1, s := 0 }
    | _ => st
  | .define new =>
    -- the newly defined region with the angle the class documents: a rectangle / ellipse keeps its
    -- (absolute) position angle, a polygon starts again at angle 0; no motion has been applied to it
    match redefineWith st.roi st.c st.s (1, 0) new with
    | some r' => ⟨r', [], r'.center, (orient r').1, (orient r').2⟩
    | none => st
  | .addPoint p => edit st (editAdd · p)
  | .replaceLast p => edit st (editReplaceLast · p)
  | .removePoint p => edit st (editRemove · p)
  | .forkEdit _ _ _ => st     -- a copy is the same region, whatever happens to the other object afterwards
where
  /-- A vertex edit re-bases the specification on the polygon whose vertices are the current
  (moved) vertices, edited; the position angle is kept. -/
  edit (st : SpecState) (f : List Pt → List Pt) : SpecState :=
    match st.roi with
    | .poly g =>
      let vs := f (g.vs.map (pushforward st.motions))
      ⟨.poly { vs := vs, c := st.c, s := st.s }, [], polyCenter vs, st.c, st.s⟩
    | _ => st

def run (r : Roi) (ops : List Op) : SpecState := ops.foldl step (init r)

/-- Pull a point back through all motions (latest first). -/
def pullback (ms : List Motion) (p : Pt) : Pt := ms.foldl (fun q m => m.undo q) p

/-- Containment demanded after the operations: the region as last (re)defined contains the point
pulled back through the motions applied since. -/
def containsAfter (r : Roi) (ops : List Op) (p : Pt) : Bool :=
  contains (run r ops).roi (pullback (run r ops).motions p)
end Spec

/-! ## Projected 3-d region -/

structure Proj where
  roi : Roi
  /-- 4×4 projection matrix, row-major (16 entries). -/
  m : List Rat
  deriving Repr

def Proj.entry (P : Proj) (i j : Nat) : Rat := P.m.getD (4 * i + j) 0

/-- Row `i` of `M · (x, y, z, 1)`. -/
def Proj.hom (P : Proj) (i : Nat) (x y z : Rat) : Rat :=
  P.entry i 0 * x + P.entry i 1 * y + P.entry i 2 * z + P.entry i 3

/-- `screen_h[:2] / screen_h[3]`; a zero divisor (or a non-finite input coordinate, which makes
every row non-finite or NaN) gives non-finite screen coordinates. -/
def Proj.screen (P : Proj) (q : Option Rat × Option Rat × Option Rat) : PtO :=
  match q with
  | (some x, some y, some z) =>
    if P.hom 3 x y z = 0 then (none, none)
    else (some (P.hom 0 x y z / P.hom 3 x y z), some (P.hom 1 x y z / P.hom 3 x y z))
  | _ => (none, none)

/-- `mask = zeros; for slices in iterate_chunks(shape, n_max): mask[slices] = f(points[slices])`:
an index tuple gets `f` iff some chunk covers it, else it stays `False`. -/
def assembleChunks (shape : List Nat) (chunks : List ArrayUtil.Chunk) (f : List Nat → Bool) : List Bool :=
  (ArrayUtil.allIndices shape).map fun idx => if chunks.any (ArrayUtil.inChunk idx) then f idx else false

/-- The chunks `contains3d` iterates over: `iterate_chunks(x.shape, n_max=1000000)`. -/
def projChunks (shape : List Nat) : List ArrayUtil.Chunk :=
  ArrayUtil.iterateChunksLoop shape (ArrayUtil.findChunkShape shape 1000000)

end GlueVerif.Geometry
