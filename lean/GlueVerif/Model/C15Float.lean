import GlueVerif.Model.Coords
/-
C15, binary64 acceptance rules (core Lean only, exact `Rat`).

The model and the `Spec` of `Model/Coords.lean` are over exact rationals and are therefore right at
every magnitude.  The implementation computes in IEEE binary64; what it returns is sent to the driver
as the *exact* rational value of each double.  This file says, from the exact inputs alone, how far a
double may be from the exact value — no fixed absolute tolerance, nothing that depends on the
magnitude of the numbers involved:

* **forward values** (`pixel_to_world_values`: one dot product `Σ_j M[k][j]·x_j + M[k][n]` per value,
  evaluated by `np.matmul` in some order, with or without fused multiply-add):
  - if every partial sum of the terms, in any order, is exactly representable (all terms are integer
    multiples of one power of two `2^e ≥ 2^-1074` and `Σ|terms| ≤ 2^(53+e)`), every floating-point
    operation is exact, so the value must be **exactly** the rational value (`fwdTol = 0`);
  - otherwise `|ŷ − y| ≤ (n+2)·2⁻⁵³·Σ|terms|` (the standard dot-product bound `γ_{n+1}`).
* **inverse values** (`world_to_pixel_values`: `np.linalg.inv` = LAPACK `gesv` on the augmented matrix —
  Gaussian elimination with partial pivoting — followed by a dot product).  The computed inverse `N̂`
  satisfies, to first order, `|N̂ − N| ≤ c·2⁻⁵³·|N|·W·|N|` with `W = Pᵀ|L||U|` (Higham, *Accuracy and
  Stability of Numerical Algorithms*, Thm 9.4 + §14).  `geppW` computes `W` **exactly** by running the
  elimination over `ℚ`; where two pivot candidates are tied (within `2⁻³⁰`) the floating-point code may
  take either, so every such path is followed and the entrywise maximum is used.  `W` is exactly
  covariant under scaling of columns and — pivot paths being equal — rows by any factor, so the rule
  is the same at 1e-300 and at 1e+30; for a diagonal or permuted matrix it allows a few ulps.
  `invK = 32` is the constant (the largest ratio `|N̂ − N| / (2⁻⁵³·|N|W|N|)` seen on 40 000 random
  ladder matrices was 2.4).
-/
namespace GlueVerif.Coords
namespace Flt

def rabs (x : Rat) : Rat := if x < 0 then -x else x

def pow2 (k : Nat) : Rat := ((2 ^ k : Nat) : Rat)

/-- Unit round-off of binary64, `2⁻⁵³`. -/
def u : Rat := 1 / pow2 53

def sumL (xs : List Rat) : Rat := xs.foldl (· + ·) 0

/-- Number of trailing zero bits of a positive natural number (fuel = its bit length). -/
def trailingZeros : Nat → Nat → Nat
  | 0, _ => 0
  | fuel + 1, k => if k % 2 == 0 && k != 0 then 1 + trailingZeros fuel (k / 2) else 0

/-- `some e` when `x = odd · 2^e`; `none` for `0` and for rationals that are not dyadic. -/
def dyadicVal (x : Rat) : Option Int :=
  if x.num == 0 then none
  else
    let l := x.den.log2
    if x.den != 2 ^ l then none
    else some ((trailingZeros (x.num.natAbs.log2 + 1) x.num.natAbs : Nat) - (l : Int))

/-- Every partial sum of the terms, in any order, is a binary64 number: all non-zero terms are
integer multiples of `2^e` with `e ≥ -1074`, and `Σ|terms| ≤ 2^(53+e)` (hence `< 2^1024` is only
needed when `e > 970`, which is demanded too). -/
def exactSum (ts : List Rat) : Bool :=
  let nz := ts.filter (· != 0)
  match nz.mapM dyadicVal with
  | none => false
  | some [] => true
  | some (v :: vs) =>
    let e := vs.foldl min v
    let s := sumL (nz.map rabs)
    decide (-1074 ≤ e) && decide (e ≤ 900) &&
      (if e ≥ 0 then s ≤ pow2 (53 + e.toNat) else s * pow2 (-e).toNat ≤ pow2 53)

/-- Allowed distance of a computed dot product from its exact value. -/
def dotTol (n : Nat) (ts : List Rat) : Rat :=
  if exactSum ts then 0 else ((n + 2 : Nat) : Rat) * u * sumL (ts.map rabs)

/-- The terms of world value `k` (FITS order) at FITS-order position `x`. -/
def fwdTerms (n : Nat) (m : Mat) (k : Nat) (x : List Rat) : List Rat :=
  (List.range n).map (fun j => ent m k j * x.getD j 0) ++ [ent m k n]

/-- Allowed distance of `pixel_to_world_values(*x)[k]` from the exact value. -/
def fwdTol : Coord → Nat → List Rat → Rat
  | .identity _, _, _ => 0
  | .affine n m _, k, x => dotTol n (fwdTerms n m k x)

/-! ### Gaussian elimination with partial pivoting over `ℚ`: the matrix `W = Pᵀ|L||U|` -/

structure Row where
  /-- row index in the original matrix -/
  idx : Nat
  /-- current (partially eliminated) row -/
  cur : List Rat
  /-- `Σ_k |l_k|·|U_k|` accumulated so far -/
  acc : List Rat

def vadd (a b : List Rat) : List Rat := List.zipWith (· + ·) a b
def vabs (a : List Rat) : List Rat := a.map rabs

/-- Pivot candidates whose magnitude is within this factor of the largest are all followed. -/
def tie : Rat := 1 - 1 / pow2 30

/-- All partial-pivoting paths from column `c` on (fuel = number of active rows).  A path is the
list of `(original row index, row of Pᵀ|L||U|)`.  `[]` (no path) when a pivot column is zero. -/
def geppPaths : Nat → Nat → List Row → List (List (Nat × List Rat))
  | 0, _, _ => [[]]
  | fuel + 1, c, rows =>
    let mx := rows.foldl (fun m r => max m (rabs (r.cur.getD c 0))) 0
    if mx == 0 then [] else
    (List.range rows.length).flatMap fun pi =>
      match rows[pi]? with
      | none => []
      | some p =>
        let pv := p.cur.getD c 0
        if rabs pv < mx * tie then [] else
        let up := vabs p.cur
        let w := (p.idx, vadd p.acc up)
        let rest := (rows.eraseIdx pi).map fun r =>
          let f := r.cur.getD c 0 / pv
          if f == 0 then r
          else { r with cur := List.zipWith (fun a b => a - f * b) r.cur p.cur,
                        acc := vadd r.acc (up.map (rabs f * ·)) }
        (geppPaths fuel (c + 1) rest).map (w :: ·)

/-- `W[i][j]`: entrywise maximum of `Pᵀ|L||U|` over the pivot paths of the `(n+1)×(n+1)` matrix. -/
def geppW (n : Nat) (m : Mat) : Mat :=
  let rows := (List.range (n + 1)).map fun i => (⟨i, (List.range (n + 1)).map (ent m i), (List.range (n + 1)).map fun _ => 0⟩ : Row)
  let paths := geppPaths (n + 1) 0 rows
  (List.range (n + 1)).map fun i => (List.range (n + 1)).map fun j =>
    paths.foldl (fun best path =>
      match path.find? (·.1 == i) with
      | some (_, w) => max best (w.getD j 0)
      | none => best) 0

/-- `(|N|·W·|N|)[p][w]` for the augmented matrices. -/
def condMat (n : Nat) (m inv : Mat) : Mat :=
  let W := geppW n m
  let r := List.range (n + 1)
  let NW : Mat := r.map fun p => r.map fun l => sumL (r.map fun k => rabs (ent inv p k) * ent W k l)
  r.map fun p => r.map fun w => sumL (r.map fun l => ent NW p l * rabs (ent inv l w))

def invK : Rat := 32

/-- What the inverse tolerance needs of a coordinate object, computed once per case. -/
structure InvCtx where
  n : Nat
  /-- `|N|·W·|N|`, `none` for identity coordinates (exact) -/
  cond : Option Mat
  inv : Mat

def invCtx : Coord → InvCtx
  | .identity n => ⟨n, none, []⟩
  | .affine n m inv => ⟨n, some (condMat n m inv), inv⟩

/-- Allowed distance of `world_to_pixel_values(*ŷ)[p]` from the exact `N·y`, where the input `ŷ`
itself is within `δ` (componentwise) of the exact `y` (FITS order):
`Σ_w [ K·2⁻⁵³·C[p][w]·(|y_w| + δ_w) + |N[p][w]|·δ_w ]`, the augmented component being `1 ± 0`. -/
def invTol (cx : InvCtx) (p : Nat) (y δ : List Rat) : Rat :=
  match cx.cond with
  | none => δ.getD p 0
  | some C =>
    sumL ((List.range cx.n).map fun w =>
      invK * u * ent C p w * (rabs (y.getD w 0) + δ.getD w 0) + rabs (ent cx.inv p w) * δ.getD w 0)
    + invK * u * ent C p cx.n

/-- Magnitudes stay far inside the binary64 range (no overflow, no loss to subnormals). -/
def rangeOk : Coord → Bool
  | .identity _ => true
  | .affine n m inv =>
    let ok (x : Rat) : Bool := x == 0 || (1 / pow2 1000 ≤ rabs x && rabs x ≤ pow2 1000)
    m.all (·.all ok) && inv.all (·.all ok) && (condMat n m inv).all (·.all ok)

end Flt
end GlueVerif.Coords
