import GlueVerif.Model.C16FRB
/-!
C16, round 3 — **argument object identity**.

`compute_fixed_resolution_buffer(data, bounds, …, cache_id)` receives `bounds` as a Python *list
object* owned by the caller, and returns a numpy array *object*.  What the two caches keep between
calls can therefore share cells with objects the caller still holds:

* a stored bounds key may be a **fresh list** (what `bounds_for_cache` builds: `KeyRef.own`) or **the
  caller's list itself** (`KeyRef.ref oid`; the hash tuple built at the top of the function holds
  `bounds`, it is replaced by the `bounds_for_cache` list before it is stored).  A `ref` key is looked
  up in the heap of caller-visible lists *when the hit test runs* — Python compares the list the
  caller has meanwhile edited in place (with itself, if the same object is submitted again);
* the stored array may be a private copy or the very object that was handed to the caller
  (`AEntry.shared = some b`): an in-place edit of the returned buffer `b` then writes through.

`Policy` says what the code stores; `Policy.coded` is the tree under test (fresh lists in both caches;
the array is copied on store and on hit — repair F18), `Policy.pinnedArrays` the tree before F18,
`Policy.refIfNoWildcard` / `Policy.pixelRef` the seeded change C16c and its `PIXEL_CACHE` sibling.

Histories (`AOp`) interleave requests with in-place edits of the caller's lists (`bounds[i] = b`,
`append`, `pop`, `bounds[:] = …` / a new list) and of returned buffers (`buf[...] = v`).  The Spec of
a request is the uncached answer for the **current** contents of its arguments
(`runArgs pol false`).

`frbK` is `Impl.frb` with the two key constructors as parameters (the code is the instance
`boundsForCache`, `boundsForCache`); it is the value-level function the reference model is
simulated by once every reference is resolved (`Lemmas/C16Args.lean`).
-/
namespace GlueVerif.FRB.Args
open GlueVerif.FRB GlueVerif.FRB.Impl

/-! ## `frb` with the key constructors as parameters (value level) -/

/-- `PIXEL_CACHE[cache_id][ipix] = {…, 'bounds': pk(bounds, dimensions)}`. -/
def pixelStoreK (pk : List Bound → List Nat → List KB) (pc : Option PixelCache) (r : Req) (ipix : Nat)
    (ax : AxisT) : PixelCache :=
  let e := (pk r.bounds ax.dims, ax)
  match pc with
  | none => ⟨r.data, r.target, upd (fun _ => none) ipix (some e)⟩
  | some p => ⟨p.data, p.target, upd p.entries ipix (some e)⟩

def axesCachedK (pk : List Bound → List Nat → List KB) (w : World) (r : Req) :
    List Nat → Option PixelCache → Except Err (List AxisT) × Option PixelCache
  | [], pc => (.ok [], pc)
  | ipix :: rest, pc =>
    match pixelHit pc ipix r.bounds with
    | some ax =>
      match axesCachedK pk w r rest pc with
      | (.error e, pc') => (.error e, pc')
      | (.ok axs, pc') => (.ok (ax :: axs), pc')
    | none =>
      match computeAxis w r.target r.data ipix r.bounds with
      | .error e => (.error e, pc)
      | .ok ax =>
        match axesCachedK pk w r rest (some (pixelStoreK pk pc r ipix ax)) with
        | (.error e, pc') => (.error e, pc')
        | (.ok axs, pc') => (.ok (ax :: axs), pc')

/-- `Impl.frb` with the list stored in the `ARRAY_CACHE` hash (`ak`) and in `PIXEL_CACHE` (`pk`) as
parameters. -/
def frbK (ak pk : List Bound → List Nat → List KB) (w : World) (c : Caches) (r : Req) :
    Except Err Arr × Caches :=
  if !boundsValid r.bounds then (.error .valueError, c) else
  match r.cacheId with
  | none => (frbUncached w r, c)
  | some id =>
    match arrayHit c id r with
    | some a => (.ok a, c)
    | none =>
      match axesCachedK pk w r (List.range (w.ndim r.data)) (pixelStart c id r) with
      | (.error e, pc) => (.error e, ⟨c.array, upd c.pixel id pc⟩)
      | (.ok axes, pc) =>
        match finish w r axes with
        | .error e => (.error e, ⟨c.array, upd c.pixel id pc⟩)
        | .ok a =>
          (.ok a, ⟨upd c.array id (some ⟨r.data, ak r.bounds (dimsAllOf axes), r.target,
            r.what, r.broadcast, a⟩), upd c.pixel id pc⟩)

/-! ## objects -/

/-- The heap of caller-visible bounds lists: object id ↦ current contents. -/
abbrev Lists := Nat → List Bound

/-- The `bounds` argument of a call: a list object the caller keeps (`obj oid`), or a list built for
this call only and dropped afterwards (`fresh bs` — nobody but the callee can reach it later). -/
inductive BArg
  | obj (oid : Nat)
  | fresh (bs : List Bound)
  deriving Repr, Inhabited

def BArg.contents (L : Lists) : BArg → List Bound
  | .obj oid => L oid
  | .fresh bs => bs

/-- A stored bounds key: a list the cache owns, or a reference to a caller-visible list object. -/
inductive KeyRef
  | own (kbs : List KB)
  | ref (oid : Nat)
  deriving Repr, BEq, DecidableEq, Inhabited

/-- What `stored == bounds` sees: the contents the referenced list has *now*. -/
def KeyRef.resolve (L : Lists) : KeyRef → List KB
  | .own kbs => kbs
  | .ref oid => (L oid).map KB.lit

/-- "store `bounds` itself": a reference for a caller-visible object, the (unreachable, hence owned)
list itself for a per-call list. -/
def BArg.asKey : BArg → KeyRef
  | .obj oid => .ref oid
  | .fresh bs => .own (bs.map KB.lit)

structure AReq where
  data : Nat
  arg : BArg
  target : Nat
  what : Target
  broadcast : Bool
  cacheId : Option Nat
  deriving Repr, Inhabited

/-- The request by value: the arguments with their current contents. -/
def AReq.toReq (L : Lists) (r : AReq) : Req :=
  ⟨r.data, r.arg.contents L, r.target, r.what, r.broadcast, r.cacheId⟩

/-- `ARRAY_CACHE[cache_id]`.  `shared = some b`: the stored array is the object `b` a caller holds
(buffers are named by the index of the request that first returned them). -/
structure AEntry where
  data : Nat
  key : KeyRef
  target : Nat
  what : Target
  broadcast : Bool
  array : Arr
  shared : Option Nat
  deriving Repr, Inhabited

structure APixel where
  data : Nat
  target : Nat
  entries : Nat → Option (KeyRef × AxisT)

structure ACaches where
  array : Nat → Option AEntry
  pixel : Nat → Option APixel

def ACaches.empty : ACaches := ⟨fun _ => none, fun _ => none⟩

/-- What the code stores. -/
structure Policy where
  /-- `ARRAY_CACHE`: given the list `bounds_for_cache` would build, store `bounds` itself instead -/
  arrayRef : List KB → Bool
  /-- `PIXEL_CACHE[…]['bounds']`: likewise -/
  pixelRef : List KB → Bool
  /-- the array stored is the object returned by the computing call -/
  shareStore : Bool
  /-- a hit returns the stored object itself (not a copy) -/
  shareHit : Bool

/-- The tree under test: `bounds_for_cache` builds a new list for both caches; the array is copied
when it is stored and when it is returned from the cache (F18). -/
def Policy.coded : Policy := ⟨fun _ => false, fun _ => false, false, false⟩

/-- The pinned tree (before F18): keys are fresh lists, the cached array object is what callers get. -/
def Policy.pinnedArrays : Policy := ⟨fun _ => false, fun _ => false, true, true⟩

/-- Seeded change C16c: the hash built at the top of the function (it holds `bounds`) is kept unless
some scalar bound is wildcard-eligible. -/
def Policy.refIfNoWildcard : Policy := ⟨fun kbs => kbs.all (· != KB.any), fun _ => false, false, false⟩

/-- Sibling: `PIXEL_CACHE[cache_id][ipix]['bounds'] = bounds`. -/
def Policy.pixelRefs : Policy := ⟨fun _ => false, fun _ => true, false, false⟩

/-- No stored key ever refers to a caller's list, no stored array is a caller's buffer. -/
def Policy.owns (pol : Policy) : Prop :=
  (∀ kbs, pol.arrayRef kbs = false) ∧ (∀ kbs, pol.pixelRef kbs = false) ∧
    pol.shareStore = false ∧ pol.shareHit = false

/-! ## the function on objects -/

/-- `cache_id in ARRAY_CACHE and ARRAY_CACHE[cache_id]['hash'] == current_array_hash` — the stored
list is read through the heap. -/
def AEntry.matches (L : Lists) (e : AEntry) (r : Req) : Bool :=
  decide (e.data = r.data) && matchesAll (e.key.resolve L) r.bounds && decide (e.target = r.target) &&
    decide (e.what = r.what) && decide (e.broadcast = r.broadcast)

def arrayHitA (L : Lists) (c : ACaches) (id : Nat) (r : Req) : Option AEntry :=
  match c.array id with
  | some e => if e.matches L r then some e else none
  | none => none

def pixelHitA (L : Lists) (pc : Option APixel) (ipix : Nat) (bs : List Bound) : Option AxisT :=
  match pc with
  | none => none
  | some p =>
    match p.entries ipix with
    | none => none
    | some (k, ax) => if matchesAll (k.resolve L) bs then some ax else none

def pixelStartA (c : ACaches) (id : Nat) (r : Req) : Option APixel :=
  match c.pixel id with
  | some p => if p.data = r.data ∧ p.target = r.target then some p else none
  | none => none

/-- The key stored in `PIXEL_CACHE[cache_id][ipix]['bounds']`. -/
def pixelKey (pol : Policy) (arg : BArg) (bs : List Bound) (dims : List Nat) : KeyRef :=
  if pol.pixelRef (boundsForCache bs dims) then arg.asKey else .own (boundsForCache bs dims)

/-- The list stored in the `ARRAY_CACHE` hash. -/
def arrayKey (pol : Policy) (arg : BArg) (bs : List Bound) (dims : List Nat) : KeyRef :=
  if pol.arrayRef (boundsForCache bs dims) then arg.asKey else .own (boundsForCache bs dims)

def pixelStoreA (pol : Policy) (pc : Option APixel) (arg : BArg) (r : Req) (ipix : Nat) (ax : AxisT) : APixel :=
  let e := (pixelKey pol arg r.bounds ax.dims, ax)
  match pc with
  | none => ⟨r.data, r.target, upd (fun _ => none) ipix (some e)⟩
  | some p => ⟨p.data, p.target, upd p.entries ipix (some e)⟩

def axesCachedA (pol : Policy) (w : World) (L : Lists) (arg : BArg) (r : Req) :
    List Nat → Option APixel → Except Err (List AxisT) × Option APixel
  | [], pc => (.ok [], pc)
  | ipix :: rest, pc =>
    match pixelHitA L pc ipix r.bounds with
    | some ax =>
      match axesCachedA pol w L arg r rest pc with
      | (.error e, pc') => (.error e, pc')
      | (.ok axs, pc') => (.ok (ax :: axs), pc')
    | none =>
      match computeAxis w r.target r.data ipix r.bounds with
      | .error e => (.error e, pc)
      | .ok ax =>
        match axesCachedA pol w L arg r rest (some (pixelStoreA pol pc arg r ipix ax)) with
        | (.error e, pc') => (.error e, pc')
        | (.ok axs, pc') => (.ok (ax :: axs), pc')

/-- `compute_fixed_resolution_buffer` on objects: the answer (contents of the returned array at
return time), the new caches, and the identity of the returned buffer (`n` = index of this request =
a new object; an older index when the stored object itself is handed out again). -/
def frbA (pol : Policy) (w : World) (L : Lists) (c : ACaches) (n : Nat) (ar : AReq) :
    Except Err Arr × ACaches × Option Nat :=
  let r := ar.toReq L
  if !boundsValid r.bounds then (.error .valueError, c, none) else
  match r.cacheId with
  | none => (frbUncached w r, c, some n)
  | some id =>
    match arrayHitA L c id r with
    | some e =>
      if pol.shareHit then
        match e.shared with
        | some b => (.ok e.array, c, some b)
        | none => (.ok e.array, ⟨upd c.array id (some { e with shared := some n }), c.pixel⟩, some n)
      else (.ok e.array, c, some n)
    | none =>
      match axesCachedA pol w L ar.arg r (List.range (w.ndim r.data)) (pixelStartA c id r) with
      | (.error e, pc) => (.error e, ⟨c.array, upd c.pixel id pc⟩, none)
      | (.ok axes, pc) =>
        match finish w r axes with
        | .error e => (.error e, ⟨c.array, upd c.pixel id pc⟩, none)
        | .ok a =>
          (.ok a, ⟨upd c.array id (some ⟨r.data, arrayKey pol ar.arg r.bounds (dimsAllOf axes), r.target,
            r.what, r.broadcast, a, if pol.shareStore then some n else none⟩), upd c.pixel id pc⟩, some n)

/-! ## histories -/

inductive AOp
  | req (r : AReq)
  /-- `obj[:] = bs` on an existing list object, `obj = [...]` for a new one -/
  | assign (oid : Nat) (bs : List Bound)
  /-- `obj[i] = b` (a scalar, or a replaced tuple) -/
  | set (oid i : Nat) (b : Bound)
  /-- `obj.append(b)` -/
  | push (oid : Nat) (b : Bound)
  /-- `obj.pop()` (never down to the empty list) -/
  | pop (oid : Nat)
  /-- `buf[...] = v` on the array returned by the `k`-th request of the history -/
  | editBuf (k : Nat) (v : Int)
  /-- in-place edit of a selection object (F15) -/
  | editState (sid : Nat) (e : SExpr)
  /-- in-place replacement of a component's values (outside the property) -/
  | setComp (ds c : Nat) (vals : List Int)
  deriving Repr, Inhabited

/-- Requests and in-place edits of *arguments / results* (no change of selections or data). -/
def AOp.isArgOp : AOp → Bool
  | .editState .. => false
  | .setComp .. => false
  | _ => true

def AOp.isReq : AOp → Bool
  | .req _ => true
  | _ => false

/-- `buf[...] = v`: every cell of a float buffer becomes `v`, of a mask `bool(v)`; a 0-d result is
a numpy scalar (immutable). -/
def fillArr (v : Int) (a : Arr) : Arr :=
  if a.shape.isEmpty then a else
  ⟨a.shape, a.data.map fun c => match c with
    | .bool _ => .bool (decide (v ≠ 0))
    | _ => .num v⟩

/-- The edit of buffer `b` writes through to every stored array that *is* `b`. -/
def editBufCaches (b : Nat) (v : Int) (c : ACaches) : ACaches :=
  ⟨fun id => (c.array id).map fun e => if e.shared = some b then { e with array := fillArr v e.array } else e,
   c.pixel⟩

structure AState where
  world : World
  lists : Lists
  caches : ACaches
  /-- per request so far: the identity of the buffer it returned -/
  rets : List (Option Nat)

/-- The list object an operation writes to. -/
def AOp.writesList : AOp → Option Nat
  | .assign oid _ => some oid
  | .set oid _ _ => some oid
  | .push oid _ => some oid
  | .pop oid => some oid
  | _ => none

def updList (L : Lists) (oid : Nat) (bs : List Bound) : Lists := fun o => if o = oid then bs else L o

def AState.editList (st : AState) (oid : Nat) (f : List Bound → List Bound) : AState :=
  { st with lists := updList st.lists oid (f (st.lists oid)) }

/-- One operation; a request also yields its answer.  `cached = false`: every request is answered
as if `cache_id=None` (the caches stay untouched). -/
def stepA (pol : Policy) (cached : Bool) (st : AState) : AOp → Option (Except Err Arr) × AState
  | .req r =>
    if cached then
      let res := frbA pol st.world st.lists st.caches st.rets.length r
      (some res.1, { st with caches := res.2.1, rets := st.rets ++ [res.2.2] })
    else (some (frbUncached st.world (r.toReq st.lists)), { st with rets := st.rets ++ [none] })
  | .assign oid bs => (none, st.editList oid fun _ => bs)
  | .set oid i b => (none, st.editList oid fun l => l.set i b)
  | .push oid b => (none, st.editList oid fun l => l ++ [b])
  | .pop oid => (none, st.editList oid fun l => if l.length ≤ 1 then l else l.dropLast)
  | .editBuf k v =>
    match st.rets.getD k none with
    | some b => (none, { st with caches := editBufCaches b v st.caches })
    | none => (none, st)
  | .editState sid e =>
    (none, { st with world := { st.world with states := fun s => if s = sid then e else st.world.states s } })
  | .setComp ds k vals => (none, { st with world := setCompW st.world ds k vals })

/-- Answers of the requests of a history. -/
def runArgs (pol : Policy) (cached : Bool) : AState → List AOp → List (Except Err Arr)
  | _, [] => []
  | st, op :: ops =>
    match stepA pol cached st op with
    | (some a, st') => a :: runArgs pol cached st' ops
    | (none, st') => runArgs pol cached st' ops

def AState.init (w : World) (L : Lists) : AState := ⟨w, L, .empty, []⟩

/-! ## sharing -/

def ACaches.refsList (c : ACaches) (oid : Nat) : Prop :=
  (∃ id e, c.array id = some e ∧ e.key = .ref oid) ∨
  (∃ id p i ax, c.pixel id = some p ∧ p.entries i = some (.ref oid, ax))

def ACaches.sharesBuf (c : ACaches) (b : Nat) : Prop :=
  ∃ id e, c.array id = some e ∧ e.shared = some b

/-- The operation writes to a cell a stored key / a stored array shares with the caller. -/
def Shares (st : AState) (op : AOp) : Prop :=
  match op with
  | .editBuf k _ => ∃ b, st.rets.getD k none = some b ∧ st.caches.sharesBuf b
  | op => ∃ oid, op.writesList = some oid ∧ st.caches.refsList oid

/-- No operation of the history writes to a shared cell. -/
def Unshared (pol : Policy) : AState → List AOp → Prop
  | _, [] => True
  | st, op :: ops => ¬ Shares st op ∧ Unshared pol (stepA pol true st op).2 ops

/-- The caches own everything they hold. -/
def ACaches.Owned (c : ACaches) : Prop := (∀ oid, ¬ c.refsList oid) ∧ (∀ b, ¬ c.sharesBuf b)

end GlueVerif.FRB.Args
