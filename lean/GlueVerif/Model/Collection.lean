/-
L4 model (C06 part): a `DataCollection`, its datasets (also the ones that were removed), its subset
groups (also removed ones), the grouped subsets, and the `SubsetGroup` hub handlers — as coded in
`glue/core/data_collection.py`, `glue/core/subset_group.py`, `glue/core/data.py` (`add_subset`),
`glue/core/subset.py` (`delete`), `glue/core/state.py` (collection save / restore).  Core Lean only.

Object identity.  A Python object is modelled by a natural number: datasets `0 … nData-1`, groups
`0 … nGroup-1`, grouped subsets by a serial number `Sub.id` drawn from the counter `nSub`.  A
`GroupedSubset` never changes its `data` or `group` after construction in any of the modelled
operations (only the session loader rewrites `data`, see `restore`), so both are carried inside the
value `Sub`; two list entries denote the same Python object iff they are equal.

`step fixed` has one switch: `fixed = true` is the code with `fix: F3-remove-data-detach`
(`SubsetGroup._remove_data` also calls `s.delete()`), `fixed = false` is the code before that
commit (`_remove_data` only filters `group.subsets`).  `Impl` is `step true`.

The `AddData` / `RemoveData` commands and `DataCollection.insert` are modelled as coded after
`fix: F4b-add-remove-data-undo` (props.d/C13/fixes): the command objects on the stacks carry what
their last `do` recorded (`DCmd`), `undo` acts only if the command had an effect and re-inserts a
removed dataset at the recorded position.  That is not a switch of `step`: C06's property does
not depend on it (the invariant is proved for any recorded flag / position).
-/
namespace GlueVerif.Collection

/-- A `GroupedSubset` object: identity `id`, `.data` (dataset id; `none` = Python `None`), `.group`. -/
structure Sub where
  id : Nat
  data : Option Nat
  group : Nat
  deriving DecidableEq, Repr

/-- An attribute value of a group: `auto n` = the default computed by glue from `_sg_count`
(`SubsetState()` is `auto 0`; label `'Subset n'`; colour `SUBSET_COLORS[n]`), `user n` = the n-th
value of the harness' pool, assigned through `group.subset_state = …` etc. -/
inductive Val where
  | auto (n : Nat)
  | user (n : Nat)
  deriving DecidableEq, Repr

/-- `subset_state`, `label`, `style` of a `SubsetGroup`. -/
structure GVals where
  state : Val
  label : Val
  style : Val
  deriving DecidableEq, Repr

/-- An `AddData(d)` (`add = true`) / `RemoveData(d)` command object on one of the stacks, with what
its last `do` recorded (`fix: F4b-add-remove-data-undo`): `AddData._added` = `changed` (the dataset
was absent), `RemoveData._index` = `some index` if `changed` (the dataset was at that position),
`None` otherwise. -/
structure DCmd where
  add : Bool
  d : Nat
  changed : Bool
  index : Nat
  deriving DecidableEq, Repr

/-- Point update of a table indexed by object id. -/
def upd {α : Type} (f : Nat → α) (k : Nat) (v : α) : Nat → α := fun x => if x = k then v else f x

@[ext] structure State where
  /-- number of `Data` objects ever created (ids below it exist). -/
  nData : Nat
  /-- number of `SubsetGroup` objects ever created. -/
  nGroup : Nat
  /-- number of `GroupedSubset` objects ever created. -/
  nSub : Nat
  /-- `DataCollection._sg_count`. -/
  sgCount : Nat
  /-- `len(settings.SUBSET_COLORS)`. -/
  nColors : Nat
  /-- `DataCollection._data`, in order. -/
  datasets : List Nat
  /-- `DataCollection._subset_groups`, in order. -/
  groups : List Nat
  /-- the `SubsetGroup`s subscribed to the collection's hub, in subscription (= delivery) order. -/
  subs : List Nat
  /-- `Data._subsets` of every dataset ever created. -/
  dsubs : Nat → List Sub
  /-- `SubsetGroup.subsets` of every group ever created. -/
  gsubs : Nat → List Sub
  /-- attribute values of every group ever created. -/
  gvals : Nat → GVals
  /-- `Data.label` (as a token) of every dataset ever created. -/
  dlabel : Nat → Nat
  /-- `CommandStack._command_stack`, most recent first. -/
  done : List DCmd
  /-- `CommandStack._undo_stack`, most recent first. -/
  undone : List DCmd

/-- A fresh `DataCollection()` next to `n` fresh datasets labelled `0 … n-1` (not yet appended). -/
def init (n colors : Nat) : State :=
  { nData := n, nGroup := 0, nSub := 0, sgCount := 0, nColors := colors,
    datasets := [], groups := [], subs := [],
    dsubs := fun _ => [], gsubs := fun _ => [],
    gvals := fun _ => ⟨.auto 0, .auto 0, .auto 0⟩, dlabel := fun d => d, done := [], undone := [] }

inductive Op where
  | append (d : Nat)
  | extend (ds : List Nat)
  | remove (d : Nat)
  | clear
  | newGroup
  | removeGroup (g : Nat)
  | setState (g v : Nat)
  | setLabel (g v : Nat)
  | setStyle (g v : Nat)
  | merge (ds : List Nat)
  /-- `dc.insert(i, d)` (public since `fix: F4b-add-remove-data-undo`). -/
  | insert (i d : Nat)
  | setItem (key d : Nat)
  | restore
  /-- `command_stack.do(AddData(d))` (`add = true`) / `command_stack.do(RemoveData(d))`. -/
  | doCmd (add : Bool) (d : Nat)
  | undo
  | redo
  deriving DecidableEq, Repr

/-! ## Handlers -/

/-- `SubsetGroup._add_data(data)`: `s = GroupedSubset(data, self); data.add_subset(s);
self.subsets.append(s)`.  (`add_subset` returns early only if `s` is already attached, which cannot
happen for the object just created.) -/
def addData (g d : Nat) (st : State) : State :=
  let s : Sub := ⟨st.nSub, some d, g⟩
  { st with nSub := st.nSub + 1,
            dsubs := upd st.dsubs d (st.dsubs d ++ [s]),
            gsubs := upd st.gsubs g (st.gsubs g ++ [s]) }

/-- `Subset.delete()`: `if self.data is not None and self in self.data.subsets:
self.data._subsets.remove(self)` (first occurrence). -/
def deleteSub (s : Sub) (st : State) : State :=
  match s.data with
  | none => st
  | some d => { st with dsubs := upd st.dsubs d ((st.dsubs d).erase s) }

/-- `SubsetGroup._remove_data(data)`: `for s in list(self.subsets): if s.data is data:
self.subsets.remove(s)` — and, with the fix, `s.delete()`. -/
def removeDataH (fixed : Bool) (g d : Nat) (st : State) : State :=
  let gone := (st.gsubs g).filter (fun s => s.data == some d)
  let st1 := { st with gsubs := upd st.gsubs g ((st.gsubs g).filter (fun s => !(s.data == some d))) }
  if fixed then gone.foldl (fun st s => deleteSub s st) st1 else st1

/-! ## Operations of `DataCollection` -/

/-- `DataCollection.append(data)` for a single dataset (`= insert(len(_data), data)`): no-op if
already present; otherwise `_data.append`, `data.register_to_hub`, `s.register()` for the subsets the dataset already carries
(a no-op on the lists: they are attached already), then `DataCollectionAddMessage` to every
subscribed group in subscription order.  A dataset id that was never created is ignored. -/
def appendOne (d : Nat) (st : State) : State :=
  if d ∈ st.datasets ∨ st.nData ≤ d then st
  else st.subs.foldl (fun st g => addData g d st) { st with datasets := st.datasets ++ [d] }

/-- `DataCollection.insert(i, data)`: like `append`, but `_data.insert(i, data)` — Python clamps a
position beyond the end to the end.  The `DataCollectionAddMessage` is the same: every subscribed
group *appends* its new subset to `group.subsets` (which therefore need not be in dataset order). -/
def insertOne (i d : Nat) (st : State) : State :=
  if d ∈ st.datasets ∨ st.nData ≤ d then st
  else st.subs.foldl (fun st g => addData g d st)
    { st with datasets := st.datasets.insertIdx (min i st.datasets.length) d }

/-- `DataCollection.remove(data)`: no-op if absent; `_data.remove`, then
`DataCollectionDeleteMessage` to every subscribed group. -/
def removeOne (fixed : Bool) (d : Nat) (st : State) : State :=
  if d ∈ st.datasets then
    st.subs.foldl (fun st g => removeDataH fixed g d st) { st with datasets := st.datasets.erase d }
  else st

/-- `extend(data)` / `append(list)`: `for d in data: self.append(d)`. -/
def extend (ds : List Nat) (st : State) : State := ds.foldl (fun st d => appendOne d st) st

/-- `clear()`: `for data in list(self): self.remove(data)`. -/
def clear (fixed : Bool) (st : State) : State :=
  st.datasets.foldl (fun st d => removeOne fixed d st) st

/-- `new_subset_group()` (no arguments): `_sg_count += 1`, default label `'Subset %i' % _sg_count`,
default colour `SUBSET_COLORS[old _sg_count % len]`, then inside `hub.delay_callbacks()`:
`_subset_groups.append(result)`; `result.register(self)` = subscribe, create one `GroupedSubset`
per dataset (first loop, appended to `group.subsets`), then `d.add_subset(s)` for
`zip(data, self.subsets)` (second loop). -/
def newGroup (st : State) : State :=
  let g := st.nGroup
  let vals : GVals := ⟨.auto 0, .auto (st.sgCount + 1), .auto (st.sgCount % st.nColors)⟩
  let st1 : State := { st with nGroup := g + 1, sgCount := st.sgCount + 1,
                               groups := st.groups ++ [g], subs := st.subs ++ [g],
                               gvals := upd st.gvals g vals, gsubs := upd st.gsubs g [] }
  let st2 := st1.datasets.foldl (fun st d =>
      { st with nSub := st.nSub + 1, gsubs := upd st.gsubs g (st.gsubs g ++ [⟨st.nSub, some d, g⟩]) }) st1
  (st2.datasets.zip (st2.gsubs g)).foldl (fun st p =>
      { st with dsubs := upd st.dsubs p.1 (st.dsubs p.1 ++ [p.2]) }) st2

/-- `remove_subset_group(grp)`: no-op if not a live group; inside `hub.delay_callbacks()`:
`_subset_groups.remove(grp)`; `for s in grp.subsets: s.delete()`; `grp.unregister(hub)`.
`grp.subsets` itself is left as it is. -/
def removeGroup (g : Nat) (st : State) : State :=
  if g ∈ st.groups then
    let st1 := { st with groups := st.groups.erase g }
    let st2 := (st.gsubs g).foldl (fun st s => deleteSub s st) st1
    { st2 with subs := st2.subs.erase g }
  else st

/-- `group.subset_state = v` / `.label = v` / `.style = v` (also allowed on a removed group, whose
Python object still exists).  `SubsetGroup.__setattr__` skips the assignment when the new value
equals the old one — same abstract value either way. -/
def setVal (g : Nat) (f : GVals → GVals) (st : State) : State :=
  if g < st.nGroup then { st with gvals := upd st.gvals g (f (st.gvals g)) } else st

/-- `merge(*data)`: needs ≥ 2 arguments (else `ValueError`, state unchanged); `master =
Data(label=data[0].label)`; `self.append(master)`; (components are moved;) `self.remove(d)` for
every argument in order. -/
def merge (fixed : Bool) (ds : List Nat) (st : State) : State :=
  match ds with
  | d0 :: _ :: _ =>
    if ds.all (fun d => decide (d < st.nData)) then
      let m := st.nData
      let st1 : State := { st with nData := m + 1, dlabel := upd st.dlabel m (st.dlabel d0),
                                   dsubs := upd st.dsubs m [] }
      ds.foldl (fun st d => removeOne fixed d st) (appendOne m st1)
    else st
  | _ => st

/-- `dc[key] = data`: `data.label = key`; `for e in self._data[:]: if e.label == key:
self.remove(e)`; `self.append(data)`. -/
def setItem (fixed : Bool) (key d : Nat) (st : State) : State :=
  if st.nData ≤ d then st else
  let st1 : State := { st with dlabel := upd st.dlabel d key }
  let st2 := st1.datasets.foldl
    (fun st e => if st.dlabel e = key then removeOne fixed e st else st) st1
  appendOne d st2

/-- Saving the collection with `GlueSerializer` and loading it back with `GlueUnSerializer`
(`_save_data_collection_4` / `_load_data_collection_4`, `_save_data*` / `_load_data*`,
`SubsetGroup.__gluestate__` / `__setgluestate__`).  Object names are kept (the restored object
stands for the saved one).  Saved: the datasets in the collection with their `subsets` lists, the
live groups with their `subsets` lists.  Loading: every dataset re-attaches its saved subsets with
`add_subset` (which sets `subset.data`); a subset that is listed by a group but attached to no
saved dataset comes back with `data = None`; the new collection gets the datasets (no group is
subscribed yet at that point), then `_subset_groups` and the hub subscriptions of exactly the
saved groups, in order; `_sg_count` is restored.  Datasets outside the collection are not part of
the session, and a `Data` object of the old session cannot be moved to the new hub (`Data has
already been assigned to a different hub`): in the restored world a fresh `Data` object (no
subsets) with the same label stands for each of them.  Removed groups of the old session are not
part of the new one either; their old objects are left untouched.  The restored session has a
fresh, empty command stack. -/
def restore (st : State) : State :=
  let owner (s : Sub) : Option Nat := st.datasets.find? (fun d => (st.dsubs d).contains s)
  { st with
    dsubs := fun d => if d ∈ st.datasets then (st.dsubs d).map (fun s => { s with data := some d })
                      else [],
    gsubs := fun g => if g ∈ st.groups then (st.gsubs g).map (fun s => { s with data := owner s })
                      else st.gsubs g,
    subs := st.groups, done := [], undone := [] }

/-! ## Undo / redo of the collection-level commands (`glue/core/command.py`)

With `fix: F4b-add-remove-data-undo`: `AddData.do` records `_added = data not in dc`, then `append`;
`AddData.undo = remove` if `_added`; `RemoveData.do` records `_index = dc.index(data)` (`None` if
absent), then `remove`; `RemoveData.undo = insert(_index, data)` unless `_index is None`.
`CommandStack.do` pushes, runs, truncates to `MAX_UNDO = 50` and clears the redo stack; `undo` /
`redo` move the top command between the two stacks (`IndexError` on an empty stack: state
unchanged); `redo` runs `do` again, which records afresh.  The other commands (`ApplySubsetState`,
`ApplyROI`, …) belong to C13, which also proves that these `undo`s restore the collection exactly
when nothing but the command stack touches it; here arbitrary other operations may come between a
command and its undo (the recorded position may then even lie beyond the end). -/

def maxUndo : Nat := 50

/-- what `cmd.do` records on the command object, given the collection before it runs.  (A dataset
id that was never created is ignored by the harness; it is never in the collection.) -/
def record (add : Bool) (d : Nat) (st : State) : DCmd :=
  if add then ⟨true, d, !st.datasets.contains d, 0⟩
  else ⟨false, d, st.datasets.contains d, st.datasets.idxOf d⟩

def cmdDo (fixed : Bool) (c : DCmd) (st : State) : State :=
  if c.add then appendOne c.d st else removeOne fixed c.d st

def cmdUndo (fixed : Bool) (c : DCmd) (st : State) : State :=
  if c.changed then
    if c.add then removeOne fixed c.d st else insertOne c.index c.d st
  else st

def doCmd (fixed : Bool) (add : Bool) (d : Nat) (st : State) : State :=
  let c := record add d st
  let st1 := cmdDo fixed c { st with done := c :: st.done }
  { st1 with done := st1.done.take maxUndo, undone := [] }

def undoCmd (fixed : Bool) (st : State) : State :=
  match st.done with
  | [] => st
  | c :: rest => cmdUndo fixed c { st with done := rest, undone := c :: st.undone }

def redoCmd (fixed : Bool) (st : State) : State :=
  match st.undone with
  | [] => st
  | c :: rest =>
    let c' := record c.add c.d st
    let st1 := cmdDo fixed c' { st with undone := rest }
    { st1 with done := c' :: st1.done }

def step (fixed : Bool) (st : State) : Op → State
  | .append d => appendOne d st
  | .extend ds => extend ds st
  | .remove d => removeOne fixed d st
  | .clear => clear fixed st
  | .newGroup => newGroup st
  | .removeGroup g => removeGroup g st
  | .setState g v => setVal g (fun x => { x with state := .user v }) st
  | .setLabel g v => setVal g (fun x => { x with label := .user v }) st
  | .setStyle g v => setVal g (fun x => { x with style := .user v }) st
  | .merge ds => merge fixed ds st
  | .insert i d => insertOne i d st
  | .setItem key d => setItem fixed key d st
  | .restore => restore st
  | .doCmd add d => doCmd fixed add d st
  | .undo => undoCmd fixed st
  | .redo => redoCmd fixed st

def run (fixed : Bool) (st : State) (ops : List Op) : State := ops.foldl (step fixed) st

/-- The code as it is after `fix: F3-remove-data-detach`. -/
abbrev Impl.step := Collection.step true
abbrev Impl.run := Collection.run true
/-- The code before the fix (kept for the `decide`d witnesses). -/
abbrev Old.step := Collection.step false
abbrev Old.run := Collection.run false

/-! ## What a client reads through a grouped subset (Pointer semantics)

`GroupedSubset.subset_state`, `.label` are `Pointer('group.…')`, `.style` is a property returning
`self.group.style`: reading through a member returns whatever its `group` holds. -/
def readSub (st : State) (s : Sub) : GVals := st.gvals s.group

/-- One observed read: subset, the three values read through it, and whether the objects read
were *identical* (`is`) to the ones held by `s.group`. -/
structure Read where
  sub : Sub
  vals : GVals
  same : Bool

/-- All subsets attached to any dataset ever created or listed by any group ever created. -/
def allSubs (st : State) : List Sub :=
  ((List.range st.nData).flatMap st.dsubs) ++ ((List.range st.nGroup).flatMap st.gsubs)

def modelReads (st : State) : List Read := (allSubs st).map fun s => ⟨s, readSub st s, true⟩

/-! ## Spec: the property as a decidable predicate on an observed state

This is evaluated by the driver on the *implementation's* snapshot (and on the model's own).  It
is deliberately order-independent: it speaks about membership and multiplicity only. -/

/-- exactly one subset per live group on dataset `d`, and no others. -/
def dataOk (st : State) (d : Nat) : Bool :=
  st.groups.all (fun g => ((st.dsubs d).filter (fun s => s.group == g)).length == 1) &&
  (st.dsubs d).all (fun s => st.groups.contains s.group && s.data == some d)

/-- live group `g` lists exactly the subsets that the collection's datasets carry for it. -/
def groupOk (st : State) (g : Nat) : Bool :=
  (st.gsubs g).all (fun s => s.group == g &&
      st.datasets.any (fun d => s.data == some d && (st.dsubs d).contains s)) &&
  st.datasets.all (fun d => (st.dsubs d).all (fun s => s.group != g || (st.gsubs g).contains s)) &&
  (st.gsubs g).length == st.datasets.length

/-- a dataset that is not in the collection carries no subsets. -/
def removedDataOk (st : State) (d : Nat) : Bool :=
  st.datasets.contains d || (st.dsubs d).isEmpty

/-- a group that is not live is not subscribed and none of the subsets it still lists is attached
to any dataset; a live group is subscribed. -/
def removedGroupOk (st : State) (g : Nat) : Bool :=
  if st.groups.contains g then st.subs.contains g
  else !st.subs.contains g &&
    (st.gsubs g).all (fun s => (List.range st.nData).all (fun d => !(st.dsubs d).contains s))

/-- every member of a live group reads the group's state, label and style (same objects). -/
def readsOk (st : State) (reads : List Read) : Bool :=
  st.groups.all fun g => (st.gsubs g).all fun s =>
    reads.any (fun r => r.sub == s) &&
    reads.all (fun r => r.sub != s || (r.vals == st.gvals g && r.same))

def specOk (st : State) (reads : List Read) : Bool :=
  decide st.datasets.Nodup && decide st.groups.Nodup &&
  st.datasets.all (fun d => decide (d < st.nData)) && st.groups.all (fun g => decide (g < st.nGroup)) &&
  st.datasets.all (dataOk st) && st.groups.all (groupOk st) &&
  (List.range st.nData).all (removedDataOk st) && (List.range st.nGroup).all (removedGroupOk st) &&
  readsOk st reads

/-! ## The inductive invariant

Stronger than `specOk` (it also fixes the *order* of the lists, which is what makes it inductive
for the handlers as coded): every dataset in the collection carries its subsets in group order,
every live group lists one subset per dataset of the collection (in dataset order until a dataset
is inserted in front of others: a permutation), attachment and listing agree, datasets
outside the collection carry nothing, and exactly the live groups are subscribed. -/
structure Inv (st : State) : Prop where
  nodupD : st.datasets.Nodup
  nodupG : st.groups.Nodup
  subsEq : st.subs = st.groups
  dBound : ∀ d ∈ st.datasets, d < st.nData
  gBound : ∀ g ∈ st.groups, g < st.nGroup
  /-- the subsets of a dataset in the collection belong, in order, to the live groups. -/
  dataGroups : ∀ d ∈ st.datasets, (st.dsubs d).map (·.group) = st.groups
  /-- a subset attached to a dataset points back to it. -/
  subData : ∀ d, ∀ s ∈ st.dsubs d, s.data = some d
  /-- a dataset that is not in the collection carries no subsets. -/
  removedEmpty : ∀ d, d ∉ st.datasets → st.dsubs d = []
  /-- the subsets listed by a live group belong, one each, to the datasets of the collection
  (`DataCollection.insert` puts a dataset anywhere, its new subset goes to the end of the list). -/
  groupDatas : ∀ g ∈ st.groups, ((st.gsubs g).map (·.data)).Perm (st.datasets.map some)
  /-- a subset listed by a group (live or removed) points back to it. -/
  subGroup : ∀ g, ∀ s ∈ st.gsubs g, s.group = g
  /-- what a live group lists is attached to its dataset. -/
  groupAttached : ∀ g ∈ st.groups, ∀ s ∈ st.gsubs g, ∀ d, s.data = some d → s ∈ st.dsubs d
  /-- what a dataset of the collection carries is listed by the subset's group. -/
  attachedListed : ∀ d ∈ st.datasets, ∀ s ∈ st.dsubs d, s ∈ st.gsubs s.group

end GlueVerif.Collection
