import GlueVerif.Model.ArrayUtil
/-
L7 model: coordinate objects (`glue/core/coordinates.py`: `IdentityCoordinates`,
`AffineCoordinates`), the broadcasting shortcuts of `glue/core/coordinate_helpers.py`
(`pixel2world_single_axis`, `world2pixel_single_axis`, `dependent_axes`, `_coupled_axes`),
`CoordinateComponent._calculate` (`glue/core/component.py`) and the automatically created
`CoordinateComponentLink`s (`glue/core/component_link.py`, `Data._set_up_coordinate_component_links`).

Exact arithmetic over core `Rat`; core Lean only.

Conventions (as in the code):
* the augmented matrix `M` is `(n+1)×(n+1)`, in FITS order `(x, y, …)`:
  `world_k = Σ_j M[k][j] * pixel_j + M[k][n]`;
* numpy axis `i` of a dataset of dimension `n` is FITS axis `n-1-i`;
* `axis_correlation_matrix[w][p]` (FITS order) says that world axis `w` depends on pixel axis `p`.

`Impl.*` is the code of the tree under test (pinned tree + `props.d/C15/fixes/*.diff`);
`Pinned.*` keeps the two definitions of the unrepaired pinned tree for the `decide`d witnesses;
`Spec.*` is what property C15 demands: the transformation applied to the pixel grid, then the view.
numpy's `meshgrid`/`unbroadcast`/`broadcast_arrays`/`broadcast_to` are modelled by their value
semantics: an axis that is *kept* contributes its own coordinate, an axis that is collapsed
contributes the first element (`.flat[0]`) of its array, an axis outside `dependent_axes`
contributes `0`.
-/
namespace GlueVerif.Coords
open GlueVerif.ArrayUtil

/-! ## finite sums and matrices -/

/-- `Σ_{i<n} f i`. -/
def sumTo : Nat → (Nat → Rat) → Rat
  | 0, _ => 0
  | n + 1, f => sumTo n f + f n

abbrev Mat := List (List Rat)

/-- Entry `M[i][j]` (`0` outside the stored rows / columns). -/
def ent (M : Mat) (i j : Nat) : Rat := (M.getD i []).getD j 0

/-- `matrix.shape == (n+1, n+1)`. -/
def isSquare (n : Nat) (M : Mat) : Bool :=
  M.length == n + 1 && M.all (fun r => r.length == n + 1)

/-- `np.any(matrix[-1, :-1] != 0) or matrix[-1, -1] != 1` is false. -/
def lastRowOk (n : Nat) (M : Mat) : Bool :=
  (List.range n).all (fun j => ent M n j == 0) && ent M n n == 1

/-- `(N · M)[i][j]` for `(n+1)×(n+1)` matrices. -/
def mulEnt (n : Nat) (N M : Mat) (i j : Nat) : Rat := sumTo (n + 1) fun k => ent N i k * ent M k j

/-- `N` is a two-sided inverse of `M` (both `(n+1)×(n+1)`): decidable, evaluated by the driver. -/
def isInv (n : Nat) (M N : Mat) : Bool :=
  (List.range (n + 1)).all fun i => (List.range (n + 1)).all fun j =>
    mulEnt n N M i j == (if i = j then 1 else 0) && mulEnt n M N i j == (if i = j then 1 else 0)

/-- `[x…, 1] · Mᵀ` without its last entry: the affine map of the augmented matrix, as coded in
`AffineCoordinates.pixel_to_world_values` / `world_to_pixel_values`. -/
def affApply (n : Nat) (M : Mat) (x : List Rat) : List Rat :=
  (List.range n).map fun k => sumTo n (fun j => ent M k j * x.getD j 0) + ent M k n * 1

/-! ### determinant / inverse of the linear part for `n ≤ 3` (adjugate)

`np.linalg.inv` of the augmented matrix `[[A, t], [0, 1]]` is `[[A⁻¹, -A⁻¹ t], [0, 1]]`. -/

def det (n : Nat) (M : Mat) : Rat :=
  let e := ent M
  match n with
  | 0 => 1
  | 1 => e 0 0
  | 2 => e 0 0 * e 1 1 - e 0 1 * e 1 0
  | 3 => e 0 0 * (e 1 1 * e 2 2 - e 1 2 * e 2 1) - e 0 1 * (e 1 0 * e 2 2 - e 1 2 * e 2 0)
       + e 0 2 * (e 1 0 * e 2 1 - e 1 1 * e 2 0)
  | _ => 0

/-- Adjugate of the linear part (`n ≤ 3`). -/
def adj (n : Nat) (M : Mat) : Mat :=
  let e := ent M
  match n with
  | 1 => [[1]]
  | 2 => [[e 1 1, -(e 0 1)], [-(e 1 0), e 0 0]]
  | 3 => [[e 1 1 * e 2 2 - e 1 2 * e 2 1, e 0 2 * e 2 1 - e 0 1 * e 2 2, e 0 1 * e 1 2 - e 0 2 * e 1 1],
          [e 1 2 * e 2 0 - e 1 0 * e 2 2, e 0 0 * e 2 2 - e 0 2 * e 2 0, e 0 2 * e 1 0 - e 0 0 * e 1 2],
          [e 1 0 * e 2 1 - e 1 1 * e 2 0, e 0 1 * e 2 0 - e 0 0 * e 2 1, e 0 0 * e 1 1 - e 0 1 * e 1 0]]
  | _ => []

/-- Inverse of the augmented matrix for `1 ≤ n ≤ 3`; `none` = singular (`LinAlgError`) or
dimension not modelled. -/
def invAug (n : Nat) (M : Mat) : Option Mat :=
  if n = 0 ∨ 3 < n then none else
  let d := det n M
  if d = 0 then none else
  let B : Mat := (adj n M).map fun r => r.map (· / d)
  let rows : Mat := (List.range n).map fun i =>
    (List.range n).map (fun j => ent B i j) ++ [-(sumTo n fun j => ent B i j * ent M j n)]
  some (rows ++ [(List.range n).map (fun _ => (0 : Rat)) ++ [1]])

/-! ## coordinate objects -/

inductive Coord where
  | identity (n : Nat)
  | affine (n : Nat) (m inv : Mat)
  deriving Repr

def Coord.n : Coord → Nat
  | .identity n => n
  | .affine n _ _ => n

/-- `axis_correlation_matrix[w][p]` (FITS order). -/
def Coord.corr : Coord → Nat → Nat → Bool
  | .identity _, w, p => w == p
  | .affine _ m _, w, p => ent m w p != 0

/-- `pixel_to_world_values(*x)` (FITS order in and out). -/
def Coord.p2w : Coord → List Rat → List Rat
  | .identity n, x => (List.range n).map fun k => x.getD k 0
  | .affine n m _, x => affApply n m x

/-- `world_to_pixel_values(*y)`. -/
def Coord.w2p : Coord → List Rat → List Rat
  | .identity n, y => (List.range n).map fun k => y.getD k 0
  | .affine n _ inv, y => affApply n inv y

/-- Entry `[p][w]` of the linear part of the inverse transformation (FITS order). -/
def Coord.invEnt : Coord → Nat → Nat → Rat
  | .identity _, p, w => if p = w then 1 else 0
  | .affine _ _ inv, p, w => ent inv p w

inductive CoordErr | valueError | linAlgError | notModelled
  deriving Repr, BEq

/-- `AffineCoordinates(matrix)` for a 2-d array given as a list of equally long rows. -/
def mkAffine (M : Mat) : Except CoordErr Coord :=
  let n := M.length - 1
  if M.length = 0 then .error .valueError else
  if !isSquare n M then .error .valueError else
  if !lastRowOk n M then .error .valueError else
  if n = 0 ∨ 3 < n then .error .notModelled else
  match invAug n M with
  | none => .error .linAlgError
  | some inv => .ok (.affine n M inv)

/-! ## `_coupled_axes` (repaired tree) and `dependent_axes` -/

/-- One round of the `while True` loop of `_coupled_axes`: state = (pixel flags, world flags). -/
def coupledStep (C : Nat → Nat → Bool) (n : Nat) (s : List Bool × List Bool) : List Bool × List Bool :=
  let world' := (List.range n).map fun w =>
    s.2.getD w false || (List.range n).any fun p => s.1.getD p false && C w p
  let pixel' := (List.range n).map fun p =>
    s.1.getD p false || (List.range n).any fun w => world'.getD w false && C w p
  (pixel', world')

/-- The loop, with fuel (`2n+1` rounds always suffice: every round that changes the state adds
an axis). -/
def coupledLoop (C : Nat → Nat → Bool) (n : Nat) : Nat → List Bool × List Bool → List Bool × List Bool
  | 0, s => s
  | fuel + 1, s =>
    let s' := coupledStep C n s
    if s' == s then s else coupledLoop C n fuel s'

def seedFlags (n : Nat) (seeds : List Nat) : List Bool := (List.range n).map fun k => seeds.contains k

/-- `_coupled_axes(wcs, pixel_axes, world_axes)` → `(pixel, world)` flags, FITS order. -/
def coupledAxes (c : Coord) (pixelSeeds worldSeeds : List Nat) : List Bool × List Bool :=
  coupledLoop c.corr c.n (2 * c.n + 1) (seedFlags c.n pixelSeeds, seedFlags c.n worldSeeds)

/-- The state is closed under the correlation matrix: a world axis and a pixel axis that are
correlated are either both inside or both outside. -/
def closedUnder (C : Nat → Nat → Bool) (n : Nat) (s : List Bool × List Bool) : Bool :=
  (List.range n).all fun w => (List.range n).all fun p =>
    !C w p || (s.2.getD w false == s.1.getD p false)

namespace Impl

/-- `dependent_axes(coords, axis)`, numpy axis order in and out (sorted). -/
def dependentAxes (c : Coord) (axis : Nat) : List Nat :=
  let n := c.n
  let s := coupledAxes c [n - 1 - axis] [n - 1 - axis]
  (List.range n).filter fun k => s.1.getD (n - 1 - k) false || s.2.getD (n - 1 - k) false

/-- `world_dep` of `world2pixel_single_axis(…, pixel_axis=p)`: FITS order flags. -/
def worldDep (c : Coord) (p : Nat) : Nat → Bool :=
  fun w => (coupledAxes c [p] []).2.getD w false

end Impl

namespace Pinned

/-- `dependent_axes` of the unrepaired tree: reverse both axes, take column `axis`, `&`, `any`:
the pixel axes that share a world axis with pixel axis `axis`. -/
def dependentAxes (c : Coord) (axis : Nat) : List Nat :=
  let n := c.n
  let m (w p : Nat) : Bool := c.corr (n - 1 - w) (n - 1 - p)
  (List.range n).filter fun p => (List.range n).any fun w => m w axis && m w p

/-- `world_dep = axis_correlation_matrix[:, pixel_axis]` of the unrepaired tree. -/
def worldDep (c : Coord) (p : Nat) : Nat → Bool := fun w => c.corr w p

end Pinned

/-! ## arrays, views -/

structure Arr where
  shape : List Nat
  data  : List Rat
  deriving Repr, BEq

inductive View where
  /-- `None` / `Ellipsis`. -/
  | all
  /-- a scalar, a slice, or a tuple of scalars and slices (not longer than `ndim`). -/
  | basic (items : List ViewItem)
  /-- a tuple of `ndim` integer index arrays of a common shape (each flattened), in range. -/
  | arrays (shape : List Nat) (idx : List (List Nat))
  /-- a Boolean mask of the full shape (flattened, row-major). -/
  | mask (m : List Bool)
  deriving Repr

inductive Sel where
  | scalar (k : Nat)
  | many (ks : List Nat)
  deriving Repr, BEq

def Sel.toList : Sel → List Nat
  | .scalar k => [k]
  | .many ks => ks

inductive ViewErr | indexError | domain
  deriving Repr, BEq

/-- `np.arange(h)[item]`. -/
def selOf (h : Nat) : ViewItem → Except ViewErr Sel
  | .int i => if (-(h : Int)) ≤ i ∧ i < h then .ok (.scalar (if i < 0 then i + h else i).toNat)
              else .error .indexError
  | .slice a b c =>
    match sliceIndices a b c h with
    | none => .error .domain
    | some (b', e', st') =>
      let cnt := if st' > 0 then rangeLen b' e' st'.toNat else rangeLen e' b' (-st').toNat
      .ok (.many ((List.range cnt).map fun (k : Nat) => (b' + (k : Int) * st').toNat))

/-- Per-axis selections of a tuple of scalars / slices, padded with full axes. -/
def selsOf : List Nat → List ViewItem → Except ViewErr (List Sel)
  | [], [] => .ok []
  | [], _ :: _ => .error .indexError
  | h :: hs, [] => (selsOf hs []).map (Sel.many (List.range h) :: ·)
  | h :: hs, it :: its => do
    let s ← selOf h it
    let rest ← selsOf hs its
    pure (s :: rest)

/-- Row-major product of per-axis index lists. -/
def cart : List (List Nat) → List (List Nat)
  | [] => [[]]
  | xs :: rest => xs.flatMap fun x => (cart rest).map (x :: ·)

def fullSels (sh : List Nat) : List Sel := sh.map fun h => Sel.many (List.range h)

def selShape (sels : List Sel) : List Nat :=
  sels.filterMap fun s => match s with | .scalar _ => none | .many ks => some ks.length

/-- Keep the elements whose flag is set (`a[mask]`). -/
def maskFilter {α : Type} : List α → List Bool → List α
  | x :: xs, b :: bs => if b then x :: maskFilter xs bs else maskFilter xs bs
  | _, _ => []

/-- Transpose `n` index arrays of length `len` into `len` index tuples. -/
def pointsOf (idx : List (List Nat)) (len : Nat) : List (List Nat) :=
  (List.range len).map fun r => idx.map fun a => a.getD r 0

/-- numpy semantics of `full[view]` for an array of shape `sh`: the shape of the result and, for
every element of the result (row-major), the index tuple of `full` it comes from. -/
def viewPoints (sh : List Nat) : View → Except ViewErr (List Nat × List (List Nat))
  | .all => .ok (sh, cart ((fullSels sh).map Sel.toList))
  | .basic items => do
    let sels ← selsOf sh items
    pure (selShape sels, cart (sels.map Sel.toList))
  | .arrays s idx =>
    if idx.length ≠ sh.length ∨ idx.any (fun a => a.length ≠ prod s) then .error .domain
    else if (idx.zip sh).any (fun p => p.1.any (fun k => k ≥ p.2)) then .error .domain
    else .ok (s, pointsOf idx (prod s))
  | .mask m =>
    if m.length ≠ prod sh then .error .domain
    else
      let pts := maskFilter (cart ((fullSels sh).map Sel.toList)) m
      .ok ([pts.length], pts)

/-! ## world values -/

/-- Pixel position (numpy order) → FITS-order argument list. -/
def toFits (pos : List Rat) : List Rat := pos.reverse

/-- World coordinate of numpy world axis `a` at a (rational) pixel position in numpy order:
`pixel_to_world_values(*pos[::-1])[n-1-a]`. -/
def worldAtQ (c : Coord) (a : Nat) (pos : List Rat) : Rat :=
  (c.p2w (toFits pos)).getD (c.n - 1 - a) 0

def natPos (idx : List Nat) : List Rat := idx.map fun (k : Nat) => (k : Rat)

namespace Spec

/-- The transformation applied to the pixel grid point `idx`. -/
def worldAt (c : Coord) (a : Nat) (idx : List Nat) : Rat := worldAtQ c a (natPos idx)

/-- `world(full grid)[view]` for world axis `a`. -/
def worldView (c : Coord) (sh : List Nat) (a : Nat) (v : View) : Except ViewErr Arr := do
  let (shape, pts) ← viewPoints sh v
  pure ⟨shape, pts.map (worldAt c a)⟩

end Spec

namespace Impl

/-- Pixel position seen by `pixel_to_world_values` inside `CoordinateComponent._calculate`
(grid paths) for world axis `a`: axes outside `dep` were replaced by `0`, axes not flagged by the
correlation row are collapsed to their first element by `pixel2world_single_axis`. -/
def subst (c : Coord) (a : Nat) (dep : List Nat) (firsts idx : List Nat) : List Rat :=
  (List.range c.n).map fun i =>
    if dep.contains i then
      if c.corr (c.n - 1 - a) (c.n - 1 - i) then ((idx.getD i 0 : Nat) : Rat)
      else ((firsts.getD i 0 : Nat) : Rat)
    else 0

/-- The (broadcast) grid computed by `_calculate` for per-axis selections `sels`. -/
def gridWith (depFn : Coord → Nat → List Nat) (c : Coord) (a : Nat) (sels : List Sel) : List Rat :=
  let dep := depFn c a
  let firsts := sels.map fun s => s.toList.headD 0
  (cart (sels.map Sel.toList)).map fun idx => worldAtQ c a (subst c a dep firsts idx)

/-- `pixel2world_single_axis(coords, *arrays[::-1], world_axis=n-1-a)` on index arrays:
only the correlation row decides what is collapsed. -/
def arraysPath (c : Coord) (a : Nat) (pts : List (List Nat)) : List Rat :=
  let first := pts.headD []
  pts.map fun idx => worldAtQ c a <|
    (List.range c.n).map fun i =>
      if c.corr (c.n - 1 - a) (c.n - 1 - i) then ((idx.getD i 0 : Nat) : Rat)
      else ((first.getD i 0 : Nat) : Rat)

/-- `CoordinateComponent._calculate(view)` for `world=True`, axis `a` (numpy order), with the
dependency function as a parameter (`Impl.dependentAxes` for the tree under test). -/
def worldViewWith (depFn : Coord → Nat → List Nat) (c : Coord) (sh : List Nat) (a : Nat) :
    View → Except ViewErr Arr
  | .all => .ok ⟨sh, gridWith depFn c a (fullSels sh)⟩
  | .basic items => do
    let sels ← selsOf sh items
    pure ⟨selShape sels, gridWith depFn c a sels⟩
  | .arrays s idx => do
    let (shape, pts) ← viewPoints sh (.arrays s idx)
    pure ⟨shape, arraysPath c a pts⟩
  | .mask m =>
    if m.length ≠ prod sh then .error .domain
    else
      let vals := maskFilter (gridWith depFn c a (fullSels sh)) m
      .ok ⟨[vals.length], vals⟩

def worldView := worldViewWith dependentAxes

/-- Which branch of `_calculate` a view exercises (for the evidence). -/
def branch (c : Coord) (sh : List Nat) (a : Nat) : View → String
  | .all => if (dependentAxes c a).length == sh.length then "full-nobcast" else "full-bcast"
  | .basic items =>
    match selsOf sh items with
    | .error _ => "index-error"
    | .ok sels =>
      if (cart (sels.map Sel.toList)).isEmpty then "opt-empty"
      else if (dependentAxes c a).length == sh.length then "opt-nobcast" else "opt-bcast"
  | .arrays _ _ => "arrays"
  | .mask _ => "mask"

end Impl

/-! ## coordinate links -/

namespace Spec

/-- Pixel→world link for world axis `i`: the world component itself. -/
def linkP2W (c : Coord) (sh : List Nat) (i : Nat) (v : View) : Except ViewErr Arr := worldView c sh i v

/-- World→pixel link for pixel axis `i`: `world_to_pixel_values` applied directly to the world
coordinates of the grid points, component `n-1-i`. -/
def linkW2P (c : Coord) (sh : List Nat) (i : Nat) (v : View) : Except ViewErr Arr := do
  let (shape, pts) ← viewPoints sh v
  pure ⟨shape, pts.map fun idx =>
    (c.w2p (c.p2w (toFits (natPos idx)))).getD (c.n - 1 - i) 0⟩

/-- The pixel component itself (what the world→pixel link must reproduce). -/
def pixelView (sh : List Nat) (i : Nat) (v : View) : Except ViewErr Arr := do
  let (shape, pts) ← viewPoints sh v
  pure ⟨shape, pts.map fun idx => ((idx.getD i 0 : Nat) : Rat)⟩

end Spec

namespace Impl

/-- Values of world component `w` as the world→pixel link receives them in
`ComponentLink.compute` (`data[join_component_view(world_cid, view)]` → `_calculate`), for a view
that `viewPoints` accepted with points `pts`.  `join_component_view` + `split_component_view`
turn a 1-tuple holding one index array into a bare array, which `_calculate` evaluates on the full
grid and then indexes. -/
def linkWorldArg (depFn : Coord → Nat → List Nat) (c : Coord) (sh : List Nat) (w : Nat) (v : View)
    (pts : List (List Nat)) : List Rat :=
  match v with
  | .all => gridWith depFn c w (fullSels sh)
  | .basic items =>
    match selsOf sh items with
    | .ok sels => gridWith depFn c w sels
    | .error _ => []
  | .arrays _ [a] =>
    let full := gridWith depFn c w (fullSels sh)
    a.map fun k => full.getD k 0
  | .arrays _ _ => arraysPath c w pts
  | .mask m => maskFilter (gridWith depFn c w (fullSels sh)) m

/-- `CoordinateComponentLink.compute` for the pixel→world link of world axis `i`: arguments are
the pixel components in `from_needed`; the others default to `0`; `pixel2world_single_axis`
collapses what the correlation row does not flag. -/
def linkP2WWith (depFn : Coord → Nat → List Nat) (c : Coord) (sh : List Nat) (i : Nat) (v : View) :
    Except ViewErr Arr := do
  let (shape, pts) ← viewPoints sh v
  let needed := depFn c i
  let first := pts.headD []
  pure ⟨shape, pts.map fun idx => worldAtQ c i <|
    (List.range c.n).map fun j =>
      if needed.contains j then
        if c.corr (c.n - 1 - i) (c.n - 1 - j) then ((idx.getD j 0 : Nat) : Rat)
        else ((first.getD j 0 : Nat) : Rat)
      else 0⟩

/-- `CoordinateComponentLink.compute` for the world→pixel link of pixel axis `i`: arguments are
the world components (as `_calculate` computes them) in `from_needed`; the others default to `0`;
`world2pixel_single_axis` collapses the world axes outside `world_dep`. -/
def linkW2PWith (depFn : Coord → Nat → List Nat) (wdep : Coord → Nat → Nat → Bool)
    (c : Coord) (sh : List Nat) (i : Nat) (v : View) : Except ViewErr Arr := do
  let (shape, pts) ← viewPoints sh v
  let n := c.n
  let needed := depFn c i
  -- world component values under the view, one list per numpy world axis
  let ws := (List.range n).map fun w => linkWorldArg depFn c sh w v pts
  let flagged := wdep c (n - 1 - i)
  pure ⟨shape, (List.range pts.length).map fun r =>
    let y : List Rat := (List.range n).map fun w =>
      if needed.contains w then
        if flagged (n - 1 - w) then (ws.getD w []).getD r 0 else (ws.getD w []).getD 0 0
      else 0
    (c.w2p (toFits y)).getD (n - 1 - i) 0⟩

def linkP2W := linkP2WWith dependentAxes
def linkW2P := linkW2PWith dependentAxes worldDep

end Impl

namespace Pinned
def worldView := Impl.worldViewWith dependentAxes
def linkP2W := Impl.linkP2WWith dependentAxes
def linkW2P := Impl.linkW2PWith dependentAxes worldDep
end Pinned

/-! ## decidable hypotheses used by the theorems -/

/-- Every pixel axis world axis `a` (numpy order) really depends on is in `dep`. -/
def needSubset (c : Coord) (a : Nat) (dep : List Nat) : Bool :=
  (List.range c.n).all fun i => !c.corr (c.n - 1 - a) (c.n - 1 - i) || dep.contains i

/-- A well-formed affine coordinate object: square, last row `0…0 1`, stored inverse is a
two-sided inverse. -/
def Coord.wf : Coord → Bool
  | .identity _ => true
  | .affine n m inv => isSquare n m && lastRowOk n m && isInv n m inv

/-- Non-zero pattern of row `p` of the inverse is inside the flags (what the world→pixel
shortcut needs). -/
def invRowSubset (c : Coord) (p : Nat) (flags : Nat → Bool) : Bool :=
  (List.range c.n).all fun w => c.invEnt p w == 0 || flags w

end GlueVerif.Coords
