/-
L3 — subset-state evaluation (`glue/core/subset.py`, `decorators.py`, `edit_subset_mode.py`).

Core Lean only.  Three layers, kept separate so that C05 can add mutation ops on top:

* `Graph`  : the object heap of subset-state nodes (identity = index), the parameter objects the
             leaves refer to *by reference* (ROI objects, `pairs` lists, mask arrays …) and the
             Python `list` objects held by `MultiOrState.states`.  Only construction / `copy()`
             touch it here; C05's `setParam`, `roiEdit`, … are further functions on `Graph`.
* `Heap`   : `Graph` + array heap (ndarray objects with identity, in-place `|=`) + the `@memoize`
             tables (one per decorated *function object*), keyed as `decorators._make_key` does.
             `toMask` is the code as written (memo wrapper, positional / keyword call forms,
             unhashable views bypass the cache, `MultiOrState` copies the first mask then `|=`).
* `Spec`   : `Expr` — selections as *values* — and `Expr.denote`, the pure recursive semantics:
             the elementwise Boolean function of the masks of the parts.  `Spec.step` runs the
             same programs (`Op`) on values; `Impl.step` runs them on the heap.
-/
namespace GlueVerif.SubsetEval

abbrev NodeId := Nat
abbrev ParamId := Nat
abbrev ListId := Nat
abbrev ArrId := Nat
abbrev DataId := Nat
/-- Index into the leaf environment: *what the parameters of an elementary selection say*. -/
abbrev Content := Nat

/-- A Boolean ndarray: shape and row-major flattened values. -/
structure Mask where
  shape : List Nat
  bits : List Bool
  deriving DecidableEq, Repr, Inhabited

inductive Err where
  | incompatible   -- `IncompatibleAttribute`
  | shape          -- numpy: operands could not be broadcast together
  | other          -- any other exception of a leaf
  | dangling       -- model-internal: reference to a non-existing object (never on reachable heaps)
  | fuel           -- model-internal: recursion fuel exhausted (never on reachable heaps)
  deriving DecidableEq, Repr

inductive BinOp where
  | and | or | xor
  deriving DecidableEq, Repr

def BinOp.fn : BinOp → Bool → Bool → Bool
  | .and, a, b => a && b
  | .or, a, b => a || b
  | .xor, a, b => Bool.xor a b

/-- `operator.and_/or_/xor` on two Boolean arrays (same shape; anything else is a shape error —
numpy would broadcast some mismatches, the property never needs that). -/
def Mask.binop (op : BinOp) (a b : Mask) : Except Err Mask :=
  if a.shape = b.shape then .ok ⟨a.shape, List.zipWith op.fn a.bits b.bits⟩ else .error .shape

/-- `~mask`. -/
def Mask.not (a : Mask) : Mask := ⟨a.shape, a.bits.map (!·)⟩

/-- A view argument.  Views are compared as Python compares memo keys (`==` + `hash`): the harness
gives equal views the same `id`; `hashable = false` for lists / ndarrays (`TypeError` in the memo
wrapper → cache bypass). -/
structure View where
  id : Nat
  hashable : Bool
  deriving DecidableEq, Repr

/-- The leaf environment: mask (or exception) of every elementary selection content on every
dataset and view.  Internals of the leaf classes belong to C04/C08/C09/C11. -/
structure Env where
  leaf : Content → DataId → View → Except Err Mask

/-! ## Spec: selections as values -/

inductive Expr where
  | leaf (c : Content)
  | bin (op : BinOp) (a b : Expr)
  | inv (a : Expr)
  | multiOr (es : List Expr)
  deriving Repr, Inhabited

mutual
/-- The pure recursive semantics: the elementwise Boolean function of the parts' masks. -/
def Expr.denote (env : Env) (d : DataId) (v : View) : Expr → Except Err Mask
  | .leaf c => env.leaf c d v
  | .bin op a b =>
    match a.denote env d v with
    | .error e => .error e
    | .ok x =>
      match b.denote env d v with
      | .error e => .error e
      | .ok y => Mask.binop op x y
  | .inv a =>
    match a.denote env d v with
    | .error e => .error e
    | .ok x => .ok x.not
  | .multiOr es => denoteOr env d v es
/-- Many-way `or`: the first mask, then every further mask or-ed onto it, in order. -/
def denoteOr (env : Env) (d : DataId) (v : View) : List Expr → Except Err Mask
  | [] => .error .other
  | e :: es =>
    match e.denote env d v with
    | .error er => .error er
    | .ok x => orFold env d v x es
def orFold (env : Env) (d : DataId) (v : View) (acc : Mask) : List Expr → Except Err Mask
  | [] => .ok acc
  | e :: es =>
    match e.denote env d v with
    | .error er => .error er
    | .ok y =>
      match Mask.binop .or acc y with
      | .error er => .error er
      | .ok acc' => orFold env d v acc' es
end

mutual
def Expr.depth : Expr → Nat
  | .leaf _ => 0
  | .bin _ a b => 1 + max a.depth b.depth
  | .inv a => 1 + a.depth
  | .multiOr es => 1 + depthList es
def depthList : List Expr → Nat
  | [] => 0
  | e :: es => max e.depth (depthList es)
end

/-! ## Classes -/

/-- Elementary selection classes (every non-composite `SubsetState` subclass of the tree). -/
inductive Kind where
  | base | roiNd | roi2d | roi3d | catRoi | range | multiRange | catRoi2d | catMultiRange
  | mask | floodFill | slice | pixel | category | element | inequality | parsed
  deriving DecidableEq, Repr

/-- What `copy()` of a leaf class does with the object's primary parameter object. -/
inductive CopyBeh where
  | share    -- new state object referring to the *same* parameter object (ROI, list, dict, ndarray)
  | fresh    -- new state object with its own parameter object of equal content (by value / `.copy()`)
  | toBase   -- no `copy` of its own: inherits `SubsetState.copy` → a plain, empty `SubsetState()`
  deriving DecidableEq, Repr

/-- One `@memoize` table per decorated function object. -/
inductive Table where
  | composite   -- `CompositeSubsetState.to_mask` (shared by And/Or/Xor)
  | invert | multiOr | catRoi | catRoi2d | catMultiRange | category | element | inequality
  deriving DecidableEq, Repr

structure ClassTable where
  copy : Kind → CopyBeh
  leafMemo : Kind → Option Table

/-- The tree with `fix: RoiSubsetStateNd.copy / ParsedSubsetState.copy` applied. -/
def classTable : ClassTable where
  copy
    | .base => .fresh | .roiNd => .share | .roi2d => .share | .roi3d => .share | .catRoi => .share
    | .range => .fresh | .multiRange => .share | .catRoi2d => .share | .catMultiRange => .share
    | .mask => .share | .floodFill => .fresh | .slice => .share | .pixel => .share
    | .category => .fresh | .element => .share | .inequality => .fresh | .parsed => .share
  leafMemo
    | .catRoi => some .catRoi | .catRoi2d => some .catRoi2d | .catMultiRange => some .catMultiRange
    | .category => some .category | .element => some .element | .inequality => some .inequality
    | _ => none

/-- The pinned tree (before the fix): two classes have no `copy` of their own. -/
def pinnedTable : ClassTable :=
  { classTable with copy := fun k => if k = .roiNd ∨ k = .parsed then .toBase else classTable.copy k }

/-- No class loses its parameters on `copy()`. -/
def ClassTable.Faithful (t : ClassTable) : Prop := ∀ k, t.copy k ≠ .toBase

/-- The content of a plain `SubsetState()` (the harness puts it at index 0 of every leaf table). -/
def emptyContent : Content := 0

/-! ## The object graph -/

inductive Node where
  | leaf (k : Kind) (p : ParamId)
  | bin (op : BinOp) (l r : NodeId)
  | inv (c : NodeId)
  | multiOr (lst : ListId)
  deriving DecidableEq, Repr

structure Graph where
  nodes : List Node := []
  params : List Content := []          -- parameter objects (by identity) and what they say
  lists : List (List NodeId) := []     -- Python list objects held by `MultiOrState.states`
  deriving Repr

def Graph.addNode (g : Graph) (nd : Node) : Graph × NodeId :=
  ({ g with nodes := g.nodes ++ [nd] }, g.nodes.length)
def Graph.addParam (g : Graph) (c : Content) : Graph × ParamId :=
  ({ g with params := g.params ++ [c] }, g.params.length)
def Graph.addList (g : Graph) (l : List NodeId) : Graph × ListId :=
  ({ g with lists := g.lists ++ [l] }, g.lists.length)

/-- `state.copy()` as each class codes it.  `CompositeSubsetState.copy` is
`type(self)(self.state1, self.state2)` whose `__init__` copies both operands (state1 first);
`MultiOrState.copy` is `type(self)(self.states)` — the *same* list object. -/
def copyNode (tbl : ClassTable) : Nat → Graph → NodeId → Graph × Option NodeId
  | 0, g, _ => (g, none)
  | fuel + 1, g, n =>
    match g.nodes[n]? with
    | none => (g, none)
    | some (.leaf k p) =>
      match tbl.copy k with
      | .share => let r := g.addNode (.leaf k p); (r.1, some r.2)
      | .fresh =>
        match g.params[p]? with
        | none => (g, none)
        | some c =>
          let r1 := g.addParam c
          let r := r1.1.addNode (.leaf k r1.2); (r.1, some r.2)
      | .toBase =>
        let r1 := g.addParam emptyContent
        let r := r1.1.addNode (.leaf .base r1.2); (r.1, some r.2)
    | some (.bin op l r) =>
      match copyNode tbl fuel g l with
      | (g1, none) => (g1, none)
      | (g1, some l') =>
        match copyNode tbl fuel g1 r with
        | (g2, none) => (g2, none)
        | (g2, some r') => let x := g2.addNode (.bin op l' r'); (x.1, some x.2)
    | some (.inv c) =>
      match copyNode tbl fuel g c with
      | (g1, none) => (g1, none)
      | (g1, some c') => let x := g1.addNode (.inv c'); (x.1, some x.2)
    | some (.multiOr lst) => let x := g.addNode (.multiOr lst); (x.1, some x.2)

/-- Enough fuel for every node of the graph (children are older than parents). -/
def Graph.fuel (g : Graph) : Nat := g.nodes.length + 1

/-- `SubsetState.__and__/__or__/__xor__`: `AndState(a, b)` etc. — copies both operands. -/
def mkBin (tbl : ClassTable) (g : Graph) (op : BinOp) (a b : NodeId) : Graph × Option NodeId :=
  match copyNode tbl g.fuel g a with
  | (g1, none) => (g1, none)
  | (g1, some a') =>
    match copyNode tbl g1.fuel g1 b with
    | (g2, none) => (g2, none)
    | (g2, some b') => let x := g2.addNode (.bin op a' b'); (x.1, some x.2)

/-- `SubsetState.__invert__`: `InvertState(a)` — copies the operand. -/
def mkInv (tbl : ClassTable) (g : Graph) (a : NodeId) : Graph × Option NodeId :=
  match copyNode tbl g.fuel g a with
  | (g1, none) => (g1, none)
  | (g1, some a') => let x := g1.addNode (.inv a'); (x.1, some x.2)

/-- `MultiOrState(states)`: keeps the list it is given (a new list object built by the caller),
whose elements are the caller's state objects themselves — no copies. -/
def mkMultiOr (g : Graph) (cs : List NodeId) : Graph × NodeId :=
  let r1 := g.addList cs
  r1.1.addNode (.multiOr r1.2)

/-- Construct an elementary selection: a new parameter object and a new state object. -/
def mkLeaf (g : Graph) (k : Kind) (c : Content) : Graph × NodeId :=
  let r1 := g.addParam c
  r1.1.addNode (.leaf k r1.2)

/-! ## Abstraction: which value a state object stands for -/

mutual
/-- `Rep g n e`: the object `n` of graph `g` represents the selection value `e` (children are
older objects than their parents — object graphs built by constructors and `copy()` are acyclic). -/
def Rep (g : Graph) : Nat → Expr → Prop
  | n, .leaf c => ∃ k p, g.nodes[n]? = some (.leaf k p) ∧ g.params[p]? = some c
  | n, .bin op a b => ∃ l r : Nat, g.nodes[n]? = some (.bin op l r) ∧ l < n ∧ r < n ∧ Rep g l a ∧ Rep g r b
  | n, .inv a => ∃ c : Nat, g.nodes[n]? = some (.inv c) ∧ c < n ∧ Rep g c a
  | n, .multiOr es => ∃ lst cs, g.nodes[n]? = some (.multiOr lst) ∧ g.lists[lst]? = some cs ∧
      es ≠ [] ∧ RepList g n cs es
/-- Elementwise `Rep` for the elements of a `states` list, all older than `b`. -/
def RepList (g : Graph) (b : Nat) : List Nat → List Expr → Prop
  | [], [] => True
  | c :: cs, e :: es => c < b ∧ Rep g c e ∧ RepList g b cs es
  | [], _ :: _ => False
  | _ :: _, [] => False
end

/-! ## Arrays, memo tables, `to_mask` -/

/-- How `to_mask` was called; `decorators._make_key` is `(args, frozenset(kwargs.items()))`, so
`to_mask(data, view)`, `to_mask(data, view=view)` and `to_mask(data)` give different keys. -/
inductive Form where
  | pos    -- `to_mask(data, view)`        (children of And/Or/Xor/Invert)
  | kw     -- `to_mask(data, view=view)`   (`Data.get_mask`, children of `MultiOrState`)
  | bare   -- `to_mask(data)`
  deriving DecidableEq, Repr

structure Key where
  table : Table
  node : NodeId
  data : DataId
  view : View
  form : Form
  deriving DecidableEq, Repr

structure MemoEntry where
  key : Key
  arr : ArrId
  deriving DecidableEq, Repr

structure Heap where
  g : Graph := {}
  arrays : List Mask := []       -- ndarray objects (identity = index)
  memo : List MemoEntry := []    -- all `__memoize_cache` dicts; the table is part of the key
  deriving Repr

def Heap.alloc (h : Heap) (m : Mask) : Heap × ArrId :=
  ({ h with arrays := h.arrays ++ [m] }, h.arrays.length)

/-- `target |= src` — in place: the object `target` changes its value. -/
def Heap.ior (h : Heap) (t s : ArrId) : Except Err Heap :=
  match h.arrays[t]?, h.arrays[s]? with
  | some mt, some ms =>
    match Mask.binop .or mt ms with
    | .ok m => .ok { h with arrays := h.arrays.set t m }
    | .error e => .error e
  | _, _ => .error .dangling

def Heap.lookup (h : Heap) (k : Key) : Option ArrId :=
  (h.memo.find? (fun x => x.key = k)).map (·.arr)

def Heap.store (h : Heap) (k : Key) (a : ArrId) : Heap :=
  { h with memo := h.memo ++ [⟨k, a⟩] }

/-- `clear_cache(func)` — used by C05. -/
def Heap.clearTable (h : Heap) (t : Table) : Heap :=
  { h with memo := h.memo.filter (fun x => x.key.table ≠ t) }

def ClassTable.memoTable (tbl : ClassTable) : Node → Option Table
  | .leaf k _ => tbl.leafMemo k
  | .bin _ _ _ => some .composite
  | .inv _ => some .invert
  | .multiOr _ => some .multiOr

/-- The loop of `MultiOrState.to_mask`: `for state in self.states[1:]: result |= state.to_mask(…)`. -/
def orLoop (ev : Heap → NodeId → Heap × Except Err ArrId) :
    Heap → ArrId → List NodeId → Heap × Except Err Unit
  | h, _, [] => (h, .ok ())
  | h, acc, c :: cs =>
    match ev h c with
    | (h1, .error e) => (h1, .error e)
    | (h1, .ok a) =>
      match h1.ior acc a with
      | .error e => (h1, .error e)
      | .ok h2 => orLoop ev h2 acc cs

/-- The undecorated `to_mask` bodies; `rec` is the (decorated) `to_mask` of the children. -/
def evalBody (env : Env) (rec : Heap → NodeId → Form → Heap × Except Err ArrId)
    (h : Heap) (node : Node) (d : DataId) (v : View) : Heap × Except Err ArrId :=
  match node with
  | .leaf _ p =>
    match h.g.params[p]? with
    | none => (h, .error .dangling)
    | some c =>
      match env.leaf c d v with
      | .error e => (h, .error e)
      | .ok m => let r := h.alloc m; (r.1, .ok r.2)
  | .bin op l r =>
    -- `self.op(self.state1.to_mask(data, view), self.state2.to_mask(data, view))`
    match rec h l .pos with
    | (h1, .error e) => (h1, .error e)
    | (h1, .ok a) =>
      match rec h1 r .pos with
      | (h2, .error e) => (h2, .error e)
      | (h2, .ok b) =>
        match h2.arrays[a]?, h2.arrays[b]? with
        | some ma, some mb =>
          match Mask.binop op ma mb with
          | .error e => (h2, .error e)
          | .ok m => let x := h2.alloc m; (x.1, .ok x.2)
        | _, _ => (h2, .error .dangling)
  | .inv c =>
    match rec h c .pos with
    | (h1, .error e) => (h1, .error e)
    | (h1, .ok a) =>
      match h1.arrays[a]? with
      | none => (h1, .error .dangling)
      | some ma => let x := h1.alloc ma.not; (x.1, .ok x.2)
  | .multiOr lst =>
    match h.g.lists[lst]? with
    | none => (h, .error .dangling)
    | some [] => (h, .error .dangling)
    | some (c :: cs) =>
      -- `result = self.states[0].to_mask(data, view=view).copy()`
      match rec h c .kw with
      | (h1, .error e) => (h1, .error e)
      | (h1, .ok a0) =>
        match h1.arrays[a0]? with
        | none => (h1, .error .dangling)
        | some m0 =>
          let x := h1.alloc m0
          match orLoop (fun h' c' => rec h' c' .kw) x.1 x.2 cs with
          | (h3, .error e) => (h3, .error e)
          | (h3, .ok ()) => (h3, .ok x.2)

/-- `state.to_mask(data, view)` with the `@memoize` wrapper where the class has one. -/
def toMask (tbl : ClassTable) (env : Env) :
    Nat → Heap → NodeId → DataId → View → Form → Heap × Except Err ArrId
  | 0, h, _, _, _, _ => (h, .error .fuel)
  | fuel + 1, h, n, d, v, f =>
    match h.g.nodes[n]? with
    | none => (h, .error .dangling)
    | some node =>
      match tbl.memoTable node, v.hashable with
      | some t, true =>
        match h.lookup ⟨t, n, d, v, f⟩ with
        | some a => (h, .ok a)
        | none =>
          match evalBody env (fun h' c f' => toMask tbl env fuel h' c d v f') h node d v with
          | (h', .ok a) => (h'.store ⟨t, n, d, v, f⟩ a, .ok a)
          | (h', .error e) => (h', .error e)
      | _, _ => evalBody env (fun h' c f' => toMask tbl env fuel h' c d v f') h node d v

/-! ## Programs -/

inductive Mode where
  | replace | new | and | or | xor | andNot
  deriving DecidableEq, Repr

abbrev Var := Nat

inductive Op where
  | leaf (k : Kind) (c : Content)            -- construct an elementary selection
  | bin (op : BinOp) (a b : Var)             -- `a & b`, `a | b`, `a ^ b`
  | inv (a : Var)                            -- `~a`
  | multiOr (as : List Var)                  -- `MultiOrState([a, b, …])`
  | copy (a : Var)                           -- `a.copy()`
  | eval (a : Var) (d : DataId) (v : View) (f : Form)   -- `a.to_mask(data, view)` in call form `f`
  | edit (m : Mode) (a : Var)                -- `EditSubsetMode.update(dc, a)` in mode `m`
  | evalCur (d : DataId) (v : View)          -- `group.subsets[d].to_mask(view)`
  | useCur                                   -- `x = group.subset_state`
  | child (a : Var) (i : Nat)                -- `x = a.state1` / `a.state2` / `a.states[i]` (the object itself)
  deriving Repr

/-- `[vars[a] for a in as]`, `none` if some variable does not exist. -/
def lookupAll {α : Type} (xs : List α) : List Nat → Option (List α)
  | [] => some []
  | a :: as =>
    match xs[a]?, lookupAll xs as with
    | some x, some r => some (x :: r)
    | _, _ => none

/-- The `i`-th operand of a composite selection value. -/
def Expr.child : Expr → Nat → Option Expr
  | .leaf _, _ => none
  | .bin _ a b, i => if i = 0 then some a else if i = 1 then some b else none
  | .inv a, i => if i = 0 then some a else none
  | .multiOr es, i => es[i]?

/-- `state.state1`, `state.state2`, `state.states[i]`. -/
def Graph.child (g : Graph) (n : NodeId) (i : Nat) : Option NodeId :=
  match g.nodes[n]? with
  | some (.bin _ l r) => if i = 0 then some l else if i = 1 then some r else none
  | some (.inv c) => if i = 0 then some c else none
  | some (.multiOr lst) =>
    match g.lists[lst]? with
    | some cs => cs[i]?
    | none => none
  | _ => none

/-- What an op lets the outside see. -/
inductive Obs where
  | none
  | bad                                  -- refused (`ValueError` for an empty many-way or / unknown variable)
  | mask (r : Except Err Mask)
  deriving Repr

instance : DecidableEq (Except Err Mask) := fun a b =>
  match a, b with
  | .ok x, .ok y => if h : x = y then isTrue (by rw [h]) else isFalse (by intro e; cases e; exact h rfl)
  | .error x, .error y => if h : x = y then isTrue (by rw [h]) else isFalse (by intro e; cases e; exact h rfl)
  | .ok _, .error _ => isFalse (by intro e; cases e)
  | .error _, .ok _ => isFalse (by intro e; cases e)

deriving instance DecidableEq for Obs

namespace Spec

structure State where
  vars : List Expr := []
  cur : Expr := .leaf emptyContent
  deriving Repr

def editExpr (m : Mode) (new cur : Expr) : Expr :=
  match m with
  | .replace => new
  | .new => new
  | .and => .bin .and new cur
  | .or => .bin .or new cur
  | .xor => .bin .xor new cur
  | .andNot => .bin .and cur (.inv new)

def step (env : Env) (s : State) : Op → State × Obs
  | .leaf _ c => ({ s with vars := s.vars ++ [.leaf c] }, .none)
  | .bin op a b =>
    match s.vars[a]?, s.vars[b]? with
    | some x, some y => ({ s with vars := s.vars ++ [.bin op x y] }, .none)
    | _, _ => (s, .bad)
  | .inv a =>
    match s.vars[a]? with
    | some x => ({ s with vars := s.vars ++ [.inv x] }, .none)
    | none => (s, .bad)
  | .multiOr as =>
    match lookupAll s.vars as with
    | some (x :: xs) => ({ s with vars := s.vars ++ [.multiOr (x :: xs)] }, .none)
    | _ => (s, .bad)
  | .copy a =>
    match s.vars[a]? with
    | some x => ({ s with vars := s.vars ++ [x] }, .none)
    | none => (s, .bad)
  | .eval a d v _ =>
    match s.vars[a]? with
    | some x => (s, .mask (x.denote env d v))
    | none => (s, .bad)
  | .edit m a =>
    match s.vars[a]? with
    | some x => ({ s with cur := editExpr m x s.cur }, .none)
    | none => (s, .bad)
  | .evalCur d v => (s, .mask (s.cur.denote env d v))
  | .useCur => ({ s with vars := s.vars ++ [s.cur] }, .none)
  | .child a i =>
    match s.vars[a]? with
    | some x =>
      match x.child i with
      | some y => ({ s with vars := s.vars ++ [y] }, .none)
      | none => (s, .bad)
    | none => (s, .bad)

def run (env : Env) : State → List Op → State × List Obs
  | s, [] => (s, [])
  | s, op :: ops =>
    let r := step env s op
    let rs := run env r.1 ops
    (rs.1, r.2 :: rs.2)

end Spec

namespace Impl

structure State where
  h : Heap
  vars : List NodeId
  cur : NodeId
  hist : List NodeId        -- every state the edit subset has had (kept alive by the harness)
  deriving Repr

/-- A fresh session: `dc.new_subset_group()` holds a plain `SubsetState()`. -/
def init : State :=
  { h := { g := { nodes := [.leaf .base 0], params := [emptyContent], lists := [] } },
    vars := [], cur := 0, hist := [0] }

/-- What the model predicts for one op: the Spec-comparable observation plus the identity of the
returned array object. -/
structure Out where
  obs : Obs
  arr : Option ArrId := none
  deriving Repr

def bind (s : State) (r : Graph × NodeId) : State :=
  { s with h := { s.h with g := r.1 }, vars := s.vars ++ [r.2] }

def bindOpt (s : State) (r : Graph × Option NodeId) : State × Out :=
  match r.2 with
  | some n => ({ s with h := { s.h with g := r.1 }, vars := s.vars ++ [n] }, ⟨.none, none⟩)
  | none => ({ s with h := { s.h with g := r.1 } }, ⟨.bad, none⟩)

def setCur (s : State) (r : Graph × Option NodeId) : State × Out :=
  match r.2 with
  | some n => ({ s with h := { s.h with g := r.1 }, cur := n, hist := s.hist ++ [n] }, ⟨.none, none⟩)
  | none => ({ s with h := { s.h with g := r.1 } }, ⟨.bad, none⟩)

/-- The edit modes of `edit_subset_mode.py`, literally. -/
def editGraph (tbl : ClassTable) (g : Graph) (m : Mode) (new cur : NodeId) : Graph × Option NodeId :=
  match m with
  | .replace => copyNode tbl g.fuel g new            -- `new_state.copy()`
  | .new => copyNode tbl g.fuel g new                -- new subset group with `new_state.copy()`
  | .and => mkBin tbl g .and new cur                 -- `new_state & edit_subset.subset_state`
  | .or => mkBin tbl g .or new cur
  | .xor => mkBin tbl g .xor new cur
  | .andNot =>                                       -- `edit_subset.subset_state & (~new_state)`
    match mkInv tbl g new with
    | (g1, none) => (g1, none)
    | (g1, some i) => mkBin tbl g1 .and cur i

def observe (s : State) (r : Heap × Except Err ArrId) : State × Out :=
  match r.2 with
  | .ok a =>
    match r.1.arrays[a]? with
    | some m => ({ s with h := r.1 }, ⟨.mask (.ok m), some a⟩)
    | none => ({ s with h := r.1 }, ⟨.mask (.error .dangling), none⟩)
  | .error e => ({ s with h := r.1 }, ⟨.mask (.error e), none⟩)

def step (tbl : ClassTable) (env : Env) (s : State) : Op → State × Out
  | .leaf k c => (bind s (mkLeaf s.h.g k c), ⟨.none, none⟩)
  | .bin op a b =>
    match s.vars[a]?, s.vars[b]? with
    | some x, some y => bindOpt s (mkBin tbl s.h.g op x y)
    | _, _ => (s, ⟨.bad, none⟩)
  | .inv a =>
    match s.vars[a]? with
    | some x => bindOpt s (mkInv tbl s.h.g x)
    | none => (s, ⟨.bad, none⟩)
  | .multiOr as =>
    match lookupAll s.vars as with
    | some (x :: xs) => (bind s (mkMultiOr s.h.g (x :: xs)), ⟨.none, none⟩)
    | _ => (s, ⟨.bad, none⟩)
  | .copy a =>
    match s.vars[a]? with
    | some x => bindOpt s (copyNode tbl s.h.g.fuel s.h.g x)
    | none => (s, ⟨.bad, none⟩)
  | .eval a d v f =>
    match s.vars[a]? with
    | some x => observe s (toMask tbl env s.h.g.fuel s.h x d v f)
    | none => (s, ⟨.bad, none⟩)
  | .edit m a =>
    match s.vars[a]? with
    | some x => setCur s (editGraph tbl s.h.g m x s.cur)
    | none => (s, ⟨.bad, none⟩)
  | .evalCur d v => observe s (toMask tbl env s.h.g.fuel s.h s.cur d v .kw)   -- `Data.get_mask`
  | .useCur => ({ s with vars := s.vars ++ [s.cur] }, ⟨.none, none⟩)
  | .child a i =>
    match s.vars[a]? with
    | some x =>
      match s.h.g.child x i with
      | some y => ({ s with vars := s.vars ++ [y] }, ⟨.none, none⟩)
      | none => (s, ⟨.bad, none⟩)
    | none => (s, ⟨.bad, none⟩)

def run (tbl : ClassTable) (env : Env) : State → List Op → State × List Out
  | s, [] => (s, [])
  | s, op :: ops =>
    let r := step tbl env s op
    let rs := run tbl env r.1 ops
    (rs.1, r.2 :: rs.2)

end Impl

end GlueVerif.SubsetEval
