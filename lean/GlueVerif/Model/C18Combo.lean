/-!
C18, parts 2 and 3 — attribute pickers (`glue/core/data_combo_helper.py` on top of echo's
`SelectionCallbackProperty`) and the axes of `ImageViewerState` (`glue/viewers/image/state.py`).
Core Lean only.

Object identity: a `ComponentID` is a natural number (its creation serial), a dataset is a natural
number.  A choice list is what `prop.get_choices(state)` returns: `None`, `ChoiceSeparator`s and
component ids.
-/
namespace GlueVerif.C18Combo

/-! ## 1. `ComponentIDComboHelper.refresh` as a pure function -/

/-- `Data.get_kind(cid)`: the three kinds that have a filter flag, and `extended` — the kind of an
`ExtendedComponent` (the region column of a `RegionData`), which stands for *every kind that has no
filter flag*: `refresh` is a whitelist, such a component is never offered (`kindOk`). -/
inductive Kind where
  | numerical | categorical | datetime | extended
  deriving DecidableEq, Repr

/-- every value `Data.get_kind` can return (checked against the code by family `kinds`). -/
def Kind.all : List Kind := [.numerical, .categorical, .datetime, .extended]

/-- the `Component` classes of `glue.core.component` (`coordPixel` / `coordWorld`: a
`CoordinateComponent` with `world = False / True`).  Family `kinds` enumerates the subclasses that
exist in the tree under test and fails on any that is not listed here. -/
inductive CompClass where
  | component | categorical | datetime | derived | coordPixel | coordWorld | dask | extended
  deriving DecidableEq, Repr

def CompClass.all : List CompClass :=
  [.component, .categorical, .datetime, .derived, .coordPixel, .coordWorld, .dask, .extended]

/-- `Data.get_kind` of a component of the given class, as the harness builds them (a plain
`Component` holds floats): `datetime` → `numeric` → `categorical` → `extended`, first hit. -/
def CompClass.kind : CompClass → Kind
  | .categorical => .categorical
  | .datetime => .datetime
  | .extended => .extended
  | _ => .numerical

/-- where `refresh` looks for a component of the class: `main_components` (subject to the kind
filters), `derived_components`, `pixel_component_ids`, `world_component_ids`. -/
inductive Table where
  | main | derived | pixel | world
  deriving DecidableEq, Repr

def CompClass.table : CompClass → Table
  | .derived => .derived
  | .coordPixel => .pixel
  | .coordWorld => .world
  | _ => .main

/-- What `refresh` reads from one dataset: `main_components` with their kinds, the derived
components whose `parent` is the dataset, `pixel_component_ids`, `world_component_ids`. -/
structure DS where
  id : Nat
  main : List (Nat × Kind)
  derived : List Nat
  pixel : List Nat
  world : List Nat
  deriving DecidableEq, Repr

structure Flags where
  numeric : Bool
  datetime : Bool
  categorical : Bool
  pixel : Bool
  world : Bool
  derived : Bool
  none : Bool
  deriving DecidableEq, Repr

inductive Choice where
  /-- the entry that means `None`. -/
  | none
  /-- `ChoiceSeparator(data.label)`. -/
  | sepData (d : Nat)
  | sepMain
  | sepDerived
  | sepCoord
  | cid (c : Nat)
  deriving DecidableEq, Repr

def kindOk (F : Flags) : Kind → Bool
  | .numerical => F.numeric
  | .datetime => F.datetime
  | .categorical => F.categorical
  | .extended => false

/-- the main components that pass the kind filters, in order. -/
def mainCids (F : Flags) (d : DS) : List Nat := (d.main.filter fun p => kindOk F p.2).map (·.1)

def derivedCids (F : Flags) (d : DS) : List Nat := if F.numeric && F.derived then d.derived else []

def coordCids (F : Flags) (d : DS) : List Nat :=
  (if F.pixel then d.pixel else []) ++ (if F.world then d.world else [])

/-- the body of the `for data in self._data` loop. -/
def refreshOne (F : Flags) (multi : Bool) (d : DS) : List Choice :=
  let hdr := if multi then [Choice.sepData d.id] else []
  let mains := (mainCids F d).map Choice.cid
  let mainPart :=
    if mains.isEmpty then []
    else if F.pixel || F.world || (F.derived && !d.derived.isEmpty) then Choice.sepMain :: mains
    else mains
  let ders := (derivedCids F d).map Choice.cid
  let derPart := if ders.isEmpty then [] else Choice.sepDerived :: ders
  let coords := (coordCids F d).map Choice.cid
  let coordPart := if coords.isEmpty then [] else Choice.sepCoord :: coords
  hdr ++ mainPart ++ derPart ++ coordPart

/-- `ComponentIDComboHelper.refresh`: the new choice list. -/
def refresh (F : Flags) (ds : List DS) : List Choice :=
  (if F.none then [Choice.none] else []) ++ ds.flatMap (refreshOne F (decide (ds.length > 1)))

/-- the component ids among the choices, in order. -/
def cidsOf : List Choice → List Nat
  | [] => []
  | .cid c :: xs => c :: cidsOf xs
  | _ :: xs => cidsOf xs

/-- Spec: the attributes of one relevant dataset that match the kind filters, in the order main,
derived, pixel, world.  (A derived component is numerical: it is offered when both `numeric` and
`derived` are on.) -/
def offeredCids (F : Flags) (d : DS) : List Nat := mainCids F d ++ derivedCids F d ++ coordCids F d

/-- Spec, as a predicate: `c` belongs to `d` and passes the filters. -/
def offered (F : Flags) (d : DS) (c : Nat) : Prop :=
  (∃ k, (c, k) ∈ d.main ∧ kindOk F k = true) ∨ (c ∈ d.derived ∧ F.numeric = true ∧ F.derived = true) ∨
  (c ∈ d.pixel ∧ F.pixel = true) ∨ (c ∈ d.world ∧ F.world = true)

/-- every id a dataset can offer. -/
def allCids (d : DS) : List Nat := d.main.map (·.1) ++ d.derived ++ d.pixel ++ d.world

/-- Spec, class by class: which flags put a component of the class on offer.  An
`ExtendedComponent` matches no kind filter: it is never offered, whatever the flags. -/
def classOk (F : Flags) : CompClass → Bool
  | .component => F.numeric
  | .dask => F.numeric
  | .categorical => F.categorical
  | .datetime => F.datetime
  | .derived => F.numeric && F.derived
  | .coordPixel => F.pixel
  | .coordWorld => F.world
  | .extended => false

/-- a dataset whose only component is `c`, of class `cls`, in the table where `refresh` looks for
that class. -/
def classDS (cls : CompClass) (c : Nat) : DS :=
  match cls.table with
  | .main => { id := 0, main := [(c, cls.kind)], derived := [], pixel := [], world := [] }
  | .derived => { id := 0, main := [], derived := [c], pixel := [], world := [] }
  | .pixel => { id := 0, main := [], derived := [], pixel := [c], world := [] }
  | .world => { id := 0, main := [], derived := [], pixel := [], world := [c] }

/-! ## 2. echo's selection rule -/

/-- separators cannot be selected; `None` and component ids can. -/
def selectable : Choice → Bool
  | .none => true
  | .cid _ => true
  | _ => false

/-- the current selection as a choice: Python `None` is the `None` entry. -/
def selChoice : Option Nat → Choice
  | none => .none
  | some c => .cid c

def toSel : Choice → Option Nat
  | .cid c => some c
  | _ => none

/-- Python `xs[i]` with the fallback of `_choices_updated`: `IndexError` → last element if
`default_index > 0`, first otherwise.  `xs` is non-empty where this is used. -/
def pyDefault (idx : Int) (xs : List Choice) : Option Choice :=
  let n : Int := xs.length
  if 0 ≤ idx ∧ idx < n then xs[idx.toNat]?
  else if idx < 0 ∧ -n ≤ idx then xs[(n + idx).toNat]?
  else if idx > 0 then xs.getLast? else xs.head?

/-- `SelectionCallbackProperty._choices_updated`: keep the selection if it is (identical to) one of
the new choices; otherwise the default index among the non-separators; `None` if there are none. -/
def choicesUpdated (idx : Int) (choices : List Choice) (sel : Option Nat) : Option Nat :=
  if choices.isEmpty then none
  else if choices.contains (selChoice sel) then sel
  else match pyDefault idx (choices.filter selectable) with
    | some c => toSel c
    | none => none

/-- Spec: the selection is one of the selectable choices, or there are none (then it is `None`). -/
def selOk (choices : List Choice) (sel : Option Nat) : Bool :=
  if (choices.filter selectable).isEmpty then sel == none else choices.contains (selChoice sel)

/-- the picker as an abstract machine: the helper installs a new choice list, the client selects. -/
structure Picker where
  idx : Int
  choices : List Choice
  sel : Option Nat
  deriving Repr

inductive POp where
  | setChoices (cs : List Choice)
  /-- `state.prop = v` -/
  | select (v : Option Nat)
  deriving Repr

/-- `SelectionCallbackProperty.__set__`: `None` is always accepted; any other value must be
(identical to) one of the choices, otherwise `ValueError` and nothing changes. -/
def Picker.select (p : Picker) : Option Nat → Picker × Bool
  | none => ({ p with sel := none }, false)
  | some c => if p.choices.contains (.cid c) then ({ p with sel := some c }, false) else (p, true)

def Picker.step (p : Picker) : POp → Picker
  | .setChoices cs => { p with choices := cs, sel := choicesUpdated p.idx cs p.sel }
  | .select v => (p.select v).1

/-- the client does not clear the selection while `None` is not on offer (echo accepts an explicit
`None` unconditionally; see `explicit_none_accepted` in `Props/C18.lean`). -/
def POp.admissible (p : Picker) : POp → Bool
  | .select none => p.choices.contains .none || (p.choices.filter selectable).isEmpty
  | _ => true

/-! ## 3. a `ComponentIDComboHelper` on a `State`, datasets in a collection with a hub

The world of the `combo` correspondence family: `nData` datasets (1-d, identity coordinates: one
pixel and one world id, three main components of kinds categorical, datetime, numerical — labels
`c`, `t`, `x`, which `Data.__init__` adds in sorted order), a helper constructed with the data
collection, the hub's delay block.  Component ids are numbered by creation: dataset `i` owns
`5 i … 5 i + 4` (pixel, world, c, t, x), later ones continue from `5 nData`. -/

inductive Msg where
  /-- `ComponentsChangedMessage` / `DataReorderComponentMessage` from dataset `d` → `refresh`. -/
  | changed (d : Nat)
  /-- `DataRenameComponentMessage` → `_on_rename` (no change of choices or selection). -/
  | renamed (d : Nat)
  /-- `DataCollectionDeleteMessage` → `remove_data`. -/
  | deleted (d : Nat)
  deriving DecidableEq, Repr

/-- What a helper does with its hub subscriptions when its last dataset goes away.  The code that
exists never lets go (`never`).  `keepRef` is the "leak fix" of seeded change C18c: `unregister(self._hub)`
at the end of `clear` / `remove_data` / `set_multiple_data` of a helper without data collection,
`self._hub` left as it is — `append_data` re-subscribes only when `self.hub is None`, so the helper
stays deaf (theorem `unsubscribe_without_reset_breaks`).  `resetRef` also resets `_hub` to `None`:
the lazy subscription of `append_data` then works again (covered by `combo_history_valid`). -/
inductive Release where
  | never | keepRef | resetRef
  deriving DecidableEq, Repr

/-- a release policy that keeps "subscribed ⇔ hub reference set". -/
def Release.sound (r : Release) : Prop := r ≠ .keepRef

structure CState where
  nData : Nat
  nCid : Nat
  data : Nat → DS
  /-- datasets in the collection. -/
  inDc : List Nat
  /-- the helper was constructed with `data_collection` (subscribed at construction, also to
  `DataCollectionDeleteMessage`); without one — every viewer-state / layer-state picker — it
  subscribes lazily, in the first `append_data` of a dataset that has a hub. -/
  hasDc : Bool
  /-- `helper._hub is not None`. -/
  hub : Bool
  /-- the hub holds the helper's subscriptions (`helper in hub._subscriptions`). -/
  sub : Bool
  /-- `helper._data`. -/
  hdata : List Nat
  F : Flags
  pick : Picker
  /-- `hub._delay_depth`. -/
  depth : Nat
  queue : List Msg
  /-- the last operation raised `ValueError`. -/
  err : Bool

def initDS (i : Nat) : DS :=
  { id := i, pixel := [5 * i], world := [5 * i + 1],
    main := [(5 * i + 2, .categorical), (5 * i + 3, .datetime), (5 * i + 4, .numerical)], derived := [] }

def defaultFlags : Flags :=
  { numeric := true, datetime := true, categorical := true, pixel := false, world := false,
    derived := true, none := false }

/-- a fresh helper next to `n` datasets (all in the collection, so all of them have the hub) with
arbitrary component tables: `ComponentIDComboHelper(state, prop, data_collection)` (`hasDc`: the hub
setter subscribes in `__init__`) or `ComponentIDComboHelper(state, prop)` (`self.hub = None`). -/
def cinitH (hasDc : Bool) (n nCid : Nat) (data : Nat → DS) (idx : Int) : CState :=
  { nData := n, nCid := nCid, data := data, inDc := List.range n, hasDc := hasDc, hub := hasDc, sub := hasDc,
    hdata := [], F := defaultFlags, pick := ⟨idx, [], none⟩, depth := 0, queue := [], err := false }

def cinitWith (n nCid : Nat) (data : Nat → DS) (idx : Int) : CState := cinitH true n nCid data idx

def cinit (n : Nat) (idx : Int) : CState := cinitWith n (5 * n) initDS idx

/-- a dataset template of the correspondence families: the kinds of its main components, the number
of derived components it owns, of pixel and of world coordinates.  Ids are numbered in the order
pixel, world, main, derived from `base`. -/
structure Tmpl where
  main : List Kind
  nder : Nat
  npix : Nat
  nworld : Nat
  deriving DecidableEq, Repr

def Tmpl.size (t : Tmpl) : Nat := t.npix + t.nworld + t.main.length + t.nder

def tmplDS (t : Tmpl) (id base : Nat) : DS :=
  { id := id,
    pixel := (List.range t.npix).map (base + ·),
    world := (List.range t.nworld).map (base + t.npix + ·),
    main := ((List.range t.main.length).zip t.main).map fun p => (base + t.npix + t.nworld + p.1, p.2),
    derived := (List.range t.nder).map (base + t.npix + t.nworld + t.main.length + ·) }

/-- the component tables of a list of templates: dataset `i` starts where dataset `i - 1` ended. -/
def tmplTable : List Tmpl → Nat → Nat → Nat → DS
  | [], _, _, i => { id := i, main := [], derived := [], pixel := [], world := [] }
  | t :: ts, k, base, i => if i = k then tmplDS t i base else tmplTable ts (k + 1) (base + t.size) i

def tmplTotal (ts : List Tmpl) : Nat := (ts.map Tmpl.size).sum

def cinitT (ts : List Tmpl) (idx : Int) : CState :=
  cinitWith ts.length (tmplTotal ts) (tmplTable ts 0 0) idx

/-- the same world with a helper built without a data collection (how viewer and layer states
build their pickers). -/
def cinitTH (hasDc : Bool) (ts : List Tmpl) (idx : Int) : CState :=
  cinitH hasDc ts.length (tmplTotal ts) (tmplTable ts 0 0) idx

def upd {α : Type} (f : Nat → α) (k : Nat) (v : α) : Nat → α := fun x => if x = k then v else f x

/-- `helper.refresh()`. -/
def doRefresh (st : CState) : CState :=
  { st with pick := st.pick.step (.setChoices (refresh st.F (st.hdata.map st.data))) }

/-- the head of `append_data`: `if self.hub is None: if data.hub is not None: self.hub = data.hub`
— the hub setter calls `register_to_hub`.  (Every dataset of this world has the one hub, so the
`ValueError` branch for a different hub is never taken.) -/
def latch (st : CState) : CState := if st.hub then st else { st with hub := true, sub := true }

/-- the tail of `clear` / `remove_data` / `set_multiple_data` in the variants that let go of the hub
(`_release_hub_if_unused` of seeded change C18c); the identity for the code that exists. -/
def release (r : Release) (st : CState) : CState :=
  match r with
  | .never => st
  | .keepRef => if !st.hasDc && st.hub && st.hdata.isEmpty then { st with sub := false } else st
  | .resetRef => if !st.hasDc && st.hub && st.hdata.isEmpty then { st with sub := false, hub := false } else st

/-- `helper.remove_data(d)`. -/
def helperRemove (r : Release) (d : Nat) (st : CState) : CState :=
  if st.hdata.contains d then release r (doRefresh { st with hdata := st.hdata.erase d }) else st

/-- delivery of one message: only to a helper the hub has subscriptions for (looked up at delivery
time), filters evaluated at delivery time; the collection's delete message only for a helper that
was given the collection. -/
def deliver (r : Release) (st : CState) : Msg → CState
  | .changed d => if st.sub && st.hdata.contains d then doRefresh st else st
  | .renamed _ => st
  | .deleted d => if st.sub && st.hasDc then helperRemove r d st else st

/-- `hub.broadcast(msg)`. -/
def bcast (r : Release) (m : Msg) (st : CState) : CState :=
  if st.depth > 0 then { st with queue := st.queue ++ [m] } else deliver r st m

inductive FlagName where
  | numeric | datetime | categorical | pixel | world | derived | none
  deriving DecidableEq, Repr

def Flags.set (F : Flags) : FlagName → Bool → Flags
  | .numeric, b => { F with numeric := b }
  | .datetime, b => { F with datetime := b }
  | .categorical, b => { F with categorical := b }
  | .pixel, b => { F with pixel := b }
  | .world, b => { F with world := b }
  | .derived, b => { F with derived := b }
  | .none, b => { F with none := b }

inductive COp where
  /-- `d.add_component(values, label)` of the given kind. -/
  | addComp (d : Nat) (k : Kind)
  /-- `d[label] = d.pixel_component_ids[0] + 1` (a derived component owned by `d`). -/
  | addDerived (d : Nat)
  /-- `d.remove_component(cid)`, `cid` = the `i`-th of main ++ derived. -/
  | removeComp (d i : Nat)
  /-- `cid.label = …` for the `i`-th of main ++ derived. -/
  | rename (d i : Nat)
  /-- `d.reorder_components(reversed(d.components))`. -/
  | reorder (d : Nat)
  /-- `d.update_id(cid, ComponentID(…))` for the `i`-th main component. -/
  | replace (d i : Nat)
  | helperAppend (d : Nat)
  | helperRemove (d : Nat)
  | setMultiple (ds : List Nat)
  /-- `helper.clear()`. -/
  | helperClear
  | setFlag (f : FlagName) (b : Bool)
  | dcRemove (d : Nat)
  | dcAppend (d : Nat)
  /-- `state.combo = v`; `v` is a component id by creation serial (also ids that were removed). -/
  | select (v : Option Nat)
  /-- `__enter__` / `__exit__` of `hub.delay_callbacks()`. -/
  | delayOpen
  | delayClose
  deriving Repr

def compsOf (d : DS) : List Nat := d.main.map (·.1) ++ d.derived

def removeCid (d : DS) (c : Nat) : DS :=
  { d with main := d.main.filter (fun p => p.1 != c), derived := d.derived.filter (· != c) }

/-- `unique_data_iter` + the `append_data(refresh=False)` loop of `set_multiple_data`. -/
def dedup (xs : List Nat) : List Nat := xs.foldl (fun acc x => if acc.contains x then acc else acc ++ [x]) []

def cstepR (r : Release) (st0 : CState) (op : COp) : CState :=
  let st := { st0 with err := false }
  match op with
  | .addComp d k =>
    if d < st.nData then
      let D := st.data d
      bcast r (.changed d) { st with nCid := st.nCid + 1, data := upd st.data d { D with main := D.main ++ [(st.nCid, k)] } }
    else st
  | .addDerived d =>
    if d < st.nData then
      let D := st.data d
      bcast r (.changed d) { st with nCid := st.nCid + 1, data := upd st.data d { D with derived := D.derived ++ [st.nCid] } }
    else st
  | .removeComp d i =>
    if d < st.nData then
      match (compsOf (st.data d))[i]? with
      | some c => bcast r (.changed d) { st with data := upd st.data d (removeCid (st.data d) c) }
      | none => st
    else st
  | .rename d i =>
    if d < st.nData then
      match (compsOf (st.data d))[i]? with
      | some _ => bcast r (.renamed d) st
      | none => st
    else st
  | .reorder d =>
    if d < st.nData then
      let D := st.data d
      bcast r (.changed d) { st with data := upd st.data d { D with main := D.main.reverse, derived := D.derived.reverse } }
    else st
  | .replace d i =>
    if d < st.nData then
      let D := st.data d
      match D.main[i]? with
      | some p =>
        bcast r (.changed d) { st with nCid := st.nCid + 1,
                                       data := upd st.data d { D with main := D.main.set i (st.nCid, p.2) } }
      | none => st
    else st
  | .helperAppend d =>
    if d < st.nData then
      let st := latch st
      if !st.hdata.contains d then doRefresh { st with hdata := st.hdata ++ [d] } else st
    else st
  | .helperRemove d => if d < st.nData then helperRemove r d st else st
  | .setMultiple ds =>
    let ds := dedup (ds.filter (· < st.nData))
    let st := if ds.isEmpty then st else latch st
    release r (doRefresh { st with hdata := ds })
  | .helperClear => release r (doRefresh { st with hdata := [] })
  | .setFlag f b => doRefresh { st with F := st.F.set f b }
  | .dcRemove d =>
    if st.inDc.contains d then bcast r (.deleted d) { st with inDc := st.inDc.erase d } else st
  | .dcAppend d =>
    if d < st.nData ∧ !st.inDc.contains d then { st with inDc := st.inDc ++ [d] } else st
  | .select v =>
    let r := st.pick.select v
    { st with pick := r.1, err := r.2 }
  | .delayOpen => { st with depth := st.depth + 1 }
  | .delayClose =>
    if st.depth = 0 then st
    else if st.depth = 1 then st.queue.foldl (deliver r) { st with depth := 0, queue := [] }
    else { st with depth := st.depth - 1 }

def crunR (r : Release) (st : CState) (ops : List COp) : CState := ops.foldl (cstepR r) st

/-- the code that exists: a helper never gives up its subscriptions. -/
def cstep (st : CState) (op : COp) : CState := cstepR .never st op
def crun (st : CState) (ops : List COp) : CState := ops.foldl cstep st

/-- Spec for a helper snapshot taken while no delay block is open: the choices are exactly what
`refresh` computes from the datasets *as they are now*, and the selection is valid. -/
def comboOk (F : Flags) (ds : List DS) (choices : List Choice) (sel : Option Nat) : Bool :=
  choices == refresh F ds && selOk choices sel

/-- Spec for the helper as a hub listener, at every moment: a helper that holds a dataset is
subscribed (otherwise it cannot follow that dataset's components). -/
def subOk (hdata : List Nat) (sub : Bool) : Bool := hdata.isEmpty || sub

/-! ## 4. `ManualDataComboHelper` / `DataCollectionComboHelper`: pickers of datasets -/

structure DState where
  nData : Nat
  /-- `True`: `DataCollectionComboHelper` (mirrors the collection); `False`: manual list. -/
  auto : Bool
  inDc : List Nat
  /-- `helper._datasets` of a manual helper. -/
  manual : List Nat
  pick : Picker
  depth : Nat
  /-- queued `DataCollectionAddMessage` (`true`) / `DataCollectionDeleteMessage` (`false`) / label
  updates (`none`). -/
  queue : List (Option Bool × Nat)
  err : Bool

def dinit (n : Nat) (auto : Bool) (idx : Int) (inDc : List Nat) : DState :=
  { nData := n, auto := auto, inDc := inDc, manual := [],
    pick := ⟨idx, if auto then inDc.map Choice.cid else [], if auto then choicesUpdated idx (inDc.map Choice.cid) none else none⟩,
    depth := 0, queue := [], err := false }

inductive DOp where
  | dcAppend (d : Nat)
  | dcRemove (d : Nat)
  | helperAppend (d : Nat)
  | helperRemove (d : Nat)
  | setMultiple (ds : List Nat)
  /-- `d.label = …` (`DataUpdateMessage(attribute='label')` → `_on_rename`). -/
  | relabel (d : Nat)
  | select (v : Option Nat)
  | delayOpen
  | delayClose
  deriving Repr

/-- `BaseDataComboHelper.refresh`: `choices = list(self._datasets)`. -/
def dRefresh (st : DState) : DState :=
  let ds := if st.auto then st.inDc else st.manual
  { st with pick := st.pick.step (.setChoices (ds.map Choice.cid)) }

def dDeliver (st : DState) (m : Option Bool × Nat) : DState :=
  match m.1 with
  | none => st
  | some true => if st.auto then dRefresh st else st
  | some false =>
    if st.auto then dRefresh st
    else if st.manual.contains m.2 then dRefresh { st with manual := st.manual.erase m.2 } else st

def dBcast (m : Option Bool × Nat) (st : DState) : DState :=
  if st.depth > 0 then { st with queue := st.queue ++ [m] } else dDeliver st m

def dstep (st0 : DState) (op : DOp) : DState :=
  let st := { st0 with err := false }
  match op with
  | .dcAppend d =>
    if d < st.nData ∧ !st.inDc.contains d then dBcast (some true, d) { st with inDc := st.inDc ++ [d] } else st
  | .dcRemove d =>
    if st.inDc.contains d then dBcast (some false, d) { st with inDc := st.inDc.erase d } else st
  | .helperAppend d =>
    if st.auto ∨ ¬ d < st.nData ∨ st.manual.contains d then st else dRefresh { st with manual := st.manual ++ [d] }
  | .helperRemove d =>
    if st.auto ∨ !st.manual.contains d then st else dRefresh { st with manual := st.manual.erase d }
  | .setMultiple ds =>
    if st.auto then st else dRefresh { st with manual := dedup (ds.filter (· < st.nData)) }
  | .relabel d => if d < st.nData then dBcast (none, d) st else st
  | .select v =>
    let r := st.pick.select v
    { st with pick := r.1, err := r.2 }
  | .delayOpen => { st with depth := st.depth + 1 }
  | .delayClose =>
    if st.depth = 0 then st
    else if st.depth = 1 then st.queue.foldl dDeliver { st with depth := 0, queue := [] }
    else { st with depth := st.depth - 1 }

def drun (st : DState) (ops : List DOp) : DState := ops.foldl dstep st

/-- Spec for a dataset picker outside a delay block: it offers exactly the relevant datasets (the
collection, or the curated list without what left the collection), in order, and selects one. -/
def dcomboOk (relevant : List Nat) (choices : List Choice) (sel : Option Nat) : Bool :=
  choices == relevant.map Choice.cid && selOk choices sel

/-! ## 5. the axes of `ImageViewerState`

Axes are positions in `reference_data.pixel_component_ids` / `world_component_ids` (the two lists
are parallel: `pixel[i].axis = i`, `world[i]` is the world coordinate of axis `i`).  `x`, `y` are
`x_att`, `y_att`; `xw`, `yw` are `x_att_world`, `y_att_world` (for a reference dataset without
coordinates these are the pixel ids themselves).  All four refer to the current reference data. -/
namespace Axes

structure AState where
  /-- datasets of the layers, in layer order (`state.layers_data`, duplicates removed). -/
  layers : List Nat
  ref : Option Nat
  x : Option Nat
  y : Option Nat
  xw : Option Nat
  yw : Option Nat
  /-- the last operation raised `ValueError` (value not among the choices; nothing changed). -/
  err : Bool
  /-- an `IndexError` escaped (reference data with fewer than two dimensions; unreachable with
  `fix: image reference needs 2d`, reachable on the pinned tree: `Orig.arun`). -/
  crashed : Bool
  deriving DecidableEq, Repr

def ainit : AState := ⟨[], none, none, none, none, none, false, false⟩

inductive AOp where
  | setX (i : Nat) | setY (i : Nat) | setXW (i : Nat) | setYW (i : Nat)
  | setRef (d : Nat)
  /-- a layer state for dataset `d` is appended to / removed from `state.layers`. -/
  | addLayer (d : Nat) | removeLayer (d : Nat)
  deriving DecidableEq, Repr

/-- the other axis chosen when both pickers would show the same one: `ids[-2]` if the clashing one
is `ids[-1]`, else `ids[-1]`. -/
def alt (n i : Nat) : Nat := if i = n - 1 then n - 2 else n - 1

/-- `_on_xatt_world_change` for the (non-`None`) value `xw`, including the forced
`_on_yatt_world_change` it calls and the delayed callbacks that fire on exit (which find nothing
left to change): a clash moves `y_att_world`, then `x_att`, `y_att` follow their world twins. -/
def onXW (n : Nat) (s : AState) : AState :=
  match s.xw with
  | none => s
  | some i =>
    let yw := if s.yw = some i then some (alt n i) else s.yw
    { s with yw := yw, x := some i, y := if yw.isSome then yw else s.y }

/-- `_on_yatt_world_change`, symmetrically. -/
def onYW (n : Nat) (s : AState) : AState :=
  match s.yw with
  | none => s
  | some j =>
    let xw := if s.xw = some j then some (alt n j) else s.xw
    { s with xw := xw, y := some j, x := if xw.isSome then xw else s.x }

/-- `_reference_data_changed` for a new reference dataset of `n ≥ 2` dimensions: the helpers get
the new dataset, the stale selections fall back to the default indices (`-1`, `-2`), then the two
world handlers run. -/
def newRef (d n : Nat) (s : AState) : AState :=
  onYW n (onXW n { s with ref := some d, xw := some (n - 1), yw := some (n - 2) })

/-- `_reference_data_changed` when no layer that can be reference data is left: no choices, no
world attributes; with `fix: image stale axes` the pixel attributes are cleared as well. -/
def noRef (s : AState) : AState := { s with ref := none, x := none, y := none, xw := none, yw := none }

/-- `reference_data` becomes `d`: `_on_xatt_world_change` indexes `world_ids[-2]`, so a dataset with
fewer than two dimensions makes an `IndexError` escape (the handlers still are like that; the
repaired code never lets such a dataset get here — theorem `image_axes_distinct`). -/
def setNewRef (ndim : Nat → Nat) (d : Nat) (s : AState) : AState :=
  if ndim d < 2 then { s with crashed := true } else newRef d (ndim d) s

/-- the choices of the reference-data picker (`_update_combo_ref_data`): the datasets of the layers
with at least `minDim` dimensions.  The code with `fix: image reference needs 2d` is `minDim = 2`
(1-d datasets — tables shown as scatter overlays — are never offered); the pinned tree offered every
dataset (`minDim = 0`, namespace `Orig`). -/
def refChoices (minDim : Nat) (ndim : Nat → Nat) (ls : List Nat) : List Nat :=
  ls.filter fun d => decide (minDim ≤ ndim d)

/-- `_layers_changed`: the reference-data picker is refilled (`refChoices`); echo keeps the selection
if it is still a choice, otherwise takes the first choice, or `None` when there is none;
`_set_reference_data` then picks the first layer dataset that qualifies if nothing is selected
(the same dataset). -/
def layersChangedWith (minDim : Nat) (ndim : Nat → Nat) (s : AState) : AState :=
  let choices := refChoices minDim ndim s.layers
  match s.ref with
  | some r => if choices.contains r then s else
      match choices.head? with
      | some d => setNewRef ndim d s
      | none => noRef s
  | none =>
      match choices.head? with
      | some d => setNewRef ndim d s
      | none => s

def astepWith (minDim : Nat) (ndim : Nat → Nat) (s0 : AState) (op : AOp) : AState :=
  if s0.crashed then s0 else
  let s := { s0 with err := false }
  match s.ref with
  | none =>
    match op with
    | .addLayer d => if s.layers.contains d then s else layersChangedWith minDim ndim { s with layers := s.layers ++ [d] }
    | .removeLayer d => layersChangedWith minDim ndim { s with layers := s.layers.erase d }
    | .setX _ | .setY _ => s   -- outside the modelled domain (never generated)
    | _ => { s with err := true }   -- nothing is on offer: `ValueError`
  | some r =>
    let n := ndim r
    match op with
    | .setX i => if i < n then onXW n { s with x := some i, xw := some i } else s
    | .setY j => if j < n then onYW n { s with y := some j, yw := some j } else s
    | .setXW i => if i < n then onXW n { s with xw := some i } else { s with err := true }
    | .setYW j => if j < n then onYW n { s with yw := some j } else { s with err := true }
    | .setRef d =>
      if !(refChoices minDim ndim s.layers).contains d then { s with err := true }   -- not a choice: `ValueError`
      else if d = r then s
      else setNewRef ndim d s
    | .addLayer d => if s.layers.contains d then s else layersChangedWith minDim ndim { s with layers := s.layers ++ [d] }
    | .removeLayer d => layersChangedWith minDim ndim { s with layers := s.layers.erase d }

/-- the code that exists (with `fix: image reference needs 2d`). -/
def layersChanged (ndim : Nat → Nat) (s : AState) : AState := layersChangedWith 2 ndim s
def astep (ndim : Nat → Nat) (s : AState) (op : AOp) : AState := astepWith 2 ndim s op
def arun (ndim : Nat → Nat) (s : AState) (ops : List AOp) : AState := ops.foldl (astep ndim) s

/-- the pinned tree before `fix: image reference needs 2d` (finding C18b): every dataset of a layer
is offered as reference data. -/
def Orig.arun (ndim : Nat → Nat) (s : AState) (ops : List AOp) : AState := ops.foldl (astepWith 0 ndim) s

/-- Spec: with a reference dataset — always one of the layers' datasets with at least two
dimensions —, `x_att` and `y_att` are two *different* pixel axes of it and agree with their world
twins; there is none only when no layer has a dataset of two or more dimensions, and then nothing is
selected. -/
def axesOk (ndim : Nat → Nat) (s : AState) : Bool :=
  !s.crashed &&
  match s.ref with
  | none => s.x.isNone && s.y.isNone && s.xw.isNone && s.yw.isNone && s.layers.all (fun d => decide (ndim d < 2))
  | some r =>
    s.layers.contains r && decide (2 ≤ ndim r) &&
    match s.x, s.y with
    | some i, some j => decide (i ≠ j) && decide (i < ndim r) && decide (j < ndim r) && s.xw == some i && s.yw == some j
    | _, _ => false

end Axes

end GlueVerif.C18Combo
