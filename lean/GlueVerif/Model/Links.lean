/-
L5 model: link hypergraph, `discover_links` literal loop, LinkManager / DataCollection link
bookkeeping.  Mirrors `glue/core/link_manager.py` (accessible_links, discover_links,
LinkManager.add_link / remove_link / _component_removed / _data_removed /
update_externally_derivable_components), `glue/core/data_collection.py` (_sync_link_manager,
delay_link_manager_update, append, remove) and the lazy evaluation of the installed
`DerivedComponent`s through `Data.get_data` / `ComponentLink.compute`.  Core Lean only.
-/
namespace GlueVerif.Links

/-! ## Association lists (first match wins, update = prepend) -/

def get {α β : Type} [DecidableEq α] : List (α × β) → α → Option β
  | [], _ => none
  | (k, v) :: r, c => if c = k then some v else get r c

/-- `some [v₁,…,vₙ]` when every entry is `some`, else `none`. -/
def allSome {β : Type} : List (Option β) → Option (List β)
  | [] => some []
  | none :: _ => none
  | some v :: r => match allSome r with
    | some vs => some (v :: vs)
    | none => none

/-! ## Links and the literal `discover_links` loop -/

/-- A `ComponentLink`: input cids, target cid, function identifier. -/
structure Link (α F : Type) where
  froms : List α
  to : α
  fn : F
  deriving DecidableEq, Repr

/-- State of the `while True` loop of `discover_links`: `depth` (its keys are the set `cids`) and
`cid_links`. -/
structure DState (α F : Type) where
  depth : List (α × Nat)
  via : List (α × Link α F)
  deriving Repr

section Discover
variable {α F : Type} [DecidableEq α]

/-- `max([depth[f] for f in from_])` (0 for an empty list); `none` when some input is not in
`cids`, i.e. the link is not returned by `accessible_links`. -/
def maxDepth? (depth : List (α × Nat)) : List α → Option Nat
  | [] => some 0
  | f :: fs => match get depth f, maxDepth? depth fs with
    | some d, some m => some (max d m)
    | _, _ => none

/-- `cost = max(depth of inputs) + 1` for an accessible link. -/
def cost? (depth : List (α × Nat)) (l : Link α F) : Option Nat :=
  match maxDepth? depth l.froms with
  | some m => some (m + 1)
  | none => none

/-- The `for link in accessible_links(cids, links)` scan: the first accessible link whose target is
new, or whose cost is strictly below the recorded depth (`if to_ in cids and cost >= depth[to_]:
continue`). -/
def findStep (depth : List (α × Nat)) : List (Link α F) → Option (Link α F × Nat)
  | [] => none
  | l :: ls =>
    match cost? depth l with
    | none => findStep depth ls
    | some c =>
      match get depth l.to with
      | none => some (l, c)
      | some d => if c < d then some (l, c) else findStep depth ls

/-- One `depth[to_] = cost; cids.add(to_); cid_links[to_] = link`. -/
def DState.record (s : DState α F) (l : Link α F) (c : Nat) : DState α F :=
  ⟨(l.to, c) :: s.depth, (l.to, l) :: s.via⟩

/-- The `while True:` loop, with fuel. -/
def discoverFuel : Nat → List (Link α F) → DState α F → DState α F
  | 0, _, s => s
  | n + 1, ls, s =>
    match findStep s.depth ls with
    | none => s
    | some (l, c) => discoverFuel n ls (s.record l c)

/-- `cids = set(main_components + coordinate_components)`, all at depth 0. -/
def initState (own : List α) : DState α F := ⟨own.map (fun c => (c, 0)), []⟩

/-- Enough fuel for the loop to reach its fixpoint (theorem `discover_terminates`). -/
def fuelBound (ls : List (Link α F)) : Nat := ls.length * (ls.length + 1) + 1

/-- `discover_links(data, links)`; `links` is given in the order in which the Python `set` is
iterated. -/
def discoverLinks (own : List α) (ls : List (Link α F)) : DState α F :=
  discoverFuel (fuelBound ls) ls (initState own)

/-! ## Specification: inductive closure and depth layers -/

/-- The inductive closure: `c` can be read from a dataset owning `own` through `ls`. -/
inductive Reachable (own : List α) (ls : List (Link α F)) : α → Prop
  | own {c : α} : c ∈ own → Reachable own ls c
  | link {l : Link α F} : l ∈ ls → (∀ f ∈ l.froms, Reachable own ls f) → Reachable own ls l.to

/-- `c` has a derivation (tree of links rooted in `own`) of depth at most `k`. -/
inductive DerivLe (own : List α) (ls : List (Link α F)) : Nat → α → Prop
  | own {k : Nat} {c : α} : c ∈ own → DerivLe own ls k c
  | link {k : Nat} {l : Link α F} : l ∈ ls → (∀ f ∈ l.froms, DerivLe own ls k f) →
      DerivLe own ls (k + 1) l.to

/-- Executable layers: `layer k` lists the cids with a derivation of depth ≤ `k`. -/
def layer (own : List α) (ls : List (Link α F)) : Nat → List α
  | 0 => own
  | k + 1 => own ++ (ls.filter fun l => l.froms.all fun f => decide (f ∈ layer own ls k)).map (·.to)

/-- Least `k ≤ bound` with `c ∈ layer k`, searching upwards from `from`. -/
def firstLayer (own : List α) (ls : List (Link α F)) (c : α) : Nat → Nat → Option Nat
  | 0, k => if c ∈ layer own ls k then some k else none
  | n + 1, k => if c ∈ layer own ls k then some k else firstLayer own ls c n (k + 1)

/-- The least derivation depth of `c` (`none` = not reachable). -/
def specDepth (own : List α) (ls : List (Link α F)) (c : α) : Option Nat :=
  firstLayer own ls c ls.length 0

/-! ## Values -/

variable {V : Type}

/-- `Data.get_data(cid)` with the installed derived components: an own component returns its
stored array, an externally derivable one evaluates `link.compute(data)`, which reads every input
through `Data.get_data` again; anything else raises `IncompatibleAttribute` (`none`).
The fuel stands for Python's recursion. -/
def evalC (own : List α) (ownVal : α → V) (app : F → List V → V) (via : List (α × Link α F)) :
    Nat → α → Option V
  | 0, _ => none
  | n + 1, c =>
    if c ∈ own then some (ownVal c) else
    match get via c with
    | none => none
    | some l =>
      match allSome (l.froms.map (evalC own ownVal app via n)) with
      | some vs => some (app l.fn vs)
      | none => none

/-- What a dataset reads for `c` once `discover_links` has installed its result. -/
def installedVal (own : List α) (ownVal : α → V) (app : F → List V → V) (ls : List (Link α F))
    (s : DState α F) (c : α) : Option V :=
  evalC own ownVal app s.via (ls.length + 2) c

/-- `v` is the value of a derivation of `c` all of whose sub-derivations have least depth
(a shortest chain of links, composed). -/
inductive MinVal (own : List α) (ls : List (Link α F)) (ownVal : α → V) (app : F → List V → V) :
    α → V → Prop
  | own {c : α} : c ∈ own → MinVal own ls ownVal app c (ownVal c)
  | link {l : Link α F} {k : Nat} (val : α → V) : l ∈ ls → l.to ∉ own →
      (∀ f ∈ l.froms, DerivLe own ls k f) → ¬ DerivLe own ls k l.to →
      (∀ f ∈ l.froms, MinVal own ls ownVal app f (val f)) →
      MinVal own ls ownVal app l.to (app l.fn (l.froms.map val))

/-- The local (Bellman) condition the oracle checks for one cid on one dataset, given the whole
table `out` of what the dataset reads: own cids read their own array; an unreachable cid is not
readable; a reachable foreign cid reads `fn(out inputs)` for some link of least cost. -/
def specOkAt [DecidableEq V] (own : List α) (ls : List (Link α F)) (ownVal : α → V)
    (app : F → List V → V) (out : α → Option V) (c : α) : Bool :=
  if c ∈ own then out c == some (ownVal c) else
  match specDepth own ls c with
  | none => out c == none
  | some 0 => false
  | some (k + 1) =>
    (out c).isSome && ls.any fun l =>
      decide (l.to = c) && (l.froms.all fun f => decide (f ∈ layer own ls k)) &&
        (out c == match allSome (l.froms.map out) with
          | some vs => some (app l.fn vs)
          | none => none)

end Discover

end GlueVerif.Links
