/-
L5 model: link hypergraph, `discover_links` literal loop, LinkManager / DataCollection link
bookkeeping.  Mirrors `glue/core/link_manager.py` (accessible_links, discover_links,
LinkManager.add_link / remove_link / _component_removed / _data_removed /
update_externally_derivable_components), `glue/core/data_collection.py` (_sync_link_manager,
delay_link_manager_update, append, remove), `glue/core/data.py` (internal derived components:
add_component_link, remove_component / _remove_component / _removed_derived_that_depend_on — the
recursive cascade, every removal announced —, update_id, `links`) and the lazy evaluation of the
own and of the installed `DerivedComponent`s through `Data.get_data` / `ComponentLink.compute`.
Core Lean only.
-/
namespace GlueVerif.Links

/-! ## Association lists (first match wins, update = prepend) -/

def get {α β : Type} [DecidableEq α] : List (α × β) → α → Option β
  | [], _ => none
  | (k, v) :: r, c => if c = k then some v else get r c

/-- `some [v₁,…,vₙ]` when every entry is `some`, else `none`. -/
def allSome {β : Type} : List (Option β) → Option (List β)
  | [] => some []
  | none :: _ => none
  | some v :: r => match allSome r with
    | some vs => some (v :: vs)
    | none => none

/-! ## Links and the literal `discover_links` loop -/

/-- A `ComponentLink`: input cids, target cid, function identifier. -/
structure Link (α F : Type) where
  froms : List α
  to : α
  fn : F
  deriving DecidableEq, Repr

/-- State of the `while True` loop of `discover_links`: `depth` (its keys are the set `cids`) and
`cid_links`. -/
structure DState (α F : Type) where
  depth : List (α × Nat)
  via : List (α × Link α F)
  deriving Repr

section Discover
variable {α F : Type} [DecidableEq α]

/-- `max([depth[f] for f in from_])` (0 for an empty list); `none` when some input is not in
`cids`, i.e. the link is not returned by `accessible_links`. -/
def maxDepth? (depth : List (α × Nat)) : List α → Option Nat
  | [] => some 0
  | f :: fs => match get depth f, maxDepth? depth fs with
    | some d, some m => some (max d m)
    | _, _ => none

/-- `cost = max(depth of inputs) + 1` for an accessible link. -/
def cost? (depth : List (α × Nat)) (l : Link α F) : Option Nat :=
  match maxDepth? depth l.froms with
  | some m => some (m + 1)
  | none => none

/-- The `for link in accessible_links(cids, links)` scan: the first accessible link whose target is
new, or whose cost is strictly below the recorded depth (`if to_ in cids and cost >= depth[to_]:
continue`). -/
def findStep (depth : List (α × Nat)) : List (Link α F) → Option (Link α F × Nat)
  | [] => none
  | l :: ls =>
    match cost? depth l with
    | none => findStep depth ls
    | some c =>
      match get depth l.to with
      | none => some (l, c)
      | some d => if c < d then some (l, c) else findStep depth ls

/-- One `depth[to_] = cost; cids.add(to_); cid_links[to_] = link`. -/
def DState.record (s : DState α F) (l : Link α F) (c : Nat) : DState α F :=
  ⟨(l.to, c) :: s.depth, (l.to, l) :: s.via⟩

/-- The `while True:` loop, with fuel. -/
def discoverFuel : Nat → List (Link α F) → DState α F → DState α F
  | 0, _, s => s
  | n + 1, ls, s =>
    match findStep s.depth ls with
    | none => s
    | some (l, c) => discoverFuel n ls (s.record l c)

/-- `cids = set(main_components + coordinate_components)`, all at depth 0. -/
def initState (own : List α) : DState α F := ⟨own.map (fun c => (c, 0)), []⟩

/-- Enough fuel for the loop to reach its fixpoint (theorem `discover_terminates`). -/
def fuelBound (ls : List (Link α F)) : Nat := ls.length * (ls.length + 1) + 1

/-- `discover_links(data, links)`; `links` is given in the order in which the Python `set` is
iterated. -/
def discoverLinks (own : List α) (ls : List (Link α F)) : DState α F :=
  discoverFuel (fuelBound ls) ls (initState own)

/-! ## Specification: inductive closure and depth layers -/

/-- The inductive closure: `c` can be read from a dataset owning `own` through `ls`. -/
inductive Reachable (own : List α) (ls : List (Link α F)) : α → Prop
  | own {c : α} : c ∈ own → Reachable own ls c
  | link {l : Link α F} : l ∈ ls → (∀ f ∈ l.froms, Reachable own ls f) → Reachable own ls l.to

/-- `c` has a derivation (tree of links rooted in `own`) of depth at most `k`. -/
inductive DerivLe (own : List α) (ls : List (Link α F)) : Nat → α → Prop
  | own {k : Nat} {c : α} : c ∈ own → DerivLe own ls k c
  | link {k : Nat} {l : Link α F} : l ∈ ls → (∀ f ∈ l.froms, DerivLe own ls k f) →
      DerivLe own ls (k + 1) l.to

/-- One more round of link application on top of `prev`. -/
def nextLayer (own : List α) (ls : List (Link α F)) (prev : List α) : List α :=
  own ++ (ls.filter fun l => l.froms.all fun f => decide (f ∈ prev)).map (·.to)

/-- Executable layers: `layer k` lists the cids with a derivation of depth ≤ `k`. -/
def layer (own : List α) (ls : List (Link α F)) : Nat → List α
  | 0 => own
  | k + 1 => nextLayer own ls (layer own ls k)

/-- Least `k' ∈ [k, k+n]` with `c ∈ layer k'`, given `cur = layer k`. -/
def firstLayer (own : List α) (ls : List (Link α F)) (c : α) : Nat → Nat → List α → Option Nat
  | 0, k, cur => if c ∈ cur then some k else none
  | n + 1, k, cur =>
    if c ∈ cur then some k else firstLayer own ls c n (k + 1) (nextLayer own ls cur)

/-- The least derivation depth of `c` (`none` = not reachable). -/
def specDepth (own : List α) (ls : List (Link α F)) (c : α) : Option Nat :=
  firstLayer own ls c ls.length 0 own

/-! ## Values -/

variable {V : Type}

/-- `Data.get_data(cid)` with the installed derived components: an own component returns its
stored array, an externally derivable one evaluates `link.compute(data)`, which reads every input
through `Data.get_data` again; anything else raises `IncompatibleAttribute` (`none`).
The fuel stands for Python's recursion. -/
def evalC (own : List α) (ownVal : α → V) (app : F → List V → V) (via : List (α × Link α F)) :
    Nat → α → Option V
  | 0, _ => none
  | n + 1, c =>
    if c ∈ own then some (ownVal c) else
    match get via c with
    | none => none
    | some l =>
      match allSome (l.froms.map (evalC own ownVal app via n)) with
      | some vs => some (app l.fn vs)
      | none => none

/-- What a dataset reads for `c` once `discover_links` has installed its result. -/
def installedVal (own : List α) (ownVal : α → V) (app : F → List V → V) (ls : List (Link α F))
    (s : DState α F) (c : α) : Option V :=
  evalC own ownVal app s.via (ls.length + 2) c

/-- `v` is the value of a derivation of `c` all of whose sub-derivations have least depth
(a shortest chain of links, composed). -/
inductive MinVal (own : List α) (ls : List (Link α F)) (ownVal : α → V) (app : F → List V → V) :
    α → V → Prop
  | own {c : α} : c ∈ own → MinVal own ls ownVal app c (ownVal c)
  | link {l : Link α F} {k : Nat} (val : α → V) : l ∈ ls → l.to ∉ own →
      (∀ f ∈ l.froms, DerivLe own ls k f) → ¬ DerivLe own ls k l.to →
      (∀ f ∈ l.froms, MinVal own ls ownVal app f (val f)) →
      MinVal own ls ownVal app l.to (app l.fn (l.froms.map val))

/-- The local (Bellman) condition the oracle checks for one cid on one dataset, given the whole
table `out` of what the dataset reads: own cids read their own array; an unreachable cid is not
readable; a reachable foreign cid reads `fn(out inputs)` for some link of least cost. -/
def specOkAt [DecidableEq V] (own : List α) (ls : List (Link α F)) (ownVal : α → V)
    (app : F → List V → V) (out : α → Option V) (c : α) : Bool :=
  if c ∈ own then out c == some (ownVal c) else
  match specDepth own ls c with
  | none => out c == none
  | some 0 => false
  | some (k + 1) =>
    (out c).isSome && ls.any fun l =>
      decide (l.to = c) && (l.froms.all fun f => decide (f ∈ layer own ls k)) &&
        (out c == match allSome (l.froms.map out) with
          | some vs => some (app l.fn vs)
          | none => none)

end Discover

/-! ## Concrete cids, link functions, values -/

/-- A `ComponentID`: (owner dataset, index); owner `freeDs` = a ComponentID without a parent. -/
abbrev Cid := Nat × Nat
def freeDs : Nat := 99

/-- A link function `(x₁,…,xₙ) ↦ Σ coeffᵢ·xᵢ + off`, applied elementwise
(`identity` = `⟨[1], 0⟩`, `x ↦ a·x+b` = `⟨[a], b⟩`, `x + y` = `⟨[1,1], 0⟩`). -/
structure Fn where
  coeffs : List Int
  off : Int
  deriving DecidableEq, Repr

abbrev Val := List Int

def applyFn (f : Fn) (args : List Val) : Val :=
  match args with
  | [] => []
  | a0 :: _ =>
    (List.range a0.length).map fun i =>
      (List.zipWith (fun c (x : Val) => c * x.getD i 0) f.coeffs args).sum + f.off

abbrev CLink := Link Cid Fn

/-- A `ComponentLink` *object* (identity = `id`); `inv` is `link.inverse` (object id + function),
present only for one-input links created with an inverse. -/
structure LinkObj where
  id : Nat
  link : CLink
  inv : Option (Nat × Fn)
  deriving DecidableEq, Repr

def LinkObj.inverse (o : LinkObj) : Option (Nat × CLink) :=
  match o.inv, o.link.froms with
  | some (i, g), [f] => some (i, ⟨[o.link.to], f, g⟩)
  | _, _ => none

/-- What is stored in `LinkManager._external_links`: a `ComponentLink` or a `LinkCollection`. -/
inductive Entry where
  | single (o : LinkObj)
  | coll (id : Nat) (subs : List LinkObj)
  deriving DecidableEq, Repr

def Entry.id : Entry → Nat
  | .single o => o.id
  | .coll i _ => i

def Entry.objs : Entry → List LinkObj
  | .single o => [o]
  | .coll _ subs => subs

def LinkObj.mentions (o : LinkObj) (c : Cid) : Bool := decide (c ∈ o.link.froms) || decide (c = o.link.to)

/-- `cid in link` (`ComponentLink.__contains__` / `LinkCollection.__contains__`). -/
def Entry.mentions (e : Entry) (c : Cid) : Bool := e.objs.any (·.mentions c)

def Entry.cids (e : Entry) : List Cid := e.objs.flatMap fun o => o.link.to :: o.link.froms

/-- The external part of `self._links | self._inverse_links` as (object id, link) pairs. -/
def effLinksExt (ext : List Entry) : List (Nat × CLink) :=
  let objs := ext.flatMap Entry.objs
  objs.map (fun o => (o.id, o.link)) ++ objs.filterMap LinkObj.inverse

/-- The list scanned by `discover_links`: the links in the observed iteration order of the Python
`set`, followed by all links once more (so that the members are those of `effLinks` whatever the
observed order is; later duplicates never change the loop). -/
def scanList (ord : List Nat) (all : List (Nat × CLink)) : List CLink :=
  ord.filterMap (fun i => (all.find? (fun p => p.1 == i)).map (·.2)) ++ all.map (·.2)

/-! ## LinkManager / DataCollection state machine -/

structure DSet where
  id : Nat
  /-- stored cids: `main_components + coordinate_components` (what `discover_links` starts from) -/
  comps : List Cid
  /-- internal derived components (`derived_components`, in `_components` order): the object id and
  the `ComponentLink` of each `DerivedComponent` (`link.to` is the derived cid, `link.froms` are
  components of the same dataset; such links have no inverse) -/
  derived : List (Nat × CLink)
  /-- registered with the collection's hub (has been appended at some time) -/
  hub : Bool
  /-- `_externally_derivable_components` as installed by the last update -/
  cache : DState Cid Fn
  /-- recursion fuel matching that update -/
  fuel : Nat
  deriving Repr

def DSet.derivedIds (D : DSet) : List Cid := D.derived.map (·.2.to)

/-- `data.components` (without order): stored and internal derived cids. -/
def DSet.ids (D : DSet) : List Cid := D.comps ++ D.derivedIds

structure MState where
  /-- `dc._data` -/
  dsets : List DSet
  /-- datasets that exist but are not (or no longer) in the collection -/
  outside : List DSet
  /-- `LinkManager._external_links` -/
  ext : List Entry
  /-- `_disable_sync_link_manager` -/
  delay : Nat
  /-- component arrays -/
  vals : List (Cid × Val)
  deriving Repr

def MState.init : MState := ⟨[], [], [], 0, []⟩

/-- `self._links | self._inverse_links`: the internal links (`data.links`) of every dataset **of the
collection**, the external links and the inverses, as (object id, link) pairs. -/
def effLinks (s : MState) : List (Nat × CLink) := s.dsets.flatMap (·.derived) ++ effLinksExt s.ext

inductive Op where
  | newData (d : Nat) (comps : List (Cid × Val))
  | append (d : Nat)
  | remove (d : Nat)
  | addComp (d : Nat) (c : Cid) (v : Val)
  /-- `data.add_component_link(ComponentLink(froms, to, using=fn), to)`: an internal derived attribute -/
  | addDerived (d : Nat) (i : Nat) (l : CLink)
  /-- `data.remove_component(c)`: removes `c` and, recursively, every derived attribute reading it -/
  | removeComp (d : Nat) (c : Cid)
  /-- `data.update_id(old, new)` -/
  | updateId (d : Nat) (old new : Cid)
  | addLink (e : Entry)
  | addLinks (es : List Entry)
  | removeLink (id : Nat)
  | removeLinks (ids : List Nat)
  | delayBegin
  | delayEnd
  deriving Repr

inductive Status where
  | ok | attributeError | valueError
  deriving DecidableEq, Repr

/-- `update_externally_derivable_components()` for every dataset of the collection.  `ord` is the
iteration order of the link set observed at the **last** such call of the operation (every call
overwrites what the previous one installed). -/
def update (ord : List Nat) (s : MState) : MState :=
  let ls := scanList ord (effLinks s)
  { s with dsets := s.dsets.map fun D =>
      { D with cache := discoverLinks D.comps ls, fuel := ls.length + 1 } }

/-- `_sync_link_manager()`. -/
def sync (ord : List Nat) (s : MState) : MState := if s.delay = 0 then update ord s else s

/-- The guard of `LinkManager.add_link`, with the operator precedence as written:
`(link not in ext and isinstance(link, LinkCollection)) or link.inverse not in ext`.
A `LinkCollection` has no attribute `inverse`, so the second operand raises for a stored one. -/
def addOne (ext : List Entry) (e : Entry) : Except Status (List Entry) :=
  match e with
  | .coll i _ => if ext.any (fun x => x.id == i) then .error .attributeError else .ok (ext ++ [e])
  | .single o =>
    match o.inv with
    | none => .ok (ext ++ [e])
    | some (j, _) => if ext.any (fun x => x.id == j) then .ok ext else .ok (ext ++ [e])

def addMany : List Entry → List Entry → List Entry × Status
  | ext, [] => (ext, .ok)
  | ext, e :: es =>
    match addOne ext e with
    | .ok ext' => addMany ext' es
    | .error st => (ext, st)

/-- `list.remove(x)`: first occurrence. -/
def eraseId : List Entry → Nat → Option (List Entry)
  | [], _ => none
  | e :: r, i => if e.id = i then some r else (eraseId r i).map (e :: ·)

def removeMany : List Entry → List Nat → List Entry × Status
  | ext, [] => (ext, .ok)
  | ext, i :: is =>
    match eraseId ext i with
    | some ext' => removeMany ext' is
    | none => (ext, .valueError)

/-- `_component_removed` / `_data_removed`: drop every stored link for which `p` holds, calling
`remove_link` (which updates, whatever the delay counter) once per dropped link. -/
def dropLinks (ord : List Nat) (p : Entry → Bool) (s : MState) : MState :=
  if s.ext.any p then update ord { s with ext := s.ext.filter (fun e => !p e) } else s

def findDs (ds : List DSet) (d : Nat) : Option DSet := ds.find? (fun D => D.id == d)

def modDs (ds : List DSet) (d : Nat) (f : DSet → DSet) : List DSet :=
  ds.map fun D => if D.id = d then f D else D

/-- `self._components.pop(c)`. -/
def popCid (c : Cid) (D : DSet) : DSet :=
  { D with comps := D.comps.filter (· != c), derived := D.derived.filter (fun p => p.2.to != c) }

/-- Apply `f` to dataset `d`, in the collection (`inDc`) or outside it. -/
def modAt (inDc : Bool) (s : MState) (d : Nat) (f : DSet → DSet) : MState :=
  if inDc then { s with dsets := modDs s.dsets d f } else { s with outside := modDs s.outside d f }

def dsAt (inDc : Bool) (s : MState) (d : Nat) : Option DSet :=
  findDs (if inDc then s.dsets else s.outside) d

/-- `Data._remove_component(c)` as coded, literally: pop `c`; list the derived components that read
`c` (`_removed_derived_that_depend_on`) and remove each of them **recursively** — every one of these
removals is announced on its own: `DataRemoveComponentMessage` (→ `LinkManager._component_removed`,
which drops every stored link mentioning that cid and updates whatever the delay counter is) and
`ComponentsChangedMessage` (→ `_sync_link_manager` when the dataset is in the collection) — and only
then announce `c` itself.  A dataset that was never appended has no hub and announces nothing. -/
def removeRec (ord : List Nat) (inDc : Bool) (d : Nat) : Nat → MState → Cid → MState
  | 0, s, _ => s
  | n + 1, s, c =>
    match dsAt inDc s d with
    | none => s
    | some D =>
      if c ∈ D.ids then
        let s1 := modAt inDc s d (popCid c)
        let deps := (((popCid c D).derived.filter fun p => decide (c ∈ p.2.froms)).map (·.2.to))
        let s2 := deps.foldl (fun s z => removeRec ord inDc d n s z) s1
        if inDc then sync ord (dropLinks ord (·.mentions c) s2)
        else if D.hub then dropLinks ord (·.mentions c) s2 else s2
      else s

def renameCid (old new c : Cid) : Cid := if c = old then new else c

/-- What `update_id(old, new)` does to the component table and to the links of the derived
components (`link.replace_ids(old, new)`). -/
def renameLink (old new : Cid) (l : CLink) : CLink :=
  ⟨l.froms.map (renameCid old new), renameCid old new l.to, l.fn⟩

def renameDs (old new : Cid) (D : DSet) : DSet :=
  { D with comps := D.comps.map (renameCid old new),
           derived := D.derived.map fun p => (p.1, renameLink old new p.2) }

/-- `replace_ids` mutates the `ComponentLink` objects in place: a (stale) installed dict of any
dataset that holds one of these objects sees the new ids (the dict key stays). -/
def aliasCache (links : List CLink) (old new : Cid) (D : DSet) : DSet :=
  { D with cache := { D.cache with via := D.cache.via.map fun p =>
      if p.2 ∈ links then (p.1, renameLink old new p.2) else p } }

def ownVal (vals : List (Cid × Val)) (c : Cid) : Val := (get vals c).getD []

/-- One operation of a history; `ord` is the observed iteration order of the link set. -/
def step (ord : List Nat) (s : MState) : Op → MState × Status
  | .newData d comps =>
    ({ s with outside := s.outside ++ [⟨d, comps.map (·.1), [], false, ⟨[], []⟩, 0⟩],
              vals := s.vals ++ comps }, .ok)
  | .append d =>
    match findDs s.outside d with
    | none => (s, .ok)
    | some D =>
      (sync ord { s with dsets := s.dsets ++ [{ D with hub := true }],
                         outside := s.outside.filter (fun X => X.id != d) }, .ok)
  | .remove d =>
    let gone := s.dsets.filter (fun X => X.id == d)
    if gone.isEmpty then (s, .ok) else
    let s1 := { s with dsets := s.dsets.filter (fun X => X.id != d), outside := s.outside ++ gone }
    (dropLinks ord (fun e => gone.any fun D => D.ids.any (e.mentions ·)) s1, .ok)
  | .addComp d c v =>
    match findDs s.dsets d with
    | some D =>
      if c ∈ D.ids then (s, .ok) else
      (sync ord { s with dsets := modDs s.dsets d (fun D => { D with comps := D.comps ++ [c] }),
                         vals := s.vals ++ [(c, v)] }, .ok)
    | none =>
      match findDs s.outside d with
      | none => (s, .ok)
      | some D =>
        if c ∈ D.ids then (s, .ok) else
        ({ s with outside := modDs s.outside d (fun D => { D with comps := D.comps ++ [c] }),
                  vals := s.vals ++ [(c, v)] }, .ok)
  | .addDerived d i l =>
    -- `add_component_link` raises ValueError unless every input is a component of the dataset;
    -- `add_component` then announces `ComponentsChangedMessage`
    match findDs s.dsets d with
    | some D =>
      if l.to ∈ D.ids then (s, .ok) else
      if l.froms.all (fun f => decide (f ∈ D.ids)) then
        (sync ord { s with dsets := modDs s.dsets d (fun D => { D with derived := D.derived ++ [(i, l)] }) }, .ok)
      else (s, .valueError)
    | none =>
      match findDs s.outside d with
      | none => (s, .ok)
      | some D =>
        if l.to ∈ D.ids then (s, .ok) else
        if l.froms.all (fun f => decide (f ∈ D.ids)) then
          ({ s with outside := modDs s.outside d (fun D => { D with derived := D.derived ++ [(i, l)] }) }, .ok)
        else (s, .valueError)
  | .removeComp d c =>
    match findDs s.dsets d with
    | some D => (removeRec ord true d (D.derived.length + 1) s c, .ok)
    | none =>
      match findDs s.outside d with
      | none => (s, .ok)
      | some D => (removeRec ord false d (D.derived.length + 1) s c, .ok)
  | .updateId d old new =>
    -- `ComponentReplacedMessage` is a `ComponentsChangedMessage`: the collection re-syncs; the
    -- LinkManager itself does nothing, stored external links keep naming `old`
    if old = new then (s, .ok) else
    match findDs s.dsets d with
    | some D =>
      if new ∈ D.ids then (s, .valueError) else
      if old ∈ D.ids then
        let al := aliasCache (D.derived.map (·.2)) old new
        (sync ord { s with dsets := (modDs s.dsets d (renameDs old new)).map al,
                           outside := s.outside.map al,
                           vals := s.vals ++ [(new, ownVal s.vals old)] }, .ok)
      else (s, .ok)
    | none =>
      match findDs s.outside d with
      | none => (s, .ok)
      | some D =>
        if new ∈ D.ids then (s, .valueError) else
        if old ∈ D.ids then
          -- (outside a delay block no dataset of the collection holds a link object of a dataset
          -- that is not in the collection)
          let al := aliasCache (D.derived.map (·.2)) old new
          ({ s with outside := (modDs s.outside d (renameDs old new)).map al,
                    dsets := if s.delay = 0 then s.dsets else s.dsets.map al,
                    vals := s.vals ++ [(new, ownVal s.vals old)] }, .ok)
        else (s, .ok)
  | .addLink e =>
    match addOne s.ext e with
    | .error st => (s, st)
    | .ok ext' =>
      if ext'.length = s.ext.length then (s, .ok) else (sync ord { s with ext := ext' }, .ok)
  | .addLinks es =>
    -- the list form stops at the first item that raises; the update runs in a `finally`
    -- (glue fix F1: before it, an item raising half-way skipped the update)
    match addMany s.ext es with
    | (ext', st) => (sync ord { s with ext := ext' }, st)
  | .removeLink i =>
    match eraseId s.ext i with
    | none => (s, .valueError)
    | some ext' => (sync ord { s with ext := ext' }, .ok)
  | .removeLinks is =>
    match removeMany s.ext is with
    | (ext', st) => (sync ord { s with ext := ext' }, st)
  | .delayBegin => ({ s with delay := s.delay + 1 }, .ok)
  | .delayEnd => if s.delay = 0 then (s, .ok) else (sync ord { s with delay := s.delay - 1 }, .ok)

def run : MState → List (Op × List Nat) → MState
  | s, [] => s
  | s, (op, ord) :: r => run (step ord s op).1 r

/-! ### reading -/

/-- The dict `Data.get_data` looks a non-stored cid up in: `_components` (the dataset's own derived
components) first, then `_externally_derivable_components`. -/
def DSet.viaAll (D : DSet) : List (Cid × CLink) := D.derived.map (fun p => (p.2.to, p.2)) ++ D.cache.via

/-- `data[cid]` on dataset `D`, with `n` levels of recursion. -/
def readCidN (s : MState) (D : DSet) (n : Nat) (c : Cid) : Option Val :=
  evalC D.comps (ownVal s.vals) applyFn D.viaAll n c

/-- `data[cid]` on dataset `D` (enough levels for a chain through the installed links followed by
the dataset's own derived attributes). -/
def readCid (s : MState) (D : DSet) (c : Cid) : Option Val :=
  readCidN s D (D.fuel + D.derived.length + 1) c

/-- `data.get_mask(cid > thr)`: elementwise on what the dataset reads; `none` = IncompatibleAttribute. -/
def selectGt (thr : Int) (v : Option Val) : Option (List Bool) := v.map (·.map (fun x => decide (x > thr)))

/-- `cid in data.externally_derivable_components` (keys of the installed dict). -/
def isDerivable (D : DSet) (c : Cid) : Bool := (get D.cache.via c).isSome

/-- The current link list, in a canonical order (for the Spec). -/
def curLinks (s : MState) : List CLink := (effLinks s).map (·.2)

/-- The dataset's own derived attributes are installed with their own links (no other link reaches
a derived attribute of the dataset at a smaller or equal cost first).  Then `_components` and
`_externally_derivable_components` agree and what the dataset reads is `discover_links` alone. -/
def internalFirst (D : DSet) : Bool := D.derived.all fun p => get D.cache.via p.2.to == some p.2

/-- A cid a stored link may mention: parentless, or a component (stored or derived) of a dataset
that is in the collection. -/
def liveCid (s : MState) (c : Cid) : Bool := c.1 == freeDs || s.dsets.any (fun D => decide (c ∈ D.ids))

def noDangling (s : MState) : Bool := s.ext.all fun e => e.cids.all (liveCid s)

/-- Hypothesis on a history for `manager_no_dangling` / `manager_inv`: links are only added between
live cids, datasets own their cids, a derived attribute reads at least one attribute, and a
ComponentID that a stored link mentions is not replaced. -/
def wfOp (s : MState) : Op → Bool
  | .addLink e => e.cids.all (liveCid s)
  | .addLinks es => es.all fun e => e.cids.all (liveCid s)
  | .newData d comps => comps.all (fun p => p.1.1 == d) && d != freeDs
  | .addComp d c _ => c.1 == d
  | .addDerived d _ l => l.to.1 == d && !l.froms.isEmpty && l.froms.all (·.1 == d)
  | .updateId d old new => new.1 == d && !(s.ext.any (·.mentions old))
  | _ => true

def runWf : MState → List (Op × List Nat) → Bool
  | _, [] => true
  | s, (op, ord) :: r => wfOp s op && runWf (step ord s op).1 r

end GlueVerif.Links
