import GlueVerif.Model.Coords
import GlueVerif.Model.C16FRB
/-
C16 — the `translate_pixel` leaves / nodes that come from affine coordinate objects (C15 model):
a world coordinate component of the reference dataset, and the world→pixel
`CoordinateComponentLink` of a source dataset.  Core Lean only.
-/
namespace GlueVerif.FRB
open GlueVerif

/-- World coordinate `a` (numpy order) of a dataset with coordinates `c`, as a `translate_pixel`
leaf: `comp._calculate(view=pixel_coords)` = row `a` of the affine map applied to the sample point,
`dimensions = dependent_axes(coords, a)` (C15 model of the repaired `dependent_axes`). -/
def worldLeaf (c : Coords.Coord) (a : Nat) : Deriv :=
  let n := c.n
  match c with
  | .identity _ => .world ((List.range n).map fun j => if j = a then 1 else 0) 0 (Coords.Impl.dependentAxes c a)
  | .affine _ m _ =>
    .world ((List.range n).map fun j => Coords.ent m (n - 1 - a) (n - 1 - j)) (Coords.ent m (n - 1 - a) n)
      (Coords.Impl.dependentAxes c a)

/-- The world→pixel `CoordinateComponentLink` of a dataset for pixel axis `k`: `_from` = the world
ids listed by `from_needed = dependent_axes(coords, k)`, `using` = row `k` of the inverse map
(world coordinates that are not needed are replaced by the default `0`). -/
def w2pNode (c : Coords.Coord) (k : Nat) (froms : List (Nat × Deriv)) : Deriv :=
  let n := c.n
  let needed := Coords.Impl.dependentAxes c k
  let const : Rat := match c with
    | .identity _ => 0
    | .affine _ _ inv => Coords.ent inv (n - 1 - k) n
  let fs := needed.map fun i => (froms.lookup i).getD .missing
  .via (needed.map fun i => c.invEnt (n - 1 - k) (n - 1 - i)) const fs

end GlueVerif.FRB
