/-
C12 model, part 3 (core Lean only): the record formats of `Data` (protocols 1–5) and
`DataCollection` (protocols 1–4) and their saver / loader chains, as in `glue/core/state.py`
(with the F-C12b/F-C12c repairs applied):

    _save_data      (1)  components, subsets, label, coords
    _save_data_2    (2)  = 1 + style
    _save_data_3    (3)  = 2 + _key_joins  (one component ID per side)
    _save_data_4    (4)  = 2 + _key_joins  (tuples of component IDs) + uuid
    _save_data_5    (5)  = 4 + primary_owner + metaKV
    _load_data … _load_data_5 : the same chain, each loader calling the older one

    _save_data_collection   (1)  data, links (= dc.links), cids, components
    _save_data_collection_2 (2)  = 1 + groups
    _save_data_collection_3 (3)  = 2 + subset_group_count
    _save_data_collection_4 (4)  data, links (= dc.external_links), cids, components, groups, count
    _load_data_collection (1): datasets, links; derived components whose link is not an internal
        link are dropped (protocol ≤ 3); coerce_subset_groups turns plain subsets into groups
    _load_data_collection_2/3 : call the older loader, then groups / count
    _load_data_collection_4   : stand-alone

Objects are modelled by what the property observes of them (labels, component values, derived
components, selections and their styles, key joins, links, uuid, metaKV); a record is a structure
with one optional field per record key, so that "the loader of version v reads a key the saver of
version v does not write" is a `none` (Python: KeyError).

Round 2: (a) every `Data` record of a collection record carries its *own* `_protocol` (documents
mixing protocols), savers take one version per dataset, and the unserializer is modelled as the
state machine it is (`Ctx` = `GlueUnSerializer._objs`, requests in any order, `Unser.run`);
(b) links are the full zoo: `ComponentLink`s with any number of inputs from any datasets, with or
without inverse, the helpers `LinkSame`, `LinkTwoWay`, multi-link helpers, `LinkAligned`, derived
components through arithmetic and through user functions, coordinate links.  The protocol ≤ 3
loader *classifies* the saved links (crossing datasets or not) exactly as the code does.
-/
namespace GlueVerif.C12.Records

/-! ## objects -/

/-- `VisualAttributes` as observed: palette index, marker size, alpha·4 (`none` = not a multiple
of ¼, which is the case for the default 0.8). -/
structure Style where
  col : Int
  size : Int
  alpha4 : Option Int
  deriving Repr, DecidableEq

/-- `VisualAttributes()` -/
def Style.default : Style := ⟨0, 3, none⟩

inductive Kind where
  | int | half | cat
  deriving Repr, DecidableEq

/-- a main component: label, kind, values (`half`: in units of ½; `cat`: category index) -/
structure Comp where
  label : String
  kind : Kind
  vals : List Int
  deriving Repr, DecidableEq

/-- a link function, by name (`identity`, the importable user functions of
`harness/props/c12_linkfns.py`, `PartialResult`s `f_1`, `f_2`, `binop_mul` / `binop_add` for the
arithmetic `BinaryComponentLink`s, `coord` for coordinate links) -/
abbrev Fn := String

/-- a derived component of a dataset -/
inductive Der where
  | dbl (label src : String)          -- data.id[src] * 2
  | sum (label a b : String)          -- data.id[a] + data.id[b]
  | fn1 (label : String) (f : Fn) (src : String)    -- add_component_link(ComponentLink([src], cid, using=f))
  | fn2 (label : String) (f : Fn) (a b : String)    -- add_component_link(ComponentLink([a, b], cid, using=f))
  deriving Repr, DecidableEq

def Der.label : Der → String
  | .dbl l _ => l
  | .sum l _ _ => l
  | .fn1 l _ _ => l
  | .fn2 l _ _ _ => l

/-- a component of a dataset of the collection: dataset index, label (`Pixel_Axis_0_[x]` and
`World_0` name the coordinate components) -/
structure CRef where
  ds : Nat
  label : String
  deriving Repr, DecidableEq

/-- `ComponentLink(frm, to, using, inverse)` -/
structure CLink where
  frm : List CRef
  to : CRef
  fn : Fn
  inv : Option Fn
  deriving Repr, DecidableEq

/-- the link inside the derived component `der` of dataset `i` (all its inputs are components of
the same dataset: `add_component_link` refuses anything else) -/
def Der.link (i : Nat) : Der → CLink
  | .dbl l s => ⟨[⟨i, s⟩], ⟨i, l⟩, "binop_mul", none⟩
  | .sum l a b => ⟨[⟨i, a⟩, ⟨i, b⟩], ⟨i, l⟩, "binop_add", none⟩
  | .fn1 l f s => ⟨[⟨i, s⟩], ⟨i, l⟩, f, none⟩
  | .fn2 l f a b => ⟨[⟨i, a⟩, ⟨i, b⟩], ⟨i, l⟩, f, none⟩

/-- subset states over components of one dataset -/
inductive St where
  | gt (c : String) (t : Int)
  | range (c : String) (lo hi : Int)
  | and (a b : St)
  | or (a b : St)
  | not (a : St)
  deriving Repr, DecidableEq

/-- a selection: label, the dataset whose components the state refers to, the state, its style -/
structure Sel where
  label : String
  owner : Nat
  state : St
  style : Style
  deriving Repr, DecidableEq

/-- `data._key_joins[other] = (own cids, other cids)` -/
structure Join where
  other : Nat
  own : List String
  theirs : List String
  deriving Repr, DecidableEq

structure DataO where
  label : String
  comps : List Comp
  derived : List Der
  /-- subsets attached to this dataset, in order (plain `Subset`s or `GroupedSubset`s) -/
  subsets : List Sel
  style : Style
  joins : List Join
  /-- `some i` = the uuid of original dataset `i`; `none` = a fresh `uuid4()` -/
  uuid : Option Nat
  metaKV : List (String × String)
  coords : Bool
  deriving Repr, DecidableEq

def pixLabel : String := "Pixel_Axis_0_[x]"
def worldLabel : String := "World_0"

/-- an entry of `dc.external_links`: a plain `ComponentLink` or a link helper -/
inductive Ext where
  | plain (l : CLink)
  | same (a b : CRef)                        -- LinkSame(a, b)
  | twoWay (a b : CRef) (f g : Fn)           -- LinkTwoWay(a, b, f, g)
  | pair (a1 a2 b1 b2 : CRef)                -- PairLink(cids1=[a1, a2], cids2=[b1, b2]) (BaseMultiLink sub-class)
  | multi (a1 a2 b1 b2 : CRef)               -- MultiLink([a1, a2], [b1, b2], forwards=pair_fw, backwards=pair_bw)
  | aligned (i j : Nat)                      -- LinkAligned(data[i], data[j]) (one-dimensional datasets)
  deriving Repr, DecidableEq

/-- the `ComponentLink`s a helper consists of (`for sublink in link`), in order -/
def Ext.flatten : Ext → List CLink
  | .plain l => [l]
  | .same a b => [⟨[a], b, "identity", some "identity"⟩]
  | .twoWay a b f g => [⟨[a], b, f, none⟩, ⟨[b], a, g, none⟩]
  | .pair a1 a2 b1 b2 =>
    [⟨[a1, a2], b1, "forwards_1", none⟩, ⟨[a1, a2], b2, "forwards_2", none⟩,
     ⟨[b1, b2], a1, "backwards_1", none⟩, ⟨[b1, b2], a2, "backwards_2", none⟩]
  | .multi a1 a2 b1 b2 =>
    [⟨[a1, a2], b1, "pair_fw_1", none⟩, ⟨[a1, a2], b2, "pair_fw_2", none⟩,
     ⟨[b1, b2], a1, "pair_bw_1", none⟩, ⟨[b1, b2], a2, "pair_bw_2", none⟩]
  | .aligned i j => [⟨[⟨i, pixLabel⟩], ⟨j, pixLabel⟩, "identity", some "identity"⟩]

structure DCO where
  data : List DataO
  /-- `dc.external_links`, in order -/
  links : List Ext
  /-- `dc.subset_groups` (label, style), in order -/
  groups : List (String × Style)
  sgCount : Nat
  deriving Repr, DecidableEq

/-! ## records -/

/-- `_key_joins` as written: protocol 3 one ID per side, protocol ≥ 4 tuples -/
inductive JoinRec where
  | single (other : Nat) (own theirs : String)
  | tuple (other : Nat) (own theirs : List String)
  deriving Repr, DecidableEq

/-- the JSON record of a `Data` object: one optional field per key a saver may write -/
structure DataRec where
  protocol : Nat
  label : String
  components : List Comp
  derived : List Der
  subsets : List Sel
  coords : Bool
  style : Option Style
  keyJoins : Option (List JoinRec)
  uuid : Option (Option Nat)
  primaryOwner : Option (List String)
  metaKV : Option (List (String × String))
  deriving Repr, DecidableEq

/-- a serialized link: a `CoordinateComponentLink` of a dataset with coordinates, a
`ComponentLink` (of a derived component, or between datasets), or a link helper (written through
its `__gluestate__`; only the protocol-4 saver writes `dc.external_links` unexpanded) -/
inductive LinkRec where
  | coord (ds : Nat) (pix2world : Bool)
  | link (l : CLink)
  | helper (e : Ext)
  deriving Repr, DecidableEq

structure DCRec where
  protocol : Nat
  data : List DataRec
  links : List LinkRec
  groups : Option (List (String × Style))
  sgCount : Option Nat
  deriving Repr, DecidableEq

/-! ## Data savers (the chain of `state.py`) -/

def saveData1 (d : DataO) : DataRec :=
  { protocol := 1, label := d.label, components := d.comps, derived := d.derived,
    subsets := d.subsets, coords := d.coords,
    style := none, keyJoins := none, uuid := none, primaryOwner := none, metaKV := none }

def saveData2 (d : DataO) : DataRec :=
  { saveData1 d with protocol := 2, style := some d.style }

/-- protocol 3 stores one component ID per side; a join on several components cannot be written
(`GlueSerializeError`, F-C12c repair) -/
def saveJoin3 (j : Join) : Option JoinRec :=
  match j.own, j.theirs with
  | [a], [b] => some (.single j.other a b)
  | _, _ => none

def saveData3 (d : DataO) : Option DataRec := do
  let js ← d.joins.mapM saveJoin3
  some { saveData2 d with protocol := 3, keyJoins := some js }

def saveData4 (d : DataO) : DataRec :=
  { saveData2 d with
    protocol := 4
    keyJoins := some (d.joins.map (fun j => JoinRec.tuple j.other j.own j.theirs))
    uuid := some d.uuid }

def saveData5 (d : DataO) : DataRec :=
  { saveData4 d with
    protocol := 5
    primaryOwner := some (d.comps.map (fun c => c.label) ++ d.derived.map (fun c => c.label))
    metaKV := some d.metaKV }

/-- `dispatch.get_version(Data, v)`; `none` = the saver raises, or no such version -/
def saveData (v : Nat) (d : DataO) : Option DataRec :=
  match v with
  | 1 => some (saveData1 d)
  | 2 => some (saveData2 d)
  | 3 => saveData3 d
  | 4 => some (saveData4 d)
  | 5 => some (saveData5 d)
  | _ => none

/-! ## Data loaders -/

def loadData1 (r : DataRec) : Option DataO :=
  some { label := r.label, comps := r.components, derived := r.derived, subsets := r.subsets,
         style := Style.default, joins := [], uuid := none, metaKV := [], coords := r.coords }

def loadData2 (r : DataRec) : Option DataO := do
  let d ← loadData1 r
  let st ← r.style                       -- rec['style']
  some { d with style := st }

/-- F-C12c repair: a single ID is wrapped into a 1-tuple -/
def loadJoin : JoinRec → Join
  | .single o a b => ⟨o, [a], [b]⟩
  | .tuple o a b => ⟨o, a, b⟩

def loadData3 (r : DataRec) : Option DataO := do
  let d ← loadData2 r
  let js ← r.keyJoins                    -- rec['_key_joins']
  some { d with joins := js.map loadJoin }

def loadData4 (r : DataRec) : Option DataO := do
  let d ← loadData2 r
  let js ← r.keyJoins
  -- `if 'uuid' in rec and rec['uuid'] is not None … else uuid4()`
  let u : Option Nat := match r.uuid with
    | some (some i) => some i
    | _ => none
  some { d with joins := js.map loadJoin, uuid := u }

def loadData5 (r : DataRec) : Option DataO := do
  let d ← loadData4 r
  -- `if 'metaKV' in rec: result.metaKV.update(...)`; `if 'primary_owner' in rec: cid.parent = result`
  some { d with metaKV := r.metaKV.getD [] }

/-- `GlueUnSerializer._dispatch`: the loader registered for `rec['_protocol']` -/
def loadData (r : DataRec) : Option DataO :=
  match r.protocol with
  | 1 => loadData1 r
  | 2 => loadData2 r
  | 3 => loadData3 r
  | 4 => loadData4 r
  | 5 => loadData5 r
  | _ => none

/-! ## DataCollection savers -/

/-- `data.links` of dataset `i`: its coordinate links, then the links of its derived components -/
def dataLinks (i : Nat) (d : DataO) : List LinkRec :=
  (if d.coords then [LinkRec.coord i true, LinkRec.coord i false] else []) ++
  d.derived.map (fun der => LinkRec.link (der.link i))

/-- the links of datasets `i, i+1, …` -/
def dataLinksFrom : Nat → List DataO → List LinkRec
  | _, [] => []
  | i, d :: r => dataLinks i d ++ dataLinksFrom (i + 1) r

/-- `dc.links`: the links of every dataset, then the external links with every helper expanded
into its `ComponentLink`s (a `set` in the code; the order is not observed) -/
def allLinks (dc : DCO) : List LinkRec :=
  dataLinksFrom 0 dc.data ++ (dc.links.flatMap Ext.flatten).map LinkRec.link

/-- `dc.external_links` as written by protocol 4: helpers through their `__gluestate__` -/
def extRec : Ext → LinkRec
  | .plain l => .link l
  | e => .helper e

/-- `list(map(context.id, dc))`: every dataset with the `Data` saver chosen for it
(`dvs[i]` = the protocol dataset `i` is written with; one version per dataset) -/
def saveDatas (dvs : List Nat) (ds : List DataO) : Option (List DataRec) :=
  if dvs.length = ds.length then (ds.zip dvs).mapM (fun p => saveData p.2 p.1) else none

def saveDC1 (dvs : List Nat) (dc : DCO) : Option DCRec := do
  let ds ← saveDatas dvs dc.data
  some { protocol := 1, data := ds, links := allLinks dc, groups := none, sgCount := none }

def saveDC2 (dvs : List Nat) (dc : DCO) : Option DCRec := do
  let r ← saveDC1 dvs dc
  some { r with protocol := 2, groups := some dc.groups }

def saveDC3 (dvs : List Nat) (dc : DCO) : Option DCRec := do
  let r ← saveDC2 dvs dc
  some { r with protocol := 3, sgCount := some dc.sgCount }

def saveDC4 (dvs : List Nat) (dc : DCO) : Option DCRec := do
  let ds ← saveDatas dvs dc.data
  some { protocol := 4, data := ds, links := dc.links.map extRec,
         groups := some dc.groups, sgCount := some dc.sgCount }

/-- the `DataCollection` saver of version `cv`, the datasets written with versions `dvs` -/
def saveDC (cv : Nat) (dvs : List Nat) (dc : DCO) : Option DCRec :=
  match cv with
  | 1 => saveDC1 dvs dc
  | 2 => saveDC2 dvs dc
  | 3 => saveDC3 dvs dc
  | 4 => saveDC4 dvs dc
  | _ => none

/-! ## DataCollection loaders -/

/-- `links = [context.object(l) …]` followed by the filter that drops `CoordinateComponentLink`s;
a helper in a protocol ≤ 3 record has no `get_to_id` (AttributeError) -/
def loadedLinks : List LinkRec → Option (List CLink)
  | [] => some []
  | .coord _ _ :: r => loadedLinks r
  | .link l :: r => (loadedLinks r).map (l :: ·)
  | .helper _ :: _ => none

/-- the `for cid in link.get_from_ids(): if cid.parent is not parent_to: external …` loop:
a link is external as soon as **one** input lives in another dataset than its output -/
def crossing (l : CLink) : Bool := l.frm.any fun c => c.ds != l.to.ds

/-- protocol ≤ 3: a derived component survives iff its link is among the internal links -/
def keepInternal (internal : List CLink) (i : Nat) (d : DataO) : DataO :=
  { d with derived := d.derived.filter fun der => internal.contains (der.link i) }

def keepFrom (internal : List CLink) : Nat → List DataO → List DataO
  | _, [] => []
  | i, d :: r => keepInternal internal i d :: keepFrom internal (i + 1) r

/-- `coerce_subset_groups`: walking the datasets in order, every subset that is not yet a
`GroupedSubset` is deleted and re-created as a group — which attaches a grouped subset to
*every* dataset.  `plain` = the plain subsets found, in the order they are converted. -/
def coerce (ds : List DataO) : List DataO × List (String × Style) :=
  let plain : List Sel := ds.flatMap (·.subsets)
  (ds.map fun d => { d with subsets := plain }, plain.map fun s => (s.label, s.style))

/-- `_load_data_collection` after the datasets have been obtained from the context -/
def assembleDC1 (r : DCRec) (ds : List DataO) : Option DCO := do
  let links ← loadedLinks r.links
  let external := links.filter crossing
  let internal := links.filter fun l => !crossing l
  let ds := keepFrom internal 0 ds
  let (ds, groups) := coerce ds
  -- `new_subset_group` counts the groups it creates
  some { data := ds, links := external.map Ext.plain, groups := groups, sgCount := groups.length }

/-- in protocol ≥ 2 records every subset already is a grouped subset: `coerce` finds nothing -/
def assembleDCgrouped (r : DCRec) (ds : List DataO) : Option DCO := do
  let links ← loadedLinks r.links
  let external := links.filter crossing
  let internal := links.filter fun l => !crossing l
  let ds := keepFrom internal 0 ds
  some { data := ds, links := external.map Ext.plain, groups := [], sgCount := 0 }

def assembleDC2 (r : DCRec) (ds : List DataO) : Option DCO := do
  let dc ← assembleDCgrouped r ds
  let g ← r.groups                       -- rec['groups']
  some { dc with groups := g }

def assembleDC3 (r : DCRec) (ds : List DataO) : Option DCO := do
  let dc ← assembleDC2 r ds
  let n ← r.sgCount                      -- rec['subset_group_count']
  some { dc with sgCount := n }

/-- `dc.set_links([context.object(l) …])`: whatever was written, unclassified.  No saver writes a
coordinate link into a protocol-4 record (not modelled: `none`). -/
def loadedExt : List LinkRec → Option (List Ext)
  | [] => some []
  | .coord _ _ :: _ => none
  | .link l :: r => (loadedExt r).map (Ext.plain l :: ·)
  | .helper e :: r => (loadedExt r).map (e :: ·)

def assembleDC4 (r : DCRec) (ds : List DataO) : Option DCO := do
  let links ← loadedExt r.links
  let g ← r.groups
  let n ← r.sgCount
  some { data := ds, links := links, groups := g, sgCount := n }

/-- the `DataCollection` loader registered for `rec['_protocol']`, given the loaded datasets -/
def assembleDC (r : DCRec) (ds : List DataO) : Option DCO :=
  match r.protocol with
  | 1 => assembleDC1 r ds
  | 2 => assembleDC2 r ds
  | 3 => assembleDC3 r ds
  | 4 => assembleDC4 r ds
  | _ => none

/-- record-wise loading of one collection record: every dataset record by the loader of **its
own** `_protocol` (`loadData`), the collection by the loader of its `_protocol` -/
def loadDC (r : DCRec) : Option DCO := do
  let ds ← r.data.mapM loadData
  assembleDC r ds

/-! ## the unserializer: one document, one `GlueUnSerializer`

A document holds any number of collection records (`__main__` = the list of them), each with its
dataset records; in the JSON text these are separate named records that refer to each other by
name, here a dataset record is named by (collection index, position).  `context.object(name)`
returns the memoised object if the name has been loaded already and otherwise dispatches on the
record.  The caller may ask for any records, in any order, before asking for `__main__`. -/

abbrev Doc := List DCRec

/-- a `context.object(name)` call made by the caller before `__main__` is requested -/
inductive Req where
  | data (k i : Nat)
  | coll (k : Nat)
  deriving Repr, DecidableEq

/-- `GlueUnSerializer._objs`: the only state of an unserializer that survives a request -/
structure Ctx where
  datas : List ((Nat × Nat) × DataO)
  colls : List (Nat × DCO)

def Ctx.empty : Ctx := ⟨[], []⟩

/-- `context.object(name)` for the dataset record `dr` named `(k, i)`:
`if obj_id in self._objs: return self._objs[obj_id]`, else `self._dispatch(rec)(rec, self)` —
the loader is chosen from `_type` and `_protocol` of **this** record (`loadData`) — and the
result is memoised under the name. -/
def Ctx.objectData (c : Ctx) (k i : Nat) (dr : DataRec) : Option (Ctx × DataO) :=
  match c.datas.lookup (k, i) with
  | some d => some (c, d)
  | none => match loadData dr with
    | none => none
    | some d => some ({ c with datas := ((k, i), d) :: c.datas }, d)

/-- `list(map(context.object, rec['data']))` -/
def Ctx.objectDatas (k : Nat) : Ctx → List (DataRec × Nat) → Option (Ctx × List DataO)
  | c, [] => some (c, [])
  | c, (dr, i) :: rest => match c.objectData k i dr with
    | none => none
    | some (c1, d) => match Ctx.objectDatas k c1 rest with
      | none => none
      | some (c2, ds) => some (c2, d :: ds)

/-- `context.object(name)` for collection record `r` named `k` -/
def Ctx.objectColl (c : Ctx) (k : Nat) (r : DCRec) : Option (Ctx × DCO) :=
  match c.colls.lookup k with
  | some x => some (c, x)
  | none => match Ctx.objectDatas k c r.data.zipIdx with
    | none => none
    | some (c1, ds) => match assembleDC r ds with
      | none => none
      | some x => some ({ c1 with colls := (k, x) :: c1.colls }, x)

def Ctx.objectColls : Ctx → List (DCRec × Nat) → Option (Ctx × List DCO)
  | c, [] => some (c, [])
  | c, (r, k) :: rest => match c.objectColl k r with
    | none => none
    | some (c1, x) => match Ctx.objectColls c1 rest with
      | none => none
      | some (c2, xs) => some (c2, x :: xs)

/-- one caller request; an unknown name is `GlueSerializeError("Unrecognized object")` -/
def Ctx.request (doc : Doc) (c : Ctx) : Req → Option Ctx
  | .data k i => match doc[k]? with
    | none => none
    | some r => match r.data[i]? with
      | none => none
      | some dr => (c.objectData k i dr).map (·.1)
  | .coll k => match doc[k]? with
    | none => none
    | some r => (c.objectColl k r).map (·.1)

def Ctx.requests (doc : Doc) : Ctx → List Req → Option Ctx
  | c, [] => some c
  | c, q :: qs => match c.request doc q with
    | none => none
    | some c1 => Ctx.requests doc c1 qs

/-- a fresh unserializer on `doc`: the caller's requests, then `object('__main__')` -/
def Unser.run (doc : Doc) (reqs : List Req) : Option (List DCO) :=
  match Ctx.requests doc Ctx.empty reqs with
  | none => none
  | some c => (Ctx.objectColls c doc.zipIdx).map (·.2)

/-- the request names a record of the document -/
def Req.valid (doc : Doc) : Req → Prop
  | .data k i => ∃ r, doc[k]? = some r ∧ i < r.data.length
  | .coll k => k < doc.length

/-! ## Spec: what a record of version v carries -/

/-- the part of a dataset that a protocol-`v` record carries; everything else takes the
constructor default (`Data(label=…)`) -/
def projectData (v : Nat) (d : DataO) : DataO :=
  { d with
    style := if 2 ≤ v then d.style else Style.default,
    joins := if 3 ≤ v then d.joins else [],
    uuid := if 4 ≤ v then d.uuid else none,
    metaKV := if 5 ≤ v then d.metaKV else [] }

/-- every dataset projected to the protocol it is written with -/
def projectDatas (dvs : List Nat) (ds : List DataO) : List DataO :=
  (ds.zip dvs).map fun p => projectData p.2 p.1

/-- the part of a collection that a protocol-`cv` record (dataset `i` written with protocol
`dvs[i]`) carries.  Protocol 1 pre-dates subset groups: the plain subsets of the datasets are
upgraded to groups.  Protocols ≤ 3 write `dc.links`, i.e. every helper expanded into its
`ComponentLink`s; protocol 4 writes the helpers themselves. -/
def projectDC (cv : Nat) (dvs : List Nat) (dc : DCO) : DCO :=
  let ds := projectDatas dvs dc.data
  let flat := (dc.links.flatMap Ext.flatten).map Ext.plain
  if cv = 1 then
    let (ds', groups) := coerce ds
    { data := ds', links := flat, groups := groups, sgCount := groups.length }
  else
    { data := ds, links := if cv ≤ 3 then flat else dc.links, groups := dc.groups,
      sgCount := if 3 ≤ cv then dc.sgCount else 0 }

/-- objects a (dvs, cv) assignment can represent: one version per dataset; protocol 3 has one
component per join side; protocol-1 collections have no groups (only plain subsets), later ones
only grouped subsets; every link between datasets really is one (at least one input from another
dataset than the output — protocols ≤ 3 re-classify the links on load) -/
def representable (cv : Nat) (dvs : List Nat) (dc : DCO) : Bool :=
  (dvs.length == dc.data.length) &&
  ((dc.data.zip dvs).all fun p =>
    p.2 != 3 || p.1.joins.all fun j => j.own.length == 1 && j.theirs.length == 1) &&
  (if cv = 1 then dc.groups.isEmpty else true) &&
  (if cv ≤ 3 then (dc.links.flatMap Ext.flatten).all crossing else true)

/-- the only clause of `representable` whose failure is a (loud) refusal of the saver -/
def saveRefused (dvs : List Nat) (dc : DCO) : Bool :=
  !((dc.data.zip dvs).all fun p =>
    p.2 != 3 || p.1.joins.all fun j => j.own.length == 1 && j.theirs.length == 1)

/-! ## what the harness observes of an object (values through links, masks through links and
key joins)

These functions model glue's *evaluation* of links and selections (`LinkManager`,
`discover_links`), not the serializer; they are validated by the correspondence check only. -/

def findComp (d : DataO) (c : String) : Option Comp := d.comps.find? (·.label = c)

/-- a column in the observation encoding -/
abbrev Val := Kind × List Int

/-- numeric columns: (integer dtype?, values in units of ½) -/
def numOf : Val → Option (Bool × List Int)
  | (.int, vs) => some (true, vs.map (· * 2))
  | (.half, vs) => some (false, vs)
  | (.cat, _) => none

def ofNum (isInt : Bool) (vs : List Int) : Val :=
  if isInt then (.int, vs.map (· / 2)) else (.half, vs)

/-- the link functions, on columns (numpy dtype promotion: integer iff all inputs are) -/
def applyFn (f : Fn) (args : List Val) : Option Val :=
  if f = "identity" ∨ f = "coord" then
    match args with
    | [v] => some v
    | _ => none
  else do
    let ns ← args.mapM numOf
    let isInt := ns.all (·.1)
    let un (g : Int → Int) : Option Val := match ns with
      | [(_, xs)] => some (ofNum isInt (xs.map g))
      | _ => none
    let bin (g : Int → Int → Int) : Option Val := match ns with
      | [(_, xs), (_, ys)] => some (ofNum isInt (List.zipWith g xs ys))
      | _ => none
    if f = "twice" ∨ f = "binop_mul" then un (· * 2)
    else if f = "plus3" then un (· + 6)
    else if f = "minus3" then un (· - 6)
    else if f = "neg" then un (- ·)
    else if f = "add2" ∨ f = "binop_add" ∨ f = "forwards_1" ∨ f = "backwards_1" ∨
        f = "pair_fw_1" ∨ f = "pair_bw_1" then bin (· + ·)
    else if f = "sub2" ∨ f = "forwards_2" ∨ f = "backwards_2" ∨ f = "pair_fw_2" ∨
        f = "pair_bw_2" then bin (· - ·)
    else if f = "lin3" then match ns with
      | [(_, xs), (_, ys), (_, zs)] =>
        some (ofNum isInt (List.zipWith (· - ·) (List.zipWith (fun x y => x + 2 * y) xs ys) zs))
      | _ => none
    else none

abbrev Env := List (CRef × Val)

def Env.get (env : Env) (r : CRef) : Option Val := (env.find? (·.1 = r)).map (·.2)

/-- number of rows of a dataset -/
def nrows (d : DataO) : Nat := match d.comps with
  | c :: _ => c.vals.length
  | [] => 0

/-- what dataset `k` holds itself: pixel coordinate, main components, world coordinate
(`IdentityCoordinates`: equal to the pixel coordinate) -/
def ownEnv (k : Nat) (d : DataO) : Env :=
  let idx : List Int := (List.range (nrows d)).map Int.ofNat
  [(⟨k, pixLabel⟩, (Kind.int, idx))] ++ d.comps.map (fun c => (⟨k, c.label⟩, (c.kind, c.vals))) ++
  (if d.coords then [(⟨k, worldLabel⟩, (Kind.int, idx))] else [])

/-- every link the link manager knows: `data.links` of every dataset, the external links with
helpers expanded, and the inverse links -/
def candidateLinks (dc : DCO) : List CLink :=
  let internal : List CLink := dc.data.zipIdx.flatMap fun (d, i) =>
    (if d.coords then [(⟨[⟨i, pixLabel⟩], ⟨i, worldLabel⟩, "coord", none⟩ : CLink),
                       ⟨[⟨i, worldLabel⟩], ⟨i, pixLabel⟩, "coord", none⟩] else []) ++
    d.derived.map (·.link i)
  let ext := dc.links.flatMap Ext.flatten
  let inv := ext.filterMap fun l => match l.inv, l.frm with
    | some g, [a] => some (⟨[l.to], a, g, some l.fn⟩ : CLink)
    | _, _ => none
  internal ++ ext ++ inv

/-- one round of `discover_links`: the first link all of whose inputs are known and whose
output is not -/
def stepEnv (cands : List CLink) (env : Env) : Option Env :=
  cands.findSome? fun l =>
    if (env.get l.to).isSome then none else do
      let args ← l.frm.mapM env.get
      let v ← applyFn l.fn args
      some (env ++ [(l.to, v)])

def closeEnv : Nat → List CLink → Env → Env
  | 0, _, env => env
  | f + 1, cands, env => match stepEnv cands env with
    | some e => closeEnv f cands e
    | none => env

/-- everything dataset `k` can read, with values (generated collections give every component at
most one producing link, so the order of discovery does not matter) -/
def reach (dc : DCO) (k : Nat) : Env :=
  match dc.data[k]? with
  | none => []
  | some d => let cands := candidateLinks dc
    closeEnv (cands.length + 1) cands (ownEnv k d)

/-- evaluate a state given the (doubled) values of the components it mentions -/
def evalSt (vals : String → Option (List Int)) : St → Option (List Bool)
  | .gt c t => (vals c).map fun xs => xs.map fun x => decide (x > 2 * t)
  | .range c lo hi => (vals c).map fun xs => xs.map fun x => decide (2 * lo ≤ x) && decide (x ≤ 2 * hi)
  | .and a b => do
    let ma ← evalSt vals a
    let mb ← evalSt vals b
    some (List.zipWith (· && ·) ma mb)
  | .or a b => do
    let ma ← evalSt vals a
    let mb ← evalSt vals b
    some (List.zipWith (· || ·) ma mb)
  | .not a => (evalSt vals a).map fun m => m.map (!·)

/-- `state.to_mask(data[k])` without key joins; `envs[k] = reach dc k` -/
def directMask (envs : List Env) (k : Nat) (s : Sel) : Option (List Bool) :=
  evalSt (fun c => do
    let env ← envs[k]?
    let v ← env.get ⟨s.owner, c⟩
    (numOf v).map (·.2)) s.state

/-- rows of the key columns -/
def keyRows (d : DataO) (cs : List String) : Option (List (List Int)) := do
  let cols ← cs.mapM fun c => (findComp d c).map (·.vals)
  match cols with
  | [] => none
  | c0 :: _ => some ((List.range c0.length).map fun i => cols.map fun col => col.getD i 0)

/-- `data[k].get_mask(state)`: directly, else through the first key join whose other side can
evaluate the state directly -/
def maskOn (dc : DCO) (envs : List Env) (k : Nat) (s : Sel) : Option (List Bool) :=
  match directMask envs k s with
  | some m => some m
  | none => do
    let dk ← dc.data[k]?
    dk.joins.findSome? fun j => do
      let dother ← dc.data[j.other]?
      let mr ← directMask envs j.other s
      let left ← keyRows dk j.own
      let right ← keyRows dother j.theirs
      let sel := (right.zip mr).filterMap fun (row, b) => if b then some row else none
      some (left.map fun row => sel.contains row)

end GlueVerif.C12.Records
