/-
C12 model, part 3 (core Lean only): the record formats of `Data` (protocols 1–5) and
`DataCollection` (protocols 1–4) and their saver / loader chains, as in `glue/core/state.py`
(with the F-C12b/F-C12c repairs applied):

    _save_data      (1)  components, subsets, label, coords
    _save_data_2    (2)  = 1 + style
    _save_data_3    (3)  = 2 + _key_joins  (one component ID per side)
    _save_data_4    (4)  = 2 + _key_joins  (tuples of component IDs) + uuid
    _save_data_5    (5)  = 4 + primary_owner + metaKV
    _load_data … _load_data_5 : the same chain, each loader calling the older one

    _save_data_collection   (1)  data, links (= dc.links), cids, components
    _save_data_collection_2 (2)  = 1 + groups
    _save_data_collection_3 (3)  = 2 + subset_group_count
    _save_data_collection_4 (4)  data, links (= dc.external_links), cids, components, groups, count
    _load_data_collection (1): datasets, links; derived components whose link is not an internal
        link are dropped (protocol ≤ 3); coerce_subset_groups turns plain subsets into groups
    _load_data_collection_2/3 : call the older loader, then groups / count
    _load_data_collection_4   : stand-alone

Objects are modelled by what the property observes of them (labels, component values, derived
components, selections and their styles, key joins, links, uuid, metaKV); a record is a structure
with one optional field per record key, so that "the loader of version v reads a key the saver of
version v does not write" is a `none` (Python: KeyError).
-/
namespace GlueVerif.C12.Records

/-! ## objects -/

/-- `VisualAttributes` as observed: palette index, marker size, alpha·4 (`none` = not a multiple
of ¼, which is the case for the default 0.8). -/
structure Style where
  col : Int
  size : Int
  alpha4 : Option Int
  deriving Repr, DecidableEq

/-- `VisualAttributes()` -/
def Style.default : Style := ⟨0, 3, none⟩

inductive Kind where
  | int | half | cat
  deriving Repr, DecidableEq

/-- a main component: label, kind, values (`half`: in units of ½; `cat`: category index) -/
structure Comp where
  label : String
  kind : Kind
  vals : List Int
  deriving Repr, DecidableEq

/-- an arithmetic derived component -/
inductive Der where
  | dbl (label src : String)          -- data.id[src] * 2
  | sum (label a b : String)          -- data.id[a] + data.id[b]
  deriving Repr, DecidableEq

def Der.label : Der → String
  | .dbl l _ => l
  | .sum l _ _ => l

/-- subset states over components of one dataset -/
inductive St where
  | gt (c : String) (t : Int)
  | range (c : String) (lo hi : Int)
  | and (a b : St)
  | or (a b : St)
  | not (a : St)
  deriving Repr, DecidableEq

/-- a selection: label, the dataset whose components the state refers to, the state, its style -/
structure Sel where
  label : String
  owner : Nat
  state : St
  style : Style
  deriving Repr, DecidableEq

/-- `data._key_joins[other] = (own cids, other cids)` -/
structure Join where
  other : Nat
  own : List String
  theirs : List String
  deriving Repr, DecidableEq

structure DataO where
  label : String
  comps : List Comp
  derived : List Der
  /-- subsets attached to this dataset, in order (plain `Subset`s or `GroupedSubset`s) -/
  subsets : List Sel
  style : Style
  joins : List Join
  /-- `some i` = the uuid of original dataset `i`; `none` = a fresh `uuid4()` -/
  uuid : Option Nat
  metaKV : List (String × String)
  coords : Bool
  deriving Repr, DecidableEq

/-- `LinkSame(data[i].id[a], data[j].id[b])` -/
structure Link where
  i : Nat
  a : String
  j : Nat
  b : String
  deriving Repr, DecidableEq

structure DCO where
  data : List DataO
  links : List Link
  /-- `dc.subset_groups` (label, style), in order -/
  groups : List (String × Style)
  sgCount : Nat
  deriving Repr, DecidableEq

/-! ## records -/

/-- `_key_joins` as written: protocol 3 one ID per side, protocol ≥ 4 tuples -/
inductive JoinRec where
  | single (other : Nat) (own theirs : String)
  | tuple (other : Nat) (own theirs : List String)
  deriving Repr, DecidableEq

/-- the JSON record of a `Data` object: one optional field per key a saver may write -/
structure DataRec where
  protocol : Nat
  label : String
  components : List Comp
  derived : List Der
  subsets : List Sel
  coords : Bool
  style : Option Style
  keyJoins : Option (List JoinRec)
  uuid : Option (Option Nat)
  primaryOwner : Option (List String)
  metaKV : Option (List (String × String))
  deriving Repr, DecidableEq

/-- a serialized link: the `ComponentLink`s of a dataset's derived components (internal) and
the `LinkSame`s of the collection -/
inductive LinkRec where
  | derived (ds : Nat) (label : String)
  | same (l : Link)
  deriving Repr, DecidableEq

structure DCRec where
  protocol : Nat
  data : List DataRec
  links : List LinkRec
  groups : Option (List (String × Style))
  sgCount : Option Nat
  deriving Repr, DecidableEq

/-! ## Data savers (the chain of `state.py`) -/

def saveData1 (d : DataO) : DataRec :=
  { protocol := 1, label := d.label, components := d.comps, derived := d.derived,
    subsets := d.subsets, coords := d.coords,
    style := none, keyJoins := none, uuid := none, primaryOwner := none, metaKV := none }

def saveData2 (d : DataO) : DataRec :=
  { saveData1 d with protocol := 2, style := some d.style }

/-- protocol 3 stores one component ID per side; a join on several components cannot be written
(`GlueSerializeError`, F-C12c repair) -/
def saveJoin3 (j : Join) : Option JoinRec :=
  match j.own, j.theirs with
  | [a], [b] => some (.single j.other a b)
  | _, _ => none

def saveData3 (d : DataO) : Option DataRec := do
  let js ← d.joins.mapM saveJoin3
  some { saveData2 d with protocol := 3, keyJoins := some js }

def saveData4 (d : DataO) : DataRec :=
  { saveData2 d with
    protocol := 4
    keyJoins := some (d.joins.map (fun j => JoinRec.tuple j.other j.own j.theirs))
    uuid := some d.uuid }

def saveData5 (d : DataO) : DataRec :=
  { saveData4 d with
    protocol := 5
    primaryOwner := some (d.comps.map (fun c => c.label) ++ d.derived.map (fun c => c.label))
    metaKV := some d.metaKV }

/-- `dispatch.get_version(Data, v)`; `none` = the saver raises, or no such version -/
def saveData (v : Nat) (d : DataO) : Option DataRec :=
  match v with
  | 1 => some (saveData1 d)
  | 2 => some (saveData2 d)
  | 3 => saveData3 d
  | 4 => some (saveData4 d)
  | 5 => some (saveData5 d)
  | _ => none

/-! ## Data loaders -/

def loadData1 (r : DataRec) : Option DataO :=
  some { label := r.label, comps := r.components, derived := r.derived, subsets := r.subsets,
         style := Style.default, joins := [], uuid := none, metaKV := [], coords := r.coords }

def loadData2 (r : DataRec) : Option DataO := do
  let d ← loadData1 r
  let st ← r.style                       -- rec['style']
  some { d with style := st }

/-- F-C12c repair: a single ID is wrapped into a 1-tuple -/
def loadJoin : JoinRec → Join
  | .single o a b => ⟨o, [a], [b]⟩
  | .tuple o a b => ⟨o, a, b⟩

def loadData3 (r : DataRec) : Option DataO := do
  let d ← loadData2 r
  let js ← r.keyJoins                    -- rec['_key_joins']
  some { d with joins := js.map loadJoin }

def loadData4 (r : DataRec) : Option DataO := do
  let d ← loadData2 r
  let js ← r.keyJoins
  -- `if 'uuid' in rec and rec['uuid'] is not None … else uuid4()`
  let u : Option Nat := match r.uuid with
    | some (some i) => some i
    | _ => none
  some { d with joins := js.map loadJoin, uuid := u }

def loadData5 (r : DataRec) : Option DataO := do
  let d ← loadData4 r
  -- `if 'metaKV' in rec: result.metaKV.update(...)`; `if 'primary_owner' in rec: cid.parent = result`
  some { d with metaKV := r.metaKV.getD [] }

/-- `GlueUnSerializer._dispatch`: the loader registered for `rec['_protocol']` -/
def loadData (r : DataRec) : Option DataO :=
  match r.protocol with
  | 1 => loadData1 r
  | 2 => loadData2 r
  | 3 => loadData3 r
  | 4 => loadData4 r
  | 5 => loadData5 r
  | _ => none

/-! ## DataCollection savers -/

/-- the links of the derived components of datasets `i, i+1, …` -/
def derivedLinksFrom : Nat → List DataO → List LinkRec
  | _, [] => []
  | i, d :: r => d.derived.map (fun der => LinkRec.derived i der.label) ++ derivedLinksFrom (i + 1) r

/-- `dc.links`: the links of every dataset's derived components, then the external links -/
def allLinks (dc : DCO) : List LinkRec :=
  derivedLinksFrom 0 dc.data ++ dc.links.map LinkRec.same

def saveDC1 (dv : Nat) (dc : DCO) : Option DCRec := do
  let ds ← dc.data.mapM (saveData dv)
  some { protocol := 1, data := ds, links := allLinks dc, groups := none, sgCount := none }

def saveDC2 (dv : Nat) (dc : DCO) : Option DCRec := do
  let r ← saveDC1 dv dc
  some { r with protocol := 2, groups := some dc.groups }

def saveDC3 (dv : Nat) (dc : DCO) : Option DCRec := do
  let r ← saveDC2 dv dc
  some { r with protocol := 3, sgCount := some dc.sgCount }

def saveDC4 (dv : Nat) (dc : DCO) : Option DCRec := do
  let ds ← dc.data.mapM (saveData dv)
  some { protocol := 4, data := ds, links := dc.links.map LinkRec.same,
         groups := some dc.groups, sgCount := some dc.sgCount }

def saveDC (cv dv : Nat) (dc : DCO) : Option DCRec :=
  match cv with
  | 1 => saveDC1 dv dc
  | 2 => saveDC2 dv dc
  | 3 => saveDC3 dv dc
  | 4 => saveDC4 dv dc
  | _ => none

/-! ## DataCollection loaders -/

def externalOf (ls : List LinkRec) : List Link :=
  ls.filterMap fun | .same l => some l | .derived _ _ => none

/-- protocol ≤ 3: a derived component survives iff its link is among the saved internal links -/
def keepInternal (ls : List LinkRec) (i : Nat) (d : DataO) : DataO :=
  { d with derived := d.derived.filter fun der => ls.contains (.derived i der.label) }

def keepFrom (ls : List LinkRec) : Nat → List DataO → List DataO
  | _, [] => []
  | i, d :: r => keepInternal ls i d :: keepFrom ls (i + 1) r

/-- `coerce_subset_groups`: walking the datasets in order, every subset that is not yet a
`GroupedSubset` is deleted and re-created as a group — which attaches a grouped subset to
*every* dataset.  `plain` = the plain subsets found, in the order they are converted. -/
def coerce (ds : List DataO) : List DataO × List (String × Style) :=
  let plain : List Sel := ds.flatMap (·.subsets)
  (ds.map fun d => { d with subsets := plain }, plain.map fun s => (s.label, s.style))

def loadDC1 (r : DCRec) : Option DCO := do
  let ds ← r.data.mapM loadData
  let ds := keepFrom r.links 0 ds
  let (ds, groups) := coerce ds
  -- `new_subset_group` counts the groups it creates
  some { data := ds, links := externalOf r.links, groups := groups, sgCount := groups.length }

/-- in protocol ≥ 2 records every subset already is a grouped subset: `coerce` finds nothing -/
def loadDCgrouped (r : DCRec) : Option DCO := do
  let ds ← r.data.mapM loadData
  let ds := keepFrom r.links 0 ds
  some { data := ds, links := externalOf r.links, groups := [], sgCount := 0 }

def loadDC2 (r : DCRec) : Option DCO := do
  let dc ← loadDCgrouped r
  let g ← r.groups                       -- rec['groups']
  some { dc with groups := g }

def loadDC3 (r : DCRec) : Option DCO := do
  let dc ← loadDC2 r
  let n ← r.sgCount                      -- rec['subset_group_count']
  some { dc with sgCount := n }

def loadDC4 (r : DCRec) : Option DCO := do
  let ds ← r.data.mapM loadData
  let g ← r.groups
  let n ← r.sgCount
  some { data := ds, links := externalOf r.links, groups := g, sgCount := n }

def loadDC (r : DCRec) : Option DCO :=
  match r.protocol with
  | 1 => loadDC1 r
  | 2 => loadDC2 r
  | 3 => loadDC3 r
  | 4 => loadDC4 r
  | _ => none

/-! ## Spec: what a record of version v carries -/

/-- the part of a dataset that a protocol-`v` record carries; everything else takes the
constructor default (`Data(label=…)`) -/
def projectData (v : Nat) (d : DataO) : DataO :=
  { d with
    style := if 2 ≤ v then d.style else Style.default,
    joins := if 3 ≤ v then d.joins else [],
    uuid := if 4 ≤ v then d.uuid else none,
    metaKV := if 5 ≤ v then d.metaKV else [] }

/-- the part of a collection that a protocol-`cv` record (with protocol-`dv` datasets) carries.
Protocol 1 pre-dates subset groups: the plain subsets of the datasets are upgraded to groups. -/
def projectDC (cv dv : Nat) (dc : DCO) : DCO :=
  let ds := dc.data.map (projectData dv)
  if cv = 1 then
    let (ds', groups) := coerce ds
    { data := ds', links := dc.links, groups := groups, sgCount := groups.length }
  else
    { data := ds, links := dc.links, groups := dc.groups,
      sgCount := if 3 ≤ cv then dc.sgCount else 0 }

/-- objects a (dv, cv) pair can represent: protocol 3 has one component per join side;
protocol-1 collections have no groups (only plain subsets), later ones only grouped subsets
(every dataset carries one subset per group, same order) -/
def representable (cv dv : Nat) (dc : DCO) : Bool :=
  (dv != 3 || dc.data.all fun d => d.joins.all fun j => j.own.length == 1 && j.theirs.length == 1) &&
  (if cv = 1 then dc.groups.isEmpty else true)

/-! ## what the harness observes of an object (masks through links and key joins)

These functions model glue's *evaluation* of selections, not the serializer; they are validated
by the correspondence check only. -/

def findComp (d : DataO) (c : String) : Option Comp := d.comps.find? (·.label = c)

/-- values of an arithmetic derived component, in the observation encoding -/
def derVals (d : DataO) : Der → Option (Kind × List Int)
  | .dbl _ src => do
    let c ← findComp d src
    match c.kind with
    | .int => some (.int, c.vals.map (· * 2))
    | .half => some (.half, c.vals.map (· * 2))
    | .cat => none
  | .sum _ a b => do
    let ca ← findComp d a
    let cb ← findComp d b
    match ca.kind, cb.kind with
    | .int, .int => some (.int, List.zipWith (· + ·) ca.vals cb.vals)
    | .int, .half => some (.half, List.zipWith (fun x y => 2 * x + y) ca.vals cb.vals)
    | .half, .int => some (.half, List.zipWith (fun x y => x + 2 * y) ca.vals cb.vals)
    | .half, .half => some (.half, List.zipWith (· + ·) ca.vals cb.vals)
    | _, _ => none

/-- evaluate a state given the values of the components it mentions -/
def evalSt (vals : String → Option (List Int)) : St → Option (List Bool)
  | .gt c t => (vals c).map fun xs => xs.map fun x => decide (x > t)
  | .range c lo hi => (vals c).map fun xs => xs.map fun x => decide (lo ≤ x) && decide (x ≤ hi)
  | .and a b => do
    let ma ← evalSt vals a
    let mb ← evalSt vals b
    some (List.zipWith (· && ·) ma mb)
  | .or a b => do
    let ma ← evalSt vals a
    let mb ← evalSt vals b
    some (List.zipWith (· || ·) ma mb)
  | .not a => (evalSt vals a).map fun m => m.map (!·)

/-- values, inside dataset `k`, of component `c` of dataset `owner`: its own component, or the
component a `LinkSame` identifies it with -/
def resolve (dc : DCO) (k owner : Nat) (c : String) : Option (List Int) := do
  let dk ← dc.data[k]?
  if k = owner then
    (findComp dk c).map (·.vals)
  else
    let viaLink : Option String := dc.links.findSome? fun l =>
      if l.i = owner ∧ l.a = c ∧ l.j = k then some l.b
      else if l.j = owner ∧ l.b = c ∧ l.i = k then some l.a
      else none
    match viaLink with
    | some b => (findComp dk b).map (·.vals)
    | none => none

/-- `state.to_mask(data[k])` without key joins -/
def directMask (dc : DCO) (k : Nat) (s : Sel) : Option (List Bool) :=
  evalSt (resolve dc k s.owner) s.state

/-- rows of the key columns -/
def keyRows (d : DataO) (cs : List String) : Option (List (List Int)) := do
  let cols ← cs.mapM fun c => (findComp d c).map (·.vals)
  match cols with
  | [] => none
  | c0 :: _ => some ((List.range c0.length).map fun i => cols.map fun col => col.getD i 0)

/-- `data[k].get_mask(state)`: directly, else through the first key join whose other side can
evaluate the state directly -/
def maskOn (dc : DCO) (k : Nat) (s : Sel) : Option (List Bool) :=
  match directMask dc k s with
  | some m => some m
  | none => do
    let dk ← dc.data[k]?
    dk.joins.findSome? fun j => do
      let dother ← dc.data[j.other]?
      let mr ← directMask dc j.other s
      let left ← keyRows dk j.own
      let right ← keyRows dother j.theirs
      let sel := (right.zip mr).filterMap fun (row, b) => if b then some row else none
      some (left.map fun row => sel.contains row)

end GlueVerif.C12.Records
