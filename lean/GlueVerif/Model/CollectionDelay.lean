import GlueVerif.Model.Collection
/-!
L4 model (C06 part), **with message delivery**: the `DataCollection` of `Model/Collection.lean`
together with the delay state of its `Hub` (`_delay_depth`, `_queue`), as coded in
`glue/core/hub.py` (`delay_callbacks`, `broadcast`).  Core Lean only.

`Model/Collection.lean` treats delivery as immediate: `append` *is* "`_data.append` and every
subscribed group runs `_add_data`".  That is what the code does only while no
`hub.delay_callbacks()` block is open.  Applications batch collection operations inside such blocks;
then `DataCollection.insert / remove` only *queue* their `DataCollectionAddMessage` /
`DataCollectionDeleteMessage`, the `SubsetGroup` handlers run when the outermost block closes, once
per queued message, in queue order (this is `C07Hub.Spec` — "queued while any delay block is open,
delivered once, in order, when the outermost closes" — which `C07.impl_refines_spec` proves for the
hub code; here the same hub code is transcribed with the two message classes that matter for C06 and
with the handlers' effect on the collection's bookkeeping).

* `DState` = collection state + `depth` (`Hub._delay_depth`; `_paused` is `depth > 0` outside a
  flush) + `queue` (the queued Add / Delete messages of the collection, oldest first; other message
  classes — `SubsetCreateMessage`, `DataUpdateMessage`, … — have no handler that touches the
  bookkeeping and are not modelled).
* `bcast`: `Hub.broadcast` — deliver to the subscribed groups now (`depth = 0`) or queue.
* `delayOpen` / `delayClose`: `__enter__` / `__exit__` of `hub.delay_callbacks()`; the close that
  brings the depth to 0 detaches the queue and delivers it message by message (`flush`).
* every operation of `Collection.Op` is re-transcribed on top of `bcast` (`Delay.stepOp`);
  `new_subset_group` / `remove_subset_group` open their own (possibly nested) delay block as coded.
* a session save + restore (`Op.restore`) while a block is open is outside the model (the queued
  messages are not part of a saved session): it is a no-op here and the harness does not do it.

Switch `fx`: `true` = the code with `fix: F26-add-data-idempotent` (`SubsetGroup._add_data` returns
early when the group already lists a subset of that dataset), `false` = the code before it, where a
group created inside a delay block *after* a dataset was appended inside the same block gives that
dataset two subsets (one in `register`, one when the queued message arrives).  Without delay blocks
the guard never fires (`Delay.immediate_*` lemmas), so `Model/Collection.lean` is unaffected.
-/
namespace GlueVerif.Collection

/-- A queued message of the collection: `DataCollectionAddMessage(dc, d)` /
`DataCollectionDeleteMessage(dc, d)`. -/
inductive QMsg where
  | add (d : Nat)
  | del (d : Nat)
  deriving DecidableEq, Repr

def QMsg.data : QMsg → Nat
  | .add d => d
  | .del d => d

def QMsg.isAdd : QMsg → Bool
  | .add _ => true
  | .del _ => false

/-- Collection + hub delay state. -/
structure DState where
  col : State
  /-- `Hub._delay_depth`: number of open `delay_callbacks()` blocks. -/
  depth : Nat
  /-- `Hub._queue`, restricted to the collection's Add / Delete messages, oldest first. -/
  queue : List QMsg

/-- History steps: a collection operation, or entering / leaving a `with hub.delay_callbacks():`
block (blocks nest; a close without an open block does not exist in Python and is a no-op here). -/
inductive DOp where
  | op (o : Op)
  | delayOpen
  | delayClose
  deriving DecidableEq, Repr

namespace Delay

def init (n colors : Nat) : DState := ⟨Collection.init n colors, 0, []⟩

def lift (f : State → State) (s : DState) : DState := { s with col := f s.col }

/-- `SubsetGroup._add_data(data)`; with `fx` preceded by
`if any(s.data is data for s in self.subsets): return`. -/
def addDataG (fx : Bool) (g d : Nat) (st : State) : State :=
  if fx && (st.gsubs g).any (fun s => s.data == some d) then st else addData g d st

/-- One message reaches its handlers: every subscribed group, in subscription order. -/
def deliver (fx : Bool) (m : QMsg) (st : State) : State :=
  match m with
  | .add d => st.subs.foldl (fun st g => addDataG fx g d st) st
  | .del d => st.subs.foldl (fun st g => removeDataH true g d st) st

/-- `for message in queue: self.broadcast(message)` over the detached queue. -/
def flush (fx : Bool) (q : List QMsg) (st : State) : State := q.foldl (fun st m => deliver fx m st) st

/-- `Hub.broadcast(message)`: queued while a delay block is open, delivered otherwise. -/
def bcast (fx : Bool) (m : QMsg) (s : DState) : DState :=
  if s.depth = 0 then { s with col := deliver fx m s.col } else { s with queue := s.queue ++ [m] }

/-- `__enter__` of `hub.delay_callbacks()`: `_delay_depth += 1; _paused = True`. -/
def delayOpen (s : DState) : DState := { s with depth := s.depth + 1 }

/-- `__exit__`: `_delay_depth -= 1`; at 0: `_paused = False; queue, self._queue = self._queue, []`
and every queued message is broadcast. -/
def delayClose (fx : Bool) (s : DState) : DState :=
  if s.depth = 0 then s
  else if s.depth - 1 = 0 then { col := flush fx s.queue s.col, depth := 0, queue := [] }
  else { s with depth := s.depth - 1 }

/-- `with self.hub.delay_callbacks(): body`. -/
def withDelay (fx : Bool) (body : DState → DState) (s : DState) : DState :=
  delayClose fx (body (delayOpen s))

/-- `DataCollection.append(data)` = `insert(len(_data), data)`. -/
def appendOne (fx : Bool) (d : Nat) (s : DState) : DState :=
  if d ∈ s.col.datasets ∨ s.col.nData ≤ d then s
  else bcast fx (.add d) (lift (fun st => { st with datasets := st.datasets ++ [d] }) s)

/-- `DataCollection.insert(i, data)`. -/
def insertOne (fx : Bool) (i d : Nat) (s : DState) : DState :=
  if d ∈ s.col.datasets ∨ s.col.nData ≤ d then s
  else bcast fx (.add d)
    (lift (fun st => { st with datasets := st.datasets.insertIdx (min i st.datasets.length) d }) s)

/-- `DataCollection.remove(data)`. -/
def removeOne (fx : Bool) (d : Nat) (s : DState) : DState :=
  if d ∈ s.col.datasets then
    bcast fx (.del d) (lift (fun st => { st with datasets := st.datasets.erase d }) s)
  else s

def extend (fx : Bool) (ds : List Nat) (s : DState) : DState := ds.foldl (fun s d => appendOne fx d s) s

def clear (fx : Bool) (s : DState) : DState := s.col.datasets.foldl (fun s d => removeOne fx d s) s

/-- `new_subset_group()`: the body (`Collection.newGroup`: counters, `_subset_groups.append`,
`register`) broadcasts no collection message; it runs inside `with self.hub.delay_callbacks()`. -/
def newGroup (fx : Bool) (s : DState) : DState := withDelay fx (lift Collection.newGroup) s

/-- `remove_subset_group(grp)` (the membership test happens before the block; for a group that is
not live the block is not entered at all). -/
def removeGroup (fx : Bool) (g : Nat) (s : DState) : DState :=
  if g ∈ s.col.groups then withDelay fx (lift (Collection.removeGroup g)) s else s

def merge (fx : Bool) (ds : List Nat) (s : DState) : DState :=
  match ds with
  | d0 :: _ :: _ =>
    if ds.all (fun d => decide (d < s.col.nData)) then
      let m := s.col.nData
      let s1 := lift (fun st => { st with nData := m + 1, dlabel := upd st.dlabel m (st.dlabel d0),
                                          dsubs := upd st.dsubs m [] }) s
      ds.foldl (fun s d => removeOne fx d s) (appendOne fx m s1)
    else s
  | _ => s

def setItem (fx : Bool) (key d : Nat) (s : DState) : DState :=
  if s.col.nData ≤ d then s else
  let s1 := lift (fun st => { st with dlabel := upd st.dlabel d key }) s
  let s2 := s1.col.datasets.foldl
    (fun s e => if s.col.dlabel e = key then removeOne fx e s else s) s1
  appendOne fx d s2

/-- Session save + load.  Only modelled when no delay block is open. -/
def restore (s : DState) : DState := if s.depth = 0 then lift Collection.restore s else s

def cmdDo (fx : Bool) (c : DCmd) (s : DState) : DState :=
  if c.add then appendOne fx c.d s else removeOne fx c.d s

def cmdUndo (fx : Bool) (c : DCmd) (s : DState) : DState :=
  if c.changed then
    if c.add then removeOne fx c.d s else insertOne fx c.index c.d s
  else s

def doCmd (fx : Bool) (add : Bool) (d : Nat) (s : DState) : DState :=
  let c := record add d s.col
  let s1 := cmdDo fx c (lift (fun st => { st with done := c :: st.done }) s)
  lift (fun st => { st with done := st.done.take maxUndo, undone := [] }) s1

def undoCmd (fx : Bool) (s : DState) : DState :=
  match s.col.done with
  | [] => s
  | c :: rest => cmdUndo fx c (lift (fun st => { st with done := rest, undone := c :: st.undone }) s)

def redoCmd (fx : Bool) (s : DState) : DState :=
  match s.col.undone with
  | [] => s
  | c :: rest =>
    let c' := record c.add c.d s.col
    let s1 := cmdDo fx c' (lift (fun st => { st with undone := rest }) s)
    lift (fun st => { st with done := c' :: st.done }) s1

def stepOp (fx : Bool) (s : DState) : Op → DState
  | .append d => appendOne fx d s
  | .extend ds => extend fx ds s
  | .remove d => removeOne fx d s
  | .clear => clear fx s
  | .newGroup => newGroup fx s
  | .removeGroup g => removeGroup fx g s
  | .setState g v => lift (setVal g (fun x => { x with state := .user v })) s
  | .setLabel g v => lift (setVal g (fun x => { x with label := .user v })) s
  | .setStyle g v => lift (setVal g (fun x => { x with style := .user v })) s
  | .merge ds => merge fx ds s
  | .insert i d => insertOne fx i d s
  | .setItem key d => setItem fx key d s
  | .restore => restore s
  | .doCmd add d => doCmd fx add d s
  | .undo => undoCmd fx s
  | .redo => redoCmd fx s

def step (fx : Bool) (s : DState) : DOp → DState
  | .op o => stepOp fx s o
  | .delayOpen => delayOpen s
  | .delayClose => delayClose fx s

def run (fx : Bool) (s : DState) (ops : List DOp) : DState := ops.foldl (step fx) s

/-- The code with `fix: F26-add-data-idempotent` (and F3, F4b). -/
abbrev Impl.step := Delay.step true
abbrev Impl.run := Delay.run true
/-- The code before `fix: F26-add-data-idempotent` (kept for the `decide`d witness). -/
abbrev Unguarded.run := Delay.run false

/-- Depth after a history, read off the history alone: opens minus closes, a close at depth 0
being ignored. -/
def netDepth (k : Nat) : List DOp → Nat
  | [] => k
  | .delayOpen :: rest => netDepth (k + 1) rest
  | .delayClose :: rest => netDepth (k - 1) rest
  | .op _ :: rest => netDepth k rest

/-! ## The invariant that holds at *every* point of a history, inside delay blocks too

Inside a block the group handlers have not run yet for the queued messages, so "one subset per live
group on every dataset of the collection" is false there.  What does hold: the attachment lists and
the group lists agree with each other (each attached subset is listed by its group, each subset a
live group lists is attached to its dataset, at most one per (dataset, group) pair, nothing belongs
to a removed group), and per dataset `d` the **last queued message about `d`** says whether `d` is
in the collection now; a dataset no queued message speaks about is *settled*: it carries exactly one
subset per live group if it is in the collection and none if it is not. -/

/-- the last queued message about dataset `d`: `some true` = Add, `some false` = Delete. -/
def lastAbout (d : Nat) : List QMsg → Option Bool
  | [] => none
  | m :: q =>
    match lastAbout d q with
    | some b => some b
    | none => if m.data = d then some m.isAdd else none

structure InvP (st : State) (q : List QMsg) : Prop where
  nodupD : st.datasets.Nodup
  nodupG : st.groups.Nodup
  subsEq : st.subs = st.groups
  dBound : ∀ d ∈ st.datasets, d < st.nData
  gBound : ∀ g ∈ st.groups, g < st.nGroup
  qBound : ∀ m ∈ q, m.data < st.nData
  /-- a subset attached to a dataset points back to it. -/
  subData : ∀ d, ∀ s ∈ st.dsubs d, s.data = some d
  /-- a subset listed by a group (live or removed) points back to it. -/
  subGroup : ∀ g, ∀ s ∈ st.gsubs g, s.group = g
  /-- a dataset (in the collection or not) carries at most one subset per group. -/
  onePerGroup : ∀ d, ((st.dsubs d).map (·.group)).Nodup
  /-- a live group lists at most one subset per dataset. -/
  onePerData : ∀ g ∈ st.groups, ((st.gsubs g).map (·.data)).Nodup
  /-- attached subsets belong to live groups. -/
  liveGroup : ∀ d, ∀ s ∈ st.dsubs d, s.group ∈ st.groups
  /-- an attached subset is listed by its group. -/
  listed : ∀ d, ∀ s ∈ st.dsubs d, s ∈ st.gsubs s.group
  /-- what a live group lists is attached to its dataset. -/
  attached : ∀ g ∈ st.groups, ∀ s ∈ st.gsubs g, ∃ d, s.data = some d ∧ s ∈ st.dsubs d
  /-- the last queued message about `d` is an Add: `d` is in the collection. -/
  pendIn : ∀ d, lastAbout d q = some true → d ∈ st.datasets
  /-- … a Delete: `d` is not in the collection. -/
  pendOut : ∀ d, lastAbout d q = some false → d ∉ st.datasets
  /-- no message about `d` is queued and `d` is in the collection: one subset per live group. -/
  settledIn : ∀ d, lastAbout d q = none → d ∈ st.datasets → ∀ g ∈ st.groups, ∃ s ∈ st.dsubs d, s.group = g
  /-- no message about `d` is queued and `d` is not in the collection: no subsets. -/
  settledOut : ∀ d, lastAbout d q = none → d ∉ st.datasets → st.dsubs d = []

/-- Invariant of the combined state: `InvP`, and the queue is empty whenever no block is open. -/
structure DInv (s : DState) : Prop where
  pending : InvP s.col s.queue
  idle : s.depth = 0 → s.queue = []

/-- The invariant at quiescent states (no delay block open) in readable form: `Collection.Inv`
without the *order* of `data.subsets` (a group created inside a delay block attaches its subsets
in `register`, before the queued Add messages reach the older groups). -/
structure QInv (st : State) : Prop where
  nodupD : st.datasets.Nodup
  nodupG : st.groups.Nodup
  subsEq : st.subs = st.groups
  dBound : ∀ d ∈ st.datasets, d < st.nData
  gBound : ∀ g ∈ st.groups, g < st.nGroup
  /-- the subsets of a dataset in the collection belong, one each, to the live groups. -/
  dataGroups : ∀ d ∈ st.datasets, ((st.dsubs d).map (·.group)).Perm st.groups
  subData : ∀ d, ∀ s ∈ st.dsubs d, s.data = some d
  /-- a dataset that is not in the collection carries no subsets. -/
  removedEmpty : ∀ d, d ∉ st.datasets → st.dsubs d = []
  /-- the subsets listed by a live group belong, one each, to the datasets of the collection. -/
  groupDatas : ∀ g ∈ st.groups, ((st.gsubs g).map (·.data)).Perm (st.datasets.map some)
  subGroup : ∀ g, ∀ s ∈ st.gsubs g, s.group = g
  groupAttached : ∀ g ∈ st.groups, ∀ s ∈ st.gsubs g, ∀ d, s.data = some d → s ∈ st.dsubs d
  attachedListed : ∀ d ∈ st.datasets, ∀ s ∈ st.dsubs d, s ∈ st.gsubs s.group

end Delay
end GlueVerif.Collection
