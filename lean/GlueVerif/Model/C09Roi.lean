import GlueVerif.Model.ArrayUtil
/-!
# C09 — a drawn region becomes a selection of exactly the points the region contains

Executable model (core Lean, exact `Rat`) of

* `glue/core/subset.py: roi_to_subset_state` — the dispatch as coded, **with the F9 repair**
  (only rectangles with `θ ≡ 0 (mod π)` are decomposed into two ranges); the pinned, unrepaired
  dispatch is kept as `roiToStateUnfixed` for the `decide`d witness;
* `glue/core/roi.py: CategoricalROI.from_range / contains`, `*.to_polygon`;
* `glue/utils/geometry.py: polygon_line_intersections`, `points_inside_poly` (bbox prefilter +
  matplotlib's crossing rule, literally);
* `to_mask` of `RangeSubsetState`, `CategoricalROISubsetState`, `AndState`,
  `CategoricalROISubsetState2D`, `CategoricalMultiRangeSubsetState`, `RoiSubsetState`.

Labels of categorical components are integers (the harness maps them to strings whose
lexicographic order is the integer order); `categories` / `indexOf` come from
`Model/ArrayUtil` (`np.unique`, proved sorted/unique in C20).  A numeric value is `Option Rat`
(`none` = NaN).  Rotations are given by a rational unit vector `(c, s) = (cos θ, sin θ)`.

**Category lists are taken in the order they are passed** (`x_categories` / `y_categories` of
`roi_to_subset_state`, the `categories` argument of `from_range`): position `i` on a categorical axis
is `categories[i]`, so the plotted position of a label is its index in the list *as given*
(`indexOf l cs`; = `CategoricalComponent(labels, categories=cs).codes`).  Nothing in the model or the
Spec assumes the list is sorted; sortedness is an internal need of `CategoricalROI.contains`
(`searchsorted`), established by `update_categories` (`np.unique`) — `fromRange` models exactly that,
`fromRangeNoSort` is the variant without it (kept for the `contains_needs_sorted` witness).
-/
namespace GlueVerif.C09
open GlueVerif.ArrayUtil

structure Pt where
  x : Rat
  y : Rat
  deriving DecidableEq, Repr, Inhabited

def Pt.swap (p : Pt) : Pt := ⟨p.y, p.x⟩

def absQ (q : Rat) : Rat := if q < 0 then -q else q

inductive Ori where
  | x | y
  deriving DecidableEq, Repr

/-- Attribute a one-dimensional state reads. -/
abbrev Ax := Ori

/-- Regions of interest.  `rect` / `ellipse` carry the rotation as `(c, s) = (cos θ, sin θ)`. -/
inductive Roi where
  | range (ori : Ori) (lo hi : Rat)
  | rect (xmin xmax ymin ymax c s : Rat)
  | circle (xc yc r : Rat)
  | ellipse (xc yc rx ry c s : Rat)
  | poly (vs : List Pt)
  | categorical (labels : List Int)
  deriving Repr

/-! ## Geometric containment (what "the region contains the point" means) -/

/-- matplotlib `point_in_path_impl` crossing rule for the edge `a → b` and the point `p`
(`yflag0 = a.y ≥ p.y`, `yflag1 = b.y ≥ p.y`). -/
def crossH (a b p : Pt) : Bool :=
  (decide (a.y ≥ p.y) != decide (b.y ≥ p.y)) &&
  (decide ((b.y - p.y) * (a.x - b.x) ≥ (b.x - p.x) * (a.y - b.y)) == decide (b.y ≥ p.y))

/-- Consecutive vertex pairs. -/
def consecEdges : List Pt → List (Pt × Pt)
  | a :: b :: rest => (a, b) :: consecEdges (b :: rest)
  | _ => []

/-- Edges of the implicitly closed polygon: consecutive pairs plus last → first. -/
def cyclicEdges (vs : List Pt) : List (Pt × Pt) :=
  match vs with
  | [] => []
  | v :: _ => consecEdges (vs ++ [v])

def xorAll : List Bool → Bool
  | [] => false
  | b :: bs => b != xorAll bs

/-- Even-odd rule: parity of the number of edges crossed by the `+x` ray from `p`. -/
def evenOdd (vs : List Pt) (p : Pt) : Bool :=
  xorAll ((cyclicEdges vs).map fun e => crossH e.1 e.2 p)

/-- Rotate `p - centre` back by `θ`: coordinates in the frame of the unrotated shape. -/
def unrot (cx cy c s : Rat) (p : Pt) : Pt :=
  ⟨c * (p.x - cx) + s * (p.y - cy), -s * (p.x - cx) + c * (p.y - cy)⟩

/-- `p` lies (strictly) inside the region.  `categorical` regions contain labels, not points. -/
def roiContains : Roi → Pt → Bool
  | .range .x lo hi, p => decide (lo < p.x) && decide (p.x < hi)
  | .range .y lo hi, p => decide (lo < p.y) && decide (p.y < hi)
  | .rect xmin xmax ymin ymax c s, p =>
    let q := unrot ((xmin + xmax) / 2) ((ymin + ymax) / 2) c s p
    decide (absQ q.x < (xmax - xmin) / 2) && decide (absQ q.y < (ymax - ymin) / 2)
  | .circle xc yc r, p =>
    decide ((p.x - xc) * (p.x - xc) + (p.y - yc) * (p.y - yc) < r * r)
  | .ellipse xc yc rx ry c s, p =>
    let q := unrot xc yc c s p
    decide (q.x * q.x * (ry * ry) + q.y * q.y * (rx * rx) < rx * rx * (ry * ry))
  | .poly vs, p => evenOdd vs p
  | .categorical _, _ => false

/-! ### The boundary (excluded by the property) and the band used by the correspondence check -/

/-- `p` lies on the closed segment `a b`. -/
def onSeg (a b p : Pt) : Bool :=
  decide ((b.x - a.x) * (p.y - a.y) = (b.y - a.y) * (p.x - a.x)) &&
  decide (min a.x b.x ≤ p.x) && decide (p.x ≤ max a.x b.x) &&
  decide (min a.y b.y ≤ p.y) && decide (p.y ≤ max a.y b.y)

def onPolyBoundary (vs : List Pt) (p : Pt) : Bool :=
  (cyclicEdges vs).any fun e => onSeg e.1 e.2 p

/-- The geometric boundary of the region. -/
def onBoundary : Roi → Pt → Bool
  | .range .x lo hi, p => decide (p.x = lo) || decide (p.x = hi)
  | .range .y lo hi, p => decide (p.y = lo) || decide (p.y = hi)
  | .rect xmin xmax ymin ymax c s, p =>
    let q := unrot ((xmin + xmax) / 2) ((ymin + ymax) / 2) c s p
    let hw := (xmax - xmin) / 2
    let hh := (ymax - ymin) / 2
    (decide (absQ q.x = hw) && decide (absQ q.y ≤ hh)) || (decide (absQ q.y = hh) && decide (absQ q.x ≤ hw))
  | .circle xc yc r, p =>
    decide ((p.x - xc) * (p.x - xc) + (p.y - yc) * (p.y - yc) = r * r)
  | .ellipse xc yc rx ry c s, p =>
    let q := unrot xc yc c s p
    decide (q.x * q.x * (ry * ry) + q.y * q.y * (rx * rx) = rx * rx * (ry * ry))
  | .poly vs, p => onPolyBoundary vs p
  | .categorical _, _ => false

/-- Squared distance from `p` to the closed segment `a b`. -/
def segDist2 (a b p : Pt) : Rat :=
  let dx := b.x - a.x
  let dy := b.y - a.y
  let l2 := dx * dx + dy * dy
  let t0 := if l2 = 0 then 0 else ((p.x - a.x) * dx + (p.y - a.y) * dy) / l2
  let t := if t0 < 0 then 0 else if t0 > 1 then 1 else t0
  let ex := p.x - (a.x + t * dx)
  let ey := p.y - (a.y + t * dy)
  ex * ex + ey * ey

/-- Band of half-width `ε` around the boundary (absolute for range / rectangle / polygon, also
relative to the radius for circle / ellipse).  `near 0` contains `onBoundary`. -/
def near (ε : Rat) (r : Roi) (p : Pt) : Bool :=
  onBoundary r p ||
  match r with
  | .range .x lo hi => decide (absQ (p.x - lo) ≤ ε) || decide (absQ (p.x - hi) ≤ ε)
  | .range .y lo hi => decide (absQ (p.y - lo) ≤ ε) || decide (absQ (p.y - hi) ≤ ε)
  | .rect xmin xmax ymin ymax c s =>
    let q := unrot ((xmin + xmax) / 2) ((ymin + ymax) / 2) c s p
    let hw := (xmax - xmin) / 2
    let hh := (ymax - ymin) / 2
    (decide (absQ (absQ q.x - hw) ≤ ε) && decide (absQ q.y ≤ hh + ε)) ||
    (decide (absQ (absQ q.y - hh) ≤ ε) && decide (absQ q.x ≤ hw + ε))
  | .circle xc yc r =>
    let d2 := (p.x - xc) * (p.x - xc) + (p.y - yc) * (p.y - yc)
    let lo := if r ≤ ε then 0 else (r - ε) * (r - ε)
    decide (lo ≤ d2) && decide (d2 ≤ (r + ε) * (r + ε))
  | .ellipse xc yc rx ry c s =>
    let q := unrot xc yc c s p
    let m := min rx ry
    let f := q.x * q.x * (ry * ry) + q.y * q.y * (rx * rx)
    let one := rx * rx * (ry * ry)
    -- (1 - ε/m)² ≤ f/one ≤ (1 + ε/m)², multiplied out by m²
    let lo := if m ≤ ε then 0 else (m - ε) * (m - ε) * one
    decide (lo ≤ f * (m * m)) && decide (f * (m * m) ≤ (m + ε) * (m + ε) * one)
  | .poly vs => (cyclicEdges vs).any fun e => decide (segDist2 e.1 e.2 p ≤ ε * ε)
  | .categorical _ => false

/-! ## `to_polygon` -/

/-- `float(1e100)`, the "infinite" extent `RangeROI.to_polygon` uses. -/
def big : Rat := (10000000000000000159028911097599180468360808563945281389781327557747838772170381060813469985856815104 : Int)

/-- `np.linspace(0, 2π, 100)` → `(cos, sin)`, numerators over `2^40` (|error| < 1e-12). -/
def unit100 : List (Int × Int) := [
  (1099511627776, 0), (1097297955146, 69735337142), (1090665850936, 139189874693), (1079642020287, 208083943745),
  (1064270852276, 276140132198), (1044614241170, 343084401800), (1020751337206, 408647191606), (992778227874, 472564503401),
  (960807551013, 534578964729), (924968041256, 594440865243), (885404011658, 651909162196), (842274772603, 706752451041),
  (795753990314, 758749897209), (746028987563, 807692125337), (693299989385, 853382062346), (637779316845, 895635730986),
  (579690532097, 934282990646), (519267538175, 969168222453), (456753637148, 1000150955889), (392400550433, 1027106434424),
  (326467405197, 1049926117857), (259219690945, 1068518119379), (190928190487, 1082807575561), (121867889593, 1092736947806),
  (52316869720, 1098266254037), (-17444811722, 1099373229690), (-87136249065, 1096053417363), (-156476819487, 1088320184770),
  (-225187312984, 1076204670909), (-292991056650, 1059755660677), (-359615028741, 1039039388435), (-424790958034, 1014139271297),
  (-488256404067, 985155573248), (-549755813888, 952205001410), (-609041551079, 915420236107), (-665874892902, 874949396604),
  (-720026991547, 830955444689), (-771279795626, 783615528479), (-819426928187, 733120269108), (-864274517719, 679672993164),
  (-905641978809, 623488913962), (-943362739291, 564794264961), (-977284910976, 503825388795), (-1007271901250, 440827785610),
  (-1033202963089, 376055124520), (-1054973681259, 309768222170), (-1072496392760, 242233992520), (-1085700539818, 173724372078),
  (-1094532953994, 104515224903), (-1098958070272, 34885231806), (-1098958070272, -34885231806), (-1094532953994, -104515224903),
  (-1085700539818, -173724372078), (-1072496392760, -242233992520), (-1054973681259, -309768222170), (-1033202963089, -376055124520),
  (-1007271901250, -440827785610), (-977284910976, -503825388795), (-943362739291, -564794264961), (-905641978809, -623488913962),
  (-864274517719, -679672993164), (-819426928187, -733120269108), (-771279795626, -783615528479), (-720026991547, -830955444689),
  (-665874892902, -874949396604), (-609041551079, -915420236107), (-549755813888, -952205001410), (-488256404067, -985155573248),
  (-424790958034, -1014139271297), (-359615028741, -1039039388435), (-292991056650, -1059755660677), (-225187312984, -1076204670909),
  (-156476819487, -1088320184770), (-87136249065, -1096053417363), (-17444811722, -1099373229690), (52316869720, -1098266254037),
  (121867889593, -1092736947806), (190928190487, -1082807575561), (259219690945, -1068518119379), (326467405197, -1049926117857),
  (392400550433, -1027106434424), (456753637148, -1000150955889), (519267538175, -969168222453), (579690532097, -934282990646),
  (637779316845, -895635730986), (693299989385, -853382062346), (746028987563, -807692125337), (795753990314, -758749897209),
  (842274772603, -706752451041), (885404011658, -651909162196), (924968041256, -594440865243), (960807551013, -534578964729),
  (992778227874, -472564503401), (1020751337206, -408647191606), (1044614241170, -343084401800), (1064270852276, -276140132198),
  (1079642020287, -208083943745), (1090665850936, -139189874693), (1097297955146, -69735337142), (1099511627776, 0)]
def unitScale : Rat := (1099511627776 : Int)

/-- `Roi.to_polygon()` as `(vx[i], vy[i])` pairs. -/
def roiToPolygon : Roi → List Pt
  | .range .x lo hi => [⟨lo, -big⟩, ⟨hi, -big⟩, ⟨hi, big⟩, ⟨lo, big⟩, ⟨lo, -big⟩]
  | .range .y lo hi => [⟨-big, lo⟩, ⟨-big, hi⟩, ⟨big, hi⟩, ⟨big, lo⟩, ⟨-big, lo⟩]
  | .rect xmin xmax ymin ymax c s =>
    if s = 0 then
      [⟨xmin, ymin⟩, ⟨xmax, ymin⟩, ⟨xmax, ymax⟩, ⟨xmin, ymax⟩, ⟨xmin, ymin⟩]
    else
      let hw := (xmax - xmin) / 2
      let hh := (ymax - ymin) / 2
      let cx := xmin + (xmax - xmin) / 2
      let cy := ymin + (ymax - ymin) / 2
      ([(-hw, -hh), (hw, -hh), (hw, hh), (-hw, hh), (-hw, -hh)] : List (Rat × Rat)).map fun q =>
        ⟨c * q.1 - s * q.2 + cx, s * q.1 + c * q.2 + cy⟩
  | .circle xc yc r =>
    unit100.map fun q => ⟨xc + r * ((q.1 : Rat) / unitScale), yc + r * ((q.2 : Rat) / unitScale)⟩
  | .ellipse xc yc rx ry c s =>
    unit100.map fun q =>
      let u := rx * ((q.1 : Rat) / unitScale)
      let v := ry * ((q.2 : Rat) / unitScale)
      ⟨c * u - s * v + xc, s * u + c * v + yc⟩
  | .poly vs => vs
  | .categorical _ => []

/-! ## `points_inside_poly` and `polygon_line_intersections` -/

def listMin : List Rat → Rat
  | [] => 0
  | [a] => a
  | a :: rest => min a (listMin rest)

def listMax : List Rat → Rat
  | [] => 0
  | [a] => a
  | a :: rest => max a (listMax rest)

/-- The bounding-box prefilter of `points_inside_poly`. -/
def bboxKeep (vs : List Pt) (p : Pt) : Bool :=
  decide (p.x ≥ listMin (vs.map (·.x))) && decide (p.x ≤ listMax (vs.map (·.x))) &&
  decide (p.y ≥ listMin (vs.map (·.y))) && decide (p.y ≤ listMax (vs.map (·.y)))

/-- `points_inside_poly(x, y, vx, vy)` for one finite point: prefilter, then matplotlib's
`Path.contains_points`. -/
def pointsInsidePoly (vs : List Pt) (p : Pt) : Bool :=
  !vs.isEmpty && bboxKeep vs p && evenOdd vs p

/-- `if px[0] != px[-1] or py[0] != py[-1]: append the first vertex`. -/
def closeIfOpen (vs : List Pt) : List Pt :=
  match vs.head?, vs.getLast? with
  | some a, some b => if a ≠ b then vs ++ [a] else vs
  | _, _ => vs

/-- `np.sort(np.unique(...))` on rationals. -/
def insQ (x : Rat) : List Rat → List Rat
  | [] => [x]
  | y :: ys => if x < y then x :: y :: ys else if x = y then y :: ys else y :: insQ x ys

def sortUniq (xs : List Rat) : List Rat := xs.foldr insQ []

/-- `py[px == xval]`. -/
def vertexHits (cl : List Pt) (xv : Rat) : List Rat :=
  (cl.filter fun v => v.x = xv).map (·.y)

/-- Ordinate where the line through `a b` meets `x = xv`. -/
def yAt (a b : Pt) (xv : Rat) : Rat := a.y + (b.y - a.y) * (xv - a.x) / (b.x - a.x)

def properCross (a b : Pt) (xv : Rat) : Bool :=
  (decide (a.x < xv) && decide (b.x > xv)) || (decide (b.x < xv) && decide (a.x > xv))

/-- `(y1 + (y2 - y1) * (xval - x1) / (x2 - x1))[keep2]`. -/
def properCrossings (cl : List Pt) (xv : Rat) : List Rat :=
  ((consecEdges cl).filter fun e => properCross e.1 e.2 xv).map fun e => yAt e.1 e.2 xv

def crossingOrdinates (cl : List Pt) (xv : Rat) : List Rat :=
  sortUniq (vertexHits cl xv ++ properCrossings cl xv)

def consecPairs : List Rat → List (Rat × Rat)
  | a :: b :: rest => (a, b) :: consecPairs (b :: rest)
  | _ => []

/-- `polygon_line_intersections(px, py, xval=xv)`: the segments of the vertical line `x = xv`
that lie inside the polygon (decided at the mid-point of consecutive crossing ordinates). -/
def polygonLineIntersections (vs : List Pt) (xv : Rat) : List (Rat × Rat) :=
  let cl := closeIfOpen vs
  (consecPairs (crossingOrdinates cl xv)).filter fun ab =>
    pointsInsidePoly cl ⟨xv, (ab.1 + ab.2) / 2⟩

/-! ## `CategoricalROI` -/

/-- `np.intp(np.ceil(q) if q > 0 else 0)`. -/
def clampCeil (q : Rat) : Nat := if q > 0 then q.ceil.toNat else 0

/-- `xs[lo:hi]` for non-negative bounds. -/
def pySlice (xs : List Int) (lo hi : Nat) : List Int := (xs.drop lo).take (hi - lo)

/-- `CategoricalROI.from_range(categories, lo, hi).categories`. -/
def fromRange (cats : List Int) (lo hi : Rat) : List Int :=
  categories (pySlice cats (clampCeil lo) (clampCeil hi))

/-- `CategoricalROI.from_range` **without** `update_categories` (`roi.categories = categories[lo:hi]`):
the sliced categories stored in the order given.  Not what the code does — the witness
`contains_needs_sorted` shows why the `np.unique` (sort) in `update_categories` is needed. -/
def fromRangeNoSort (cats : List Int) (lo hi : Rat) : List Int :=
  pySlice cats (clampCeil lo) (clampCeil hi)

/-- `np.searchsorted(cats, v)` (left) on a sorted array: the number of leading elements `< v`. -/
def searchsorted (cats : List Int) (v : Int) : Nat := (cats.takeWhile (· < v)).length

/-- numpy's `binsearch<left>` loop for one key, literally (`fuel ≥ log₂ n + 1` iterations):
`while lo < hi: mid = lo + (hi - lo) / 2; if a[mid] < key: lo = mid + 1 else: hi = mid`.
On a sorted array it returns `searchsorted`; on an unsorted one it returns whatever the probes
lead to (used only by the witness `contains_needs_sorted`). -/
def searchsortedBin (cats : List Int) (v : Int) : Nat → Nat → Nat → Nat
  | 0, lo, _ => lo
  | fuel + 1, lo, hi =>
    if lo < hi then
      let mid := lo + (hi - lo) / 2
      match cats[mid]? with
      | some a => if a < v then searchsortedBin cats v fuel (mid + 1) hi else searchsortedBin cats v fuel lo mid
      | none => lo
    else lo

/-- `CategoricalROI.contains` for one label with the literal binary search. -/
def catRoiContainsBin (cats : List Int) (v : Int) : Bool :=
  if cats.isEmpty then false
  else cats[min (searchsortedBin cats v (cats.length + 1) 0 cats.length) (cats.length - 1)]? == some v

/-- `CategoricalROI.contains` for one label. -/
def catRoiContains (cats : List Int) (v : Int) : Bool :=
  if cats.isEmpty then false
  else cats[min (searchsorted cats v) (cats.length - 1)]? == some v

/-! ## Data elements and subset states -/

inductive Val where
  | num (q : Option Rat)
  | lab (l : Int)
  deriving Repr

structure Elem where
  x : Val
  y : Val
  deriving Repr

def Elem.get (e : Elem) : Ax → Val
  | .x => e.x
  | .y => e.y

/-- Affine pretransform `(x, y) ↦ (a x + b y + t, c x + d y + u)` attached to a `RoiSubsetState`. -/
structure Affine where
  a : Rat
  b : Rat
  t : Rat
  c : Rat
  d : Rat
  u : Rat
  deriving Repr

def applyPre : Option Affine → Pt → Pt
  | none, p => p
  | some m, p => ⟨m.a * p.x + m.b * p.y + m.t, m.c * p.x + m.d * p.y + m.u⟩

/-- Python `dict` lookup after the insertions listed left to right (a later entry overrides). -/
def dictGet {β : Type} : List (Int × β) → Int → Option β
  | [], _ => none
  | (k, v) :: rest, key =>
    match dictGet rest key with
    | some w => some w
    | none => if k = key then some v else none

inductive State where
  | range (lo hi : Rat) (att : Ax)
  | catRoi (cats : List Int) (att : Ax)
  | and (a b : State)
  | cat2d (sel : List (Int × List Int))
  | catMulti (sel : List (Int × List (Rat × Rat))) (catAtt numAtt : Ax)
  | roi (r : Roi)
  deriving Repr

/-- `state.to_mask(data)[i]` for the element `e`; `pre` is the pretransform the viewer attached
(only `RoiSubsetState` reads it). -/
def mask (pre : Option Affine) : State → Elem → Bool
  | .range lo hi att, e =>
    match e.get att with
    | .num (some v) => decide (v ≥ lo) && decide (v ≤ hi)
    | _ => false
  | .catRoi cats att, e =>
    match e.get att with
    | .lab l => catRoiContains cats l
    | _ => false
  | .and a b, e => mask pre a e && mask pre b e
  | .cat2d sel, e =>
    match e.x, e.y with
    | .lab l1, .lab l2 =>
      match dictGet sel l1 with
      | some s => s.contains l2
      | none => false
    | _, _ => false
  | .catMulti sel catAtt numAtt, e =>
    match e.get catAtt, e.get numAtt with
    | .lab l, .num (some v) =>
      match dictGet sel l with
      | some segs => segs.any fun s => decide (v ≥ s.1) && decide (v ≤ s.2)
      | none => false
    | _, _ => false
  | .roi r, e =>
    match r, pre, e.x, e.y with
    -- `RangeROI.contains(x, y)` only looks at its own coordinate (the other may be NaN); with a
    -- pretransform a NaN input makes both transformed coordinates NaN
    | .range .x lo hi, none, .num (some x), _ => decide (lo < x) && decide (x < hi)
    | .range .y lo hi, none, _, .num (some y) => decide (lo < y) && decide (y < hi)
    | .range _ _ _, none, _, _ => false
    | .poly vs, _, .num (some x), .num (some y) => pointsInsidePoly vs (applyPre pre ⟨x, y⟩)
    | _, _, .num (some x), .num (some y) => roiContains r (applyPre pre ⟨x, y⟩)
    | _, _, _, _ => false

/-! ## `roi_to_subset_state` -/

/-- The `RangeROI` branch (also used for the two halves of an unrotated rectangle). -/
def rangeToState (ori : Ori) (lo hi : Rat) (cats : Option (List Int)) : State :=
  match cats with
  | some cs => .catRoi (fromRange cs lo hi) ori
  | none => .range lo hi ori

/-- `selection` of the both-categorical branch. -/
def sel2d (r : Roi) (xcats ycats : List Int) : List (Int × List Int) :=
  xcats.zipIdx.filterMap fun lc =>
    let ys := ycats.zipIdx.filterMap fun yj =>
      if roiContainsImpl r ⟨(lc.2 : Int), (yj.2 : Int)⟩ then some yj.1 else none
    if ys.isEmpty then none else some (lc.1, ys)
where
  /-- `roi.contains(x, y)` as the branch calls it (`PolygonalROI` goes through the prefilter). -/
  roiContainsImpl : Roi → Pt → Bool
    | .poly vs, p => pointsInsidePoly vs p
    | r, p => roiContains r p

/-- `selection` of the one-categorical branch: per category code the segments of the line
`cat = code` inside the polygon (`pg` already has the categorical axis first). -/
def selMulti (pg : List Pt) (cats : List Int) : List (Int × List (Rat × Rat)) :=
  cats.zipIdx.filterMap fun lc =>
    let segs := polygonLineIntersections pg ((lc.2 : Int) : Rat)
    if segs.isEmpty then none else some (lc.1, segs)

def polygonLike (r : Roi) (xc yc : Option (List Int)) : State :=
  match xc, yc with
  | some xs, some ys => .cat2d (sel2d r xs ys)
  | some xs, none => .catMulti (selMulti (roiToPolygon r) xs) .x .y
  | none, some ys => .catMulti (selMulti ((roiToPolygon r).map Pt.swap) ys) .y .x
  | none, none => .roi r

/-- `roi_to_subset_state(roi, x_att, y_att, x_categories, y_categories, use_pretransform)`
(repaired: only unrotated rectangles are decomposed). -/
def roiToState (r : Roi) (xc yc : Option (List Int)) (usePre : Bool) : State :=
  match r, usePre with
  | .range .x lo hi, false => rangeToState .x lo hi xc
  | .range .y lo hi, false => rangeToState .y lo hi yc
  | _, _ =>
    if xc.isSome || yc.isSome then
      match r with
      | .rect xmin xmax ymin ymax _ s =>
        if s = 0 then .and (rangeToState .x xmin xmax xc) (rangeToState .y ymin ymax yc)
        else polygonLike r xc yc
      | .categorical labels => .catRoi (categories labels) .x
      | _ => polygonLike r xc yc
    else .roi r

/-- The dispatch of the pinned tree (defect F9): every rectangle is decomposed. -/
def roiToStateUnfixed (r : Roi) (xc yc : Option (List Int)) (usePre : Bool) : State :=
  match r with
  | .rect xmin xmax ymin ymax _ _ =>
    if xc.isSome || yc.isSome then
      .and (rangeToState .x xmin xmax xc) (rangeToState .y ymin ymax yc)
    else .roi r
  | _ => roiToState r xc yc usePre

/-! ## Spec: what the property demands -/

/-- Plotted coordinate of a value on an axis: on a categorical axis the label's position in the
category list **as passed** (`indexOf l cs` — position `i` ↔ `cs[i]`; the list may be in any order). -/
def plotCoord (cats : Option (List Int)) : Val → Option Rat
  | .num q => match cats with | none => q | some _ => none
  | .lab l => match cats with | some cs => some ((indexOf l cs : Nat) : Int) | none => none

def plotPos (xc yc : Option (List Int)) (e : Elem) : Option Pt :=
  match plotCoord xc e.x, plotCoord yc e.y with
  | some x, some y => some ⟨x, y⟩
  | _, _ => none

/-- The point the region is compared with: `none` when the element has no plotted position
(NaN).  A `RangeROI` constrains its own axis only: without a pretransform the other coordinate is
not looked at (it may be missing); with a pretransform both are needed to compute the plotted
coordinate (IEEE: any NaN input makes both outputs NaN). -/
def specPoint (r : Roi) (xc yc : Option (List Int)) (pre : Option Affine) (e : Elem) : Option Pt :=
  match r, pre with
  | .range .x _ _, none => (plotCoord xc e.x).map fun x => ⟨x, 0⟩
  | .range .y _ _, none => (plotCoord yc e.y).map fun y => ⟨0, y⟩
  | _, _ => (plotPos xc yc e).map (applyPre pre)

/-- The element is selected iff its plotted position lies in the region (a categorical region
contains the elements whose x label it lists). -/
def specSelected (r : Roi) (xc yc : Option (List Int)) (pre : Option Affine)
    (e : Elem) : Bool :=
  match r with
  | .categorical labels => match e.x with | .lab l => labels.contains l | _ => false
  | _ => match specPoint r xc yc pre e with
    | some p => roiContains r p
    | none => false

/-- The element's plotted position lies on the region's boundary (the property excludes it). -/
def specOnBoundary (r : Roi) (xc yc : Option (List Int)) (pre : Option Affine) (e : Elem) : Bool :=
  match specPoint r xc yc pre e with
  | some p => onBoundary r p
  | none => false

/-- Regions that take the "polygon-like" branches when an axis is categorical. -/
def isPolygonLike : Roi → Bool → Bool
  | .range _ _ _, usePre => usePre
  | .rect _ _ _ _ _ s, _ => decide (s ≠ 0)
  | .categorical _, _ => false
  | _, _ => true

def Roi.isCategorical : Roi → Bool
  | .categorical _ => true
  | _ => false

def Roi.isRange : Roi → Bool
  | .range _ _ _ => true
  | _ => false

def Roi.isPoly : Roi → Bool
  | .poly _ => true
  | _ => false

/-- A rectangle with ordered bounds (`xmin ≤ xmax`, `ymin ≤ ymax`). -/
def Roi.isOrderedRect : Roi → Bool
  | .rect xmin xmax ymin ymax _ _ => decide (xmin ≤ xmax) && decide (ymin ≤ ymax)
  | _ => false

/-- `(c, s)` is a unit vector (rectangle / ellipse). -/
def Roi.unitOk : Roi → Bool
  | .rect _ _ _ _ c s => decide (c * c + s * s = 1)
  | .ellipse _ _ _ _ c s => decide (c * c + s * s = 1)
  | _ => true

/-- A value fits its axis: a label of the category list on a categorical axis, a number (or NaN)
on a numeric one. -/
def valOk (cats : Option (List Int)) : Val → Bool
  | .lab l => match cats with | some cs => cs.contains l | none => false
  | .num _ => cats.isNone

/-- Duplicate-free list (decidable): every label has exactly one position. -/
def noDup : List Int → Bool
  | [] => true
  | x :: xs => !xs.contains x && noDup xs

/-- Category lists are duplicate free — **in any order** (sorted when they come from `np.unique` as
in the viewers, but a `CategoricalComponent(labels, categories=[...])` keeps the order it is given and
`roi_to_subset_state` is handed `component.categories`). -/
def catsOk : Option (List Int) → Bool
  | none => true
  | some cs => noDup cs

/-- Hypothesis of the main theorem `roi_selection`: well-kinded inputs as the viewers produce
them, and — when exactly one axis is categorical and the region goes through its polygon — the
region is a polygon or a rotated rectangle with ordered bounds (for circles / ellipses / ranges sent
down that path the statement proved is about `to_polygon()`, see `polygonised_cat_num`). -/
def inScope (r : Roi) (xc yc : Option (List Int)) (usePre : Bool) (pre : Option Affine) (e : Elem) : Bool :=
  catsOk xc && catsOk yc && valOk xc e.x && valOk yc e.y && r.unitOk &&
  -- a pretransform is attached only to a numeric-numeric `RoiSubsetState` requested with use_pretransform
  (pre.isNone || (usePre && xc.isNone && yc.isNone)) &&
  -- categorical regions act on a categorical x axis
  (!r.isCategorical || xc.isSome) &&
  -- exactly one categorical axis + polygon-like region: proved for polygons and for rotated
  -- rectangles with ordered bounds
  (!(isPolygonLike r usePre && (xc.isSome != yc.isSome)) || r.isPoly || r.isOrderedRect)

/-- Element in the boundary band (excluded from the comparison). -/
def specNear (ε : Rat) (r : Roi) (xc yc : Option (List Int)) (pre : Option Affine)
    (e : Elem) : Bool :=
  match specPoint r xc yc pre e with
  | some p => near ε r p
  | none => false

/-- Spec verdict on a whole mask. -/
def specMask (ε : Rat) (r : Roi) (xc yc : Option (List Int)) (pre : Option Affine)
    (es : List Elem) (m : List Bool) : Bool :=
  m.length == es.length &&
  (es.zip m).all fun em =>
    specNear ε r xc yc pre em.1 || (em.2 == specSelected r xc yc pre em.1)

/-! ## Spec for `CategoricalROI.from_range` alone, and for category lists with duplicates -/

/-- Every position at which the label occurs in the list as passed (one for a duplicate-free list
that contains it, none for a foreign label). -/
def positionsOf (l : Int) (cs : List Int) : List Nat :=
  (List.range cs.length).filter fun i => cs[i]? == some l

/-- Spec verdict on `from_range(cats, lo, hi).contains(l) = m`, for a category list in **any order**
(duplicates allowed): a foreign label is not contained; otherwise the answer must be the one demanded
by (one of) the label's position(s) `i` in the list as passed: `lo < i < hi`, the position `i = lo`
excepted.  For a duplicate-free list there is exactly one position, `indexOf l cats`. -/
def specFromRange (cats : List Int) (lo hi : Rat) (l : Int) (m : Bool) : Bool :=
  match positionsOf l cats with
  | [] => m == false
  | ps => ps.any fun i =>
    let q : Rat := ((i : Nat) : Int)
    decide (q = lo) || (m == (decide (lo < q) && decide (q < hi)))

/-- Plotted coordinates a value may have on an axis: one per occurrence of its label in the category
list (exactly `[plotCoord cats v]` when the list is duplicate free and contains the label). -/
def plotCoords (cats : Option (List Int)) : Val → List (Option Rat)
  | .num q => [match cats with | none => q | some _ => none]
  | .lab l => match cats with
    | some cs => (positionsOf l cs).map fun i => some (((i : Nat) : Int) : Rat)
    | none => [none]

/-- Candidate points the region is compared with (`specPoint` for every occurrence). -/
def specPoints (r : Roi) (xc yc : Option (List Int)) (pre : Option Affine) (e : Elem) : List (Option Pt) :=
  match r, pre with
  | .range .x _ _, none => (plotCoords xc e.x).map fun ox => ox.map fun x => ⟨x, 0⟩
  | .range .y _ _, none => (plotCoords yc e.y).map fun oy => oy.map fun y => ⟨0, y⟩
  | _, _ => (plotCoords xc e.x).flatMap fun ox => (plotCoords yc e.y).map fun oy =>
    match ox, oy with
    | some x, some y => some (applyPre pre ⟨x, y⟩)
    | _, _ => none

/-- Spec verdict on a whole mask when a category list contains **duplicates** (never produced by the
viewers; outside the hypotheses of the theorems): a label then has several plotted positions and the
answer must be justified by one of them — if every position of the element is inside the region
(off the band) it must be selected, if none is it must not be.  Coincides with `specMask` on
duplicate-free lists (one candidate). -/
def specMaskAny (ε : Rat) (r : Roi) (xc yc : Option (List Int)) (pre : Option Affine)
    (es : List Elem) (m : List Bool) : Bool :=
  m.length == es.length &&
  (es.zip m).all fun em =>
    match r with
    | .categorical _ => em.2 == specSelected r xc yc pre em.1
    | _ =>
      match specPoints r xc yc pre em.1 with
      | [] => em.2 == false
      | cands => cands.any fun c => match c with
        | some p => near ε r p || (em.2 == roiContains r p)
        | none => em.2 == false

/-- With duplicated entries: the element's candidate positions do not all give the same clear answer
(one of them is in the band, or they disagree).  On float-affected paths which occurrence "wins"
(Python dict: the last one with a non-empty entry) can hinge on rounding noise at a degenerate
(tangent) occurrence, so the driver does not predict the mask there.  `= specNear` for one candidate. -/
def specAmbiguous (ε : Rat) (r : Roi) (xc yc : Option (List Int)) (pre : Option Affine) (e : Elem) : Bool :=
  let cands := specPoints r xc yc pre e
  let ins := cands.map fun c => match c with
    | some p => roiContains r p
    | none => false
  (cands.any fun c => match c with
    | some p => near ε r p
    | none => false) || (ins.any id && ins.any not)

/-! ## Units and zero point of a numeric axis

Changing the units / zero point of a numeric attribute (`v ↦ a·v + b`, `a > 0`) moves the drawn region
and the data alike; the selection must not change (`Props/C09: selection_scale_equivariant`).  The
driver uses the same maps to evaluate the boundary band of inexact paths in coordinates normalised to
the region's own extent (a band relative to the local scale). -/

/-- `v ↦ a·v + b` on the axis `ax` of a plotted point. -/
def Pt.rescale (ax : Ori) (a b : Rat) (p : Pt) : Pt :=
  match ax with
  | .x => ⟨a * p.x + b, p.y⟩
  | .y => ⟨p.x, a * p.y + b⟩

def Val.rescale (a b : Rat) : Val → Val
  | .num (some v) => .num (some (a * v + b))
  | v => v

/-- The data element with its `ax` attribute in the new units (labels and NaN are untouched). -/
def Elem.rescale (ax : Ori) (a b : Rat) (e : Elem) : Elem :=
  match ax with
  | .x => ⟨e.x.rescale a b, e.y⟩
  | .y => ⟨e.x, e.y.rescale a b⟩

/-- The region drawn over the rescaled axis (for the axis-aligned classes, `Roi.axisAligned`: a
rotated rectangle / ellipse or a circle is not mapped to a region of the same class by rescaling one
axis — a circle on a rescaled axis is the unrotated ellipse `rx = ry`). -/
def Roi.rescale (ax : Ori) (a b : Rat) : Roi → Roi
  | .range ori lo hi => if ori = ax then .range ori (a * lo + b) (a * hi + b) else .range ori lo hi
  | .rect xmin xmax ymin ymax c s =>
    match ax with
    | .x => .rect (a * xmin + b) (a * xmax + b) ymin ymax c s
    | .y => .rect xmin xmax (a * ymin + b) (a * ymax + b) c s
  | .ellipse xc yc rx ry c s =>
    match ax with
    | .x => .ellipse (a * xc + b) yc (a * rx) ry c s
    | .y => .ellipse xc (a * yc + b) rx (a * ry) c s
  | .poly vs => .poly (vs.map (Pt.rescale ax a b))
  | .circle xc yc r => .circle xc yc r
  | .categorical ls => .categorical ls

/-- Classes closed under rescaling one axis: ranges, polygons, categorical regions, and rectangles /
ellipses with `θ ≡ 0 (mod π)`. -/
def Roi.axisAligned : Roi → Bool
  | .rect _ _ _ _ c s => decide (s = 0) && decide (c * c = 1)
  | .ellipse _ _ _ _ c s => decide (s = 0) && decide (c * c = 1)
  | .circle _ _ _ => false
  | _ => true

end GlueVerif.C09
