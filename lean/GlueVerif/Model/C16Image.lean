import GlueVerif.Model.ArrayUtil
import GlueVerif.Model.C16FRB
/-
C16 — `BaseImageLayerState.get_sliced_data` (`glue/viewers/image/state.py`): viewer slices and a
view (or explicit bounds) → bounds → fixed-resolution buffer under the layer state's uuid as cache
id, `broadcast=False` → aggregation over `AggregateSlice` axes → transposition.  Core Lean only.
-/
namespace GlueVerif.FRB.Image
open GlueVerif.ArrayUtil (sliceIndices)

inductive AggFn | nansum | nanmax
  deriving Repr, BEq, DecidableEq, Inhabited

/-- One entry of `viewer_state.slices`. -/
inductive SliceItem
  | index (k : Int)
  | agg (start stop step : Option Int) (fn : AggFn)     -- AggregateSlice(slice, center, function)
  deriving Repr, Inhabited

structure PySl where
  start : Option Int
  stop : Option Int
  step : Option Int
  deriving Repr, Inhabited

inductive Arg
  | view (v : List PySl)          -- `view=[…]` (a list of at most two slices); `[]` stands for `None`
  | bounds (by_ bx : Bound)       -- `bounds=[(ymin, ymax, ny), (xmin, xmax, nx)]`
  deriving Repr, Inhabited

structure Call where
  slices : List SliceItem
  arg : Arg
  deriving Repr, Inhabited

/-- An image (subset) layer state in a viewer state. -/
structure Layer where
  ref : Nat          -- viewer_state.reference_data
  xAxis : Nat        -- viewer_state.x_att.axis
  yAxis : Nat        -- viewer_state.y_att.axis
  data : Nat         -- layer (or layer.data for a subset layer)
  what : Target      -- attribute / layer.subset_state
  deriving Repr, Inhabited

inductive IErr
  | frb (e : Err)
  | valueError
  deriving Repr, BEq, DecidableEq, Inhabited

/-- `len(range(b, e, st))`. -/
def pyRangeLen (b e st : Int) : Nat :=
  if 0 < st then (if b < e then ((e - b + st - 1) / st).toNat else 0)
  else if st < 0 then (if e < b then ((b - e + (-st) - 1) / (-st)).toNat else 0)
  else 0

/-- `list(range(b, e, st))`. -/
def pyRange (b e st : Int) : List Int := (List.range (pyRangeLen b e st)).map fun (k : Nat) => b + st * k

/-- `slice_to_bound(slc, size)` of the tree under test (repaired, F16):
`n = len(range(*slc.indices(size)))`, `(min, min + step·(n−1), n)`. -/
def sliceToBound (s : PySl) (size : Nat) : Except IErr Bound :=
  match sliceIndices s.start s.stop s.step size with
  | none => .error .valueError             -- slice step cannot be zero
  | some (b, e, st) =>
    let n := pyRangeLen b e st
    .ok (.range (b : Int) ((b + st * ((n : Int) - 1) : Int)) n)

/-- `slice_to_bound` of the pinned tree: `n = (max − min − 1) // step`, `(min, min + step·n, n+1)`
(wrong for negative steps). -/
def sliceToBoundPinned (s : PySl) (size : Nat) : Except IErr Bound :=
  match sliceIndices s.start s.stop s.step size with
  | none => .error .valueError
  | some (b, e, st) =>
    let n := Int.fdiv (e - b - 1) st
    .ok (.range (b : Int) ((b + st * n : Int)) (n + 1))

inductive FV
  | sl (s : PySl)
  | bound (b : Bound)
  deriving Inhabited

def fullSlice : PySl := ⟨none, none, none⟩

/-- `numpy_slice_aggregation_transpose` + substitution of the view / the bounds. -/
def fullView (ndim : Nat) (l : Layer) (c : Call) : Except IErr (List FV × List (Option AggFn)) :=
  let base : List (FV × Option (Option AggFn)) := (List.range ndim).map fun i =>
    if i = l.xAxis ∨ i = l.yAxis then (FV.sl fullSlice, some none)
    else match c.slices.getD i (.index 0) with
      | .agg a b st fn => (FV.sl ⟨a, b, st⟩, some (some fn))
      | .index k => (FV.bound (.scalar (k : Int)), none)
  let agg := base.filterMap (·.2)
  let put (vy vx : FV) : List FV := (List.range ndim).map fun i =>
    -- `full_view[x_axis] = …` is executed first, `full_view[y_axis] = …` second
    if i = l.yAxis then vy else if i = l.xAxis then vx else (base.getD i (FV.sl fullSlice, none)).1
  match c.arg with
  | .bounds by_ bx => .ok (put (.bound by_) (.bound bx), agg)
  | .view v =>
    match v with
    | [] => .ok (put (.sl fullSlice) (.sl fullSlice), agg)
    | [vy] => .ok (put (.sl vy) (.sl fullSlice), agg)
    | [vy, vx] => .ok (put (.sl vy) (.sl vx), agg)
    | _ => .error .valueError

def toBounds (stb : PySl → Nat → Except IErr Bound) (shape : List Nat) : Nat → List FV → Except IErr (List Bound)
  | _, [] => .ok []
  | i, .bound b :: rest => do
    let bs ← toBounds stb shape (i + 1) rest
    .ok (b :: bs)
  | i, .sl s :: rest => do
    let b ← stb s (shape.getD i 0)
    let bs ← toBounds stb shape (i + 1) rest
    .ok (b :: bs)

/-- The request `get_sliced_data` issues. -/
def reqOfWith (stb : PySl → Nat → Except IErr Bound) (w : World) (l : Layer) (c : Call) :
    Except IErr (Req × List (Option AggFn)) := do
  let (fv, agg) ← fullView (w.ndim l.ref) l c
  let bs ← toBounds stb (w.ds l.ref).shape 0 fv
  .ok (⟨l.data, bs, l.ref, l.what, false, some 0⟩, agg)

def reqOf := reqOfWith sliceToBound

/-! ### n-d reductions on flat row-major data -/

def prod (xs : List Nat) : Nat := xs.foldl (· * ·) 1

def reduceCells (fn : AggFn) (cs : List Cell) : Cell :=
  match fn with
  | .nansum => .num (cs.foldl (fun acc c => match c with
      | .num v => acc + v
      | .bool true => acc + 1
      | _ => acc) 0)
  | .nanmax =>
    if cs.all (fun c => match c with | .bool _ => true | _ => false) then
      .bool (cs.any fun c => c == .bool true)
    else
      match cs.filterMap (fun c => match c with | .num v => some v | _ => none) with
      | [] => .nan
      | v :: vs => .num (vs.foldl max v)

/-- `func(image, axis=axis)` for an array of shape `shape`. -/
def reduceAxis (fn : AggFn) (a : Arr) (axis : Nat) : Arr :=
  let outer := prod (a.shape.take axis)
  let n := a.shape.getD axis 1
  let inner := prod (a.shape.drop (axis + 1))
  ⟨a.shape.take axis ++ a.shape.drop (axis + 1),
   (List.range outer).flatMap fun o => (List.range inner).map fun i =>
     reduceCells fn ((List.range n).map fun k => a.data.getD ((o * n + k) * inner + i) .nan)⟩

def transpose2 (a : Arr) : Arr :=
  match a.shape with
  | [r, c] => ⟨[c, r], (List.range c).flatMap fun j => (List.range r).map fun i => a.data.getD (i * c + j) .nan⟩
  | _ => a

/-- Aggregation loop (`for axis in range(image.ndim - 1, -1, -1)`) and the final checks. -/
def aggregate (a : Arr) (agg : List (Option AggFn)) : Except IErr Arr :=
  if a.shape.length ≠ agg.length then .error .valueError else
  let r := (List.range agg.length).reverse.foldl (fun (acc : Arr) axis =>
    match agg.getD axis none with
    | some fn => reduceAxis fn acc axis
    | none => acc) a
  if r.shape.length ≠ 2 then .error .valueError else .ok r

namespace Impl

/-- `get_sliced_data(view=…, bounds=…)` as coded: answer and new cache state. -/
def getSlicedDataWith (stb : PySl → Nat → Except IErr Bound) (w : World) (l : Layer)
    (caches : FRB.Impl.Caches) (c : Call) : Except IErr Arr × FRB.Impl.Caches :=
  match reqOfWith stb w l c with
  | .error e => (.error e, caches)
  | .ok (r, agg) =>
    match FRB.Impl.frb w caches r with
    | (.error e, c') => (.error (.frb e), c')
    | (.ok a, c') =>
      match aggregate a agg with
      | .error e => (.error e, c')
      | .ok img => (.ok (if l.yAxis > l.xAxis then transpose2 img else img), c')

def getSlicedData := getSlicedDataWith sliceToBound

def runCalls (w : World) (l : Layer) : FRB.Impl.Caches → List Call → List (Except IErr Arr)
  | _, [] => []
  | caches, c :: cs =>
    let (a, caches') := getSlicedData w l caches c
    a :: runCalls w l caches' cs

end Impl

namespace Spec

/-- Sample positions a call denotes along reference axis `i`: `range(*slice.indices(size))` for
slices, the viewer's slice index, or the explicit bounds. -/
def positions (w : World) (l : Layer) (c : Call) (i : Nat) : Option (List Rat) :=
  let size := (w.ds l.ref).shape.getD i 0
  let ofSlice (s : PySl) : Option (List Rat) :=
    (sliceIndices s.start s.stop s.step size).map fun t => (pyRange t.1 t.2.1 t.2.2).map fun (k : Int) => (k : Rat)
  let ofArg (which : Nat) : Option (List Rat) :=   -- 0 = y (view[0]), 1 = x (view[1])
    match c.arg with
    | .bounds by_ bx => some (if which = 0 then by_.positions else bx.positions)
    | .view v => ofSlice (v.getD which fullSlice)
  if i = l.yAxis then ofArg 0
  else if i = l.xAxis then ofArg 1
  else match c.slices.getD i (.index 0) with
    | .index k => some [(k : Rat)]
    | .agg a b st _ => ofSlice ⟨a, b, st⟩

def aggOf (l : Layer) (c : Call) (i : Nat) : Option AggFn :=
  if i = l.xAxis ∨ i = l.yAxis then none
  else match c.slices.getD i (.index 0) with
    | .agg _ _ _ fn => some fn
    | .index _ => none

/-- Reduce over the aggregated axes from the last one to the first (innermost reduction first). -/
def reducePts (w : World) (r : Req) (l : Layer) (c : Call) (pos : List (List Rat)) :
    Nat → List Rat → Cell
  | 0, pt => FRB.Spec.sample w r pt.reverse
  | fuel + 1, pt =>
    let i := pt.length
    if i ≥ pos.length then FRB.Spec.sample w r pt.reverse else
    match aggOf l c i with
    | some fn => reduceCells fn ((pos.getD i []).map fun p => reducePts w r l c pos fuel (p :: pt))
    | none => reducePts w r l c pos fuel ((pos.getD i []).headD 0 :: pt)

/-- The plane an image viewer shows: `plane[iy][ix]` = the (aggregated) nearest-pixel samples at
`x = xs[ix]`, `y = ys[iy]`, the viewer's slices elsewhere. -/
def plane (w : World) (l : Layer) (c : Call) (r : Req) (pos : List (List Rat)) : Arr :=
  let ys := pos.getD l.yAxis []
  let xs := pos.getD l.xAxis []
  let n := pos.length
  ⟨[ys.length, xs.length], ys.flatMap fun y => xs.map fun x =>
    let pos' := (List.range n).map fun i => if i = l.yAxis then [y] else if i = l.xAxis then [x] else pos.getD i []
    reducePts w r l c pos' n []⟩

/-- Oracle on one `get_sliced_data` answer. -/
def acceptsAnswer (w : World) (l : Layer) (c : Call) (a : Except IErr Arr) : Bool :=
  let n := w.ndim l.ref
  let viewOk := match c.arg with | .view v => decide (v.length ≤ 2) | .bounds .. => true
  match (List.range n).mapM (positions w l c), reqOf w l c with
  | some pos, .ok (r, _) =>
    let due := viewOk && FRB.Spec.defined w r
    match a with
    | .ok img => due && img == plane w l c r pos
    | .error _ => !due
  | _, _ => match a with
    | .ok _ => false
    | .error _ => true

end Spec

end GlueVerif.FRB.Image
