/-
C19 — model of glue's OWN export / import logic (core Lean only).

Mirrors
  glue/core/data_exporters/astropy_table.py   data_to_astropy_table  (+ table_exporter)
  glue/core/data_exporters/hdf5.py            hdf5_writer
  glue/core/data_exporters/gridded_fits.py    fits_writer
  glue/core/data_factories/astropy_table.py   astropy_tabular_data   (masked fill, autotyped)
  glue/core/data_factories/fits.py            fits_reader            (image HDUs, table HDUs)
  glue/core/data_factories/hdf5.py            hdf5_reader            (kinds, merge)
  glue/core/component.py                      Component.autotyped    (+ utils.coerce_numeric)

The third-party codecs (astropy.io.ascii / fits / votable, h5py, pandas.to_numeric) are NOT
modelled as code: a format is a *channel* `List FCol → List RCol` with a stated contract
(`idealRead`: name representation + value representation per kind).  The concrete channel the
driver runs (`channelOf`) is the contract on representable files plus the observed degradations
off-contract (ASCII readers: empty field = missing value, column type inference).

`Impl` = `roundTrip` (export plan → file → channel → reader → autotyped).
`Spec` = `expected` / `specOk`: every exported component, under the representable name, same
order, same values on the selected rows / masked pixels.

Text is a list of Unicode code points (`Str`), numbers are exact rationals, NaN is a constructor.
-/
namespace GlueVerif.Export

abbrev Str := List Nat

/-! ## Values, kinds, datasets -/

inductive Cell where
  | nan
  | num (q : Rat)
  | str (s : Str)
  deriving DecidableEq, Repr

/-- numpy dtype kind of a component: `f`, `i` (with item size in bits), `u`, or text
(`CategoricalComponent`, dtype `U`). -/
inductive Kind where
  | float
  | int (bits : Nat)
  | uint (bits : Nat)
  | str
  deriving DecidableEq, Repr

/-- `data.get_kind(cid) == 'numerical'`. -/
def Kind.numerical : Kind → Bool
  | .str => false
  | _ => true

structure Column where
  name : Str
  kind : Kind
  derived : Bool          -- DerivedComponent?
  cells : List Cell       -- row-major, `prod shape` entries
  deriving Repr, DecidableEq

/-- A `Data` object: shape and the non-coordinate components in `component_ids()` order. -/
structure Dataset where
  shape : List Nat
  cols : List Column
  deriving Repr

inductive Format where
  | csv | ipac | latex | votable | fitsTable | hdf5 | fitsImage
  deriving DecidableEq, Repr

/-- The formats written by `data_to_astropy_table(...).write(format=…)` and read through
`astropy_tabular_data` with the ASCII guesser. -/
def Format.ascii : Format → Bool
  | .csv | .ipac | .latex => true
  | _ => false

def prod : List Nat → Nat
  | [] => 1
  | x :: xs => x * prod xs

/-! ## Text helpers -/

def isDigit (c : Nat) : Bool := 48 ≤ c && c ≤ 57
def isAlpha (c : Nat) : Bool := (65 ≤ c && c ≤ 90) || (97 ≤ c && c ≤ 122)
def upperC (c : Nat) : Nat := if 97 ≤ c && c ≤ 122 then c - 32 else c
def lowerC (c : Nat) : Nat := if 65 ≤ c && c ≤ 90 then c + 32 else c
def upper (s : Str) : Str := s.map upperC
def lower (s : Str) : Str := s.map lowerC

/-- `np.char.encode(values, encoding='ascii', errors='replace')` seen as text again. -/
def asciiReplace (s : Str) : Str := s.map fun c => if c < 128 then c else 63

def digitsVal : List Nat → Nat → Nat
  | [], acc => acc
  | c :: cs, acc => digitsVal cs (acc * 10 + (c - 48))

/-- The part of `pandas.to_numeric(..., errors='coerce')` that matters here, on the grammar
`[+-]? digits ( '.' digits )?` — `some q` iff the text reads as the finite number `q`.
(Validated against pandas on the generator's token universe by the `pnum` L0 family.) -/
def parseNum (s : Str) : Option Rat :=
  let neg := s.head? == some 45
  let body := if s.head? == some 45 || s.head? == some 43 then s.tail else s
  let ip := body.takeWhile isDigit
  let rest := body.dropWhile isDigit
  let sign : Rat := if neg then -1 else 1
  if ip.isEmpty then none else
  match rest with
  | [] => some (sign * (digitsVal ip 0 : Nat))
  | 46 :: fp =>
    if !fp.isEmpty && fp.all isDigit then
      some (sign * ((digitsVal ip 0 : Nat) + (digitsVal fp 0 : Nat) / ((10 ^ fp.length : Nat) : Rat)))
    else none
  | _ => none

/-- Reads as an integer literal (no fractional part). -/
def intLike (s : Str) : Bool :=
  let body := if s.head? == some 45 || s.head? == some 43 then s.tail else s
  !body.isEmpty && body.all isDigit

/-! ## Masks -/

/-- `values[mask]` on a flat array. -/
def selectRows {α : Type} : List Bool → List α → List α
  | true :: m, x :: xs => x :: selectRows m xs
  | false :: m, _ :: xs => selectRows m xs
  | _, _ => []

/-- `values[~mask] = fill`. -/
def fillMask {α : Type} (fill : α) : List Bool → List α → List α
  | b :: m, x :: xs => (if b then x else fill) :: fillMask fill m xs
  | _, _ => []

def countTrue (m : List Bool) : Nat := m.countP (· == true)

/-! ## The export plan (all three writers share it) -/

/-- `for cid in data.main_components + data.derived_components:
       if components is not None and cid not in components: continue`
`comps` are positions in `d.cols` (ComponentID membership is by identity). -/
def plan (d : Dataset) (comps : Option (List Nat)) : List Column :=
  let idx := d.cols.zipIdx
  let main := idx.filter fun p => !p.1.derived
  let der := idx.filter fun p => p.1.derived
  ((main ++ der).filter fun p =>
    match comps with
    | none => true
    | some cs => cs.contains p.2).map (·.1)

/-- Integer → float64 (`astype(float)`, and astropy's BLANK/BSCALE conversion): exact up to
`2^53`, round-to-nearest-even beyond. -/
def roundF64 (v : Int) : Int :=
  let n := v.natAbs
  if n ≤ 2 ^ 53 then v else
    let sh := Nat.log2 n + 1 - 53
    let q := n / 2 ^ sh
    let r := n % 2 ^ sh
    let half := 2 ^ (sh - 1)
    let q' := if r > half ∨ (r = half ∧ q % 2 = 1) then q + 1 else q
    (if v < 0 then -1 else 1) * ((q' * 2 ^ sh : Nat) : Int)

def toF64 : Cell → Cell
  | .num q => if q.den = 1 then .num (roundF64 q.num) else .num q
  | c => c

/-! ## Files -/

/-- What a writer puts into the file: one entry per column / dataset / HDU. -/
structure FCol where
  name : Str
  kind : Kind
  shape : List Nat
  cells : List Cell
  blank : Option Int      -- FITS `BLANK` keyword
  deriving Repr, DecidableEq

/-- one column of `data_to_astropy_table`: `values = data[cid]; if mask is not None: values = values[mask]` -/
def tableCol (d : Dataset) (sel : Option (List Bool)) (c : Column) : FCol :=
  match sel with
  | none => ⟨c.name, c.kind, d.shape, c.cells, none⟩
  | some m =>
    let v := selectRows m c.cells
    ⟨c.name, c.kind, [v.length], v, none⟩

/-- `data_to_astropy_table`. -/
def toTable (d : Dataset) (sel : Option (List Bool)) (comps : Option (List Nat)) : List FCol :=
  (plan d comps).map (tableCol d sel)

def encodeCell : Cell → Cell
  | .str s => .str (asciiReplace s)
  | c => c

/-- one dataset of `hdf5_writer` (with the F2 repair: unsigned integers are blanked like signed ones). -/
def hdf5Col (d : Dataset) (sel : Option (List Bool)) (c : Column) : FCol :=
  -- categorical + dtype U  ⇒  np.char.encode(values, 'ascii', 'replace')
  let cells := if c.kind = .str then c.cells.map encodeCell else c.cells
  match sel with
  | none => ⟨c.name, c.kind, d.shape, cells, none⟩
  | some m =>
    if d.shape.length = 1 then
      let v := selectRows m cells
      ⟨c.name, c.kind, [v.length], v, none⟩
    else
      match c.kind with
      | .float => ⟨c.name, c.kind, d.shape, fillMask .nan m cells, none⟩
      | .int _ | .uint _ => ⟨c.name, c.kind, d.shape, fillMask (.num 0) m cells, none⟩
      | .str => ⟨c.name, c.kind, d.shape, fillMask (.str []) m cells, none⟩

/-- `hdf5_writer`. -/
def hdf5Write (d : Dataset) (sel : Option (List Bool)) (comps : Option (List Nat)) : List FCol :=
  (plan d comps).map (hdf5Col d sel)

/-- `np.iinfo(dtype).min` for a signed integer of `bits` bits. -/
def intMin (bits : Nat) : Int := -((2 : Int) ^ (bits - 1))

/-- one HDU of `fits_writer` (with the F3 repair: `blank` is reset for every component; kinds
without a spare value are promoted to float and blanked with NaN). -/
def fitsImageCol (d : Dataset) (sel : Option (List Bool)) (c : Column) : FCol :=
  match sel with
  | none => ⟨c.name, c.kind, d.shape, c.cells, none⟩
  | some m =>
    match c.kind with
    | .int b => ⟨c.name, c.kind, d.shape, fillMask (.num (intMin b)) m c.cells, some (intMin b)⟩
    | .float => ⟨c.name, .float, d.shape, fillMask .nan m c.cells, none⟩
    | _ => ⟨c.name, .float, d.shape, fillMask .nan m (c.cells.map toF64), none⟩

/-- `fits_writer`: `if data.get_kind(cid) != 'numerical': continue`. -/
def fitsImageWrite (d : Dataset) (sel : Option (List Bool)) (comps : Option (List Nat)) : List FCol :=
  ((plan d comps).filter fun c => c.kind.numerical).map (fitsImageCol d sel)

def exportFile (fmt : Format) (d : Dataset) (sel : Option (List Bool)) (comps : Option (List Nat)) :
    List FCol :=
  match fmt with
  | .hdf5 => hdf5Write d sel comps
  | .fitsImage => fitsImageWrite d sel comps
  | _ => toTable d sel comps

/-! ## Channels (the third-party codecs, by contract) -/

/-- A column as the glue reader receives it from the codec; `none` = masked (missing) entry. -/
structure RCol where
  name : Str
  kind : Kind
  shape : List Nat
  cells : List (Option Cell)
  deriving Repr, DecidableEq

/-- The name a format can represent: FITS `EXTNAME` is upper-cased, everything else keeps
identifier-like names. -/
def nameRepr (fmt : Format) (n : Str) : Str := if fmt = .fitsImage then upper n else n

/-- **The channel contract**: what reading back a written column yields.  Names through
`nameRepr`; values unchanged; an integer image with a `BLANK` keyword comes back as floating point
with NaN at the blank pixels (FITS standard, applied by astropy). -/
def valueRepr (c : FCol) : List Cell :=
  match c.blank with
  | some b => c.cells.map fun x => if x = .num (b : Int) then .nan else toF64 x
  | none => c.cells

def kindRepr (c : FCol) : Kind :=
  match c.blank with
  | some _ => .float
  | none => c.kind

def idealRead (fmt : Format) (c : FCol) : RCol :=
  ⟨nameRepr fmt c.name, kindRepr c, c.shape, (valueRepr c).map some⟩

/-- The contract as a relation between a written and a read column: representable name, same
shape, the represented values with nothing missing, and text stays text / numbers stay numbers
(the exact numeric dtype, and the type of a column without rows, are the codec's business). -/
def faithful (fmt : Format) (c : FCol) (r : RCol) : Bool :=
  r.name == nameRepr fmt c.name && r.shape == c.shape && r.cells == (valueRepr c).map some &&
  (r.cells.isEmpty || ((r.kind == .str) == (kindRepr c == .str)))

def textOf : Cell → Str
  | .str s => s
  | _ => []

/-- the number an ASCII reader makes of a field -/
def numCell (s : Str) : Cell :=
  match parseNum s with
  | some q => .num q
  | none => .nan

/-- an empty field is a missing value -/
def asciiCells (conv : Str → Cell) (texts : List Str) : List (Option Cell) :=
  texts.map fun s => if s.isEmpty then none else some (conv s)

/-- ASCII readers (astropy.io.ascii): an empty field is a missing value, and the column type is
inferred from the remaining fields: all integer literals → int, all numbers → float, else text. -/
def asciiRead (fmt : Format) (c : FCol) : RCol :=
  match c.kind with
  | .str =>
    let texts : List Str := c.cells.map textOf
    let present := texts.filter fun s => !s.isEmpty
    if present.all intLike then
      ⟨nameRepr fmt c.name, .int 64, c.shape, asciiCells numCell texts⟩
    else if present.all fun s => (parseNum s).isSome then
      ⟨nameRepr fmt c.name, .float, c.shape, asciiCells numCell texts⟩
    else
      ⟨nameRepr fmt c.name, .str, c.shape, asciiCells .str texts⟩
  | .int _ => ⟨nameRepr fmt c.name, .int 64, c.shape, c.cells.map some⟩
  | .uint _ => ⟨nameRepr fmt c.name, .int 64, c.shape, c.cells.map some⟩
  | .float => ⟨nameRepr fmt c.name, .float, c.shape, c.cells.map some⟩

/-- The concrete channel used by the driver. -/
def channelOf (fmt : Format) (file : List FCol) : List RCol :=
  if fmt.ascii then file.map (asciiRead fmt) else file.map (idealRead fmt)

/-! ## Import side -/

structure LComp where
  name : Str
  cat : Bool               -- CategoricalComponent?
  dt : Nat                 -- dtype kind as a code point: f i u s
  cells : List Cell
  deriving Repr, DecidableEq

structure LData where
  shape : List Nat
  comps : List LComp
  deriving Repr, DecidableEq

/-- number of entries that `coerce_numeric` turns into a finite number -/
def finiteCount (cells : List Cell) : Nat :=
  cells.countP fun c => match c with
    | .str s => (parseNum s).isSome
    | _ => false

def coerce : Cell → Cell
  | .str s => match parseNum s with
    | some q => .num q
    | none => .nan
  | c => c

def cellIntLike : Cell → Bool
  | .str s => intLike s
  | _ => false

/-- `Component.autotyped`: numeric dtypes stay numeric; for text
`use_categorical = np.isfinite(coerce_numeric(data)).mean() <= 0.5` (the mean of an empty array is
NaN, for which the comparison is False). -/
def autotyped (name : Str) (kind : Kind) (cells : List Cell) : LComp :=
  match kind with
  | .float => ⟨name, false, 102, cells⟩
  | .int _ => ⟨name, false, 105, cells⟩
  | .uint _ => ⟨name, false, 117, cells⟩
  | .str =>
    if cells.length ≠ 0 ∧ 2 * finiteCount cells ≤ cells.length then ⟨name, true, 115, cells⟩
    else ⟨name, false, if cells.all cellIntLike then 105 else 102, cells.map coerce⟩

/-- `c.filled(fill_value=np.nan)`, and `-1` when NaN cannot be assigned (integer dtype); on a text
column numpy stores the *text* `'nan'`, truncated to the column's item size `w`. -/
def maskedFill (kind : Kind) (w : Nat) : Option Cell → Cell
  | some c => c
  | none =>
    match kind with
    | .float => .nan
    | .int _ => .num (-1)
    | .uint _ => .num 0      -- F5 repair: -1 cannot be stored in an unsigned column
    | .str => .str ([110, 97, 110].take w)

/-- item size of a text column: the longest entry -/
def textWidth (cells : List (Option Cell)) : Nat :=
  cells.foldl (fun w c => match c with | some (.str s) => max w s.length | _ => w) 0

def filled (c : RCol) : List Cell := c.cells.map (maskedFill c.kind (textWidth c.cells))

/-- `astropy_tabular_data`: one `Data`, columns in table order. -/
def tabularLoad (cols : List RCol) : List LData :=
  match cols with
  | [] => []
  | c0 :: _ => [⟨c0.shape, cols.map fun c => autotyped c.name c.kind (filled c)⟩]

def unmasked (c : RCol) : List Cell := c.cells.map fun x => x.getD .nan

/-- `fits_reader` on a file holding one binary table (after the F4 repair an empty table is a
dataset with zero rows instead of nothing). -/
def fitsTableLoad (cols : List RCol) : List LData :=
  match cols with
  | [] => []
  | c0 :: _ => [⟨c0.shape, cols.map fun c => autotyped c.name c.kind (unmasked c)⟩]

/-- `fits_reader` on image HDUs: one `Data` per HDU (`auto_merge=False`), HDUs without pixels are
skipped. -/
def fitsImageLoad (cols : List RCol) : List LData :=
  (cols.filter fun c => prod c.shape > 0).map fun c =>
    ⟨c.shape, [autotyped c.name c.kind (unmasked c)]⟩

/-- `hdf5_reader` (with the F1/F2 repairs: creation order, unsigned integers are read): all
top-level datasets have the same shape ⇒ merged into one `Data`. -/
def hdf5Load (cols : List RCol) : List LData :=
  match cols with
  | [] => []
  | c0 :: _ => [⟨c0.shape, cols.map fun c => autotyped c.name c.kind (unmasked c)⟩]

inductive Err where
  | unicode      -- FITS cannot encode non-ASCII text: the writer raises
  | noReader     -- `load_data` finds no factory (astropy cannot read back an empty LaTeX table)
  | emptyPlan    -- nothing to export
  deriving DecidableEq, Repr

def cellAscii : Cell → Bool
  | .str s => s.all (· < 128)
  | _ => true

def loadFile (fmt : Format) (cols : List RCol) : List LData :=
  match fmt with
  | .hdf5 => hdf5Load cols
  | .fitsImage => fitsImageLoad cols
  | .fitsTable => fitsTableLoad cols
  | _ => tabularLoad cols

/-- **Impl**: export with `fmt`'s writer, through a channel, `load_data` on the result. -/
def roundTripVia (ch : List FCol → List RCol) (fmt : Format) (d : Dataset)
    (sel : Option (List Bool)) (comps : Option (List Nat)) : Except Err (List LData) :=
  let file := exportFile fmt d sel comps
  if file.isEmpty then .error .emptyPlan
  else if fmt = .fitsTable ∧ ¬ (file.all fun c => c.cells.all cellAscii) then .error .unicode
  else if fmt = .latex ∧ (file.all fun c => c.cells.isEmpty) then .error .noReader
  else .ok (loadFile fmt (ch file))

def roundTrip (fmt : Format) := roundTripVia (channelOf fmt) fmt

/-! ## Spec -/

structure ExpComp where
  name : Str
  cat : Bool
  shape : List Nat
  cells : List Cell
  deriving Repr, DecidableEq

/-- the value written for a pixel outside the subset -/
def fillOf (fmt : Format) : Kind → Cell
  | .float => .nan
  | .int _ | .uint _ => if fmt = .fitsImage then .nan else .num 0
  | .str => .str []

/-- Does the format carry this component at all?  (Gridded FITS: numerical components only.) -/
def carried (fmt : Format) (c : Column) : Bool := fmt ≠ .fitsImage || c.kind.numerical

/-- Row selection applies to 1-d data in the table-like writers; the gridded FITS writer always
treats the data as an image. -/
def rowMode (fmt : Format) (d : Dataset) : Bool := d.shape.length = 1 && fmt ≠ .fitsImage

/-- The components the property demands, in order: main components in dataset order, then derived
components, restricted to the requested ones; text "up to the format's encoding"; for a subset the
selected rows (tables) or the masked pixels with everything else blank (images). -/
def expCol (fmt : Format) (d : Dataset) (sel : Option (List Bool)) (c : Column) : ExpComp :=
  let cells := if fmt = .hdf5 then c.cells.map encodeCell else c.cells
  match sel with
  | none => ⟨nameRepr fmt c.name, c.kind = .str, d.shape, cells⟩
  | some m =>
    if rowMode fmt d then ⟨nameRepr fmt c.name, c.kind = .str, [countTrue m], selectRows m cells⟩
    else ⟨nameRepr fmt c.name, c.kind = .str, d.shape, fillMask (fillOf fmt c.kind) m cells⟩

def expected (fmt : Format) (d : Dataset) (sel : Option (List Bool)) (comps : Option (List Nat)) :
    List ExpComp :=
  ((plan d comps).filter (carried fmt)).map (expCol fmt d sel)

def flatten (out : List LData) : List (List Nat × LComp) :=
  out.flatMap fun ld => ld.comps.map fun c => (ld.shape, c)

def compOk (e : ExpComp) (g : List Nat × LComp) : Bool :=
  g.2.name == e.name && g.1 == e.shape && g.2.cells == e.cells && (e.cells.isEmpty || g.2.cat == e.cat)

def allPairs {α β : Type} (f : α → β → Bool) : List α → List β → Bool
  | [], [] => true
  | a :: as, b :: bs => f a b && allPairs f as bs
  | _, _ => false

/-- **Spec verdict** on a loaded result. -/
def specOk (fmt : Format) (d : Dataset) (sel : Option (List Bool)) (comps : Option (List Nat))
    (out : List LData) : Bool :=
  allPairs compOk (expected fmt d sel comps) (flatten out)

/-! ## The property's quantifier as a decidable predicate -/

def reservedWords : List Str :=
  [[110, 97, 110], [105, 110, 102], [105, 110, 102, 105, 110, 105, 116, 121]]  -- nan inf infinity

/-- "column names that every format accepts": identifier-like, not a spelling of NaN/inf. -/
def identName (n : Str) : Bool :=
  (match n with
   | [] => false
   | c :: cs => isAlpha c && cs.all fun x => isAlpha x || isDigit x || x == 95) &&
  !(reservedWords.contains (lower n))

/-- Characters a text cell may contain for the format's codec to carry it verbatim: printable
(no control characters); the fixed-width / markup formats (IPAC, LaTeX) get letters, digits,
space, `_ . -` only; FITS is 7-bit. -/
def safeChar (fmt : Format) (c : Nat) : Bool :=
  match fmt with
  | .ipac | .latex => isAlpha c || isDigit c || c == 32 || c == 95 || c == 46 || c == 45
  | .fitsTable => 32 ≤ c && c < 127
  | _ => (32 ≤ c && c < 127) || 160 ≤ c

/-- "clearly non-numeric" text: starts with a letter, is not one of the spellings of NaN/inf, has
no trailing blank (FITS and the ASCII formats strip it). -/
def clearText (fmt : Format) (s : Str) : Bool :=
  (match s with | c :: _ => isAlpha c | [] => false) && !(reservedWords.contains (lower s)) &&
  s.getLast? != some 32 && s.all (safeChar fmt)

def isIntegral (q : Rat) : Bool := q.den == 1

def cellFits (fmt : Format) (k : Kind) : Cell → Bool
  | .nan => k = .float
  | .num q =>
    match k with
    | .float => true
    | .int b => isIntegral q && intMin b ≤ q.num && q.num < (2 : Int) ^ (b - 1)
    | .uint b => isIntegral q && 0 ≤ q.num && q.num < (2 : Int) ^ b
    | .str => false
  | .str s => k = .str && clearText fmt s

/-- dtypes every format here can hold (VOTable has `unsignedByte` only). -/
def kindOk (fmt : Format) : Kind → Bool
  | .int b => b = 16 || b = 32 || b = 64 ||
      -- signed bytes: no FITS / VOTable type (astropy: logical column, TypeError, BZERO + BLANK)
      (b = 8 && (fmt.ascii || fmt = .hdf5))
  | .uint b => if fmt = .votable then b = 8 else b = 8 || b = 16 || b = 32 || b = 64
  | _ => true

def namesDistinct : List Str → Bool
  | [] => true
  | n :: ns => !(ns.contains n) && namesDistinct ns

/-- **The property's quantifier**: well-formed dataset and selection; float / integer / clearly
non-numeric text columns; names every format accepts (identifier-like, distinct ignoring case);
at least one component that the format carries; table formats get 1-d data; LaTeX (not in the
property's list of formats) needs at least one row. -/
def inQuantifier (fmt : Format) (d : Dataset) (sel : Option (List Bool)) (comps : Option (List Nat)) : Bool :=
  let n := prod d.shape
  let pl := (plan d comps).filter (carried fmt)
  decide (0 < n) && !d.shape.isEmpty &&
  d.cols.all (fun c => c.cells.length == n && kindOk fmt c.kind && c.cells.all (cellFits fmt c.kind) && identName c.name) &&
  namesDistinct (d.cols.map fun c => upper c.name) &&
  (match sel with | none => true | some m => m.length == n) &&
  !pl.isEmpty &&
  (fmt = .hdf5 || fmt = .fitsImage || d.shape.length == 1) &&
  (fmt ≠ .latex || (match sel with | none => true | some m => decide (0 < countTrue m)))

/-- Integer pixels that survive the FITS `BLANK` → float64 conversion unchanged. -/
def blankSafe (k : Kind) (c : Cell) : Bool :=
  match k, c with
  | .int b, .num q => decide (q.num ≠ intMin b) && decide (q.num.natAbs ≤ 2 ^ 53)
  | .uint _, .num q => decide (q.num.natAbs ≤ 2 ^ 53)
  | _, _ => true

def selectedAll {α : Type} (p : α → Bool) : List Bool → List α → Bool
  | b :: m, x :: xs => (!b || p x) && selectedAll p m xs
  | _, _ => true

/-- For a *subset* of an integer image written to gridded FITS: every selected pixel keeps its
value through the BLANK mechanism (finding F6 is exactly the complement). -/
def blankClause (fmt : Format) (d : Dataset) (sel : Option (List Bool)) (comps : Option (List Nat)) : Bool :=
  match sel with
  | none => true
  | some m => fmt ≠ .fitsImage ||
    ((plan d comps).filter (carried fmt)).all fun c => selectedAll (blankSafe c.kind) m c.cells

/-- The hypothesis `P` of the theorems: the quantifier, minus the known finding. -/
def inDomain (fmt : Format) (d : Dataset) (sel : Option (List Bool)) (comps : Option (List Nat)) : Bool :=
  inQuantifier fmt d sel comps && blankClause fmt d sel comps

/-! ## Storage layout (round 2)

How the values of a component sit in memory is not part of the table / image: byte order, strides,
C / Fortran order, writeability, being a window into a larger buffer, alignment, and for text the
item type (`U` code points, fixed-width bytes `S`, Python objects, item width).  The harness builds
the same values under every layout and sends the tag along; the model carries it and **ignores**
it (`Props.C19.layout_irrelevant`), so an exporter whose output depends on the layout disagrees
with `roundTripStored` and is rejected by `specOkStored`. -/

inductive Layout where
  | native        -- C-contiguous, native byte order, owns its data
  | swapped       -- non-native byte order (`>f8`, `>i4`, `>U3` …: what FITS readers return)
  | strided       -- every second element of a larger array
  | reversed      -- negative strides on every axis
  | fortran       -- Fortran order (n-d) / a column of a C-ordered 2-d array (1-d)
  | readonly      -- `flags.writeable = False`
  | window        -- contiguous window into a larger buffer
  | unaligned     -- items not aligned to their size
  | swapstrided   -- non-native byte order and strided
  | fitslike      -- non-native, Fortran order, read-only
  | bcast         -- broadcast (stride 0) view when all values are equal
  | bytes         -- text as fixed-width bytes `S`
  | object        -- text as an object array of `str`
  | wide          -- text with items wider than the longest entry
  deriving DecidableEq, Repr

/-! ## Object state (round 2, second strengthening)

A component is a Python object that carries more than its values, and so is the `Data` object that
holds it.  None of it is part of the table / image: an exporter that reads any of it instead of
`data[cid]` / `cid.label` writes a file that depends on more than the values.  The harness builds
the same values under every such state (independently of the values, like the layouts) and sends
the tags along; the model carries them and **ignores** them
(`Props.C19.component_state_irrelevant`). -/

/-- State of one component object beyond its values. -/
structure CompState where
  /-- display jitter switched on (`CategoricalComponent.jitter('uniform')`): `codes` then returns
  the category index **plus** a uniform offset in (−0.5, 0.5) -/
  jitter : Bool := false
  /-- explicit `categories=` list (recipe id): unsorted, with categories no row uses, so the code of
  a row is not the rank of its label among the labels present -/
  cats : Option Nat := none
  /-- `Component.units` -/
  units : Option Str := none
  /-- the component was added under this name and renamed afterwards (`cid.label = …`) -/
  oldName : Option Str := none
  /-- a derived component computed *from another component of the dataset* (position, function:
  0 = identity link, 1 = text length) rather than from the pixel coordinates — the input carries
  its own layout and state -/
  source : Option (Nat × Nat) := none
  deriving DecidableEq, Repr

/-- State of the `Data` object beyond its components' values. -/
structure DataState where
  /-- `Data.label` (blanks, slashes, quotes, markup, non-ASCII, empty …) -/
  label : Str := [100]
  /-- seed of `np.random` when the data was built (the jitter offsets are drawn from it) -/
  seed : Nat := 0
  /-- the whole `Data` went through `GlueSerializer` / `GlueUnSerializer` (a restored session:
  categories, `jitter_method`, units, links are rebuilt by the loaders) -/
  restored : Bool := false
  /-- `Data.coords` is a WCS (world coordinate components exist; gridded FITS writes its header) -/
  wcs : Bool := false
  /-- components present in the dataset that are **not requested** (`components=` leaves them out):
  (kind, position) — 0 `DateTimeComponent`, 1 float with units, 2 jittered text, 3 derived -/
  extras : List (Nat × Nat) := []
  deriving DecidableEq, Repr

/-- A component as it is held in memory: its values, how they are laid out, and the state of the
component object. -/
structure StoredColumn where
  col : Column
  layout : Layout
  state : CompState := {}
  deriving Repr

structure StoredDataset where
  shape : List Nat
  cols : List StoredColumn
  state : DataState := {}
  deriving Repr

/-- The table / image a stored dataset *is*: its values, without layouts and object state. -/
def StoredDataset.values (s : StoredDataset) : Dataset := ⟨s.shape, s.cols.map (·.col)⟩

/-- The same values under other layouts. -/
def StoredDataset.relayout (f : Layout → Layout) (s : StoredDataset) : StoredDataset :=
  ⟨s.shape, s.cols.map fun c => ⟨c.col, f c.layout, c.state⟩, s.state⟩

/-- The same values (and layouts) held by objects in another state: `g` per component (it may look
at the position), `h` for the `Data` object. -/
def StoredDataset.restate (g : Nat → CompState → CompState) (h : DataState → DataState)
    (s : StoredDataset) : StoredDataset :=
  ⟨s.shape, s.cols.zipIdx.map fun p => ⟨p.1.col, p.1.layout, g p.2 p.1.state⟩, h s.state⟩

def StoredDataset.stateful (s : StoredDataset) : Bool :=
  s.cols.any (fun c => c.state != {}) || s.state != { seed := s.state.seed }

/-- What the driver runs for the `tab` / `img` / `lay` / `chain` families. -/
def roundTripStored (fmt : Format) (s : StoredDataset) (sel : Option (List Bool))
    (comps : Option (List Nat)) : Except Err (List LData) := roundTrip fmt s.values sel comps

def specOkStored (fmt : Format) (s : StoredDataset) (sel : Option (List Bool))
    (comps : Option (List Nat)) (out : List LData) : Bool := specOk fmt s.values sel comps out

def inQuantifierStored (fmt : Format) (s : StoredDataset) (sel : Option (List Bool))
    (comps : Option (List Nat)) : Bool := inQuantifier fmt s.values sel comps

def inDomainStored (fmt : Format) (s : StoredDataset) (sel : Option (List Bool))
    (comps : Option (List Nat)) : Bool := inDomain fmt s.values sel comps

/-! ## Chained round trips (round 2)

`export A → load → export B → load`: the second exporter is handed the dataset the first reader
produced.  `kinds` are the dtype kinds of that loaded dataset (the codec's choice: CSV makes every
integer `int64`, FITS keeps `int16` …), reported by the harness. -/

def datasetOf (ld : LData) (kinds : List Kind) : Dataset :=
  ⟨ld.shape, (ld.comps.zip kinds).map fun p => ⟨p.1.name, p.2, false, p.1.cells⟩⟩

/-- Second hop of a chain: the first loaded `Data` object is exported (whole, or a subset / a
component filter of it) with `fmt` and loaded again. -/
def secondHop (fmt : Format) (out1 : List LData) (kinds : List Kind) (sel : Option (List Bool))
    (comps : Option (List Nat)) : Option (Dataset × Except Err (List LData)) :=
  match out1 with
  | [] => none
  | ld :: _ => some (datasetOf ld kinds, roundTrip fmt (datasetOf ld kinds) sel comps)

/-! ## Registered exporters (by function name), each mapped to a format of the model -/

def knownExporters : List (String × Format) :=
  [("ascii_csv_factory", .csv), ("ascii_ipac_factory", .ipac), ("ascii_latex_factory", .latex),
   ("fits_factory", .fitsTable), ("fits_writer", .fitsImage), ("hdf5_writer", .hdf5),
   ("votable_factory", .votable)]

end GlueVerif.Export
