/-
C12 model, part 2 (core Lean only): `glue.core.state.VersionedDict` as a state machine.

`Impl` mirrors the class literally (with the F-C12a repair applied, see `props.d/C12/fixes`):

    self._data = {}                         # item -> {version -> value}, both insertion ordered

    __setitem__((item, version), value):
        len(key) != 2                        -> ValueError
        version = int(version)               -> ValueError if not an integer
        version < 1                          -> ValueError                       (F-C12a repair)
        versions = self._data.get(item, {})                                     (F-C12a repair: no ghost key)
        version > 1 and version-1 not in versions -> KeyError
        version in versions                  -> KeyError
        self._data.setdefault(item, {})[version] = value
    get_version(key, None)    -> KeyError if key not in _data else vs[max(vs)]
    get_version(key, version) -> _data[key][version] or KeyError               (F-C12a repair: no ghost key)
    __getitem__(key)          -> KeyError if key not in _data else (vs[max(vs)], max(vs))
    __contains__, __len__, __delitem__ (always ValueError)

`Orig.set` is the *unrepaired* `__setitem__` of the pinned tree (defaultdict, no `version < 1`
test), kept for the `decide`d witness of F-C12a.

`Spec` is what the property demands: each key owns the list of the values of versions `1..n`;
a set succeeds exactly for version `n+1`; nothing is ever overwritten; `getitem` returns version `n`.
-/
namespace GlueVerif.Versioned

/-- inner dict `version ↦ value` in insertion order -/
abbrev Versions := List (Int × Int)
/-- outer dict `item ↦ versions` in insertion order -/
abbrev VDict := List (String × Versions)

inductive Op where
  /-- `d[k, ver] = val`; `ver = none` stands for a version that `int()` rejects -/
  | set (k : String) (ver : Option Int) (val : Int)
  /-- `d[(k, 1, 2)] = 0`: key is not a pair -/
  | setBadKey (k : String)
  /-- `d.get_version(k, ver)`; `ver = none` is Python `None` (latest) -/
  | getv (k : String) (ver : Option Int)
  /-- `d[k]` -/
  | getitem (k : String)
  /-- `k in d` -/
  | contains (k : String)
  /-- `len(d)` -/
  | len
  /-- `del d[k]` -/
  | del (k : String)
  deriving Repr, DecidableEq

inductive Out where
  | done
  | val (v : Int)
  | pair (v ver : Int)
  | bool (b : Bool)
  | nat (n : Nat)
  | keyError
  | valueError
  deriving Repr, DecidableEq

/-- `vs.get(ver)` -/
def vget : Versions → Int → Option Int
  | [], _ => none
  | (a, b) :: r, v => if a = v then some b else vget r v

/-- `max(vs)` over the keys; `none` for an empty dict (Python raises ValueError) -/
def vmax : Versions → Option Int
  | [] => none
  | (a, _) :: r => match vmax r with
    | none => some a
    | some m => some (if a < m then m else a)

/-- `d.get(k)` -/
def dget : VDict → String → Option Versions
  | [], _ => none
  | (a, b) :: r, k => if a = k then some b else dget r k

/-- `d[k] = vs` (replace in place, or append a new item) -/
def dput : VDict → String → Versions → VDict
  | [], k, vs => [(k, vs)]
  | (a, b) :: r, k, vs => if a = k then (a, vs) :: r else (a, b) :: dput r k vs

namespace Impl

def set (d : VDict) (k : String) (ver : Option Int) (val : Int) : VDict × Out :=
  match ver with
  | none => (d, .valueError)
  | some v =>
    if v < 1 then (d, .valueError) else
    let vs := (dget d k).getD []
    if v > 1 ∧ (vget vs (v - 1)).isNone then (d, .keyError)
    else if (vget vs v).isSome then (d, .keyError)
    else (dput d k (vs ++ [(v, val)]), .done)

def getv (d : VDict) (k : String) (ver : Option Int) : Out :=
  match dget d k with
  | none => .keyError
  | some vs =>
    match ver with
    | none => match vmax vs with
      | none => .valueError           -- max() of an empty dict; unreachable (see `Inv`)
      | some m => match vget vs m with
        | some x => .val x
        | none => .keyError
    | some v => match vget vs v with
      | some x => .val x
      | none => .keyError

def getitem (d : VDict) (k : String) : Out :=
  match dget d k with
  | none => .keyError
  | some vs => match vmax vs with
    | none => .valueError
    | some m => match vget vs m with
      | some x => .pair x m
      | none => .keyError

def step (d : VDict) : Op → VDict × Out
  | .set k ver val => set d k ver val
  | .setBadKey _ => (d, .valueError)
  | .getv k ver => (d, getv d k ver)
  | .getitem k => (d, getitem d k)
  | .contains k => (d, .bool (dget d k).isSome)
  | .len => (d, .nat d.length)
  | .del _ => (d, .valueError)

/-- state after an op sequence, starting from `VersionedDict()` -/
def run (ops : List Op) : VDict := ops.foldl (fun d o => (step d o).1) []

/-- outputs of an op sequence -/
def outs : VDict → List Op → List Out
  | _, [] => []
  | d, o :: r => (step d o).2 :: outs (step d o).1 r

end Impl

namespace Orig

/-- The pinned tree's `__setitem__`: `_data` is a `defaultdict(dict)`, so the two membership tests
create an empty entry for a new item even when the assignment is then refused, and a version
`≤ 0` passes both tests. -/
def set (d : VDict) (k : String) (ver : Option Int) (val : Int) : VDict × Out :=
  match ver with
  | none => (d, .valueError)
  | some v =>
    let d1 := match dget d k with
      | none => dput d k []
      | some _ => d
    let vs := (dget d1 k).getD []
    if v > 1 ∧ (vget vs (v - 1)).isNone then (d1, .keyError)
    else if (vget vs v).isSome then (d1, .keyError)
    else (dput d1 k (vs ++ [(v, val)]), .done)

end Orig

namespace Spec

/-- key ↦ values of versions `1, 2, …, n` (`n ≥ 1`) -/
abbrev State := List (String × List Int)

def sget : State → String → Option (List Int)
  | [], _ => none
  | (a, b) :: r, k => if a = k then some b else sget r k

def sput : State → String → List Int → State
  | [], k, vs => [(k, vs)]
  | (a, b) :: r, k, vs => if a = k then (a, vs) :: r else (a, b) :: sput r k vs

/-- number of versions stored for `k` -/
def count (s : State) (k : String) : Nat := ((sget s k).getD []).length

/-- value of version `v` in the list of the values of versions `s, s+1, …` -/
def valueFrom : Int → List Int → Int → Option Int
  | _, [], _ => none
  | s, x :: r, v => if s = v then some x else valueFrom (s + 1) r v

/-- value of version `v` (1-based) -/
def valueAt (vals : List Int) (v : Int) : Option Int := valueFrom 1 vals v

def set (s : State) (k : String) (ver : Option Int) (val : Int) : State × Out :=
  match ver with
  | none => (s, .valueError)
  | some v =>
    if v < 1 then (s, .valueError)
    else if v = (count s k : Int) + 1 then (sput s k (((sget s k).getD []) ++ [val]), .done)
    else (s, .keyError)

def getv (s : State) (k : String) (ver : Option Int) : Out :=
  match sget s k with
  | none => .keyError
  | some vals =>
    match ver with
    | none => match vals.getLast? with
      | some x => .val x
      | none => .valueError
    | some v => match valueAt vals v with
      | some x => .val x
      | none => .keyError

def getitem (s : State) (k : String) : Out :=
  match sget s k with
  | none => .keyError
  | some vals => match vals.getLast? with
    | some x => .pair x (vals.length : Int)
    | none => .valueError

def step (s : State) : Op → State × Out
  | .set k ver val => set s k ver val
  | .setBadKey _ => (s, .valueError)
  | .getv k ver => (s, getv s k ver)
  | .getitem k => (s, getitem s k)
  | .contains k => (s, .bool (sget s k).isSome)
  | .len => (s, .nat s.length)
  | .del _ => (s, .valueError)

def outs : State → List Op → List Out
  | _, [] => []
  | s, o :: r => (step s o).2 :: outs (step s o).1 r

/-- The oracle the driver applies to the implementation's outputs. -/
def accepts (ops : List Op) (observed : List Out) : Bool := observed == outs [] ops

end Spec

end GlueVerif.Versioned
