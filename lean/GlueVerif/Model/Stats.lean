import GlueVerif.Model.ArrayUtil
/-!
L8 model for C10: `Data.compute_statistic` / `glue.utils.array.compute_statistic` and
`Data.compute_histogram`.  Core Lean only.

Values are `nan | ninf | pinf | fin q` over core `Rat`.  n-d arrays are total functions
`Idx → α` together with an explicit shape (row-major enumeration is `cellVals`).

* `Spec.*`  — textbook definition: `uStat` (NaN-aware reducer over the selected, filtered values of
  every output cell, `nan` when none), `specStat`, `specBinLin/specBinLog`, `histOf`.
* `Impl.*`  — the code that exists: `implDirect` (no selection / `SliceSubsetState` shortcut /
  minimal-subarray path with view recombination and NaN padding), `implStat` (chunk loop over
  `iterateChunksLoop` writing into a zero buffer), `implBinLin` (fast_histogram with the nudged
  upper edge).
-/
namespace GlueVerif.Stats
open GlueVerif.ArrayUtil

/-! ## Values -/

inductive Val where
  | nan | ninf | pinf
  | fin (q : Rat)
  deriving Repr, DecidableEq, BEq, Inhabited

namespace Val

def isNan : Val → Bool | nan => true | _ => false
def isFin : Val → Bool | fin _ => true | _ => false
/-- IEEE `v > 0`. -/
def isPos : Val → Bool | pinf => true | fin q => decide (0 < q) | _ => false
/-- IEEE `v > c`, `v < c`, `v ≥ c`, `v ≤ c` against a finite constant (all false for NaN). -/
def gt (v : Val) (c : Rat) : Bool := match v with | pinf => true | fin q => decide (c < q) | _ => false
def lt (v : Val) (c : Rat) : Bool := match v with | ninf => true | fin q => decide (q < c) | _ => false
def ge (v : Val) (c : Rat) : Bool := match v with | pinf => true | fin q => decide (c ≤ q) | _ => false
def le (v : Val) (c : Rat) : Bool := match v with | ninf => true | fin q => decide (q ≤ c) | _ => false

/-- Order on non-NaN values: `-inf < fin < +inf` (NaN is placed last, it never reaches a sort). -/
def leq : Val → Val → Bool
  | ninf, _ => true
  | _, pinf => true
  | fin a, fin b => decide (a ≤ b)
  | nan, nan => true
  | _, _ => false

def vmin (a b : Val) : Val := if leq a b then a else b
def vmax (a b : Val) : Val := if leq a b then b else a

/-- IEEE addition on the extended values. -/
def add : Val → Val → Val
  | nan, _ => nan
  | _, nan => nan
  | pinf, ninf => nan
  | ninf, pinf => nan
  | pinf, _ => pinf
  | _, pinf => pinf
  | ninf, _ => ninf
  | _, ninf => ninf
  | fin a, fin b => fin (a + b)

/-- Division by a positive count. -/
def divNat : Val → Nat → Val
  | fin a, n => fin (a / n)
  | v, _ => v

end Val

/-! ## Reducers (what numpy's nan-functions compute on the kept values of one cell) -/

inductive Stat where
  | minimum | maximum | mean | median | sum
  | percentile (q : Rat)
  deriving Repr, DecidableEq

def insertVal (x : Val) : List Val → List Val
  | [] => [x]
  | y :: ys => if Val.leq x y then x :: y :: ys else y :: insertVal x ys

def sortVals (xs : List Val) : List Val := xs.foldr insertVal []

def reduceMin : List Val → Val
  | [] => .nan
  | x :: r => r.foldl Val.vmin x

def reduceMax : List Val → Val
  | [] => .nan
  | x :: r => r.foldl Val.vmax x

def reduceSum : List Val → Val
  | [] => .nan
  | xs => xs.foldl Val.add (.fin 0)

def reduceMean (xs : List Val) : Val := (reduceSum xs).divNat xs.length

def reduceMedian (xs : List Val) : Val :=
  let s := sortVals xs
  let n := s.length
  if n = 0 then .nan
  else if n % 2 = 1 then s.getD (n / 2) .nan
  else ((s.getD (n / 2 - 1) .nan).add (s.getD (n / 2) .nan)).divNat 2

/-- numpy's default (`linear`) percentile: virtual index `q/100·(n-1)`, linear interpolation between
the two neighbours.  Only modelled when both neighbours are finite (numpy's `_lerp` produces NaN
as soon as an infinity is involved; that combination is outside the generated domain). -/
def reducePercentile (q : Rat) (xs : List Val) : Val :=
  let s := sortVals xs
  let n := s.length
  if n = 0 then .nan else
  let vi : Rat := q / 100 * ((n - 1 : Nat) : Rat)
  let lo := vi.floor.toNat
  let g := vi - (lo : Rat)
  match s.getD lo .nan, s.getD (min (lo + 1) (n - 1)) .nan with
  | .fin a, .fin b => .fin (a + (b - a) * g)
  | _, _ => .nan

/-- The reducer applied to the values of one output cell.  A NaN among the values (only possible
on the plain, non-NaN-aware path) propagates, as `np.min/np.sum/…` do. -/
def reduce (st : Stat) (xs : List Val) : Val :=
  if xs.any Val.isNan then .nan else
  match st with
  | .minimum => reduceMin xs
  | .maximum => reduceMax xs
  | .sum => reduceSum xs
  | .mean => reduceMean xs
  | .median => reduceMedian xs
  | .percentile q => reducePercentile q xs

/-- Combine two partial results of a reducer, `nan` meaning "no value" (used to state the
partition theorems). -/
def nanCombine (op : Val → Val → Val) : Val → Val → Val
  | .nan, b => b
  | a, .nan => a
  | a, b => op a b

/-! ## n-d machinery -/

abbrev Idx := List Nat

def inRange : Idx → List Nat → Bool
  | [], [] => true
  | i :: is, h :: hs => decide (i < h) && inRange is hs
  | _, _ => false

/-- Shape of the result: the axes that are not reduced (`red` flag false). -/
def keptShape : List Bool → List Nat → List Nat
  | true :: rs, _ :: hs => keptShape rs hs
  | false :: rs, h :: hs => h :: keptShape rs hs
  | _, _ => []

/-- The values that fall into output cell `k`, in row-major order: reduced axes range over all
positions, kept axes take their position from `k`. -/
def cellVals : List Bool → List Nat → (Idx → Option Val) → Idx → List Val
  | [], [], f, [] => (f []).toList
  | true :: rs, h :: hs, f, k =>
    (List.range h).flatMap fun i => cellVals rs hs (fun t => f (i :: t)) k
  | false :: rs, h :: hs, f, k0 :: k =>
    if k0 < h then cellVals rs hs (fun t => f (k0 :: t)) k else []
  | _, _, _, _ => []

structure Cfg where
  stat : Stat
  finite : Bool
  positive : Bool
  deriving Repr

/-- `keep` of `glue.utils.array.compute_statistic`: which value (if any) an element contributes.
`nanAware` is the code's condition `finite or positive or mask is not None`; on the NaN-aware path
elements that are not kept are overwritten by NaN and NaNs are skipped by the nan-functions. -/
def keepFn (cfg : Cfg) (nanAware : Bool) (data : Idx → Val) (mask : Idx → Bool) : Idx → Option Val :=
  fun i =>
    let v := data i
    if nanAware then
      if mask i && (!cfg.finite || v.isFin) && (!cfg.positive || v.isPos) && !v.isNan then some v
      else none
    else some v

structure Result where
  shape : List Nat
  cell : Idx → Val

/-- `glue.utils.array.compute_statistic(statistic, data, mask, axis, finite, positive)` — and at
the same time the textbook definition the property refers to: every cell of the output is the
reducer applied to the kept values along the reduced axes. -/
def uStat (cfg : Cfg) (nanAware : Bool) (red : List Bool) (sh : List Nat)
    (data : Idx → Val) (mask : Idx → Bool) : Result :=
  { shape := keptShape red sh,
    cell := fun k => reduce cfg.stat (cellVals red sh (keepFn cfg nanAware data mask) k) }

/-- `glue.utils.array.compute_statistic` as coded: `if data.size == 0: return np.nan` (a scalar,
whatever the axis) precedes the reduction. -/
def uStatImpl (cfg : Cfg) (nanAware : Bool) (red : List Bool) (sh : List Nat)
    (data : Idx → Val) (mask : Idx → Bool) : Result :=
  if prod sh = 0 then { shape := [], cell := fun _ => .nan }
  else uStat cfg nanAware red sh data mask

/-! ## Views (normalised: after `slice.indices`, positive steps) -/

inductive VItem where
  | int (i : Nat)
  | sl (b n st : Nat)     -- start, number of elements, step
  deriving Repr, DecidableEq

/-- Index in the original array of element `j` of the view. -/
def viewIdx : List VItem → Idx → Idx
  | [], _ => []
  | .int i :: vs, j => i :: viewIdx vs j
  | .sl b _ st :: vs, j0 :: j => (b + j0 * st) :: viewIdx vs j
  | .sl _ _ _ :: _, [] => []

def viewShape' : List VItem → List Nat
  | [] => []
  | .int _ :: vs => viewShape' vs
  | .sl _ n _ :: vs => n :: viewShape' vs

def fullView (sh : List Nat) : List VItem := sh.map fun h => .sl 0 h 1

/-- A box / strided sub-grid of an index space: per axis `(start, count, step)`. -/
abbrev Sub := List (Nat × Nat × Nat)

def subIdx : Sub → Idx → Idx
  | (b, _, st) :: ss, j0 :: j => (b + j0 * st) :: subIdx ss j
  | _, _ => []

def subShape (s : Sub) : List Nat := s.map fun p => p.2.1

/-- `i` is one of the `n` positions `b, b+st, …` of a progression. -/
def onProg (b n st i : Nat) : Bool := (List.range n).any fun j => i == b + j * st

/-- Position of kept-axis cell `k` of the sub-grid in the enclosing index space. -/
def mapKept : List Bool → Sub → Idx → Idx
  | true :: rs, _ :: ss, k => mapKept rs ss k
  | false :: rs, (b, _, st) :: ss, k0 :: k => (b + k0 * st) :: mapKept rs ss k
  | _, _, _ => []

/-! ## The minimal sub-array (bounding box of the mask) -/

def allIdx : List Nat → List Idx
  | [] => [[]]
  | h :: hs => (List.range h).flatMap fun i => (allIdx hs).map (i :: ·)

/-- `mask.any(axis = all axes but d)[i]`. -/
def anyAlong (sh : List Nat) (m : Idx → Bool) (d i : Nat) : Bool :=
  (allIdx sh).any fun idx => idx.getD d 0 == i && m idx

def firstTrue (p : Nat → Bool) : Nat → Nat → Nat
  | 0, s => s
  | fuel + 1, s => if p s then s else firstTrue p fuel (s + 1)

/-- one more than the last `i < n` with `p i`, `0` if none. -/
def lastTrueSucc (p : Nat → Bool) : Nat → Nat
  | 0 => 0
  | n + 1 => if p n then n + 1 else lastTrueSucc p n

/-- `subarray_slices`: per axis `slice(min(indices), max(indices)+1)` as `(start, count, 1)`. -/
def bbox (sh : List Nat) (m : Idx → Bool) : Sub :=
  (List.range sh.length).map fun d =>
    let h := sh.getD d 0
    let lo := firstTrue (anyAlong sh m d) h 0
    let hi := lastTrueSucc (anyAlong sh m d) h
    (lo, hi - lo, 1)

/-- The view recombination loop: original view × sub-array slices (step-1 slices only). -/
def recombine : List VItem → Sub → List VItem
  | [], _ => []
  | .int i :: vs, ss => .int i :: recombine vs ss
  | .sl b _ _ :: vs, (lo, n, _) :: ss => .sl (b + lo) n 1 :: recombine vs ss
  | .sl b n st :: vs, [] => .sl b n st :: recombine vs []

def allStep1 : List VItem → Bool
  | [] => true
  | .int _ :: vs => allStep1 vs
  | .sl _ _ st :: vs => st == 1 && allStep1 vs

def inBoxKept : List Bool → Sub → Idx → Bool
  | true :: rs, _ :: ss, k => inBoxKept rs ss k
  | false :: rs, (b, n, _) :: ss, k0 :: k => decide (b ≤ k0) && decide (k0 < b + n) && inBoxKept rs ss k
  | [], [], [] => true
  | _, _, _ => false

def shiftKept : List Bool → Sub → Idx → Idx
  | true :: rs, _ :: ss, k => shiftKept rs ss k
  | false :: rs, (b, _, _) :: ss, k0 :: k => (k0 - b) :: shiftKept rs ss k
  | _, _, _ => []

/-! ## `Data.compute_statistic` -/

/-- Mask of a `SliceSubsetState`: every coordinate lies on its slice's progression. -/
def subMask : Sub → Idx → Bool
  | (b, n, st) :: ss, i :: is => onProg b n st i && subMask ss is
  | [], [] => true
  | _, _ => false

/-- The selection as the model sees it. `slice`: a `SliceSubsetState` (its slices, normalised; its
mask is `subMask`); `mask`: any other subset state, as its full-shape mask. -/
inductive SelM where
  | none
  | slice (vs : Sub)
  | mask (m : Idx → Bool)

def SelM.isNone : SelM → Bool | .none => true | _ => false
def SelM.isSlice : SelM → Bool | .slice _ => true | _ => false
def SelM.maskFn : SelM → Idx → Bool
  | .none => fun _ => true
  | .slice vs => subMask vs
  | .mask m => m

inductive ViewKind where | none | ellipsis | tuple
  deriving Repr, DecidableEq

/-- The part of `Data.compute_statistic` after the chunking branch, for a view `v` (normalised to
one item per axis; `vk` records whether Python's `view` was `None`, `Ellipsis` or a tuple), reduced
axes `red` (flags over the axes of the *viewed* array) and a selection. This is the repaired
padding code (fix F11): padding uses the mask's shape, is skipped after the bail-out for non-unit
steps and when every axis is reduced. -/
def implDirect (cfg : Cfg) (data : Idx → Val) (sel : SelM) (vk : ViewKind)
    (v : List VItem) (red : List Bool) : Result :=
  let vsh := viewShape' v
  let base := cfg.finite || cfg.positive
  match sel with
  | .none => uStatImpl cfg base red vsh (fun j => data (viewIdx v j)) (fun _ => true)
  | .slice vs =>
    if vk == .none then
      -- shortcut: `subset_state.to_array(self, cid)`, no mask
      uStatImpl cfg base red (subShape vs) (fun j => data (subIdx vs j)) (fun _ => true)
    else implMasked (subMask vs)
  | .mask m => implMasked m
where
  implMasked (m : Idx → Bool) : Result :=
    let vsh := viewShape' v
    -- the mask for the view; made total (false outside the view's shape)
    let vm : Idx → Bool := fun j => inRange j vsh && m (viewIdx v j)
    if !((allIdx vsh).any vm) then
      { shape := keptShape red vsh, cell := fun _ => .nan }
    else
      let box := bbox vsh vm
      if allStep1 v then
        let nv := recombine v box
        let sub := uStat cfg true red (subShape box) (fun j => data (viewIdx nv j))
                    (fun j => vm (subIdx box j))
        if keptShape red vsh == [] then sub     -- axis None, or every axis reduced: no padding
        else
          { shape := keptShape red vsh,
            cell := fun k => if inBoxKept red box k then sub.cell (shiftKept red box k) else .nan }
      else
        -- bail-out: statistic over the whole view with the whole mask
        uStat cfg true red vsh (fun j => data (viewIdx v j)) vm

/-- Write `vals` into `buf[a : a + vals.length]`. -/
def writeSlice (buf : List Val) (a : Nat) (vals : List Val) : List Val :=
  (List.range buf.length).map fun i =>
    if a ≤ i ∧ i < a + vals.length then vals.getD (i - a) .nan else buf.getD i .nan

def chunkView (ch : Chunk) : List VItem := ch.map fun p => .sl p.1 (p.2 - p.1) 1

def setAt (xs : List Nat) (i v : Nat) : List Nat := xs.set i v

def firstKept : List Bool → Nat
  | false :: _ => 0
  | true :: rs => firstKept rs + 1
  | [] => 0

inductive AxisKind where | none | int | tuple
  deriving Repr, DecidableEq

/-- `Data.compute_statistic`.  `red` = flags over the axes of the viewed array, `ak` = how `axis`
was given (the chunk loop is only entered for a tuple). -/
def implStat (cfg : Cfg) (sh : List Nat) (data : Idx → Val) (sel : SelM) (vk : ViewKind)
    (v : List VItem) (ak : AxisKind) (red : List Bool) (nChunkMax : Nat) : Result :=
  let size := prod sh
  let nRed := (red.filter id).length
  if vk == .none && ak == .tuple && nRed > 0 && nRed + 1 == sh.length && size > nChunkMax
      && !sel.isSlice then
    let ai := firstKept red
    let h := sh.getD ai 0
    let c := max 1 (h * nChunkMax / size)
    let chunks := iterateChunksLoop sh (setAt sh ai c)
    let buf0 : List Val := List.replicate h (.fin 0)
    let buf := chunks.foldl (fun buf ch =>
      let r := implDirect cfg data sel .tuple (chunkView ch) red
      let a := (ch.getD ai (0, 0)).1
      let n := (ch.getD ai (0, 0)).2 - a
      writeSlice buf a ((List.range n).map fun j => r.cell [j])) buf0
    { shape := [h], cell := fun k => match k with | [i] => buf.getD i .nan | _ => .nan }
  else implDirect cfg data sel vk v red

/-- **Spec**: the documented result.  Every cell is the NaN-aware statistic of the selected,
filtered values of the viewed arrays (NaNs are always skipped); the shape is the kept axes of the
view.  For the
`SliceSubsetState` shortcut (no view) the documented result is the compact one: the kept axes of
the sliced array, cell `j` holding the statistic of the corresponding cell of the full array (a
scalar NaN when the slices select nothing). -/
def specStat (cfg : Cfg) (sh : List Nat) (data : Idx → Val) (sel : SelM) (vk : ViewKind)
    (v : List VItem) (red : List Bool) : Result :=
  match sel, vk with
  | .slice vs, .none =>
    let full := uStat cfg true red sh data (fun j => inRange j sh && subMask vs j)
    if prod (subShape vs) = 0 then { shape := [], cell := fun _ => .nan }   -- empty slice: scalar NaN
    else
    { shape := keptShape red (subShape vs),
      cell := fun k => if inRange k (keptShape red (subShape vs)) then full.cell (mapKept red vs k)
                       else .nan }
  | _, _ =>
    let vsh := viewShape' v
    uStat cfg true red vsh (fun j => data (viewIdx v j))
      (fun j => inRange j vsh && sel.maskFn (viewIdx v j))

/-- Well-formedness of a sub-grid inside a shape: positive steps, last element inside. -/
def subOk : List Nat → Sub → Bool
  | [], [] => true
  | h :: hs, (b, n, st) :: ss =>
    decide (0 < st) && (n == 0 || decide (b + (n - 1) * st < h)) && subOk hs ss
  | _, _ => false

/-- The code's condition for using the NaN-aware reducers (`finite or positive or mask is not None`);
the `SliceSubsetState` shortcut passes no mask. -/
def codeNanAware (cfg : Cfg) (sel : SelM) (vk : ViewKind) : Bool :=
  cfg.finite || cfg.positive ||
    (match sel with | .none => false | .slice _ => vk != .none | .mask _ => true)

/-- The array the statistic is taken over contains no NaN (hypothesis of the partial theorem for the
plain, non-NaN-aware path). -/
def noNanInScope (data : Idx → Val) (sel : SelM) (vk : ViewKind) (v : List VItem) : Bool :=
  match sel, vk with
  | .slice vs, .none => (allIdx (subShape vs)).all fun j => !(data (subIdx vs j)).isNan
  | _, _ => (allIdx (viewShape' v)).all fun j => !(data (viewIdx v j)).isNan

/-- Hypothesis of the refinement theorem `implStat = specStat` (decidable): positive sizes, axis
flags match the viewed array, `view=None` is the whole array, the view is not empty, the slices of a
`SliceSubsetState` lie inside the array, and — finding F10c — either the code takes the NaN-aware
path or the array the statistic is taken over contains no NaN. -/
def statP (cfg : Cfg) (sh : List Nat) (data : Idx → Val) (sel : SelM) (vk : ViewKind)
    (v : List VItem) (red : List Bool) : Bool :=
  sh.all (fun s => decide (0 < s)) &&
  (red.length == (viewShape' v).length) &&
  (vk != .none || v == fullView sh) &&
  (prod (viewShape' v) != 0) &&
  (match sel with | .slice vs => subOk sh vs | _ => true) &&
  (codeNanAware cfg sel vk || noNanInScope data sel vk v)

/-! ## Histograms -/

/-- floor(log2 |q|) for `q ≠ 0`, searched within `[-1100, 1100]`. -/
def log2Floor (q : Rat) : Int :=
  let a := if q < 0 then -q else q
  let rec up (fuel : Nat) (e : Int) : Int :=
    match fuel with
    | 0 => e
    | f + 1 => if (2 : Rat) ^ (e + 1) ≤ a then up f (e + 1) else e
  let rec down (fuel : Nat) (e : Int) : Int :=
    match fuel with
    | 0 => e
    | f + 1 => if a < (2 : Rat) ^ e then down f (e - 1) else e
  if 1 ≤ a then up 1100 0 else down 1100 0

/-- `abs(np.spacing(q))` for a double `q` (normal range; `2^-1074` at zero). -/
def ulp (q : Rat) : Rat :=
  if q = 0 then (2 : Rat) ^ (-1074 : Int) else (2 : Rat) ^ (log2Floor q - 52)

/-- fast_histogram's bin index with range `[lo, hi')`: `⌊(x - lo)·n / (hi' - lo)⌋`. -/
def implBinLin (lo hi' : Rat) (n : Nat) (x : Rat) : Nat :=
  ((x - lo) * (n : Rat) / (hi' - lo)).floor.toNat

/-- textbook equal-width bin over the closed range `[lo, hi]`: bin `k` is
`[lo + k·w, lo + (k+1)·w)`, the last bin is closed. -/
def specBinLin (lo hi : Rat) (n : Nat) (x : Rat) : Nat :=
  if lo = hi then 0
  else if x = hi then n - 1
  else ((x - lo) * (n : Rat) / (hi - lo)).floor.toNat

/-- Bin index in log space without logarithms: with `r = hi/lo > 1` and `y = (x/lo)^n`, `x` lies in
bin `k` iff `r^k ≤ y < r^(k+1)`; the last bin is closed. -/
def specBinLog (lo hi : Rat) (n : Nat) (x : Rat) : Nat :=
  if lo = hi then 0 else
  let r := hi / lo
  let y := (x / lo) ^ n
  ((List.range n).filter fun j => decide (1 ≤ j) && decide (r ^ j ≤ y)).length

/-- `x` lies exactly on an interior bin edge (`k = 1 … n-1`). -/
def onInteriorEdgeLin (lo hi : Rat) (n : Nat) (x : Rat) : Bool :=
  lo != hi && x != hi && x != lo &&
    (let t := (x - lo) * (n : Rat) / (hi - lo); decide ((t.floor : Rat) = t))

def onInteriorEdgeLog (lo hi : Rat) (n : Nat) (x : Rat) : Bool :=
  lo != hi && x != hi && x != lo &&
    (List.range n).any fun j => decide (1 ≤ j) && decide ((hi / lo) ^ j = (x / lo) ^ n)

/-- Histogram with a given bin function: bin `k` holds the weight sum of the kept values whose
bin index is `k`. `xs` = (value, weight) of the kept elements. -/
def histOf (binf : Rat → Nat) (n : Nat) (xs : List (Rat × Rat)) : List Rat :=
  (List.range n).map fun k => ((xs.filter fun p => binf p.1 == k).map (·.2)).sum

/-- The kept elements: selected, not NaN, inside the closed range (±inf fall outside). -/
def histKeep (lo hi : Rat) (xs : List (Val × Rat)) : List (Rat × Rat) :=
  xs.filterMap fun p => match p.1 with
    | .fin q => if lo ≤ q ∧ q ≤ hi then some (q, p.2) else none
    | _ => none

inductive HistOut where
  | bins (b : List Rat)
  | valueError
  deriving Repr, DecidableEq

/-- `Data.compute_histogram` (1-d) after the selection has been applied: `xs` = selected
(value, weight) pairs (weight 1 without a weights attribute). Models the repaired nudge
`xmax += 10*abs(np.spacing(xmax))` (fix F10b). In log space the nudge acts on `log10(hi)`, which has
no rational counterpart: the model uses the un-nudged textbook log bins (the two agree unless a value
lies exactly on an interior edge in log space, which the driver reports separately). -/
def implHist (r0 r1 : Rat) (n : Nat) (log : Bool) (xs : List (Val × Rat)) : HistOut :=
  let lo := min r0 r1
  let hi := max r0 r1
  let kept := histKeep lo hi xs
  if kept.isEmpty then .bins (List.replicate n 0)
  else if log then
    if lo < 0 ∨ hi < 0 then .bins (List.replicate n 0)
    else if lo = 0 then .valueError      -- log10(0) = -inf: fast_histogram refuses the range
    else .bins (histOf (specBinLog lo hi n) n kept)
  else
    .bins (histOf (implBinLin lo (hi + 10 * ulp hi) n) n kept)

/-- **Spec**: per-bin textbook histogram over the closed (sorted) range. -/
def specHist (r0 r1 : Rat) (n : Nat) (log : Bool) (xs : List (Val × Rat)) : List Rat :=
  let lo := min r0 r1
  let hi := max r0 r1
  let kept := histKeep lo hi xs
  if log then
    if lo ≤ 0 then List.replicate n 0
    else histOf (specBinLog lo hi n) n kept
  else histOf (specBinLin lo hi n) n kept

/-- **Spec, total clause**: the bin totals equal the number (weight sum) of selected finite values
inside the closed range. -/
def specHistTotal (r0 r1 : Rat) (xs : List (Val × Rat)) : Rat :=
  ((histKeep (min r0 r1) (max r0 r1) xs).map (·.2)).sum


/-! ## Selections (how the driver turns a subset state into its full-shape mask) -/

inductive Sel where
  | gt (c : Rat) | lt (c : Rat) | ge (c : Rat) | le (c : Rat)      -- on the data attribute
  | pixRange (ax : Nat) (lo hi : Rat)        -- RangeSubsetState on a pixel component (closed)
  | pixGt (ax : Nat) (c : Rat)
  | roi (ax ay : Nat) (xmin xmax ymin ymax : Rat)   -- rectangular ROI on two pixel components (open)
  | bits (flat : List Bool)                  -- MaskSubsetState
  | and (a b : Sel) | or (a b : Sel) | xor (a b : Sel) | not (a : Sel)
  deriving Repr

def rowMajor : List Nat → Idx → Nat
  | _ :: hs, i :: is => i * prod hs + rowMajor hs is
  | _, _ => 0

def Sel.eval (sh : List Nat) (data : Idx → Val) : Sel → Idx → Bool
  | .gt c, i => (data i).gt c
  | .lt c, i => (data i).lt c
  | .ge c, i => (data i).ge c
  | .le c, i => (data i).le c
  | .pixRange ax lo hi, i => let p : Rat := (i.getD ax 0 : Nat); decide (lo ≤ p) && decide (p ≤ hi)
  | .pixGt ax c, i => let p : Rat := (i.getD ax 0 : Nat); decide (c < p)
  | .roi ax ay x0 x1 y0 y1, i =>
    let px : Rat := (i.getD ax 0 : Nat)
    let py : Rat := (i.getD ay 0 : Nat)
    decide (x0 < px) && decide (px < x1) && decide (y0 < py) && decide (py < y1)
  | .bits flat, i => flat.getD (rowMajor sh i) false
  | .and a b, i => a.eval sh data i && b.eval sh data i
  | .or a b, i => a.eval sh data i || b.eval sh data i
  | .xor a b, i => (a.eval sh data i) != (b.eval sh data i)
  | .not a, i => !(a.eval sh data i)


end GlueVerif.Stats

namespace GlueVerif.Stats

/-! ## Storage dtypes and the acceptance rule for a double-precision result (round 2)

The specification is over the exact rational value of every *stored* element, whatever numeric dtype
the component is stored in (`float16 … int64, uint8 …, bool`): a dtype only restricts which values
can occur (`DType.holds`), it never enters the statistic.  The implementation answers with IEEE
doubles; `specAccept` says which doubles are an acceptable answer for a cell whose kept values are
`xs`: the exact value itself, a correctly rounded value where a single rounding separates the two,
and otherwise a value within the forward error bound of a double-precision evaluation, computed
exactly from the inputs (`n·2⁻⁵²·Σ|x|` for a sum of `n` values, …).  A single- or half-precision
accumulation (error of order `2⁻²⁴·Σ|x|` resp. `2⁻¹¹·Σ|x|`) is far outside of it. -/

inductive DType where
  | f2 | f4 | f8 | i1 | i2 | i4 | i8 | u1 | u2 | u4 | u8 | b1
  deriving Repr, DecidableEq

def rabs (q : Rat) : Rat := if q < 0 then -q else q

def isPow2 (d : Nat) : Bool := d != 0 && d == 2 ^ d.log2

/-- Number of trailing zero bits of `n` (`0` for `0`). -/
def trailingZeros (n : Nat) : Nat := go n n
where
  go : Nat → Nat → Nat
    | 0, _ => 0
    | fuel + 1, m => if m != 0 && m % 2 == 0 then go fuel (m / 2) + 1 else 0

/-- `q` is a value of the binary floating-point format with `p` significand bits and exponent range
`[emin, emax]` (subnormals included): `q = o·2^l` with `o` odd, `o < 2^p`, `l ≥ emin - p + 1` and
`|q| < 2^(emax+1)`. -/
def isBinFloat (p : Nat) (emin emax : Int) (q : Rat) : Bool :=
  if q.num == 0 then true else
  let n := q.num.natAbs
  let tz := trailingZeros n
  let o := n / 2 ^ tz
  let l : Int := (tz : Int) - (q.den.log2 : Int)
  isPow2 q.den && decide (o < 2 ^ p) && decide (emin - (p : Int) + 1 ≤ l) &&
    decide (rabs q < (2 : Rat) ^ (emax + 1))

def isIntIn (lo hi : Int) (q : Rat) : Bool := q.den == 1 && decide (lo ≤ q.num) && decide (q.num ≤ hi)

/-- IEEE binary64. -/
def isDouble (q : Rat) : Bool := isBinFloat 53 (-1022) 1023 q

/-- The value can be stored in a component of this dtype (NaN and ±inf only in the float dtypes). -/
def DType.holds : DType → Val → Bool
  | .f2, .fin q => isBinFloat 11 (-14) 15 q
  | .f4, .fin q => isBinFloat 24 (-126) 127 q
  | .f8, .fin q => isDouble q
  | .f2, _ => true
  | .f4, _ => true
  | .f8, _ => true
  | .i1, .fin q => isIntIn (-128) 127 q
  | .i2, .fin q => isIntIn (-32768) 32767 q
  | .i4, .fin q => isIntIn (-2147483648) 2147483647 q
  | .i8, .fin q => isIntIn (-9223372036854775808) 9223372036854775807 q
  | .u1, .fin q => isIntIn 0 255 q
  | .u2, .fin q => isIntIn 0 65535 q
  | .u4, .fin q => isIntIn 0 4294967295 q
  | .u8, .fin q => isIntIn 0 18446744073709551615 q
  | .b1, .fin q => isIntIn 0 1 q
  | _, _ => false

/-- A stored element: its dtype tag and its exact value. -/
structure Stored where
  dt : DType
  v : Val

def finVals (xs : List Val) : List Rat := xs.filterMap fun v => match v with | .fin q => some q | _ => none

/-- `Σ|x|` over the finite values. -/
def absSum (xs : List Val) : Rat := ((finVals xs).map rabs).sum

/-- `max|x|` over the finite values. -/
def maxAbs (xs : List Val) : Rat := (finVals xs).foldl (fun m q => max m (rabs q)) 0

/-- `2⁻⁵²` = twice the unit roundoff of binary64. -/
def eps52 : Rat := 1 / 4503599627370496

/-- Every partial sum of the values, in any order and association, is a double: all values are
finite multiples of `2^-k` (`2^k ≤ 2^1022`) and `Σ|x|·2^k ≤ 2^53`.  A double-precision summation is
then exact whatever its order (pairwise, chunked, …). -/
def sumExact (xs : List Val) : Bool :=
  let qs := finVals xs
  let d : Nat := qs.foldl (fun d q => max d q.den) 1
  qs.length == xs.length && qs.all (fun q => isPow2 q.den) && decide (d ≤ (2 : Nat) ^ 1022) &&
    decide (absSum xs * (d : Rat) ≤ 9007199254740992)

/-- One correctly rounded operation away from the exact value `e`: `e` itself when it is a double,
otherwise within half an ulp (`≤ 2⁻⁵³·|e|`). -/
def nearDouble (py e : Rat) : Bool :=
  if isDouble e then py == e else decide (rabs (py - e) ≤ eps52 / 2 * rabs e)

/-- Which finite double `py` is an acceptable value for a cell with kept values `xs` and exact
statistic `e`.  The exact value always is.  Otherwise:
* minimum, maximum, median of an odd number of values: a stored value — correctly rounded;
* sum: exact when every partial sum is a double (`sumExact`), otherwise within `n·2⁻⁵²·Σ|x|`
  (twice the first-order bound `(n-1)·u·Σ|x|` of recursive or pairwise summation, `u = 2⁻⁵³`, which
  also covers rounding 64-bit integers to doubles first);
* mean: one more division — correctly rounded when the sum is exact, else `(n+1)·2⁻⁵²·Σ|x|/n`;
* median of an even number of values: the mean of the two middle values;
* percentile: `a + (b-a)·g`, the virtual index `g` carrying a relative error of a few `n·u`:
  within `(4n+8)·2⁻⁵²·max|x|`. -/
def acceptFin (st : Stat) (xs : List Val) (py e : Rat) : Bool :=
  py == e ||
  let n : Rat := (xs.length : Nat)
  match st with
  | .minimum => nearDouble py e
  | .maximum => nearDouble py e
  | .sum =>
    if sumExact xs then nearDouble py e else decide (rabs (py - e) ≤ n * eps52 * absSum xs)
  | .mean =>
    if sumExact xs then nearDouble py e
    else decide (rabs (py - e) ≤ (n + 1) * eps52 * absSum xs / n)
  | .median =>
    let s := sortVals xs
    let m := s.length
    if m % 2 = 1 then nearDouble py e
    else
      let pair := [s.getD (m / 2 - 1) .nan, s.getD (m / 2) .nan]
      if sumExact pair then nearDouble py e
      else decide (rabs (py - e) ≤ 3 * eps52 * absSum pair / 2)
  | .percentile _ => decide (rabs (py - e) ≤ (4 * n + 8) * eps52 * maxAbs xs)

/-- **Spec, acceptance of a returned cell**: `py` (the exact value of the returned double, or
NaN / ±inf) is an acceptable value of statistic `st` over the kept values `xs`.  NaN and ±inf must be
met exactly. -/
def specAccept (st : Stat) (xs : List Val) (py : Val) : Bool :=
  match py, reduce st xs with
  | .fin a, .fin e => acceptFin st xs a e
  | a, e => decide (a = e)

/-- The kept values of cell `k` of the specification (`specStat … .cell k` is the reducer applied
to them — theorem `spec_cell_reduce`): what the tolerance of `specAccept` is computed from. -/
def specCellVals (cfg : Cfg) (sh : List Nat) (data : Idx → Val) (sel : SelM) (vk : ViewKind)
    (v : List VItem) (red : List Bool) (k : Idx) : List Val :=
  match sel, vk with
  | .slice vs, .none =>
    if GlueVerif.ArrayUtil.prod (subShape vs) = 0 then []
    else if inRange k (keptShape red (subShape vs)) then
      cellVals red sh (keepFn cfg true data (fun j => inRange j sh && subMask vs j)) (mapKept red vs k)
    else []
  | _, _ =>
    let vsh := viewShape' v
    cellVals red vsh (keepFn cfg true (fun j => data (viewIdx v j))
      (fun j => inRange j vsh && sel.maskFn (viewIdx v j))) k

/-- The specification for a component given as stored elements (dtype tag + exact value): the dtype
tags are dropped. -/
def specStatStored (cfg : Cfg) (sh : List Nat) (sd : Idx → Stored) (sel : SelM) (vk : ViewKind)
    (v : List VItem) (red : List Bool) : Result :=
  specStat cfg sh (fun i => (sd i).v) sel vk v red

def specCellValsStored (cfg : Cfg) (sh : List Nat) (sd : Idx → Stored) (sel : SelM) (vk : ViewKind)
    (v : List VItem) (red : List Bool) (k : Idx) : List Val :=
  specCellVals cfg sh (fun i => (sd i).v) sel vk v red k

/-- Hypothesis of the per-bin theorem (linear bins), decidable: the range is non-degenerate, the nudge
`eps` is small against the bin width, and every kept value is either the upper range end or lies at
least `k·eps/n` above the lower edge of its textbook bin `k` (i.e. not on — or within the nudge
above — an interior bin edge). -/
def clearOfEdges (lo hi eps : Rat) (n : Nat) (x : Rat) : Bool :=
  x == hi ||
    (let k := specBinLin lo hi n x
     decide (lo + (k : Rat) * (hi + eps - lo) / n ≤ x))

def histP (lo hi eps : Rat) (n : Nat) (kept : List (Rat × Rat)) : Bool :=
  decide (lo < hi) && decide (((n : Rat) - 1) * eps ≤ hi - lo) &&
    kept.all fun p => clearOfEdges lo hi eps n p.1

/-! ## 2-d histograms (`Data.compute_histogram` with two attributes; round 2)

Same per-axis treatment as the 1-d histogram: an element is kept when both coordinates are non-NaN and
inside their closed (sorted) ranges; each axis has its own bin function (linear: fast_histogram with
the 10-ulp padded upper end; log: textbook log bins).  Cells are listed row-major (`nx × ny`).
Log ranges are strictly positive in the modelled domain. -/

def hist2Keep (xlo xhi ylo yhi : Rat) (xs : List (Val × Val × Rat)) : List (Rat × Rat × Rat) :=
  xs.filterMap fun p => match p.1, p.2.1 with
    | .fin a, .fin b =>
      if xlo ≤ a ∧ a ≤ xhi ∧ ylo ≤ b ∧ b ≤ yhi then some (a, b, p.2.2) else none
    | _, _ => none

def hist2Of (bx by' : Rat → Nat) (nx ny : Nat) (kept : List (Rat × Rat × Rat)) : List Rat :=
  (List.range nx).flatMap fun i => (List.range ny).map fun j =>
    ((kept.filter fun p => bx p.1 == i && by' p.2.1 == j).map (·.2.2)).sum

def implBinAxis (lo hi : Rat) (n : Nat) (log : Bool) : Rat → Nat :=
  if log then specBinLog lo hi n else implBinLin lo (hi + 10 * ulp hi) n

def specBinAxis (lo hi : Rat) (n : Nat) (log : Bool) : Rat → Nat :=
  if log then specBinLog lo hi n else specBinLin lo hi n

def implHist2 (rx0 rx1 ry0 ry1 : Rat) (nx ny : Nat) (lx ly : Bool) (xs : List (Val × Val × Rat)) : List Rat :=
  let xlo := min rx0 rx1; let xhi := max rx0 rx1
  let ylo := min ry0 ry1; let yhi := max ry0 ry1
  let kept := hist2Keep xlo xhi ylo yhi xs
  if kept.isEmpty then List.replicate (nx * ny) 0
  else hist2Of (implBinAxis xlo xhi nx lx) (implBinAxis ylo yhi ny ly) nx ny kept

/-- **Spec**: textbook 2-d histogram over the closed ranges. -/
def specHist2 (rx0 rx1 ry0 ry1 : Rat) (nx ny : Nat) (lx ly : Bool) (xs : List (Val × Val × Rat)) : List Rat :=
  let xlo := min rx0 rx1; let xhi := max rx0 rx1
  let ylo := min ry0 ry1; let yhi := max ry0 ry1
  hist2Of (specBinAxis xlo xhi nx lx) (specBinAxis ylo yhi ny ly) nx ny (hist2Keep xlo xhi ylo yhi xs)

/-- **Spec, total clause**: the cells add up to the weight of the selected elements inside both closed ranges. -/
def specHist2Total (rx0 rx1 ry0 ry1 : Rat) (xs : List (Val × Val × Rat)) : Rat :=
  ((hist2Keep (min rx0 rx1) (max rx0 rx1) (min ry0 ry1) (max ry0 ry1) xs).map (·.2.2)).sum

/-- Per-axis clean-stratum condition (decidable): no kept coordinate on an interior edge in log space;
`histP` (clear of the padded edges) for a linear axis. -/
def axisClean (lo hi : Rat) (n : Nat) (log : Bool) (vals : List Rat) : Bool :=
  if log then !(vals.any (onInteriorEdgeLog lo hi n))
  else lo == hi || histP lo hi (10 * ulp hi) n (vals.map fun v => (v, 1))

end GlueVerif.Stats
