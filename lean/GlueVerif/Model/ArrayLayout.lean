import GlueVerif.Model.ArrayUtil
/-!
# C20 round 3 — memory layout as an independent dimension of the array helpers

The array-taking helpers of `glue/utils/array.py` (`unique`, `categorical_ndarray` and arrays derived
from one, `index_lookup`, `unbroadcast`, `broadcast_arrays_minimal`, `check_sorted`, `coerce_numeric`)
are modelled over **logical arrays**: a shape and the row-major list of the values that plain indexing
`arr[idx]` sees.  How the array is laid out in memory (C / Fortran order, permuted axes, negative
strides, step-sliced views of larger buffers, stride-0 axes, byte order, read-only) is a separate
`Layout` tag which every model function *receives* and — except for the one place where the code
itself reads the strides, the shape returned by `unbroadcast` — ignores.  Core Lean only.
-/
namespace GlueVerif.ArrayUtil

/-- A logical n-d array: its shape and the row-major list of its values (what `arr[idx]` returns for
`idx` in `np.ndindex(shape)`).  Strings are sent as code points. -/
structure NdArr where
  shape : List Nat
  vals : List Int
  deriving Repr, BEq, DecidableEq

def NdArr.wf (a : NdArr) : Bool := a.vals.length == prod a.shape

/-- The memory layout of an array, as the harness builds it with numpy for one and the same logical
array: buffer order (C / Fortran), an axis permutation (`arr = mem.transpose(perm)`), per logical axis
a step-sliced view of a larger buffer (`0` none, `1` = `[::2]`, `2` = `[1::2]`), a negative stride,
a broadcast (stride-0) axis, non-native byte order, read-only flag. -/
structure Layout where
  fortran : Bool
  perm : List Nat
  step : List Nat
  rev : List Bool
  bcast : List Bool
  swapped : Bool
  readonly : Bool
  deriving Repr, BEq, DecidableEq

/-- The plain layout: a fresh C-contiguous, native, writeable array. -/
def Layout.plain : Layout := ⟨false, [], [], [], [], false, false⟩

/-! ## Row-major blocks -/

/-- The first `h` consecutive blocks of `blk` values: the sub-arrays along the first axis. -/
def blocks : Nat → Nat → List Int → List (List Int)
  | 0, _, _ => []
  | h + 1, blk, vals => vals.take blk :: blocks h blk (vals.drop blk)

/-! ## unbroadcast / broadcast on logical arrays -/

/-- Shape after `unbroadcast`: stride-0 axes get length 1. -/
def collapsedShape : List Bool → List Nat → List Nat
  | m :: ms, h :: hs => (if m then 1 else h) :: collapsedShape ms hs
  | _, hs => hs

/-- Values after `unbroadcast`: index 0 is taken along every stride-0 axis. -/
def collapse : List Bool → List Nat → List Int → List Int
  | true :: ms, _ :: hs, vals => collapse ms hs (vals.take (prod hs))
  | false :: ms, h :: hs, vals => ((blocks h (prod hs) vals).map (collapse ms hs)).flatten
  | _, _, vals => vals

/-- `np.broadcast_to(u, shape)` is allowed (equal ndim): every axis has the same length or length 1. -/
def bcCompatible : List Nat → List Nat → Bool
  | [], [] => true
  | k :: ks, h :: hs => (k == h || k == 1) && bcCompatible ks hs
  | _, _ => false

/-- Row-major values of `np.broadcast_to(u, shape)` for `u` of shape `ushape` (same ndim). -/
def expand : List Nat → List Nat → List Int → List Int
  | k :: ks, h :: hs, u =>
    if k = h then ((blocks h (prod ks) u).map (expand ks hs)).flatten
    else (List.replicate h (expand ks hs u)).flatten
  | _, _, u => u

/-- The logical array is constant along the axes marked in the mask (what a stride-0 axis implies). -/
def constAlong : List Bool → List Nat → List Int → Bool
  | true :: ms, h :: hs, vals =>
    (blocks h (prod hs) vals).all (fun b => b == vals.take (prod hs)) &&
      constAlong ms hs (vals.take (prod hs))
  | false :: ms, h :: hs, vals => (blocks h (prod hs) vals).all (constAlong ms hs)
  | _, _, _ => true

/-- `unbroadcast(array)`: a 0-d or empty array is returned as it is; otherwise every stride-0 axis
(the layout's `bcast` mask — the only thing any helper reads from the layout) is given length 1. -/
def unbroadcastNd (l : Layout) (a : NdArr) : NdArr :=
  if a.shape = [] ∨ prod a.shape = 0 then a
  else ⟨collapsedShape l.bcast a.shape, collapse l.bcast a.shape a.vals⟩

/-- The logical array obtained by broadcasting `u` back to the shape of `a` (the observable of
`unbroadcast` that does not depend on the layout). -/
def broadcastBack (a u : NdArr) : NdArr := ⟨a.shape, expand u.shape a.shape u.vals⟩

/-- Index-wise cross-check of `expand` used by the driver: flat row-major position of an index. -/
def flatIndex : List Nat → List Nat → Nat
  | _ :: hs, i :: is => i * prod hs + flatIndex hs is
  | _, _ => 0

def expandByIndex (ushape shape : List Nat) (u : List Int) : List (Option Int) :=
  (allIndices shape).map fun idx =>
    u[flatIndex ushape ((ushape.zip idx).map fun p => if p.1 == 1 then 0 else p.2)]?

/-! ## numpy broadcasting of two logical arrays (`broadcast_arrays_minimal`) -/

def padShape (n : Nat) (s : List Nat) : List Nat := List.replicate (n - s.length) 1 ++ s

def commonShape : List Nat → List Nat → Option (List Nat)
  | [], [] => some []
  | a :: as, b :: bs =>
    if a = b ∨ b = 1 then (commonShape as bs).map (a :: ·)
    else if a = 1 then (commonShape as bs).map (b :: ·)
    else none
  | _, _ => none

def broadcastArraysNd (a b : NdArr) : Option (NdArr × NdArr) :=
  let n := max a.shape.length b.shape.length
  let sa := padShape n a.shape
  let sb := padShape n b.shape
  (commonShape sa sb).map fun c => (⟨c, expand sa c a.vals⟩, ⟨c, expand sb c b.vals⟩)

/-- `broadcast_arrays_minimal(a, b)` = `np.broadcast_arrays(unbroadcast(a), unbroadcast(b))`: the
arrays are broadcast to the *smallest* common shape, so (by design) the result's shape reads the
stride-0 axes of the first argument (the second one is always sent as a plain C array). -/
def bamNd (l : Layout) (a b : NdArr) : Option (NdArr × NdArr) :=
  broadcastArraysNd (unbroadcastNd l a) (unbroadcastNd Layout.plain b)

/-- Which axes of the first result of `broadcast_arrays_minimal` have stride 0: an axis longer than 1
in the (minimal) common shape on which the unbroadcast input has length 1. -/
def bamZeroStride (l : Layout) (a : NdArr) (common : List Nat) : List Bool :=
  let u := padShape common.length (unbroadcastNd l a).shape
  if prod common = 0 then common.map fun _ => false
  else (common.zip u).map fun p => decide (p.1 > 1) && p.2 == 1

/-- Spec of `broadcast_arrays_minimal` on logical arrays (no layout): both results have one shape,
and broadcasting them on to the full numpy common shape gives exactly `np.broadcast_arrays(a, b)`. -/
def specBamNd (a b ra rb : NdArr) : Bool :=
  match broadcastArraysNd a b with
  | none => false
  | some (fa, fb) =>
    ra.shape == rb.shape && ra.wf && rb.wf && bcCompatible ra.shape fa.shape &&
      decide (broadcastBack fa ra = fa) && decide (broadcastBack fb rb = fb)

/-! ## unique / categorical_ndarray / index_lookup on logical arrays -/

/-- `unique(array)` = `(U, I)`: sorted unique values, and the index array (shape, row-major values). -/
def uniqueNd (_l : Layout) (a : NdArr) : List Int × List Nat × List Nat :=
  (categories a.vals, a.shape, codes a.vals)

/-- `index_lookup(array, items)`: shape and row-major codes (`none` = NaN). -/
def lookupNd (_l : Layout) (items : List Int) (a : NdArr) : List Nat × List (Option Nat) :=
  (a.shape, lookupCodes items a.vals)

/-- A categorical array *derived* (view / slice / transpose / copy in any order) from a parent whose
values are `parent`: inherited categories, looked-up codes. -/
def derivedNd (l : Layout) (parent : List Int) (a : NdArr) : List Int × List Nat × List (Option Nat) :=
  (categories parent, lookupNd l (categories parent) a)

/-! ## check_sorted / coerce_numeric on logical arrays -/

/-- `check_sorted(array)`: `not (array[:-1] > array[1:]).any()` — along the first axis. -/
def sortedNd (_l : Layout) (a : NdArr) : Bool :=
  match a.shape with
  | [] => true
  | h :: hs =>
    let bs := blocks h (prod hs) a.vals
    !((bs.zip bs.tail).any fun p => (p.1.zip p.2).any fun q => decide (q.1 > q.2))

/-- `coerce_numeric` of a string array whose entries are decimal numerals (sent as the non-negative
number) or a non-numeric word (sent as a negative number): the number, or NaN. -/
def coerceNd (_l : Layout) (a : NdArr) : List Nat × List (Option Int) :=
  (a.shape, a.vals.map fun v => if 0 ≤ v then some v else none)

/-! ## Specs (evaluated by the driver on the implementation's output; logical arrays only) -/

def specUniqueNd (a : NdArr) (out : List Int × List Nat × List Nat) : Bool :=
  out.2.1 == a.shape && specUnique a.vals out.1 out.2.2

def specLookupNd (items : List Int) (a : NdArr) (out : List Nat × List (Option Nat)) : Bool :=
  out.1 == a.shape && specLookup items a.vals out.2

/-- Derived categorical array: the categories are strictly sorted and contain every value, the
codes have the array's shape, point at the values, and none is withheld. -/
def specDerivedNd (a : NdArr) (out : List Int × List Nat × List (Option Nat)) : Bool :=
  strictSorted out.1 && a.vals.all (fun x => out.1.contains x) &&
    specLookupNd out.1 a out.2 && out.2.2.all (·.isSome)

/-- `unbroadcast`: the result can be broadcast back to the shape of the input and that reproduces
the logical array. -/
def specUnbNd (a u : NdArr) : Bool :=
  bcCompatible u.shape a.shape && u.wf && decide (broadcastBack a u = a)

end GlueVerif.ArrayUtil
