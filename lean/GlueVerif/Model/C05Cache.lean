import GlueVerif.Model.SubsetEval
/-!
C05 — results always reflect the current data, regions and links (never a stale cache).

Core Lean only.  C01's evaluation model (`Model/SubsetEval`: object graph with identity, parameter
objects by reference, one `@memoize` table per decorated `to_mask`, keys `(table, state, data, view,
call form)`) extended with **mutation**:

* `setAttr a k c` — an attribute setter on an elementary selection (`st.lo/hi/att = …`,
                    `st.left/right/operator = …`, `st.indices = …`, `st.categories = …`, `st.roi = …`,
                    `st.pairs = …`, `st.slices = …`, `st.mask = …`): the *state object* `a` now refers to a
                    new parameter value; states that shared the old parameter object are unaffected;
* `editParam a k c` — an in-place edit of the parameter *object* of `a` (`roi.move_to`, `roi.rotate_to`,
                    `roi.vx[:] = …`, `pairs[0] = …`, `categories[k].add(…)`, `mask[i] = …`; also what
                    `state.move_to` does to a `RoiSubsetState`): every state sharing the object sees it;
* `dataMut m d`   — `Data.update_components`, `Data.update_values_from_data` (same / new shape),
                    adding / removing a link: the leaf environment changes (next *epoch*) and the code
                    invalidates what its `Policy` says — on the pinned tree
                    `clear_cache(subset.subset_state.to_mask)` for each subset of that dataset, which
                    empties **one** table (the one of the top-level state's class) and nothing for link
                    changes; on the repaired tree `clear_all_caches()`.

* re-entrant mutations (round 3) — in glue a data-side mutation is not atomic: it is a *script* of
                    `clear_all_caches()` calls, state changes and hub broadcasts, and hub listeners evaluate
                    selections inside their message handlers.  Section "Re-entrant evaluation" below:
                    `Phase`, `Listeners`, `expand`, the transcribed scripts (`Script.*`, `Mutation`), the
                    dirty-flag `flow` and `Sound`.

`Spec` is the property: every evaluation returns `Expr.denote` of the selection value the object
*currently* stands for, in the *current* leaf environment — which is what a freshly constructed,
never-evaluated deep copy returns with cleared memo tables (theorem `spec_always_fresh`).

The second part is the generic keyed cache (`FloodFillSubsetState._mask_cache`,
`HistogramLayerState._histogram_cache`, `StateAttributeCacheHelper._cache`).
-/
namespace GlueVerif.C05Cache
open GlueVerif.SubsetEval

/-! ## Mutations of the object graph -/

/-- `state.<field> = value` on an elementary selection: a new parameter object, the state object is
re-bound to it. `none` if `n` is not an elementary selection. -/
def setAttrG (g : Graph) (n : NodeId) (c : Content) : Option Graph :=
  match g.nodes[n]? with
  | some (.leaf k _) =>
    some { g with params := g.params ++ [c], nodes := g.nodes.set n (.leaf k g.params.length) }
  | _ => none

/-- In-place edit of the parameter object of the elementary selection `n`. -/
def editParamG (g : Graph) (n : NodeId) (c : Content) : Option Graph :=
  match g.nodes[n]? with
  | some (.leaf _ p) => if p < g.params.length then some { g with params := g.params.set p c } else none
  | _ => none

/-- The object `n` is an elementary selection of class `k`. -/
def kindOk (g : Graph) (n : NodeId) (k : Kind) : Bool :=
  match g.nodes[n]? with
  | some (.leaf k' _) => k' == k
  | _ => false

/-- `setAttrG` for a value of class `k` (refused when the object is of another class). -/
def setAttrK (g : Graph) (n : NodeId) (k : Kind) (c : Content) : Option Graph :=
  if kindOk g n k then setAttrG g n c else none

def editParamK (g : Graph) (n : NodeId) (k : Kind) (c : Content) : Option Graph :=
  if kindOk g n k then editParamG g n c else none

/-! ## The value an object currently stands for (computable abstraction function) -/

def mapOpt (f : Nat → Option Expr) : List Nat → Option (List Expr)
  | [] => some []
  | c :: cs =>
    match f c, mapOpt f cs with
    | some e, some es => some (e :: es)
    | _, _ => none

/-- The selection value of object `n` (children must be older objects: acyclic). -/
def exprOf (g : Graph) : Nat → NodeId → Option Expr
  | 0, _ => none
  | fuel + 1, n =>
    match g.nodes[n]? with
    | none => none
    | some (.leaf _ p) =>
      match g.params[p]? with
      | some c => some (.leaf c)
      | none => none
    | some (.bin op l r) =>
      if l < n ∧ r < n then
        match exprOf g fuel l, exprOf g fuel r with
        | some a, some b => some (.bin op a b)
        | _, _ => none
      else none
    | some (.inv c) =>
      if c < n then
        match exprOf g fuel c with
        | some a => some (.inv a)
        | none => none
      else none
    | some (.multiOr lst) =>
      match g.lists[lst]? with
      | none => none
      | some cs =>
        if cs ≠ [] ∧ cs.all (· < n) then
          match mapOpt (exprOf g fuel) cs with
          | some es => some (.multiOr es)
          | none => none
        else none

/-- **The demanded result** of `n.to_mask(data, view)`: `denote` of the value the object currently
stands for, in the current leaf environment. -/
def denoteNow (env : Env) (g : Graph) (n : NodeId) (d : DataId) (v : View) : Except Err Mask :=
  match exprOf g g.fuel n with
  | some e => e.denote env d v
  | none => .error .dangling

/-! ## Data-side mutations and what the code invalidates -/

inductive DataMut where
  | updateComponents      -- `Data.update_components({cid: values})`
  | updateValues          -- `Data.update_values_from_data(other)`, same shape
  | updateValuesShape     -- … with a new shape
  | addLink | removeLink
  deriving DecidableEq, Repr

inductive Inval where
  | none    -- nothing is cleared
  | top     -- `for subset in data.subsets: clear_cache(subset.subset_state.to_mask)`: one table
  | all     -- `clear_all_caches()`
  deriving DecidableEq, Repr

structure Policy where
  inval : DataMut → Inval

/-- The pinned tree. -/
def pinnedPolicy : Policy where
  inval
    | .updateComponents => .top | .updateValues => .top | .updateValuesShape => .top
    | .addLink => .none | .removeLink => .none

/-- The tree with `fix: clear all mask caches` (props.d/C05/fixes/F2-*.diff). -/
def repairedPolicy : Policy where
  inval := fun _ => .all

def Policy.ClearsAll (p : Policy) : Prop := ∀ m, p.inval m = .all

/-- What `dataMut` does to the memo tables. `cur` is the edit subset's (top-level) state. -/
def invalidate (tbl : ClassTable) (i : Inval) (h : Heap) (cur : NodeId) : Heap :=
  match i with
  | .none => h
  | .all => { h with memo := [] }
  | .top =>
    match h.g.nodes[cur]? with
    | some nd =>
      match tbl.memoTable nd with
      | some t => h.clearTable t
      | none => h
    | none => h

/-- The leaf environment of every epoch (an epoch ends with each data-side mutation). -/
abbrev World := Nat → Env

/-! ## Programs -/

inductive Op where
  | base (o : SubsetEval.Op)
  | setAttr (a : Var) (k : Kind) (c : Content)
  | editParam (a : Var) (k : Kind) (c : Content)
  | dataMut (m : DataMut) (d : DataId)
  /-- `clear_all_caches()` on its own: every memo table is emptied, nothing else changes. -/
  | clearAll
  /-- A bare data-side state change (arrays re-bound, a component popped, the derivable set replaced …):
  the leaf environment moves on, **nothing** is invalidated.  The phases of a re-entrant mutation (below)
  are made of `clearAll`, `change` and the evaluations hub listeners perform when a message is delivered. -/
  | change
  deriving Repr

namespace Spec

/-- Selections are the *current* object graph; nothing is cached. -/
structure State where
  g : Graph := { nodes := [.leaf .base 0], params := [emptyContent], lists := [] }
  vars : List NodeId := []
  cur : NodeId := 0
  epoch : Nat := 0
  deriving Repr

def bindOpt (s : State) (r : Graph × Option NodeId) : State × Obs :=
  match r.2 with
  | some n => ({ s with g := r.1, vars := s.vars ++ [n] }, .none)
  | none => ({ s with g := r.1 }, .bad)

def stepBase (tbl : ClassTable) (env : Env) (s : State) : SubsetEval.Op → State × Obs
  | .leaf k c => let r := mkLeaf s.g k c; ({ s with g := r.1, vars := s.vars ++ [r.2] }, .none)
  | .bin op a b =>
    match s.vars[a]?, s.vars[b]? with
    | some x, some y => bindOpt s (mkBin tbl s.g op x y)
    | _, _ => (s, .bad)
  | .inv a =>
    match s.vars[a]? with
    | some x => bindOpt s (mkInv tbl s.g x)
    | none => (s, .bad)
  | .multiOr as =>
    match lookupAll s.vars as with
    | some (x :: xs) => let r := mkMultiOr s.g (x :: xs); ({ s with g := r.1, vars := s.vars ++ [r.2] }, .none)
    | _ => (s, .bad)
  | .copy a =>
    match s.vars[a]? with
    | some x => bindOpt s (copyNode tbl s.g.fuel s.g x)
    | none => (s, .bad)
  | .eval a d v _ =>
    match s.vars[a]? with
    | some x => (s, .mask (denoteNow env s.g x d v))
    | none => (s, .bad)
  | .edit m a =>
    match s.vars[a]? with
    | some x =>
      let r := Impl.editGraph tbl s.g m x s.cur
      match r.2 with
      | some n => ({ s with g := r.1, cur := n }, .none)
      | none => ({ s with g := r.1 }, .bad)
    | none => (s, .bad)
  | .evalCur d v => (s, .mask (denoteNow env s.g s.cur d v))
  | .useCur => ({ s with vars := s.vars ++ [s.cur] }, .none)
  | .child a i =>
    match s.vars[a]? with
    | some x =>
      match s.g.child x i with
      | some y => ({ s with vars := s.vars ++ [y] }, .none)
      | none => (s, .bad)
    | none => (s, .bad)

def step (tbl : ClassTable) (w : World) (s : State) : Op → State × Obs
  | .base o => stepBase tbl (w s.epoch) s o
  | .setAttr a k c =>
    match s.vars[a]? with
    | some n =>
      match setAttrK s.g n k c with
      | some g' => ({ s with g := g' }, .none)
      | none => (s, .bad)
    | none => (s, .bad)
  | .editParam a k c =>
    match s.vars[a]? with
    | some n =>
      match editParamK s.g n k c with
      | some g' => ({ s with g := g' }, .none)
      | none => (s, .bad)
    | none => (s, .bad)
  | .dataMut _ _ => ({ s with epoch := s.epoch + 1 }, .none)
  | .clearAll => (s, .none)
  | .change => ({ s with epoch := s.epoch + 1 }, .none)

def run (tbl : ClassTable) (w : World) : State → List Op → State × List Obs
  | s, [] => (s, [])
  | s, op :: ops =>
    let r := step tbl w s op
    let rs := run tbl w r.1 ops
    (rs.1, r.2 :: rs.2)

end Spec

namespace Impl

/-- The code: C01's heap (object graph + array objects + memo tables) and the epoch. -/
structure State where
  s : SubsetEval.Impl.State := SubsetEval.Impl.init
  epoch : Nat := 0
  deriving Repr

def setG (st : State) (g' : Graph) : State :=
  { st with s := { st.s with h := { st.s.h with g := g' } } }

def step (tbl : ClassTable) (pol : Policy) (w : World) (st : State) : Op → State × SubsetEval.Impl.Out
  | .base o =>
    let r := SubsetEval.Impl.step tbl (w st.epoch) st.s o
    ({ st with s := r.1 }, r.2)
  | .setAttr a k c =>
    match st.s.vars[a]? with
    | some n =>
      match setAttrK st.s.h.g n k c with
      | some g' => (setG st g', ⟨.none, none⟩)
      | none => (st, ⟨.bad, none⟩)
    | none => (st, ⟨.bad, none⟩)
  | .editParam a k c =>
    match st.s.vars[a]? with
    | some n =>
      match editParamK st.s.h.g n k c with
      | some g' => (setG st g', ⟨.none, none⟩)
      | none => (st, ⟨.bad, none⟩)
    | none => (st, ⟨.bad, none⟩)
  | .dataMut m _ =>
    ({ s := { st.s with h := invalidate tbl (pol.inval m) st.s.h st.s.cur }, epoch := st.epoch + 1 },
      ⟨.none, none⟩)
  | .clearAll => ({ st with s := { st.s with h := { st.s.h with memo := [] } } }, ⟨.none, none⟩)
  | .change => ({ st with epoch := st.epoch + 1 }, ⟨.none, none⟩)

def run (tbl : ClassTable) (pol : Policy) (w : World) : State → List Op → State × List SubsetEval.Impl.Out
  | s, [] => (s, [])
  | s, op :: ops =>
    let r := step tbl pol w s op
    let rs := run tbl pol w r.1 ops
    (rs.1, r.2 :: rs.2)

end Impl

/-! ## Staleness -/

/-- A key the `@memoize` wrapper of object `n` really consults: the table is the one of the object's
class and the view is hashable. -/
def effectiveB (tbl : ClassTable) (g : Graph) (t : Table) (n : NodeId) (v : View) : Bool :=
  v.hashable &&
    (match g.nodes[n]? with
      | some nd => decide (tbl.memoTable nd = some t)
      | none => false)

/-- The cached array `a` equals the demanded result for object `n` on `(d, v)`. -/
def coherentB (env : Env) (h : Heap) (n : NodeId) (d : DataId) (v : View) (a : ArrId) : Bool :=
  match h.arrays[a]? with
  | some m => decide (denoteNow env h.g n d v = .ok m)
  | none => false

/-- The consulted entry of object `n` in call form `f` (if any) is not stale. -/
def keyCleanB (tbl : ClassTable) (env : Env) (h : Heap) (n : NodeId) (d : DataId) (v : View) (f : Form) : Bool :=
  match h.g.nodes[n]? with
  | none => true
  | some nd =>
    match tbl.memoTable nd, v.hashable with
    | some t, true =>
      match h.lookup ⟨t, n, d, v, f⟩ with
      | some a => coherentB env h n d v a
      | none => true
    | _, _ => true

/-- **No stale key is reachable** from `(n, f)` on `(d, v)`: the consulted entry of the object and of
every object below it, in the call form its parent uses, is coherent (absent, or equal to the
demanded result). -/
def cleanBelow (tbl : ClassTable) (env : Env) (h : Heap) :
    Nat → NodeId → DataId → View → Form → Bool
  | 0, _, _, _, _ => false
  | fuel + 1, n, d, v, f =>
    keyCleanB tbl env h n d v f &&
      (match h.g.nodes[n]? with
        | none => true
        | some (.leaf _ _) => true
        | some (.bin _ l r) => cleanBelow tbl env h fuel l d v .pos && cleanBelow tbl env h fuel r d v .pos
        | some (.inv c) => cleanBelow tbl env h fuel c d v .pos
        | some (.multiOr lst) =>
          match h.g.lists[lst]? with
          | none => true
          | some cs => cs.all fun c => cleanBelow tbl env h fuel c d v .kw)

/-- Object `n` can reach the parameter object `p` (through operands). -/
def reachesParam (g : Graph) : Nat → NodeId → ParamId → Bool
  | 0, _, _ => true
  | fuel + 1, n, p =>
    match g.nodes[n]? with
    | none => false
    | some (.leaf _ q) => q == p
    | some (.bin _ l r) => reachesParam g fuel l p || reachesParam g fuel r p
    | some (.inv c) => reachesParam g fuel c p
    | some (.multiOr lst) =>
      match g.lists[lst]? with
      | none => false
      | some cs => cs.any fun c => reachesParam g fuel c p

/-- Object `n` has object `target` below it (or is it). -/
def reachesNode (g : Graph) : Nat → NodeId → NodeId → Bool
  | 0, _, _ => true
  | fuel + 1, n, target =>
    n == target ||
      (match g.nodes[n]? with
        | none => false
        | some (.leaf _ _) => false
        | some (.bin _ l r) => reachesNode g fuel l target || reachesNode g fuel r target
        | some (.inv c) => reachesNode g fuel c target
        | some (.multiOr lst) =>
          match g.lists[lst]? with
          | none => false
          | some cs => cs.any fun c => reachesNode g fuel c target)

/-- Hypothesis of the partial theorem, as a run-time check on one op in one state: an evaluation is
allowed if no stale key is reachable from the evaluated object; everything else is always allowed. -/
def opClean (tbl : ClassTable) (w : World) (st : Impl.State) : Op → Bool
  | .base (.eval a d v f) =>
    match st.s.vars[a]? with
    | some x => cleanBelow tbl (w st.epoch) st.s.h st.s.h.g.fuel x d v f
    | none => true
  | .base (.evalCur d v) => cleanBelow tbl (w st.epoch) st.s.h st.s.h.g.fuel st.s.cur d v .kw
  | _ => true

/-- Every evaluation of the program happens in a state in which no stale key is reachable from the
evaluated object. -/
def progClean (tbl : ClassTable) (pol : Policy) (w : World) : Impl.State → List Op → Bool
  | _, [] => true
  | st, op :: ops => opClean tbl w st op && progClean tbl pol w (Impl.step tbl pol w st op).1 ops

/-- A *structural* sufficient condition (no values involved): a parameter mutation is harmless if no
memo entry belongs to an object that can reach the mutated object. -/
def mutationUnseen (st : Impl.State) : Op → Bool
  | .setAttr a _ _ =>
    match st.s.vars[a]? with
    | some n => st.s.h.memo.all fun x => !reachesNode st.s.h.g st.s.h.g.fuel x.key.node n
    | none => true
  | .editParam a _ _ =>
    match st.s.vars[a]? with
    | some n =>
      match st.s.h.g.nodes[n]? with
      | some (.leaf _ p) => st.s.h.memo.all fun x => !reachesParam st.s.h.g st.s.h.g.fuel x.key.node p
      | _ => true
    | none => true
  -- a bare state change is harmless only while nothing is memoised
  | .change => st.s.h.memo.isEmpty
  | _ => true

def progUnseen (tbl : ClassTable) (pol : Policy) (w : World) : Impl.State → List Op → Bool
  | _, [] => true
  | st, op :: ops => mutationUnseen st op && progUnseen tbl pol w (Impl.step tbl pol w st op).1 ops

def Op.isParamMut : Op → Bool
  | .setAttr _ _ _ => true
  | .editParam _ _ _ => true
  | _ => false

/-- A state change that is not coupled to an invalidation (`change`): allowed only as a phase of a re-entrant
mutation, where the script says when the caches are cleared. -/
def Op.isBareChange : Op → Bool
  | .change => true
  | _ => false

/-! ## Re-entrant evaluation: a data-side mutation is a sequence of phases

In glue no data-side mutation is atomic: `Data.update_values_from_data`, `remove_component`, the `coords`
setter, the link manager … change the state step by step and **broadcast hub messages in between**; hub
listeners (viewers, layer artists) evaluate selections re-entrantly inside their handlers — through the same
memo tables.  A mutation is therefore a *script*: the order of cache clears, state changes and broadcasts as
coded (`glue/core/data.py`, `link_manager.py`, `data_collection.py`, transcribed in `Script` below), and a
history carries `listeners`: for every message class the evaluations performed when it is delivered. -/

/-- The message classes broadcast by data-side mutations (`glue/core/message.py`). -/
inductive Msg where
  | numerical      -- NumericalDataChangedMessage
  | remove         -- DataRemoveComponentMessage
  | compsChanged   -- ComponentsChangedMessage
  | add            -- DataAddComponentMessage
  | extDerivable   -- ExternallyDerivableComponentsChangedMessage
  | update         -- DataUpdateMessage (label)
  | replaced       -- ComponentReplacedMessage
  | pixelAligned   -- PixelAlignedDataChangedMessage
  deriving DecidableEq, Repr

inductive Phase where
  | clear            -- `clear_all_caches()`
  | change           -- a state change that selections can see (the *current state* moves on)
  | msg (m : Msg)    -- `hub.broadcast(m)`: every subscribed listener runs now
  deriving DecidableEq, Repr

def Phase.isMsg : Phase → Bool
  | .msg _ => true
  | _ => false

/-- What a listener does in its handler: evaluations only (`subset.to_mask`, `data.get_mask`,
`compute_statistic(subset_state=…)`). -/
inductive LEval where
  | eval (a : Var) (d : DataId) (v : View) (f : Form)
  | evalCur (d : DataId) (v : View)
  deriving Repr

def LEval.toOp : LEval → Op
  | .eval a d v f => .base (.eval a d v f)
  | .evalCur d v => .base (.evalCur d v)

/-- `listeners`: (message class, evaluations performed when a message of that class is delivered), in
subscription order. -/
abbrev Listeners := List (Msg × List LEval)

def Listeners.on (L : Listeners) (m : Msg) : List LEval :=
  (L.filter (fun e => e.1 == m)).flatMap (·.2)

/-- One phase as primitive steps of any kind `α` (the driver threads its post-processing tags through the
same function). -/
def expandPhaseWith {α : Type} (clr chg : α) (on : Msg → List α) : Phase → List α
  | .clear => [clr]
  | .change => [chg]
  | .msg m => on m

def expandPhase (L : Listeners) : Phase → List Op :=
  expandPhaseWith .clearAll .change (fun m => (L.on m).map LEval.toOp)

def expandScript (L : Listeners) (s : List Phase) : List Op := s.flatMap (expandPhase L)

/-- Histories with re-entrant mutations. -/
inductive LOp where
  | op (o : Op)
  | mutate (script : List Phase)
  deriving Repr

def expand (L : Listeners) : List LOp → List Op
  | [] => []
  | .op o :: r => o :: expand L r
  | .mutate s :: r => expandScript L s ++ expand L r

/-- **Dirty-flag flow of a script.**  `dirty` = a state change has happened and the caches have not been
cleared since.  `none` = a message is broadcast while dirty (listeners may be answered from entries of the
previous state, or fill the tables with entries nothing clears afterwards … see the witnesses in `Props/C05`). -/
def flow : Bool → List Phase → Option Bool
  | d, [] => some d
  | _, .clear :: r => flow false r
  | _, .change :: r => flow true r
  | d, .msg _ :: r => if d then none else flow false r

/-- **"No stale key is reachable at any broadcast point"** as a property of the script alone: started with
coherent tables, every message is broadcast — and the mutation ends — with all state changes followed by a
clear. -/
def Sound (s : List Phase) : Prop := flow false s = some false

instance (s : List Phase) : Decidable (Sound s) := by unfold Sound; infer_instance

namespace Script

/-- `Data._set_externally_derivable_components(comps)` when the derivable set differs (otherwise the method
returns at once): the set is replaced, `clear_all_caches()`, `ExternallyDerivableComponentsChangedMessage`. -/
def extSync : List Phase := [.change, .clear, .msg .extDerivable]

/-- Which internal derived components go with a removed component: a forest (`node deps siblings`). -/
inductive Rem where
  | nil
  | node (deps : Rem) (siblings : Rem)
  deriving Repr

/-- `Data._remove_component(cid)` for every tree of the forest, in order:
`_components.pop(cid)`; `_removed_derived_that_depend_on(cid)` (the dependents, recursively, each with its own
clear and messages); `clear_all_caches()`; `DataRemoveComponentMessage`; `ComponentsChangedMessage`. -/
def remove : Rem → List Phase
  | .nil => []
  | .node deps sib => [.change] ++ remove deps ++ [.clear, .msg .remove, .msg .compsChanged] ++ remove sib

def Rem.leaves : Nat → Rem
  | 0 => .nil
  | n + 1 => .node .nil (Rem.leaves n)

/-- `Data.add_component(comp, label)` with a new ComponentID: no selection object can refer to it yet, the
current state of every existing selection is unchanged; `DataAddComponentMessage`, `ComponentsChangedMessage`. -/
def add : List Phase := [.msg .add, .msg .compsChanged]

def adds (n : Nat) : List Phase := (List.replicate n add).flatten

/-- `with hub.delay_callbacks(): …` — the messages of the block are queued and delivered, in order, when the
block is left; clears and state changes happen at once. -/
def delayed (ps : List Phase) : List Phase := ps.filter (fun p => !p.isMsg) ++ ps.filter Phase.isMsg

/-- `Data._update_world_components(ndim)` (what the `coords` setter runs): inside a delay block the `nOld`
world components are removed (`_remove_component`), `nNew` are added (`add_component`). -/
def world (nOld nNew : Nat) : List Phase := delayed (remove (Rem.leaves nOld) ++ adds nNew)

/-- `Data.update_components(mapping)`: `comp._data = data` for all; `clear_all_caches()`;
`NumericalDataChangedMessage`. -/
def updateComponents : List Phase := [.change, .clear, .msg .numerical]

/-- `Data.add_component(comp, cid)` with a ComponentID already in use: `_components[cid] = comp`;
`clear_all_caches()`; `NumericalDataChangedMessage`. -/
def replaceComponent : List Phase := [.change, .clear, .msg .numerical]

/-- `Data.update_id(old, new)`: the component moves to the new id; `clear_all_caches()`;
`ComponentReplacedMessage`. -/
def updateId : List Phase := [.change, .clear, .msg .replaced]

/-- `Data.update_values_from_data(data)`:
1. `remove_component` for every component without a match (forest `removed`);
2. if the number of dimensions changes (`ndim = (world components, pixel forest, new pixel components)`):
   `coords = None` (world components removed inside a delay block), the pixel components are removed;
3. `_shape = data._shape`; `comp_old._data = comp_new._data` for the matching ones; `clear_all_caches()`;
4. (new ndim) the pixel components are re-generated; 5. the `added` new components are added;
6. `label = data.label` (`DataUpdateMessage` if it differs); 7. `coords = data.coords` (`world` if it differs);
8. `clear_all_caches()`; `NumericalDataChangedMessage`. -/
def updateValues (removed : Rem) (ndim : Option (Nat × Rem × Nat)) (added : Nat) (label : Bool)
    (coords : Option (Nat × Nat)) : List Phase :=
  remove removed ++
  (match ndim with | some (w, pix, _) => world w 0 ++ remove pix | none => []) ++
  [.change, .clear] ++
  (match ndim with | some (_, _, n) => adds n | none => []) ++
  adds added ++
  (if label then [.msg .update] else []) ++
  (match coords with | some (a, b) => world a b | none => []) ++
  [.clear, .msg .numerical]

/-- Where the link manager and the data collection run re-entrantly: `LinkManager._component_removed`
(on `DataRemoveComponentMessage`: links that refer to the component are dropped) and
`DataCollection._sync_link_manager` (on `ComponentsChangedMessage`) call
`update_externally_derivable_components`, i.e. one `extSync` block for every dataset whose derivable set
changed — *before* later-subscribed listeners receive the triggering message.  Which datasets change is a fact
about the links (an input, like the leaf environment: the harness reports the
`ExternallyDerivableComponentsChangedMessage`s it saw); what a block does is the code above.
`mergeSync skeleton observed` inserts the blocks where they were seen. -/
def splitSync : List Msg → Nat × List Msg
  | .extDerivable :: r => let q := splitSync r; (q.1 + 1, q.2)
  | l => (0, l)

def syncs (n : Nat) : List Phase := (List.replicate n extSync).flatten

def mergeSync : List Phase → List Msg → List Phase
  | [], obs => syncs (splitSync obs).1
  | .msg m :: r, obs =>
    let q := splitSync obs
    syncs q.1 ++ .msg m :: mergeSync r (q.2.drop 1)
  | p :: r, obs => p :: mergeSync r obs

end Script

/-- The data-side mutations, as the repaired code runs them. -/
inductive Mutation where
  | updateComponents
  | updateValues (removed : Script.Rem) (ndim : Option (Nat × Script.Rem × Nat)) (added : Nat) (label : Bool)
      (coords : Option (Nat × Nat))
  | addComponent
  | replaceComponent
  | removeComponent (r : Script.Rem)
  | updateId
  | setCoords (nOld nNew : Nat)
  /-- `DataCollection.add_link / remove_link / set_links`: the list of links is updated, then
  `update_externally_derivable_components` — nothing but `extSync` blocks. -/
  | linkChange
  deriving Repr

def Mutation.script : Mutation → List Phase
  | .updateComponents => Script.updateComponents
  | .updateValues r n a l c => Script.updateValues r n a l c
  | .addComponent => Script.add
  | .replaceComponent => Script.replaceComponent
  | .removeComponent r => Script.remove r
  | .updateId => Script.updateId
  | .setCoords a b => Script.world a b
  | .linkChange => []

/-- The script of a mutation with the link-manager blocks where they were observed. -/
def Mutation.phases (m : Mutation) (observed : List Msg) : List Phase := Script.mergeSync m.script observed

/-- Histories of the repaired code: primitive ops and the transcribed mutations (`sync` = where
`ExternallyDerivableComponentsChangedMessage`s were seen, see `Script.mergeSync`). -/
inductive MOp where
  | op (o : Op)
  | mutation (m : Mutation) (sync : List Msg)
  deriving Repr

def MOp.toLOp : MOp → LOp
  | .op o => .op o
  | .mutation m sync => .mutate (m.phases sync)

/-- The trace a hub listener subscribed to everything sees: for every message the number of
`clear_all_caches()` calls since the previous one (the cache generation counts them), and the number after the
last message. -/
def traceOf : Nat → List Phase → List (Nat × Option Msg)
  | k, [] => [(k, none)]
  | k, .clear :: r => traceOf (k + 1) r
  | k, .change :: r => traceOf k r
  | k, .msg m :: r => (k, some m) :: traceOf 0 r

/-- Per-phase tick (epoch offset) at every message and at the end: which measurement of the leaf environment
belongs to which tick. -/
def ticksOf : Nat → List Phase → List Nat
  | t, [] => [t]
  | t, .clear :: r => ticksOf t r
  | t, .change :: r => ticksOf (t + 1) r
  | t, .msg _ :: r => t :: ticksOf t r

/-! ## Statistics and histograms read masks through `to_mask` -/

/-- The elements of `vals` selected by the mask (row-major). -/
def maskedVals (vals : List Int) (m : Mask) : List Int :=
  ((vals.zip m.bits).filter (·.2)).map (·.1)

/-- `compute_statistic('sum', …, subset_state=…)` on exact integer data. -/
def maskedSum (vals : List Int) (m : Mask) : Int := (maskedVals vals m).foldl (· + ·) 0

/-- `compute_histogram` with `nb` unit bins centred on `0 … nb-1` on exact integer data. -/
def maskedHist (vals : List Int) (nb : Nat) (m : Mask) : List Nat :=
  (List.range nb).map fun (k : Nat) => ((maskedVals vals m).filter (fun x => x == Int.ofNat k)).length

/-! ## Generic keyed caches (flood fill, histogram layer, attribute helpers) -/

/-- A single-slot cache as `FloodFillSubsetState._mask_cache` / `HistogramLayerState._histogram_cache`:
`(key, value)`; a request with input `i` reuses the value iff `key i` equals the stored key. -/
def slotStep {I K O : Type} [DecidableEq K] (key : I → K) (f : I → O) (c : Option (K × O)) (i : I) :
    Option (K × O) × O :=
  match c with
  | some (k, o) => if k = key i then (c, o) else (some (key i, f i), f i)
  | none => (some (key i, f i), f i)

def slotRun {I K O : Type} [DecidableEq K] (key : I → K) (f : I → O) :
    Option (K × O) → List I → List O
  | _, [] => []
  | c, i :: is => (slotStep key f c i).2 :: slotRun key f (slotStep key f c i).1 is

/-- A dictionary cache as `StateAttributeCacheHelper._cache` (first match wins, as a `dict`). -/
def dictStep {I K O : Type} [DecidableEq K] (key : I → K) (f : I → O) (c : List (K × O)) (i : I) :
    List (K × O) × O :=
  match c.find? (fun e => e.1 = key i) with
  | some e => (c, e.2)
  | none => (c ++ [(key i, f i)], f i)

def dictRun {I K O : Type} [DecidableEq K] (key : I → K) (f : I → O) :
    List (K × O) → List I → List O
  | _, [] => []
  | c, i :: is => (dictStep key f c i).2 :: dictRun key f (dictStep key f c i).1 is

/-- The same slot with the hit test the code *actually* uses made explicit: `same stored current` need not be
equality (`np.allclose` on the limits, a comparison of rounded values, of hashes, of labels …).  On a hit the
stored pair — key included — is left untouched, as in `update_histogram` / `FloodFillSubsetState.mask`.
`slotStep` is the instance `same := (· = ·)`. -/
def slotStepRel {I K O : Type} (same : K → K → Bool) (key : I → K) (f : I → O) (c : Option (K × O)) (i : I) :
    Option (K × O) × O :=
  match c with
  | some (k, o) => if same k (key i) then (c, o) else (some (key i, f i), f i)
  | none => (some (key i, f i), f i)

def slotRunRel {I K O : Type} (same : K → K → Bool) (key : I → K) (f : I → O) :
    Option (K × O) → List I → List O
  | _, [] => []
  | c, i :: is => (slotStepRel same key f c i).2 :: slotRunRel same key f (slotStepRel same key f c i).1 is

end GlueVerif.C05Cache
