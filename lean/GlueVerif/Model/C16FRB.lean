/-
C16 — fixed-resolution buffer (`glue/core/fixed_resolution_buffer.py`), executable model over the
core `Rat` (no Mathlib).

* `Deriv`            : the recursion tree of `translate_pixel` for one pixel axis of the source
                       dataset (leaves: pixel / world coordinate of the reference dataset, errors;
                       inner nodes: an external link whose `_using` is an affine combination);
                       `val` = the coordinates it returns, `dims` = the `dimensions` it returns,
                       `err?` = the exception it raises (first in evaluation order).
* `Bound`, `gridPoints` : `bounds`, `np.linspace`, `np.meshgrid(indexing='ij')` (row-major points).
* `rne`              : `np.round` (half-to-even) followed by `astype(int)`, on exact rationals.
* `Impl.computeAxis` : body of the `for ipix, pix in enumerate(data.pixel_component_ids)` loop
                       (translate, round, bounds test, zeroing of invalid coordinates).
* `Impl.finish`      : broadcast check, fancy indexing of the component / the subset mask,
                       `array[invalid_all] = nan | False`, dropping of scalar dimensions.
* `Impl.frbUncached` : `compute_fixed_resolution_buffer(..., cache_id=None)`.
* `Impl.frb`         : the same function with a cache id: `ARRAY_CACHE` / `PIXEL_CACHE` as coded
                       (hash tuples, `AnyScalar` wildcards placed by `bounds_for_cache`, reset of
                       the pixel cache on a `(data, target_data)` mismatch, partial fill on errors).
* `Impl.runOps`      : request histories, with in-place edits of selection objects / component
                       arrays between requests (the caches are keyed on object identity).
* `Spec.*`           : what the property demands — per sample the value / membership of a nearest
                       source pixel at the linked position, NaN / False outside.
-/
namespace GlueVerif.FRB

/-! ## errors, cells, arrays -/

inductive Err
  | valueError        -- ValueError (steps < 1; len(pixel_coords) ≠ target_data.ndim)
  | incompatible      -- IncompatibleAttribute
  | nonPixel          -- Exception("Dependency on non-pixel component")
  | incompatibleData  -- IncompatibleDataException (broadcast=False)
  deriving Repr, BEq, DecidableEq, Inhabited

/-- One element of a buffer: a (float) data value, NaN, or a mask bit. -/
inductive Cell
  | num (v : Int)
  | nan
  | bool (b : Bool)
  deriving Repr, BEq, DecidableEq, Inhabited

structure Arr where
  shape : List Nat
  data : List Cell
  deriving Repr, BEq, DecidableEq, Inhabited

/-! ## bounds and the sample grid -/

inductive Bound
  | scalar (s : Rat)
  | range (lo hi : Rat) (n : Int)
  deriving Repr, BEq, DecidableEq, Inhabited

def Bound.isRange : Bound → Bool
  | .range .. => true
  | .scalar _ => false

/-- `np.linspace(lo, hi, n)` (exact). -/
def linspace (lo hi : Rat) (n : Nat) : List Rat :=
  (List.range n).map fun (k : Nat) => if n ≤ 1 then lo else lo + (k : Rat) * ((hi - lo) / ((n : Rat) - 1))

/-- `np.linspace(*bound) if isinstance(bound, tuple) else bound`. -/
def Bound.positions : Bound → List Rat
  | .scalar s => [s]
  | .range lo hi n => linspace lo hi n.toNat

/-- Points of `np.meshgrid(*axes, indexing='ij')` in row-major (C) order. -/
def cart : List (List Rat) → List (List Rat)
  | [] => [[]]
  | xs :: rest => xs.flatMap fun x => (cart rest).map (x :: ·)

def gridPoints (bs : List Bound) : List (List Rat) := cart (bs.map Bound.positions)

/-- Shape of the returned array: scalar dimensions are dropped. -/
def outShape : List Bound → List Nat
  | [] => []
  | .scalar _ :: bs => outShape bs
  | .range _ _ n :: bs => n.toNat :: outShape bs

/-- The `bound[2] < 1` check. -/
def boundsValid (bs : List Bound) : Bool :=
  bs.all fun b => match b with
    | .range _ _ n => decide (1 ≤ n)
    | .scalar _ => true

/-! ## rounding -/

/-- `np.round(q).astype(int)` on an exact rational: nearest integer, ties to the even one. -/
def rne (q : Rat) : Int :=
  let f := q.floor
  let r := q - (f : Rat)
  if r < 1 / 2 then f else if 1 / 2 < r then f + 1 else if f % 2 = 0 then f else f + 1

/-! ## `translate_pixel` -/

/-- `Σ aᵢ · pᵢ` (missing coordinates count as `0`). -/
def dot : List Rat → List Rat → Rat
  | [], _ => 0
  | a :: as, p => a * p.headD 0 + dot as p.tail

/-- `sorted(set(xs))`. -/
def insertSorted (x : Nat) : List Nat → List Nat
  | [] => [x]
  | y :: ys => if x < y then x :: y :: ys else if x = y then y :: ys else y :: insertSorted x ys

def sortDedup (xs : List Nat) : List Nat := xs.foldr insertSorted []

/-- The recursion tree of `translate_pixel(target_data, pixel_coords, cid)`. -/
inductive Deriv
  /-- `cid in data.pixel_component_ids`: `pixel_coords[k], [k]`. -/
  | pixel (k : Nat)
  /-- a world coordinate component of `target_data` (affine coordinates):
  `comp._calculate(view=pixel_coords), dependent_axes(data.coords, comp.axis)`. -/
  | world (coefs : List Rat) (c : Rat) (dims : List Nat)
  /-- an external link: recurse into `link._from`, `_using` = `c + Σ coefsᵢ · fromᵢ`. -/
  | via (coefs : List Rat) (c : Rat) (froms : List Deriv)
  /-- not derivable: `IncompatibleAttribute`. -/
  | missing
  /-- a main / derived component of `target_data`: `Exception("Dependency on non-pixel …")`. -/
  | nonPixel
  deriving Repr, Inhabited

mutual
/-- The exception raised, if any (depth-first, in `_from` order). -/
def Deriv.err? : Deriv → Option Err
  | .pixel _ => none
  | .world _ _ _ => none
  | .via _ _ fs => Deriv.errList? fs
  | .missing => some .incompatible
  | .nonPixel => some .nonPixel
def Deriv.errList? : List Deriv → Option Err
  | [] => none
  | d :: ds => match d.err? with
    | some e => some e
    | none => Deriv.errList? ds
end

mutual
/-- The translated coordinate at one sample point. -/
def Deriv.val (pt : List Rat) : Deriv → Rat
  | .pixel k => pt.getD k 0
  | .world coefs c _ => dot coefs pt + c
  | .via coefs c fs => dot coefs (Deriv.valList pt fs) + c
  | .missing => 0
  | .nonPixel => 0
def Deriv.valList (pt : List Rat) : List Deriv → List Rat
  | [] => []
  | d :: ds => d.val pt :: Deriv.valList pt ds
end

mutual
/-- The `dimensions` returned. -/
def Deriv.dims : Deriv → List Nat
  | .pixel k => [k]
  | .world _ _ ds => ds
  | .via _ _ fs => sortDedup (Deriv.dimsList fs)
  | .missing => []
  | .nonPixel => []
def Deriv.dimsList : List Deriv → List Nat
  | [] => []
  | d :: ds => d.dims ++ Deriv.dimsList ds
end

/-- A coefficient that is not zero belongs to an axis listed in `dims`. -/
def coefsCovered (coefs : List Rat) (dims : List Nat) : Bool :=
  (List.range coefs.length).all fun j => coefs.getD j 0 == 0 || dims.contains j

mutual
/-- Well-formed: the `dimensions` reported for a world coordinate contain every pixel axis it
depends on (this is what C15 `need_subset_dep` proves for `dependent_axes`). -/
def Deriv.wf : Deriv → Bool
  | .pixel _ => true
  | .world coefs _ dims => coefsCovered coefs dims
  | .via _ _ fs => Deriv.wfList fs
  | .missing => true
  | .nonPixel => true
def Deriv.wfList : List Deriv → Bool
  | [] => true
  | d :: ds => d.wf && Deriv.wfList ds
end

/-! ## datasets, selections, requests -/

structure Dataset where
  shape : List Nat
  comps : List (List Int)      -- main components, row-major values
  deriving Repr, Inhabited

/-- Selection objects (`SubsetState` trees) over main components and pixel components. -/
inductive SExpr
  | range (ds comp : Nat) (lo hi : Rat)      -- RangeSubsetState(lo, hi, att=main component)
  | gt (ds comp : Nat) (v : Rat)             -- InequalitySubsetState  (comp > v)
  | pixRange (ds axis : Nat) (lo hi : Rat)   -- RangeSubsetState on a pixel component id
  | elems (indices : List Nat)               -- ElementSubsetState(indices, data=None): any dataset
  | and (a b : SExpr)
  | or (a b : SExpr)
  | xor (a b : SExpr)
  | not (a : SExpr)
  deriving Repr, Inhabited

structure World where
  datasets : List Dataset
  /-- `deriv target_data data ipix` for `target_data ≠ data` (what `LinkManager` installed). -/
  deriv : Nat → Nat → Nat → Deriv
  /-- selection objects by identity -/
  states : Nat → SExpr

def World.ds (w : World) (i : Nat) : Dataset := w.datasets.getD i ⟨[], []⟩

def World.ndim (w : World) (i : Nat) : Nat := (w.ds i).shape.length

/-- `translate_pixel(target_data, ·, data.pixel_component_ids[ipix])`. -/
def World.derivOf (w : World) (tgt src ipix : Nat) : Deriv :=
  if tgt = src then .pixel ipix else w.deriv tgt src ipix

def World.wf (w : World) : Prop := ∀ t s k, (w.deriv t s k).wf = true

/-- What is asked for: a component (by uuid), or a selection object (by identity). -/
inductive Target
  | comp (ds c : Nat)      -- target_cid = main component `c` of dataset `ds`
  | pix (ds axis : Nat)    -- target_cid = pixel component id of dataset `ds`
  | state (sid : Nat)      -- subset_state = selection object `sid`
  deriving Repr, BEq, DecidableEq, Inhabited

structure Req where
  data : Nat
  bounds : List Bound
  target : Nat               -- target_data
  what : Target
  broadcast : Bool
  cacheId : Option Nat
  deriving Repr, Inhabited

/-! ## values at a source pixel -/

/-- Row-major flat index. -/
def ravel : List Nat → List Int → Nat
  | _ :: ns, i :: is => i.toNat * ns.foldl (· * ·) 1 + ravel ns is
  | _, _ => 0

def inBounds : List Nat → List Int → Bool
  | [], [] => true
  | n :: ns, i :: is => decide (0 ≤ i) && decide (i < (n : Int)) && inBounds ns is
  | _, _ => false

def compAt (d : Dataset) (c : Nat) (idx : List Int) : Int :=
  (d.comps.getD c []).getD (ravel d.shape idx) 0

/-- `IncompatibleAttribute` raised when a selection is evaluated on dataset `d`. -/
def SExpr.err? (w : World) (d : Nat) : SExpr → Option Err
  | .range ds c _ _ => if ds = d ∧ c < (w.ds d).comps.length then none else some .incompatible
  | .gt ds c _ => if ds = d ∧ c < (w.ds d).comps.length then none else some .incompatible
  | .pixRange ds ax _ _ => if ds = d ∧ ax < w.ndim d then none else some .incompatible
  | .elems ix => if ix.all (fun i => decide (i < (w.ds d).shape.foldl (· * ·) 1)) then none else some .incompatible
  | .and a b => match a.err? w d with
    | some e => some e
    | none => b.err? w d
  | .or a b => match a.err? w d with
    | some e => some e
    | none => b.err? w d
  | .xor a b => match a.err? w d with
    | some e => some e
    | none => b.err? w d
  | .not a => a.err? w d

/-- Membership of source pixel `idx` of dataset `d`. -/
def SExpr.eval (w : World) (d : Nat) (idx : List Int) : SExpr → Bool
  | .range _ c lo hi => let v : Rat := (compAt (w.ds d) c idx : Int); decide (lo ≤ v) && decide (v ≤ hi)
  | .gt _ c x => let v : Rat := (compAt (w.ds d) c idx : Int); decide (x < v)
  | .pixRange _ ax lo hi => let v : Rat := (idx.getD ax 0 : Int); decide (lo ≤ v) && decide (v ≤ hi)
  | .elems ix => ix.contains (ravel (w.ds d).shape idx)
  | .and a b => a.eval w d idx && b.eval w d idx
  | .or a b => a.eval w d idx || b.eval w d idx
  | .xor a b => (a.eval w d idx) != (b.eval w d idx)
  | .not a => !(a.eval w d idx)

/-- The exception raised by `data.get_data(target_cid, …)` / `data.get_mask(subset_state, …)`. -/
def cellErr? (w : World) (r : Req) : Option Err :=
  match r.what with
  | .comp ds c => if ds = r.data ∧ c < (w.ds r.data).comps.length then none else some .incompatible
  | .pix ds ax => if ds = r.data ∧ ax < w.ndim r.data then none else some .incompatible
  | .state sid => (w.states sid).err? w r.data

/-- Value of the requested attribute / membership in the requested selection at source pixel
`idx` (which is inside the source array). -/
def lookupCell (w : World) (r : Req) (idx : List Int) : Cell :=
  match r.what with
  | .comp _ c => .num (compAt (w.ds r.data) c idx)
  | .pix _ ax => .num (idx.getD ax 0)
  | .state sid => .bool ((w.states sid).eval w r.data idx)

/-- `invalid_value`. -/
def invalidCell (r : Req) : Cell :=
  match r.what with
  | .state _ => .bool false
  | _ => .nan

/-! ## the implementation -/

/-- What one iteration of the `ipix` loop produces (and what `PIXEL_CACHE` stores). -/
structure AxisT where
  coord : List Int       -- translated_coord (invalid entries reset to 0), over the whole grid
  dims : List Nat        -- dimensions
  invalid : List Bool
  deriving Repr, BEq, DecidableEq, Inhabited

namespace Impl

/-- The `else` branch of the `ipix` loop: translate, round, bounds test, zero the invalid ones. -/
def computeAxis (w : World) (tgt src ipix : Nat) (bs : List Bound) : Except Err AxisT :=
  if bs.length ≠ w.ndim tgt then .error .valueError else
  let d := w.derivOf tgt src ipix
  match d.err? with
  | some e => .error e
  | none =>
    let raw := (gridPoints bs).map fun pt => rne (d.val pt)
    let size : Int := ((w.ds src).shape.getD ipix 0 : Nat)
    let invalid := raw.map fun i => decide (i < 0) || decide (size ≤ i)
    .ok ⟨List.zipWith (fun i b => if b then 0 else i) raw invalid, d.dims, invalid⟩

/-- `invalid_all |= invalid` over all axes. -/
def invalidAll (n : Nat) (axes : List AxisT) : List Bool :=
  axes.foldl (fun acc ax => List.zipWith (· || ·) acc ax.invalid) (List.replicate n false)

def dimsAllOf (axes : List AxisT) : List Nat := axes.flatMap (·.dims)

/-- Everything after the `ipix` loop. -/
def finish (w : World) (r : Req) (axes : List AxisT) : Except Err Arr :=
  let dimsAll := dimsAllOf axes
  if decide (r.data ≠ r.target) && !r.broadcast &&
      (List.range (w.ndim r.target)).any (fun i =>
        ((r.bounds.getD i (.scalar 0)).isRange) && !dimsAll.contains i) then
    .error .incompatibleData
  else
    match cellErr? w r with
    | some e => .error e
    | none =>
      let n := (gridPoints r.bounds).length
      let arr := (List.range n).map fun j => lookupCell w r (axes.map fun ax => ax.coord.getD j 0)
      let data := List.zipWith (fun v b => if b then invalidCell r else v) arr (invalidAll n axes)
      .ok ⟨outShape r.bounds, data⟩

def axesPlain (w : World) (r : Req) : List Nat → Except Err (List AxisT)
  | [] => .ok []
  | ipix :: rest =>
    match computeAxis w r.target r.data ipix r.bounds with
    | .error e => .error e
    | .ok ax =>
      match axesPlain w r rest with
      | .error e => .error e
      | .ok axs => .ok (ax :: axs)

/-- `compute_fixed_resolution_buffer(data, bounds, target_data, …, cache_id=None)`. -/
def frbUncached (w : World) (r : Req) : Except Err Arr :=
  if !boundsValid r.bounds then .error .valueError else
  match axesPlain w r (List.range (w.ndim r.data)) with
  | .error e => .error e
  | .ok axes => finish w r axes

/-! ### the caches -/

/-- An element of a stored bounds list: the `AnyScalar()` wildcard or the bound itself. -/
inductive KB
  | any
  | lit (b : Bound)
  deriving Repr, BEq, DecidableEq, Inhabited

/-- `stored == requested` for one element (`AnyScalar.__eq__` is `np.isscalar(other)`). -/
def KB.matches : KB → Bound → Bool
  | .any, .scalar _ => true
  | .any, .range .. => false
  | .lit b, b' => decide (b = b')

/-- `stored_list == bounds` (Python list equality: same length, element-wise). -/
def matchesAll : List KB → List Bound → Bool
  | [], [] => true
  | k :: ks, b :: bs => k.matches b && matchesAll ks bs
  | _, _ => false

/-- `i not in dimensions and np.isscalar(bounds[i])`. -/
def isWild (dims : List Nat) (i : Nat) (b : Bound) : Bool := !dims.contains i && !b.isRange

/-- `bounds_for_cache(bounds, dimensions)`, positions counted from `i`. -/
def boundsForCacheFrom (dims : List Nat) : Nat → List Bound → List KB
  | _, [] => []
  | i, b :: bs =>
    (if isWild dims i b then KB.any else KB.lit b) :: boundsForCacheFrom dims (i + 1) bs

def boundsForCache (bs : List Bound) (dims : List Nat) : List KB := boundsForCacheFrom dims 0 bs

/-- `ARRAY_CACHE[cache_id]`: the hash tuple
`(data, cache_bounds, target_data, target_cid.uuid | subset_state, broadcast)` and the array. -/
structure ArrayEntry where
  data : Nat
  kbs : List KB
  target : Nat
  what : Target
  broadcast : Bool
  array : Arr
  deriving Repr, Inhabited

/-- `ARRAY_CACHE[cache_id]['hash'] == current_array_hash`. -/
def ArrayEntry.matches (e : ArrayEntry) (r : Req) : Bool :=
  decide (e.data = r.data) && matchesAll e.kbs r.bounds && decide (e.target = r.target) &&
    decide (e.what = r.what) && decide (e.broadcast = r.broadcast)

/-- `PIXEL_CACHE[cache_id]`: `'hash' = (data, target_data)` and one entry per `ipix`. -/
structure PixelCache where
  data : Nat
  target : Nat
  entries : Nat → Option (List KB × AxisT)

structure Caches where
  array : Nat → Option ArrayEntry
  pixel : Nat → Option PixelCache

def Caches.empty : Caches := ⟨fun _ => none, fun _ => none⟩

def upd {α : Type} (f : Nat → Option α) (k : Nat) (v : Option α) : Nat → Option α :=
  fun k' => if k' = k then v else f k'

/-- `cache_id in PIXEL_CACHE and ipix in PIXEL_CACHE[cache_id] and …['bounds'] == bounds`. -/
def pixelHit (pc : Option PixelCache) (ipix : Nat) (bs : List Bound) : Option AxisT :=
  match pc with
  | none => none
  | some p =>
    match p.entries ipix with
    | none => none
    | some (kbs, ax) => if matchesAll kbs bs then some ax else none

/-- `PIXEL_CACHE[cache_id][ipix] = {…}` (creating `PIXEL_CACHE[cache_id]` if necessary). -/
def pixelStore (pc : Option PixelCache) (r : Req) (ipix : Nat) (ax : AxisT) : PixelCache :=
  let e := (boundsForCache r.bounds ax.dims, ax)
  match pc with
  | none => ⟨r.data, r.target, upd (fun _ => none) ipix (some e)⟩
  | some p => ⟨p.data, p.target, upd p.entries ipix (some e)⟩

/-- The `ipix` loop with a cache id: returns the axes (or the exception) and the state of
`PIXEL_CACHE[cache_id]` at that moment. -/
def axesCached (w : World) (r : Req) : List Nat → Option PixelCache → Except Err (List AxisT) × Option PixelCache
  | [], pc => (.ok [], pc)
  | ipix :: rest, pc =>
    match pixelHit pc ipix r.bounds with
    | some ax =>
      match axesCached w r rest pc with
      | (.error e, pc') => (.error e, pc')
      | (.ok axs, pc') => (.ok (ax :: axs), pc')
    | none =>
      match computeAxis w r.target r.data ipix r.bounds with
      | .error e => (.error e, pc)
      | .ok ax =>
        match axesCached w r rest (some (pixelStore pc r ipix ax)) with
        | (.error e, pc') => (.error e, pc')
        | (.ok axs, pc') => (.ok (ax :: axs), pc')

/-- `cache_id in ARRAY_CACHE and ARRAY_CACHE[cache_id]['hash'] == current_array_hash`. -/
def arrayHit (c : Caches) (id : Nat) (r : Req) : Option Arr :=
  match c.array id with
  | some e => if e.matches r then some e.array else none
  | none => none

/-- `PIXEL_CACHE[cache_id]` after the reset of a pixel cache that does not match at the level of
`(data, target_data)`. -/
def pixelStart (c : Caches) (id : Nat) (r : Req) : Option PixelCache :=
  match c.pixel id with
  | some p => if p.data = r.data ∧ p.target = r.target then some p else none
  | none => none

/-- `compute_fixed_resolution_buffer` as coded: answer and new cache state. -/
def frb (w : World) (c : Caches) (r : Req) : Except Err Arr × Caches :=
  if !boundsValid r.bounds then (.error .valueError, c) else
  match r.cacheId with
  | none => (frbUncached w r, c)
  | some id =>
    match arrayHit c id r with
    | some a => (.ok a, c)
    | none =>
      match axesCached w r (List.range (w.ndim r.data)) (pixelStart c id r) with
      | (.error e, pc) => (.error e, ⟨c.array, upd c.pixel id pc⟩)
      | (.ok axes, pc) =>
        match finish w r axes with
        | .error e => (.error e, ⟨c.array, upd c.pixel id pc⟩)
        | .ok a =>
          (.ok a, ⟨upd c.array id (some ⟨r.data, boundsForCache r.bounds (dimsAllOf axes), r.target,
            r.what, r.broadcast, a⟩), upd c.pixel id pc⟩)

/-! ### the array cache with an arbitrary hit test

`ARRAY_CACHE[cache_id]['hash'] == current_array_hash` replaced by an arbitrary relation between the
stored entry and the request (a tolerance comparison, rounded / down-cast bounds, a coarser tuple …).
The code is the instance `hit := ArrayEntry.matches`.  Used by `cache_key_exact_needed`. -/

def arrayHitWith (hit : ArrayEntry → Req → Bool) (c : Caches) (id : Nat) (r : Req) : Option Arr :=
  match c.array id with
  | some e => if hit e r then some e.array else none
  | none => none

/-- `frb` with the hit test of `ARRAY_CACHE` as a parameter. -/
def frbWith (hit : ArrayEntry → Req → Bool) (w : World) (c : Caches) (r : Req) : Except Err Arr × Caches :=
  if !boundsValid r.bounds then (.error .valueError, c) else
  match r.cacheId with
  | none => (frbUncached w r, c)
  | some id =>
    match arrayHitWith hit c id r with
    | some a => (.ok a, c)
    | none =>
      match axesCached w r (List.range (w.ndim r.data)) (pixelStart c id r) with
      | (.error e, pc) => (.error e, ⟨c.array, upd c.pixel id pc⟩)
      | (.ok axes, pc) =>
        match finish w r axes with
        | .error e => (.error e, ⟨c.array, upd c.pixel id pc⟩)
        | .ok a =>
          (.ok a, ⟨upd c.array id (some ⟨r.data, boundsForCache r.bounds (dimsAllOf axes), r.target,
            r.what, r.broadcast, a⟩), upd c.pixel id pc⟩)

/-- Answers of a history of requests, caches threaded through. -/
def runReqsWith (hit : ArrayEntry → Req → Bool) (w : World) : Caches → List Req → List (Except Err Arr)
  | _, [] => []
  | c, r :: rs => (frbWith hit w c r).1 :: runReqsWith hit w (frbWith hit w c r).2 rs

def absRat (q : Rat) : Rat := if q < 0 then -q else q

/-- `np.allclose(a, b, rtol, atol)` on one number: `|a − b| ≤ atol + rtol·|b|`. -/
def closeTo (atol rtol a b : Rat) : Bool := decide (absRat (a - b) ≤ atol + rtol * absRat b)

def boundClose (atol rtol : Rat) : Bound → Bound → Bool
  | .scalar a, .scalar b => closeTo atol rtol a b
  | .range lo hi n, .range lo' hi' n' => closeTo atol rtol lo lo' && closeTo atol rtol hi hi' && decide (n = n')
  | _, _ => false

def closeAll (atol rtol : Rat) : List KB → List Bound → Bool
  | [], [] => true
  | .any :: ks, b :: bs => !b.isRange && closeAll atol rtol ks bs
  | .lit b :: ks, b' :: bs => boundClose atol rtol b b' && closeAll atol rtol ks bs
  | _, _ => false

/-- The hit test of `ARRAY_CACHE` with the bounds compared by `np.allclose`. -/
def ArrayEntry.closeMatches (atol rtol : Rat) (e : ArrayEntry) (r : Req) : Bool :=
  decide (e.data = r.data) && closeAll atol rtol e.kbs r.bounds && decide (e.target = r.target) &&
    decide (e.what = r.what) && decide (e.broadcast = r.broadcast)

/-! ### histories -/

inductive Op
  | req (r : Req)
  /-- in-place edit of a selection object (`state.hi = 100`): same identity, new content -/
  | editState (sid : Nat) (e : SExpr)
  /-- in-place replacement of a component's values (`update_components`): the data change -/
  | setComp (ds c : Nat) (vals : List Int)
  deriving Repr, Inhabited

def Op.isReq : Op → Bool
  | .req _ => true
  | _ => false

def setCompW (w : World) (ds c : Nat) (vals : List Int) : World :=
  { w with datasets := (List.range w.datasets.length).map fun i =>
      let d := w.ds i
      if i = ds then { d with comps := (List.range d.comps.length).map fun j =>
        if j = c then vals else d.comps.getD j [] } else d }

/-- Answers of the requests of a history, with the caches threaded through (`cached := true`) or
every request answered as if `cache_id=None` (`cached := false`). -/
def runOps (cached : Bool) : World → Caches → List Op → List (Except Err Arr)
  | _, _, [] => []
  | w, c, .req r :: ops =>
    if cached then
      let (a, c') := frb w c r
      a :: runOps cached w c' ops
    else frbUncached w r :: runOps cached w c ops
  | w, c, .editState sid e :: ops =>
    runOps cached { w with states := fun s => if s = sid then e else w.states s } c ops
  | w, c, .setComp ds k vals :: ops => runOps cached (setCompW w ds k vals) c ops

end Impl

/-! ## the specification -/

namespace Spec

/-- The integers nearest to `q` (two of them exactly half-way between pixels). -/
def nearestInts (q : Rat) : List Int :=
  let f := q.floor
  let r := q - (f : Rat)
  if r < 1 / 2 then [f] else if 1 / 2 < r then [f + 1] else [f, f + 1]

/-- The position in the source dataset's pixel frame linked to sample point `pt`. -/
def linkedPos (w : World) (r : Req) (pt : List Rat) : List Rat :=
  (List.range (w.ndim r.data)).map fun k => (w.derivOf r.target r.data k).val pt

/-- Value / membership of source pixel `idx`; NaN / False when it lies outside the source. -/
def cellAt (w : World) (r : Req) (idx : List Int) : Cell :=
  if inBounds (w.ds r.data).shape idx then lookupCell w r idx else invalidCell r

/-- The sample with `np.round`'s tie rule. -/
def sample (w : World) (r : Req) (pt : List Rat) : Cell :=
  cellAt w r ((linkedPos w r pt).map rne)

def cartInt : List (List Int) → List (List Int)
  | [] => [[]]
  | xs :: rest => xs.flatMap fun x => (cartInt rest).map (x :: ·)

/-- `c` is the value of *a* nearest source pixel (any tie rule). -/
def sampleOk (w : World) (r : Req) (pt : List Rat) (c : Cell) : Bool :=
  (cartInt ((linkedPos w r pt).map nearestInts)).any fun idx => decide (cellAt w r idx = c)

/-- Some coordinate of the linked position lies exactly half-way between two pixels. -/
def isTie (w : World) (r : Req) (pt : List Rat) : Bool :=
  (linkedPos w r pt).any fun q => (nearestInts q).length == 2

/-- The buffer the property describes. -/
def frb (w : World) (r : Req) : Arr :=
  ⟨outShape r.bounds, (gridPoints r.bounds).map (sample w r)⟩

def allOk (w : World) (r : Req) : List (List Rat) → List Cell → Bool
  | [], [] => true
  | pt :: pts, c :: cs => sampleOk w r pt c && allOk w r pts cs
  | _, _ => false

/-- The oracle on an output array. -/
def accepts (w : World) (r : Req) (a : Arr) : Bool :=
  a.shape == outShape r.bounds && allOk w r (gridPoints r.bounds) a.data

/-- The requests for which a buffer is due (everything else must raise). -/
def defined (w : World) (r : Req) : Bool :=
  boundsValid r.bounds && decide (r.bounds.length = w.ndim r.target) &&
  (List.range (w.ndim r.data)).all (fun k => (w.derivOf r.target r.data k).err?.isNone) &&
  !(decide (r.data ≠ r.target) && !r.broadcast &&
      (List.range (w.ndim r.target)).any (fun i =>
        ((r.bounds.getD i (.scalar 0)).isRange) &&
          !((List.range (w.ndim r.data)).flatMap fun k => (w.derivOf r.target r.data k).dims).contains i)) &&
  (cellErr? w r).isNone

/-- Oracle on an answer (array or exception). -/
def acceptsAnswer (w : World) (r : Req) : Except Err Arr → Bool
  | .ok a => defined w r && accepts w r a
  | .error _ => !defined w r

end Spec

end GlueVerif.FRB
