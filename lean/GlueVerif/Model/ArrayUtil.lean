/-
L0/L1 model: Python slices, chunking, slice combination, broadcasting, view shapes, unique.
Mirrors `glue/utils/array.py` (find_chunk_shape, iterate_chunks, combine_slices, unbroadcast,
view_shape, unique).  Core Lean only.
-/
namespace GlueVerif.ArrayUtil

/-! ## Python `slice.indices` (CPython `PySlice_AdjustIndices` semantics) -/

/-- `slice(start, stop, step).indices(len)`; `none` = Python `None`. `step = some 0` is rejected
(`ValueError` in Python) by returning `none`. -/
def sliceIndices (start stop step : Option Int) (len : Nat) : Option (Int × Int × Int) :=
  let n : Int := len
  let st : Int := step.getD 1
  if st == 0 then none else
  let lower : Int := if st < 0 then -1 else 0
  let upper : Int := if st < 0 then n - 1 else n
  let clampI (v : Int) : Int :=
    if v < 0 then (if v + n < lower then lower else v + n)
    else (if v > upper then upper else v)
  let b := match start with
    | none => if st < 0 then upper else lower
    | some v => clampI v
  let e := match stop with
    | none => if st < 0 then lower else upper
    | some v => clampI v
  some (b, e, st)

/-- `list(range(b, e, st))` for `st > 0`, with fuel = an upper bound on the number of items. -/
def rangeUp (b e : Int) (st : Nat) : Nat → List Int
  | 0 => []
  | fuel + 1 => if b < e then b :: rangeUp (b + st) e st fuel else []

/-- Number of elements of `range(b, e, st)` for `st > 0`. -/
def rangeLen (b e : Int) (st : Nat) : Nat :=
  if b < e then ((e - b).toNat + st - 1) / st else 0

def pyRange (b e : Int) (st : Nat) : List Int := rangeUp b e st (rangeLen b e st)

/-! ## find_chunk_shape -/

/-- Processes the shape from the last axis backwards, exactly like the `for size in shape[::-1]`
loop: returns (chunk shape, max_repeat_remaining). -/
def fcs : List Nat → Nat → List Nat × Nat
  | [], n => ([], n)
  | size :: rest, n =>
    let r := fcs rest n
    if r.2 > size then (size :: r.1, r.2 / size) else (r.2 :: r.1, 1)

def findChunkShape (shape : List Nat) (nMax : Nat) : List Nat := (fcs shape nMax).1

/-! ## iterate_chunks -/

abbrev Chunk := List (Nat × Nat)   -- per axis (start, stop)

/-- The carry loop `for i in range(ndim-1): if start[i] >= shape[i]: start[i] = 0; start[i+1] += chunk[i+1]`. -/
def carry : List Nat → List Nat → List Nat → List Nat
  | s0 :: s1 :: ss, h0 :: hs, _ :: c1 :: cs =>
    if s0 ≥ h0 then 0 :: carry ((s1 + c1) :: ss) hs (c1 :: cs)
    else s0 :: carry (s1 :: ss) hs (c1 :: cs)
  | ss, _, _ => ss

def chunkAt (start shape chunk : List Nat) : Chunk :=
  match start, shape, chunk with
  | s :: ss, h :: hs, c :: cs => (s, min (s + c) h) :: chunkAt ss hs cs
  | _, _, _ => []

def bumpFirst : List Nat → List Nat → List Nat
  | s :: ss, c :: _ => (s + c) :: ss
  | ss, _ => ss

/-- The literal `while` loop of `iterate_chunks` (for `ndim ≥ 1`), with fuel. -/
def iterLoop (shape chunk : List Nat) : Nat → List Nat → List Chunk
  | 0, _ => []
  | fuel + 1, start =>
    let cur := chunkAt start shape chunk
    let start' := carry (bumpFirst start chunk) shape chunk
    if start'.getLast?.getD 0 ≥ shape.getLast?.getD 0 then [cur]
    else cur :: iterLoop shape chunk fuel start'

def ceilDiv (a b : Nat) : Nat := (a + b - 1) / b

def numChunks : List Nat → List Nat → Nat
  | h :: hs, c :: cs => ceilDiv h c * numChunks hs cs
  | _, _ => 1

/-- `list(iterate_chunks(shape, chunk_shape=chunk))` as the code computes it (literal loop). -/
def iterateChunksLoop (shape chunk : List Nat) : List Chunk :=
  if shape.foldl (· * ·) 1 = 0 then []
  else iterLoop shape chunk (numChunks shape chunk) (shape.map fun _ => 0)

/-- 1-d chunks of `[0, h)` with chunk length `c`, starting at `s`. -/
def chunks1d (h c : Nat) : Nat → Nat → List (Nat × Nat)
  | 0, _ => []
  | fuel + 1, s => if s < h then (s, min (s + c) h) :: chunks1d h c fuel (s + c) else []

/-- Product form: first axis varies fastest. -/
def iterateChunksProd : List Nat → List Nat → List Chunk
  | h :: hs, c :: cs =>
    (iterateChunksProd hs cs).flatMap fun tail => (chunks1d h c h 0).map (· :: tail)
  | _, _ => [[]]

/-- Error classification of the public entry point. -/
inductive IterErr | valueError
  deriving Repr, BEq

/-- `iterate_chunks(shape, chunk_shape, n_max)` including argument checking.  `ndim = 0` (a 0-d
array: exactly one element): the code yields the single empty chunk `()` and stops (explicit branch
since fix `C04h`; the pinned tree yielded it and then raised `IndexError` from `start_index[0]`) —
which is what `iterateChunksLoop [] [] = [[]]` and the product form `iterateChunksProd [] [] = [[]]`
give, so the `ndim = 0` case needs no branch of its own here. -/
def iterateChunks (shape : List Nat) (chunkShape : Option (List Nat)) (nMax : Option Nat) :
    Except IterErr (List Chunk) :=
  if shape.foldl (· * ·) 1 = 0 then .ok [] else
  match chunkShape, nMax with
  | none, none => .error .valueError
  | some _, some _ => .error .valueError
  | none, some n => .ok (iterateChunksLoop shape (findChunkShape shape n))
  | some cs, none =>
    if cs.length ≠ shape.length then .error .valueError
    else if (cs.zip shape).any (fun p => p.1 > p.2) then .error .valueError
    else .ok (iterateChunksLoop shape cs)

/-! ## combine_slices (on normalised triples, positive steps) -/

/-- First two indices (positions in slice 1) of elements of `range(beg, end, step2)` that lie on
slice 1's lattice — the bounded search loop of the code. -/
def firstTwo (beg1 : Int) (step1 step2 : Nat) (e : Int) : Nat → Int → List Int → List Int
  | 0, _, acc => acc
  | fuel + 1, idx, acc =>
    if idx < e then
      if (idx - beg1) % (step1 : Int) == 0 then
        let acc' := acc ++ [(idx - beg1) / (step1 : Int)]
        if acc'.length == 2 then acc' else firstTwo beg1 step1 step2 e fuel (idx + step2) acc'
      else firstTwo beg1 step1 step2 e fuel (idx + step2) acc
    else acc

/-- `combine_slices` after `slice.indices`: inputs `(beg1,end1,step1) (beg2,end2,step2)` with
positive steps; output `(start, stop, step)`. -/
def combineNorm (beg1 end1 : Int) (step1 : Nat) (beg2 end2 : Int) (step2 : Nat) : Int × Int × Int :=
  if beg2 ≥ end1 || end2 ≤ beg1 then (0, 0, 1) else
  let beg0 := max beg1 beg2
  let e := min end1 end2
  let beg := if (beg0 - beg2) % (step2 : Int) != 0 then beg0 + (step2 - ((beg0 - beg2) % (step2 : Int))) else beg0
  let idxs := firstTwo beg1 step1 step2 e (rangeLen beg e step2) beg []
  match idxs with
  | [] => (0, 0, 1)
  | [i] => (i, i + 1, 1)
  | i :: j :: _ =>
    let endNew := (e - beg1) / (step1 : Int)
    let endNew := if (e - beg1) % (step1 : Int) != 0 then endNew + 1 else endNew
    (i, endNew, j - i)

/-- Spec: positions `k` within `range(slice1)` whose element belongs to `range(slice2)`. -/
def combineSpec (beg1 end1 : Int) (step1 : Nat) (beg2 end2 : Int) (step2 : Nat) : List Nat :=
  let r1 := pyRange beg1 end1 step1
  let r2 := pyRange beg2 end2 step2
  (List.range r1.length).filter fun k => r2.contains (r1.getD k 0)

/-- Positions selected by applying the slice `(b, e, st)` (non-negative, already normalised
against the length `n`) to a sequence of length `n`. -/
def applySliceTo (n : Nat) (b e st : Int) : List Nat :=
  match sliceIndices (some b) (some e) (some st) n with
  | some (b', e', st') => (pyRange b' e' st'.toNat).map Int.toNat
  | none => []

/-! ## strided arrays, unbroadcast, broadcast_to -/

structure Strided where
  shape   : List Nat
  strides : List Nat       -- in elements; 0 = broadcast axis
  deriving Repr, BEq

/-- Linear offset of an index tuple. -/
def offset : List Nat → List Nat → Nat
  | i :: is, s :: ss => i * s + offset is ss
  | _, _ => 0

def unbroadcast (a : Strided) : Strided :=
  { shape := (a.shape.zip a.strides).map fun p => if p.2 == 0 then 1 else p.1,
    strides := a.strides }

/-- `np.broadcast_to(a, shape)` for equal ndim: axes of length 1 are stretched with stride 0. -/
def broadcastTo (a : Strided) (shape : List Nat) : Option Strided :=
  if a.shape.length ≠ shape.length then none else
  if (a.shape.zip shape).all (fun p => p.1 == p.2 || p.1 == 1) then
    some { shape := shape,
           strides := (a.shape.zip (a.strides.zip shape)).map fun p =>
             if p.1 == 1 && p.2.2 != 1 then 0 else p.2.1 }
  else none

/-- All index tuples below a shape, row-major. -/
def allIndices : List Nat → List (List Nat)
  | [] => [[]]
  | h :: hs => (List.range h).flatMap fun i => (allIndices hs).map (i :: ·)

/-! ## view_shape -/

inductive ViewItem where
  | int (i : Int)
  | slice (start stop step : Option Int)
  deriving Repr, BEq

/-- Shape of `a[view]` for a tuple of ints and slices (no more entries than axes; no Ellipsis —
the harness expands Ellipsis before sending).  `none` = IndexError. -/
def viewShape : List Nat → List ViewItem → Option (List Nat)
  | shape, [] => some shape
  | [], _ :: _ => none
  | h :: hs, .int i :: vs =>
    if (-(h : Int)) ≤ i ∧ i < h then viewShape hs vs else none
  | h :: hs, .slice a b c :: vs =>
    match sliceIndices a b c h with
    | none => none
    | some (b', e', st') =>
      let n := if st' > 0 then rangeLen b' e' st'.toNat else rangeLen e' b' (-st').toNat
      (viewShape hs vs).map (n :: ·)

/-! ## unique (sorted categories + codes) -/

def insertSorted (x : Int) : List Int → List Int
  | [] => [x]
  | y :: ys => if x < y then x :: y :: ys else if x = y then y :: ys else y :: insertSorted x ys

def categories (xs : List Int) : List Int := xs.foldr insertSorted []

def indexOf (x : Int) : List Int → Nat
  | [] => 0
  | y :: ys => if x = y then 0 else indexOf x ys + 1

def codes (xs : List Int) : List Nat := xs.map fun x => indexOf x (categories xs)

/-- `index_lookup(data, items)` — what a `categorical_ndarray` *derived* from another one (slice,
reordering, view, copy: `__array_finalize__` hands the parent's categories down) uses for its codes:
the position of each value in the inherited categories, `none` (NaN) when the value is absent. -/
def lookupCodes (cats : List Int) (dv : List Int) : List (Option Nat) :=
  dv.map fun x => if cats.contains x then some (indexOf x cats) else none

end GlueVerif.ArrayUtil

/-! ## Executable specifications (what the property demands of an output) -/
namespace GlueVerif.ArrayUtil

def prod (xs : List Nat) : Nat := xs.foldr (· * ·) 1

/-- `idx` lies in the box `ch`. -/
def inChunk : List Nat → Chunk → Bool
  | i :: is, (a, b) :: cs => a ≤ i && i < b && inChunk is cs
  | [], [] => true
  | _, _ => false

def chunkSize (ch : Chunk) : Nat := prod (ch.map fun p => p.2 - p.1)

def chunkWithin : Chunk → List Nat → Bool
  | (a, b) :: cs, h :: hs => a < b && b ≤ h && chunkWithin cs hs
  | [], [] => true
  | _, _ => false

/-- Every index tuple below `shape` lies in exactly one chunk; every chunk is a non-empty box
inside `shape`. -/
def isPartition (shape : List Nat) (chunks : List Chunk) : Bool :=
  chunks.all (chunkWithin · shape) &&
  (allIndices shape).all fun idx => (chunks.filter (inChunk idx)).length == 1

def specFcs (shape : List Nat) (nMax : Nat) (out : List Nat) : Bool :=
  out.length == shape.length && decide (prod out ≤ nMax) &&
  (out.zip shape).all fun p => 1 ≤ p.1 && p.1 ≤ p.2

def specIter (shape : List Nat) (chunkShape : Option (List Nat)) (nMax : Option Nat)
    (out : List Chunk) : Bool :=
  isPartition shape out &&
  (match nMax with | some n => out.all (fun ch => chunkSize ch ≤ n) | none => true) &&
  (match chunkShape with
   | some cs => out.all (fun ch => (ch.zip cs).all fun p => p.1.2 - p.1.1 ≤ p.2)
   | none => true)

/-- The combined slice `(b,e,st)`, applied to the view `range(slice1)`, picks exactly the
positions of elements also chosen by slice 2 — same positions, same order. -/
def specCombine (len : Nat) (s1 s2 : Option Int × Option Int × Option Int) (out : Int × Int × Int) : Bool :=
  match sliceIndices s1.1 s1.2.1 s1.2.2 len, sliceIndices s2.1 s2.2.1 s2.2.2 len with
  | some (b1, e1, st1), some (b2, e2, st2) =>
    if st1 > 0 ∧ st2 > 0 then
      let n1 := rangeLen b1 e1 st1.toNat
      applySliceTo n1 out.1 out.2.1 out.2.2 == combineSpec b1 e1 st1.toNat b2 e2 st2.toNat
    else false
  | _, _ => false

def specUnbroadcast (a : Strided) (out : Strided) : Bool :=
  match broadcastTo out a.shape with
  | none => false
  | some back =>
    back.shape == a.shape &&
    (allIndices a.shape).all fun idx => offset idx back.strides == offset idx a.strides

def strictSorted : List Int → Bool
  | x :: y :: rest => x < y && strictSorted (y :: rest)
  | _ => true

def specUnique (xs : List Int) (cats : List Int) (cds : List Nat) : Bool :=
  strictSorted cats && cds.length == xs.length &&
  (xs.zip cds).all (fun p => cats[p.2]? == some p.1) &&
  cats.all (fun c => xs.contains c)

/-- Spec for the codes of a derived categorical array: `categories[codes[i]] == values[i]` wherever a
code is given, and a code is withheld (NaN) only for a value that is not a category. -/
def specLookup (cats : List Int) (dv : List Int) (cds : List (Option Nat)) : Bool :=
  cds.length == dv.length &&
  (dv.zip cds).all fun p => match p.2 with
    | some k => cats[k]? == some p.1
    | none => !cats.contains p.1

end GlueVerif.ArrayUtil
